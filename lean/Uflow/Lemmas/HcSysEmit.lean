import Uflow.Lemmas.HcSysPSend
import Uflow.Lemmas.HcInvLoops
import Uflow.Lemmas.HcSysCodec

/-!
C01Hc, part 4: what `flush` puts on the wire.

`flush_spec`: the frames `flush` emits are ack frames carrying `pr.baseId`, data frames all of whose
datagrams are fragment datagrams `p.datagram fid` of packets of the emission history (the history
extended by the packets the `PSend.emit` calls of this very `flush` returned), and sync frames;
`flush` changes the packet sender only through a chain of `PSend.emit · flushId` calls and does not
touch the packet receiver.
-/

namespace Uflow.HcSys

open Uflow Uflow.Gen Uflow.Codec Uflow.HalfConn Uflow.PSend
open Uflow.HcInv (dfePush_eq startNewG dfeFinalize_none dfeFinalize_some)

variable {F : Type}

/-- The shape of an emitted frame. `G` is what is known about the datagrams of a data frame, `P` what
is known about the packet window base of an ack frame. -/
inductive WireOk (G : Datagram → Prop) (P : Nat → Prop) (bytes : List Nat) : Prop
  | ack (fb pb : Nat) (gs : List AckGroup) : bytes = encode (.ack fb pb gs) → P pb → WireOk G P bytes
  | data (id : Nat) (nonce : Bool) (dgs : List Datagram) :
      bytes = encode (.data id nonce dgs) → dgs.length ≤ 127 → (∀ d ∈ dgs, G d) → WireOk G P bytes
  | sync (nf np : Option Nat) : bytes = encode (.sync nf np) → WireOk G P bytes

theorem WireOk.mono {G G' : Datagram → Prop} {P P' : Nat → Prop} {b : List Nat} (h : WireOk G P b)
    (hg : ∀ d, G d → G' d) (hp : ∀ x, P x → P' x) : WireOk G' P' b := by
  cases h with
  | ack fb pb gs h1 h2 => exact .ack fb pb gs h1 (hp _ h2)
  | data id n dgs h1 h2 h3 => exact .data id n dgs h1 h2 (fun d hd => hg d (h3 d hd))
  | sync nf np h1 => exact .sync nf np h1

theorem IsFrag.mono {pend : List Pending} {i : Nat} {d : Datagram} (h : IsFrag pend i d)
    (l : List Pending) : IsFrag (pend ++ l) i d := by
  obtain ⟨p, fid, hp, hf, hd⟩ := h
  refine ⟨p, fid, ?_, hf, hd⟩
  rw [List.getElem?_append_left (List.getElem?_eq_some_iff.mp hp).1]; exact hp

theorem Genuine.mono {pend : List Pending} {d : Datagram} (h : Genuine pend d) (l : List Pending) :
    Genuine (pend ++ l) d := by
  obtain ⟨i, hi⟩ := h
  exact ⟨i, hi.mono l⟩

/-- A fragment datagram of a packet found in the send window is genuine. -/
theorem ainv_genuine {pend : List Pending} {ps : PSend.State} (h : AInv pend ps) (uid fid : Nat)
    (p : Pending) (d : Datagram) (hf : findPacket ps uid = some p) (hd : p.datagram fid = .ok d) :
    Genuine pend d := by
  obtain ⟨⟨w, hw, rfl⟩, _⟩ := findPacket_some ps uid _ hf
  have h1 := h.win w hw
  have hok := h.pok _ _ h1
  have hd' : ({ w.packet with acked := [] } : Pending).datagram fid = .ok d := hd
  exact ⟨w.packet.uid, _, fid, h1, (pendOk_datagram hok fid d hd').1, hd'⟩

/-- A genuine datagram is representable on the wire. -/
theorem genuine_ok {pend : List Pending} {ps : PSend.State} (h : AInv pend ps) (d : Datagram)
    (hg : Genuine pend d) : DatagramOk d := by
  obtain ⟨i, p, fid, hp, _, hd⟩ := hg
  exact (pendOk_datagram (h.pok i p hp) fid d hd).2.1

/-! ### the data frame emitter -/

/-- What the loops of `emit_data_frames` keep, apart from the chain of `emit` calls. -/
structure K (s s' : State F) : Prop where
  pr : s'.pr = s.pr
  fid : s'.flushId = s.flushId

theorem K.refl (s : State F) : K s s := ⟨rfl, rfl⟩

theorem K.of_eq {s s' : State F} (h1 : s'.pr = s.pr) (h2 : s'.flushId = s.flushId) : K s s' := ⟨h1, h2⟩

theorem K.trans {a b c : State F} (h1 : K a b) (h2 : K b c) : K a c :=
  ⟨h2.pr.trans h1.pr, h2.fid.trans h1.fid⟩

def DataOk (pend : List Pending) (b : List Nat) : Prop :=
  ∃ id nonce dgs, b = encode (.data id nonce dgs) ∧ dgs.length ≤ 127 ∧ ∀ d ∈ dgs, Genuine pend d

/-- Invariant of the emitter context relative to the emission history. -/
structure GE (pend : List Pending) (e : Emit F) : Prop where
  a : AInv pend e.s.ps
  out : ∀ b ∈ e.out, DataOk pend b
  ip : ∀ ip, e.inProg = some ip → ip.dgs.length ≤ 127 ∧ ∀ d ∈ ip.dgs, Genuine pend d

theorem GE.grow {pend : List Pending} {e : Emit F} (h : GE pend e) (l : List Pending) (ps : PSend.State)
    (pe : List PEntry) (ha : AInv (pend ++ l) ps) :
    GE (pend ++ l) ({ e with s := { e.s with ps := ps, pending := pe } } : Emit F) where
  a := ha
  out := by
    intro b hb
    obtain ⟨id, n, dgs, h1, h2, h3⟩ := h.out b hb
    exact ⟨id, n, dgs, h1, h2, fun d hd => (h3 d hd).mono l⟩
  ip := by
    intro ip hip
    obtain ⟨h1, h2⟩ := h.ip ip hip
    exact ⟨h1, fun d hd => (h2 d hd).mono l⟩

/-- Changing the transmit queues (or any field other than `ps`) keeps `GE`. -/
theorem GE.setS {pend : List Pending} {e : Emit F} (h : GE pend e) (s : State F) (hs : s.ps = e.s.ps) :
    GE pend ({ e with s := s } : Emit F) where
  a := by show AInv pend s.ps; rw [hs]; exact h.a
  out := h.out
  ip := h.ip

theorem dfeFinalize_ge {pend : List Pending} (e : Emit F) (h : GE pend e) :
    GE pend (dfeFinalize e) ∧ K e.s (dfeFinalize e).s ∧ (dfeFinalize e).s.ps = e.s.ps ∧
      (dfeFinalize e).inProg = none := by
  cases hip : e.inProg with
  | none =>
    rw [dfeFinalize_none e hip]
    exact ⟨h, K.refl _, rfl, hip⟩
  | some ip =>
    obtain ⟨fq, rate, _, _, heq⟩ := dfeFinalize_some e ip hip
    rw [heq]
    obtain ⟨h1, h2⟩ := h.ip ip hip
    refine ⟨⟨h.a, ?_, fun ip' h' => by cases h'⟩, ⟨rfl, rfl⟩, rfl, rfl⟩
    intro b hb
    simp only [List.mem_append, List.mem_singleton] at hb
    rcases hb with hb | rfl
    · exact h.out b hb
    · exact ⟨_, _, _, rfl, h1, h2⟩

theorem maxPacketCount_eq : maxPacketCount = 127 := by decide

theorem startNewG_ge {pend : List Pending} (dg : Datagram) (p : Pending) (fid : Nat) (resend : Bool)
    (e e' : Emit F) (res : Option PushErr) (h : GE pend e) (_hn : e.inProg = none)
    (hg : Genuine pend dg) (hs : startNewG dg p fid resend e = .ok (e', res)) :
    GE pend e' ∧ K e.s e'.s ∧ e'.s.ps = e.s.ps ∧ e'.s.pending = e.s.pending ∧
      e'.s.resend = e.s.resend := by
  unfold startNewG at hs
  split at hs
  · simp only [Except.ok.injEq, Prod.mk.injEq] at hs
    obtain ⟨rfl, _⟩ := hs
    exact ⟨h.setS _ rfl, ⟨rfl, rfl⟩, rfl, rfl, rfl⟩
  · split at hs
    · simp only [Except.ok.injEq, Prod.mk.injEq] at hs
      obtain ⟨rfl, _⟩ := hs
      exact ⟨h, K.refl _, rfl, rfl, rfl⟩
    · generalize e.s.rng.next = vr at hs
      obtain ⟨v, rng⟩ := vr
      simp only [Except.ok.injEq, Prod.mk.injEq] at hs
      obtain ⟨rfl, _⟩ := hs
      refine ⟨⟨h.a, h.out, ?_⟩, ⟨rfl, rfl⟩, rfl, rfl, rfl⟩
      intro ip hip
      simp only [Option.some.injEq] at hip
      subst hip
      refine ⟨by simp, ?_⟩
      intro d hd
      simp only [List.mem_singleton] at hd
      subst hd
      exact hg

/-- `dfePush` of a genuine fragment keeps the invariant. -/
theorem dfePush_ge {pend : List Pending} (e e' : Emit F) (p : Pending) (fid : Nat) (resend : Bool)
    (res : Option PushErr) (h : GE pend e) (hg : ∀ d, p.datagram fid = .ok d → Genuine pend d)
    (hp : dfePush e p fid resend = .ok (e', res)) :
    GE pend e' ∧ K e.s e'.s ∧ e'.s.ps = e.s.ps ∧ e'.s.pending = e.s.pending ∧
      e'.s.resend = e.s.resend := by
  rw [dfePush_eq] at hp
  cases hdg : p.datagram fid with
  | error t => rw [hdg] at hp; cases hp
  | ok dg =>
    rw [hdg] at hp
    simp only [] at hp
    have hgd := hg dg hdg
    obtain ⟨hf1, hf2, hf3, hf4⟩ := dfeFinalize_ge e h
    have hfq : (dfeFinalize e).s.pending = e.s.pending ∧ (dfeFinalize e).s.resend = e.s.resend := by
      cases hip : e.inProg with
      | none => rw [dfeFinalize_none e hip]; exact ⟨rfl, rfl⟩
      | some ip =>
        obtain ⟨fq, rate, _, _, heq⟩ := dfeFinalize_some e ip hip
        rw [heq]; exact ⟨rfl, rfl⟩
    cases hip : e.inProg with
    | none =>
      rw [hip] at hp
      simp only [] at hp
      exact startNewG_ge dg p fid resend e e' res h hip hgd hp
    | some ip =>
      rw [hip] at hp
      simp only [] at hp
      split at hp
      · simp only [Except.ok.injEq, Prod.mk.injEq] at hp
        obtain ⟨rfl, _⟩ := hp
        exact ⟨hf1.setS _ rfl, ⟨hf2.pr, hf2.fid⟩, hf3, hfq.1, hfq.2⟩
      · split at hp
        · obtain ⟨g1, g2, g3, g4, g5⟩ := startNewG_ge dg p fid resend _ e' res hf1 hf4 hgd hp
          exact ⟨g1, hf2.trans g2, g3.trans hf3, g4.trans hfq.1, g5.trans hfq.2⟩
        · rename_i hlim
          simp only [Except.ok.injEq, Prod.mk.injEq] at hp
          obtain ⟨rfl, _⟩ := hp
          obtain ⟨h1, h2⟩ := h.ip ip hip
          refine ⟨⟨h.a, h.out, ?_⟩, K.refl _, rfl, rfl, rfl⟩
          intro ip' hip'
          simp only [Option.some.injEq] at hip'
          subst hip'
          simp only [not_or, Nat.not_lt, ge_iff_le, Nat.not_le, maxPacketCount_eq] at hlim
          refine ⟨by simp only [List.length_append, List.length_cons, List.length_nil]; omega, ?_⟩
          intro d hd
          simp only [List.mem_append, List.mem_singleton] at hd
          rcases hd with hd | rfl
          · exact h2 d hd
          · exact hgd

/-! ### the loops -/

theorem resendLoop_ge {pend : List Pending} (fuel : Nat) (e e' : Emit F) (st : Option Stage)
    (h : GE pend e) (hr : resendLoop fuel e = .ok (e', st)) :
    GE pend e' ∧ K e.s e'.s ∧ e'.s.ps = e.s.ps := by
  induction fuel generalizing e with
  | zero => simp [resendLoop] at hr
  | succ n ih =>
    rw [resendLoop] at hr
    cases h0 : e.s.resend[0]? with
    | none =>
      rw [h0] at hr
      simp only [Except.ok.injEq, Prod.mk.injEq] at hr
      obtain ⟨rfl, _⟩ := hr
      exact ⟨h, K.refl _, rfl⟩
    | some entry =>
      rw [h0] at hr
      simp only [] at hr
      have hpopped : ∀ (pp : Emit F), pp.s.ps = e.s.ps → pp.s.pr = e.s.pr → pp.s.flushId = e.s.flushId →
          pp.out = e.out → pp.inProg = e.inProg → resendLoop n pp = .ok (e', st) →
          GE pend e' ∧ K e.s e'.s ∧ e'.s.ps = e.s.ps := by
        intro pp h1 h2 h3 h4 h5 hr'
        have hg : GE pend pp := ⟨by rw [h1]; exact h.a, by rw [h4]; exact h.out, by rw [h5]; exact h.ip⟩
        obtain ⟨g1, g2, g3⟩ := ih pp hg hr'
        exact ⟨g1, K.trans ⟨h2, h3⟩ g2, g3.trans h1⟩
      have hpp : ∀ x : Option (REntry × Array REntry),
          ((match x with
            | some (_, hh) => ({ e with s := { e.s with resend := hh } } : Emit F)
            | none => e) : Emit F).s.ps = e.s.ps ∧
          ((match x with
            | some (_, hh) => ({ e with s := { e.s with resend := hh } } : Emit F)
            | none => e) : Emit F).s.pr = e.s.pr ∧
          ((match x with
            | some (_, hh) => ({ e with s := { e.s with resend := hh } } : Emit F)
            | none => e) : Emit F).s.flushId = e.s.flushId ∧
          ((match x with
            | some (_, hh) => ({ e with s := { e.s with resend := hh } } : Emit F)
            | none => e) : Emit F).out = e.out ∧
          ((match x with
            | some (_, hh) => ({ e with s := { e.s with resend := hh } } : Emit F)
            | none => e) : Emit F).inProg = e.inProg := by
        intro x
        cases x with
        | none => exact ⟨rfl, rfl, rfl, rfl, rfl⟩
        | some v => exact ⟨rfl, rfl, rfl, rfl, rfl⟩
      obtain ⟨q1, q2, q3, q4, q5⟩ := hpp (heapPop e.s.resend)
      cases hfp : findPacket e.s.ps entry.uid with
      | none =>
        rw [hfp] at hr
        simp only [] at hr
        exact hpopped _ q1 q2 q3 q4 q5 hr
      | some p =>
        rw [hfp] at hr
        simp only [] at hr
        split at hr
        · exact hpopped _ q1 q2 q3 q4 q5 hr
        · split at hr
          · simp only [Except.ok.injEq, Prod.mk.injEq] at hr
            obtain ⟨rfl, _⟩ := hr
            exact ⟨h, K.refl _, rfl⟩
          · cases hpush : dfePush e p entry.fid true with
            | error t => rw [hpush] at hr; cases hr
            | ok v =>
              obtain ⟨e1, res⟩ := v
              rw [hpush] at hr
              obtain ⟨g1, g2, g3, _, _⟩ := dfePush_ge e e1 p entry.fid true res h
                (fun d hd => ainv_genuine h.a entry.uid entry.fid p d hfp hd) hpush
              cases res with
              | some pe =>
                cases pe with
                | sizeLimited =>
                  simp only [Except.ok.injEq, Prod.mk.injEq] at hr
                  obtain ⟨rfl, _⟩ := hr
                  exact ⟨g1, g2, g3⟩
                | windowLimited =>
                  simp only [Except.ok.injEq, Prod.mk.injEq] at hr
                  obtain ⟨rfl, _⟩ := hr
                  exact ⟨g1, g2, g3⟩
              | none =>
                simp only [] at hr
                cases hpop2 : heapPop e1.s.resend with
                | none => rw [hpop2] at hr; cases hr
                | some w =>
                  obtain ⟨ent, hh⟩ := w
                  rw [hpop2] at hr
                  simp only [] at hr
                  obtain ⟨k1, k2, k3⟩ := ih _ (by exact g1.setS _ rfl) hr
                  exact ⟨k1, g2.trans (K.trans (K.of_eq (by exact rfl) (by exact rfl)) k2), k3.trans g3⟩

theorem pendingInner_ge {pend : List Pending} (fuel : Nat) (e e' : Emit F) (st : Option Stage)
    (h : GE pend e) (hr : pendingInner fuel e = .ok (e', st)) :
    GE pend e' ∧ K e.s e'.s ∧ e'.s.ps = e.s.ps := by
  induction fuel generalizing e with
  | zero => simp [pendingInner] at hr
  | succ n ih =>
    rw [pendingInner] at hr
    cases hpe : e.s.pending with
    | nil =>
      rw [hpe] at hr
      simp only [Except.ok.injEq, Prod.mk.injEq] at hr
      obtain ⟨rfl, _⟩ := hr
      exact ⟨h, K.refl _, rfl⟩
    | cons entry rest =>
      rw [hpe] at hr
      simp only [] at hr
      have hset : ∀ (pe : List PEntry), pendingInner n ({ e with s := { e.s with pending := pe } } : Emit F) = .ok (e', st) →
          GE pend e' ∧ K e.s e'.s ∧ e'.s.ps = e.s.ps := by
        intro pe hr'
        obtain ⟨g1, g2, g3⟩ := ih _ (by exact h.setS _ rfl) hr'
        exact ⟨g1, K.trans (K.of_eq (by exact rfl) (by exact rfl)) g2, g3⟩
      cases hfp : findPacket e.s.ps entry.uid with
      | none =>
        rw [hfp] at hr
        exact hset _ hr
      | some p =>
        rw [hfp] at hr
        simp only [] at hr
        split at hr
        · exact hset _ hr
        · split at hr
          · exact hset _ hr
          · cases hpush : dfePush e p entry.fid entry.resend with
            | error t => rw [hpush] at hr; cases hr
            | ok v =>
              obtain ⟨e1, res⟩ := v
              rw [hpush] at hr
              obtain ⟨g1, g2, g3, _, _⟩ := dfePush_ge e e1 p entry.fid entry.resend res h
                (fun d hd => ainv_genuine h.a entry.uid entry.fid p d hfp hd) hpush
              cases res with
              | some pe =>
                cases pe with
                | sizeLimited =>
                  simp only [Except.ok.injEq, Prod.mk.injEq] at hr
                  obtain ⟨rfl, _⟩ := hr
                  exact ⟨g1, g2, g3⟩
                | windowLimited =>
                  simp only [Except.ok.injEq, Prod.mk.injEq] at hr
                  obtain ⟨rfl, _⟩ := hr
                  exact ⟨g1, g2, g3⟩
              | none =>
                simp only [] at hr
                have hps : ∀ (s2 : State F), s2.ps = e1.s.ps → s2.pr = e1.s.pr → s2.flushId = e1.s.flushId →
                    pendingInner n ({ e1 with s := s2 } : Emit F) = .ok (e', st) →
                    GE pend e' ∧ K e.s e'.s ∧ e'.s.ps = e.s.ps := by
                  intro s2 a1 a2 a3 hr'
                  obtain ⟨k1, k2, k3⟩ := ih _ (by exact g1.setS s2 a1) hr'
                  exact ⟨k1, g2.trans (K.trans ⟨a2, a3⟩ k2), (k3.trans a1).trans g3⟩
                split at hr
                · exact hps _ (by exact rfl) (by exact rfl) (by exact rfl) hr
                · exact hps _ (by exact rfl) (by exact rfl) (by exact rfl) hr

theorem refill_ge {pend : List Pending} (e e1 : Emit F) (b : Bool) (h : GE pend e)
    (hr : Wire.refill e = .ok (e1, b)) :
    ∃ l, Emits e.s.flushId e.s.ps e1.s.ps l ∧ GE (pend ++ l) e1 ∧ K e.s e1.s := by
  unfold Wire.refill at hr
  split at hr
  · cases hem : emit e.s.ps e.s.flushId with
    | error t => rw [hem] at hr; cases hr
    | ok v =>
      obtain ⟨ps', r⟩ := v
      rw [hem] at hr
      obtain ⟨ha, _⟩ := ainv_emit h.a _ r hem
      cases r with
      | none =>
        simp only [Except.ok.injEq, Prod.mk.injEq] at hr
        obtain ⟨rfl, _⟩ := hr
        refine ⟨_, Emits.single hem, ?_, ⟨rfl, rfl⟩⟩
        have := h.grow [] ps' e.s.pending (by simpa using ha)
        simpa using this
      | some v =>
        obtain ⟨p, resend⟩ := v
        simp only [Except.ok.injEq, Prod.mk.injEq] at hr
        obtain ⟨rfl, _⟩ := hr
        exact ⟨_, Emits.single hem, h.grow _ ps' _ ha, ⟨rfl, rfl⟩⟩
  · simp only [Except.ok.injEq, Prod.mk.injEq] at hr
    obtain ⟨rfl, _⟩ := hr
    exact ⟨[], .nil _, by simpa using h, K.refl _⟩

theorem pendingOuter_ge {pend : List Pending} (fuel : Nat) (e e' : Emit F) (st : Option Stage)
    (h : GE pend e) (hr : pendingOuter fuel e = .ok (e', st)) :
    ∃ l, Emits e.s.flushId e.s.ps e'.s.ps l ∧ GE (pend ++ l) e' ∧ K e.s e'.s := by
  induction fuel generalizing e pend with
  | zero => simp [pendingOuter] at hr
  | succ n ih =>
    rw [Wire.pendingOuter_eq] at hr
    cases hre : Wire.refill e with
    | error t => rw [hre] at hr; cases hr
    | ok v =>
      obtain ⟨e1, b⟩ := v
      rw [hre] at hr
      obtain ⟨l1, hem1, hg1, hk1⟩ := refill_ge e e1 b h hre
      cases b with
      | false =>
        simp only [Except.ok.injEq, Prod.mk.injEq] at hr
        obtain ⟨rfl, _⟩ := hr
        exact ⟨l1, hem1, hg1, hk1⟩
      | true =>
        simp only [] at hr
        cases hin : pendingInner (e1.s.pending.length + 2) e1 with
        | error t => rw [hin] at hr; cases hr
        | ok v2 =>
          obtain ⟨e2, st2⟩ := v2
          rw [hin] at hr
          obtain ⟨hg2, hk2, hp2⟩ := pendingInner_ge _ e1 e2 st2 hg1 hin
          cases st2 with
          | some s2 =>
            simp only [Except.ok.injEq, Prod.mk.injEq] at hr
            obtain ⟨rfl, _⟩ := hr
            exact ⟨l1, by rw [hp2]; exact hem1, hg2, hk1.trans hk2⟩
          | none =>
            simp only [] at hr
            obtain ⟨l3, hem3, hg3, hk3⟩ := ih e2 hg2 hr
            refine ⟨l1 ++ l3, ?_, by rw [← List.append_assoc]; exact hg3, (hk1.trans hk2).trans hk3⟩
            rw [hp2, hk2.fid, hk1.fid] at hem3
            exact hem1.trans hem3

/-- `emit_data_frames`. -/
theorem emitDataFrames_ge {pend : List Pending} (s s' : State F) (out : List (List Nat)) (st : Stage)
    (h : AInv pend s.ps) (hr : emitDataFrames s = .ok (s', out, st)) :
    ∃ l, Emits s.flushId s.ps s'.ps l ∧ AInv (pend ++ l) s'.ps ∧ (∀ b ∈ out, DataOk (pend ++ l) b) ∧
      K s s' := by
  unfold emitDataFrames at hr
  simp only [] at hr
  have h0 : GE pend ({ s := s, inProg := none, out := [] } : Emit F) :=
    ⟨h, fun b hb => (by cases hb), fun ip h' => (by cases h')⟩
  cases hr1 : resendLoop (2 * s.resend.size + 16 + s.flushAlloc.toNat)
      ({ s := s, inProg := none, out := [] } : Emit F) with
  | error t => rw [hr1] at hr; cases hr
  | ok v =>
    obtain ⟨e1, st1⟩ := v
    rw [hr1] at hr
    obtain ⟨g1, k1, p1⟩ := resendLoop_ge _ _ e1 st1 h0 hr1
    cases st1 with
    | some s1 =>
      simp only [Except.ok.injEq, Prod.mk.injEq] at hr
      obtain ⟨rfl, rfl, _⟩ := hr
      refine ⟨[], ?_, by simpa using g1.a, by simpa using g1.out, k1⟩
      rw [p1]; exact .nil _
    | none =>
      simp only [] at hr
      cases hr2 : pendingOuter (e1.s.ps.queue.length + e1.s.pending.length + 4) e1 with
      | error t => rw [hr2] at hr; cases hr
      | ok v2 =>
        obtain ⟨e2, st2⟩ := v2
        rw [hr2] at hr
        obtain ⟨l, hem, g2, k2⟩ := pendingOuter_ge _ e1 e2 st2 g1 hr2
        have hem' : Emits s.flushId s.ps e2.s.ps l := by
          have := hem
          rw [p1, k1.fid] at this
          exact this
        cases st2 with
        | some s2 =>
          simp only [Except.ok.injEq, Prod.mk.injEq] at hr
          obtain ⟨rfl, rfl, _⟩ := hr
          exact ⟨l, hem', g2.a, g2.out, k1.trans k2⟩
        | none =>
          simp only [Except.ok.injEq, Prod.mk.injEq] at hr
          obtain ⟨rfl, rfl, _⟩ := hr
          obtain ⟨g3, k3, p3, _⟩ := dfeFinalize_ge e2 g2
          refine ⟨l, by rw [p3]; exact hem', g3.a, g3.out, (k1.trans k2).trans k3⟩

/-! ### ack frames, sync frame -/

/-- An ack frame carrying the bases `fb`, `pb`. -/
def AckShape (fb pb : Nat) (b : List Nat) : Prop := ∃ gs, b = encode (.ack fb pb gs)

theorem ackFin_out (fb pb : Nat) (s : State F) (ip : Option AckProg) (out : List (List Nat))
    (h : ∀ b ∈ out, AckShape fb pb b) : ∀ b ∈ (Credit.ackFin fb pb s ip out).2, AckShape fb pb b := by
  cases ip with
  | none => exact h
  | some a =>
    intro b hb
    simp only [Credit.ackFin, List.mem_append, List.mem_singleton] at hb
    rcases hb with hb | rfl
    · exact h b hb
    · exact ⟨_, rfl⟩

theorem ackLoop_out (fb pb : Nat) (fuel : Nat) (s : State F) (ip : Option AckProg)
    (out : List (List Nat)) (h : ∀ b ∈ out, AckShape fb pb b) :
    ∀ b ∈ (emitAckFrames.loop (Credit.ackFin fb pb) fuel s ip out).2.1, AckShape fb pb b := by
  induction fuel generalizing s ip out with
  | zero => exact h
  | succ n ih =>
    simp only [emitAckFrames.loop]
    repeat' split
    all_goals first
      | exact h
      | exact ackFin_out fb pb _ _ _ h
      | exact ih _ _ _ h
      | exact ih _ _ _ (ackFin_out fb pb _ _ _ h)

theorem emitAckFrames_out (s : State F) :
    ∀ b ∈ (emitAckFrames s).2.1, AckShape s.aq.baseId s.pr.baseId b := by
  rw [Credit.emitAckFrames_eq]
  split
  · intro b hb; cases hb
  · exact ackLoop_out _ _ _ _ _ _ (fun b hb => by cases hb)

theorem emitAckFrames_keep (s : State F) :
    (emitAckFrames s).1.ps = s.ps ∧ (emitAckFrames s).1.pr = s.pr ∧
      (emitAckFrames s).1.flushId = s.flushId :=
  ⟨HcInv.emitAckFrames_proj (·.ps) (fun fb pb s ip out => by cases ip <;> rfl) (fun s rest => rfl) s,
   HcInv.emitAckFrames_proj (·.pr) (fun fb pb s ip out => by cases ip <;> rfl) (fun s rest => rfl) s,
   HcInv.emitAckFrames_proj (·.flushId) (fun fb pb s ip out => by cases ip <;> rfl) (fun s rest => rfl) s⟩

theorem emitSyncFrame_spec (s s' : State F) (out : List (List Nat)) (st : Stage)
    (h : emitSyncFrame s = .ok (s', out, st)) :
    s'.ps = s.ps ∧ s'.pr = s.pr ∧ ∀ b ∈ out, ∃ nf np, b = encode (.sync nf np) := by
  unfold emitSyncFrame at h
  simp only [] at h
  repeat' split at h
  all_goals first
    | (simp only [reduceCtorEq] at h; done)
    | (simp only [Except.ok.injEq, Prod.mk.injEq] at h
       obtain ⟨rfl, rfl, _⟩ := h
       refine ⟨rfl, rfl, ?_⟩
       intro b hb
       first
         | exact absurd hb List.not_mem_nil
         | (rw [List.mem_singleton] at hb; exact ⟨_, _, hb⟩))

theorem emitSyncFrame_queues (s s' : State F) (out : List (List Nat)) (st : Stage)
    (h : emitSyncFrame s = .ok (s', out, st)) : s'.resend = s.resend ∧ s'.pending = s.pending := by
  unfold emitSyncFrame at h
  simp only [] at h
  repeat' split at h
  all_goals first
    | (simp only [reduceCtorEq] at h; done)
    | (simp only [Except.ok.injEq, Prod.mk.injEq] at h
       obtain ⟨rfl, _, _⟩ := h
       exact ⟨rfl, rfl⟩)

/-! ### `flush` -/

/-- **What `flush` emits.** From a state whose packet sender satisfies `AInv pend`: the sender moves
by a chain of `PSend.emit · flushId` calls returning the packets `l`; the receiver is untouched; every
emitted frame is an ack frame carrying the receiver's current `base_id`, a data frame whose datagrams
are fragment datagrams of packets of `pend ++ l`, or a sync frame. -/
theorem flush_spec {pend : List Pending} (s s' : State F) (out : List (List Nat))
    (h : AInv pend s.ps) (hf : flush s = .ok (s', out)) :
    ∃ l, Emits s.flushId s.ps s'.ps l ∧ AInv (pend ++ l) s'.ps ∧ s'.pr = s.pr ∧
      ∀ b ∈ out, WireOk (Genuine (pend ++ l)) (fun pb => pb = s.pr.baseId) b := by
  unfold flush at hf
  have hout1 := emitAckFrames_out s
  obtain ⟨k1, k2, k3⟩ := emitAckFrames_keep s
  generalize emitAckFrames s = r at hf hout1 k1 k2 k3
  obtain ⟨s1, out1, st1⟩ := r
  simp only [] at hf hout1 k1 k2 k3
  have hw1 : ∀ (l : List Pending), ∀ b ∈ out1, WireOk (Genuine (pend ++ l)) (fun pb => pb = s.pr.baseId) b := by
    intro l b hb
    obtain ⟨gs, rfl⟩ := hout1 b hb
    exact .ack _ _ gs rfl rfl
  by_cases hst : st1 = .stop
  · rw [if_pos hst] at hf
    simp only [Except.ok.injEq, Prod.mk.injEq] at hf
    obtain ⟨rfl, rfl⟩ := hf
    refine ⟨[], by rw [k1]; exact .nil _, by rw [k1]; simpa using h, k2, hw1 []⟩
  · rw [if_neg hst] at hf
    cases hd : emitDataFrames s1 with
    | error t => rw [hd] at hf; cases hf
    | ok v =>
      obtain ⟨s2, out2, st2⟩ := v
      rw [hd] at hf
      simp only [] at hf
      obtain ⟨l, hem, ha2, ho2, kk⟩ := emitDataFrames_ge s1 s2 out2 st2 (by rw [k1]; exact h) hd
      rw [k1, k3] at hem
      have hw2 : ∀ b ∈ out2, WireOk (Genuine (pend ++ l)) (fun pb => pb = s.pr.baseId) b := by
        intro b hb
        obtain ⟨id, n, dgs, h1, h2, h3⟩ := ho2 b hb
        exact .data id n dgs h1 h2 h3
      by_cases hst2 : st2 = .stop
      · rw [if_pos hst2] at hf
        simp only [Except.ok.injEq, Prod.mk.injEq] at hf
        obtain ⟨rfl, rfl⟩ := hf
        refine ⟨l, hem, ha2, kk.pr.trans k2, ?_⟩
        intro b hb
        rcases List.mem_append.mp hb with hb | hb
        · exact hw1 l b hb
        · exact hw2 b hb
      · rw [if_neg hst2] at hf
        cases hsy : emitSyncFrame s2 with
        | error t => rw [hsy] at hf; cases hf
        | ok v3 =>
          obtain ⟨s3, out3, st3⟩ := v3
          rw [hsy] at hf
          simp only [Except.ok.injEq, Prod.mk.injEq] at hf
          obtain ⟨rfl, rfl⟩ := hf
          obtain ⟨y1, y2, y3⟩ := emitSyncFrame_spec s2 _ out3 st3 hsy
          refine ⟨l, by rw [y1]; exact hem, by rw [y1]; exact ha2, (y2.trans kk.pr).trans k2, ?_⟩
          intro b hb
          rcases List.mem_append.mp hb with hb | hb
          · rcases List.mem_append.mp hb with hb | hb
            · exact hw1 l b hb
            · exact hw2 b hb
          · obtain ⟨nf, np, rfl⟩ := y3 b hb
            exact .sync nf np rfl

/-- The packet id of the sync frame `emit_sync_frame` emits, if it carries one, is the sender's
`next_id`, and it is only sent while the resend queue and the pending queue are empty. -/
theorem emitSyncFrame_pid (s s' : State F) (out : List (List Nat)) (st : Stage)
    (h : emitSyncFrame s = .ok (s', out, st)) :
    ∀ b ∈ out, ∃ nf np, b = encode (.sync nf np) ∧
      ∀ id, np = some id → id = s.ps.nextId ∧ s.resend.size = 0 ∧ s.pending.length = 0 := by
  unfold emitSyncFrame at h
  simp only [] at h
  repeat' split at h
  all_goals first
    | (simp only [reduceCtorEq] at h; done)
    | (simp only [Except.ok.injEq, Prod.mk.injEq] at h
       obtain ⟨rfl, rfl, _⟩ := h
       intro b hb
       first
         | exact absurd hb List.not_mem_nil
         | (rw [List.mem_singleton] at hb
            refine ⟨_, _, hb, ?_⟩
            intro id hid
            first
              | (cases hid; done)
              | (have hc : s.ps.nextId ≠ s.ps.baseId ∧ s.resend.size = 0 ∧ s.pending.length = 0 := by
                   assumption
                 simp only [Option.some.injEq] at hid
                 exact ⟨hid.symm, hc.2.1, hc.2.2⟩)))

/-- **The sync frames of a `flush`.** If a frame `flush` emits parses as a sync frame carrying a
packet id, that id is the `next_id` of the packet sender after the `flush` (no `PSend.emit` follows
`emit_sync_frame`), and the resend queue and the pending queue are empty after the `flush`. -/
theorem flush_sync_spec {pend : List Pending} (s s' : State F) (out : List (List Nat))
    (h : AInv pend s.ps) (hf : flush s = .ok (s', out)) :
    ∀ b ∈ out, ∀ nf id, decode b = some (.sync nf (some id)) →
      id = s'.ps.nextId ∧ s'.resend.size = 0 ∧ s'.pending.length = 0 := by
  have notAck : ∀ fb pb b, AckShape fb pb b → ∀ nf id, decode b ≠ some (.sync nf (some id)) := by
    intro fb pb b ⟨gs, hb⟩ nf id hd
    rw [hb] at hd
    obtain ⟨_, _, hg⟩ := Codec.decode_encode_ack fb pb gs _ hd
    cases hg
  unfold flush at hf
  have hout1 := emitAckFrames_out s
  obtain ⟨k1, k2, k3⟩ := emitAckFrames_keep s
  generalize emitAckFrames s = r at hf hout1 k1 k2 k3
  obtain ⟨s1, out1, st1⟩ := r
  simp only [] at hf hout1 k1 k2 k3
  by_cases hst : st1 = .stop
  · rw [if_pos hst] at hf
    simp only [Except.ok.injEq, Prod.mk.injEq] at hf
    obtain ⟨rfl, rfl⟩ := hf
    intro b hb nf id hd
    exact absurd hd (notAck _ _ b (hout1 b hb) nf id)
  · rw [if_neg hst] at hf
    cases hd : emitDataFrames s1 with
    | error t => rw [hd] at hf; cases hf
    | ok v =>
      obtain ⟨s2, out2, st2⟩ := v
      rw [hd] at hf
      simp only [] at hf
      obtain ⟨l, hem, ha2, ho2, kk⟩ := emitDataFrames_ge s1 s2 out2 st2 (by rw [k1]; exact h) hd
      have notData : ∀ b ∈ out2, ∀ nf id, decode b ≠ some (.sync nf (some id)) := by
        intro b hb nf id hdec
        obtain ⟨i, n, dgs, h1, _, _⟩ := ho2 b hb
        rw [h1] at hdec
        obtain ⟨_, _, _, hg⟩ := Codec.decode_encode_data_kind i n dgs _ hdec
        cases hg
      by_cases hst2 : st2 = .stop
      · rw [if_pos hst2] at hf
        simp only [Except.ok.injEq, Prod.mk.injEq] at hf
        obtain ⟨rfl, rfl⟩ := hf
        intro b hb nf id hdec
        rcases List.mem_append.mp hb with hb | hb
        · exact absurd hdec (notAck _ _ b (hout1 b hb) nf id)
        · exact absurd hdec (notData b hb nf id)
      · rw [if_neg hst2] at hf
        cases hsy : emitSyncFrame s2 with
        | error t => rw [hsy] at hf; cases hf
        | ok v3 =>
          obtain ⟨s3, out3, st3⟩ := v3
          rw [hsy] at hf
          simp only [Except.ok.injEq, Prod.mk.injEq] at hf
          obtain ⟨rfl, rfl⟩ := hf
          obtain ⟨y1, y2, y3⟩ := emitSyncFrame_spec s2 _ out3 st3 hsy
          have y4 := emitSyncFrame_pid s2 _ out3 st3 hsy
          have y5 := emitSyncFrame_queues s2 _ out3 st3 hsy
          intro b hb nf id hdec
          rcases List.mem_append.mp hb with hb | hb
          · rcases List.mem_append.mp hb with hb | hb
            · exact absurd hdec (notAck _ _ b (hout1 b hb) nf id)
            · exact absurd hdec (notData b hb nf id)
          · obtain ⟨nf0, np0, hb0, hpid⟩ := y4 b hb
            rw [hb0] at hdec
            obtain ⟨nf', hg⟩ := Codec.decode_encode_sync_pid nf0 np0 _ hdec
            simp only [Frame.sync.injEq] at hg
            obtain ⟨-, hnp⟩ := hg
            cases np0 with
            | none => cases hnp
            | some x =>
              simp only [Option.map_some, Option.some.injEq] at hnp
              obtain ⟨e1, e2, e3⟩ := hpid x rfl
              have hlt : s2.ps.nextId < 2^20 := ha2.nid
              refine ⟨?_, by rw [y5.1]; exact e2, by rw [y5.2]; exact e3⟩
              rw [y1, hnp, e1, Nat.mod_eq_of_lt (by omega)]

/-- The packets of a sender satisfying `AInv` slice into fragments of at most 1448 bytes. -/
theorem ainv_psOk {pend : List Pending} {ps : PSend.State} (h : AInv pend ps) : Credit.PsOk ps := by
  refine ⟨?_, h.q⟩
  intro w hw
  have hok := h.pok _ _ (h.win w hw)
  have hb := (Frag.last_bounds w.packet.data.length).2
  have hpos := Frag.numFragments_pos w.packet.data.length
  have hl : w.packet.lastFragmentId = numFragments w.packet.data.length - 1 := hok.last
  show w.packet.data.length ≤ (w.packet.lastFragmentId + 1) * 1448
  rw [hl]
  have : numFragments w.packet.data.length - 1 + 1 = numFragments w.packet.data.length := by omega
  rw [this]; exact hb

/-- Every frame `flush` emits fits the receive buffer of the endpoints. -/
theorem flush_len {pend : List Pending} (s s' : State F) (out : List (List Nat))
    (h : AInv pend s.ps) (hf : flush s = .ok (s', out)) : ∀ b ∈ out, b.length ≤ MAX_FRAME_SIZE :=
  (Credit.flush_debit True s s' out (fun _ => ainv_psOk h) hf).1.2.2.2 trivial

end Uflow.HcSys
