import Uflow.Lemmas.TsDropEmit

/-!
C12 (TimeSensitive drop): `refs ⊆ pushed` (`EInv`) and the shape of the pending queue (`HeadInv`)
through the instrumented loops of `emit_data_frames`. The trace argument of the invariants is
`base ++ tr`: what was pushed before this flush, followed by the accumulator of the loop.
-/

namespace Uflow.TsDrop

open Uflow Uflow.Gen Uflow.Codec Uflow.HalfConn Uflow.Wire Uflow.Modes Uflow.Heap

variable {F : Type}

/-- Shape of the pending queue relative to the wire trace `T`: whenever the pending queue holds an
entry of packet `u`, either fragment 0 of `u` is still at its head, or some fragment of `u` has been
put on the wire, or `u` has left the window. -/
def HeadInv (s : State F) (T : List Push) : Prop :=
  ∀ u, (∃ pe ∈ s.pending, pe.uid = u) →
    (∃ r rest, s.pending = ({ uid := u, fid := 0, resend := r } : PEntry) :: rest) ∨
    (∃ x ∈ T, x.uid = u) ∨ PSend.findPacket s.ps u = none

theorem HeadInv.congr {s s' : State F} {T T' : List Push} (h : HeadInv s T)
    (hpe : s'.pending = s.pending) (hps : s'.ps = s.ps) (hT : ∀ x ∈ T, x ∈ T') : HeadInv s' T' := by
  intro u hu
  rw [hpe] at hu ⊢
  rw [hps]
  rcases h u hu with h1 | ⟨x, hx, h2⟩ | h3
  · exact .inl h1
  · exact .inr (.inl ⟨x, hT x hx, h2⟩)
  · exact .inr (.inr h3)

theorem headInv_nil {s : State F} {T : List Push} (h : s.pending = []) : HeadInv s T := by
  rintro u ⟨pe, hpe, _⟩
  rw [h] at hpe; cases hpe

/-- The head of the pending queue is popped because its packet is gone, or after one of the
fragments of its packet has been put on the wire. -/
theorem headInv_pop {s s' : State F} {T T' : List Push} {entry : PEntry} {rest : List PEntry}
    (h : HeadInv s T) (h0 : s.pending = entry :: rest) (hpe : s'.pending = rest) (hps : s'.ps = s.ps)
    (hT : ∀ x ∈ T, x ∈ T')
    (hwhy : (∃ x ∈ T', x.uid = entry.uid) ∨ PSend.findPacket s.ps entry.uid = none) :
    HeadInv s' T' := by
  rintro u ⟨pe, hpe', he⟩
  rw [hpe] at hpe'
  rw [hps]
  rcases h u ⟨pe, by rw [h0]; exact List.mem_cons_of_mem _ hpe', he⟩ with ⟨r, rest', h1⟩ | ⟨x, hx, h2⟩ | h3
  · rw [h0] at h1
    have : entry.uid = u := by
      have := (List.cons.inj h1).1
      rw [this]
    rw [← this]
    exact .inr hwhy
  · exact .inr (.inl ⟨x, hT x hx, h2⟩)
  · exact .inr (.inr h3)

/-- After a successful `dfePush` of `(p.uid, fid)` the trace is extended by that push. -/
theorem einv_pushed (T : List Push) (e1 e2 : Emit F) (p : PSend.Pending) (fid : Nat) (resend : Bool)
    (x : Push) (hx1 : x.uid = p.uid) (hx2 : x.fid = fid) (hx3 : x.resend = resend)
    (h1 : RefsIn (Pushed T) e1.s.fq) (h2 : AckedIn (Pushed T) e1.s.ps)
    (h3 : ∀ ip, e1.inProg = some ip → ∀ r ∈ ip.refs,
      Pushed T r ∨ ((none : Option PushErr) = none ∧ resend = true ∧ r = (p.uid, fid)))
    (hf : e2.s.fq = e1.s.fq) (hw : e2.s.ps = e1.s.ps) (hp : e2.inProg = e1.inProg) :
    EInv (T ++ [x]) e2 := by
  refine ⟨?_, ?_, ?_⟩
  · rw [hf]; exact h1.mono fun _ hr => hr.append_right _
  · rw [hw]; exact h2.mono fun _ hr => hr.append_right _
  · rw [hp]
    intro ip hip r hr
    rcases h3 ip hip r hr with h | ⟨_, hres, rfl⟩
    · exact h.append_right _
    · exact ⟨x, by simp, hx1, hx2, hx3.trans hres⟩

theorem einv_failed (T : List Push) (e1 : Emit F) (p : PSend.Pending) (fid : Nat) (resend : Bool)
    (pe : PushErr)
    (h1 : RefsIn (Pushed T) e1.s.fq) (h2 : AckedIn (Pushed T) e1.s.ps)
    (h3 : ∀ ip, e1.inProg = some ip → ∀ r ∈ ip.refs,
      Pushed T r ∨ (some pe = none ∧ resend = true ∧ r = (p.uid, fid))) : EInv T e1 := by
  refine ⟨h1, h2, ?_⟩
  intro ip hip r hr
  rcases h3 ip hip r hr with h | ⟨hc, _⟩
  · exact h
  · cases hc

theorem resendLoopT_einv (base : List Push) (fuel : Nat) (e e' : Emit F) (tr tr' : List Push)
    (st : Option Stage) (hE : EInv (base ++ tr) e) (h : resendLoopT fuel e tr = .ok (e', st, tr')) :
    EInv (base ++ tr') e' := by
  induction fuel generalizing e tr with
  | zero => simp [resendLoopT] at h
  | succ n ih =>
    unfold resendLoopT at h
    cases h0 : e.s.resend[0]? with
    | none =>
      simp only [h0] at h
      cases h
      exact hE
    | some entry =>
      obtain ⟨hh, hpop⟩ := heapPop_isSome e.s.resend entry h0
      simp only [h0, hpop] at h
      have hpopE : EInv (base ++ tr) ({ e with s := { e.s with resend := hh } } : Emit F) :=
        hE.congr rfl rfl rfl
      cases h1 : PSend.findPacket e.s.ps entry.uid with
      | none =>
        simp only [h1] at h
        exact ih _ _ hpopE h
      | some p =>
        simp only [h1] at h
        split at h
        · exact ih _ _ hpopE h
        · split at h
          · cases h
            exact hE
          · cases hpush : dfePush e p entry.fid true with
            | error t => rw [hpush] at h; cases h
            | ok v =>
              obtain ⟨e1, err⟩ := v
              rw [hpush] at h
              have htx := dfePush_tx e e1 p entry.fid true err hpush
              obtain ⟨k1, k2, k3⟩ := dfePush_einv _ e e1 p entry.fid true err hE hpush
              cases err with
              | some pe =>
                have := einv_failed _ e1 p entry.fid true pe k1 k2 k3
                cases pe <;>
                · simp only [Except.ok.injEq, Prod.mk.injEq] at h
                  obtain ⟨rfl, _, rfl⟩ := h
                  exact this
              | none =>
                simp only [htx.2.2.1, hpop] at h
                refine ih _ _ ?_ h
                rw [← List.append_assoc]
                exact einv_pushed _ e1 _ p entry.fid true _ (PSend.findPacket_some _ _ _ h1).2.symm
                  rfl rfl k1 k2 k3 rfl rfl rfl

/-- `pendingInnerT` keeps both invariants. -/
theorem pendingInnerT_inv (base : List Push) (fuel : Nat) (e e' : Emit F) (tr tr' : List Push)
    (st : Option Stage) (hE : EInv (base ++ tr) e) (hH : HeadInv e.s (base ++ tr))
    (h : pendingInnerT fuel e tr = .ok (e', st, tr')) :
    EInv (base ++ tr') e' ∧ HeadInv e'.s (base ++ tr') := by
  induction fuel generalizing e tr with
  | zero => simp [pendingInnerT] at h
  | succ n ih =>
    unfold pendingInnerT at h
    cases h0 : e.s.pending with
    | nil =>
      simp only [h0] at h
      cases h
      exact ⟨hE, hH⟩
    | cons entry rest =>
      simp only [h0] at h
      have hpopE : EInv (base ++ tr) ({ e with s := { e.s with pending := rest } } : Emit F) :=
        hE.congr rfl rfl rfl
      cases h1 : PSend.findPacket e.s.ps entry.uid with
      | none =>
        simp only [h1] at h
        exact ih _ _ hpopE (headInv_pop hH h0 rfl rfl (fun _ hx => hx) (.inr h1)) h
      | some p =>
        simp only [h1] at h
        split at h
        · rename_i hack
          obtain ⟨x, hx, hxu, _⟩ := hE.acked.found entry.uid p h1 entry.fid hack
          exact ih _ _ hpopE (headInv_pop hH h0 rfl rfl (fun _ hx => hx) (.inl ⟨x, hx, hxu⟩)) h
        · split at h
          · exact ih ({ e with s := { e.s with pending := [] } }) tr (hE.congr rfl rfl rfl)
              (headInv_nil rfl) h
          · cases hpush : dfePush e p entry.fid entry.resend with
            | error t => rw [hpush] at h; cases h
            | ok v =>
              obtain ⟨e1, err⟩ := v
              rw [hpush] at h
              have htx := dfePush_tx e e1 p entry.fid entry.resend err hpush
              obtain ⟨k1, k2, k3⟩ := dfePush_einv _ e e1 p entry.fid entry.resend err hE hpush
              cases err with
              | some pe =>
                have hE1 := einv_failed _ e1 p entry.fid entry.resend pe k1 k2 k3
                have hH1 : HeadInv e1.s (base ++ tr) := hH.congr htx.2.1 htx.1 (fun _ hx => hx)
                cases pe <;>
                · simp only [Except.ok.injEq, Prod.mk.injEq] at h
                  obtain ⟨rfl, _, rfl⟩ := h
                  exact ⟨hE1, hH1⟩
              | none =>
                simp only at h
                refine ih _ _ ?_ ?_ h
                · rw [← List.append_assoc]
                  refine einv_pushed _ e1 _ p entry.fid entry.resend _
                    (PSend.findPacket_some _ _ _ h1).2.symm rfl rfl k1 k2 k3 ?_ ?_ rfl
                  · split <;> rfl
                  · split <;> rfl
                · rw [← List.append_assoc]
                  refine headInv_pop (T' := (base ++ tr) ++ [_]) hH h0 ?_ ?_
                    (fun _ hx => List.mem_append_left _ hx)
                    (.inl ⟨{ uid := entry.uid, fid := entry.fid, resend := entry.resend,
                             fromResend := false, flushId := e1.s.flushId, expiry := p.expiry },
                           by simp, rfl⟩)
                  · split <;> rfl
                  · split <;> exact htx.1

/-- The refill step: the pending queue, when empty, receives all fragments of the next packet,
fragment 0 first. -/
theorem refill_inv (T : List Push) (e e1 : Emit F) (b : Bool) (hE : EInv T e) (hH : HeadInv e.s T)
    (h : refill e = .ok (e1, b)) : EInv T e1 ∧ HeadInv e1.s T := by
  unfold refill at h
  split at h
  · rename_i hemp
    have hempty : e.s.pending = [] := by simpa using hemp
    cases hem : PSend.emit e.s.ps e.s.flushId with
    | error t => rw [hem] at h; cases h
    | ok v =>
      obtain ⟨ps', r⟩ := v
      rw [hem] at h
      have hA := ackedIn_emit _ _ _ _ _ hE.acked hem
      cases r with
      | none =>
        simp only [Except.ok.injEq, Prod.mk.injEq] at h
        obtain ⟨rfl, _⟩ := h
        refine ⟨⟨hE.refs, hA, hE.prog⟩, ?_⟩
        exact headInv_nil hempty
      | some pr =>
        obtain ⟨p, resend⟩ := pr
        simp only [Except.ok.injEq, Prod.mk.injEq] at h
        obtain ⟨rfl, _⟩ := h
        refine ⟨⟨hE.refs, hA, hE.prog⟩, ?_⟩
        rintro u ⟨pe, hpe, he⟩
        simp only [List.mem_map] at hpe
        obtain ⟨i, _, rfl⟩ := hpe
        simp only at he
        subst he
        refine .inl ⟨resend, ((List.range p.lastFragmentId).map Nat.succ).map
          (fun i => ({ uid := p.uid, fid := i, resend := resend } : PEntry)), ?_⟩
        simp only
        rw [List.range_succ_eq_map, List.map_cons]
  · simp only [Except.ok.injEq, Prod.mk.injEq] at h
    obtain ⟨rfl, _⟩ := h
    exact ⟨hE, hH⟩

theorem pendingOuterT_inv (base : List Push) (fuel : Nat) (e e' : Emit F) (tr tr' : List Push)
    (st : Option Stage) (hE : EInv (base ++ tr) e) (hH : HeadInv e.s (base ++ tr))
    (h : pendingOuterT fuel e tr = .ok (e', st, tr')) :
    EInv (base ++ tr') e' ∧ HeadInv e'.s (base ++ tr') := by
  induction fuel generalizing e tr with
  | zero => simp [pendingOuterT] at h
  | succ n ih =>
    unfold pendingOuterT at h
    cases hr : refill e with
    | error t => rw [hr] at h; cases h
    | ok v =>
      obtain ⟨e1, b⟩ := v
      rw [hr] at h
      obtain ⟨hE1, hH1⟩ := refill_inv _ e e1 b hE hH hr
      cases b with
      | false =>
        simp only [Except.ok.injEq, Prod.mk.injEq] at h
        obtain ⟨rfl, _, rfl⟩ := h
        exact ⟨hE1, hH1⟩
      | true =>
        simp only at h
        cases hin : pendingInnerT (e1.s.pending.length + 2) e1 tr with
        | error t => rw [hin] at h; cases h
        | ok v2 =>
          obtain ⟨e2, st2, tr2⟩ := v2
          rw [hin] at h
          obtain ⟨hE2, hH2⟩ := pendingInnerT_inv base _ e1 e2 tr tr2 st2 hE1 hH1 hin
          cases st2 with
          | some s2 =>
            simp only [Except.ok.injEq, Prod.mk.injEq] at h
            obtain ⟨rfl, _, rfl⟩ := h
            exact ⟨hE2, hH2⟩
          | none =>
            simp only at h
            exact ih _ _ hE2 hH2 h

end Uflow.TsDrop
