import Uflow.Lemmas.EpNoTrapRun
import Uflow.Lemmas.CreditEx
import Uflow.Lemmas.EndpointServerFrames

/-!
C03 (endpoints): concrete runs for the non-vacuity examples and the witnesses of `Props/C03Ep.lean`,
on the half connection `hcOf exOps` (`exOps : FloatOps Nat`, `Uflow/Lemmas/CreditEx.lean`), evaluated
by the kernel.

Decoding a SYN in the kernel costs about half a minute (CRC-32 over the 1472 padded bytes), so the
connected server state is built from the DECODED handshake frames (`exSrv2`), and
`exSrv2_from_bytes` shows, with the codec round-trip theorem instead of kernel evaluation, that this
is the state `handle_frames` reaches on the encoded datagrams. Everything after the handshake is fed
as bytes.
-/

namespace Uflow.EpNoTrap.Ex

open Uflow Uflow.Gen Uflow.Codec Uflow.HalfConn Uflow.Endpoint Uflow.EpNoTrap Uflow.CreditEx

abbrev HN := HalfConn.State Nat

/-- the half connection of the examples -/
abbrev hcN : HC HN := hcOf exOps

def ep0 : EpConfig :=
  { maxSendRate := 1000000, maxReceiveRate := 1000000, maxPacketSize := 1000, maxReceiveAlloc := 100000,
    keepalive := true, keepaliveIntervalMs := 1000, activeTimeoutMs := 15000 }

def cfg0 : SrvConfig :=
  { maxTotalConnections := 4, maxActiveConnections := 2, enableHandshakeErrors := true, ep := ep0 }

/-! ## server -/

/-- A fresh server; the first two nonces it draws are 77 and 88. -/
def exSrv0 : Server HN := Server.init cfg0 0 ⟨[77, 88], 1⟩

def synF (n : Nat) : Frame := .syn PROTOCOL_VERSION n 1000000 1000 100000

/-- One decoded frame handled at `now_ms = 1`, `now = 1 ms`. -/
def feed (s : Server HN) (a : Nat) (f : Frame) : Server HN :=
  match s.handleFrame hcN a f 1 1000000 with
  | .ok (s', _) => s'
  | .error _ => s

/-- Two clients (addresses 7 and 8, nonces 5 and 6) complete the handshake. -/
def exSrv2 : Server HN := feed (feed (feed (feed exSrv0 7 (synF 5)) 8 (synF 6)) 7 (.hsAck 77)) 8 (.hsAck 88)

/-- The handshake as datagrams. -/
def exHandshake : List (Nat × List Nat) :=
  [(7, encode (synF 5)), (8, encode (synF 6)), (7, encode (.hsAck 77)), (8, encode (.hsAck 88))]

/-- A datagram whose fields are all out of range for the connection: sequence id far outside the
window, channel 6 with parent leads 9, `fragment_id = 7 > fragment_id_last = 3`. -/
def dgBad : Datagram :=
  { sequenceId := 2^20 + 3, channelId := 70, windowParentLead := 9, channelParentLead := 9,
    fragmentId := 7, fragmentIdLast := 3, data := [1, 2, 3] }

/-- The next packet the server expects from client 7 (packet ids and frame ids start at the nonce 5). -/
def dgGood : Datagram :=
  { sequenceId := 5, channelId := 0, windowParentLead := 0, channelParentLead := 0,
    fragmentId := 0, fragmentIdLast := 0, data := [4, 5, 6] }

def hostileData : List Nat := encode (.data 5 true [dgBad])
def hostileAck : List Nat := encode (.ack 5 (2^20 + 5) [{ baseId := 1000, bitfield := 0xFFFFFFFF, nonce := false }])
def hostileSync : List Nat := encode (.sync (some 12345) (some (2^31)))
def goodData : List Nat := encode (.data 5 false [dgGood])

/-- After the handshake: sends to both clients, a flush, a step in which client 7 delivers one valid
packet and then a hostile data frame, a hostile ack frame, a hostile sync frame, a truncated frame,
while an unknown address 9 sends a data frame; a graceful disconnect of 7; a step 2.5 s later with
another hostile ack; `drop` of 8; a step at 30 s (the disconnect handshake with 7 times out). -/
def exSrvOps : List SOp :=
  [.send 7 [1, 2, 3] 0 .reliable,
   .send 8 (List.replicate 3000 9) 1 .unreliable,
   .flush,
   .step 3000000 [(7, goodData), (7, hostileData), (7, hostileAck), (7, hostileSync), (7, hostileData.take 10),
                  (9, hostileData)],
   .disconnect 7 .flush,
   .step 2500000000 [(7, hostileAck)],
   .drop 8,
   .step 30000000000 []]

/-- What the run of `exSrvOps` from `exSrv2` is checked to produce. -/
def exSrvChk : Bool :=
  match runS hcN exSrv2 exSrvOps with
  | .ok (s, sent, evs) =>
    evs == [SEvent.connect 7, SEvent.connect 8, SEvent.receive 7 [4, 5, 6], SEvent.error 7 .timeout] &&
    sent.length == 4 && s.clients.length == 0 && s.timers.size == 0
  | .error _ => false

/-- The genuine acknowledgement of the server's first frame to client 7 (frame id = nonce 77). -/
def ackOf (n : Bool) : List Nat := encode (.ack 78 78 [{ baseId := 77, bitfield := 1, nonce := n }])

/-- A step at 5 s, a packet sent and flushed at that time, then its acknowledgement arrives in a
step whose time is `t`. -/
def exSrvClock (t : Nat) : List SOp :=
  [.step 5000000000 [], .send 7 (List.replicate 100 7) 0 .reliable, .flush, .step t [(7, ackOf true)]]

/-- A `send` on channel 64, then a `flush`. -/
def exSrvChan : List SOp := [.send 7 [1, 2, 3] 64 .reliable, .flush]

def trapOfS (r : R (Server HN × List (Nat × List Nat) × List SEvent)) : Option Trap :=
  match r with
  | .ok _ => none
  | .error t => some t

theorem trapOfS_eq_some {r : R (Server HN × List (Nat × List Nat) × List SEvent)} {t : Trap}
    (h : trapOfS r = some t) : r = .error t := by
  cases r with
  | ok _ => cases h
  | error t' => simp only [trapOfS, Option.some.injEq] at h; rw [h]

theorem isOkS {r : R (Server HN × List (Nat × List Nat) × List SEvent)} (h : trapOfS r = none) :
    ∃ x, r = .ok x := by
  cases r with
  | ok x => exact ⟨x, rfl⟩
  | error t => cases h

/-- A timer array that is NOT a heap: the root is due later than its child. -/
def exBadTimers : Array Timer :=
  #[{ cid := 0, kind := .closedTimeout, time := 10, count := 0 }, { cid := 1, kind := .closedTimeout, time := 1, count := 0 }]

/-! ## client -/

/-- A client whose nonce is 55. -/
def exCli0 : Client HN := (Client.connect ep0 0 ⟨[55], 1⟩).1

def synAck : List Nat := encode (.synAck 55 88 1000000 1000 100000)

def cDgBad : Datagram := { dgBad with sequenceId := 2^20 + 3 }
def cDgGood : Datagram := { dgGood with sequenceId := 88 }
def cHostileData : List Nat := encode (.data 88 true [cDgBad])
def cGoodData : List Nat := encode (.data 88 false [cDgGood])

/-- A send queued while pending; a step in which junk, a SYN-ACK with the wrong nonce and the
genuine SYN-ACK (twice) arrive; a step with a valid packet, hostile data / ack / sync frames, a
truncated frame and a late handshake error; a large send, flush, graceful disconnect, and two late
steps. -/
def exCliOps : List COp :=
  [.send [1, 2, 3] 0 .reliable,
   .step 1000000 [[1, 2, 3], encode (.synAck 54 88 1000000 1000 100000), synAck, synAck],
   .step 2000000 [cGoodData, cHostileData, hostileAck, hostileSync, cHostileData.take 10,
                  encode (.hsError 55 .serverFull)],
   .send (List.replicate 3000 9) 1 .unreliable,
   .flush,
   .disconnect .flush,
   .step 2500000000 [hostileAck],
   .step 40000000000 []]

def exCliChk : Bool :=
  match Client.run hcN exCli0 exCliOps with
  | .ok (c, sent, evs) =>
    evs == [CEvent.connect, CEvent.receive [4, 5, 6], CEvent.error .timeout] && sent.length == 8 &&
    (match c.state with | .fin => true | _ => false)
  | .error _ => false

def cAckOf (n : Bool) : List Nat := encode (.ack 56 56 [{ baseId := 55, bitfield := 1, nonce := n }])

def exCliClock (t : Nat) : List COp :=
  [.step 1000000 [synAck], .step 5000000000 [], .send (List.replicate 100 7) 0 .reliable, .flush,
   .step t [cAckOf true]]

def exCliChan : List COp := [.send [1] 64 .reliable, .step 1000000 [synAck], .step 2000000 []]

def trapOfC (r : R (Client HN × List (List Nat) × List CEvent)) : Option Trap :=
  match r with
  | .ok _ => none
  | .error t => some t

theorem trapOfC_eq_some {r : R (Client HN × List (List Nat) × List CEvent)} {t : Trap}
    (h : trapOfC r = some t) : r = .error t := by
  cases r with
  | ok _ => cases h
  | error t' => simp only [trapOfC, Option.some.injEq] at h; rw [h]


/-! ## the contract for `hcN`, and the handshake fed as bytes -/

theorem exOps_converges : Uflow.Rate.BisectConverges exOps := .stop (by decide)

theorem exOps_lossOk : Uflow.HcInv.LossOk exOps := fun _ => rfl

theorem hcN_ok : HCOk hcN Uflow.HcInv.HcInv Uflow.HcInv.lastNow := hcOf_ok exOps exOps_converges exOps_lossOk

theorem feed_eq {s s' : Server HN} {a : Nat} {f : Frame} {sent : List (Nat × List Nat)}
    (h : s.handleFrame hcN a f 1 1000000 = .ok (s', sent)) : feed s a f = s' := by
  unfold feed; rw [h]

theorem dec_enc (f : Frame) (hr : Representable f) (hl : (encode f).length ≤ MAX_FRAME_SIZE) :
    decode ((encode f).take MAX_FRAME_SIZE) = some f := by
  rw [List.take_of_length_le hl, decode_encode f hr]

/-- `exSrv2` satisfies the server invariant at 1 ms, and it is the state `handle_frames` reaches from
the fresh server on the four ENCODED handshake datagrams (no kernel evaluation of the CRC: the
codec round-trip theorem `decode_encode`). -/
theorem exSrv2_from_bytes :
    SrvInv Uflow.HcInv.HcInv Uflow.HcInv.lastNow 1000000 exSrv2 ∧
    ∃ sent, exSrv0.handleFrames hcN exHandshake 1 1000000 = .ok (exSrv2, sent) := by
  have i0 : SrvInv Uflow.HcInv.HcInv Uflow.HcInv.lastNow 1000000 exSrv0 := SrvInv.init _ _ _ _
  obtain ⟨s1, sent1, h1, i1⟩ := srv_handleFrame_ok hcN_ok i0 7 (synF 5) 1
  obtain ⟨s2, sent2, h2, i2⟩ := srv_handleFrame_ok hcN_ok i1 8 (synF 6) 1
  obtain ⟨s3, sent3, h3, i3⟩ := srv_handleFrame_ok hcN_ok i2 7 (.hsAck 77) 1
  obtain ⟨s4, sent4, h4, i4⟩ := srv_handleFrame_ok hcN_ok i3 8 (.hsAck 88) 1
  have e : exSrv2 = s4 := by
    unfold exSrv2
    rw [feed_eq h1, feed_eq h2, feed_eq h3, feed_eq h4]
  rw [e]
  refine ⟨i4, sent1 ++ (sent2 ++ (sent3 ++ (sent4 ++ []))), ?_⟩
  unfold exHandshake
  rw [handleFrames_cons_decoded hcN exSrv0 7 _ _ 1 1000000 (synF 5)
      (dec_enc _ (by decide) (by rw [synF, encode_syn_length]; decide)) h1,
    handleFrames_cons_decoded hcN s1 8 _ _ 1 1000000 (synF 6)
      (dec_enc _ (by decide) (by rw [synF, encode_syn_length]; decide)) h2,
    handleFrames_cons_decoded hcN s2 7 _ _ 1 1000000 (.hsAck 77) (dec_enc _ (by decide) (by decide)) h3,
    handleFrames_cons_decoded hcN s3 8 _ _ 1 1000000 (.hsAck 88) (dec_enc _ (by decide) (by decide)) h4]
  rfl

/-! ## kernel evaluations -/

set_option maxRecDepth 100000 in
theorem exSrvChk_true : exSrvChk = true := by decide +kernel

set_option maxRecDepth 100000 in
theorem exSrvClock_back : trapOfS (runS hcN exSrv2 (exSrvClock 0)) = some .overflow := by decide +kernel

set_option maxRecDepth 100000 in
theorem exSrvClock_fwd : trapOfS (runS hcN exSrv2 (exSrvClock 5000000000)) = none := by decide +kernel

set_option maxRecDepth 100000 in
theorem exSrvChan_trap : trapOfS (runS hcN exSrv2 exSrvChan) = some .index := by decide +kernel

set_option maxRecDepth 100000 in
theorem exCliChk_true : exCliChk = true := by decide +kernel

set_option maxRecDepth 100000 in
theorem exCliClock_back : trapOfC (Client.run hcN exCli0 (exCliClock 0)) = some .overflow := by decide +kernel

set_option maxRecDepth 100000 in
theorem exCliClock_fwd : trapOfC (Client.run hcN exCli0 (exCliClock 5000000000)) = none := by decide +kernel

set_option maxRecDepth 100000 in
theorem exCliChan_trap : trapOfC (Client.run hcN exCli0 exCliChan) = some .index := by decide +kernel

end Uflow.EpNoTrap.Ex
