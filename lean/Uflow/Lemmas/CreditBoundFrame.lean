import Uflow.Lemmas.CreditRun
import Uflow.Lemmas.RateInv
import Uflow.Lemmas.ModesFlush

/-!
C13 (numeric bound), part 1: frame lemmas. The quantities the credit bound depends on — the time of
the last fill, the carried fraction, the creation time, the send rate, its ceiling and the RTT
estimate — are changed by `step` only (`core`), and `step` changes them as `fillFlushAlloc` and
`Rate.step` do.
-/

namespace Uflow.CreditBound

open Uflow Uflow.Gen Uflow.Codec Uflow.HalfConn Uflow.HcFrame Uflow.Credit
open Uflow.Rate (FloatOps)

variable {F : Type}

/-- What only `step` may change: `time_last_flushed`, `flush_alloc_frac`, the creation time, and of
the rate controller the send rate, its ceiling and the RTT estimate. -/
def core (s : State F) : Option Nat × F × Nat × Nat × Nat × Option F :=
  (s.timeLastFlushed, s.flushFrac, s.timeBase, s.rate.sendRate, s.rate.maxSendRate, s.rate.rttS)

theorem core_eq {s s' : State F} (h : core s' = core s) :
    s'.timeLastFlushed = s.timeLastFlushed ∧ s'.flushFrac = s.flushFrac ∧
    s'.timeBase = s.timeBase ∧ s'.rate.sendRate = s.rate.sendRate ∧
    s'.rate.maxSendRate = s.rate.maxSendRate ∧ s'.rate.rttS = s.rate.rttS := by
  simp only [core, Prod.mk.injEq] at h
  exact h

theorem notify_rttS (r : Rate.State F) (now : Nat) : (Rate.notifyFrameSent r now).rttS = r.rttS := by
  unfold Rate.notifyFrameSent
  split <;> rfl

/-! ### the data frame emitter -/

theorem core_dfeFinalize (e : Emit F) : core (dfeFinalize e).s = core e.s := by
  cases h : e.inProg with
  | none => simp only [dfeFinalize, h]
  | some ip =>
    obtain ⟨h1, h2⟩ := Rate.notifyFrameSent_sendRate e.s.rate e.s.nowMs
    have h3 := notify_rttS e.s.rate e.s.nowMs
    simp only [dfeFinalize, h, core, h1, h2, h3]

theorem core_dfePush (e e' : Emit F) (p : PSend.Pending) (fid : Nat) (resend : Bool)
    (r : Option PushErr) (h : dfePush e p fid resend = .ok (e', r)) : core e'.s = core e.s := by
  have hf := core_dfeFinalize e
  simp only [dfePush] at h
  split at h
  · cases h
  · repeat' split at h
    all_goals first
      | (cases h; first | rfl | exact hf)
      | cases h

theorem core_resendLoop (c : Option Nat × F × Nat × Nat × Nat × Option F) (fuel : Nat)
    (e e' : Emit F) (st : Option Stage) (hi : core e.s = c)
    (h : resendLoop fuel e = .ok (e', st)) : core e'.s = c := by
  induction fuel generalizing e with
  | zero => simp [resendLoop] at h
  | succ n ih =>
    unfold resendLoop at h
    split at h
    · cases h; exact hi
    · rename_i entry _
      have hpop : core (match heapPop e.s.resend with
          | some (_, hh) => ({ e with s := { e.s with resend := hh } } : Emit F)
          | none => e).s = c := by
        split <;> exact hi
      simp only at h
      split at h
      · exact ih _ hpop h
      · rename_i p hfp
        split at h
        · exact ih _ hpop h
        · split at h
          · cases h; exact hi
          · split at h
            · cases h
            · rename_i e1 hpush
              cases h
              exact (core_dfePush e _ p _ _ _ hpush).trans hi
            · rename_i e1 hpush
              cases h
              exact (core_dfePush e _ p _ _ _ hpush).trans hi
            · rename_i e1 hpush
              have h1 := (core_dfePush e _ p _ _ _ hpush).trans hi
              split at h
              · cases h
              · refine ih _ ?_ h
                exact h1

theorem core_pendingInner (c : Option Nat × F × Nat × Nat × Nat × Option F) (fuel : Nat)
    (e e' : Emit F) (st : Option Stage) (hi : core e.s = c)
    (h : pendingInner fuel e = .ok (e', st)) : core e'.s = c := by
  induction fuel generalizing e with
  | zero => simp [pendingInner] at h
  | succ n ih =>
    unfold pendingInner at h
    split at h
    · cases h; exact hi
    · rename_i entry rest _
      split at h
      · refine ih _ ?_ h
        exact hi
      · rename_i p hfp
        split at h
        · refine ih _ ?_ h
          exact hi
        · split at h
          · refine ih _ ?_ h
            exact hi
          · split at h
            · cases h
            · rename_i e1 hpush
              cases h
              exact (core_dfePush e _ p _ _ _ hpush).trans hi
            · rename_i e1 hpush
              cases h
              exact (core_dfePush e _ p _ _ _ hpush).trans hi
            · rename_i e1 hpush
              have h1 := (core_dfePush e _ p _ _ _ hpush).trans hi
              refine ih _ ?_ h
              simp only
              split <;> exact h1

theorem core_pendingOuter (c : Option Nat × F × Nat × Nat × Nat × Option F) (fuel : Nat)
    (e e' : Emit F) (st : Option Stage) (hi : core e.s = c)
    (h : pendingOuter fuel e = .ok (e', st)) : core e'.s = c := by
  induction fuel generalizing e with
  | zero => simp [pendingOuter] at h
  | succ n ih =>
    unfold pendingOuter at h
    simp only at h
    split at h
    · cases h
    · rename_i e1 href
      cases h
      split at href
      · split at href
        · cases href
        · cases href
          exact hi
        · cases href
      · cases href
    · rename_i e1 href
      have h1 : core e1.s = c := by
        split at href
        · split at href
          · cases href
          · cases href
          · cases href
            exact hi
        · cases href
          exact hi
      split at h
      · cases h
      · rename_i e2 st2 hin
        cases h
        exact core_pendingInner c _ e1 _ _ h1 hin
      · rename_i e2 hin
        exact ih _ (core_pendingInner c _ e1 _ _ h1 hin) h

theorem core_emitDataFrames (s s' : State F) (out : List (List Nat)) (st : Stage)
    (h : emitDataFrames s = .ok (s', out, st)) : core s' = core s := by
  have h0 : core ({ s := s, inProg := none, out := [] } : Emit F).s = core s := rfl
  unfold emitDataFrames at h
  simp only at h
  split at h
  · cases h
  · rename_i e1 st1 hr
    cases h
    exact core_resendLoop _ _ _ _ _ h0 hr
  · rename_i e1 hr
    have h1 := core_resendLoop _ _ _ _ _ h0 hr
    split at h
    · cases h
    · rename_i e2 st2 hp
      cases h
      exact core_pendingOuter _ _ _ _ _ h1 hp
    · rename_i e2 hp
      cases h
      exact (core_dfeFinalize e2).trans (core_pendingOuter _ _ _ _ _ h1 hp)

/-! ### ack frames, sync frames, `flush` -/

theorem core_emitAckFrames (s : State F) : core (emitAckFrames s).1 = core s := by
  rw [emitAckFrames_eq]
  split
  · rfl
  · exact Modes.ackLoop_proj core _ _ (fun s ip out => by cases ip <;> rfl) (fun s rest => rfl)
      _ _ _ _

theorem core_emitSyncFrame (s s' : State F) (out : List (List Nat)) (st : Stage)
    (h : emitSyncFrame s = .ok (s', out, st)) : core s' = core s := by
  simp only [emitSyncFrame] at h
  repeat' split at h
  all_goals first
    | cases h; rfl
    | cases h

theorem core_flush (s s' : State F) (out : List (List Nat)) (h : flush s = .ok (s', out)) :
    core s' = core s := by
  unfold flush at h
  have hack := core_emitAckFrames s
  generalize emitAckFrames s = r at h hack
  obtain ⟨s1, out1, st1⟩ := r
  simp only at h hack
  split at h
  · cases h
    exact hack
  · split at h
    · cases h
    · rename_i s2 out2 st2 hd
      have hdat := (core_emitDataFrames s1 s2 out2 st2 hd).trans hack
      split at h
      · cases h
        exact hdat
      · split at h
        · cases h
        · rename_i s3 out3 st3 hsy
          cases h
          exact (core_emitSyncFrame _ _ _ _ hsy).trans hdat

/-! ### `receive` and the frame handlers -/

theorem core_receive (s s' : State F) (out : List (List Nat)) (h : receive s = .ok (s', out)) :
    core s' = core s := by
  simp only [receive] at h
  generalize PRecv.receive s.pr = r at h
  cases r with
  | error t => cases h
  | ok v =>
    obtain ⟨pr, o⟩ := v
    simp only [Except.ok.injEq, Prod.mk.injEq] at h
    obtain ⟨rfl, _⟩ := h
    rfl

theorem core_foldDatagrams (dgs : List Datagram) (s s' : State F)
    (h : dgs.foldlM (fun (s : State F) d =>
      (PRecv.handleDatagram s.pr d).map fun pr => { s with pr := pr }) s = .ok s') :
    core s' = core s := by
  refine foldlM_rel _ (fun a b : State F => core b = core a) (fun _ => rfl)
    (fun a b c h1 h2 => h2.trans h1) ?_ dgs s s' h
  intro a d a' ha
  generalize PRecv.handleDatagram a.pr d = r at ha
  cases r with
  | error t => cases ha
  | ok pr =>
    simp only [Except.map, Except.ok.injEq] at ha
    subst ha
    rfl

theorem core_dataFrameCore (s s' : State F) (b : Bool) (aq' : FrameQ.AckQ) (dgs : List Datagram)
    (h : dataFrameCore s b aq' dgs = .ok s') : core s' = core s := by
  unfold dataFrameCore at h
  cases b with
  | false =>
    simp only [Bool.false_eq_true, if_false, Except.ok.injEq] at h
    subst h
    rfl
  | true =>
    simp only [if_true] at h
    have := core_foldDatagrams dgs _ s' h
    exact this

theorem core_handleDataFrame (s s' : State F) (id : Nat) (nonce : Bool) (dgs : List Datagram)
    (h : handleDataFrame s id nonce dgs = .ok s') : core s' = core s := by
  rw [handleDataFrame_eq] at h
  exact core_dataFrameCore s s' _ _ dgs h

theorem core_syncFrameCore (s s' : State F) (g : Nat → FrameQ.AckQ) (nf np : Option Nat)
    (h : syncFrameCore s g nf np = .ok s') : core s' = core s := by
  simp only [syncFrameCore] at h
  cases nf with
  | none =>
    cases np with
    | none =>
      simp only [Except.map, Except.ok.injEq] at h
      subst h
      rfl
    | some pid =>
      simp only [Except.map] at h
      generalize PRecv.resynchronize s.pr pid = r at h
      cases r with
      | error t => cases h
      | ok pr =>
        simp only [Except.ok.injEq] at h
        subst h
        rfl
  | some fid =>
    simp only at h
    generalize g fid = aq' at h
    cases np with
    | none =>
      simp only [Except.map, Except.ok.injEq] at h
      subst h
      rfl
    | some pid =>
      simp only [Except.map] at h
      generalize PRecv.resynchronize s.pr pid = r at h
      cases r with
      | error t => cases h
      | ok pr =>
        simp only [Except.ok.injEq] at h
        subst h
        rfl

theorem core_handleSyncFrame (s s' : State F) (nf np : Option Nat)
    (h : handleSyncFrame s nf np = .ok s') : core s' = core s := by
  rw [handleSyncFrame_eq] at h
  exact core_syncFrameCore s s' _ nf np h

theorem core_ackP (s s' : State F) (fb pb : Nat) (acks : List AckGroup)
    (ag : FrameQ.State → AckGroup → Option Nat → R (FrameQ.State × List (Nat × Nat)))
    (adv : FrameQ.State → Nat → Option Nat → R FrameQ.State)
    (pack : PSend.State → Nat → R PSend.State)
    (h : ackP s fb pb acks ag adv pack = .ok s') : core s' = core s := by
  unfold ackP at h
  simp only at h
  generalize hr : (List.foldlM _ s acks : R (State F)) = r at h
  cases r with
  | error t => cases h
  | ok s1 =>
    simp only at h
    have h1 : core s1 = core s := by
      refine foldlM_rel _ (fun a b : State F => core b = core a) (fun _ => rfl)
        (fun a b c h1 h2 => h2.trans h1) ?_ acks s s1 hr
      intro a g a' ha
      generalize ag a.fq g _ = r at ha
      cases r with
      | error t => cases ha
      | ok v =>
        obtain ⟨fq, frs⟩ := v
        simp only [Except.ok.injEq] at ha
        subst ha
        rfl
    generalize adv s1.fq fb _ = r2 at h
    generalize pack s1.ps pb = r3 at h
    cases r2 with
    | error t => cases h
    | ok fq =>
      cases r3 with
      | error t => cases h
      | ok ps2 =>
        simp only [Except.ok.injEq] at h
        subst h
        exact h1

theorem core_handleAckFrame (s s' : State F) (fb pb : Nat) (acks : List AckGroup)
    (h : handleAckFrame s fb pb acks = .ok s') : core s' = core s := by
  rw [handleAckFrame_eq] at h
  exact core_ackP s s' fb pb acks _ _ _ h

/-- Every event other than `step` leaves `core` alone. -/
theorem core_exec (ops : FloatOps F) (s s1 : State F) (ev : Ev) (out : List (List Nat))
    (hns : ∀ now, ev ≠ .step now) (h : exec ops s ev = .ok (s1, out)) : core s1 = core s := by
  cases ev with
  | step now => exact absurd rfl (hns now)
  | flush => exact core_flush s s1 out h
  | send d c m =>
    simp only [exec, Except.ok.injEq, Prod.mk.injEq] at h
    obtain ⟨rfl, _⟩ := h
    rfl
  | receive =>
    simp only [exec] at h
    generalize hs : HalfConn.receive s = r at h
    cases r with
    | error t => cases h
    | ok v =>
      simp only [Except.map, Except.ok.injEq, Prod.mk.injEq] at h
      obtain ⟨rfl, _⟩ := h
      exact core_receive s v.1 v.2 hs
  | dataFrame id nonce dgs =>
    simp only [exec] at h
    generalize hs : handleDataFrame s id nonce dgs = r at h
    cases r with
    | error t => cases h
    | ok s2 =>
      simp only [Except.map, Except.ok.injEq, Prod.mk.injEq] at h
      obtain ⟨rfl, _⟩ := h
      exact core_handleDataFrame s s2 id nonce dgs hs
  | syncFrame nf np =>
    simp only [exec] at h
    generalize hs : handleSyncFrame s nf np = r at h
    cases r with
    | error t => cases h
    | ok s2 =>
      simp only [Except.map, Except.ok.injEq, Prod.mk.injEq] at h
      obtain ⟨rfl, _⟩ := h
      exact core_handleSyncFrame s s2 nf np hs
  | ackFrame fb pb acks =>
    simp only [exec] at h
    generalize hs : handleAckFrame s fb pb acks = r at h
    cases r with
    | error t => cases h
    | ok s2 =>
      simp only [Except.map, Except.ok.injEq, Prod.mk.injEq] at h
      obtain ⟨rfl, _⟩ := h
      exact core_handleAckFrame s s2 fb pb acks hs

/-! ### `step` -/

theorem fill_frac_some (ops : FloatOps F) (s : State F) (now last : Nat)
    (h : s.timeLastFlushed = some last) :
    (fillFlushAlloc ops s now).flushFrac =
      (ops.fillBytes s.rate.sendRate (now - last) s.flushFrac).2 := by
  simp only [fillFlushAlloc, h]

theorem fill_frac_none (ops : FloatOps F) (s : State F) (now : Nat)
    (h : s.timeLastFlushed = none) : (fillFlushAlloc ops s now).flushFrac = s.flushFrac := by
  simp only [fillFlushAlloc, h]

/-- `fillFlushAlloc` does not look at the clocks or the frame queue (the components not covered by
`HcFrame.fill_congr`). -/
theorem fill_congr2 (ops : FloatOps F) (s : State F) (now n r t : Nat) (fq : FrameQ.State) :
    (fillFlushAlloc ops ({ s with nowMs := n, rttMs := r, rtoMs := t, fq := fq }) now).flushFrac
      = (fillFlushAlloc ops s now).flushFrac ∧
    (fillFlushAlloc ops ({ s with nowMs := n, rttMs := r, rtoMs := t, fq := fq }) now).timeBase
      = s.timeBase ∧
    (fillFlushAlloc ops ({ s with nowMs := n, rttMs := r, rtoMs := t, fq := fq }) now).rate
      = s.rate := by
  cases hl : s.timeLastFlushed <;> simp [fillFlushAlloc, hl]

theorem step_finish2 (sf s' : State F) (w : Nat) (fq : FrameQ.State) (rate : Rate.State F)
    (h : ({ sf with flushId := w, fq := fq, rate := rate } : State F) = s') :
    s'.flushFrac = sf.flushFrac ∧ s'.timeBase = sf.timeBase ∧ s'.rate = rate := by
  subst h
  exact ⟨rfl, rfl, rfl⟩

theorem stepP_core (ops : FloatOps F) (s s' : State F) (now nowMs : Nat) (w : Nat → Nat → Nat)
    (ff : FrameQ.State → Nat → Option Nat → R FrameQ.State)
    (gf : FrameQ.State → Nat → R (FrameQ.State × Option (Rate.Feedback F)))
    (rs : Rate.State F → Nat → Option (Rate.Feedback F) → R (Rate.State F × Option F))
    (rl : FrameQ.State → F → R FrameQ.State)
    (h : stepP ops s now nowMs w ff gf rs rl = .ok s') :
    s'.flushFrac = (fillFlushAlloc ops s now).flushFrac ∧ s'.timeBase = s.timeBase ∧
    ∃ fb r, rs s.rate nowMs fb = .ok (s'.rate, r) := by
  unfold stepP at h
  simp only at h
  generalize ff s.fq _ _ = r1 at h
  cases r1 with
  | error t => cases h
  | ok fq =>
    obtain ⟨k1, k2, k3⟩ := fill_congr2 ops s now nowMs
      (s.rate.rttMs.getD INITIAL_RTT_ESTIMATE_MS) (s.rate.rtoMs.getD INITIAL_RTO_ESTIMATE_MS) fq
    simp only at h
    generalize gf _ _ = r2 at h
    cases r2 with
    | error t => cases h
    | ok v =>
      obtain ⟨fq2, fbk⟩ := v
      simp only at h
      rw [k3] at h
      generalize hrs : rs s.rate nowMs fbk = r3 at h
      cases r3 with
      | error t => cases h
      | ok v3 =>
        obtain ⟨rate, reset⟩ := v3
        cases reset with
        | none =>
          simp only [Except.ok.injEq] at h
          obtain ⟨f1, f2, f3⟩ := step_finish2 _ s' _ fq2 rate h
          exact ⟨f1.trans k1, f2.trans k2, fbk, none, by rw [f3]; exact hrs⟩
        | some p =>
          simp only at h
          generalize rl fq2 p = r4 at h
          cases r4 with
          | error t => cases h
          | ok fq3 =>
            simp only [Except.ok.injEq] at h
            obtain ⟨f1, f2, f3⟩ := step_finish2 _ s' _ fq3 rate h
            exact ⟨f1.trans k1, f2.trans k2, fbk, some p, by rw [f3]; exact hrs⟩

/-- `step` changes the carried fraction as `fillFlushAlloc` does, keeps the creation time, and
replaces the rate controller by the result of one `Rate.step` on it. -/
theorem step_core (ops : FloatOps F) (s s' : State F) (now : Nat) (h : step ops s now = .ok s') :
    s'.flushFrac = (fillFlushAlloc ops s now).flushFrac ∧ s'.timeBase = s.timeBase ∧
    ∃ t fb r, Rate.step ops s.rate t fb = .ok (s'.rate, r) := by
  rw [step_eq] at h
  obtain ⟨h1, h2, fb, r, h3⟩ := stepP_core ops s s' now _ _ _ _ _ _ h
  exact ⟨h1, h2, _, fb, r, h3⟩

end Uflow.CreditBound
