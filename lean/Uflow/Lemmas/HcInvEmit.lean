import Uflow.Lemmas.HcInvDef
import Uflow.Lemmas.Heap

/-!
C03 (half connection): the data frame emitter (`dfeFinalize`, `dfePush`) preserves the composed
invariant, never traps on a well-formed fragment, and every successful push strictly consumes
credit (`cred`), which is what bounds the `resend` loop of `emit_data_frames`.
-/

namespace Uflow.HcInv

open Uflow Uflow.Gen Uflow.Codec Uflow.HalfConn Uflow.Frag
open Uflow.Rate (FloatOps RateInv)
open Uflow.PSend (PsInv FragOk UidLt)
open Uflow.FrameQ (WInv FqTime)
open Uflow.Credit (PsOk PktOk)

variable {F : Type}

/-- What the data frame emitter leaves alone. -/
structure Keep (s s' : State F) : Prop where
  ps : s'.ps = s.ps
  pending : s'.pending = s.pending
  resend : s'.resend = s.resend
  nowMs : s'.nowMs = s.nowMs
  rttMs : s'.rttMs = s.rttMs
  flushId : s'.flushId = s.flushId
  pr : s'.pr = s.pr
  timeBase : s'.timeBase = s.timeBase
  tlf : s'.timeLastFlushed = s.timeLastFlushed

theorem Keep.refl (s : State F) : Keep s s := ⟨rfl, rfl, rfl, rfl, rfl, rfl, rfl, rfl, rfl⟩

theorem Keep.trans {a b c : State F} (h1 : Keep a b) (h2 : Keep b c) : Keep a c :=
  ⟨h2.ps.trans h1.ps, h2.pending.trans h1.pending, h2.resend.trans h1.resend,
   h2.nowMs.trans h1.nowMs, h2.rttMs.trans h1.rttMs, h2.flushId.trans h1.flushId,
   h2.pr.trans h1.pr, h2.timeBase.trans h1.timeBase, h2.tlf.trans h1.tlf⟩

theorem Keep.lastNow {s s' : State F} (h : Keep s s') : lastNow s' = lastNow s := by
  unfold HcInv.lastNow; rw [h.tlf, h.timeBase]

/-- `HcInv` after a step that keeps the transmit side and the clocks and re-establishes the frame
queue, rate controller and sync-timer parts. -/
theorem HcInv.emitStep {s s' : State F} (h : HcInv s) (hk : Keep s s') (hfq : WInv s'.fq)
    (hfqt : FqTime s'.fq s.nowMs) (hrate : RateInv s'.rate s.nowMs)
    (hsync : s'.syncTimeoutBase ≤ s.nowMs) : HcInv s' where
  ps := by rw [hk.ps]; exact h.ps
  pok := by rw [hk.ps]; exact h.pok
  uid := by rw [hk.ps]; exact h.uid
  pend := by rw [hk.ps, hk.pending]; exact h.pend
  res := by rw [hk.ps, hk.resend]; exact h.res
  fq := hfq
  fqt := by rw [hk.nowMs]; exact hfqt
  pr := by rw [hk.pr]; exact h.pr
  rate := by rw [hk.nowMs]; exact hrate
  sync := by rw [hk.nowMs]; exact hsync
  clock := by rw [hk.nowMs, hk.lastNow, hk.timeBase]; exact h.clock

/-- Invariant of the emitter context. -/
structure EInv (e : Emit F) : Prop where
  hc : HcInv e.s
  ip : ∀ ip, e.inProg = some ip → 0 ≤ e.s.flushAlloc ∧ IpOk ip

/-- The credit left once the in-progress frame is paid for. -/
def cred (e : Emit F) : Int :=
  e.s.flushAlloc - (match e.inProg with | some ip => (ip.size : Int) | none => 0)

theorem cred_none (e : Emit F) (h : e.inProg = none) : cred e = e.s.flushAlloc := by
  simp [cred, h]

theorem cred_some (e : Emit F) (ip : InProg) (h : e.inProg = some ip) :
    cred e = e.s.flushAlloc - ip.size := by
  simp [cred, h]

/-! ### `dfeFinalize` -/

theorem dfeFinalize_none (e : Emit F) (h : e.inProg = none) : dfeFinalize e = e := by
  simp only [dfeFinalize, h]

theorem keep_update (s : State F) (fq : FrameQ.State) (rate : Rate.State F) (A : Int) (sb : Nat) :
    Keep s { s with fq := fq, rate := rate, flushAlloc := A, syncTimeoutBase := sb } :=
  ⟨rfl, rfl, rfl, rfl, rfl, rfl, rfl, rfl, rfl⟩

/-- `dfeFinalize` with a frame in progress; the new frame queue and rate controller are named so
that no unifier ever has to look into `FrameQ.push`. -/
theorem dfeFinalize_some (e : Emit F) (ip : InProg) (h : e.inProg = some ip) :
    ∃ fq rate,
      fq = FrameQ.push e.s.fq (encode (.data ip.frameId ip.nonce ip.dgs)).length e.s.nowMs ip.refs ip.nonce ∧
      rate = Rate.notifyFrameSent e.s.rate e.s.nowMs ∧
      dfeFinalize e =
        { s := { e.s with
                   fq := fq, rate := rate,
                   flushAlloc := e.s.flushAlloc - (encode (.data ip.frameId ip.nonce ip.dgs)).length,
                   syncTimeoutBase := e.s.nowMs },
          inProg := none, out := e.out ++ [encode (.data ip.frameId ip.nonce ip.dgs)] } :=
  ⟨_, _, rfl, rfl, by simp only [dfeFinalize, h]⟩

theorem dfeFinalize_einv (e : Emit F) (h : EInv e) :
    EInv (dfeFinalize e) ∧ Keep e.s (dfeFinalize e).s ∧ (dfeFinalize e).inProg = none ∧
      (dfeFinalize e).s.flushAlloc = cred e := by
  cases hip : e.inProg with
  | none =>
    rw [dfeFinalize_none e hip]
    exact ⟨h, Keep.refl _, hip, (cred_none e hip).symm⟩
  | some ip =>
    obtain ⟨fq, rate, hfq, hrate, heq⟩ := dfeFinalize_some e ip hip
    rw [heq]
    obtain ⟨h0, hok⟩ := h.ip ip hip
    have hk := keep_update e.s fq rate
      (e.s.flushAlloc - (encode (.data ip.frameId ip.nonce ip.dgs)).length) e.s.nowMs
    refine ⟨⟨?_, fun ip' h' => by cases h'⟩, hk, rfl, ?_⟩
    · refine h.hc.emitStep hk ?_ ?_ ?_ (Nat.le_refl _)
      · show WInv fq
        rw [hfq]; exact FrameQ.WInv_push _ _ _ _ _ h.hc.fq
      · show FqTime fq e.s.nowMs
        rw [hfq]; exact FrameQ.FqTime_push _ _ _ _ _ _ h.hc.fqt (Nat.le_refl _)
      · show RateInv rate e.s.nowMs
        rw [hrate]; exact Rate.RateInv_sent h.hc.rate
    · show e.s.flushAlloc - ((encode (.data ip.frameId ip.nonce ip.dgs)).length : Int) = cred e
      rw [ipOk_frame_length ip hok, cred_some e ip hip]

/-! ### `dfePush` -/

/-- The `startNew` closure of `dfePush`. -/
def startNewG (dg : Datagram) (p : PSend.Pending) (fid : Nat) (resend : Bool) (e : Emit F) :
    R (Emit F × Option PushErr) :=
  if e.s.flushAlloc < 0 then
    .ok ({ e with s := { e.s with fq := { e.s.fq with rateLimited := true } } }, some .sizeLimited)
  else if ¬ FrameQ.canPush e.s.fq then .ok (e, some .windowLimited)
  else
    let (v, rng) := e.s.rng.next
    let nonce := v % 2 = 1
    let ip : InProg := { frameId := e.s.fq.logNext, nonce := nonce, dgs := [dg],
                         size := DATA_FRAME_OVERHEAD + encodedSize dg,
                         refs := if resend then [(p.uid, fid)] else [] }
    .ok ({ e with s := { e.s with rng := rng }, inProg := some ip }, none)

theorem dfePush_eq (e : Emit F) (p : PSend.Pending) (fid : Nat) (resend : Bool) :
    dfePush e p fid resend =
      match p.datagram fid with
      | .error t => .error t
      | .ok dg =>
        match e.inProg with
        | some ip =>
          if e.s.flushAlloc - ip.size < 0 then
            .ok ({ dfeFinalize e with s := { (dfeFinalize e).s with fq := { (dfeFinalize e).s.fq with rateLimited := true } } }, some .sizeLimited)
          else if ip.size + encodedSize dg > MAX_FRAME_SIZE ∨ ip.dgs.length ≥ maxPacketCount then
            startNewG dg p fid resend (dfeFinalize e)
          else
            .ok ({ e with inProg := some { ip with dgs := ip.dgs ++ [dg], size := ip.size + encodedSize dg,
                                                   refs := if resend then ip.refs ++ [(p.uid, fid)] else ip.refs } }, none)
        | none => startNewG dg p fid resend e := by
  unfold dfePush startNewG
  rfl

theorem rateLimited_einv (e : Emit F) (h : EInv e) (hn : e.inProg = none) :
    EInv ({ e with s := { e.s with fq := { e.s.fq with rateLimited := true } } } : Emit F) := by
  refine ⟨?_, fun ip h' => by rw [hn] at h'; cases h'⟩
  refine h.hc.emitStep ⟨rfl, rfl, rfl, rfl, rfl, rfl, rfl, rfl, rfl⟩ ?_ ?_ h.hc.rate h.hc.sync
  · exact FrameQ.WInv_congr h.hc.fq rfl rfl rfl rfl rfl rfl rfl
  · exact FrameQ.FqTime_congr h.hc.fqt rfl rfl rfl

theorem encodedSize_pos (dg : Datagram) : 6 ≤ encodedSize dg := by
  simp only [encodedSize, DATAGRAM_HEADER_SIZE_MICRO, DATAGRAM_HEADER_SIZE_SMALL,
    DATAGRAM_HEADER_SIZE_LARGE]
  split
  · omega
  · split <;> omega

theorem startNewG_ok (dg : Datagram) (p : PSend.Pending) (fid : Nat) (resend : Bool) (e : Emit F)
    (h : EInv e) (hn : e.inProg = none) (hlen : dg.data.length ≤ 1448) :
    ∃ e' r, startNewG dg p fid resend e = .ok (e', r) ∧ EInv e' ∧ Keep e.s e'.s ∧
      (r = none → 0 ≤ cred e ∧ cred e' < cred e) := by
  unfold startNewG
  by_cases hA : e.s.flushAlloc < 0
  · rw [if_pos hA]
    exact ⟨_, _, rfl, rateLimited_einv e h hn, ⟨rfl, rfl, rfl, rfl, rfl, rfl, rfl, rfl, rfl⟩,
      fun hr => by cases hr⟩
  · rw [if_neg hA]
    by_cases hcp : ¬ FrameQ.canPush e.s.fq
    · rw [if_pos hcp]
      exact ⟨_, _, rfl, h, Keep.refl _, fun hr => by cases hr⟩
    · rw [if_neg hcp]
      simp only []
      refine ⟨_, _, rfl, ⟨?_, ?_⟩, ⟨rfl, rfl, rfl, rfl, rfl, rfl, rfl, rfl, rfl⟩, fun _ => ?_⟩
      · exact h.hc.emitStep ⟨rfl, rfl, rfl, rfl, rfl, rfl, rfl, rfl, rfl⟩ h.hc.fq h.hc.fqt h.hc.rate
          h.hc.sync
      · intro ip' h'
        simp only [Option.some.injEq] at h'
        subst h'
        exact ⟨by show 0 ≤ e.s.flushAlloc; omega, ipOk_single dg _ _ _ hlen⟩
      · rw [cred_none e hn]
        refine ⟨by omega, ?_⟩
        simp only [cred, DATA_FRAME_OVERHEAD]
        have := encodedSize_pos dg
        omega

/-- `dfePush` of a fragment that exists: no trap, invariants kept, and a successful push consumes
credit. -/
theorem dfePush_ok (e : Emit F) (p : PSend.Pending) (uid fid : Nat) (resend : Bool) (h : EInv e)
    (hfp : PSend.findPacket e.s.ps uid = some p) (hfo : FragOk e.s.ps uid fid) :
    ∃ e' r, dfePush e p fid resend = .ok (e', r) ∧ EInv e' ∧ Keep e.s e'.s ∧
      (r = none → 0 ≤ cred e ∧ cred e' < cred e) := by
  obtain ⟨dg, hdg⟩ := PSend.fragOk_datagram e.s.ps h.hc.ps uid fid p hfo hfp
  have hlen : dg.data.length ≤ 1448 :=
    Credit.datagram_length_le p (Credit.findPacket_ok _ h.hc.pok uid p hfp) fid dg hdg
  rw [dfePush_eq, hdg]
  simp only []
  obtain ⟨hfe, hfk, hfn, hfa⟩ := dfeFinalize_einv e h
  cases hip : e.inProg with
  | none =>
    simp only []
    exact startNewG_ok dg p fid resend e h hip hlen
  | some ip =>
    simp only []
    obtain ⟨h0, hok⟩ := h.ip ip hip
    have hc := cred_some e ip hip
    by_cases h1 : e.s.flushAlloc - (ip.size : Int) < 0
    · rw [if_pos h1]
      refine ⟨_, _, rfl, rateLimited_einv _ hfe hfn, ?_, fun hr => by cases hr⟩
      exact ⟨hfk.ps, hfk.pending, hfk.resend, hfk.nowMs, hfk.rttMs, hfk.flushId, hfk.pr,
        hfk.timeBase, hfk.tlf⟩
    · rw [if_neg h1]
      by_cases h2 : ip.size + encodedSize dg > MAX_FRAME_SIZE ∨ ip.dgs.length ≥ maxPacketCount
      · rw [if_pos h2]
        obtain ⟨e', r, he', hi', hk', hcr⟩ := startNewG_ok dg p fid resend (dfeFinalize e) hfe hfn hlen
        refine ⟨e', r, he', hi', hfk.trans hk', fun hr => ?_⟩
        obtain ⟨c1, c2⟩ := hcr hr
        rw [cred_none _ hfn, hfa] at c1 c2
        exact ⟨c1, c2⟩
      · rw [if_neg h2]
        refine ⟨_, _, rfl, ⟨h.hc, ?_⟩, Keep.refl _, fun _ => ?_⟩
        · intro ip' h'
          simp only [Option.some.injEq] at h'
          subst h'
          refine ⟨h0, ?_⟩
          obtain ⟨k1, k2, k3⟩ := hok
          refine ⟨?_, ?_, ?_⟩
          · simp only [List.map_append, List.sum_append_nat, List.map_cons, List.map_nil,
              List.sum_cons, List.sum_nil]
            omega
          · simp only [not_or, Nat.not_lt] at h2
            exact h2.1
          · intro d hd'
            simp only [List.mem_append, List.mem_singleton] at hd'
            rcases hd' with hd' | rfl
            · exact k3 d hd'
            · exact hlen
        · rw [hc]
          refine ⟨by omega, ?_⟩
          simp only [cred]
          have := encodedSize_pos dg
          omega

/-! ### heap sizes -/

theorem size_heapPush (h : Array REntry) (x : REntry) : (heapPush h x).size = h.size + 1 := by
  have := (Heap.heapPush_perm h x).length_eq
  simpa using this

theorem size_heapPop (h h' : Array REntry) (top : REntry) (hp : heapPop h = some (top, h')) :
    h.size = h'.size + 1 := by
  have := (Heap.heapPop_perm h h' top hp).2.length_eq
  simpa using this

end Uflow.HcInv
