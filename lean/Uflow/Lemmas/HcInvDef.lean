import Uflow.Lemmas.HcInvPSend
import Uflow.Lemmas.HcInvFq
import Uflow.Lemmas.CreditRun
import Uflow.Lemmas.PRecvRun
import Uflow.Lemmas.RateInv

/-!
C03 (half connection): the composed invariant `HcInv` of `HalfConn.State`, its validity for
`HalfConn.init`, and trap freedom + preservation for the three network handlers
(`handleDataFrame`, `handleAckFrame`, `handleSyncFrame` with ARBITRARY arguments) and for `send`,
`receive`.
-/

namespace Uflow.HcInv

open Uflow Uflow.Gen Uflow.Codec Uflow.HalfConn Uflow.HcFrame
open Uflow.Rate (FloatOps RateInv)
open Uflow.PSend (PsInv FragOk UidLt)
open Uflow.FrameQ (WInv FqTime)
open Uflow.Credit (PsOk)

variable {F : Type}

/-- The time of the last `step` (the creation time before the first one). -/
def lastNow (s : State F) : Nat := s.timeLastFlushed.getD s.timeBase

/-- The composed invariant of one half connection. -/
structure HcInv (s : State F) : Prop where
  /-- packet sender: counters, window/id arithmetic, channel indices, fragment slicing -/
  ps : PsInv s.ps
  /-- queued packets within `MAX_PACKET_SIZE`, windowed packets slice into ≤ 1448-byte fragments -/
  pok : PsOk s.ps
  uid : UidLt s.ps
  /-- entries of the pending / resend queues name fragments that exist -/
  pend : ∀ pe ∈ s.pending, FragOk s.ps pe.uid pe.fid
  res : ∀ r ∈ s.resend.toList, FragOk s.ps r.uid r.fid
  /-- frame queue: reorder buffer inside the log, window relations -/
  fq : WInv s.fq
  /-- no time recorded in the frame queue is after `nowMs` -/
  fqt : FqTime s.fq s.nowMs
  /-- packet receiver -/
  pr : ∃ W M, PRecv.Inv W M s.pr
  /-- rate controller -/
  rate : RateInv s.rate s.nowMs
  /-- clocks -/
  sync : s.syncTimeoutBase ≤ s.nowMs
  clock : s.nowMs = (lastNow s - s.timeBase) / 1000000

/-- `HcInv` does not depend on `aq`, `flushAlloc`, `flushFrac`, `flushId`, `syncReply`, `keepalive`,
`rng`, `rttMs`, `rtoMs`; the receiver may be replaced by any receiver satisfying its invariant. -/
theorem HcInv.congr {s s' : State F} (h : HcInv s) (hps : s'.ps = s.ps)
    (hpend : s'.pending = s.pending) (hres : s'.resend = s.resend) (hfq : s'.fq = s.fq)
    (hrate : s'.rate = s.rate) (hnow : s'.nowMs = s.nowMs)
    (hsync : s'.syncTimeoutBase = s.syncTimeoutBase) (htb : s'.timeBase = s.timeBase)
    (htl : s'.timeLastFlushed = s.timeLastFlushed) (hpr : ∃ W M, PRecv.Inv W M s'.pr) :
    HcInv s' where
  ps := by rw [hps]; exact h.ps
  pok := by rw [hps]; exact h.pok
  uid := by rw [hps]; exact h.uid
  pend := by rw [hps, hpend]; exact h.pend
  res := by rw [hps, hres]; exact h.res
  fq := by rw [hfq]; exact h.fq
  fqt := by rw [hfq, hnow]; exact h.fqt
  pr := hpr
  rate := by rw [hrate, hnow]; exact h.rate
  sync := by rw [hsync, hnow]; exact h.sync
  clock := by
    have := h.clock
    unfold lastNow at this ⊢
    rw [hnow, htb, htl]; exact this

/-! ### configuration and `init` -/

/-- Side conditions on the configuration (all satisfied by `Endpoint.hcConfig`). There is no condition
on `txBandwidthLimit`: the slow-start doubling of the rate controller saturates (see `C03Rate`). -/
structure CfgOk (c : Config) : Prop where
  txFrameBase : c.txFrameBaseId < 2^32
  txFrameWin : c.txFrameWindowSize + c.txFrameWindowSize < 2^31
  txPacketBase : c.txPacketBaseId < 2^20
  txPacketWin : c.txPacketWindowSize < 2^20
  rxPacketBase : c.rxPacketBaseId < 2^20
  rxPacketWin : 0 < c.rxPacketWindowSize

instance (c : Config) : Decidable (CfgOk c) :=
  if h : c.txFrameBaseId < 2^32 ∧ c.txFrameWindowSize + c.txFrameWindowSize < 2^31 ∧
      c.txPacketBaseId < 2^20 ∧ c.txPacketWindowSize < 2^20 ∧ c.rxPacketBaseId < 2^20 ∧
      0 < c.rxPacketWindowSize then
    isTrue ⟨h.1, h.2.1, h.2.2.1, h.2.2.2.1, h.2.2.2.2.1, h.2.2.2.2.2⟩
  else isFalse fun h' => h ⟨h'.1, h'.2, h'.3, h'.4, h'.5, h'.6⟩

theorem hcInv_init (ops : FloatOps F) (c : Config) (now : Nat) (rng : Rng) (hc : CfgOk c) :
    HcInv (init ops c now rng) where
  ps := PSend.psInv_init _ _ _ hc.txPacketWin hc.txPacketBase
  pok := ⟨fun w hw => by simp [init, PSend.init] at hw, fun q hq => by simp [init, PSend.init] at hq⟩
  uid := PSend.uidLt_init _ _ _
  pend := fun pe hpe => by simp [init] at hpe
  res := fun r hr => by simp [init] at hr
  fq := FrameQ.WInv_init _ _ _ hc.txFrameBase hc.txFrameWin
  fqt := FrameQ.FqTime_init _ _ _ _
  pr := ⟨_, _, PRecv.inv_init _ _ _ hc.rxPacketWin hc.rxPacketBase⟩
  rate := Rate.RateInv_init ops _ _
  sync := Nat.le_refl _
  clock := by simp [init, lastNow]

/-! ### `send`, `receive` -/

theorem send_ok (s : State F) (data : List Nat) (chan : Nat) (mode : SendMode) (h : HcInv s)
    (hlen : data.length ≤ MAX_PACKET_SIZE) (hch : chan < CHANNEL_COUNT) :
    HcInv (send s data chan mode) ∧ lastNow (send s data chan mode) = lastNow s := by
  refine ⟨?_, rfl⟩
  exact {
    ps := PSend.psInv_enqueue _ _ _ _ _ h.ps hch
    pok := by
      refine ⟨h.pok.1, ?_⟩
      intro q hq
      simp only [send, PSend.enqueue, List.mem_append, List.mem_singleton] at hq
      rcases hq with hq | rfl
      · exact h.pok.2 q hq
      · exact hlen
    uid := h.uid
    pend := h.pend
    res := h.res
    fq := h.fq
    fqt := h.fqt
    pr := h.pr
    rate := h.rate
    sync := h.sync
    clock := h.clock }

theorem receive_ok (s : State F) (h : HcInv s) :
    ∃ s' out, receive s = .ok (s', out) ∧ HcInv s' ∧ lastNow s' = lastNow s := by
  obtain ⟨W, M, hpr⟩ := h.pr
  obtain ⟨pr', out, he, hinv⟩ := PRecv.receive_inv hpr
  refine ⟨{ s with pr := pr' }, out, ?_, ?_, rfl⟩
  · simp only [receive, he]
  · exact h.congr rfl rfl rfl rfl rfl rfl rfl rfl rfl ⟨W, M, hinv⟩

end Uflow.HcInv
