import Uflow.Lemmas.TsDropLoops
import Uflow.Lemmas.ModesRun
import Uflow.Lemmas.HcInvRun

/-!
C12 (TimeSensitive drop): the run invariant `refs ⊆ pushed`.

`RefsPushed s T` : in the half connection state `s`, reached while the fragments `T` were put on
the wire (ghost trace of `Wire.flushT`, accumulated by `Modes.runT`), every fragment reference in
the frame log and every fragment marked acknowledged in the window was put on the wire, with
`resend = true`, earlier. Holds initially, preserved by every event — whatever the contents of
the ack frames.
-/

namespace Uflow.TsDrop

open Uflow Uflow.Gen Uflow.Codec Uflow.HalfConn Uflow.Wire Uflow.Modes Uflow.Heap Uflow.Credit
open Uflow.HcFrame
open Uflow.Rate (FloatOps)

variable {F : Type}

/-- `refs ⊆ pushed`: the frame log and the `acked` sets only mention fragments of the trace `T`. -/
structure RefsPushed (s : State F) (T : List Push) : Prop where
  refs : RefsIn (Pushed T) s.fq
  acked : AckedIn (Pushed T) s.ps

/-- The invariant carried along a run: `refs ⊆ pushed` and the shape of the pending queue. -/
def RunInv (s : State F) (T : List Push) : Prop := RefsPushed s T ∧ HeadInv s T

theorem RefsPushed.mono {s : State F} {T : List Push} (h : RefsPushed s T) (add : List Push) :
    RefsPushed s (T ++ add) :=
  ⟨h.refs.mono fun _ hr => hr.append_right add, h.acked.mono fun _ hr => hr.append_right add⟩

theorem runInv_init (ops : FloatOps F) (c : Config) (now : Nat) (rng : Rng) :
    RunInv (HalfConn.init ops c now rng) [] :=
  ⟨⟨refsIn_init _ _ _ _, ackedIn_init _ _ _ _⟩, headInv_nil rfl⟩

/-! ### `flush` -/

theorem emitDataFramesT_inv (base : List Push) (s s' : State F) (out : List (List Nat)) (st : Stage)
    (tr : List Push) (hI : RunInv s base) (h : emitDataFramesT s = .ok (s', out, st, tr)) :
    RunInv s' (base ++ tr) := by
  unfold emitDataFramesT at h
  simp only at h
  have hE0 : EInv (base ++ []) ({ s := s, inProg := none, out := [] } : Emit F) := by
    rw [List.append_nil]
    exact ⟨hI.1.refs, hI.1.acked, fun ip h' => by cases h'⟩
  cases hr : resendLoopT (2 * s.resend.size + 16 + s.flushAlloc.toNat)
      ({ s := s, inProg := none, out := [] } : Emit F) [] with
  | error t => rw [hr] at h; cases h
  | ok v =>
    obtain ⟨e1, st1, tr1⟩ := v
    rw [hr] at h
    have hE1 := resendLoopT_einv base _ _ e1 [] tr1 st1 hE0 hr
    obtain ⟨f1, f2, _, _, _, _, _⟩ := resendLoopT_frame _ _ e1 [] tr1 st1 hr
    have hH1 : HeadInv e1.s (base ++ tr1) :=
      hI.2.congr f2 f1 (fun _ hx => List.mem_append_left _ hx)
    cases st1 with
    | some st1 =>
      simp only [Except.ok.injEq, Prod.mk.injEq] at h
      obtain ⟨rfl, _, _, rfl⟩ := h
      exact ⟨⟨hE1.refs, hE1.acked⟩, hH1⟩
    | none =>
      simp only at h
      cases hp : pendingOuterT (e1.s.ps.queue.length + e1.s.pending.length + 4) e1 tr1 with
      | error t => rw [hp] at h; cases h
      | ok v2 =>
        obtain ⟨e2, st2, tr2⟩ := v2
        rw [hp] at h
        obtain ⟨hE2, hH2⟩ := pendingOuterT_inv base _ e1 e2 tr1 tr2 st2 hE1 hH1 hp
        cases st2 with
        | some st2 =>
          simp only [Except.ok.injEq, Prod.mk.injEq] at h
          obtain ⟨rfl, _, _, rfl⟩ := h
          exact ⟨⟨hE2.refs, hE2.acked⟩, hH2⟩
        | none =>
          simp only [Except.ok.injEq, Prod.mk.injEq] at h
          obtain ⟨rfl, _, _, rfl⟩ := h
          have hE3 := dfeFinalize_einv _ e2 hE2
          have htx := dfeFinalize_tx e2
          exact ⟨⟨hE3.refs, hE3.acked⟩, hH2.congr htx.2.1 htx.1 (fun _ hx => hx)⟩

theorem emitAckFrames_fq (s : State F) : (emitAckFrames s).1.fq = s.fq := by
  rw [Credit.emitAckFrames_eq]
  split
  · rfl
  · exact ackLoop_proj (·.fq) _ _ (fun s ip out => by cases ip <;> rfl) (fun s rest => rfl) _ _ _ _

theorem emitSyncFrame_fq (s s' : State F) (out : List (List Nat)) (st : Stage)
    (h : emitSyncFrame s = .ok (s', out, st)) : s'.fq = s.fq := by
  simp only [emitSyncFrame] at h
  repeat' split at h
  all_goals first
    | (cases h; rfl)
    | cases h

theorem RunInv.txSame {s s' : State F} {T : List Push} (h : RunInv s T) (htx : TxSame s s')
    (hfq : s'.fq = s.fq) : RunInv s' T :=
  ⟨⟨by rw [hfq]; exact h.1.refs, by rw [htx.1]; exact h.1.acked⟩,
   h.2.congr htx.2.1 htx.1 (fun _ hx => hx)⟩

/-- One `flush` keeps the run invariant, the trace growing by the pushes of the flush. -/
theorem flushT_inv (base : List Push) (s s' : State F) (out : List (List Nat)) (tr : List Push)
    (hI : RunInv s base) (h : flushT s = .ok (s', out, tr)) : RunInv s' (base ++ tr) := by
  unfold flushT at h
  have hack := emitAckFrames_tx s
  have hafq := emitAckFrames_fq s
  generalize emitAckFrames s = a at h hack hafq
  obtain ⟨s1, out1, st1⟩ := a
  simp only at h hack hafq
  have hI1 : RunInv s1 base := hI.txSame hack hafq
  split at h
  · simp only [Except.ok.injEq, Prod.mk.injEq] at h
    obtain ⟨rfl, _, rfl⟩ := h
    rw [List.append_nil]
    exact hI1
  · cases hd : emitDataFramesT s1 with
    | error t => rw [hd] at h; cases h
    | ok v =>
      obtain ⟨s2, out2, st2, tr2⟩ := v
      rw [hd] at h
      have hI2 := emitDataFramesT_inv base s1 s2 out2 st2 tr2 hI1 hd
      simp only at h
      split at h
      · simp only [Except.ok.injEq, Prod.mk.injEq] at h
        obtain ⟨rfl, _, rfl⟩ := h
        exact hI2
      · cases hy : emitSyncFrame s2 with
        | error t => rw [hy] at h; cases h
        | ok v3 =>
          obtain ⟨s3, out3, st3⟩ := v3
          rw [hy] at h
          simp only [Except.ok.injEq, Prod.mk.injEq] at h
          obtain ⟨rfl, _, rfl⟩ := h
          exact hI2.txSame (emitSyncFrame_tx _ _ _ _ hy) (emitSyncFrame_fq _ _ _ _ hy)

/-! ### the other operations -/

theorem fill_fq (ops : FloatOps F) (s : State F) (now : Nat) : (fillFlushAlloc ops s now).fq = s.fq := by
  cases h : s.timeLastFlushed <;> simp [fillFlushAlloc, h]

theorem stepP_refs (P : Nat × Nat → Prop) (ops : FloatOps F) (s s' : State F) (now nowMs : Nat)
    (w : Nat → Nat → Nat)
    (ff : FrameQ.State → Nat → Option Nat → R FrameQ.State)
    (gf : FrameQ.State → Nat → R (FrameQ.State × Option (Rate.Feedback F)))
    (rs : Rate.State F → Nat → Option (Rate.Feedback F) → R (Rate.State F × Option F))
    (rl : FrameQ.State → F → R FrameQ.State)
    (hff : ∀ fq th rtt fq', ff fq th rtt = .ok fq' → RefsIn P fq → RefsIn P fq')
    (hgf : ∀ fq t fq' fb, gf fq t = .ok (fq', fb) → RefsIn P fq → RefsIn P fq')
    (hrl : ∀ fq p fq', rl fq p = .ok fq' → RefsIn P fq → RefsIn P fq')
    (hR : RefsIn P s.fq) (h : stepP ops s now nowMs w ff gf rs rl = .ok s') : RefsIn P s'.fq := by
  unfold stepP at h
  simp only at h
  generalize h1 : ff s.fq _ _ = r1 at h
  cases r1 with
  | error t => cases h
  | ok fq =>
    have hR1 := hff _ _ _ _ h1 hR
    simp only at h
    generalize h2 : gf _ _ = r2 at h
    cases r2 with
    | error t => cases h
    | ok v =>
      obtain ⟨fq2, fbk⟩ := v
      have hR2 : RefsIn P fq2 := by
        refine hgf _ _ _ _ h2 ?_
        show RefsIn P (fillFlushAlloc ops _ now).fq
        rw [fill_fq]
        exact hR1
      simp only at h
      generalize rs _ _ _ = r3 at h
      cases r3 with
      | error t => cases h
      | ok v3 =>
        obtain ⟨rate, reset⟩ := v3
        cases reset with
        | none =>
          simp only [Except.ok.injEq] at h
          subst h
          exact hR2
        | some p =>
          simp only at h
          generalize h4 : rl fq2 p = r4 at h
          cases r4 with
          | error t => cases h
          | ok fq3 =>
            simp only [Except.ok.injEq] at h
            subst h
            exact hrl _ _ _ h4 hR2

theorem step_refs (P : Nat × Nat → Prop) (ops : FloatOps F) (s s' : State F) (now : Nat)
    (hR : RefsIn P s.fq) (h : step ops s now = .ok s') : RefsIn P s'.fq := by
  rw [step_eq] at h
  exact stepP_refs P ops s s' now _ _ _ _ _ _
    (fun fq th rtt fq' he hr => refsIn_forget P fq fq' th rtt hr he)
    (fun fq t fq' fb he hr => refsIn_feedback P ops fq fq' t fb hr he)
    (fun fq p fq' he hr => refsIn_reset P ops fq fq' p hr he) hR h

theorem ackP_refs (P : Nat × Nat → Prop) (s s' : State F) (fb pb : Nat) (acks : List AckGroup)
    (ag : FrameQ.State → AckGroup → Option Nat → R (FrameQ.State × List (Nat × Nat)))
    (adv : FrameQ.State → Nat → Option Nat → R FrameQ.State)
    (pack : PSend.State → Nat → R PSend.State)
    (hag : ∀ fq a rtt fq' frs, ag fq a rtt = .ok (fq', frs) → RefsIn P fq →
      RefsIn P fq' ∧ ∀ r ∈ frs, P r)
    (hadv : ∀ fq nb rtt fq', adv fq nb rtt = .ok fq' → RefsIn P fq → RefsIn P fq')
    (hpack : ∀ ps rb ps', pack ps rb = .ok ps' → AckedIn P ps → AckedIn P ps')
    (hR : RefsIn P s.fq) (hA : AckedIn P s.ps)
    (h : ackP s fb pb acks ag adv pack = .ok s') : RefsIn P s'.fq ∧ AckedIn P s'.ps := by
  unfold ackP at h
  simp only at h
  generalize hr : (List.foldlM _ s acks : R (State F)) = r at h
  cases r with
  | error t => cases h
  | ok s1 =>
    simp only at h
    have h1 : RefsIn P s1.fq ∧ AckedIn P s1.ps := by
      refine foldlM_rel _ (fun a b : State F =>
          (RefsIn P a.fq ∧ AckedIn P a.ps) → (RefsIn P b.fq ∧ AckedIn P b.ps))
        (fun _ h => h) (fun _ _ _ h1 h2 h => h2 (h1 h)) ?_ acks s s1 hr ⟨hR, hA⟩
      intro a g a' ha hinv
      generalize hg : ag a.fq g _ = rg at ha
      cases rg with
      | error t => cases ha
      | ok v =>
        obtain ⟨fq, frs⟩ := v
        simp only [Except.ok.injEq] at ha
        subst ha
        obtain ⟨k1, k2⟩ := hag _ _ _ _ _ hg hinv.1
        exact ⟨k1, ackedIn_foldl P frs a.ps hinv.2 k2⟩
    generalize h2 : adv s1.fq fb _ = r2 at h
    generalize h3 : pack s1.ps pb = r3 at h
    cases r2 with
    | error t => cases h
    | ok fq =>
      cases r3 with
      | error t => cases h
      | ok ps2 =>
        simp only [Except.ok.injEq] at h
        subst h
        exact ⟨hadv _ _ _ _ h2 h1.1, hpack _ _ _ h3 h1.2⟩

theorem handleAckFrame_refs (P : Nat × Nat → Prop) (s s' : State F) (fb pb : Nat)
    (acks : List AckGroup) (hR : RefsIn P s.fq) (hA : AckedIn P s.ps)
    (h : handleAckFrame s fb pb acks = .ok s') : RefsIn P s'.fq ∧ AckedIn P s'.ps := by
  rw [handleAckFrame_eq] at h
  exact ackP_refs P s s' fb pb acks _ _ _
    (fun fq a rtt fq' frs he hr => refsIn_ack P fq fq' a rtt frs hr he)
    (fun fq nb rtt fq' he hr => refsIn_atw P fq fq' nb rtt hr he)
    (fun ps rb ps' he ha => ackedIn_acknowledge P ps ps' rb ha he) hR hA h

theorem receive_fq (s s' : State F) (out : List (List Nat)) (h : receive s = .ok (s', out)) :
    s'.fq = s.fq := by
  simp only [receive] at h
  generalize PRecv.receive s.pr = r at h
  cases r with
  | error t => cases h
  | ok v =>
    obtain ⟨pr, o⟩ := v
    simp only [Except.ok.injEq, Prod.mk.injEq] at h
    obtain ⟨rfl, _⟩ := h
    rfl

theorem foldDatagrams_fq (dgs : List Datagram) (s s' : State F)
    (h : dgs.foldlM (fun (s : State F) d =>
      (PRecv.handleDatagram s.pr d).map fun pr => { s with pr := pr }) s = .ok s') :
    s'.fq = s.fq := by
  refine foldlM_rel _ (fun a b : State F => b.fq = a.fq) (fun _ => rfl)
    (fun _ _ _ h1 h2 => h2.trans h1) ?_ dgs s s' h
  intro a d a' ha
  generalize PRecv.handleDatagram a.pr d = r at ha
  cases r with
  | error t => cases ha
  | ok pr =>
    simp only [Except.map, Except.ok.injEq] at ha
    subst ha; rfl

theorem dataFrameCore_fq (s s' : State F) (b : Bool) (aq' : FrameQ.AckQ) (dgs : List Datagram)
    (h : dataFrameCore s b aq' dgs = .ok s') : s'.fq = s.fq := by
  unfold dataFrameCore at h
  cases b with
  | false =>
    simp only [Bool.false_eq_true, if_false, Except.ok.injEq] at h
    subst h; rfl
  | true =>
    simp only [if_true] at h
    exact foldDatagrams_fq dgs ({ s with aq := aq' }) s' h

theorem handleDataFrame_fq (s s' : State F) (id : Nat) (nonce : Bool) (dgs : List Datagram)
    (h : handleDataFrame s id nonce dgs = .ok s') : s'.fq = s.fq := by
  rw [handleDataFrame_eq] at h
  exact dataFrameCore_fq s s' _ _ dgs h

theorem syncFrameCore_fq (s s' : State F) (g : Nat → FrameQ.AckQ) (nf np : Option Nat)
    (h : syncFrameCore s g nf np = .ok s') : s'.fq = s.fq := by
  simp only [syncFrameCore] at h
  cases nf with
  | none =>
    cases np with
    | none =>
      simp only [Except.map, Except.ok.injEq] at h
      subst h; rfl
    | some pid =>
      simp only [Except.map] at h
      generalize PRecv.resynchronize s.pr pid = r at h
      cases r with
      | error t => cases h
      | ok pr =>
        simp only [Except.ok.injEq] at h
        subst h; rfl
  | some fid =>
    simp only at h
    generalize g fid = aq' at h
    cases np with
    | none =>
      simp only [Except.map, Except.ok.injEq] at h
      subst h; rfl
    | some pid =>
      simp only [Except.map] at h
      generalize PRecv.resynchronize s.pr pid = r at h
      cases r with
      | error t => cases h
      | ok pr =>
        simp only [Except.ok.injEq] at h
        subst h; rfl

theorem handleSyncFrame_fq (s s' : State F) (nf np : Option Nat)
    (h : handleSyncFrame s nf np = .ok s') : s'.fq = s.fq := by
  rw [handleSyncFrame_eq] at h
  exact syncFrameCore_fq s s' _ nf np h

/-! ### events and runs -/

theorem HeadInv.weaken {s s' : State F} {T T' : List Push} (h : HeadInv s T)
    (hpe : s'.pending = s.pending)
    (hps : ∀ u, PSend.findPacket s.ps u = none → PSend.findPacket s'.ps u = none)
    (hT : ∀ x ∈ T, x ∈ T') : HeadInv s' T' := by
  intro u hu
  rw [hpe] at hu ⊢
  rcases h u hu with h1 | ⟨x, hx, h2⟩ | h3
  · exact .inl h1
  · exact .inr (.inl ⟨x, hT x hx, h2⟩)
  · exact .inr (.inr (hps u h3))

theorem findPacket_none_iff (ps : PSend.State) (u : Nat) :
    PSend.findPacket ps u = none ↔ ∀ w ∈ ps.win, w.packet.uid ≠ u := by
  simp only [PSend.findPacket, Option.map_eq_none_iff, List.find?_eq_none, decide_eq_true_eq]

/-- Acknowledgements never bring a packet back into the window. -/
theorem ackSteps_none {ps ps' : PSend.State} (h : AckSteps ps ps') (u : Nat)
    (hn : PSend.findPacket ps u = none) : PSend.findPacket ps' u = none := by
  induction h with
  | refl => exact hn
  | frag uid fid _ ih =>
    rw [findPacket_none_iff] at ih ⊢
    intro w hw
    simp only [PSend.ackFragment, List.mem_map] at hw
    obtain ⟨w0, hw0, rfl⟩ := hw
    have := ih w0 hw0
    split <;> exact this
  | ack rb _ hack ih =>
    rw [findPacket_none_iff] at ih ⊢
    obtain ⟨⟨d, hw⟩, _, _⟩ := PSend.acknowledge_suffix _ _ rb hack
    intro w hw'
    exact ih w (by rw [hw]; exact List.mem_append_right _ hw')

/-- Every event keeps the run invariant, the trace growing by the pushes of the event. -/
theorem execT_inv (ops : FloatOps F) (base : List Push) (s s' : State F) (ev : Ev) (tr : List Push)
    (hI : RunInv s base) (h : execT ops s ev = .ok (s', tr)) : RunInv s' (base ++ tr) := by
  cases ev with
  | flush =>
    simp only [execT] at h
    generalize hv : flushT s = r at h
    cases r with
    | error t => cases h
    | ok v =>
      obtain ⟨a, b, c⟩ := v
      simp only [Except.map, Except.ok.injEq, Prod.mk.injEq] at h
      obtain ⟨rfl, rfl⟩ := h
      exact flushT_inv base s a b c hI hv
  | step now =>
    simp only [execT, exec] at h
    generalize hs : HalfConn.step ops s now = r at h
    cases r with
    | error t => cases h
    | ok s1 =>
      simp only [Except.map, Except.ok.injEq, Prod.mk.injEq] at h
      obtain ⟨rfl, rfl⟩ := h
      rw [List.append_nil]
      obtain ⟨_, hp, hpe, _⟩ := step_frame ops s s1 now hs
      exact ⟨⟨step_refs _ ops s s1 now hI.1.refs hs, by rw [hp]; exact hI.1.acked⟩,
        hI.2.congr hpe hp (fun _ hx => hx)⟩
  | send d c m =>
    simp only [execT, exec, Except.map, Except.ok.injEq, Prod.mk.injEq] at h
    obtain ⟨rfl, rfl⟩ := h
    rw [List.append_nil]
    exact ⟨⟨hI.1.refs, hI.1.acked⟩, hI.2.weaken rfl (fun _ hn => hn) (fun _ hx => hx)⟩
  | receive =>
    simp only [execT, exec] at h
    generalize hs : HalfConn.receive s = r at h
    cases r with
    | error t => cases h
    | ok v =>
      simp only [Except.map, Except.ok.injEq, Prod.mk.injEq] at h
      obtain ⟨rfl, rfl⟩ := h
      rw [List.append_nil]
      obtain ⟨hq, hp⟩ := receive_frame s v.1 v.2 hs
      have hfq := receive_fq s v.1 v.2 hs
      exact ⟨⟨by rw [hfq]; exact hI.1.refs, by rw [hp]; exact hI.1.acked⟩,
        hI.2.congr hq.1 hp (fun _ hx => hx)⟩
  | dataFrame id nonce dgs =>
    simp only [execT, exec] at h
    generalize hs : handleDataFrame s id nonce dgs = r at h
    cases r with
    | error t => cases h
    | ok s1 =>
      simp only [Except.map, Except.ok.injEq, Prod.mk.injEq] at h
      obtain ⟨rfl, rfl⟩ := h
      rw [List.append_nil]
      obtain ⟨hq, hp⟩ := handleDataFrame_frame s s1 id nonce dgs hs
      have hfq := handleDataFrame_fq s s1 id nonce dgs hs
      exact ⟨⟨by rw [hfq]; exact hI.1.refs, by rw [hp]; exact hI.1.acked⟩,
        hI.2.congr hq.1 hp (fun _ hx => hx)⟩
  | syncFrame nf np =>
    simp only [execT, exec] at h
    generalize hs : handleSyncFrame s nf np = r at h
    cases r with
    | error t => cases h
    | ok s1 =>
      simp only [Except.map, Except.ok.injEq, Prod.mk.injEq] at h
      obtain ⟨rfl, rfl⟩ := h
      rw [List.append_nil]
      obtain ⟨hq, hp⟩ := handleSyncFrame_frame s s1 nf np hs
      have hfq := handleSyncFrame_fq s s1 nf np hs
      exact ⟨⟨by rw [hfq]; exact hI.1.refs, by rw [hp]; exact hI.1.acked⟩,
        hI.2.congr hq.1 hp (fun _ hx => hx)⟩
  | ackFrame fb pb acks =>
    simp only [execT, exec] at h
    generalize hs : handleAckFrame s fb pb acks = r at h
    cases r with
    | error t => cases h
    | ok s1 =>
      simp only [Except.map, Except.ok.injEq, Prod.mk.injEq] at h
      obtain ⟨rfl, rfl⟩ := h
      rw [List.append_nil]
      obtain ⟨hq, ha⟩ := handleAckFrame_frame s s1 fb pb acks hs
      obtain ⟨k1, k2⟩ := handleAckFrame_refs _ s s1 fb pb acks hI.1.refs hI.1.acked hs
      exact ⟨⟨k1, k2⟩, hI.2.weaken hq.1 (fun u hn => ackSteps_none ha u hn) (fun _ hx => hx)⟩

/-- The run invariant over an event list. -/
theorem runT_inv (ops : FloatOps F) (evs : List Ev) (base : List Push) (s s' : State F)
    (tr : List Push) (hI : RunInv s base) (h : runT ops s evs = .ok (s', tr)) :
    RunInv s' (base ++ tr) := by
  induction evs generalizing s base tr with
  | nil =>
    simp only [runT, Except.ok.injEq, Prod.mk.injEq] at h
    obtain ⟨rfl, rfl⟩ := h
    rw [List.append_nil]; exact hI
  | cons ev rest ih =>
    simp only [runT] at h
    generalize h1 : execT ops s ev = r1 at h
    cases r1 with
    | error t => cases h
    | ok v =>
      obtain ⟨s1, tr1⟩ := v
      simp only at h
      have g1 := execT_inv ops base s s1 ev tr1 hI h1
      generalize h2 : runT ops s1 rest = r2 at h
      cases r2 with
      | error t => cases h
      | ok v2 =>
        obtain ⟨s2, tr2⟩ := v2
        simp only [Except.ok.injEq, Prod.mk.injEq] at h
        obtain ⟨rfl, rfl⟩ := h
        rw [← List.append_assoc]
        exact ih _ s1 tr2 g1 h2

/-- Forgetting the ghost trace: `runT` computes the same states as `runEvs`. -/
theorem runT_erase (ops : FloatOps F) (evs : List Ev) (s : State F) :
    (runT ops s evs).map (·.1) = (HcInv.runEvs ops s evs).map (·.1) := by
  induction evs generalizing s with
  | nil => rfl
  | cons ev rest ih =>
    simp only [runT, HcInv.runEvs]
    have h1 := execT_erase ops s ev
    generalize execT ops s ev = a at h1
    generalize exec ops s ev = b at h1
    cases a with
    | error t =>
      cases b with
      | error t' => simp only [Except.map, Except.error.injEq] at h1; subst h1; rfl
      | ok v => cases h1
    | ok v =>
      cases b with
      | error t' => cases h1
      | ok v' =>
        obtain ⟨s1, tr1⟩ := v
        obtain ⟨s1', out1⟩ := v'
        simp only [Except.map, Except.ok.injEq] at h1
        subst h1
        simp only
        have h2 := ih s1
        generalize runT ops s1 rest = a2 at h2
        generalize HcInv.runEvs ops s1 rest = b2 at h2
        cases a2 with
        | error t =>
          cases b2 with
          | error t' => simp only [Except.map, Except.error.injEq] at h2; subst h2; rfl
          | ok v => cases h2
        | ok v =>
          cases b2 with
          | error t' => cases h2
          | ok v' =>
            simp only [Except.map, Except.ok.injEq] at h2
            simp only [Except.map, Except.ok.injEq]
            exact h2

/-- Every non-trapping `runEvs` run is a `runT` run (with some trace) to the same state. -/
theorem runEvs_runT (ops : FloatOps F) (evs : List Ev) (s s' : State F) (out : List (List Nat))
    (h : HcInv.runEvs ops s evs = .ok (s', out)) : ∃ tr, runT ops s evs = .ok (s', tr) := by
  have := runT_erase ops evs s
  rw [h] at this
  cases hr : runT ops s evs with
  | error t => rw [hr] at this; cases this
  | ok v =>
    rw [hr] at this
    simp only [Except.map, Except.ok.injEq] at this
    exact ⟨v.2, by rw [← this]⟩

/-- A run of `evs1 ++ evs2` is a run of `evs1` followed by a run of `evs2`. -/
theorem runT_append (ops : FloatOps F) (evs1 evs2 : List Ev) (s s2 : State F) (tr : List Push)
    (h : runT ops s (evs1 ++ evs2) = .ok (s2, tr)) :
    ∃ s1 tr1 tr2, runT ops s evs1 = .ok (s1, tr1) ∧ runT ops s1 evs2 = .ok (s2, tr2) ∧
      tr = tr1 ++ tr2 := by
  induction evs1 generalizing s tr with
  | nil => exact ⟨s, [], tr, rfl, h, rfl⟩
  | cons ev rest ih =>
    simp only [List.cons_append, runT] at h ⊢
    generalize execT ops s ev = r1 at h ⊢
    cases r1 with
    | error t => cases h
    | ok v =>
      obtain ⟨sa, tra⟩ := v
      simp only at h ⊢
      generalize h2 : runT ops sa (rest ++ evs2) = r2 at h
      cases r2 with
      | error t => cases h
      | ok v2 =>
        obtain ⟨sb, trb⟩ := v2
        simp only [Except.ok.injEq, Prod.mk.injEq] at h
        obtain ⟨rfl, rfl⟩ := h
        obtain ⟨s1, tr1, tr2, k1, k2, k3⟩ := ih sa trb h2
        rw [k1]
        exact ⟨s1, tra ++ tr1, tr2, rfl, k2, by rw [k3, List.append_assoc]⟩

end Uflow.TsDrop
