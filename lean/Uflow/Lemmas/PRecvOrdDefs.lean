import Uflow.Lemmas.PRecvOrdArith

/-!
Helper definitions for C01 / C02 (receiver ordering), part 2: the instrumented receiver.

`receive` hands the application only the payloads. `receiveT` is the same function that also
reports, for every packet it takes out of the receive window, the channel, the sequence id and the
two parent leads (`Ev`); `receiveT_erase` shows that forgetting the extra fields gives back
`receive` (same final state, same payload list). `runT` runs a hostile script like `PRecv.run`,
keeping two ghost quantities: `adv`, the total distance the window base has moved, and `log`, the
list of all delivery events with their unwrapped ids; `runT_erase` shows the state component is
that of `run`.
-/

namespace Uflow.PRecv

open Uflow Uflow.Gen Uflow.Codec

/-- A packet taken out of the receive window by `receive`. `data = none` for a packet that exceeded
the receive allocation limit: it is consumed (the channel moves past it) but nothing is handed to
the sink. -/
structure Ev where
  chan : Nat
  seq : Nat
  cpl : Nat
  wpl : Nat
  data : Option (List Nat)
  deriving Repr, DecidableEq, Inhabited

def evOf (seq : Nat) (sl : Slot) : Ev :=
  { chan := sl.chan, seq := seq, cpl := sl.cpl, wpl := sl.wpl, data := sl.data }

/-- What the sink sees of a list of events. -/
def erase (evs : List Ev) : List (List Nat) := evs.filterMap Ev.data

/-- Instrumented delivery pass: `deliverLoop` with `out ++ [event]` instead of `out ++ [data]`. -/
def deliverLoopT (base : Nat) : Nat → State → Nat → Nat → List Ev → R (State × List Ev)
  | 0, _, _, _, _ => .error .hang
  | fuel+1, s, seq, endId, out =>
    if seq = endId then .ok (s, out) else
    if ¬ anyReady s then .ok (s, out) else
    let sl := getSlot s (widx s seq)
    if sl.dataFlag then
      match s.readyFlags[sl.chan]? with
      | none => .error .overflow
      | some false => deliverLoopT base fuel s (pidAdd seq 1) endId out
      | some true =>
        match chanBase s sl.chan base with
        | .error t => .error t
        | .ok cb =>
          if sl.cpl = 0 ∨ sl.cpl > pidSub seq cb then
            match s.chans[sl.chan]? with
            | none => .error .index
            | some ch =>
              if ch.count = 0 then .error .overflow else
              match setChannelBase (dlDeliver s (widx s seq) sl ch) sl.chan (pidAdd seq 1) with
              | .error t => .error t
              | .ok s' => deliverLoopT base fuel s' (pidAdd seq 1) endId (out ++ [evOf seq sl])
          else
            deliverLoopT base fuel { s with readyFlags := s.readyFlags.set sl.chan false } (pidAdd seq 1) endId out
    else deliverLoopT base fuel s (pidAdd seq 1) endId out

theorem erase_append_ev (out : List Ev) (seq : Nat) (sl : Slot) :
    erase (out ++ [evOf seq sl]) = dlOut sl (erase out) := by
  unfold erase dlOut evOf
  cases h : sl.data <;> simp [List.filterMap_append]

def eraseP (p : State × List Ev) : State × List (List Nat) := (p.1, erase p.2)

theorem deliverLoopT_erase (base endId : Nat) : ∀ (fuel : Nat) (s : State) (seq : Nat) (out : List Ev),
    (deliverLoopT base fuel s seq endId out).map eraseP = deliverLoop base fuel s seq endId (erase out) := by
  intro fuel
  induction fuel with
  | zero => intro s seq out; rw [deliverLoopT, deliverLoop]; rfl
  | succ fuel ih =>
    intro s seq out
    rw [deliverLoop_succ, deliverLoopT]
    split
    · rfl
    split
    · rfl
    rw [dlBody]
    simp only
    by_cases hf : (getSlot s (widx s seq)).dataFlag = true
    case neg => rw [if_neg hf, if_neg hf]; exact ih _ _ _
    rw [if_pos hf, if_pos hf]
    cases s.readyFlags[(getSlot s (widx s seq)).chan]? with
    | none => rfl
    | some b =>
      cases b with
      | false => exact ih _ _ _
      | true =>
        simp only
        cases chanBase s (getSlot s (widx s seq)).chan base with
        | error t => rfl
        | ok cb =>
          simp only
          by_cases hc : (getSlot s (widx s seq)).cpl = 0 ∨ (getSlot s (widx s seq)).cpl > pidSub seq cb
          case neg => rw [if_neg hc, if_neg hc]; exact ih _ _ _
          rw [if_pos hc, if_pos hc]
          cases s.chans[(getSlot s (widx s seq)).chan]? with
          | none => rfl
          | some ch =>
            simp only
            by_cases hz : ch.count = 0
            · rw [if_pos hz, if_pos hz]; rfl
            rw [if_neg hz, if_neg hz]
            cases setChannelBase (dlDeliver s (widx s seq) (getSlot s (widx s seq)) ch)
                (getSlot s (widx s seq)).chan (pidAdd seq 1) with
            | error t => rfl
            | ok s' =>
              simp only
              rw [ih, erase_append_ev]

/-- What `receive` does to the state after the delivery pass, with `advance_window` as a parameter. -/
def recvTailS (adv : State → Nat → R State) (s s1 : State) : R State :=
  if s1.windowReady then
    bindR (windowLoop loopFuel { s1 with windowReady := false } s.baseId s.endId s.baseId) fun nb =>
    adv { s1 with windowReady := false } nb
  else .ok s1

theorem recvTailG_eq (adv : State → Nat → R State) (s s1 : State) (out : List (List Nat)) :
    recvTailG adv s s1 out = bindR (recvTailS adv s s1) fun s2 => .ok (s2, out) := by
  unfold recvTailG recvTailS
  split
  · cases windowLoop loopFuel { s1 with windowReady := false } s.baseId s.endId s.baseId with
    | error t => rfl
    | ok nb => rfl
  · rfl

/-- Instrumented `receive`. -/
def receiveT (s : State) : R (State × List Ev) :=
  bindR (deliverLoopT s.baseId loopFuel s s.baseId s.endId []) fun p =>
  bindR (recvTailS advanceWindow s p.1) fun s2 => .ok (s2, p.2)

/-- Erasure: `receiveT` is `receive` with more detailed output. -/
theorem receiveT_erase (s : State) : (receiveT s).map eraseP = receive s := by
  have he := deliverLoopT_erase s.baseId s.endId loopFuel s s.baseId []
  rw [show erase [] = [] from rfl] at he
  rw [receive_eq, receiveT, ← he]
  generalize advanceWindow = adv
  cases deliverLoopT s.baseId loopFuel s s.baseId s.endId [] with
  | error t => rfl
  | ok p =>
    show Except.map eraseP (bindR (recvTailS adv s p.1) fun s2 => .ok (s2, p.2)) = recvTailG adv s p.1 (erase p.2)
    rw [recvTailG_eq]
    cases recvTailS adv s p.1 with
    | error t => rfl
    | ok s2 => rfl

/-! ### the ghost-instrumented driver -/

/-- A delivery event of a run, with its ghost unwrapping: `uid` is the number of ids between the
initial window base and the packet (`adv` at the time of the `receive` call plus the packet's offset
in the window); `wb` is the unwrapped id of the window base at that time. -/
structure LogE where
  chan : Nat
  seq : Nat
  uid : Nat
  wb : Nat
  cpl : Nat
  wpl : Nat
  data : Option (List Nat)
  deriving Repr, DecidableEq, Inhabited

def lift (adv base : Nat) (e : Ev) : LogE :=
  { chan := e.chan, seq := e.seq, uid := adv + pidSub e.seq base, wb := adv, cpl := e.cpl, wpl := e.wpl,
    data := e.data }

/-- Receiver state with the two ghost quantities. -/
structure G where
  st : State
  /-- total distance the window base has advanced (sum of `pidSub newBase oldBase`) -/
  adv : Nat
  /-- all delivery events so far, oldest first -/
  log : List LogE
  deriving Repr, DecidableEq, Inhabited

def stepT (g : G) : Op → R G
  | .dg d => bindR (handleDatagram g.st d) fun s' => .ok { g with st := s' }
  | .recv => bindR (receiveT g.st) fun p =>
      .ok { st := p.1, adv := g.adv + pidSub p.1.baseId g.st.baseId,
            log := g.log ++ p.2.map (lift g.adv g.st.baseId) }
  | .resync id => bindR (resynchronize g.st id) fun s' =>
      .ok { g with st := s', adv := g.adv + pidSub s'.baseId g.st.baseId }

def runT (g : G) : List Op → R G
  | [] => .ok g
  | op :: rest => bindR (stepT g op) fun g' => runT g' rest

def initG (W b m : Nat) : G := { st := init W b m, adv := 0, log := [] }

theorem stepT_erase (g : G) (op : Op) : (stepT g op).map G.st = stepOp g.st op := by
  cases op with
  | dg d =>
    show Except.map G.st (bindR (handleDatagram g.st d) _) = handleDatagram g.st d
    cases handleDatagram g.st d <;> rfl
  | recv =>
    show Except.map G.st (bindR (receiveT g.st) _) = (receive g.st).map (·.1)
    rw [← receiveT_erase]
    cases receiveT g.st <;> rfl
  | resync id =>
    show Except.map G.st (bindR (resynchronize g.st id) _) = resynchronize g.st id
    cases resynchronize g.st id <;> rfl

/-- Erasure: the state component of `runT` is `run`. -/
theorem runT_erase (ops : List Op) : ∀ (g : G), (runT g ops).map G.st = run g.st ops := by
  induction ops with
  | nil => intro g; rfl
  | cons op rest ih =>
    intro g
    rw [runT, run, ← stepT_erase]
    cases h : stepT g op with
    | error t => rfl
    | ok g' =>
      show Except.map G.st (runT g' rest) = run g'.st rest
      exact ih g'

/-- The payloads handed to the sink by the `k`-th... of a run are the erasure of the log: every
`recv` step appends exactly the events of its `receiveT`. -/
theorem stepT_recv_log (g g' : G) (h : stepT g .recv = .ok g') :
    ∃ s' evs, receiveT g.st = .ok (s', evs) ∧ g'.st = s' ∧
      g'.log = g.log ++ evs.map (lift g.adv g.st.baseId) := by
  unfold stepT at h
  cases hr : receiveT g.st with
  | error t => rw [hr] at h; cases h
  | ok p =>
    rw [hr] at h
    cases h
    exact ⟨p.1, p.2, rfl, rfl, rfl⟩

end Uflow.PRecv
