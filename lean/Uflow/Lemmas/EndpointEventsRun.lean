import Uflow.Lemmas.EndpointEventsStep

/-!
Server endpoint: API operations, runs, the label monitor (events plus the application's own `drop`s)
and the run-level monitor theorem.
-/

namespace Uflow.Endpoint

open Uflow.Gen Uflow.Codec Uflow.HalfConn

variable {H : Type}

inductive SOp where
  | step (nowNs : Nat) (arrivals : List (Nat × List Nat))
  | drop (addr : Nat)
  | disconnect (addr : Nat) (m : DisconnectMode)
  | send (addr : Nat) (data : List Nat) (chan : Nat) (mode : SendMode)
  | flush

/-- What the application sees or does about an address: an event delivered by `step`, or its own
`drop` (which ends a connection without a terminal event). -/
inductive SLabel where
  | ev (e : SEvent)
  | drop (a : Nat)
  deriving DecidableEq, Repr

def SLabel.addr : SLabel → Nat
  | .ev e => e.addr
  | .drop a => a

def SPhase.nextL : SPhase → SLabel → Option SPhase
  | p, .ev e => p.next e
  | _, .drop _ => some .idle

def SPhase.runL (p : SPhase) : List SLabel → Option SPhase
  | [] => some p
  | l :: ls =>
    match p.nextL l with
    | none => none
    | some p' => p'.runL ls

theorem SPhase.runL_append (p : SPhase) (a b : List SLabel) :
    p.runL (a ++ b) = (p.runL a).bind (fun p' => p'.runL b) := by
  induction a generalizing p with
  | nil => rfl
  | cons e es ih =>
    simp only [List.cons_append, SPhase.runL]
    cases p.nextL e with
    | none => rfl
    | some p' => exact ih p'

/-- The labels that concern address `a`. -/
def lblOf (a : Nat) (ls : List SLabel) : List SLabel := ls.filter (·.addr = a)

theorem lblOf_append (a : Nat) (l1 l2 : List SLabel) : lblOf a (l1 ++ l2) = lblOf a l1 ++ lblOf a l2 := by
  unfold lblOf; exact List.filter_append ..

theorem SPhase.runL_map_ev (p : SPhase) (a : Nat) (evs : List SEvent) :
    p.runL (lblOf a (evs.map SLabel.ev)) = p.run (evsOf a evs) := by
  induction evs generalizing p with
  | nil => rfl
  | cons e es ih =>
    unfold lblOf evsOf at ih ⊢
    by_cases h : e.addr = a
    · have h1 : (SLabel.ev e).addr = a := h
      rw [List.map_cons, List.filter_cons_of_pos (by simpa using h1), List.filter_cons_of_pos (by simpa using h)]
      simp only [SPhase.runL, SPhase.run, SPhase.nextL]
      cases p.next e with
      | none => rfl
      | some p' => exact ih p'
    · have h1 : ¬ (SLabel.ev e).addr = a := h
      rw [List.map_cons, List.filter_cons_of_neg (by simpa using h1), List.filter_cons_of_neg (by simpa using h)]
      exact ih p

/-- One API call: new state, datagrams sent, labels. -/
def Server.apply (hc : HC H) (s : Server H) : SOp → R (Server H × List (Nat × List Nat) × List SLabel)
  | .step n a =>
    match s.step hc n a with
    | .error e => .error e
    | .ok (s', sent, evs) => .ok (s', sent, evs.map SLabel.ev)
  | .drop a => .ok (s.drop a, [], [SLabel.drop a])
  | .disconnect a m => .ok (s.disconnect a m, [], [])
  | .send a d ch m => .ok (s.send hc a d ch m, [], [])
  | .flush =>
    match s.flush hc with
    | .error e => .error e
    | .ok (s', sent) => .ok (s', sent, [])

/-- A sequence of API calls. -/
def Server.run (hc : HC H) : Server H → List SOp → R (Server H × List (Nat × List Nat) × List SLabel)
  | s, [] => .ok (s, [], [])
  | s, op :: ops =>
    match s.apply hc op with
    | .error e => .error e
    | .ok (s1, o1, l1) =>
      match Server.run hc s1 ops with
      | .error e => .error e
      | .ok (s2, o2, l2) => .ok (s2, o1 ++ o2, l1 ++ l2)

/-! ## API calls other than `step` -/

theorem Server.disconnect_STr (s : Server H) (hw : s.WF) (addr : Nat) (m : DisconnectMode) :
    STr s [] (s.disconnect addr m) := by
  unfold Server.disconnect
  split
  · next c hf =>
    obtain ⟨hcm, hca⟩ := Server.find_some hf
    split
    · next hh t sig hst =>
      rw [Server.put_state_eq hcm]
      exact STr.of_put (c' := { c with state := .active hh t (some m) }) hw hcm rfl rfl [] (by simp)
        (by rw [hst]; rfl) rfl rfl rfl (fun _ h => h)
        (by intro _; exact hw.act c hcm (by rw [hst]; rfl)) rfl rfl (by simp)
    · exact STr.refl hw
  · exact STr.refl hw

theorem Server.send_STr (hc : HC H) (s : Server H) (hw : s.WF) (addr : Nat) (d : List Nat) (ch : Nat) (m : SendMode) :
    STr s [] (s.send hc addr d ch m) := by
  unfold Server.send
  split
  · next c hf =>
    obtain ⟨hcm, hca⟩ := Server.find_some hf
    split
    · next hh t sig hst =>
      rw [Server.put_state_eq hcm]
      exact STr.of_put (c' := { c with state := .active (hc.send hh d ch m) t sig }) hw hcm rfl rfl [] (by simp)
        (by rw [hst]; rfl) rfl rfl rfl (fun _ h => h)
        (by intro _; exact hw.act c hcm (by rw [hst]; rfl)) rfl rfl (by simp)
    · exact STr.refl hw
  · exact STr.refl hw

/-- `drop`: the entry (if any) is removed without any event; the address becomes `idle`. -/
theorem Server.drop_tr (s : Server H) (hw : s.WF) (addr : Nat) :
    (s.drop addr).WF ∧ (s.drop addr).eventsOut = s.eventsOut ∧ (s.drop addr).cfg = s.cfg ∧
    (s.drop addr).timeBase = s.timeBase ∧
    ∀ a, (s.drop addr).phaseOf a = if a = addr then .idle else s.phaseOf a := by
  unfold Server.drop
  split
  · next c hf =>
    obtain ⟨hcm, hca⟩ := Server.find_some hf
    refine ⟨hw.finish hcm, ?_, ?_, ?_, ?_⟩
    · rw [Server.finish_eq hcm]
    · rw [Server.finish_eq hcm]
    · rw [Server.finish_eq hcm]
    · intro a
      unfold Server.phaseOf
      rw [Server.find_finish, hca]
      by_cases ha : a = addr
      · rw [if_pos ha, if_pos ha]
      · rw [if_neg ha, if_neg ha]
  · next hf =>
    refine ⟨hw, rfl, rfl, rfl, ?_⟩
    intro a
    split
    · next h => rw [h]; exact Server.phaseOf_none hf
    · rfl

/-- One API call from a well-formed state with an empty event buffer. -/
theorem Server.apply_monitor (hc : HC H) (s s' : Server H) (hw : s.WF) (he : s.eventsOut = []) (op : SOp)
    (sent : List (Nat × List Nat)) (ls : List SLabel) (h : s.apply hc op = .ok (s', sent, ls)) :
    s'.WF ∧ s'.eventsOut = [] ∧ s'.cfg = s.cfg ∧ s'.timeBase = s.timeBase ∧
    ∀ a, (s.phaseOf a).runL (lblOf a ls) = some (s'.phaseOf a) := by
  have ofSTr : ∀ x : Server H, STr s [] x → x.WF ∧ x.eventsOut = [] ∧ x.cfg = s.cfg ∧ x.timeBase = s.timeBase ∧
      ∀ a, (s.phaseOf a).runL (lblOf a []) = some (x.phaseOf a) := by
    intro x t
    refine ⟨t.wf, by rw [t.events, he]; rfl, t.cfg, t.timeBase, fun a => ?_⟩
    have := t.mon a
    simpa [evsOf, SPhase.run, lblOf, SPhase.runL] using this
  cases op with
  | step n arr =>
    simp only [Server.apply] at h
    split at h
    · cases h
    · next s1 o1 e1 hs =>
      cases h
      obtain ⟨h1, h2, h3, h4, h5⟩ := Server.step_STr hc s s' hw he n arr sent e1 hs
      exact ⟨h1, h2, h3, h4, fun a => by rw [SPhase.runL_map_ev]; exact h5 a⟩
  | drop addr =>
    cases h
    obtain ⟨h1, h2, h3, h4, h5⟩ := Server.drop_tr s hw addr
    refine ⟨h1, h2.trans he, h3, h4, fun a => ?_⟩
    rw [h5 a]
    by_cases ha : a = addr
    · subst ha
      simp [lblOf, SLabel.addr, SPhase.runL, SPhase.nextL]
    · have : ¬ addr = a := fun e => ha e.symm
      simp [lblOf, SLabel.addr, SPhase.runL, ha, this]
  | disconnect addr m => cases h; exact ofSTr _ (Server.disconnect_STr s hw addr m)
  | send addr d ch m => cases h; exact ofSTr _ (Server.send_STr hc s hw addr d ch m)
  | flush =>
    simp only [Server.apply] at h
    split at h
    · cases h
    · next s1 o1 hf =>
      cases h
      exact ofSTr _ (Server.flushActive_STr hc s s' hw sent hf)

/-- Runs: well-formedness is invariant, and for every address the labels that concern it lead the
monitor from the phase of the initial state to the phase of the final state. -/
theorem Server.run_monitor (hc : HC H) (ops : List SOp) (s s' : Server H) (hw : s.WF) (he : s.eventsOut = [])
    (sent : List (Nat × List Nat)) (ls : List SLabel) (h : Server.run hc s ops = .ok (s', sent, ls)) :
    s'.WF ∧ s'.eventsOut = [] ∧ s'.cfg = s.cfg ∧ s'.timeBase = s.timeBase ∧
    ∀ a, (s.phaseOf a).runL (lblOf a ls) = some (s'.phaseOf a) := by
  induction ops generalizing s sent ls with
  | nil => cases h; exact ⟨hw, he, rfl, rfl, fun _ => rfl⟩
  | cons op ops ih =>
    simp only [Server.run] at h
    split at h
    · cases h
    · next s1 o1 l1 h1 =>
      split at h
      · cases h
      · next s2 o2 l2 h2 =>
        cases h
        obtain ⟨a1, a2, a3, a4, a5⟩ := Server.apply_monitor hc s s1 hw he op o1 l1 h1
        obtain ⟨b1, b2, b3, b4, b5⟩ := ih s1 a1 a2 o2 l2 h2
        refine ⟨b1, b2, b3.trans a3, b4.trans a4, fun a => ?_⟩
        rw [lblOf_append, SPhase.runL_append, a5 a]
        exact b5 a

end Uflow.Endpoint
