import Uflow.Lemmas.FrameQAckGroup
import Lean

/-!
Reorder-buffer invariant and absence of traps in `notifyAck` / `ackLoop` / `acknowledgeGroup`
(optional part of C15).

Positions: the *position* of a frame id `x` in the log of `s` is `wsub32 x s.logBase`; `x` is in
the log iff its position is `< s.frames.length`.
-/

namespace Uflow.FrameQ

open Uflow Uflow.Codec

/-! ### wrapping arithmetic -/

theorem wsub32_lt (a b : Nat) : wsub32 a b < 2^32 := by unfold wsub32; omega

theorem wadd32_lt (a b : Nat) : wadd32 a b < 2^32 := by unfold wadd32; omega

/-- Distance of two ids expressed through their positions relative to `lb`. -/
theorem wsub32_via (lb x y : Nat) (_hx : x < 2^32) (_hy : y < 2^32) :
    wsub32 x y = (wsub32 x lb + 2^32 - wsub32 y lb) % 2^32 := by
  unfold wsub32; omega

theorem pos_succ (lb x : Nat) (hx : x < 2^32) :
    wsub32 (wadd32 x 1) lb = (wsub32 x lb + 1) % 2^32 := by
  unfold wsub32 wadd32; omega

theorem pos_inj (lb x y : Nat) (hx : x < 2^32) (hy : y < 2^32)
    (h : wsub32 x lb = wsub32 y lb) : x = y := by
  unfold wsub32 at h; omega

/-! ### `nackRun` -/

theorem nackRun_spec (fuel : Nat) : ∀ (base target : Nat) (cb : Cb), base < 2^32 → target < 2^32 →
    wsub32 target base < fuel →
    ∃ cb', nackRun fuel base target cb = .ok (target, cb ++ cb') ∧
      ∀ x ∈ cb', x.1 < 2^32 ∧ wsub32 x.1 base < wsub32 target base := by
  induction fuel with
  | zero => intro _ _ _ _ _ h; exact absurd h (Nat.not_lt_zero _)
  | succ n ih =>
    intro base target cb hb ht hd
    rw [nackRun]
    by_cases he : base = target
    · rw [if_pos he]
      refine ⟨[], ?_, ?_⟩
      · rw [he, List.append_nil]
      · intro x hx; cases hx
    · rw [if_neg he]
      have hd' : wsub32 target (wadd32 base 1) < n ∧
          wsub32 target (wadd32 base 1) + 1 = wsub32 target base := by
        unfold wsub32 wadd32 at *; omega
      obtain ⟨cb', hrun, hcb⟩ := ih (wadd32 base 1) target (cb ++ [(base, false)])
        (wadd32_lt _ _) ht hd'.1
      refine ⟨(base, false) :: cb', ?_, ?_⟩
      · rw [hrun, List.append_assoc]; rfl
      · intro x hx
        rcases List.mem_cons.mp hx with rfl | hx
        · refine ⟨hb, ?_⟩
          show wsub32 base base < wsub32 target base
          unfold wsub32 at *; omega
        · obtain ⟨h1, h2⟩ := hcb x hx
          refine ⟨h1, ?_⟩
          have h3 := hd'.2
          have h4 := wsub32_lt target base
          unfold wsub32 wadd32 at *; omega

/-! ### `applyCb` -/

theorem applyCb_ok (s : State) (rtt : Option Nat) (cb : Cb) : ∀ (l : List Interval),
    (∀ x ∈ cb, wsub32 x.1 s.logBase < s.frames.length) → ∃ l', applyCb s rtt cb l = .ok l' := by
  induction cb with
  | nil => intro l _; exact ⟨l, rfl⟩
  | cons x cb ih =>
    intro l h
    obtain ⟨id, seen⟩ := x
    have hx := h (id, seen) List.mem_cons_self
    have hget : getFrame s id = some s.frames[wsub32 id s.logBase] := by
      unfold getFrame; exact List.getElem?_eq_getElem hx
    rw [applyCb, hget]
    simp only []
    cases seen
    · rw [if_neg Bool.false_ne_true]
      exact ih _ (fun y hy => h y (List.mem_cons_of_mem _ hy))
    · rw [if_pos rfl]
      exact ih _ (fun y hy => h y (List.mem_cons_of_mem _ hy))

/-- Closes goals about the `count` field of a concrete `Reorder` record. -/
macro "cnt" : tactic => `(tactic| ((try simp only []); omega))

/-! ### reorder-buffer invariant -/

/-- Invariant of the reorder buffer relative to a log with base id `lb` and `len` entries:
the buffer base lies within the log (possibly at its end), buffered frames lie strictly after the
base, in order, inside the log; no wrap-around can be observed (`len + maxSpan ≤ 2^32`). -/
structure RInv (lb len : Nat) (r : Reorder) : Prop where
  span : len + r.maxSpan ≤ 2^32
  base_lt : r.baseId < 2^32
  base_pos : wsub32 r.baseId lb ≤ len
  cnt : r.count ≤ 2
  f0_lt : 1 ≤ r.count → r.f0 < 2^32
  f0_lo : 1 ≤ r.count → wsub32 r.baseId lb < wsub32 r.f0 lb
  f0_hi : 1 ≤ r.count → wsub32 r.f0 lb < len
  f1_lt : r.count = 2 → r.f1 < 2^32
  f1_lo : r.count = 2 → wsub32 r.f0 lb < wsub32 r.f1 lb
  f1_hi : r.count = 2 → wsub32 r.f1 lb < len

/-- `x` is currently held in the reorder buffer. -/
def Buffered (r : Reorder) (x : Nat) : Prop :=
  (1 ≤ r.count ∧ x = r.f0) ∨ (r.count = 2 ∧ x = r.f1)

/-- Result of a successful `put`. -/
structure PutOk (lb len : Nat) (r : Reorder) (id : Nat) (r' : Reorder) (cb : Cb) : Prop where
  inv : RInv lb len r'
  cb_in : ∀ x ∈ cb, wsub32 x.1 lb < len
  buf : ∀ x, Buffered r' x → Buffered r x ∨ x = id

/-- Release phase of `Reorder.put` when two frames are buffered: `mn` is the nearest of the three
candidates, `f0`, `f1` the remaining two in order. -/
def putRelease (r : Reorder) (f0 f1 mn : Nat) : R (Reorder × Cb) :=
  match nackRun (r.maxSpan + 2) r.baseId mn [] with
  | .error t => .error t
  | .ok (_, cb) =>
    let cb := cb ++ [(mn, true)]
    let b := wadd32 mn 1
    if f0 = b then
      let b := wadd32 b 1
      if f1 = b then .ok ({ r with f0 := f0, f1 := f1, baseId := wadd32 b 1, count := 0 }, cb ++ [(f0, true), (f1, true)])
      else .ok ({ r with f0 := f1, f1 := f1, baseId := b, count := 1 }, cb ++ [(f0, true)])
    else .ok ({ r with f0 := f0, f1 := f1, baseId := b, count := 2 }, cb)

/-! Computation lemmas for `Reorder.put` (one per branch). -/

theorem put_zero_eq (r : Reorder) (id : Nat) (hc : r.count = 0)
    (he : id = r.baseId) :
    r.put id = .ok ({ r with baseId := wadd32 r.baseId 1 }, [(id, true)]) := by
  unfold Reorder.put; rw [hc]; simp only [if_pos he]

theorem put_zero_ne (r : Reorder) (id : Nat) (hc : r.count = 0)
    (he : ¬ id = r.baseId) :
    r.put id = .ok ({ r with f0 := id, count := 1 }, []) := by
  unfold Reorder.put; rw [hc]; simp only [if_neg he]

theorem put_one_eq_eq (r : Reorder) (id : Nat) (hc : r.count = 1)
    (he : id = r.baseId) (e0 : r.f0 = wadd32 r.baseId 1) :
    r.put id = .ok ({ r with baseId := wadd32 (wadd32 r.baseId 1) 1, count := 0 },
      [(id, true), (r.f0, true)]) := by
  unfold Reorder.put; rw [hc]; simp only [if_pos he, if_pos e0]

theorem put_one_eq_ne (r : Reorder) (id : Nat) (hc : r.count = 1)
    (he : id = r.baseId) (e0 : ¬ r.f0 = wadd32 r.baseId 1) :
    r.put id = .ok ({ r with baseId := wadd32 r.baseId 1 }, [(id, true)]) := by
  unfold Reorder.put; rw [hc]; simp only [if_pos he, if_neg e0]

theorem put_one_ne_lt (r : Reorder) (id : Nat) (hc : r.count = 1)
    (he : ¬ id = r.baseId) (hlt : wsub32 id r.baseId < wsub32 r.f0 r.baseId) :
    r.put id = .ok ({ r with f1 := r.f0, f0 := id, count := 2 }, []) := by
  unfold Reorder.put; rw [hc]; simp only [if_neg he, if_pos hlt]

theorem put_one_ne_ge (r : Reorder) (id : Nat) (hc : r.count = 1)
    (he : ¬ id = r.baseId) (hlt : ¬ wsub32 id r.baseId < wsub32 r.f0 r.baseId) :
    r.put id = .ok ({ r with f1 := id, count := 2 }, []) := by
  unfold Reorder.put; rw [hc]; simp only [if_neg he, if_neg hlt]

open Lean Elab Command Meta in
/-- `abstract_const c in f as g` defines `g := fun d => (body of f)[c := d]` (kernel-checked
ordinary definition). Used to abstract `wsub32` out of `Reorder.put`: unfolding equations that
involve `if wsub32 … < wsub32 … then (…, …) else (…, …)` as a `match` discriminant are
pathologically slow for the kernel (it normalises `decide (wsub32 _ _ < _)` on open terms), while
for an opaque distance function `d` they are cheap, and `r.put id = putG wsub32 r id` is a
syntactic `rfl`. -/
elab "abstract_const " c:ident " in " f:ident " as " g:ident : command => do
  let cn ← liftCoreM <| realizeGlobalConstNoOverloadWithInfo c
  let fn ← liftCoreM <| realizeGlobalConstNoOverloadWithInfo f
  let ci ← getConstInfo cn
  let fi ← getConstInfo fn
  let gname := (← getCurrNamespace) ++ g.getId
  let (ty, val) ← liftTermElabM do
    withLocalDeclD `d ci.type fun d => do
      let rep (e : Expr) : Expr := e.replace fun x => if x.isConstOf cn then some d else none
      let val ← mkLambdaFVars #[d] (rep fi.value!)
      let ty ← mkForallFVars #[d] (rep fi.type)
      return (ty, val)
  liftCoreM <| addDecl <| Declaration.defnDecl {
    name := gname, levelParams := fi.levelParams, type := ty, value := val,
    hints := .abbrev, safety := .safe }

abstract_const Uflow.wsub32 in Uflow.FrameQ.Reorder.put as putG

theorem put_eq_G (r : Reorder) (id : Nat) : r.put id = putG wsub32 r id := rfl

theorem putG_two (d : Nat → Nat → Nat) (r : Reorder) (id : Nat) (hc : r.count = 2) :
    putG d r id =
      if d r.f1 r.baseId < d id r.baseId then
        (if d r.f0 r.baseId < d r.f1 r.baseId then putRelease r r.f1 id r.f0
         else putRelease r r.f0 id r.f1)
      else
        (if d r.f0 r.baseId < d id r.baseId then putRelease r id r.f1 r.f0
         else putRelease r r.f0 r.f1 id) := by
  unfold putG putRelease
  rw [hc]
  simp only []
  by_cases c1 : d r.f1 r.baseId < d id r.baseId
  · simp only [if_pos c1]
    by_cases c2 : d r.f0 r.baseId < d r.f1 r.baseId
    · simp only [if_pos c2]
      generalize nackRun (r.maxSpan + 2) r.baseId r.f0 [] = x
      rcases x with t | ⟨a, cb⟩ <;> rfl
    · simp only [if_neg c2]
      generalize nackRun (r.maxSpan + 2) r.baseId r.f1 [] = x
      rcases x with t | ⟨a, cb⟩ <;> rfl
  · simp only [if_neg c1]
    by_cases c2 : d r.f0 r.baseId < d id r.baseId
    · simp only [if_pos c2]
      generalize nackRun (r.maxSpan + 2) r.baseId r.f0 [] = x
      rcases x with t | ⟨a, cb⟩ <;> rfl
    · simp only [if_neg c2]
      generalize nackRun (r.maxSpan + 2) r.baseId id [] = x
      rcases x with t | ⟨a, cb⟩ <;> rfl

theorem put_two (r : Reorder) (id : Nat) (hc : r.count = 2) :
    r.put id =
      if wsub32 r.f1 r.baseId < wsub32 id r.baseId then
        (if wsub32 r.f0 r.baseId < wsub32 r.f1 r.baseId then putRelease r r.f1 id r.f0
         else putRelease r r.f0 id r.f1)
      else
        (if wsub32 r.f0 r.baseId < wsub32 id r.baseId then putRelease r id r.f1 r.f0
         else putRelease r r.f0 r.f1 id) := by
  rw [put_eq_G]; exact putG_two wsub32 r id hc

theorem putRelease_spec (lb len : Nat) (r : Reorder) (id : Nat) (hr : RInv lb len r)
    (_hc : r.count = 2) (f0 f1 mn : Nat)
    (hmn : mn < 2^32) (hf0 : f0 < 2^32) (hf1 : f1 < 2^32)
    (hlo : wsub32 r.baseId lb ≤ wsub32 mn lb) (h01 : wsub32 mn lb < wsub32 f0 lb)
    (h12 : wsub32 f0 lb < wsub32 f1 lb) (hhi : wsub32 f1 lb < len)
    (hspan : wsub32 mn lb - wsub32 r.baseId lb < r.maxSpan)
    (hbuf : ∀ x, x = f0 ∨ x = f1 → Buffered r x ∨ x = id) :
    ∃ r' cb, putRelease r f0 f1 mn = .ok (r', cb) ∧ PutOk lb len r id r' cb := by
  have hlen : len ≤ 2^32 := by have := hr.span; omega
  have hd : wsub32 mn r.baseId = wsub32 mn lb - wsub32 r.baseId lb := by
    rw [wsub32_via lb mn r.baseId hmn hr.base_lt]
    have := wsub32_lt mn lb; have := wsub32_lt r.baseId lb; omega
  obtain ⟨cb', hrun, hcb⟩ := nackRun_spec (r.maxSpan + 2) r.baseId mn [] hr.base_lt hmn
    (by rw [hd]; omega)
  have hcb_in : ∀ x ∈ cb', wsub32 x.1 lb < wsub32 mn lb := by
    intro x hx
    obtain ⟨h1, h2⟩ := hcb x hx
    rw [hd, wsub32_via lb x.1 r.baseId h1 hr.base_lt] at h2
    have := wsub32_lt x.1 lb; have := wsub32_lt r.baseId lb; omega
  have hpb := pos_succ lb mn hmn
  have hb1 := wadd32_lt mn 1
  have hpb2 := pos_succ lb (wadd32 mn 1) hb1
  have hb2 := wadd32_lt (wadd32 mn 1) 1
  have hpb3 := pos_succ lb (wadd32 (wadd32 mn 1) 1) hb2
  have hb3 := wadd32_lt (wadd32 (wadd32 mn 1) 1) 1
  unfold putRelease
  rw [hrun]
  simp only [List.nil_append]
  by_cases e0 : f0 = wadd32 mn 1
  · rw [if_pos e0]
    by_cases e1 : f1 = wadd32 (wadd32 mn 1) 1
    · rw [if_pos e1]
      refine ⟨_, _, rfl, ⟨?_, ?_, ?_⟩⟩
      · refine ⟨hr.span, hb3, ?_, Nat.zero_le _, ?_, ?_, ?_, ?_, ?_, ?_⟩
        · show wsub32 (wadd32 (wadd32 (wadd32 mn 1) 1) 1) lb ≤ len
          rw [e1] at hhi; rw [e0] at h12; omega
        all_goals (intro h; exact absurd h (by cnt))
      · intro x hx
        simp only [List.mem_append, List.mem_cons, List.mem_nil_iff, or_false] at hx
        rcases hx with (hx | rfl) | rfl | rfl
        · have := hcb_in x hx; omega
        · show wsub32 mn lb < len; omega
        · show wsub32 f0 lb < len; omega
        · show wsub32 f1 lb < len; omega
      · intro x hx
        rcases hx with ⟨h, _⟩ | ⟨h, _⟩ <;> exact absurd h (by cnt)
    · rw [if_neg e1]
      have hne : wsub32 f1 lb ≠ wsub32 (wadd32 (wadd32 mn 1) 1) lb :=
        fun h => e1 (pos_inj lb _ _ hf1 hb2 h)
      refine ⟨_, _, rfl, ⟨?_, ?_, ?_⟩⟩
      · refine ⟨hr.span, hb2, ?_, by cnt, fun _ => hf1, ?_, fun _ => hhi, ?_, ?_, ?_⟩
        · show wsub32 (wadd32 (wadd32 mn 1) 1) lb ≤ len
          rw [e0] at h12; omega
        · intro _
          show wsub32 (wadd32 (wadd32 mn 1) 1) lb < wsub32 f1 lb
          rw [e0] at h12; omega
        all_goals (intro h; exact absurd h (by cnt))
      · intro x hx
        simp only [List.mem_append, List.mem_cons, List.mem_nil_iff, or_false] at hx
        rcases hx with (hx | rfl) | rfl
        · have := hcb_in x hx; omega
        · show wsub32 mn lb < len; omega
        · show wsub32 f0 lb < len; omega
      · intro x hx
        rcases hx with ⟨_, h⟩ | ⟨h, _⟩
        · exact hbuf x (Or.inr h)
        · exact absurd h (by cnt)
  · rw [if_neg e0]
    have hne : wsub32 f0 lb ≠ wsub32 (wadd32 mn 1) lb :=
      fun h => e0 (pos_inj lb _ _ hf0 hb1 h)
    refine ⟨_, _, rfl, ⟨?_, ?_, ?_⟩⟩
    · refine ⟨hr.span, hb1, ?_, by cnt, fun _ => hf0, ?_, ?_, fun _ => hf1, fun _ => h12,
        fun _ => hhi⟩
      · show wsub32 (wadd32 mn 1) lb ≤ len; omega
      · intro _; show wsub32 (wadd32 mn 1) lb < wsub32 f0 lb; omega
      · intro _; show wsub32 f0 lb < len; omega
    · intro x hx
      simp only [List.mem_append, List.mem_cons, List.mem_nil_iff, or_false] at hx
      rcases hx with hx | rfl
      · have := hcb_in x hx; omega
      · show wsub32 mn lb < len; omega
    · intro x hx
      rcases hx with ⟨_, h⟩ | ⟨_, h⟩
      · exact hbuf x (Or.inl h)
      · exact hbuf x (Or.inr h)

/-- `Reorder.put` of an in-log, not yet buffered id that passes `canPut` succeeds, keeps the
invariant, only calls back on logged ids, and buffers nothing but old entries and `id`. -/
theorem put_spec (lb len : Nat) (r : Reorder) (id : Nat) (hr : RInv lb len r) (hid : id < 2^32)
    (hpos : wsub32 id lb < len) (hcan : r.canPut id = true) (hnb : ¬ Buffered r id) :
    ∃ r' cb, r.put id = .ok (r', cb) ∧ PutOk lb len r id r' cb := by
  have hcan' : wsub32 id r.baseId < r.maxSpan := by
    unfold Reorder.canPut at hcan; exact of_decide_eq_true hcan
  have hvia := wsub32_via lb id r.baseId hid hr.base_lt
  have hspan := hr.span
  have hbpos := hr.base_pos
  have hpl := wsub32_lt id lb
  have hbl := wsub32_lt r.baseId lb
  have hge : wsub32 r.baseId lb ≤ wsub32 id lb := by omega
  have hdn : wsub32 id r.baseId = wsub32 id lb - wsub32 r.baseId lb := by omega
  have hcnt := hr.cnt
  have hpb := pos_succ lb r.baseId hr.base_lt
  have hb1 := wadd32_lt r.baseId 1
  have hpb2 := pos_succ lb (wadd32 r.baseId 1) hb1
  have hb2 := wadd32_lt (wadd32 r.baseId 1) 1
  rcases (by omega : r.count = 0 ∨ r.count = 1 ∨ r.count = 2) with hc | hc | hc
  · -- empty buffer
    by_cases he : id = r.baseId
    · rw [put_zero_eq r id hc he]
      refine ⟨_, _, rfl, ⟨?_, ?_, ?_⟩⟩
      · refine ⟨hspan, hb1, ?_, by cnt, ?_, ?_, ?_, ?_, ?_, ?_⟩
        · show wsub32 (wadd32 r.baseId 1) lb ≤ len
          rw [he] at hpos; omega
        all_goals (intro h; exact absurd h (by cnt))
      · intro x hx
        simp only [List.mem_cons, List.mem_nil_iff, or_false] at hx
        subst hx; exact hpos
      · intro x hx
        rcases hx with ⟨h, _⟩ | ⟨h, _⟩ <;> exact absurd h (by cnt)
    · rw [put_zero_ne r id hc he]
      have hne : wsub32 id lb ≠ wsub32 r.baseId lb := fun h => he (pos_inj lb _ _ hid hr.base_lt h)
      refine ⟨_, _, rfl, ⟨?_, ?_, ?_⟩⟩
      · refine ⟨hspan, hr.base_lt, hbpos, by cnt, fun _ => hid, ?_, fun _ => hpos, ?_, ?_, ?_⟩
        · intro _; show wsub32 r.baseId lb < wsub32 id lb; omega
        all_goals (intro h; exact absurd h (by cnt))
      · intro x hx; cases hx
      · intro x hx
        rcases hx with ⟨_, h⟩ | ⟨h, _⟩
        · exact Or.inr h
        · exact absurd h (by cnt)
  · -- one buffered frame
    have h0lt := hr.f0_lt (by omega)
    have h0lo := hr.f0_lo (by omega)
    have h0hi := hr.f0_hi (by omega)
    have hd0 : wsub32 r.f0 r.baseId = wsub32 r.f0 lb - wsub32 r.baseId lb := by
      rw [wsub32_via lb r.f0 r.baseId h0lt hr.base_lt]; have := wsub32_lt r.f0 lb; omega
    have hnf0 : id ≠ r.f0 := fun h => hnb (Or.inl ⟨by omega, h⟩)
    have hne0 : wsub32 id lb ≠ wsub32 r.f0 lb := fun h => hnf0 (pos_inj lb _ _ hid h0lt h)
    by_cases he : id = r.baseId
    · by_cases e0 : r.f0 = wadd32 r.baseId 1
      · rw [put_one_eq_eq r id hc he e0]
        refine ⟨_, _, rfl, ⟨?_, ?_, ?_⟩⟩
        · refine ⟨hspan, hb2, ?_, by cnt, ?_, ?_, ?_, ?_, ?_, ?_⟩
          · show wsub32 (wadd32 (wadd32 r.baseId 1) 1) lb ≤ len
            rw [e0] at h0hi; omega
          all_goals (intro h; exact absurd h (by cnt))
        · intro x hx
          simp only [List.mem_cons, List.mem_nil_iff, or_false] at hx
          rcases hx with rfl | rfl
          · exact hpos
          · exact h0hi
        · intro x hx
          rcases hx with ⟨h, _⟩ | ⟨h, _⟩ <;> exact absurd h (by cnt)
      · rw [put_one_eq_ne r id hc he e0]
        have hne : wsub32 r.f0 lb ≠ wsub32 (wadd32 r.baseId 1) lb :=
          fun h => e0 (pos_inj lb _ _ h0lt hb1 h)
        refine ⟨_, _, rfl, ⟨?_, ?_, ?_⟩⟩
        · refine ⟨hspan, hb1, ?_, by cnt, fun _ => h0lt, ?_, fun _ => h0hi, ?_, ?_, ?_⟩
          · show wsub32 (wadd32 r.baseId 1) lb ≤ len; omega
          · intro _; show wsub32 (wadd32 r.baseId 1) lb < wsub32 r.f0 lb; omega
          all_goals (intro h; exact absurd h (by cnt))
        · intro x hx
          simp only [List.mem_cons, List.mem_nil_iff, or_false] at hx
          subst hx; exact hpos
        · intro x hx
          rcases hx with ⟨_, h⟩ | ⟨h, _⟩
          · exact Or.inl (Or.inl ⟨by omega, h⟩)
          · exact absurd h (by cnt)
    · have hne : wsub32 id lb ≠ wsub32 r.baseId lb := fun h => he (pos_inj lb _ _ hid hr.base_lt h)
      by_cases hlt : wsub32 id r.baseId < wsub32 r.f0 r.baseId
      · rw [put_one_ne_lt r id hc he hlt]
        refine ⟨_, _, rfl, ⟨?_, ?_, ?_⟩⟩
        · refine ⟨hspan, hr.base_lt, hbpos, by cnt, fun _ => hid, ?_, fun _ => hpos,
            fun _ => h0lt, ?_, fun _ => h0hi⟩
          · intro _; show wsub32 r.baseId lb < wsub32 id lb; omega
          · intro _; show wsub32 id lb < wsub32 r.f0 lb; omega
        · intro x hx; cases hx
        · intro x hx
          rcases hx with ⟨_, h⟩ | ⟨_, h⟩
          · exact Or.inr h
          · exact Or.inl (Or.inl ⟨by omega, h⟩)
      · rw [put_one_ne_ge r id hc he hlt]
        refine ⟨_, _, rfl, ⟨?_, ?_, ?_⟩⟩
        · refine ⟨hspan, hr.base_lt, hbpos, by cnt, fun _ => h0lt, fun _ => h0lo,
            fun _ => h0hi, fun _ => hid, ?_, fun _ => hpos⟩
          intro _; show wsub32 r.f0 lb < wsub32 id lb; omega
        · intro x hx; cases hx
        · intro x hx
          rcases hx with ⟨_, h⟩ | ⟨_, h⟩
          · exact Or.inl (Or.inl ⟨by omega, h⟩)
          · exact Or.inr h
  · -- two buffered frames
    have h0lt := hr.f0_lt (by omega)
    have h0lo := hr.f0_lo (by omega)
    have h0hi := hr.f0_hi (by omega)
    have h1lt := hr.f1_lt hc
    have h1lo := hr.f1_lo hc
    have h1hi := hr.f1_hi hc
    have hd0 : wsub32 r.f0 r.baseId = wsub32 r.f0 lb - wsub32 r.baseId lb := by
      rw [wsub32_via lb r.f0 r.baseId h0lt hr.base_lt]; have := wsub32_lt r.f0 lb; omega
    have hd1 : wsub32 r.f1 r.baseId = wsub32 r.f1 lb - wsub32 r.baseId lb := by
      rw [wsub32_via lb r.f1 r.baseId h1lt hr.base_lt]; have := wsub32_lt r.f1 lb; omega
    have hnf0 : id ≠ r.f0 := fun h => hnb (Or.inl ⟨by omega, h⟩)
    have hnf1 : id ≠ r.f1 := fun h => hnb (Or.inr ⟨hc, h⟩)
    have hne0 : wsub32 id lb ≠ wsub32 r.f0 lb := fun h => hnf0 (pos_inj lb _ _ hid h0lt h)
    have hne1 : wsub32 id lb ≠ wsub32 r.f1 lb := fun h => hnf1 (pos_inj lb _ _ hid h1lt h)
    have hB0 : Buffered r r.f0 := Or.inl ⟨by omega, rfl⟩
    have hB1 : Buffered r r.f1 := Or.inr ⟨hc, rfl⟩
    rw [put_two r id hc]
    by_cases c1 : wsub32 r.f1 r.baseId < wsub32 id r.baseId
    · rw [if_pos c1, if_pos (by omega)]
      exact putRelease_spec lb len r id hr hc r.f1 id r.f0 h0lt h1lt hid (by omega) h1lo
        (by omega) hpos (by omega)
        (by rintro x (rfl | rfl); exact Or.inl hB1; exact Or.inr rfl)
    · rw [if_neg c1]
      by_cases c2 : wsub32 r.f0 r.baseId < wsub32 id r.baseId
      · rw [if_pos c2]
        exact putRelease_spec lb len r id hr hc id r.f1 r.f0 h0lt hid h1lt (by omega) (by omega)
          (by omega) h1hi (by omega)
          (by rintro x (rfl | rfl); exact Or.inr rfl; exact Or.inl hB1)
      · rw [if_neg c2]
        exact putRelease_spec lb len r id hr hc r.f0 r.f1 id hid h0lt h1lt hge (by omega) h1lo
          h1hi (by omega)
          (by rintro x (rfl | rfl); exact Or.inl hB0; exact Or.inl hB1)

end Uflow.FrameQ
