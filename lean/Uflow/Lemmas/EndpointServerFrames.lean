import Uflow.Lemmas.EndpointServerHandshake
import Uflow.Lemmas.Codec

/-!
Handshake frames on the wire (lengths, round trip), single-datagram processing, frames that are
no-ops for the server, and the loss-free handshake exchange step by step.
-/

namespace Uflow.Endpoint

open Uflow.Gen Uflow.Codec Uflow.HalfConn

variable {H : Type}

theorem u32_lt (x : Nat) : u32 x < 2^32 := by unfold u32; omega

theorem encode_syn_length (v n r p a : Nat) : (encode (.syn v n r p a)).length = 1472 := by
  simp only [encode, withCrc, encodeBody, be32, zeros, MAX_FRAME_SIZE, FRAME_CRC_SIZE, List.length_append,
    List.length_cons, List.length_replicate, List.length_nil]

theorem encode_synAck_length (na n r p a : Nat) : (encode (.synAck na n r p a)).length = 25 := by
  simp only [encode, withCrc, encodeBody, be32, List.length_append, List.length_cons, List.length_nil]

theorem encode_hsError_length (na : Nat) (e : HsError) : (encode (.hsError na e)).length = 10 := by
  simp only [encode, withCrc, encodeBody, be32, List.length_append, List.length_cons, List.length_nil]

theorem encode_hsAck_length (na : Nat) : (encode (.hsAck na)).length = 9 := by
  simp only [encode, withCrc, encodeBody, be32, List.length_append, List.length_cons, List.length_nil]

theorem take_max_of_le (bs : List Nat) (h : bs.length ≤ 1472) : bs.take MAX_FRAME_SIZE = bs :=
  List.take_of_length_le h

/-- Processing one datagram. -/
theorem Server.handleFrames_single (hc : HC H) (s : Server H) (addr : Nat) (bytes : List Nat) (nowMs nowNs : Nat) :
    s.handleFrames hc [(addr, bytes)] nowMs nowNs =
      match decode (bytes.take MAX_FRAME_SIZE) with
      | none => .ok (s, [])
      | some f => s.handleFrame hc addr f nowMs nowNs := by
  unfold Server.handleFrames
  simp only [List.foldlM_cons, List.foldlM_nil, bind, Except.bind, pure, Except.pure]
  cases hd : decode (bytes.take MAX_FRAME_SIZE) with
  | none => rfl
  | some f =>
    simp only
    cases hh : s.handleFrame hc addr f nowMs nowNs with
    | error e => rfl
    | ok r => obtain ⟨s', sent⟩ := r; simp

/-! ### frames that do nothing -/

theorem Server.handleFrame_syn_known (hc : HC H) {s : Server H} {addr : Nat} {c : RClient H}
    (hf : s.find addr = some c) (v n r p a nowMs nowNs : Nat) :
    s.handleFrame hc addr (.syn v n r p a) nowMs nowNs = .ok (s, []) := by
  simp only [Server.handleFrame, Server.handleSyn_known hf]

theorem Server.handleFrame_hsAck_noop (hc : HC H) (s : Server H) (addr na nowMs nowNs : Nat)
    (hno : ¬ ∃ c rn rate alloc reply, s.find addr = some c ∧ c.state = .pending na rn rate alloc reply) :
    s.handleFrame hc addr (.hsAck na) nowMs nowNs = .ok (s, []) := by
  simp only [Server.handleFrame]
  rcases Server.handleHsAck_cases hc s addr na nowMs nowNs with ⟨he, _⟩ | ⟨c, rn, rate, alloc, reply, hf, hst, _⟩
  · rw [he]
  · exact absurd ⟨c, rn, rate, alloc, reply, hf, hst⟩ hno

/-! ### the loss-free exchange -/

theorem decode_syn (v n r p a : Nat) (hv : v < 256) (hn : n < 2^32) (hr : r < 2^32) (hp : p < 2^32) (ha : a < 2^32) :
    decode ((encode (.syn v n r p a)).take MAX_FRAME_SIZE) = some (.syn v n r p a) := by
  rw [take_max_of_le _ (by rw [encode_syn_length]; exact Nat.le_refl _)]
  exact decode_encode _ ⟨hv, hn, hr, hp, ha⟩

theorem decode_synAck (na n r p a : Nat) (hna : na < 2^32) (hn : n < 2^32) (hr : r < 2^32) (hp : p < 2^32) (ha : a < 2^32) :
    decode ((encode (.synAck na n r p a)).take MAX_FRAME_SIZE) = some (.synAck na n r p a) := by
  rw [take_max_of_le _ (by rw [encode_synAck_length]; decide)]
  exact decode_encode _ ⟨hna, hn, hr, hp, ha⟩

theorem decode_hsAck (na : Nat) (hna : na < 2^32) :
    decode ((encode (.hsAck na)).take MAX_FRAME_SIZE) = some (.hsAck na) := by
  rw [take_max_of_le _ (by rw [encode_hsAck_length]; decide)]
  exact decode_encode _ hna

theorem decode_hsError (na : Nat) (e : HsError) (hna : na < 2^32) :
    decode ((encode (.hsError na e)).take MAX_FRAME_SIZE) = some (.hsError na e) := by
  rw [take_max_of_le _ (by rw [encode_hsError_length]; decide)]
  exact decode_encode _ hna

theorem Server.drawNonce_lt (s : Server H) : s.drawNonce < 2^32 := by
  unfold Server.drawNonce; exact Nat.mod_lt _ (by decide)

/-- The entry created by an accepted SYN is the entry of its address. -/
theorem Server.WF.accept_find {s : Server H} (h : s.WF) {addr : Nat} (hf : s.find addr = none) (n r a nowMs : Nat) :
    (s.accept addr n r a nowMs).find addr = some (s.newEntry addr n r a) := by
  have hw := h.accept hf n r a nowMs
  have hm : s.newEntry addr n r a ∈ (s.accept addr n r a nowMs).clients := by
    show _ ∈ s.clients ++ [_]
    exact List.mem_append_right _ List.mem_cons_self
  exact hw.find_eq hm

/-- A handshake ACK carrying the nonce the server drew activates the entry created by the SYN. -/
theorem Server.WF.accept_then_ack (hc : HC H) {s : Server H} (h : s.WF) {addr : Nat} (hf : s.find addr = none)
    (n r a nowMs nowMs' nowNs' : Nat) :
    (s.accept addr n r a nowMs).handleFrame hc addr (.hsAck s.drawNonce) nowMs' nowNs' =
      .ok ((s.accept addr n r a nowMs).activate hc (s.newEntry addr n r a) s.drawNonce n r a nowMs' nowNs', []) := by
  simp only [Server.handleFrame]
  have hfind := h.accept_find hf n r a nowMs
  rcases Server.handleHsAck_cases hc (s.accept addr n r a nowMs) addr s.drawNonce nowMs' nowNs' with
    ⟨_, hno⟩ | ⟨c, rn, rate, alloc, reply, hf', hst, he⟩
  · exact absurd ⟨_, _, _, _, _, hfind, rfl⟩ hno
  · rw [hfind] at hf'
    cases hf'
    simp only [Server.newEntry, RState.pending.injEq] at hst
    obtain ⟨_, h2, h3, h4, _⟩ := hst
    subst h2 h3 h4
    rw [he]

end Uflow.Endpoint
