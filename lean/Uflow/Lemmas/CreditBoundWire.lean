import Uflow.Lemmas.CreditBoundSum

/-!
C13 (numeric bound), part 3: from the credit sum to the bytes on the wire; the cap on the credit
after a fill; insertion of `flush` events.
-/

namespace Uflow.CreditBound

open Uflow Uflow.Gen Uflow.Codec Uflow.HalfConn Uflow.HcFrame Uflow.Credit
open Uflow.Rate (FloatOps)
open Uflow.HcInv (lastNow evTime)

variable {F : Type}

/-! ### splitting and joining runs -/

theorem run_append_ok (ops : FloatOps F) (a b : List Ev) (s s1 s2 : State F) (b1 b2 : Nat)
    (c1 c2 : Int) (h1 : run ops s a = .ok (s1, b1, c1)) (h2 : run ops s1 b = .ok (s2, b2, c2)) :
    run ops s (a ++ b) = .ok (s2, b1 + b2, c1 + c2) := by
  induction a generalizing s b1 c1 with
  | nil =>
    simp only [run, Except.ok.injEq, Prod.mk.injEq] at h1
    obtain ⟨rfl, rfl, rfl⟩ := h1
    simp only [List.nil_append, h2, Nat.zero_add, Int.zero_add]
  | cons ev rest ih =>
    simp only [run] at h1
    generalize hex : exec ops s ev = r1 at h1
    cases r1 with
    | error t => cases h1
    | ok v1 =>
      obtain ⟨sa, out⟩ := v1
      simp only at h1
      generalize hrun : run ops sa rest = r2 at h1
      cases r2 with
      | error t => cases h1
      | ok v2 =>
        obtain ⟨sb, bb, cb⟩ := v2
        simp only [Except.ok.injEq, Prod.mk.injEq] at h1
        obtain ⟨rfl, rfl, rfl⟩ := h1
        have := ih sa bb cb hrun
        simp only [List.cons_append, run, hex, this, Nat.add_assoc, Int.add_assoc]

theorem run_append_split (ops : FloatOps F) (a b : List Ev) (s s2 : State F) (bt : Nat) (ct : Int)
    (h : run ops s (a ++ b) = .ok (s2, bt, ct)) :
    ∃ s1 b1 c1 b2 c2, run ops s a = .ok (s1, b1, c1) ∧ run ops s1 b = .ok (s2, b2, c2) ∧
      bt = b1 + b2 ∧ ct = c1 + c2 := by
  induction a generalizing s bt ct with
  | nil =>
    exact ⟨s, 0, 0, bt, ct, rfl, h, by omega, by omega⟩
  | cons ev rest ih =>
    simp only [List.cons_append, run] at h
    generalize hex : exec ops s ev = r1 at h
    cases r1 with
    | error t => cases h
    | ok v1 =>
      obtain ⟨sa, out⟩ := v1
      simp only at h
      generalize hrun : run ops sa (rest ++ b) = r2 at h
      cases r2 with
      | error t => cases h
      | ok v2 =>
        obtain ⟨sb, bb, cb⟩ := v2
        simp only [Except.ok.injEq, Prod.mk.injEq] at h
        obtain ⟨rfl, rfl, rfl⟩ := h
        obtain ⟨s1, b1, c1, b2, c2, hr1, hr2, hb, hc⟩ := ih sa bb cb hrun
        refine ⟨s1, bytes out + b1, evCredit ops s ev + c1, b2, c2, ?_, hr2, by omega, by omega⟩
        simp only [run, hex, hr1]

theorem run_cons_split (ops : FloatOps F) (s s2 : State F) (ev : Ev) (rest : List Ev) (bt : Nat)
    (ct : Int) (h : run ops s (ev :: rest) = .ok (s2, bt, ct)) :
    ∃ s1 out b c, exec ops s ev = .ok (s1, out) ∧ run ops s1 rest = .ok (s2, b, c) := by
  simp only [run] at h
  generalize hex : exec ops s ev = r1 at h
  cases r1 with
  | error t => cases h
  | ok v1 =>
    obtain ⟨q, out⟩ := v1
    simp only at h
    generalize hrun : run ops q rest = r2 at h
    cases r2 with
    | error t => cases h
    | ok v2 =>
      obtain ⟨sb, bb, cb⟩ := v2
      simp only [Except.ok.injEq, Prod.mk.injEq] at h
      obtain ⟨rfl, _, _⟩ := h
      exact ⟨q, out, bb, cb, rfl, hrun⟩

theorem exec_step_inv (ops : FloatOps F) (p q : State F) (t0 : Nat) (out : List (List Nat))
    (h : exec ops p (.step t0) = .ok (q, out)) : step ops p t0 = .ok q := by
  have hx : exec ops p (.step t0) = (HalfConn.step ops p t0).map fun s' => (s', []) := rfl
  rw [hx] at h
  generalize HalfConn.step ops p t0 = r at h
  cases r with
  | error t => cases h
  | ok q' =>
    simp only [Except.map, Except.ok.injEq, Prod.mk.injEq] at h
    rw [h.1]

/-- A run that begins with a `step`. -/
theorem run_step_cons (ops : FloatOps F) (p s2 : State F) (t0 : Nat) (rest : List Ev) (bt : Nat)
    (ct : Int) (h : run ops p (.step t0 :: rest) = .ok (s2, bt, ct)) :
    ∃ q b c, step ops p t0 = .ok q ∧ run ops q rest = .ok (s2, b, c) := by
  obtain ⟨q, out, b, c, h1, h2⟩ := run_cons_split ops p s2 _ rest bt ct h
  exact ⟨q, b, c, exec_step_inv ops p q t0 out h1, h2⟩

/-! ### bytes on the wire from an arbitrary state -/

/-- From any state satisfying `BInv`: the bytes handed to the sink during the run, in nano-bytes,
are at most the credit at the start (at least minus one frame) plus one frame, plus
`ceiling × (time of the last step − time of the last step before the run)`, plus the carried
fraction, plus `eps` per `step`. -/
theorem wire_from (ops : FloatOps F) {eps : Nat} (K : FillOk ops eps) (m : Nat)
    (hmin : MINIMUM_RATE ≤ m) (hR : m ≤ K.maxRate) (evs : List Ev) (s s' : State F) (b : Nat)
    (c : Int) (hi : BInv K m s) (hok : ∀ ev ∈ evs, ev.Ok)
    (ht : stepsOk K.maxDt (lastNow s) evs = true) (h : run ops s evs = .ok (s', b, c)) :
    (b : Int) * (G : Int) ≤
      (max s.flushAlloc (-(MAX_FRAME_SIZE : Int)) + (MAX_FRAME_SIZE : Int)) * (G : Int) +
      ((m * (endTime (lastNow s) evs - lastNow s) + K.v s.flushFrac + nSteps evs * eps : Nat) : Int) := by
  obtain ⟨_, hl, _, hb⟩ := run_bound ops K m hmin hR evs s s' b c hi hok ht h
  have hcr := (run_credit ops evs s s' b c hok hi.pok h).2
  rw [hl] at hb
  generalize m * (endTime (lastNow s) evs - lastNow s) = X at hb ⊢
  generalize nSteps evs * eps = E at hb ⊢
  simp only [G, MAX_FRAME_SIZE] at hb hcr ⊢
  omega

/-! ### the cap -/

/-- The credit after a `step`, in nano-bytes, is at most `ceiling × RTT + 1/2 byte`, where the RTT
is the estimate of the rate controller BEFORE that `step` (the fill precedes the feedback
processing); it is also at most that when the `step` is the first one (credit `≤ 0`). -/
theorem cap_after_step (ops : FloatOps F) {eps : Nat} (K : FillOk ops eps) (M : FillMaxOk ops)
    (m : Nat) (p q : State F) (t0 : Nat) (hi : BInv K m p) (h : step ops p t0 = .ok q) :
    q.flushAlloc * (G : Int) ≤ ((m * M.rttNs p.rate.rttS + 500000000 : Nat) : Int) := by
  obtain ⟨hA, _⟩ := step_frame ops p q t0 h
  cases hl : p.timeLastFlushed with
  | none =>
    rw [fill_none ops p t0 hl] at hA
    have := hi.idle hl
    simp only [G]
    omega
  | some last =>
    rw [fill_some ops p t0 last hl] at hA
    have hcap := M.cap p.rate.sendRate p.rate.rttS
    have hmul : p.rate.sendRate * M.rttNs p.rate.rttS ≤ m * M.rttNs p.rate.rttS :=
      Nat.mul_le_mul_right _ (by have := hi.le; have := hi.max; omega)
    generalize ops.fillMax p.rate.sendRate p.rate.rttS = fm at hA hcap
    generalize satAdd _ _ = sa at hA
    generalize p.rate.sendRate * M.rttNs p.rate.rttS = Y at hcap hmul
    generalize m * M.rttNs p.rate.rttS = X at hmul ⊢
    simp only [G] at hcap ⊢
    omega

theorem stepsOk_noStep (D t : Nat) (evs : List Ev) (hns : ∀ ev ∈ evs, ∀ now, ev ≠ .step now) :
    stepsOk D t evs = true := by
  induction evs with
  | nil => rfl
  | cons ev rest ih =>
    have := ih (fun e he => hns e (by simp [he]))
    cases ev with
    | step now => exact absurd rfl (hns _ (by simp) now)
    | _ => exact this

/-- A run without `step`: the invariant is kept, the time of the last fill and the carried
fraction do not change, and the credit (cut off at minus one frame) does not grow. -/
theorem run_noStep (ops : FloatOps F) {eps : Nat} (K : FillOk ops eps) (m : Nat)
    (hmin : MINIMUM_RATE ≤ m) (hR : m ≤ K.maxRate) (evs : List Ev) (s s' : State F) (b : Nat)
    (c : Int) (hi : BInv K m s) (hok : ∀ ev ∈ evs, ev.Ok)
    (hns : ∀ ev ∈ evs, ∀ now, ev ≠ .step now) (h : run ops s evs = .ok (s', b, c)) :
    BInv K m s' ∧ lastNow s' = lastNow s ∧
    max s'.flushAlloc (-(MAX_FRAME_SIZE : Int)) ≤ max s.flushAlloc (-(MAX_FRAME_SIZE : Int)) := by
  obtain ⟨hi', hl, _, _⟩ := run_bound ops K m hmin hR evs s s' b c hi hok
    (stepsOk_noStep _ _ evs hns) h
  have hc := run_noStep_credit ops evs s s' b c hns h
  have hcr := (run_credit ops evs s s' b c hok hi.pok h).2
  refine ⟨hi', by rw [hl, endTime_noStep _ evs hns], ?_⟩
  subst hc
  omega

/-! ### inserting `flush` events -/

/-- `InsFlush a b`: `b` is `a` with additional `flush` events inserted anywhere. -/
inductive InsFlush : List Ev → List Ev → Prop
  | nil : InsFlush [] []
  | keep (ev : Ev) {a b : List Ev} : InsFlush a b → InsFlush (ev :: a) (ev :: b)
  | ins {a b : List Ev} : InsFlush a b → InsFlush a (.flush :: b)

theorem InsFlush.refl (a : List Ev) : InsFlush a a := by
  induction a with
  | nil => exact .nil
  | cons ev rest ih => exact .keep ev ih

theorem InsFlush.endTime {a b : List Ev} (h : InsFlush a b) (t : Nat) :
    endTime t b = endTime t a := by
  induction h generalizing t with
  | nil => rfl
  | keep ev _ ih => exact ih _
  | ins _ ih => exact ih _

theorem InsFlush.nSteps {a b : List Ev} (h : InsFlush a b) : nSteps b = nSteps a := by
  induction h with
  | nil => rfl
  | keep ev _ ih => cases ev <;> simp only [CreditBound.nSteps, ih]
  | ins _ ih => exact ih

theorem InsFlush.stepsOk {a b : List Ev} (h : InsFlush a b) (D t : Nat) :
    stepsOk D t b = stepsOk D t a := by
  induction h generalizing t with
  | nil => rfl
  | keep ev _ ih => cases ev <;> simp only [CreditBound.stepsOk, ih]
  | ins _ ih => exact ih _

theorem InsFlush.ok {a b : List Ev} (h : InsFlush a b) (hok : ∀ ev ∈ a, ev.Ok) :
    ∀ ev ∈ b, ev.Ok := by
  induction h with
  | nil => exact hok
  | keep ev _ ih =>
    intro e he
    rcases List.mem_cons.mp he with rfl | he
    · exact hok _ (by simp)
    · exact ih (fun x hx => hok x (by simp [hx])) e he
  | ins _ ih =>
    intro e he
    rcases List.mem_cons.mp he with rfl | he
    · trivial
    · exact ih hok e he

/-! ### the interval bound from a fresh half connection -/

theorem exec_step_eq (ops : FloatOps F) (p q : State F) (t0 : Nat) (h : step ops p t0 = .ok q) :
    exec ops p (.step t0) = .ok (q, []) := by
  have hx : exec ops p (.step t0) = (HalfConn.step ops p t0).map fun s' => (s', []) := rfl
  rw [hx, h]; rfl

/-- The bound with the hypotheses on the three parts of the event list separated: `pre1` runs from a
fresh half connection to `p`, `step t0` leads to `q`, the `step`-free `pre2` to `s`, where the
interval `evs` starts. -/
theorem wire_split (ops : FloatOps F) {eps : Nat} (K : FillOk ops eps) (M : FillMaxOk ops)
    (cfg : Config) (now : Nat) (rng : Rng) (hm : MSS ≤ cfg.txBandwidthLimit)
    (hR : cfg.txBandwidthLimit ≤ K.maxRate) (pre1 pre2 evs : List Ev) (t0 : Nat)
    (hok1 : ∀ ev ∈ pre1, ev.Ok) (hok2 : ∀ ev ∈ pre2, ev.Ok) (hok3 : ∀ ev ∈ evs, ev.Ok)
    (ht1 : stepsOk K.maxDt now pre1 = true)
    (ht0 : endTime now pre1 ≤ t0 ∧ t0 - endTime now pre1 ≤ K.maxDt)
    (ht3 : stepsOk K.maxDt t0 evs = true)
    (hns : ∀ ev ∈ pre2, ∀ t, ev ≠ .step t)
    (p q s s' : State F) (b1 b2 b : Nat) (c1 c2 c : Int)
    (h1 : run ops (init ops cfg now rng) pre1 = .ok (p, b1, c1))
    (h2 : step ops p t0 = .ok q)
    (h3 : run ops q pre2 = .ok (s, b2, c2))
    (h4 : run ops s evs = .ok (s', b, c)) :
    b * 1000000000 ≤
      cfg.txBandwidthLimit * ((endTime t0 evs - t0) + M.rttNs p.rate.rttS) + 1472500000000 +
        K.v s.flushFrac + nSteps evs * eps ∧
    K.v s.flushFrac < 1000000000 := by
  have hmin : MINIMUM_RATE ≤ cfg.txBandwidthLimit := by
    simp only [MSS] at hm; simp only [MINIMUM_RATE]; omega
  have hi0 := binv_init ops K cfg now rng hm
  have hl0 : lastNow (init ops cfg now rng) = now := rfl
  obtain ⟨hip, hlp, _, _⟩ := run_bound ops K _ hmin hR pre1 _ p b1 c1 hi0 hok1
    (by rw [hl0]; exact ht1) h1
  rw [hl0] at hlp
  obtain ⟨hiq, hlq, _, _⟩ := exec_bound ops K _ hmin hR p q (.step t0) [] hip trivial
    (fun n hn => by cases hn; rw [hlp]; exact ht0) (exec_step_eq ops p q t0 h2)
  simp only [evTime] at hlq
  obtain ⟨his, hls, hAs⟩ := run_noStep ops K _ hmin hR pre2 q s b2 c2 hiq hok2 hns h3
  rw [hlq] at hls
  have hcap := cap_after_step ops K M _ p q t0 hip h2
  have hw := wire_from ops K _ hmin hR evs s s' b c his hok3 (by rw [hls]; exact ht3) h4
  rw [hls] at hw
  have hv := K.v_lt _ his.good
  refine ⟨?_, hv⟩
  rw [Nat.mul_add]
  generalize cfg.txBandwidthLimit * (endTime t0 evs - t0) = X at hw ⊢
  generalize cfg.txBandwidthLimit * M.rttNs p.rate.rttS = Y at hcap ⊢
  generalize nSteps evs * eps = E at hw ⊢
  simp only [G, MAX_FRAME_SIZE] at hw hcap hAs
  omega

/-- The interval starts before the first `step` ever (`pre` has none): no RTT term, no half byte;
time is counted from the creation time `now`. -/
theorem wire_fresh (ops : FloatOps F) {eps : Nat} (K : FillOk ops eps)
    (cfg : Config) (now : Nat) (rng : Rng) (hm : MSS ≤ cfg.txBandwidthLimit)
    (hR : cfg.txBandwidthLimit ≤ K.maxRate) (pre evs : List Ev)
    (hok1 : ∀ ev ∈ pre, ev.Ok) (hok3 : ∀ ev ∈ evs, ev.Ok)
    (hns : ∀ ev ∈ pre, ∀ t, ev ≠ .step t)
    (ht3 : stepsOk K.maxDt now evs = true)
    (s s' : State F) (b1 b : Nat) (c1 c : Int)
    (h1 : run ops (init ops cfg now rng) pre = .ok (s, b1, c1))
    (h4 : run ops s evs = .ok (s', b, c)) :
    b * 1000000000 ≤
      cfg.txBandwidthLimit * (endTime now evs - now) + 1472000000000 +
        K.v s.flushFrac + nSteps evs * eps ∧
    K.v s.flushFrac < 1000000000 := by
  have hmin : MINIMUM_RATE ≤ cfg.txBandwidthLimit := by
    simp only [MSS] at hm; simp only [MINIMUM_RATE]; omega
  have hi0 := binv_init ops K cfg now rng hm
  have hl0 : lastNow (init ops cfg now rng) = now := rfl
  obtain ⟨his, hls, hAs⟩ := run_noStep ops K _ hmin hR pre _ s b1 c1 hi0 hok1 hns h1
  rw [hl0] at hls
  have hA0 : (init ops cfg now rng).flushAlloc = 0 := rfl
  rw [hA0] at hAs
  have hw := wire_from ops K _ hmin hR evs s s' b c his hok3 (by rw [hls]; exact ht3) h4
  rw [hls] at hw
  have hv := K.v_lt _ his.good
  refine ⟨?_, hv⟩
  generalize cfg.txBandwidthLimit * (endTime now evs - now) = X at hw ⊢
  generalize nSteps evs * eps = E at hw ⊢
  simp only [G, MAX_FRAME_SIZE] at hw hAs
  omega

end Uflow.CreditBound
