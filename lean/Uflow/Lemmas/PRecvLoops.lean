import Uflow.Lemmas.PRecvOps

/-!
Helper lemmas for C06 / C03 (receiver), part 4: the packet-id loops (`idLoop`, `deliverLoop`,
`windowLoop`, `resyncLoop`) terminate within `loopFuel`, and `advanceWindow`, `receive`,
`resynchronize` preserve the invariant without trapping. Finally the hostile driver `run`.
-/

namespace Uflow.PRecv

open Uflow Uflow.Gen Uflow.Codec

/-! ### packet-id arithmetic -/

theorem pidSub_self (a : Nat) : pidSub a a = 0 := by
  simp only [pidSub, PACKET_ID_SPAN]; omega

theorem pidSub_lt (a b : Nat) : pidSub a b < 2^20 := by
  simp only [pidSub, PACKET_ID_SPAN]; omega

theorem pidSub_step (id target : Nat) (h1 : id < 2^20) (h2 : target < 2^20) (h : id ≠ target) :
    pidSub target (pidAdd id 1) + 1 = pidSub target id := by
  simp only [pidSub, pidAdd, PACKET_ID_SPAN]; omega

theorem loopFuel_gt (a b : Nat) : pidSub a b < loopFuel := by
  have := pidSub_lt a b
  simp only [loopFuel, PACKET_ID_SPAN]; omega

/-! ### `idLoop` as a fold over the visited ids -/

def foldR (body : State → Nat → R State) : List Nat → State → R State
  | [], s => .ok s
  | id :: ids, s =>
    match body s id with
    | .error t => .error t
    | .ok s' => foldR body ids s'

/-- `n` consecutive ids starting at `id`. -/
def idsFrom (id : Nat) : Nat → List Nat
  | 0 => []
  | n+1 => id :: idsFrom (pidAdd id 1) n

/-- The ids `idLoop` visits on its way from `id` to `target`. -/
def idsTo (id target : Nat) : List Nat := idsFrom id (pidSub target id)

theorem pidSub_eq_zero (id target : Nat) (h1 : id < 2^20) (h2 : target < 2^20)
    (h : pidSub target id = 0) : id = target := by
  simp only [pidSub, PACKET_ID_SPAN] at h; omega

theorem idLoop_eq_aux (body : State → Nat → R State) (target : Nat) (ht : target < 2^20) :
    ∀ (n fuel : Nat) (s : State) (id : Nat), id < 2^20 → pidSub target id = n → n < fuel →
      idLoop body fuel s id target = foldR body (idsFrom id n) s := by
  intro n
  induction n with
  | zero =>
    intro fuel s id hid hn hf
    have he := pidSub_eq_zero id target hid ht hn
    cases fuel with
    | zero => exact absurd hf (Nat.lt_irrefl _)
    | succ fuel => unfold idLoop; rw [if_pos he]; rfl
  | succ n ih =>
    intro fuel s id hid hn hf
    have he : id ≠ target := by
      intro he; rw [he, pidSub_self] at hn; cases hn
    have hstep := pidSub_step id target hid ht he
    cases fuel with
    | zero => exact absurd hf (Nat.not_lt_zero _)
    | succ fuel =>
      unfold idLoop
      rw [if_neg he]
      show _ = (match body s id with | Except.error t => Except.error t | Except.ok s' => foldR body (idsFrom (pidAdd id 1) n) s')
      cases body s id with
      | error t => rfl
      | ok s' => exact ih fuel s' (pidAdd id 1) (pidAdd_lt _ _) (by omega) (by omega)

theorem idLoop_eq (body : State → Nat → R State) (s : State) (id target : Nat) (hid : id < 2^20)
    (ht : target < 2^20) : idLoop body loopFuel s id target = foldR body (idsTo id target) s :=
  idLoop_eq_aux body target ht _ loopFuel s id hid rfl (loopFuel_gt _ _)

/-- A fold whose body keeps `P`, establishes `Q id` for the id it handles and never destroys a `Q j`. -/
theorem foldR_inv (body : State → Nat → R State) (P : State → Prop) (Q : Nat → State → Prop)
    (hstep : ∀ s id, P s → ∃ s', body s id = .ok s' ∧ P s' ∧ Q id s' ∧ ∀ j, Q j s → Q j s') :
    ∀ (L : List Nat) (s : State), P s →
      ∃ s', foldR body L s = .ok s' ∧ P s' ∧ (∀ id ∈ L, Q id s') ∧ ∀ j, Q j s → Q j s' := by
  intro L
  induction L with
  | nil => intro s hp; exact ⟨s, rfl, hp, fun _ h => (by cases h), fun _ h => h⟩
  | cons id L ih =>
    intro s hp
    obtain ⟨s1, hb, hp1, hq1, hst1⟩ := hstep s id hp
    obtain ⟨s2, hf, hp2, hq2, hst2⟩ := ih s1 hp1
    refine ⟨s2, ?_, hp2, ?_, fun j hj => hst2 j (hst1 j hj)⟩
    · simp only [foldR, hb]; exact hf
    · intro j hj
      rcases List.mem_cons.mp hj with hj | hj
      · rw [hj]; exact hst2 id hq1
      · exact hq2 j hj

/-- A fold whose body keeps `P` on the ids of a fixed list. -/
theorem foldR_inv' (body : State → Nat → R State) (P : State → Prop) (L0 : List Nat)
    (hstep : ∀ s id, id ∈ L0 → P s → ∃ s', body s id = .ok s' ∧ P s') :
    ∀ (L : List Nat) (s : State), (∀ id ∈ L, id ∈ L0) → P s → ∃ s', foldR body L s = .ok s' ∧ P s' := by
  intro L
  induction L with
  | nil => intro s _ hp; exact ⟨s, rfl, hp⟩
  | cons id L ih =>
    intro s hsub hp
    obtain ⟨s1, hb, hp1⟩ := hstep s id (hsub id List.mem_cons_self) hp
    obtain ⟨s2, hf, hp2⟩ := ih s1 (fun j hj => hsub j (List.mem_cons_of_mem _ hj)) hp1
    exact ⟨s2, by simp only [foldR, hb]; exact hf, hp2⟩

/-! ### removing the data flag of a slot -/

theorem Inv.unflag {W M : Nat} {s : State} (h : Inv W M s) (i : Nat) (hi : i < W)
    (hf : (lget s.slots i).dataFlag = true) (x : Slot) (hx1 : x.dataFlag = false)
    (hx2 : x.data = none) (hx3 : x.marker = (lget s.slots i).marker)
    (hx4 : x.asm = (lget s.slots i).asm) :
    ∃ ch, s.chans[(lget s.slots i).chan]? = some ch ∧ 0 < ch.count ∧
      ∀ r : List Bool, r.length = CHANNEL_COUNT →
      Inv W M { setSlot s i x with
        chans := s.chans.set (lget s.slots i).chan { ch with count := ch.count - 1 }
        readyFlags := r } := by
  have hs := h.sok i
  obtain ⟨hchan, -⟩ := hs.flagged hf
  obtain ⟨ch, hch⟩ := h.chan_get _ hchan
  have hpos := h.count_pos i ch hf hch
  refine ⟨ch, hch, hpos, ?_⟩
  intro r hr
  have hx : SlotOk x :=
    ⟨fun _ => hx2, fun hc => (by rw [hx1] at hc; cases hc), (by rw [hx3]; exact hs.marker),
      (by rw [hx4]; exact hs.asm)⟩
  refine h.update i hi x hx _ rfl h.wsz h.mal ?_ h.ale (by simp [h.clen]) hr ?_ h.blt h.elt
  · show s.alloc + _ = s.alloc + _
    simp only [fAlloc, hx4]
  · intro c ch' hc'
    have hc'' : (s.chans.set (lget s.slots i).chan { ch with count := ch.count - 1 })[c]? = some ch' := hc'
    rw [List.getElem?_set] at hc''
    have hx0 : fCnt c x = 0 := by simp [fCnt, hx1]
    rw [hx0]
    split at hc''
    · rename_i heq
      split at hc''
      · cases hc''
        refine ⟨ch, by rw [← heq]; exact hch, ?_⟩
        have : fCnt c (lget s.slots i) = 1 := by simp [fCnt, hf, heq]
        rw [this]
        show ch.count - 1 + 1 = ch.count + 0
        omega
      · cases hc''
    · rename_i hne
      refine ⟨ch', hc'', ?_⟩
      have : fCnt c (lget s.slots i) = 0 := by simp [fCnt, hne]
      rw [this]

/-! ### `advanceWindow` -/

def awBody1 (s : State) (id : Nat) : R State :=
  let i := widx s id
  let sl := getSlot s i
  if sl.dataFlag then
    match s.chans[sl.chan]? with
    | none => .error .index
    | some ch =>
      if ch.count = 0 then .error .overflow else
      let s := setSlot s i { sl with entryFlag := false, dataFlag := false, data := none }
      .ok { s with chans := s.chans.set sl.chan { ch with count := ch.count - 1 } }
  else .ok (setSlot s i { sl with entryFlag := false })

def awBody2 (s : State) (id : Nat) : R State := clearAsm s (widx s id)

def awBody3 (s : State) (id : Nat) : R State := tryUnsetChannelBase s (pidAdd id 1)

def awStart (s : State) (newBase : Nat) : State :=
  if pidSub s.endId s.baseId < pidSub newBase s.baseId then { s with endId := newBase } else s

/-! `advanceWindow` is unfolded in two steps. Evaluating (`whnf`) a loop whose start id is the stuck
`if pidSub .. < pidSub ..` of `advance_window` makes Lean peel the literal `2^32` of the packet-id
arithmetic one successor at a time, so the first step is stated with a body that is *syntactically*
the model's (same matchers) and the window start abstracted; the named version `awLoops` is then
compared with it for a variable start state, where evaluation gets stuck at once. -/

def awLoops' (s0 : State) (newBase : Nat) : R State :=
  idLoop.match_1 (fun _ => R State)
    (idLoop (fun s id =>
        let i := widx s id
        let sl := getSlot s i
        if sl.dataFlag then
          chanBase.match_1 (fun _ => R State) s.chans[sl.chan]? (fun _ => .error .index) fun ch =>
            if ch.count = 0 then .error .overflow else
            let s := setSlot s i { sl with entryFlag := false, dataFlag := false, data := none }
            .ok { s with chans := s.chans.set sl.chan { ch with count := ch.count - 1 } }
        else .ok (setSlot s i { sl with entryFlag := false }))
      loopFuel s0 s0.baseId newBase)
    (fun t => .error t) fun s =>
    idLoop.match_1 (fun _ => R State) (idLoop (fun s id => clearAsm s (widx s id)) loopFuel s s0.baseId newBase)
      (fun t => .error t) fun s =>
      idLoop.match_1 (fun _ => R State)
        (idLoop (fun s id => tryUnsetChannelBase s (pidAdd id 1)) loopFuel s s0.baseId newBase)
        (fun t => .error t) fun s => .ok { s with baseId := newBase }

theorem advanceWindow_eq' (s : State) (newBase : Nat) :
    advanceWindow s newBase =
      awLoops' (if pidSub s.endId s.baseId < pidSub newBase s.baseId then { s with endId := newBase } else s)
        newBase := rfl

/-- Sequencing in `R`, used instead of `match` so that unfolding steps are explicit rewrites. -/
def bindR {α β : Type} (x : R α) (f : α → R β) : R β :=
  match x with
  | .error t => .error t
  | .ok a => f a

theorem bindR_ok {α β : Type} (a : α) (f : α → R β) : bindR (.ok a) f = f a := rfl

/-- The three passes of `advance_window`, started from `s0`. -/
def awLoops (s0 : State) (nb : Nat) : R State :=
  bindR (idLoop awBody1 loopFuel s0 s0.baseId nb) fun s1 =>
  bindR (idLoop awBody2 loopFuel s1 s0.baseId nb) fun s2 =>
  bindR (idLoop awBody3 loopFuel s2 s0.baseId nb) fun s3 =>
  .ok { s3 with baseId := nb }

theorem rmatch_eq_bindR (x : R State) (k : State → R State) :
    idLoop.match_1 (fun _ => R State) x (fun t => .error t) k = bindR x k := by
  cases x <;> rfl

theorem awLoops'_eq (s0 : State) (nb : Nat) : awLoops' s0 nb = awLoops s0 nb := by
  rw [awLoops', awLoops]
  simp only [rmatch_eq_bindR]
  rfl

theorem awStart_eq (s : State) (nb : Nat) :
    (if pidSub s.endId s.baseId < pidSub nb s.baseId then { s with endId := nb } else s) = awStart s nb := rfl

theorem advanceWindow_eq (s : State) (nb : Nat) : advanceWindow s nb = awLoops (awStart s nb) nb :=
  (advanceWindow_eq' s nb).trans
    ((congrArg (fun x => awLoops' x nb) (awStart_eq s nb)).trans (awLoops'_eq (awStart s nb) nb))

theorem awStart_inv {W M : Nat} {s : State} (h : Inv W M s) (nb : Nat) (hnb : nb < 2^20) :
    Inv W M (awStart s nb) := by
  unfold awStart; split
  · exact h.setEnd nb hnb
  · exact h

/-- "The slot of id `id` carries no data flag." -/
def Unflagged (W : Nat) (id : Nat) (s : State) : Prop := (lget s.slots (wi W id)).dataFlag = false

theorem awBody1_inv {W M : Nat} (s : State) (id : Nat) (h : Inv W M s) :
    ∃ s', awBody1 s id = .ok s' ∧ Inv W M s' ∧ Unflagged W id s' ∧
      ∀ j, Unflagged W j s → Unflagged W j s' := by
  have hi : wi W id < W := wi_lt h.wpos _
  have hs := h.sok (wi W id)
  unfold awBody1
  rw [widx_eq h]
  simp only
  by_cases hf : (getSlot s (wi W id)).dataFlag = true
  case neg =>
    rw [if_neg hf]
    have hf' : (lget s.slots (wi W id)).dataFlag = false := by
      cases hd : (lget s.slots (wi W id)).dataFlag with
      | false => rfl
      | true => exact absurd hd hf
    have hx : SlotOk { getSlot s (wi W id) with entryFlag := false } :=
      ⟨hs.nodata, hs.flagged, hs.marker, hs.asm⟩
    refine ⟨_, rfl, ?_, ?_, ?_⟩
    · exact h.update _ hi _ hx _ rfl h.wsz h.mal rfl h.ale h.clen h.rlen
        (fun _ ch' hc => ⟨ch', hc, rfl⟩) h.blt h.elt
    · show (lget (lset s.slots _ _) _).dataFlag = false
      rw [lget_lset_same]; exact hf'
    · intro j hj
      show (lget (lset s.slots _ _) _).dataFlag = false
      rw [lget_lset]
      split
      · exact hf'
      · exact hj
  case pos =>
    rw [if_pos hf]
    obtain ⟨ch, hch, hpos, hinv⟩ := h.unflag (wi W id) hi hf
      { getSlot s (wi W id) with entryFlag := false, dataFlag := false, data := none } rfl rfl rfl rfl
    rw [show s.chans[(getSlot s (wi W id)).chan]? = some ch from hch]
    simp only
    rw [if_neg (by omega)]
    refine ⟨_, rfl, hinv s.readyFlags h.rlen, ?_, ?_⟩
    · show (lget (lset s.slots _ _) _).dataFlag = false
      rw [lget_lset_same]
    · intro j hj
      show (lget (lset s.slots _ _) _).dataFlag = false
      rw [lget_lset]
      split
      · rfl
      · exact hj

theorem awBody2_inv {W M : Nat} (L0 : List Nat) (s : State) (id : Nat) (hid : id ∈ L0)
    (h : Inv W M s ∧ ∀ j ∈ L0, Unflagged W j s) :
    ∃ s', awBody2 s id = .ok s' ∧ Inv W M s' ∧ ∀ j ∈ L0, Unflagged W j s' := by
  obtain ⟨hinv, hq⟩ := h
  unfold awBody2
  rw [widx_eq hinv]
  obtain ⟨s', hc, hinv', hsame⟩ := clearAsm_inv hinv (wi W id) (wi_lt hinv.wpos _) (hq id hid)
  refine ⟨s', hc, hinv', ?_⟩
  intro j hj
  unfold Unflagged
  rw [hsame]
  exact hq j hj

theorem awBody3_inv {W M : Nat} (s : State) (id : Nat) (h : Inv W M s) :
    ∃ s', awBody3 s id = .ok s' ∧ Inv W M s' := by
  obtain ⟨s', hc, hinv', -⟩ := tryUnsetChannelBase_inv h (pidAdd id 1)
  exact ⟨s', hc, hinv'⟩

theorem advanceWindow_inv {W M : Nat} {s : State} (h : Inv W M s) (nb : Nat) (hnb : nb < 2^20) :
    ∃ s', advanceWindow s nb = .ok s' ∧ Inv W M s' := by
  rw [advanceWindow_eq]
  have h0 := awStart_inv h nb hnb
  generalize awStart s nb = s0 at h0 ⊢
  obtain ⟨s1, hf1, h1, hq1, -⟩ := foldR_inv awBody1 (Inv W M) (Unflagged W)
    (fun s id hp => awBody1_inv s id hp) (idsTo s0.baseId nb) s0 h0
  obtain ⟨s2, hf2, h2, -⟩ := foldR_inv' awBody2 (fun s => Inv W M s ∧ ∀ j ∈ idsTo s0.baseId nb, Unflagged W j s)
    (idsTo s0.baseId nb) (fun s id hid hp => awBody2_inv _ s id hid hp) (idsTo s0.baseId nb) s1
    (fun _ hj => hj) ⟨h1, hq1⟩
  obtain ⟨s3, hf3, h3⟩ := foldR_inv' awBody3 (Inv W M) (idsTo s0.baseId nb)
    (fun s id _ hp => awBody3_inv s id hp) (idsTo s0.baseId nb) s2 (fun _ hj => hj) h2
  rw [awLoops, idLoop_eq _ _ _ _ h0.blt hnb, hf1, bindR_ok, idLoop_eq _ _ _ _ h0.blt hnb, hf2, bindR_ok,
    idLoop_eq _ _ _ _ h0.blt hnb, hf3, bindR_ok]
  exact ⟨_, rfl, h3.setBase nb hnb⟩

end Uflow.PRecv
