import Uflow.Lemmas.EpPeerSrv3a

/-!
C09, the peer endpoint's part (server model), per-address call trace: one datagram, and the API calls
`send`, `disconnect`, `drop`.
-/

namespace Uflow.Endpoint

open Uflow.Gen Uflow.Codec Uflow.HalfConn

variable {H : Type}

/-- The traffic frames one datagram `(addr, f)` offers to the entry of `a`. -/
def offerAt (a addr : Nat) (f : Frame) : List Frame := if addr = a then (if isTraffic f then [f] else []) else []

theorem OT.some1 (hc : HC H) {h : H} {o' : Option H} {pk : List (List Nat)} {cs : List HCall} {fr : List Frame}
    {sd : List SendRec} (hf : H) (hr : replay hc h cs = .ok (hf, pk)) (he : o' = none ∨ o' = some hf)
    (e1 : dispatched cs = fr) (e2 : sendsOf cs = sd) : OT hc (some h) o' pk cs fr sd := by
  subst e1; subst e2; exact OT.ofSome hc hf hr he

/-- One datagram, seen from `a`. -/
theorem Server.handleFrame_AT (hc : HC H) (s s' : Server H) (hw : s.WF) (a addr : Nat) (f : Frame) (nowMs nowNs : Nat)
    (out : List (Nat × List Nat)) (h : s.handleFrame hc addr f nowMs nowNs = .ok (s', out)) :
    ∃ cs, AT hc a s s' cs (offerAt a addr f) [] := by
  have hw' := (Server.handleFrame_STr hc s s' hw addr f nowMs nowNs out h).choose_spec.1.wf
  by_cases hne' : addr ≠ a
  · have hne := hne'
    obtain ⟨w, hf, q⟩ := Server.handleFrame_other hc s s' hw a addr hne f nowMs nowNs out h
    refine ⟨[], ?_⟩
    rw [offerAt, if_neg hne]; exact AT.same hc w q hf
  have hne : addr = a := Decidable.of_not_not hne'
  subst hne
  rw [offerAt, if_pos rfl]
  cases ho : s.hcAt addr with
  | some hh =>
    obtain ⟨c, t, sig, hf, hst⟩ := Server.hcAt_some ho
    by_cases hd : f = .disconnect
    · subst hd
      have hd' : s.handleDisconnect hc addr nowMs = .ok (s', out) := h
      obtain ⟨h', pkts, hr, rfl, he, -⟩ := Server.handleDisconnect_active hc s s' addr nowMs out c hh t sig hf hst hd'
      have fb := Server.find_afterDisconnect s hw c addr nowMs pkts hf addr
      rw [if_pos rfl] at fb
      refine ⟨[.receive], hw', _, by rw [he, List.append_assoc], Or.inr ?_⟩
      rw [ho, recvAt_append, recvAt_map, recvAt_single_nonrecv _ _ (by intro _ _ e; cases e), List.append_nil]
      refine OT.some1 hc h' (replay_receive hc hr) (Or.inl ?_) rfl rfl
      unfold Server.hcAt; rw [fb]
    · obtain ⟨w1, e1, c1, h1, t1, f1, s1, d1⟩ :=
        Server.handleFrame_active_nodisc hc s s' hw addr f nowMs nowNs out c hh t sig hf hst hd h
      have ho' := Server.hcAt_active f1 s1
      cases htf : isTraffic f with
      | true =>
        rw [htf] at d1
        simp only [if_true, dispatchAll, List.foldlM_cons, List.foldlM_nil, bind, Except.bind] at d1
        refine ⟨[.dispatch f], hw', [], by simp [e1], Or.inr ?_⟩
        rw [ho, ho']
        refine OT.some1 hc h1 ?_ (Or.inr rfl) rfl rfl
        cases hdp : hc.dispatch hh f with
        | error e => rw [hdp] at d1; cases d1
        | ok hx => rw [hdp] at d1; cases d1; simp [replay, HCall.exec, hdp, recvAt, evsOf]
      | false =>
        rw [htf] at d1
        cases d1
        refine ⟨[], hw', [], by simp [e1], Or.inr ?_⟩
        rw [ho, ho']
        exact OT.some1 hc hh rfl (Or.inr rfl) rfl rfl
  | none =>
    have same : s' = s → ∃ cs, AT hc addr s s' cs (if isTraffic f then [f] else []) [] := by
      intro e; subst e; exact ⟨[], (AT.refl hc addr hw).widen _ _ ho⟩
    have dsub : ∀ evs, DSub s s' → s'.eventsOut = s.eventsOut ++ evs → recvAt addr evs = [] →
        ∃ cs, AT hc addr s s' cs (if isTraffic f then [f] else []) [] := by
      intro evs d e hr
      exact ⟨[], AT.noHc hc _ _ hw' evs e hr ho (Server.hcAt_none_of_DSub d ho)⟩
    unfold Server.handleFrame at h
    have traffic : (s.handleTraffic hc addr f nowMs).map (·, ([] : List (Nat × List Nat))) = .ok (s', out) →
        ∃ cs, AT hc addr s s' cs (if isTraffic f then [f] else []) [] := by
      intro h
      cases ht : s.handleTraffic hc addr f nowMs with
      | error e => rw [ht] at h; cases h
      | ok s1 =>
        rw [ht] at h; cases h
        rcases Server.handleTraffic_deadline hc s _ hw addr f nowMs ht with ⟨e, _⟩ | ⟨c0, hh0, t0, sig0, _, hf0, hst0, _⟩
        · exact same e
        · rw [Server.hcAt_active hf0 hst0] at ho; cases ho
    cases f with
    | syn v n r p al =>
      have e := Except.ok.inj h
      obtain ⟨evs, h1, hsh⟩ := Server.handleSyn_STr s hw addr v n r p al nowMs
      have d := Server.handleSyn_DSub s addr v n r p al nowMs
      rw [e] at h1 d
      simp only at h1 d
      refine dsub evs d h1.events ?_
      rcases hsh with rfl | ⟨⟨ev, _, rfl⟩, _⟩
      · rfl
      · exact recvAt_single_nonrecv _ _ (by intro _ _ e; cases e)
    | hsAck na =>
      cases h
      cases hf : s.find addr with
      | none => exact same (by simp [Server.handleHsAck, hf])
      | some c =>
        cases hst : c.state with
        | pending ln rn r al rb =>
          by_cases hna : na = ln
          · obtain ⟨-, he, -⟩ := Server.handleHsAck_deadline hc s hw addr na nowMs nowNs c ln rn r al rb hf hst hna
            exact ⟨[], hw', _, he, Or.inl (by simp)⟩
          · exact same (by simp [Server.handleHsAck, hf, hst, hna])
        | _ => exact same (by simp [Server.handleHsAck, hf, hst])
    | synAck => exact same (by simp at h; exact h.1.symm)
    | hsError => exact same (by simp at h; exact h.1.symm)
    | disconnect =>
      simp only at h
      have d := Server.handleDisconnect_DSub hc s s' hw addr nowMs out h
      cases hf : s.find addr with
      | none => exact same (by simp [Server.handleDisconnect, hf] at h; exact h.1.symm)
      | some c =>
        obtain ⟨hcm, hca⟩ := Server.find_some hf
        cases hst : c.state with
        | active hh t sig => rw [Server.hcAt_active hf hst] at ho; cases ho
        | closing =>
          refine dsub [SEvent.disconnect addr] d ?_ (recvAt_single_nonrecv _ _ (by intro _ _ e; cases e))
          unfold Server.handleDisconnect at h
          rw [hf] at h
          simp only [hst] at h
          cases h
          rw [Server.put_state_eq hcm]
        | _ => exact same (by simp [Server.handleDisconnect, hf, hst] at h; exact h.1.symm)
    | disconnectAck =>
      cases h
      obtain ⟨evs, h1, hsh⟩ := Server.handleDisconnectAck_STr s hw addr
      refine dsub evs (Server.handleDisconnectAck_DSub s addr) h1.events ?_
      rcases hsh with rfl | ⟨rfl, _⟩
      · rfl
      · exact recvAt_single_nonrecv _ _ (by intro _ _ e; cases e)
    | data => exact traffic h
    | sync => exact traffic h
    | ack => exact traffic h

/-- `RemoteClient::send`, seen from `a`. -/
theorem Server.send_AT (hc : HC H) (s : Server H) (hw : s.WF) (a addr : Nat) (d : List Nat) (ch : Nat) (m : SendMode) :
    ∃ cs, AT hc a s (s.send hc addr d ch m) cs [] (if addr = a then [(d, ch, m)] else []) := by
  have tr := Server.send_STr hc s hw addr d ch m
  have ev : (s.send hc addr d ch m).eventsOut = s.eventsOut ++ [] := tr.events
  cases ho : s.hcAt a with
  | none =>
    exact ⟨[], AT.noHc hc _ _ tr.wf [] ev rfl ho (Server.hcAt_none_of_DSub (Server.send_DSub hc s hw addr d ch m) ho)⟩
  | some hh =>
    obtain ⟨c, t, sig, hf, hst⟩ := Server.hcAt_some ho
    obtain ⟨hcm, hca⟩ := Server.find_some hf
    by_cases hne : addr = a
    · subst hne
      have e : s.send hc addr d ch m = s.put { c with state := .active (hc.send hh d ch m) t sig } := by
        unfold Server.send; rw [hf]; simp only [hst]
      have hfp := Server.find_put (c' := { c with state := .active (hc.send hh d ch m) t sig }) hw hcm rfl rfl addr
      rw [if_pos hca.symm, ← e] at hfp
      refine ⟨[.send d ch m], tr.wf, [], ev, Or.inr ?_⟩
      rw [ho, Server.hcAt_active hfp rfl, if_pos rfl]
      exact OT.some1 hc _ rfl (Or.inr rfl) rfl rfl
    · refine ⟨[], tr.wf, [], ev, Or.inr ?_⟩
      rw [if_neg hne]
      have : (s.send hc addr d ch m).find a = s.find a := by
        unfold Server.send
        split
        · next c2 hf2 =>
          obtain ⟨hcm2, hca2⟩ := Server.find_some hf2
          split
          · next h2 t2 sig2 hst2 =>
            rw [Server.find_put (c' := { c2 with state := .active (hc.send h2 d ch m) t2 sig2 }) hw hcm2 rfl rfl,
              if_neg (fun e => hne (hca2.symm.trans e.symm))]
          · rfl
        · rfl
      rw [Server.hcAt_of_find this]; exact OT.refl hc _

/-- `disconnect` (sets the signal only), seen from `a`. -/
theorem Server.disconnect_AT (hc : HC H) (s : Server H) (hw : s.WF) (a addr : Nat) (m : DisconnectMode) :
    AT hc a s (s.disconnect addr m) [] [] [] := by
  have tr := Server.disconnect_STr s hw addr m
  refine ⟨tr.wf, [], tr.events, Or.inr ?_⟩
  have : (s.disconnect addr m).hcAt a = s.hcAt a := by
    unfold Server.disconnect
    split
    · next c hf =>
      obtain ⟨hcm, hca⟩ := Server.find_some hf
      split
      · next hh t sig hst =>
        unfold Server.hcAt
        rw [Server.find_put (c' := { c with state := .active hh t (some m) }) hw hcm rfl rfl]
        by_cases e : a = c.address
        · rw [if_pos e, e, hca, hf]; simp only [hst]
        · rw [if_neg e]
      · rfl
    · rfl
  rw [this]; exact OT.refl hc _

/-- `drop` (removes the entry without an event), seen from `a`. -/
theorem Server.drop_AT (hc : HC H) (s : Server H) (hw : s.WF) (a addr : Nat) :
    AT hc a s (s.drop addr) [] [] [] := by
  obtain ⟨w, e, -⟩ := Server.drop_tr s hw addr
  refine ⟨w, [], by simp [e], Or.inr ?_⟩
  cases ho : s.hcAt a with
  | none => rw [Server.hcAt_none_of_DSub (Server.drop_DSub s addr) ho]; exact OT.refl hc _
  | some hh =>
    unfold Server.drop
    split
    · next c hf =>
      obtain ⟨hcm, hca⟩ := Server.find_some hf
      have hff := Server.find_finish s c a
      by_cases hne : a = c.address
      · rw [if_pos hne] at hff
        have : (s.finish c).hcAt a = none := by unfold Server.hcAt; rw [hff]
        rw [this]
        exact OT.some1 hc hh rfl (Or.inl rfl) rfl rfl
      · rw [if_neg hne] at hff
        rw [Server.hcAt_of_find hff, ho]; exact OT.refl hc _
    · rw [ho]; exact OT.refl hc _

end Uflow.Endpoint
