import Uflow.Lemmas.HcFrmFq
import Uflow.Lemmas.HcSysEmit

/-!
C01Hc (frame-level acknowledgements), part 4: `emit_data_frames` keeps the frame log consistent with
the wire. Every data frame `DataFrameEmitter::finalize` hands to the sink carries the frame id
`FrameLog::next_id()` had when the frame was started, and the fragment references logged with it are
fragments whose datagrams the frame carries (`EF`, through the loops of `emit_data_frames`).
-/

namespace Uflow.HcFrm

open Uflow Uflow.Gen Uflow.Codec Uflow.HalfConn Uflow.PSend Uflow.FrameQ Uflow.HcSys
open Uflow.HcInv (dfePush_eq startNewG dfeFinalize_none dfeFinalize_some)

variable {F : Type}

/-- Invariant of the emitter context relative to the wire (`wire`: the frames emitted before this
`emit_data_frames`; `e.out`: those emitted by it so far). -/
structure EF (wire : List (List Nat)) (wt : List Nat) (T : Nat) (pend : List Pending) (e : Emit F) : Prop where
  w : WInv e.s.fq
  fq : FqW (wire ++ e.out) (wt ++ List.replicate e.out.length T) pend e.s.fq
  ip : ∀ ip, e.inProg = some ip → ip.frameId = e.s.fq.logNext ∧
    ∀ r ∈ ip.refs, r.1 < T ∧ ∃ d ∈ ip.dgs, RefDg pend r d
  /-- a frame is only started when the frame window has room for it -/
  cp : ∀ ip, e.inProg = some ip → FrameQ.canPush e.s.fq = true
  /-- the data frames emitted so far carry consecutive frame ids ending before `next_id()` -/
  ids : IdSeq (wire ++ e.out) e.s.fq.logNext

theorem WInv.setRL {q : FrameQ.State} (h : WInv q) (b : Bool) : WInv { q with rateLimited := b } :=
  ⟨⟨h.ack.rinv, h.ack.bufAcked⟩, h.ms, h.small, h.next, h.win, h.tail⟩

/-- Changing fields of the state other than `fq` keeps `EF`. -/
theorem EF.setS {wire : List (List Nat)} {wt : List Nat} {T : Nat} {pend : List Pending} {e : Emit F} (h : EF wire wt T pend e) (s : State F)
    (hs : s.fq = e.s.fq) : EF wire wt T pend ({ e with s := s } : Emit F) where
  w := by show WInv s.fq; rw [hs]; exact h.w
  fq := by show FqW (wire ++ e.out) (wt ++ List.replicate e.out.length T) pend s.fq; rw [hs]; exact h.fq
  ip := by
    intro ip hip
    show ip.frameId = s.fq.logNext ∧ _
    rw [hs]; exact h.ip ip hip
  cp := by
    intro ip hip
    show FrameQ.canPush s.fq = true
    rw [hs]; exact h.cp ip hip
  ids := by show IdSeq (wire ++ e.out) s.fq.logNext; rw [hs]; exact h.ids

/-- Setting the `rate_limited` flag of the frame queue keeps `EF`. -/
theorem EF.setRL {wire : List (List Nat)} {wt : List Nat} {T : Nat} {pend : List Pending} {e : Emit F} (h : EF wire wt T pend e) (s : State F)
    (hs : s.fq = { e.s.fq with rateLimited := true }) : EF wire wt T pend ({ e with s := s } : Emit F) where
  w := by show WInv s.fq; rw [hs]; exact WInv.setRL h.w true
  fq := by show FqW (wire ++ e.out) (wt ++ List.replicate e.out.length T) pend s.fq; rw [hs]; exact h.fq.congr rfl rfl rfl
  ip := by
    intro ip hip
    show ip.frameId = s.fq.logNext ∧ _
    rw [hs]; exact h.ip ip hip
  cp := by
    intro ip hip
    show FrameQ.canPush s.fq = true
    rw [hs]; exact h.cp ip hip
  ids := by show IdSeq (wire ++ e.out) s.fq.logNext; rw [hs]; exact h.ids

theorem EF.grow {wire : List (List Nat)} {wt : List Nat} {T : Nat} {pend : List Pending} {e : Emit F} (h : EF wire wt T pend e) (l : List Pending)
    (s : State F) (hs : s.fq = e.s.fq) : EF wire wt T (pend ++ l) ({ e with s := s } : Emit F) where
  w := by show WInv s.fq; rw [hs]; exact h.w
  fq := by
    show FqW (wire ++ e.out) (wt ++ List.replicate e.out.length T) (pend ++ l) s.fq
    rw [hs]
    have := h.fq.mono [] [] l
    rwa [List.append_nil, List.append_nil] at this
  ip := by
    intro ip hip
    show ip.frameId = s.fq.logNext ∧ _
    rw [hs]
    obtain ⟨h1, h2⟩ := h.ip ip hip
    exact ⟨h1, fun r hr => by obtain ⟨hlt, d, hd, hrd⟩ := h2 r hr; exact ⟨hlt, d, hd, hrd.mono l⟩⟩
  cp := by
    intro ip hip
    show FrameQ.canPush s.fq = true
    rw [hs]; exact h.cp ip hip
  ids := by show IdSeq (wire ++ e.out) s.fq.logNext; rw [hs]; exact h.ids

theorem dfeFinalize_ef {wire : List (List Nat)} {wt : List Nat} {T : Nat} {pend : List Pending} (e : Emit F)
    (hwl : wt.length = wire.length) (hg : GE pend e)
    (h : EF wire wt T pend e) : EF wire wt T pend (dfeFinalize e) := by
  cases hip : e.inProg with
  | none => rw [dfeFinalize_none e hip]; exact h
  | some ip =>
    obtain ⟨fq, rate, hfq, _, heq⟩ := dfeFinalize_some e ip hip
    rw [heq]
    obtain ⟨g1, g2⟩ := hg.ip ip hip
    obtain ⟨i1, i2⟩ := h.ip ip hip
    have hdec : decode (encode (.data ip.frameId ip.nonce ip.dgs)) =
        some (.data (ip.frameId % 2^32) ip.nonce ip.dgs) :=
      decode_encode_data _ _ _ g1 (fun d hd => genuine_ok hg.a d (g2 d hd))
    have hlen := h.w.len_le
    have hms := h.w.ms
    have hsm := h.w.small
    refine ⟨?_, ?_, fun ip' h' => (by cases h'), fun ip' h' => (by cases h'), ?ids⟩
    case ids =>
      show IdSeq (wire ++ (e.out ++ [encode (.data ip.frameId ip.nonce ip.dgs)])) fq.logNext
      have hln : fq.logNext = wadd32 e.s.fq.logNext 1 := by
        rw [hfq]; unfold FrameQ.push; rw [if_pos (h.cp ip hip)]
      rw [hln, ← List.append_assoc]
      refine h.ids.push _ ?_
      unfold dataId
      rw [hdec, i1]
    · show WInv fq
      rw [hfq]; exact FrameQ.WInv_push _ _ _ _ _ h.w
    · show FqW (wire ++ (e.out ++ [encode (.data ip.frameId ip.nonce ip.dgs)]))
        (wt ++ List.replicate (e.out ++ [encode (.data ip.frameId ip.nonce ip.dgs)]).length T) pend fq
      rw [hfq, ← List.append_assoc, List.length_append, List.length_singleton, List.replicate_succ',
        ← List.append_assoc]
      have hm := h.fq.mono [encode (.data ip.frameId ip.nonce ip.dgs)] [T] []
      rw [List.append_nil] at hm
      refine hm.push _ _ _ _ (by omega) ?_
      intro r hr
      obtain ⟨hlt, d, hd, hrd⟩ := i2 r hr
      refine ⟨(wire ++ e.out).length, encode (.data ip.frameId ip.nonce ip.dgs), T, ?_, ?_, hlt, ip.nonce,
        ip.dgs, ?_, d, hd, hrd⟩
      · rw [List.getElem?_append_right (Nat.le_refl _), Nat.sub_self]; rfl
      · have : (wt ++ List.replicate e.out.length T).length = (wire ++ e.out).length := by
          simp only [List.length_append, List.length_replicate, hwl]
        rw [← this, List.getElem?_append_right (Nat.le_refl _), Nat.sub_self]; rfl
      · rw [hdec, i1]

/-- `startNew` of `dfePush`; `hrd`: a fragment pushed with `resend = true` is a fragment of the
emission history. -/
theorem startNewG_ef {wire : List (List Nat)} {wt : List Nat} {T : Nat} {pend : List Pending} (dg : Datagram) (p : Pending) (fid : Nat)
    (resend : Bool) (e e' : Emit F) (res : Option PushErr) (h : EF wire wt T pend e)
    (hrd : p.uid < T ∧ RefDg pend (p.uid, fid) dg) (hs : startNewG dg p fid resend e = .ok (e', res)) :
    EF wire wt T pend e' := by
  unfold startNewG at hs
  split at hs
  · simp only [Except.ok.injEq, Prod.mk.injEq] at hs
    obtain ⟨rfl, _⟩ := hs
    exact h.setRL _ rfl
  · split at hs
    · simp only [Except.ok.injEq, Prod.mk.injEq] at hs
      obtain ⟨rfl, _⟩ := hs
      exact h
    · rename_i hcp
      generalize e.s.rng.next = vr at hs
      obtain ⟨v, rng⟩ := vr
      simp only [Except.ok.injEq, Prod.mk.injEq] at hs
      obtain ⟨rfl, _⟩ := hs
      refine ⟨h.w, h.fq, ?_, fun _ _ => Decidable.not_not.mp hcp, h.ids⟩
      intro ip hip
      simp only [Option.some.injEq] at hip
      subst hip
      refine ⟨rfl, ?_⟩
      intro r hr
      show r.1 < T ∧ ∃ d ∈ [dg], RefDg pend r d
      have hr' : r ∈ (if resend = true then [(p.uid, fid)] else []) := hr
      split at hr'
      · rw [List.mem_singleton.mp hr']
        exact ⟨hrd.1, dg, List.mem_singleton.mpr rfl, hrd.2⟩
      · cases hr'

theorem dfePush_ef {wire : List (List Nat)} {wt : List Nat} {T : Nat} {pend : List Pending} (e e' : Emit F) (p : Pending) (fid : Nat)
    (resend : Bool) (res : Option PushErr) (hlen : wt.length = wire.length) (hg : GE pend e)
    (h : EF wire wt T pend e)
    (hrd : ∀ d, p.datagram fid = .ok d → p.uid < T ∧ RefDg pend (p.uid, fid) d)
    (hp : dfePush e p fid resend = .ok (e', res)) : EF wire wt T pend e' := by
  rw [dfePush_eq] at hp
  cases hdg : p.datagram fid with
  | error t => rw [hdg] at hp; cases hp
  | ok dg =>
    rw [hdg] at hp
    simp only [] at hp
    have hrdg := hrd dg hdg
    have hf := dfeFinalize_ef e hlen hg h
    cases hip : e.inProg with
    | none =>
      rw [hip] at hp
      simp only [] at hp
      exact startNewG_ef dg p fid resend e e' res h hrdg hp
    | some ip =>
      rw [hip] at hp
      simp only [] at hp
      split at hp
      · simp only [Except.ok.injEq, Prod.mk.injEq] at hp
        obtain ⟨rfl, _⟩ := hp
        exact hf.setRL _ rfl
      · split at hp
        · exact startNewG_ef dg p fid resend _ e' res hf hrdg hp
        · simp only [Except.ok.injEq, Prod.mk.injEq] at hp
          obtain ⟨rfl, _⟩ := hp
          obtain ⟨i1, i2⟩ := h.ip ip hip
          refine ⟨h.w, h.fq, ?_, fun _ _ => h.cp ip hip, h.ids⟩
          intro ip' hip'
          simp only [Option.some.injEq] at hip'
          subst hip'
          refine ⟨i1, ?_⟩
          intro r hr
          show r.1 < T ∧ ∃ d ∈ ip.dgs ++ [dg], RefDg pend r d
          have hr' : r ∈ (if resend = true then ip.refs ++ [(p.uid, fid)] else ip.refs) := hr
          have hold : ∀ r ∈ ip.refs, r.1 < T ∧ ∃ d ∈ ip.dgs ++ [dg], RefDg pend r d := by
            intro r hr
            obtain ⟨hlt, d, hd, hrd'⟩ := i2 r hr
            exact ⟨hlt, d, List.mem_append_left _ hd, hrd'⟩
          split at hr'
          · rcases List.mem_append.mp hr' with hr' | hr'
            · exact hold r hr'
            · rw [List.mem_singleton.mp hr']
              exact ⟨hrdg.1, dg, List.mem_append_right _ (List.mem_singleton.mpr rfl), hrdg.2⟩
          · exact hold r hr'

/-- A fragment of a packet found in the send window is a fragment of the emission history. -/
theorem ainv_refDg {pend : List Pending} {ps : PSend.State} (h : AInv pend ps) (uid fid : Nat)
    (p : Pending) (d : Datagram) (hf : findPacket ps uid = some p) (hd : p.datagram fid = .ok d) :
    p.uid < pend.length ∧ RefDg pend (p.uid, fid) d := by
  obtain ⟨⟨w, hw, rfl⟩, _⟩ := findPacket_some ps uid _ hf
  exact ⟨(List.getElem?_eq_some_iff.mp (h.win w hw)).1, _, h.win w hw, hd⟩

/-! ### the loops -/

theorem resendLoop_ef {wire : List (List Nat)} {wt : List Nat} {T : Nat} {pend : List Pending} (fuel : Nat) (e e' : Emit F)
    (st : Option Stage) (hwl : wt.length = wire.length) (hT : pend.length ≤ T) (hg : GE pend e)
    (h : EF wire wt T pend e) (hr : resendLoop fuel e = .ok (e', st)) :
    EF wire wt T pend e' := by
  induction fuel generalizing e with
  | zero => simp [resendLoop] at hr
  | succ n ih =>
    rw [resendLoop] at hr
    cases h0 : e.s.resend[0]? with
    | none =>
      rw [h0] at hr
      simp only [Except.ok.injEq, Prod.mk.injEq] at hr
      obtain ⟨rfl, _⟩ := hr
      exact h
    | some entry =>
      rw [h0] at hr
      simp only [] at hr
      have hpopped : resendLoop n ((match heapPop e.s.resend with
            | some (_, hh) => ({ e with s := { e.s with resend := hh } } : Emit F)
            | none => e) : Emit F) = .ok (e', st) → EF wire wt T pend e' := by
        intro hr'
        cases hpop : heapPop e.s.resend with
        | none => rw [hpop] at hr'; exact ih e hg h hr'
        | some v =>
          rw [hpop] at hr'
          refine ih _ ?_ ?_ hr'
          · exact hg.setS _ rfl
          · exact h.setS _ rfl
      cases hfp : findPacket e.s.ps entry.uid with
      | none =>
        rw [hfp] at hr
        simp only [] at hr
        exact hpopped hr
      | some p =>
        rw [hfp] at hr
        simp only [] at hr
        split at hr
        · exact hpopped hr
        · split at hr
          · simp only [Except.ok.injEq, Prod.mk.injEq] at hr
            obtain ⟨rfl, _⟩ := hr
            exact h
          · cases hpush : dfePush e p entry.fid true with
            | error t => rw [hpush] at hr; cases hr
            | ok v =>
              obtain ⟨e1, res⟩ := v
              rw [hpush] at hr
              obtain ⟨g1, _, _, _, _⟩ := dfePush_ge e e1 p entry.fid true res hg
                (fun d hd => ainv_genuine hg.a entry.uid entry.fid p d hfp hd) hpush
              have f1 := dfePush_ef e e1 p entry.fid true res hwl hg h
                (fun d hd => by
                  obtain ⟨a1, a2⟩ := ainv_refDg hg.a entry.uid entry.fid p d hfp hd
                  exact ⟨by omega, a2⟩) hpush
              cases res with
              | some pe =>
                cases pe with
                | sizeLimited =>
                  simp only [Except.ok.injEq, Prod.mk.injEq] at hr
                  obtain ⟨rfl, _⟩ := hr
                  exact f1
                | windowLimited =>
                  simp only [Except.ok.injEq, Prod.mk.injEq] at hr
                  obtain ⟨rfl, _⟩ := hr
                  exact f1
              | none =>
                simp only [] at hr
                cases hpop2 : heapPop e1.s.resend with
                | none => rw [hpop2] at hr; cases hr
                | some w =>
                  obtain ⟨ent, hh⟩ := w
                  rw [hpop2] at hr
                  simp only [] at hr
                  refine ih _ ?_ ?_ hr
                  · exact g1.setS _ rfl
                  · exact f1.setS _ rfl

theorem pendingInner_ef {wire : List (List Nat)} {wt : List Nat} {T : Nat} {pend : List Pending} (fuel : Nat) (e e' : Emit F)
    (st : Option Stage) (hwl : wt.length = wire.length) (hT : pend.length ≤ T) (hg : GE pend e)
    (h : EF wire wt T pend e) (hr : pendingInner fuel e = .ok (e', st)) :
    EF wire wt T pend e' := by
  induction fuel generalizing e with
  | zero => simp [pendingInner] at hr
  | succ n ih =>
    rw [pendingInner] at hr
    cases hpe : e.s.pending with
    | nil =>
      rw [hpe] at hr
      simp only [Except.ok.injEq, Prod.mk.injEq] at hr
      obtain ⟨rfl, _⟩ := hr
      exact h
    | cons entry rest =>
      rw [hpe] at hr
      simp only [] at hr
      have hset : ∀ (pe : List PEntry), pendingInner n ({ e with s := { e.s with pending := pe } } : Emit F) =
          .ok (e', st) → EF wire wt T pend e' :=
        fun pe hr' => by
          refine ih _ ?_ ?_ hr'
          · exact hg.setS _ rfl
          · exact h.setS _ rfl
      cases hfp : findPacket e.s.ps entry.uid with
      | none =>
        rw [hfp] at hr
        exact hset _ hr
      | some p =>
        rw [hfp] at hr
        simp only [] at hr
        split at hr
        · exact hset _ hr
        · split at hr
          · exact hset _ hr
          · cases hpush : dfePush e p entry.fid entry.resend with
            | error t => rw [hpush] at hr; cases hr
            | ok v =>
              obtain ⟨e1, res⟩ := v
              rw [hpush] at hr
              obtain ⟨g1, _, _, _, _⟩ := dfePush_ge e e1 p entry.fid entry.resend res hg
                (fun d hd => ainv_genuine hg.a entry.uid entry.fid p d hfp hd) hpush
              have f1 := dfePush_ef e e1 p entry.fid entry.resend res hwl hg h
                (fun d hd => by
                  obtain ⟨a1, a2⟩ := ainv_refDg hg.a entry.uid entry.fid p d hfp hd
                  exact ⟨by omega, a2⟩) hpush
              cases res with
              | some pe =>
                cases pe with
                | sizeLimited =>
                  simp only [Except.ok.injEq, Prod.mk.injEq] at hr
                  obtain ⟨rfl, _⟩ := hr
                  exact f1
                | windowLimited =>
                  simp only [Except.ok.injEq, Prod.mk.injEq] at hr
                  obtain ⟨rfl, _⟩ := hr
                  exact f1
              | none =>
                simp only [] at hr
                have hps : ∀ (s2 : State F), s2.ps = e1.s.ps → s2.fq = e1.s.fq →
                    pendingInner n ({ e1 with s := s2 } : Emit F) = .ok (e', st) → EF wire wt T pend e' :=
                  fun s2 a1 a2 hr' => ih _ (g1.setS s2 a1) (f1.setS s2 a2) hr'
                split at hr
                · exact hps _ (by exact rfl) (by exact rfl) hr
                · exact hps _ (by exact rfl) (by exact rfl) hr

theorem refill_ef {wire : List (List Nat)} {wt : List Nat} {T : Nat} {pend : List Pending} (e e1 : Emit F) (b : Bool)
    (h : EF wire wt T pend e) (hr : Wire.refill e = .ok (e1, b)) (l : List Pending) : EF wire wt T (pend ++ l) e1 := by
  unfold Wire.refill at hr
  split at hr
  · cases hem : emit e.s.ps e.s.flushId with
    | error t => rw [hem] at hr; cases hr
    | ok v =>
      obtain ⟨ps', r⟩ := v
      rw [hem] at hr
      cases r with
      | none =>
        simp only [Except.ok.injEq, Prod.mk.injEq] at hr
        obtain ⟨rfl, _⟩ := hr
        exact h.grow l _ rfl
      | some v =>
        obtain ⟨p, resend⟩ := v
        simp only [Except.ok.injEq, Prod.mk.injEq] at hr
        obtain ⟨rfl, _⟩ := hr
        exact h.grow l _ rfl
  · simp only [Except.ok.injEq, Prod.mk.injEq] at hr
    obtain ⟨rfl, _⟩ := hr
    have := h.grow l e.s rfl
    exact this

theorem EF.growP {wire : List (List Nat)} {wt : List Nat} {T : Nat} {pend : List Pending} {e : Emit F} (h : EF wire wt T pend e)
    (l : List Pending) : EF wire wt T (pend ++ l) e := h.grow l e.s rfl

theorem _root_.Uflow.HcSys.Emits.nextUid_le {f : Nat} {ps ps' : PSend.State} {l : List Pending} (h : Emits f ps ps' l) :
    ps.nextUid ≤ ps'.nextUid := by
  induction h with
  | nil => exact Nat.le_refl _
  | cons he _ ih =>
    obtain ⟨_, _, _, _, _, _, hc⟩ := emit_cases _ _ _ _ he
    rcases hc with ⟨_, rfl⟩ | ⟨_, _, _, _, _, _, _, _, _, _, _, _, _, _, _, _, _, _, hn, _⟩
    · exact ih
    · omega

theorem pendingOuter_ef {wire : List (List Nat)} {wt : List Nat} {T : Nat} {pend : List Pending} (fuel : Nat) (e e' : Emit F)
    (st : Option Stage) (hwl : wt.length = wire.length) (hT : e'.s.ps.nextUid ≤ T) (hg : GE pend e)
    (h : EF wire wt T pend e) (hr : pendingOuter fuel e = .ok (e', st)) :
    ∃ l, Emits e.s.flushId e.s.ps e'.s.ps l ∧ GE (pend ++ l) e' ∧ K e.s e'.s ∧ EF wire wt T (pend ++ l) e' := by
  induction fuel generalizing e pend with
  | zero => simp [pendingOuter] at hr
  | succ n ih =>
    rw [Wire.pendingOuter_eq] at hr
    cases hre : Wire.refill e with
    | error t => rw [hre] at hr; cases hr
    | ok v =>
      obtain ⟨e1, b⟩ := v
      rw [hre] at hr
      obtain ⟨l1, hem1, hg1, hk1⟩ := refill_ge e e1 b hg hre
      have hf1 := refill_ef e e1 b h hre l1
      cases b with
      | false =>
        simp only [Except.ok.injEq, Prod.mk.injEq] at hr
        obtain ⟨rfl, _⟩ := hr
        exact ⟨l1, hem1, hg1, hk1, hf1⟩
      | true =>
        simp only [] at hr
        cases hin : pendingInner (e1.s.pending.length + 2) e1 with
        | error t => rw [hin] at hr; cases hr
        | ok v2 =>
          obtain ⟨e2, st2⟩ := v2
          rw [hin] at hr
          obtain ⟨hg2, hk2, hp2⟩ := pendingInner_ge _ e1 e2 st2 hg1 hin
          have hle1 : (pend ++ l1).length ≤ T := by
            have h1 : (pend ++ l1).length = e2.s.ps.nextUid := by rw [hp2]; exact hg1.a.nuid.symm
            cases st2 with
            | some s2 =>
              simp only [Except.ok.injEq, Prod.mk.injEq] at hr
              obtain ⟨rfl, _⟩ := hr
              omega
            | none =>
              simp only [] at hr
              obtain ⟨l3, hem3, _, _⟩ := pendingOuter_ge _ e2 e' st hg2 hr
              have := hem3.nextUid_le
              omega
          have hf2 := pendingInner_ef _ e1 e2 st2 hwl hle1 hg1 hf1 hin
          cases st2 with
          | some s2 =>
            simp only [Except.ok.injEq, Prod.mk.injEq] at hr
            obtain ⟨rfl, _⟩ := hr
            exact ⟨l1, by rw [hp2]; exact hem1, hg2, hk1.trans hk2, hf2⟩
          | none =>
            simp only [] at hr
            obtain ⟨l3, hem3, hg3, hk3, hf3⟩ := ih e2 hg2 hf2 hr
            refine ⟨l1 ++ l3, ?_, by rw [← List.append_assoc]; exact hg3, (hk1.trans hk2).trans hk3,
              by rw [← List.append_assoc]; exact hf3⟩
            rw [hp2, hk2.fid, hk1.fid] at hem3
            exact hem1.trans hem3

/-- **`emit_data_frames` keeps the frame log consistent with the wire**; `l`: the packets the
`PSend.emit` calls of this `emit_data_frames` returned (as in `emitDataFrames_ge`). -/
theorem emitDataFrames_ef {wire : List (List Nat)} {wt : List Nat} {T : Nat} {pend : List Pending} (s s' : State F) (out : List (List Nat))
    (st : Stage) (hwl : wt.length = wire.length) (hT : s'.ps.nextUid ≤ T) (ha : AInv pend s.ps) (hw : WInv s.fq)
    (hfq : FqW wire wt pend s.fq) (hids : IdSeq wire s.fq.logNext) (hr : emitDataFrames s = .ok (s', out, st)) :
    ∃ l, Emits s.flushId s.ps s'.ps l ∧ WInv s'.fq ∧
      FqW (wire ++ out) (wt ++ List.replicate out.length T) (pend ++ l) s'.fq ∧
      IdSeq (wire ++ out) s'.fq.logNext := by
  unfold emitDataFrames at hr
  simp only [] at hr
  have h0 : GE pend ({ s := s, inProg := none, out := [] } : Emit F) :=
    ⟨ha, fun b hb => (by cases hb), fun ip h' => (by cases h')⟩
  have f0 : EF wire wt T pend ({ s := s, inProg := none, out := [] } : Emit F) :=
    ⟨hw, by simpa using hfq, fun ip h' => (by cases h'), fun ip h' => (by cases h'), by simpa using hids⟩
  cases hr1 : resendLoop (2 * s.resend.size + 16 + s.flushAlloc.toNat)
      ({ s := s, inProg := none, out := [] } : Emit F) with
  | error t => rw [hr1] at hr; cases hr
  | ok v =>
    obtain ⟨e1, st1⟩ := v
    rw [hr1] at hr
    obtain ⟨g1, k1, p1⟩ := resendLoop_ge _ _ e1 st1 h0 hr1
    have hle0 : pend.length ≤ T := by
      have h1 : pend.length = e1.s.ps.nextUid := by rw [p1]; exact ha.nuid.symm
      cases st1 with
      | some s1 =>
        simp only [Except.ok.injEq, Prod.mk.injEq] at hr
        obtain ⟨rfl, _, _⟩ := hr
        omega
      | none =>
        simp only [] at hr
        cases hr2 : pendingOuter (e1.s.ps.queue.length + e1.s.pending.length + 4) e1 with
        | error t => rw [hr2] at hr; cases hr
        | ok v2 =>
          obtain ⟨e2, st2⟩ := v2
          rw [hr2] at hr
          obtain ⟨l, hem, g2x, _⟩ := pendingOuter_ge _ e1 e2 st2 g1 hr2
          have hmono := hem.nextUid_le
          cases st2 with
          | some s2 =>
            simp only [Except.ok.injEq, Prod.mk.injEq] at hr
            obtain ⟨rfl, _, _⟩ := hr
            omega
          | none =>
            simp only [Except.ok.injEq, Prod.mk.injEq] at hr
            obtain ⟨rfl, _, _⟩ := hr
            have := (dfeFinalize_ge e2 g2x).2.2.1
            rw [this] at hT
            omega
    have f1 := resendLoop_ef _ _ e1 st1 hwl hle0 h0 f0 hr1
    cases st1 with
    | some s1 =>
      simp only [Except.ok.injEq, Prod.mk.injEq] at hr
      obtain ⟨rfl, rfl, _⟩ := hr
      refine ⟨[], by rw [p1]; exact .nil _, f1.w, ?_, f1.ids⟩
      rw [List.append_nil]; exact f1.fq
    | none =>
      simp only [] at hr
      cases hr2 : pendingOuter (e1.s.ps.queue.length + e1.s.pending.length + 4) e1 with
      | error t => rw [hr2] at hr; cases hr
      | ok v2 =>
        obtain ⟨e2, st2⟩ := v2
        rw [hr2] at hr
        have hT2 : e2.s.ps.nextUid ≤ T := by
          cases st2 with
          | some s2 =>
            simp only [Except.ok.injEq, Prod.mk.injEq] at hr
            obtain ⟨rfl, _, _⟩ := hr
            exact hT
          | none =>
            simp only [Except.ok.injEq, Prod.mk.injEq] at hr
            obtain ⟨rfl, _, _⟩ := hr
            obtain ⟨l', _, g2', _⟩ := pendingOuter_ge _ e1 e2 none g1 hr2
            have := (dfeFinalize_ge e2 g2').2.2.1
            rw [this] at hT
            exact hT
        obtain ⟨l, hem, g2, k2, f2⟩ := pendingOuter_ef _ e1 e2 st2 hwl hT2 g1 f1 hr2
        have hem' : Emits s.flushId s.ps e2.s.ps l := by
          have := hem
          rw [p1, k1.fid] at this
          exact this
        cases st2 with
        | some s2 =>
          simp only [Except.ok.injEq, Prod.mk.injEq] at hr
          obtain ⟨rfl, rfl, _⟩ := hr
          exact ⟨l, hem', f2.w, f2.fq, f2.ids⟩
        | none =>
          simp only [Except.ok.injEq, Prod.mk.injEq] at hr
          obtain ⟨rfl, rfl, _⟩ := hr
          obtain ⟨_, _, p3, _⟩ := dfeFinalize_ge e2 g2
          have f3 := dfeFinalize_ef e2 hwl g2 f2
          exact ⟨l, by rw [p3]; exact hem', f3.w, f3.fq, f3.ids⟩

end Uflow.HcFrm
