import Uflow.Lemmas.ModesRun
import Uflow.Lemmas.ModesTs

/-!
A tiny concrete instance for the non-vacuity examples of C13 / C12: `FloatOps Nat` with integer
arithmetic, a fresh half connection and some event lists.
-/

namespace Uflow.CreditEx

open Uflow Uflow.HalfConn Uflow.Credit Uflow.Modes Uflow.Wire
open Uflow.Rate (FloatOps)

/-- Integer stand-ins for the float operations (`fillBytes` is exact, `fillMax` is a constant). -/
def exOps : FloatOps Nat where
  zero := 0
  one := 1
  mid a b := (a + b) / 2
  msToS ms := ms
  sToMs v := v
  gt a b := decide (a > b)
  feq a b := a == b
  ewma r s := (9 * r + s) / 10
  rto r _ := 4 * r
  tcpRate _ _ := 100000
  initRate _ := 4380
  initLossRate _ := 736
  mul085 x := x * 85 / 100
  mul005 x := x * 5 / 100
  recvRate t d := if d = 0 then 0 else t * 1000 / d
  lossRate _ := 0
  lossResetLen _ := 1
  fillBytes rate dt frac := (((rate * dt + frac) / 1000000000 : Nat), (rate * dt + frac) % 1000000000)
  fillMax _ _ := 3000

def exCfg : Config :=
  { txFrameBaseId := 0, rxFrameBaseId := 0, txFrameWindowSize := 16, rxFrameWindowSize := 16,
    txPacketBaseId := 0, rxPacketBaseId := 0, txPacketWindowSize := 16, rxPacketWindowSize := 16,
    txBandwidthLimit := 1000000, txAllocLimit := 100000, rxAllocLimit := 100000,
    keepaliveIntervalMs := none }

/-- A fresh half connection. -/
def exS0 : HalfConn.State Nat := init exOps exCfg 0 { fifo := [], state := 0 }

/-- A 100-byte Reliable packet, a 3000-byte (3 fragments) Unreliable packet and a TimeSensitive
packet are sent; then three steps (at 0 s, 1 s, 3 s) with flushes in between. -/
def exEvs : List Ev :=
  [.send (List.replicate 100 7) 0 .reliable, .send (List.replicate 3000 9) 1 .unreliable,
   .send [1, 2, 3] 2 .timeSensitive,
   .step 0, .flush, .flush, .step 1000000000, .flush, .step 3000000000, .flush, .flush]

/-- The part of `exEvs` between the second and the third `step`. -/
def exState (evs : List Ev) : HalfConn.State Nat :=
  match runT exOps exS0 evs with
  | .ok (s, _) => s
  | .error _ => exS0

/-- A TimeSensitive packet is pulled into the pending queue by a flush that has no credit left
(the Reliable packet used it up), then the next `step` changes the flush id. -/
def exEvsTs : List Ev :=
  [.send (List.replicate 100 7) 0 .reliable, .step 0, .flush,
   .send [1, 2, 3] 2 .timeSensitive, .flush, .step 1000000000]

end Uflow.CreditEx
