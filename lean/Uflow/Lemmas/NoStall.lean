import Uflow.Lemmas.FlushProgNew
import Uflow.Lemmas.HcInvLoops

/-!
C11 (no stall), part 1: following the resend loop and the pending loops of `emit_data_frames` past
dead head entries. Either some fragment is put into a data frame, or the loops find nothing to send
(`ResendQuiet`, `PendQuiet`, `PSend.emit` hands out nothing).
-/

namespace Uflow.NoStall

open Uflow Uflow.Gen Uflow.Codec Uflow.HalfConn Uflow.Wire Uflow.Modes Uflow.Credit Uflow.Heap
open Uflow.FlushProg
open Uflow.PSend (UidLt)

variable {F : Type}

/-- The resend loop finds nothing to send: popping dead heads (packet gone from the send window,
or fragment acknowledged) it reaches the empty queue or a live head that is not due yet. -/
inductive ResendQuiet (ps : PSend.State) (nowMs : Nat) : Array REntry → Prop
  | empty (h : Array REntry) : h[0]? = none → ResendQuiet ps nowMs h
  | notDue (h : Array REntry) (entry : REntry) (p : PSend.Pending) : h[0]? = some entry →
      PSend.findPacket ps entry.uid = some p → entry.fid ∉ p.acked → nowMs < entry.resendTime →
      ResendQuiet ps nowMs h
  | dead (h h' : Array REntry) (entry : REntry) : h[0]? = some entry →
      Skipped ps entry.uid entry.fid → heapPop h = some (entry, h') → ResendQuiet ps nowMs h' →
      ResendQuiet ps nowMs h

/-- The pending loop finds nothing to send: popping dead heads it reaches the end of the list, or
fragment 0 of a TimeSensitive packet queued for another flush (which clears the whole list). -/
inductive PendQuiet (ps : PSend.State) (flushId : Nat) : List PEntry → Prop
  | nil : PendQuiet ps flushId []
  | dead (entry : PEntry) (rest : List PEntry) : Skipped ps entry.uid entry.fid →
      PendQuiet ps flushId rest → PendQuiet ps flushId (entry :: rest)
  | expired (entry : PEntry) (rest : List PEntry) (p : PSend.Pending) :
      PSend.findPacket ps entry.uid = some p → entry.fid ∉ p.acked → entry.fid = 0 →
      p.expired flushId = true → PendQuiet ps flushId (entry :: rest)

/-- `PSend.emit` does not hand out a packet (`C02_emit_refuses`: send queue empty after dropping
stale entries, packet window full, or allocation limit). -/
def EmitNone (ps : PSend.State) (flushId : Nat) : Prop :=
  ∀ ps' p resend, PSend.emit ps flushId ≠ .ok (ps', some (p, resend))

/-- The data stage has nothing to send. -/
def Quiet (s : State F) : Prop :=
  ResendQuiet s.ps s.nowMs s.resend ∧ PendQuiet s.ps s.flushId s.pending ∧ EmitNone s.ps s.flushId

/-- The emitter has sent nothing and changed nothing the later stages look at. -/
def Same (e e' : Emit F) : Prop :=
  e'.inProg = none ∧ e'.out = e.out ∧ e'.s.ps = e.s.ps ∧ e'.s.fq = e.s.fq ∧
  e'.s.flushAlloc = e.s.flushAlloc ∧ e'.s.flushId = e.s.flushId

/-- The resend loop from a clean emitter with credit and an open frame window: a fragment is
carried, or the loop found nothing and left everything but the resend queue alone. -/
theorem resendLoop_cases (fuel : Nat) (e e' : Emit F) (st : Option Stage) (hip : e.inProg = none)
    (hA : 0 ≤ e.s.flushAlloc) (hcp : FrameQ.canPush e.s.fq = true)
    (h : resendLoop fuel e = .ok (e', st)) :
    (∃ dg, Post dg e' st) ∨
    (ResendQuiet e.s.ps e.s.nowMs e.s.resend ∧ st = none ∧ Same e e' ∧
      e'.s.pending = e.s.pending) := by
  induction fuel generalizing e with
  | zero => simp [resendLoop] at h
  | succ n ih =>
    cases h0 : e.s.resend[0]? with
    | none =>
      rw [resendLoop] at h
      simp only [h0, Except.ok.injEq, Prod.mk.injEq] at h
      obtain ⟨rfl, rfl⟩ := h
      exact .inr ⟨.empty _ h0, rfl, ⟨hip, rfl, rfl, rfl, rfl, rfl⟩, rfl⟩
    | some entry =>
      by_cases hsk : Skipped e.s.ps entry.uid entry.fid
      · obtain ⟨hh, hpop, heq⟩ := resendLoop_skip n e entry h0 hsk
        rw [heq] at h
        rcases ih _ (by exact hip) (by exact hA) (by exact hcp) h with hp | ⟨hq, hst, hsame, hpend⟩
        · exact .inl hp
        · exact .inr ⟨.dead _ hh entry h0 hsk hpop hq, hst, hsame, hpend⟩
      · cases h1 : PSend.findPacket e.s.ps entry.uid with
        | none => exact absurd (.inl h1) hsk
        | some p =>
          have h2 : entry.fid ∉ p.acked := fun ha => hsk (.inr ⟨p, h1, ha⟩)
          by_cases h3 : entry.resendTime ≤ e.s.nowMs
          · obtain ⟨dg, _, hp⟩ := resend_first n e e' st entry p hip hA hcp h0 h1 h2 h3 h
            exact .inl ⟨dg, hp⟩
          · have h3' : entry.resendTime > e.s.nowMs := by omega
            rw [resendLoop] at h
            simp only [h0, h1, h2, h3', if_false, if_true, Except.ok.injEq, Prod.mk.injEq] at h
            obtain ⟨rfl, rfl⟩ := h
            exact .inr ⟨.notDue _ entry p h0 h1 h2 (by omega), rfl, ⟨hip, rfl, rfl, rfl, rfl, rfl⟩,
              rfl⟩

/-- The inner pending loop. -/
theorem pendingInner_cases (fuel : Nat) (e e' : Emit F) (st : Option Stage) (hip : e.inProg = none)
    (hA : 0 ≤ e.s.flushAlloc) (hcp : FrameQ.canPush e.s.fq = true)
    (h : pendingInner fuel e = .ok (e', st)) :
    (∃ dg, Post dg e' st) ∨
    (PendQuiet e.s.ps e.s.flushId e.s.pending ∧ st = none ∧ Same e e' ∧ e'.s.pending = []) := by
  induction fuel generalizing e with
  | zero => simp [pendingInner] at h
  | succ n ih =>
    cases h0 : e.s.pending with
    | nil =>
      rw [pendingInner] at h
      simp only [h0, Except.ok.injEq, Prod.mk.injEq] at h
      obtain ⟨rfl, rfl⟩ := h
      exact .inr ⟨.nil, rfl, ⟨hip, rfl, rfl, rfl, rfl, rfl⟩, h0⟩
    | cons entry rest =>
      by_cases hsk : Skipped e.s.ps entry.uid entry.fid
      · rw [pendingInner_skip n e entry rest h0 hsk] at h
        rcases ih _ (by exact hip) (by exact hA) (by exact hcp) h with hp | ⟨hq, hst, hsame, hpend⟩
        · exact .inl hp
        · exact .inr ⟨.dead entry rest hsk hq, hst, hsame, hpend⟩
      · cases h1 : PSend.findPacket e.s.ps entry.uid with
        | none => exact absurd (.inl h1) hsk
        | some p =>
          have h2 : entry.fid ∉ p.acked := fun ha => hsk (.inr ⟨p, h1, ha⟩)
          by_cases h3 : entry.fid = 0 ∧ p.expired e.s.flushId = true
          · rw [pendingInner_expired n e entry rest p h0 h1 h2 h3] at h
            rcases ih _ (by exact hip) (by exact hA) (by exact hcp) h with hp | ⟨_, hst, hsame, hpend⟩
            · exact .inl hp
            · exact .inr ⟨.expired entry rest p h1 h2 h3.1 h3.2, hst, hsame, hpend⟩
          · obtain ⟨dg, _, hp⟩ := pending_first n e e' st entry rest p hip hA hcp h0 h1 h2 h3 h
            exact .inl ⟨dg, hp⟩

/-- The packet just emitted is found under its identity (`findPacket_emit_new` with the weaker
hypothesis `UidLt` of `HcInv`). -/
theorem findPacket_emit_new_lt (ps ps' : PSend.State) (f : Nat) (p : PSend.Pending) (resend : Bool)
    (hu : UidLt ps) (h : PSend.emit ps f = .ok (ps', some (p, resend))) :
    PSend.findPacket ps' ps.nextUid = some p := by
  obtain ⟨_, _, _, _, _, _, hcase⟩ := PSend.emit_cases ps ps' f _ h
  rcases hcase with ⟨hc, _⟩ | ⟨_, _, p', _, w, _, hr, _, hpu, _, _, _, _, _, _, hwp, _, hwin, _, _⟩
  · cases hc
  · simp only [Option.some.injEq, Prod.mk.injEq] at hr
    obtain ⟨rfl, _⟩ := hr
    simp only [PSend.findPacket, hwin, List.find?_append]
    have h1 : List.find? (fun e => decide (e.packet.uid = ps.nextUid)) ps.win = none := by
      rw [List.find?_eq_none]
      intro x hx
      have := hu x hx
      simp only [decide_eq_true_eq]
      omega
    rw [h1, Option.none_or]
    simp [hwp, hpu]

/-- The outer pending loop. -/
theorem pendingOuter_cases (fuel : Nat) (e e' : Emit F) (st : Option Stage) (hip : e.inProg = none)
    (hA : 0 ≤ e.s.flushAlloc) (hcp : FrameQ.canPush e.s.fq = true) (hu : UidLt e.s.ps)
    (h : pendingOuter fuel e = .ok (e', st)) :
    (∃ dg, Post dg e' st) ∨
    (PendQuiet e.s.ps e.s.flushId e.s.pending ∧ EmitNone e.s.ps e.s.flushId) := by
  induction fuel generalizing e with
  | zero => simp [pendingOuter] at h
  | succ m ih =>
    cases h0 : e.s.pending with
    | nil =>
      cases hem : PSend.emit e.s.ps e.s.flushId with
      | error t =>
        rw [pendingOuter_eq] at h
        simp only [refill, h0, List.isEmpty_nil, if_true, hem] at h
        cases h
      | ok v =>
        obtain ⟨ps', r⟩ := v
        cases r with
        | none =>
          refine .inr ⟨.nil, fun ps'' p resend hc => ?_⟩
          rw [hem] at hc
          simp at hc
        | some pr =>
          obtain ⟨p, resend⟩ := pr
          left
          obtain ⟨hpu, hack, hexp⟩ := emit_not_expired _ _ _ _ _ hem
          have hfind := findPacket_emit_new_lt _ _ _ _ _ hu hem
          rw [← hpu] at hfind
          obtain ⟨ents, hents⟩ : ∃ ents : List PEntry, ents =
              (List.range (p.lastFragmentId + 1)).map
                (fun i => ({ uid := p.uid, fid := i, resend := resend } : PEntry)) := ⟨_, rfl⟩
          have hent : ents = ({ uid := p.uid, fid := 0, resend := resend } : PEntry) ::
                ((List.range p.lastFragmentId).map Nat.succ).map
                  (fun i => ({ uid := p.uid, fid := i, resend := resend } : PEntry)) := by
            rw [hents, List.range_succ_eq_map]
            rfl
          have href : refill e =
              .ok ({ e with s := { e.s with ps := ps', pending := ents } }, true) := by
            simp only [refill, h0, List.isEmpty_nil, if_true, hem, hents]
          obtain ⟨dg, _, hp⟩ := outer_first m e _ e' st { uid := p.uid, fid := 0, resend := resend }
            _ p href hip hA hcp hent hfind (by rw [hack]; simp) (by simp [hexp]) h
          exact ⟨dg, hp⟩
    | cons entry rest =>
      have href : refill e = .ok (e, true) := by
        simp only [refill, h0, List.isEmpty_cons, Bool.false_eq_true, if_false]
      rw [pendingOuter_eq, href] at h
      simp only at h
      generalize hin : pendingInner (e.s.pending.length + 2) e = r at h
      rcases r with t | ⟨e2, st2⟩
      · cases h
      · rcases pendingInner_cases _ e e2 st2 hip hA hcp hin with ⟨dg, hp⟩ | ⟨hq, hst, hsame, hpend⟩
        · left
          cases st2 with
          | none =>
            simp only at h
            exact ⟨dg, pendingOuter_car dg m e2 e' st hp.1 h⟩
          | some st0 =>
            simp only [Except.ok.injEq, Prod.mk.injEq] at h
            obtain ⟨rfl, rfl⟩ := h
            exact ⟨dg, hp⟩
        · subst hst
          simp only at h
          obtain ⟨s1, _, s3, s4, s5, s6⟩ := hsame
          rcases ih e2 s1 (by rw [s5]; exact hA) (by rw [s4]; exact hcp) (by rw [s3]; exact hu) h
            with hp | ⟨_, hen⟩
          · exact .inl hp
          · rw [h0] at hq
            exact .inr ⟨hq, by rw [s3, s6] at hen; exact hen⟩

/-- The data stage: a fragment is carried by a data frame of the output, or the stage is `Quiet`. -/
theorem emitDataFrames_cases (s s' : State F) (out : List (List Nat)) (st : Stage)
    (hA : 0 ≤ s.flushAlloc) (hcp : FrameQ.canPush s.fq = true) (hu : UidLt s.ps)
    (h : emitDataFrames s = .ok (s', out, st)) : (∃ dg, DataIn dg out) ∨ Quiet s := by
  rw [emitDataFrames_eq] at h
  generalize hr : resendLoop _ ({ s := s, inProg := none, out := [] } : Emit F) = r at h
  rcases r with t | ⟨e1, st1⟩
  · cases h
  · rcases resendLoop_cases _ _ e1 st1 rfl hA hcp hr with ⟨dg, hp⟩ | ⟨hq, hst, hsame, hpend⟩
    · exact .inl ⟨dg, dataTail_car dg e1 st1 s' out st hp h⟩
    · subst hst
      simp only at h
      obtain ⟨s1, _, s3, s4, s5, s6⟩ := hsame
      generalize hpo : pendingOuter _ e1 = r2 at h
      rcases r2 with t | ⟨e2, st2⟩
      · cases h
      · rcases pendingOuter_cases _ e1 e2 st2 s1 (by rw [s5]; exact hA) (by rw [s4]; exact hcp)
          (by rw [s3]; exact hu) hpo with ⟨dg, hp⟩ | ⟨hpq, hen⟩
        · exact .inl ⟨dg, result_car dg _ e2 st2 s' out st rfl hp h⟩
        · rw [s3, s6, hpend] at hpq
          rw [s3, s6] at hen
          exact .inr ⟨hq, hpq, hen⟩

/-- **`flush`**: a successful flush whose ack stage passes with credit and whose frame window is
open either hands the sink a data frame, or the data stage was `Quiet`. -/
theorem flush_cases (s s' : State F) (out : List (List Nat)) (hack : AckPassed s)
    (hcp : FrameQ.canPush s.fq = true) (hu : UidLt s.ps) (h : flush s = .ok (s', out)) :
    (∃ dg, DataIn dg out) ∨ Quiet s := by
  obtain ⟨t1, t2, t3, t4, _, t6⟩ := emitAckFrames_tx s
  have hfq := emitAckFrames_fq s
  obtain ⟨s2, out2, st, hd, hsub⟩ := flush_stage s s' out hack h
  rcases emitDataFrames_cases _ s2 out2 st hack.2 (by rw [hfq]; exact hcp) (by rw [t1]; exact hu) hd
    with ⟨dg, hin⟩ | hq
  · exact .inl ⟨dg, hsub dg hin⟩
  · unfold Quiet at hq ⊢
    rw [t1, t2, t3, t4, t6] at hq
    exact .inr hq

end Uflow.NoStall
