import Uflow.Model.HalfConn
import Uflow.Lemmas.FragFrame
import Uflow.Lemmas.PSendEmit

/-!
Helper lemmas for C13 (leaky-bucket credit): the debit relation `Debit` between the credit before
and after an emitter and the frames it appended, proved for `emitAckFrames`, `emitSyncFrame`,
`emitDataFrames` and composed for `flush`.
-/

namespace Uflow.Credit

open Uflow Uflow.Gen Uflow.Codec Uflow.HalfConn Uflow.Frag

/-- Total number of bytes of a list of frames. -/
def bytes (out : List (List Nat)) : Nat := (out.map List.length).sum

@[simp] theorem bytes_nil : bytes [] = 0 := rfl

theorem bytes_append (a b : List (List Nat)) : bytes (a ++ b) = bytes a + bytes b := by
  simp [bytes, List.map_append]

theorem bytes_singleton (f : List Nat) : bytes [f] = f.length := by
  simp [bytes]

/-- The debit relation: starting with credit `A`, an emitter appended the frames `out` and left
credit `A'`.
* every emitted byte is debited exactly once;
* nothing is emitted when the credit is negative;
* a non-negative credit never drops below minus one maximal frame;
* every frame fits `MAX_FRAME_SIZE`
(the last two under the side condition `b`, see `PsOk`). -/
def Debit (b : Prop) (A A' : Int) (out : List (List Nat)) : Prop :=
  A' = A - (bytes out : Int) ∧ (A < 0 → out = []) ∧ (b → 0 ≤ A → -(MAX_FRAME_SIZE : Int) ≤ A') ∧
  (b → ∀ f ∈ out, f.length ≤ MAX_FRAME_SIZE)

theorem Debit.refl (b : Prop) (A : Int) : Debit b A A [] := by
  refine ⟨by simp, fun _ => rfl, fun _ h => ?_, fun _ f hf => by cases hf⟩
  simp only [MAX_FRAME_SIZE]; omega

theorem Debit.trans {b : Prop} {A A1 A2 : Int} {o1 o2 : List (List Nat)}
    (h1 : Debit b A A1 o1) (h2 : Debit b A1 A2 o2) : Debit b A A2 (o1 ++ o2) := by
  obtain ⟨e1, n1, l1, f1⟩ := h1
  obtain ⟨e2, n2, l2, f2⟩ := h2
  refine ⟨?_, ?_, ?_, ?_⟩
  · rw [bytes_append]; omega
  · intro hA
    have h1 := n1 hA
    subst h1
    simp only [bytes_nil] at e1
    have : A1 < 0 := by omega
    rw [n2 this]; rfl
  · intro hb hA
    have hl := l1 hb hA
    by_cases hA1 : 0 ≤ A1
    · exact l2 hb hA1
    · have : A1 < 0 := by omega
      have := n2 this
      subst this
      simp only [bytes_nil] at e2
      omega
  · intro hb f hf
    rcases List.mem_append.mp hf with hf | hf
    · exact f1 hb f hf
    · exact f2 hb f hf

/-- One frame of at most `MAX_FRAME_SIZE` bytes, started with non-negative credit. -/
theorem Debit.single {b : Prop} {A : Int} (f : List Nat) (hA : 0 ≤ A)
    (hf : b → f.length ≤ MAX_FRAME_SIZE) : Debit b A (A - (f.length : Int)) [f] := by
  refine ⟨by rw [bytes_singleton], fun h => by omega, fun hb _ => ?_, fun hb g hg => ?_⟩
  · have := hf hb
    simp only [MAX_FRAME_SIZE] at *; omega
  · simp only [List.mem_singleton] at hg
    subst hg
    exact hf hb

theorem Debit.le {b : Prop} {A A' : Int} {o : List (List Nat)} (h : Debit b A A' o) : A' ≤ A := by
  have := h.1; omega

theorem Debit.neg {b : Prop} {A A' : Int} {o : List (List Nat)} (h : Debit b A A' o) (hA : A < 0) :
    o = [] ∧ A' = A := by
  have ho := h.2.1 hA
  subst ho
  exact ⟨rfl, by have := h.1; simpa using this⟩

theorem Debit.floor {b : Prop} {A A' : Int} {o : List (List Nat)} (h : Debit b A A' o) (hb : b)
    (hA : -(MAX_FRAME_SIZE : Int) ≤ A) : -(MAX_FRAME_SIZE : Int) ≤ A' := by
  by_cases h0 : 0 ≤ A
  · exact h.2.2.1 hb h0
  · have := (h.neg (by omega)).2
    omega

/-! ### sync frames -/

theorem length_encode_sync (a b : Option Nat) : (encode (.sync a b)).length = 14 := by
  simp [encode, withCrc, encodeBody, be32]

theorem emitSyncFrame_debit {F : Type} (b : Prop) (s s' : State F) (out : List (List Nat))
    (st : Stage) (h : emitSyncFrame s = .ok (s', out, st)) :
    Debit b s.flushAlloc s'.flushAlloc out := by
  simp only [emitSyncFrame] at h
  repeat' split at h
  all_goals first
    | cases h; exact Debit.refl _ _
    | cases h; exact Debit.single _ (by omega) (fun _ => by rw [length_encode_sync]; simp only [MAX_FRAME_SIZE]; omega)
    | cases h

/-! ### ack frames -/

theorem length_encode_ack (fb pb : Nat) (gs : List AckGroup) :
    (encode (.ack fb pb gs)).length = 15 + 9 * gs.length := by
  have : ∀ gs : List AckGroup, (gs.flatMap encodeAckGroup).length = 9 * gs.length := by
    intro gs
    induction gs with
    | nil => rfl
    | cons g gs ih =>
      simp only [List.flatMap_cons, List.length_append, ih, encodeAckGroup, be32, List.length_cons,
        List.length_nil]
      omega
  simp only [encode, withCrc, encodeBody, be32, be16, List.length_append, List.length_cons,
    List.length_nil, this]
  omega

theorem ackProg_size (a : AckProg) : a.size = 15 + 9 * a.groups.length := by
  simp only [AckProg.size, FRAME_OVERHEAD, ACK_FRAME_PAYLOAD_HEADER_SIZE, ACK_GROUP_SIZE]

/-- The `fin` closure of `emitAckFrames`. -/
def ackFin {F : Type} (fbase pbase : Nat) (s : State F) (ip : Option AckProg)
    (out : List (List Nat)) : State F × List (List Nat) :=
  match ip with
  | none => (s, out)
  | some a =>
    let bytes := encode (.ack fbase pbase a.groups)
    ({ s with flushAlloc := s.flushAlloc - bytes.length, syncReply := false }, out ++ [bytes])

theorem emitAckFrames_eq {F : Type} (s : State F) :
    emitAckFrames s =
      if s.syncReply ∧ s.flushAlloc < 0 then (s, [], .stop) else
      emitAckFrames.loop (ackFin s.aq.baseId s.pr.baseId) (s.aq.entries.length + 2) s
        (if s.syncReply then some { groups := [] } else none) [] := rfl

/-- Invariant of the in-progress ack frame: it was started with non-negative credit (which has not
changed since) and fits a frame. -/
def AckOk {F : Type} (s : State F) (ip : Option AckProg) : Prop :=
  ∀ a, ip = some a → 0 ≤ s.flushAlloc ∧ a.size ≤ MAX_FRAME_SIZE

theorem ackFin_debit {F : Type} (b : Prop) (fb pb : Nat) (s : State F) (ip : Option AckProg)
    (out : List (List Nat)) (hok : AckOk s ip) :
    ∃ add, (ackFin fb pb s ip out).2 = out ++ add ∧
      Debit b s.flushAlloc (ackFin fb pb s ip out).1.flushAlloc add := by
  cases ip with
  | none => exact ⟨[], by simp [ackFin], Debit.refl _ _⟩
  | some a =>
    obtain ⟨h0, hsz⟩ := hok a rfl
    refine ⟨[encode (.ack fb pb a.groups)], rfl, ?_⟩
    simp only [ackFin]
    refine Debit.single _ h0 (fun _ => ?_)
    rw [length_encode_ack, ← ackProg_size]
    exact hsz

theorem ackLoop_debit {F : Type} (b : Prop) (fb pb : Nat) (fuel : Nat) (s : State F)
    (ip : Option AckProg) (out : List (List Nat)) (hok : AckOk s ip) :
    ∃ add, (emitAckFrames.loop (ackFin fb pb) fuel s ip out).2.1 = out ++ add ∧
      Debit b s.flushAlloc (emitAckFrames.loop (ackFin fb pb) fuel s ip out).1.flushAlloc add := by
  induction fuel generalizing s ip out with
  | zero => exact ⟨[], by simp [emitAckFrames.loop], by simp only [emitAckFrames.loop]; exact Debit.refl _ _⟩
  | succ n ih =>
    simp only [emitAckFrames.loop]
    split
    · -- no more ack groups
      obtain ⟨add, h1, h2⟩ := ackFin_debit b fb pb s ip out hok
      exact ⟨add, h1, h2⟩
    · rename_i g rest hent
      split
      · rename_i a
        obtain ⟨h0, hsz⟩ := hok a rfl
        split
        · obtain ⟨add, h1, h2⟩ := ackFin_debit b fb pb s (some a) out hok
          exact ⟨add, h1, h2⟩
        · split
          · obtain ⟨add, h1, h2⟩ := ackFin_debit b fb pb s (some a) out hok
            split
            · exact ⟨add, h1, h2⟩
            · rename_i hnn
              have hok' : AckOk ({ (ackFin fb pb s (some a) out).1 with
                  aq := { (ackFin fb pb s (some a) out).1.aq with entries := rest } })
                  (some { groups := [g] }) := by
                intro a' ha'
                cases ha'
                refine ⟨by simpa using hnn, ?_⟩
                rw [ackProg_size]; simp only [MAX_FRAME_SIZE, List.length_cons, List.length_nil]; omega
              obtain ⟨add', h1', h2'⟩ := ih _ _ (ackFin fb pb s (some a) out).2 hok'
              refine ⟨add ++ add', ?_, Debit.trans h2 h2'⟩
              rw [h1', h1, List.append_assoc]
          · rename_i hfit
            have hok' : AckOk ({ s with aq := { s.aq with entries := rest } })
                (some { groups := a.groups ++ [g] }) := by
              intro a' ha'
              cases ha'
              refine ⟨h0, ?_⟩
              rw [ackProg_size] at hfit ⊢
              simp only [MAX_FRAME_SIZE, ACK_GROUP_SIZE, List.length_append, List.length_cons,
                List.length_nil] at hfit ⊢
              omega
            exact ih _ _ out hok'
      · split
        · exact ⟨[], by simp, Debit.refl _ _⟩
        · rename_i hnn
          have hok' : AckOk ({ s with aq := { s.aq with entries := rest } })
              (some { groups := [g] }) := by
            intro a' ha'
            cases ha'
            refine ⟨by simpa using hnn, ?_⟩
            rw [ackProg_size]; simp only [MAX_FRAME_SIZE, List.length_cons, List.length_nil]; omega
          exact ih _ _ out hok'

theorem emitAckFrames_debit {F : Type} (b : Prop) (s s' : State F) (out : List (List Nat))
    (st : Stage) (h : emitAckFrames s = (s', out, st)) : Debit b s.flushAlloc s'.flushAlloc out := by
  rw [emitAckFrames_eq] at h
  split at h
  · cases h; exact Debit.refl _ _
  · rename_i hc
    have hok : AckOk s (if s.syncReply then some { groups := [] } else none) := by
      intro a ha
      split at ha
      · rename_i hsr
        cases ha
        refine ⟨?_, by rw [ackProg_size]; simp only [MAX_FRAME_SIZE, List.length_nil]; omega⟩
        have : ¬ s.flushAlloc < 0 := fun hlt => hc ⟨hsr, hlt⟩
        omega
      · cases ha
    obtain ⟨add, h1, h2⟩ := ackLoop_debit b s.aq.baseId s.pr.baseId (s.aq.entries.length + 2) s _ [] hok
    rw [h] at h1 h2
    simp only [List.nil_append] at h1
    subst h1
    exact h2

/-! ### data frames -/

/-- A pending packet whose last fragment is at most one fragment long. -/
def PktOk (p : PSend.Pending) : Prop := p.data.length ≤ (p.lastFragmentId + 1) * 1448

/-- Sender well-formedness: the packets in the window slice into fragments of at most 1448 bytes,
the queued packets are within `MAX_PACKET_SIZE` (the precondition of `Endpoint::send`). -/
def PsOk (ps : PSend.State) : Prop :=
  (∀ w ∈ ps.win, PktOk w.packet) ∧ (∀ q ∈ ps.queue, q.data.length ≤ MAX_PACKET_SIZE)

theorem datagram_length_le (p : PSend.Pending) (hp : PktOk p) (fid : Nat) (dg : Datagram)
    (h : p.datagram fid = .ok dg) : dg.data.length ≤ 1448 := by
  simp only [PSend.Pending.datagram, MAX_FRAGMENT_SIZE] at h
  simp only [PktOk] at hp
  split at h
  · rename_i hf
    split at h
    · cases h
    · cases h
      simp only [List.length_drop]
      subst hf
      rw [Nat.add_mul] at hp
      omega
  · split at h
    · cases h
    · cases h
      simp only [List.length_take]
      omega

theorem findPacket_mem (ps : PSend.State) (uid : Nat) (p : PSend.Pending)
    (h : PSend.findPacket ps uid = some p) : ∃ w ∈ ps.win, w.packet = p := by
  simp only [PSend.findPacket, Option.map_eq_some_iff] at h
  obtain ⟨w, hw, rfl⟩ := h
  exact ⟨w, List.mem_of_find?_eq_some hw, rfl⟩

theorem findPacket_ok (ps : PSend.State) (hps : PsOk ps) (uid : Nat) (p : PSend.Pending)
    (h : PSend.findPacket ps uid = some p) : PktOk p := by
  obtain ⟨w, hw, rfl⟩ := findPacket_mem ps uid p h
  exact hps.1 w hw

/-- Credit invariant of the data frame emitter relative to the credit `A0` at its start: the frames
sent so far are debited; an in-progress frame was started with non-negative credit (unchanged
since) and fits `MAX_FRAME_SIZE`. -/
def DInv {F : Type} (b : Prop) (A0 : Int) (e : Emit F) : Prop :=
  Debit b A0 e.s.flushAlloc e.out ∧ (∀ ip, e.inProg = some ip → 0 ≤ e.s.flushAlloc ∧ (b → IpOk ip))

theorem dfeFinalize_ps {F : Type} (e : Emit F) : (dfeFinalize e).s.ps = e.s.ps := by
  cases h : e.inProg <;> simp [dfeFinalize, h]

theorem dfeFinalize_dinv {F : Type} (b : Prop) (A0 : Int) (e : Emit F) (h : DInv b A0 e) :
    DInv b A0 (dfeFinalize e) ∧ (dfeFinalize e).inProg = none := by
  refine ⟨?_, dfeFinalize_inProg e⟩
  obtain ⟨hd, hip⟩ := h
  simp only [dfeFinalize]
  split
  · exact ⟨hd, hip⟩
  · rename_i ip hipe
    obtain ⟨h0, hok⟩ := hip ip hipe
    refine ⟨?_, fun ip' h' => by cases h'⟩
    refine Debit.trans hd (Debit.single _ h0 (fun hb => ?_))
    rw [ipOk_frame_length ip (hok hb)]
    exact (hok hb).2.1

/-- `dfePush` does not touch the sender state. -/
theorem dfePush_ps {F : Type} (e e' : Emit F) (p : PSend.Pending) (fid : Nat) (resend : Bool)
    (r : Option PushErr) (h : dfePush e p fid resend = .ok (e', r)) : e'.s.ps = e.s.ps := by
  have hf := dfeFinalize_ps e
  simp only [dfePush] at h
  split at h
  · cases h
  · repeat' split at h
    all_goals first
      | (cases h; first | rfl | exact hf)
      | cases h

theorem dfePush_dinv {F : Type} (b : Prop) (A0 : Int) (e e' : Emit F) (p : PSend.Pending)
    (fid : Nat) (resend : Bool) (r : Option PushErr) (hp : b → PktOk p) (hi : DInv b A0 e)
    (h : dfePush e p fid resend = .ok (e', r)) : DInv b A0 e' := by
  obtain ⟨hfd, hfn⟩ := dfeFinalize_dinv b A0 e hi
  have hfin : DInv b A0 (dfeFinalize e) := hfd
  obtain ⟨hfd1, hfd2⟩ := hfd
  obtain ⟨hd, hip⟩ := hi
  simp only [dfePush] at h
  split at h
  · cases h
  · rename_i dg hdg
    have hlen := fun hb => datagram_length_le p (hp hb) fid dg hdg
    split at h
    · rename_i ip hipe
      obtain ⟨h0, hok⟩ := hip ip hipe
      split at h
      · cases h
        exact ⟨hfd1, fun ip' h' => by rw [hfn] at h'; cases h'⟩
      · split at h
        · split at h
          · cases h
            exact ⟨hfd1, fun ip' h' => by rw [hfn] at h'; cases h'⟩
          · split at h
            · cases h; exact hfin
            · rename_i hnn _
              cases h
              refine ⟨hfd1, fun ip' h' => ?_⟩
              cases h'
              exact ⟨by show 0 ≤ (dfeFinalize e).s.flushAlloc; omega,
                fun hb => ipOk_single dg _ _ _ (hlen hb)⟩
        · rename_i hfit
          cases h
          refine ⟨hd, fun ip' h' => ?_⟩
          cases h'
          refine ⟨h0, fun hb => ?_⟩
          obtain ⟨h1, h2, h3⟩ := hok hb
          refine ⟨?_, ?_, ?_⟩
          · simp only [List.map_append, List.sum_append_nat, List.map_cons, List.map_nil,
              List.sum_cons, List.sum_nil]
            omega
          · simp only [not_or, Nat.not_lt] at hfit
            exact hfit.1
          · intro d hd'
            simp only [List.mem_append, List.mem_singleton] at hd'
            rcases hd' with hd' | rfl
            · exact h3 d hd'
            · exact hlen hb
    · rename_i hipe
      split at h
      · cases h
        exact ⟨hd, fun ip' h' => by rw [hipe] at h'; cases h'⟩
      · split at h
        · cases h; exact ⟨hd, hip⟩
        · rename_i hnn _
          cases h
          refine ⟨hd, fun ip' h' => ?_⟩
          cases h'
          exact ⟨by show 0 ≤ e.s.flushAlloc; omega, fun hb => ipOk_single dg _ _ _ (hlen hb)⟩

/-- The loop invariant of `emit_data_frames`. -/
def LoopInv {F : Type} (b : Prop) (A0 : Int) (e : Emit F) : Prop :=
  DInv b A0 e ∧ (b → PsOk e.s.ps)

theorem dfePush_loopInv {F : Type} (b : Prop) (A0 : Int) (e e' : Emit F) (p : PSend.Pending)
    (uid fid : Nat) (resend : Bool) (r : Option PushErr)
    (hf : PSend.findPacket e.s.ps uid = some p)
    (hi : LoopInv b A0 e) (h : dfePush e p fid resend = .ok (e', r)) : LoopInv b A0 e' :=
  ⟨dfePush_dinv b A0 e e' p fid resend r (fun hb => findPacket_ok _ (hi.2 hb) uid p hf) hi.1 h,
   by rw [dfePush_ps e e' p fid resend r h]; exact hi.2⟩

theorem resendLoop_inv {F : Type} (b : Prop) (A0 : Int) (fuel : Nat) (e e' : Emit F)
    (st : Option Stage) (hi : LoopInv b A0 e) (h : resendLoop fuel e = .ok (e', st)) :
    LoopInv b A0 e' := by
  induction fuel generalizing e with
  | zero => simp [resendLoop] at h
  | succ n ih =>
    unfold resendLoop at h
    split at h
    · cases h; exact hi
    · rename_i entry _
      have hpop : LoopInv b A0 (match heapPop e.s.resend with
          | some (_, hh) => { e with s := { e.s with resend := hh } }
          | none => e) := by
        split <;> exact hi
      simp only at h
      split at h
      · exact ih _ hpop h
      · rename_i p hfp
        split at h
        · exact ih _ hpop h
        · split at h
          · cases h; exact hi
          · split at h
            · cases h
            · rename_i e1 hpush
              cases h
              exact dfePush_loopInv b A0 e _ p _ _ _ _ hfp hi hpush
            · rename_i e1 hpush
              cases h
              exact dfePush_loopInv b A0 e _ p _ _ _ _ hfp hi hpush
            · rename_i e1 hpush
              have h1 := dfePush_loopInv b A0 e _ p _ _ _ _ hfp hi hpush
              split at h
              · cases h
              · refine ih _ ?_ h
                exact h1

theorem pendingInner_inv {F : Type} (b : Prop) (A0 : Int) (fuel : Nat) (e e' : Emit F)
    (st : Option Stage) (hi : LoopInv b A0 e) (h : pendingInner fuel e = .ok (e', st)) :
    LoopInv b A0 e' := by
  induction fuel generalizing e with
  | zero => simp [pendingInner] at h
  | succ n ih =>
    unfold pendingInner at h
    split at h
    · cases h; exact hi
    · rename_i entry rest _
      split at h
      · refine ih _ ?_ h
        exact hi
      · rename_i p hfp
        split at h
        · refine ih _ ?_ h
          exact hi
        · split at h
          · refine ih _ ?_ h
            exact hi
          · split at h
            · cases h
            · rename_i e1 hpush
              cases h
              exact dfePush_loopInv b A0 e _ p _ _ _ _ hfp hi hpush
            · rename_i e1 hpush
              cases h
              exact dfePush_loopInv b A0 e _ p _ _ _ _ hfp hi hpush
            · rename_i e1 hpush
              have h1 := dfePush_loopInv b A0 e _ p _ _ _ _ hfp hi hpush
              refine ih _ ?_ h
              simp only
              split <;> exact h1

theorem emit_psOk (ps ps' : PSend.State) (f : Nat) (r : Option (PSend.Pending × Bool))
    (hps : PsOk ps) (h : PSend.emit ps f = .ok (ps', r)) : PsOk ps' := by
  obtain ⟨dropped, queue, total, _, hq, _, hcase⟩ := PSend.emit_cases ps ps' f r h
  have hsub : ∀ x ∈ queue, x.data.length ≤ MAX_PACKET_SIZE := fun x hx =>
    hps.2 x (by rw [hq]; exact List.mem_append_right _ hx)
  rcases hcase with ⟨_, rfl⟩ | ⟨q, rest, p, resend, w, hqq, _, _, _, hdata, _, _, hlast, _, _, hw, hq', hwin, _, _⟩
  · exact ⟨hps.1, hsub⟩
  · refine ⟨?_, ?_⟩
    · intro x hx
      rw [hwin, List.mem_append, List.mem_singleton] at hx
      rcases hx with hx | rfl
      · exact hps.1 x hx
      · rw [hw]
        simp only [PktOk, hdata]
        exact PSend.emit_pkt_bound _ _ (hsub q (by rw [hqq]; simp)) hlast
    · intro x hx
      rw [hq'] at hx
      exact hsub x (by rw [hqq]; exact List.mem_cons_of_mem _ hx)

theorem pendingOuter_inv {F : Type} (b : Prop) (A0 : Int) (fuel : Nat) (e e' : Emit F)
    (st : Option Stage) (hi : LoopInv b A0 e) (h : pendingOuter fuel e = .ok (e', st)) :
    LoopInv b A0 e' := by
  induction fuel generalizing e with
  | zero => simp [pendingOuter] at h
  | succ n ih =>
    unfold pendingOuter at h
    simp only at h
    split at h
    · cases h
    · rename_i e1 href
      cases h
      -- refill returned `false`
      split at href
      · split at href
        · cases href
        · rename_i ps hem
          cases href
          exact ⟨hi.1, fun hb => emit_psOk _ _ _ _ (hi.2 hb) hem⟩
        · cases href
      · cases href
    · rename_i e1 href
      have h1 : LoopInv b A0 e1 := by
        split at href
        · split at href
          · cases href
          · cases href
          · rename_i ps p resend hem
            cases href
            exact ⟨hi.1, fun hb => emit_psOk _ _ _ _ (hi.2 hb) hem⟩
        · cases href
          exact hi
      split at h
      · cases h
      · rename_i e2 st2 hin
        cases h
        exact pendingInner_inv b A0 _ e1 _ _ h1 hin
      · rename_i e2 hin
        exact ih _ (pendingInner_inv b A0 _ e1 _ _ h1 hin) h

/-- `emit_data_frames` debits exactly what it sends and keeps the sender well-formed. -/
theorem emitDataFrames_debit {F : Type} (b : Prop) (s s' : State F) (out : List (List Nat))
    (st : Stage) (hps : b → PsOk s.ps) (h : emitDataFrames s = .ok (s', out, st)) :
    Debit b s.flushAlloc s'.flushAlloc out ∧ (b → PsOk s'.ps) := by
  have h0 : LoopInv b s.flushAlloc ({ s := s, inProg := none, out := [] } : Emit F) :=
    ⟨⟨Debit.refl _ _, fun ip h' => by cases h'⟩, hps⟩
  unfold emitDataFrames at h
  simp only at h
  split at h
  · cases h
  · rename_i e1 st1 hr
    cases h
    have := resendLoop_inv _ _ _ _ _ _ h0 hr
    exact ⟨this.1.1, this.2⟩
  · rename_i e1 hr
    have h1 := resendLoop_inv _ _ _ _ _ _ h0 hr
    split at h
    · cases h
    · rename_i e2 st2 hp
      cases h
      have := pendingOuter_inv _ _ _ _ _ _ h1 hp
      exact ⟨this.1.1, this.2⟩
    · rename_i e2 hp
      cases h
      have h2 := pendingOuter_inv _ _ _ _ _ _ h1 hp
      refine ⟨(dfeFinalize_dinv _ _ e2 h2.1).1.1, ?_⟩
      rw [dfeFinalize_ps]
      exact h2.2

theorem emitAckFrames_ps {F : Type} (s : State F) : (emitAckFrames s).1.ps = s.ps := by
  have hfin : ∀ (fb pb : Nat) (s : State F) ip out, (ackFin fb pb s ip out).1.ps = s.ps := by
    intro fb pb s ip out
    cases ip <;> rfl
  have hloop : ∀ (fb pb fuel : Nat) (s : State F) ip out,
      (emitAckFrames.loop (ackFin fb pb) fuel s ip out).1.ps = s.ps := by
    intro fb pb fuel
    induction fuel with
    | zero => intro s ip out; rfl
    | succ n ih =>
      intro s ip out
      simp only [emitAckFrames.loop]
      repeat' split
      all_goals first
        | rfl
        | exact hfin _ _ _ _ _
        | (rw [ih]; try first | rfl | exact hfin _ _ _ _ _)
  rw [emitAckFrames_eq]
  split
  · rfl
  · exact hloop _ _ _ _ _ _

theorem emitSyncFrame_ps {F : Type} (s s' : State F) (out : List (List Nat)) (st : Stage)
    (h : emitSyncFrame s = .ok (s', out, st)) : s'.ps = s.ps := by
  simp only [emitSyncFrame] at h
  repeat' split at h
  all_goals first
    | cases h; rfl
    | cases h

/-- `flush`: the debit relation between the credit before and after and the frames handed to the
sink, and preservation of sender well-formedness. -/
theorem flush_debit {F : Type} (b : Prop) (s s' : State F) (out : List (List Nat))
    (hps : b → PsOk s.ps) (h : flush s = .ok (s', out)) :
    Debit b s.flushAlloc s'.flushAlloc out ∧ (b → PsOk s'.ps) := by
  unfold flush at h
  have hack := emitAckFrames_debit b s (emitAckFrames s).1 (emitAckFrames s).2.1 (emitAckFrames s).2.2 rfl
  have hackps := emitAckFrames_ps s
  generalize emitAckFrames s = r at h hack hackps
  obtain ⟨s1, out1, st1⟩ := r
  simp only at h hack hackps
  split at h
  · cases h
    exact ⟨hack, by rw [hackps]; exact hps⟩
  · split at h
    · cases h
    · rename_i s2 out2 st2 hd
      obtain ⟨hdat, hps2⟩ := emitDataFrames_debit b s1 s2 out2 st2 (by rw [hackps]; exact hps) hd
      split at h
      · cases h
        exact ⟨hack.trans hdat, hps2⟩
      · split at h
        · cases h
        · rename_i s3 out3 st3 hsy
          cases h
          refine ⟨(hack.trans hdat).trans (emitSyncFrame_debit _ _ _ _ _ hsy), ?_⟩
          rw [emitSyncFrame_ps _ _ _ _ hsy]
          exact hps2

end Uflow.Credit
