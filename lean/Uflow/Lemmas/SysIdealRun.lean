import Uflow.Lemmas.SysIdealRecv

/-!
The ideal network (C05Sys), part 6: the invariant `IInv` along every ideal run.
-/

namespace Uflow.Sys

open Uflow Uflow.Gen Uflow.Codec Uflow.PSend Uflow.PRecv Uflow.Frag

/-- Steps that leave the ghost lists and the receiver alone. -/
theorem IInv.frame {b0 W : Nat} {s s' : Sys} {n : Nat} {q : Bool} {C f : Nat} (I : IInv b0 W s n q C f)
    (h1 : s'.pend = s.pend) (h2 : s'.net = s.net) (h3 : s'.rcv = s.rcv) : IInv b0 W s' n q C f := by
  refine ⟨?_, ?_, ?_, ?_, ?_, ?_, ?_, ?_, ?_, ?_, ?_, ?_⟩
  · rw [h1, h2]; exact I.net
  · rw [h1]; exact I.pos
  · rw [h1]; exact I.cle
  · rw [h1]; exact I.flt
  · rw [h1]; exact I.fz
  · rw [h3]; exact I.loguid
  · rw [h3]; exact I.advK
  · rw [h3]; exact I.kC
  · rw [h3]; exact I.settled
  · rw [h3]; exact I.ent
  · rw [h3]; exact I.fresh
  · rw [h1, h3]; exact I.part

/-- One more emitted packet. -/
theorem IInv.emit {b0 W : Nat} {s s' : Sys} {n : Nat} {q : Bool} {C f : Nat} (I : IInv b0 W s n q C f)
    (p : Pending) (h1 : s'.pend = s.pend ++ [p]) (h2 : s'.net = s.net ++ dgsOf s.pend.length p)
    (h3 : s'.rcv = s.rcv) : IInv b0 W s' n q C f := by
  have hcle := I.cle
  have hget : ∀ p0, (s.pend ++ [p])[C]? = some p0 → C < s.pend.length → s.pend[C]? = some p0 := by
    intro p0 hp0 hlt
    rw [List.getElem?_append_left hlt] at hp0
    exact hp0
  refine ⟨?_, ?_, ?_, ?_, ?_, ?_, ?_, ?_, ?_, ?_, ?_, ?_⟩
  · rw [h1, h2, netOf_append, I.net, Nat.zero_add]
  · rw [h1, List.take_append_of_le_length hcle]; exact I.pos
  · rw [h1, List.length_append, List.length_singleton]; omega
  · rw [h1]
    intro p0 hp0
    rcases Nat.lt_or_ge C s.pend.length with hlt | hge
    · exact I.flt p0 (hget p0 hp0 hlt)
    · have := I.fz (by omega)
      unfold cnt; omega
  · rw [h1, List.length_append, List.length_singleton]
    intro hc; omega
  · rw [h3]; exact I.loguid
  · rw [h3]; exact I.advK
  · rw [h3]; exact I.kC
  · rw [h3]; exact I.settled
  · rw [h3]; exact I.ent
  · rw [h3]; exact I.fresh
  · rw [h1, h3]
    intro hpos p0 hp0
    rcases Nat.lt_or_ge C s.pend.length with hlt | hge
    · exact I.part hpos p0 (hget p0 hp0 hlt)
    · have := I.fz (by omega)
      omega

/-- The steps other than `deliver`, `recv` and `resync`. -/
theorem iinv_other {b0 W : Nat} {s s' : Sys} {n : Nat} {q : Bool} {C f : Nat} (I : IInv b0 W s n q C f)
    (op : SOp) (hd : ∀ k, op ≠ .deliver k) (hr : op ≠ .recv) (hrs : ∀ k, op ≠ .resync k)
    (hs : stepS s op = .ok s') :
    IInv b0 W s' n q C f := by
  cases op with
  | recv => exact absurd rfl hr
  | deliver k => exact absurd rfl (hd k)
  | resync k => exact absurd rfl (hrs k)
  | sync =>
    simp only [stepS] at hs
    split at hs
    · cases hs; exact I.frame rfl rfl rfl
    · cases hs; exact I
  | enq d c m f0 =>
    simp only [stepS] at hs
    split at hs
    · simp only [stepH, bindR_ok] at hs
      cases hs
      exact I.frame rfl rfl rfl
    · cases hs; exact I
  | emit f0 =>
    simp only [stepS] at hs
    cases he : PSend.emit s.snd f0 with
    | error t =>
      have : stepH s.snd s.hist (.emit f0) = .error t := by simp only [stepH, he]
      rw [this] at hs; cases hs
    | ok r =>
      obtain ⟨s1, o⟩ := r
      cases o with
      | none =>
        have h1 : stepH s.snd s.hist (.emit f0) = .ok (s1, s.hist) := by simp only [stepH, he]
        have h2 : emitted? s.snd f0 = none := by simp only [emitted?, he]
        rw [h1, bindR_ok, h2] at hs
        simp only [Option.toList, List.append_nil, List.flatMap_nil] at hs
        cases hs
        exact I.frame rfl rfl rfl
      | some pr =>
        obtain ⟨pk, rs⟩ := pr
        have h1 : stepH s.snd s.hist (.emit f0) =
            .ok (s1, { s.hist with emitted := s.hist.emitted ++ [mkEmitted s.snd f0 pk] }) := by
          simp only [stepH, he]
        have h2 : emitted? s.snd f0 = some pk := by simp only [emitted?, he]
        rw [h1, bindR_ok, h2] at hs
        simp only [Option.toList, List.flatMap_cons, List.flatMap_nil, List.append_nil] at hs
        cases hs
        exact I.emit pk rfl rfl rfl
  | ack k =>
    simp only [stepS] at hs
    split at hs
    · cases hs; exact I
    · rename_i a rb hk
      split at hs
      · cases hr1 : stepH s.snd s.hist (.ack rb) with
        | error t => rw [hr1] at hs; cases hs
        | ok r =>
          rw [hr1, bindR_ok] at hs
          cases hs
          exact I.frame rfl rfl rfl
      · cases hs; exact I

/-- The invariants of ideal runs, together. -/
structure IdealSt (b0 w W M A : Nat) (s : Sys) (n : Nat) (q : Bool) : Prop where
  sinv : SInv b0 w W M s
  pinv : PInv W s
  ainv : AInv W A s
  iinv : ∃ C f, IInv b0 W s n q C f

theorem idealSt_run {b0 w W M A : Nat} (hW : WOk W) (hw : w ≤ 2^16) (hwW : w ≤ W) (hAM : A ≤ M)
    (ops : List SOp) : ∀ {s s' : Sys} {n : Nat} {q : Bool}, IdealSt b0 w W M A s n q →
      idealFrom s n ops = true → NoResync ops → runS s ops = .ok s' →
      IdealSt b0 w W M A s' (n + delivers ops) (settledFrom q ops) := by
  induction ops with
  | nil => intro s s' n q h _ _ hr; cases hr; exact h
  | cons op rest ih =>
    intro s s' n q h hid hnr hr
    have hnr' : NoResync rest := fun o ho => hnr o (List.mem_cons_of_mem _ ho)
    have hop : ∀ k, op ≠ .resync k := hnr op List.mem_cons_self
    rw [runS] at hr
    cases hs : stepS s op with
    | error t => rw [hs] at hr; cases hr
    | ok s1 =>
      rw [hs, bindR_ok] at hr
      have hsinv := sinv_step hW (show w < 2^20 by omega) h.sinv op hs
      have hpinv := pinv_step hW hw h.sinv h.pinv op hs
      have hainv := ainv_step hW hw hAM h.sinv h.pinv h.ainv op hs
      obtain ⟨C, f, I⟩ := h.iinv
      by_cases hdel : ∃ k, op = .deliver k
      · obtain ⟨k, rfl⟩ := hdel
        rw [idealFrom_cons_deliver, hs] at hid
        simp only [Bool.and_eq_true, beq_iff_eq, decide_eq_true_eq] at hid
        obtain ⟨⟨hk, hlt⟩, hrest⟩ := hid
        subst hk
        have hI := iinv_deliver hW hw hwW hAM h.sinv h.ainv I hlt hs
        have := ih (s := s1) (n := k + 1) (q := false) ⟨hsinv, hpinv, hainv, hI⟩ hrest hnr' hr
        show IdealSt b0 w W M A s' (k + (delivers rest + 1)) (settledFrom false rest)
        rw [show k + (delivers rest + 1) = k + 1 + delivers rest by omega]
        exact this
      · have hnd : ∀ k, op ≠ .deliver k := fun k hk => hdel ⟨k, hk⟩
        rw [idealFrom_cons_other s n op rest hnd, hs] at hid
        by_cases hrecv : op = .recv
        · subst hrecv
          have hI := iinv_recv hW hw hwW h.sinv h.pinv I hs
          exact ih (s := s1) (n := n) (q := true) ⟨hsinv, hpinv, hainv, ⟨C, f, hI⟩⟩ hid hnr' hr
        · have hI := iinv_other I op hnd hrecv hop hs
          have := ih (s := s1) (n := n) (q := q) ⟨hsinv, hpinv, hainv, ⟨C, f, hI⟩⟩ hid hnr' hr
          cases op with
          | deliver k => exact absurd rfl (hnd k)
          | recv => exact absurd rfl hrecv
          | enq d c m f0 => exact this
          | emit f0 => exact this
          | ack k => exact this
          | sync => exact this
          | resync k => exact absurd rfl (hop k)

theorem idealSt_init (w W b a m : Nat) (hW : 0 < W) (hb : b < 2^20) :
    IdealSt b w W (allocCeil m) (allocCeil a) (initS w W b a m) 0 true :=
  ⟨sinv_init w W b a m hW hb, pinv_init w W b a m, ainv_init w W b a m, ⟨0, 0, iinv_init w W b a m⟩⟩

end Uflow.Sys
