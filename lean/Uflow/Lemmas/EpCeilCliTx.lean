import Uflow.Lemmas.EpCeilRun

/-!
C13 (endpoints), client wire: the client invariant of `EpCeilCli.lean` with a per-connection invariant
indexed by the handshake values `(ln, n, r, al)`, by the datagrams `w` the client has sent since it
became active and by the nonces `ns` of the handshake ACKs among them.

The contract `HCOkX` lets `flush` extend `w` by the frames it returns and has a clause `ack` for the
handshake ACK with which an `Active` client answers a SYN-ACK carrying its nonce (`Client.handleFrame`,
`.synAck` in state `.active`; known finding F23): it extends `w` by the 9-byte datagram and `ns` by
the nonce, leaving the half connection untouched.

`CInvX ep Inv last T tx rx c`: `tx` is the log of all datagrams the client sent so far in the run,
`rx` the list of all datagrams handed to it so far. If the client is `Active` with local nonce `ln`,
then `rx = rx1 ++ b :: rx2` where `b` is THE SYN-ACK that activated it (it parses to
`synAck ln n r p al`), `tx = pre ++ hsAckBytes n :: post` where that datagram is the handshake ACK sent
at activation, and `Inv ln n r al post (saNonces ln rx2) h`: the nonces of the handshake ACKs sent
since are exactly those of the SYN-ACKs carrying `ln` that arrived after `b`, in order.
-/

namespace Uflow.EpCeil

open Uflow Uflow.Gen Uflow.Codec Uflow.HalfConn Uflow.Endpoint Uflow.EpNoTrap

/-! ### interleavings -/

/-- `Interleave a b w`: `w` is a merge of `a` and `b` (both in their order). -/
inductive Interleave {α : Type} : List α → List α → List α → Prop
  | nil : Interleave [] [] []
  | left (x : α) {a b w : List α} : Interleave a b w → Interleave (x :: a) b (x :: w)
  | right (y : α) {a b w : List α} : Interleave a b w → Interleave a (y :: b) (y :: w)

namespace Interleave

variable {α : Type}

theorem left_only : ∀ (a : List α), Interleave a [] a
  | [] => .nil
  | x :: a => .left x (left_only a)

theorem right_only : ∀ (b : List α), Interleave [] b b
  | [] => .nil
  | y :: b => .right y (right_only b)

theorem append {a b w a' b' w' : List α} (h : Interleave a b w) (h' : Interleave a' b' w') :
    Interleave (a ++ a') (b ++ b') (w ++ w') := by
  induction h with
  | nil => exact h'
  | left x _ ih => exact .left x ih
  | right y _ ih => exact .right y ih

theorem length_eq {a b w : List α} (h : Interleave a b w) : w.length = a.length + b.length := by
  induction h with
  | nil => rfl
  | left x _ ih => simp only [List.length_cons, ih]; omega
  | right y _ ih => simp only [List.length_cons, ih]; omega

/-- With nothing on the right, the merge is the left list. -/
theorem eq_of_right_nil {a w : List α} (h : Interleave a [] w) : w = a := by
  generalize hb : ([] : List α) = b at h
  induction h with
  | nil => rfl
  | left x _ ih => rw [ih hb]
  | right y _ _ => cases hb

theorem mem_iff {a b w : List α} (h : Interleave a b w) (x : α) : x ∈ w ↔ x ∈ a ∨ x ∈ b := by
  induction h with
  | nil => simp
  | left y _ ih => simp only [List.mem_cons, ih, or_assoc]
  | right y _ ih =>
    simp only [List.mem_cons, ih]
    constructor
    · rintro (h | h | h)
      · exact .inr (.inl h)
      · exact .inl h
      · exact .inr (.inr h)
    · rintro (h | h | h)
      · exact .inr (.inl h)
      · exact .inl h
      · exact .inr (.inr h)

/-- Filtering the merge by a predicate that holds on the right list and fails on the left one gives
back the two lists. -/
theorem filter_split {a b w : List α} (h : Interleave a b w) (p : α → Bool) (ha : ∀ x ∈ a, p x = false)
    (hb : ∀ x ∈ b, p x = true) : w.filter p = b ∧ w.filter (fun x => !p x) = a := by
  induction h with
  | nil => exact ⟨rfl, rfl⟩
  | left x _ ih =>
    have hx := ha x List.mem_cons_self
    obtain ⟨i1, i2⟩ := ih (fun y hy => ha y (List.mem_cons_of_mem _ hy)) hb
    simp [hx, i1, i2]
  | right y _ ih =>
    have hy := hb y List.mem_cons_self
    obtain ⟨i1, i2⟩ := ih ha (fun z hz => hb z (List.mem_cons_of_mem _ hz))
    simp [hy, i1, i2]

/-- Byte count of a merge of datagram lists. -/
theorem bytes_eq {a b w : List (List Nat)} (h : Interleave a b w) :
    Credit.bytes w = Credit.bytes a + Credit.bytes b := by
  induction h with
  | nil => rfl
  | left x _ ih => simp only [Credit.bytes, List.map_cons, List.sum_cons] at ih ⊢; omega
  | right y _ ih => simp only [Credit.bytes, List.map_cons, List.sum_cons] at ih ⊢; omega

end Interleave

/-! ### handshake ACKs -/

/-- The handshake ACK datagram for server nonce `n` (9 bytes). -/
def hsAckBytes (n : Nat) : List Nat := encode (.hsAck n)

/-- If the datagram `b` parses (after truncation to the receive buffer) to a SYN-ACK whose
`nonce_ack` field is `ln`, the server nonce it carries. -/
def saNonce (ln : Nat) (b : List Nat) : Option Nat :=
  match decode (b.take MAX_FRAME_SIZE) with
  | some (.synAck na n _ _ _) => if na = ln then some n else none
  | _ => none

/-- The server nonces of the SYN-ACKs acknowledging `ln` among the datagrams `rx`, in order. -/
def saNonces (ln : Nat) (rx : List (List Nat)) : List Nat := rx.filterMap (saNonce ln)

theorem saNonces_append (ln : Nat) (a b : List (List Nat)) : saNonces ln (a ++ b) = saNonces ln a ++ saNonces ln b := by
  unfold saNonces; rw [List.filterMap_append]

theorem saNonces_single_none {ln : Nat} {b : List Nat} (h : saNonce ln b = none) : saNonces ln [b] = [] := by
  simp [saNonces, h]

theorem saNonces_single_some {ln n : Nat} {b : List Nat} (h : saNonce ln b = some n) : saNonces ln [b] = [n] := by
  simp [saNonces, h]

theorem saNonce_undecodable {ln : Nat} {b : List Nat} (h : decode (b.take MAX_FRAME_SIZE) = none) :
    saNonce ln b = none := by
  unfold saNonce; rw [h]

theorem saNonce_other {ln : Nat} {b : List Nat} {f : Frame} (h : decode (b.take MAX_FRAME_SIZE) = some f)
    (hf : ∀ na n r p a, f ≠ .synAck na n r p a) : saNonce ln b = none := by
  unfold saNonce; rw [h]
  cases f <;> first | rfl | exact absurd rfl (hf _ _ _ _ _)

theorem saNonce_synAck {ln na n r p a : Nat} {b : List Nat}
    (h : decode (b.take MAX_FRAME_SIZE) = some (.synAck na n r p a)) :
    saNonce ln b = if na = ln then some n else none := by
  unfold saNonce; rw [h]

variable {H : Type}

/-- The contract: `Inv ln rn rate alloc w ns h`. -/
structure HCOkX (hc : HC H) (ep : EpConfig)
    (Inv : Nat → Nat → Nat → Nat → List (List Nat) → List Nat → H → Prop) (last : H → Nat) : Prop where
  new : ∀ (ln rn rate alloc now : Nat), ln < 2^32 →
    Inv ln rn rate alloc [] [] (hc.new (hcConfig ep ln rn rate alloc) now) ∧
      last (hc.new (hcConfig ep ln rn rate alloc) now) = now
  dispatch : ∀ (ln rn rate alloc : Nat) (w : List (List Nat)) (ns : List Nat) (h : H) (f : Frame),
    Inv ln rn rate alloc w ns h → ∃ h', hc.dispatch h f = .ok h' ∧ Inv ln rn rate alloc w ns h' ∧ last h' = last h
  step : ∀ (ln rn rate alloc : Nat) (w : List (List Nat)) (ns : List Nat) (h : H) (now : Nat),
    Inv ln rn rate alloc w ns h → last h ≤ now →
    ∃ h', hc.step h now = .ok h' ∧ Inv ln rn rate alloc w ns h' ∧ last h' = now
  /-- the frames returned go on the wire -/
  flush : ∀ (ln rn rate alloc : Nat) (w : List (List Nat)) (ns : List Nat) (h : H) (rng : Rng),
    Inv ln rn rate alloc w ns h →
    ∃ h' rng' out, hc.flush h rng = .ok (h', rng', out) ∧ Inv ln rn rate alloc (w ++ out) ns h' ∧ last h' = last h
  receive : ∀ (ln rn rate alloc : Nat) (w : List (List Nat)) (ns : List Nat) (h : H),
    Inv ln rn rate alloc w ns h → ∃ h' out, hc.receive h = .ok (h', out) ∧ Inv ln rn rate alloc w ns h' ∧ last h' = last h
  send : ∀ (ln rn rate alloc : Nat) (w : List (List Nat)) (ns : List Nat) (h : H) (data : List Nat) (chan : Nat)
    (mode : SendMode), Inv ln rn rate alloc w ns h → data.length ≤ MAX_PACKET_SIZE → chan < CHANNEL_COUNT →
    Inv ln rn rate alloc w ns (hc.send h data chan mode) ∧ last (hc.send h data chan mode) = last h
  /-- a handshake ACK written to the socket by the endpoint, outside the half connection -/
  ack : ∀ (ln rn rate alloc : Nat) (w : List (List Nat)) (ns : List Nat) (h : H) (n' : Nat),
    Inv ln rn rate alloc w ns h → Inv ln rn rate alloc (w ++ [hsAckBytes n']) (ns ++ [n']) h

def CStOkX (Inv : Nat → Nat → Nat → Nat → List (List Nat) → List Nat → H → Prop) (last : H → Nat) (T : Nat)
    (tx rx : List (List Nat)) : CState H → Prop
  | .pending ln _ _ _ sends => ln < 2^32 ∧ ∀ e ∈ sends, SendOk e
  | .active ln h _ _ => ∃ n r p al pre post rx1 b rx2, tx = pre ++ hsAckBytes n :: post ∧ rx = rx1 ++ b :: rx2 ∧
      decode (b.take MAX_FRAME_SIZE) = some (.synAck ln n r p al) ∧
      Inv ln n r al post (saNonces ln rx2) h ∧ last h ≤ T
  | _ => True

/-- The client invariant with the log `tx` and the arrivals `rx`. -/
def CInvX (ep : EpConfig) (Inv : Nat → Nat → Nat → Nat → List (List Nat) → List Nat → H → Prop) (last : H → Nat)
    (T : Nat) (tx rx : List (List Nat)) (c : Client H) : Prop :=
  c.ep = ep ∧ CStOkX Inv last T tx rx c.state

variable {ep : EpConfig} {Inv : Nat → Nat → Nat → Nat → List (List Nat) → List Nat → H → Prop} {last : H → Nat}
  {T : Nat} {tx rx : List (List Nat)} {hc : HC H}

/-- A state that is not `Active`: log and arrivals do not matter. -/
theorem CStOkX.indep {st : CState H} {T' : Nat} {tx' rx' : List (List Nat)}
    (hna : ∀ ln h t sig, st ≠ .active ln h t sig) (hs : CStOkX Inv last T tx rx st) :
    CStOkX Inv last T' tx' rx' st := by
  cases st with
  | pending _ _ _ _ _ => exact hs
  | active ln h t sig => exact absurd rfl (hna ln h t sig)
  | closing _ _ _ => trivial
  | closed _ => trivial
  | fin => trivial

/-- An `Active` state whose half connection is updated while the log grows by `more` and the
arrivals by `rxmore`. -/
theorem CStOkX.update {ln : Nat} {h h' : H} {t t' : Nat} {sig sig' : Option DisconnectMode} {T' : Nat}
    {tx' rx' more rxmore : List (List Nat)} (hs : CStOkX Inv last T tx rx (.active ln h t sig))
    (htx : tx' = tx ++ more) (hrx : rx' = rx ++ rxmore)
    (hstep : ∀ n r al post ns, Inv ln n r al post ns h → last h ≤ T →
      Inv ln n r al (post ++ more) (ns ++ saNonces ln rxmore) h' ∧ last h' ≤ T') :
    CStOkX Inv last T' tx' rx' (.active ln h' t' sig') := by
  obtain ⟨n, r, p, al, pre, post, rx1, b, rx2, e1, e2, hd, hi, hl⟩ := hs
  obtain ⟨i1, l1⟩ := hstep n r al post _ hi hl
  refine ⟨n, r, p, al, pre, post ++ more, rx1, b, rx2 ++ rxmore, ?_, ?_, hd, ?_, l1⟩
  · rw [htx, e1, List.append_assoc, List.cons_append]
  · rw [hrx, e2, List.append_assoc, List.cons_append]
  · rw [saNonces_append]; exact i1

theorem CInvX.mono {T' : Nat} {c : Client H} (hi : CInvX ep Inv last T tx rx c) (h : T ≤ T') :
    CInvX ep Inv last T' tx rx c := by
  refine ⟨hi.1, ?_⟩
  have hi := hi.2
  cases hs : c.state with
  | pending _ _ _ _ _ => rw [hs] at hi; exact hi
  | active ln h' t sig =>
    rw [hs] at hi
    refine hi.update (more := []) (rxmore := []) (by simp) (by simp) ?_
    intro n r al post ns hi' hl
    simp only [saNonces, List.filterMap_nil, List.append_nil]
    exact ⟨hi', Nat.le_trans hl h⟩
  | closing _ _ _ => trivial
  | closed _ => trivial
  | fin => trivial

/-- The state is unchanged, nothing is sent, and the datagrams `rxmore` are not SYN-ACKs for the nonce
of an active client. -/
theorem CInvX.skip {c : Client H} (hi : CInvX ep Inv last T tx rx c) (rxmore : List (List Nat))
    (hb : ∀ ln h t sig, c.state = .active ln h t sig → saNonces ln rxmore = []) :
    CInvX ep Inv last T (tx ++ []) (rx ++ rxmore) c := by
  refine ⟨hi.1, ?_⟩
  have hs := hi.2
  cases hst : c.state with
  | active ln h t sig =>
    rw [hst] at hs
    refine hs.update rfl rfl ?_
    intro n r al post ns hi' hl
    rw [hb ln h t sig hst, List.append_nil, List.append_nil]
    exact ⟨hi', hl⟩
  | pending _ _ _ _ _ => rw [hst] at hs; exact hs
  | closing _ _ _ => trivial
  | closed _ => trivial
  | fin => trivial

theorem connect_invX (ep : EpConfig) (now : Nat) (rng : Rng) (T : Nat) (tx rx : List (List Nat)) :
    CInvX ep Inv last T tx rx (Client.connect ep now rng : Client H × List (List Nat)).1 := by
  unfold Client.connect CInvX
  exact ⟨rfl, Nat.mod_lt _ (by decide), fun e he => by cases he⟩

theorem foldl_send_invX (hok : HCOkX hc ep Inv last) {ln n r al : Nat} {w : List (List Nat)} {ns : List Nat}
    (sends : List (List Nat × Nat × SendMode))
    (hs : ∀ e ∈ sends, SendOk e) : ∀ (h : H), Inv ln n r al w ns h → last h = T →
    Inv ln n r al w ns (sends.foldl (fun h (e : List Nat × Nat × SendMode) => hc.send h e.1 e.2.1 e.2.2) h) ∧
    last (sends.foldl (fun h (e : List Nat × Nat × SendMode) => hc.send h e.1 e.2.1 e.2.2) h) = T := by
  induction sends with
  | nil => intro h hi hl; exact ⟨hi, hl⟩
  | cons e rest ih =>
    intro h hi hl
    obtain ⟨h1, h2⟩ := hok.send ln n r al w ns h e.1 e.2.1 e.2.2 hi (hs e List.mem_cons_self).1 (hs e List.mem_cons_self).2
    exact ih (fun x hx => hs x (List.mem_cons_of_mem _ hx)) _ h1 (h2.trans hl)

/-- `handle_frame` of the client on the frame `f` decoded from the datagram `b`. -/
theorem cHandleFrame_x (hok : HCOkX hc ep Inv last) {c : Client H} (hi : CInvX ep Inv last T tx rx c) (b : List Nat)
    (f : Frame) (hd : decode (b.take MAX_FRAME_SIZE) = some f) (nowMs : Nat) :
    ∃ r, c.handleFrame hc f nowMs T = .ok r ∧ CInvX ep Inv last T (tx ++ r.2) (rx ++ [b]) r.1 := by
  have hskip : (∀ na n r p a, f ≠ .synAck na n r p a) → CInvX ep Inv last T (tx ++ []) (rx ++ [b]) c :=
    fun hf => hi.skip [b] (fun ln _ _ _ _ => saNonces_single_none (saNonce_other hd hf))
  have htraffic : (∀ na n r p a, f ≠ .synAck na n r p a) →
      ∃ r, cTraffic hc c f nowMs = .ok r ∧ CInvX ep Inv last T (tx ++ r.2) (rx ++ [b]) r.1 := by
    intro hf
    unfold cTraffic
    split
    · rename_i ln h t sig hst
      have hs : CStOkX Inv last T tx rx c.state := hi.2
      rw [hst] at hs
      obtain ⟨n, r, p, al, pre, post, rx1, b0, rx2, e1, e2, hd0, hi0, hl0⟩ := hs
      obtain ⟨h', hr, h1, h2⟩ := hok.dispatch ln n r al post _ h f hi0
      rw [hr]
      refine ⟨_, rfl, hi.1, ?_⟩
      have hs : CStOkX Inv last T tx rx (.active ln h t sig) := ⟨n, r, p, al, pre, post, rx1, b0, rx2, e1, e2, hd0, hi0, hl0⟩
      refine hs.update rfl rfl ?_
      intro n' r' al' post' ns' hi' hl'
      obtain ⟨h'', hr', h1', h2'⟩ := hok.dispatch ln n' r' al' post' ns' h f hi'
      rw [hr] at hr'
      cases hr'
      rw [saNonces_single_none (saNonce_other hd hf), List.append_nil, List.append_nil]
      exact ⟨h1', by rw [h2']; exact hl'⟩
    · exact ⟨_, rfl, hskip hf⟩
  cases f with
  | syn _ _ _ _ _ => exact ⟨_, rfl, hskip (by intros; simp)⟩
  | hsAck _ => exact ⟨_, rfl, hskip (by intros; simp)⟩
  | synAck na n r p a =>
    unfold Client.handleFrame
    simp only
    split
    · rename_i ln req rt rc sends hst
      split
      · rename_i hna
        have hs : CStOkX Inv last T tx rx c.state := hi.2
        rw [hst] at hs
        rw [hi.1]
        obtain ⟨h1, h2⟩ := hok.new ln n r a T hs.1
        obtain ⟨h3, h4⟩ := foldl_send_invX hok sends hs.2 _ h1 h2
        subst hna
        exact ⟨_, rfl, rfl, ⟨n, r, p, a, tx, [], rx, b, [], rfl, rfl, hd, h3, Nat.le_of_eq h4⟩⟩
      · refine ⟨_, rfl, hi.skip [b] ?_⟩
        intro ln' h t sig hst'
        rw [hst] at hst'
        cases hst'
    · rename_i ln h t sig hst
      split
      · rename_i hna
        refine ⟨_, rfl, hi.1, ?_⟩
        have hs : CStOkX Inv last T tx rx c.state := hi.2
        rw [hst] at hs ⊢
        refine hs.update rfl rfl ?_
        intro n' r' al' post' ns' hi' hl'
        rw [saNonces_single_some (by rw [saNonce_synAck hd, if_pos hna])]
        exact ⟨hok.ack ln n' r' al' post' ns' h n hi', hl'⟩
      · rename_i hna
        refine ⟨_, rfl, hi.skip [b] ?_⟩
        intro ln' h' t' sig' hst'
        rw [hst] at hst'
        cases hst'
        exact saNonces_single_none (by rw [saNonce_synAck hd, if_neg hna])
    · rename_i hnp hnact
      refine ⟨_, rfl, hi.skip [b] ?_⟩
      intro ln' h' t' sig' hst'
      exact absurd hst' (hnact ln' h' t' sig')
  | hsError na e =>
    unfold Client.handleFrame
    simp only
    split
    · split
      · exact ⟨_, rfl, hi.1, trivial⟩
      · exact ⟨_, rfl, hskip (by intros; simp)⟩
    · exact ⟨_, rfl, hskip (by intros; simp)⟩
  | disconnect =>
    unfold Client.handleFrame
    simp only
    split
    · exact ⟨_, rfl, hskip (by intros; simp)⟩
    · rename_i ln h t sig hst
      have hs : CStOkX Inv last T tx rx c.state := hi.2
      rw [hst] at hs
      obtain ⟨n, r, p, al, pre, post, rx1, b0, rx2, e1, e2, hd0, hi0, hl0⟩ := hs
      obtain ⟨h', out, hr, _, _⟩ := hok.receive ln n r al post _ h hi0
      rw [hr]
      exact ⟨_, rfl, hi.1, trivial⟩
    · exact ⟨_, rfl, hi.1, trivial⟩
    · rename_i t hst
      refine ⟨_, rfl, hi.1, ?_⟩
      rw [hst]
      trivial
    · exact ⟨_, rfl, hskip (by intros; simp)⟩
  | disconnectAck =>
    unfold Client.handleFrame
    simp only
    split
    · exact ⟨_, rfl, hi.1, trivial⟩
    · exact ⟨_, rfl, hskip (by intros; simp)⟩
  | data x y z => exact htraffic (by intros; simp)
  | sync x y => exact htraffic (by intros; simp)
  | ack x y z => exact htraffic (by intros; simp)

/-- `handle_events` of the client. -/
theorem cHandleEvents_invX {c : Client H} (hi : CInvX ep Inv last T tx rx c) (nowMs : Nat) :
    CInvX ep Inv last T (tx ++ (c.handleEvents nowMs).2) rx (c.handleEvents nowMs).1 := by
  have hsame : CInvX ep Inv last T (tx ++ []) rx c := by rw [List.append_nil]; exact hi
  unfold Client.handleEvents
  split
  · rename_i ln req rt rc sends hst
    have hs : CStOkX Inv last T tx rx c.state := hi.2
    rw [hst] at hs
    split
    · split
      · exact ⟨hi.1, hs⟩
      · exact ⟨hi.1, trivial⟩
    · exact hsame
  · split
    · exact ⟨hi.1, trivial⟩
    · exact hsame
  · split
    · split
      · exact ⟨hi.1, trivial⟩
      · exact ⟨hi.1, trivial⟩
    · exact hsame
  · split
    · exact ⟨hi.1, trivial⟩
    · exact hsame
  · exact hsame

/-- `Client::flush`. -/
theorem cFlush_x (hok : HCOkX hc ep Inv last) {c : Client H} (hi : CInvX ep Inv last T tx rx c) :
    ∃ r, c.flush hc = .ok r ∧ CInvX ep Inv last T (tx ++ r.2) rx r.1 := by
  unfold Client.flush
  split
  · rename_i ln h t sig hst
    have hs : CStOkX Inv last T tx rx c.state := hi.2
    rw [hst] at hs
    obtain ⟨n, r, p, al, pre, post, rx1, b0, rx2, e1, e2, hd0, hi0, hl0⟩ := hs
    obtain ⟨h1, rng1, out, hr, i1, l1⟩ := hok.flush ln n r al post _ h c.rng hi0
    rw [hr]
    refine ⟨_, rfl, hi.1, ?_⟩
    have hs : CStOkX Inv last T tx rx (.active ln h t sig) := ⟨n, r, p, al, pre, post, rx1, b0, rx2, e1, e2, hd0, hi0, hl0⟩
    refine hs.update (rxmore := []) rfl (List.append_nil rx).symm ?_
    intro n' r' al' post' ns' hi' hl'
    obtain ⟨h1', rng1', out', hr', i1', l1'⟩ := hok.flush ln n' r' al' post' ns' h c.rng hi'
    rw [hr] at hr'
    cases hr'
    simp only [saNonces, List.filterMap_nil, List.append_nil]
    exact ⟨i1', by rw [l1']; exact hl'⟩
  · exact ⟨_, rfl, by rw [List.append_nil]; exact hi⟩

theorem cFrames_x (hok : HCOkX hc ep Inv last) (arrivals : List (List Nat)) (nowMs : Nat) :
    ∀ {c : Client H} {rx : List (List Nat)}, CInvX ep Inv last T tx rx c →
    ∃ r, cFrames hc c arrivals nowMs T = .ok r ∧ CInvX ep Inv last T (tx ++ r.2) (rx ++ arrivals) r.1 := by
  intro c rx hi
  rw [cFrames_eq]
  suffices h : ∀ (rx : List (List Nat)) (acc : Client H × List (List Nat)), CInvX ep Inv last T (tx ++ acc.2) rx acc.1 →
      ∃ r, arrivals.foldlM (cFrameStep hc nowMs T) acc = .ok r ∧ CInvX ep Inv last T (tx ++ r.2) (rx ++ arrivals) r.1 from
    h rx (c, []) (by rw [List.append_nil]; exact hi)
  induction arrivals with
  | nil => intro rx acc ha; exact ⟨acc, rfl, by rw [List.append_nil]; exact ha⟩
  | cons a rest ih =>
    intro rx acc ha
    rw [List.foldlM_cons]
    have h1 : ∃ r, cFrameStep hc nowMs T acc a = .ok r ∧ CInvX ep Inv last T (tx ++ r.2) (rx ++ [a]) r.1 := by
      unfold cFrameStep
      split
      · rename_i hd
        refine ⟨acc, rfl, ?_⟩
        have := ha.skip [a] (fun ln _ _ _ _ => saNonces_single_none (saNonce_undecodable hd))
        rw [List.append_nil] at this
        exact this
      · rename_i f hd
        obtain ⟨r, hr, h'⟩ := cHandleFrame_x hok ha a f hd nowMs
        rw [hr]
        refine ⟨_, rfl, ?_⟩
        rw [List.append_assoc] at h'
        exact h'
    obtain ⟨r1, hr1, i1⟩ := h1
    rw [hr1]
    obtain ⟨r, hr, i⟩ := ih (rx ++ [a]) r1 i1
    refine ⟨r, hr, ?_⟩
    rw [List.append_assoc] at i
    exact i

theorem cStepIf_x (hok : HCOkX hc ep Inv last) {c : Client H} (hi : CInvX ep Inv last T tx rx c) (nowMs : Nat) :
    ∃ r, cStepIf hc c nowMs T = .ok r ∧ CInvX ep Inv last T (tx ++ r.2) rx r.1 := by
  unfold cStepIf
  split
  · rename_i ln h t sig hst
    have hs : CStOkX Inv last T tx rx c.state := hi.2
    rw [hst] at hs
    obtain ⟨n, r, p, al, pre, post, rx1, b0, rx2, e1, e2, hd0, hi0, hl0⟩ := hs
    have hs : CStOkX Inv last T tx rx (.active ln h t sig) := ⟨n, r, p, al, pre, post, rx1, b0, rx2, e1, e2, hd0, hi0, hl0⟩
    simp only
    split <;> split <;> first
      | (obtain ⟨h', out, hr, _, _⟩ := hok.receive ln n r al post _ h hi0
         rw [hr]
         exact ⟨_, rfl, hi.1, trivial⟩)
      | (obtain ⟨h1, hr1, i1, l1⟩ := hok.step ln n r al post _ h T hi0 hl0
         rw [hr1]
         obtain ⟨h2, out, hr2, i2, l2⟩ := hok.receive ln n r al post _ h1 i1
         simp only [hr2]
         refine ⟨_, rfl, hi.1, ?_⟩
         refine hs.update (more := []) (rxmore := []) rfl (List.append_nil rx).symm ?_
         intro n' r' al' post' ns' hi' hl'
         obtain ⟨h1', hr1', i1', l1'⟩ := hok.step ln n' r' al' post' ns' h T hi' hl'
         rw [hr1] at hr1'
         cases hr1'
         obtain ⟨h2', out', hr2', i2', l2'⟩ := hok.receive ln n' r' al' post' ns' h1 i1'
         rw [hr2] at hr2'
         cases hr2'
         simp only [saNonces, List.filterMap_nil, List.append_nil]
         exact ⟨i2', by rw [l2', l1']; exact Nat.le_refl _⟩)
      | (rename_i hne; exact absurd rfl hne)
      | (rename_i hne; cases hne)
  · exact ⟨_, rfl, by rw [List.append_nil]; exact hi⟩

/-- `Client::step`. -/
theorem cStep_x (hok : HCOkX hc ep Inv last) {c : Client H} (hi : CInvX ep Inv last T tx rx c) (nowNs : Nat)
    (hle : T ≤ nowNs) (arrivals : List (List Nat)) :
    ∃ c' sent evs, c.step hc nowNs arrivals = .ok (c', sent, evs) ∧
      CInvX ep Inv last nowNs (tx ++ sent) (rx ++ arrivals) c' := by
  have hi0 := hi.mono hle
  obtain ⟨r1, h1, i1⟩ := cFlush_x hok hi0
  obtain ⟨r2, h2, i2⟩ := cFrames_x hok arrivals ((nowNs - c.timeBase) / 1000000) i1
  have i3 := cHandleEvents_invX i2 ((nowNs - c.timeBase) / 1000000)
  obtain ⟨r4, h4, i4⟩ := cStepIf_x hok i3 ((nowNs - c.timeBase) / 1000000)
  refine ⟨{ r4.1 with eventsOut := [] },
    r1.2 ++ r2.2 ++ (r2.1.handleEvents ((nowNs - c.timeBase) / 1000000)).2 ++ r4.2, r4.1.eventsOut, ?_, ?_⟩
  · unfold Client.step
    simp only
    split
    · rename_i e he
      cases he.symm.trans h1
    · rename_i c1 sent1 he
      cases he.symm.trans h1
      split
      · rename_i e he2
        cases he2.symm.trans h2
      · rename_i c2 sent2 he2
        cases he2.symm.trans h2
        split
        · rename_i e he4
          cases he4.symm.trans h4
        · rename_i c4 sent4 he4
          cases he4.symm.trans h4
          rfl
  · simp only [List.append_assoc] at i4 ⊢
    exact i4

theorem cSend_invX (hok : HCOkX hc ep Inv last) {c : Client H} (hi : CInvX ep Inv last T tx rx c) (data : List Nat)
    (chan : Nat) (mode : SendMode) (hlen : data.length ≤ MAX_PACKET_SIZE) (hch : chan < CHANNEL_COUNT) :
    CInvX ep Inv last T tx rx (c.send hc data chan mode) := by
  unfold Client.send
  split
  · rename_i ln req rt rc sends hst
    have hs : CStOkX Inv last T tx rx c.state := hi.2
    rw [hst] at hs
    refine ⟨hi.1, hs.1, ?_⟩
    intro e he
    rcases List.mem_append.1 he with he | he
    · exact hs.2 e he
    · simp only [List.mem_singleton] at he
      subst he
      exact ⟨hlen, hch⟩
  · rename_i ln h t sig hst
    have hs : CStOkX Inv last T tx rx c.state := hi.2
    rw [hst] at hs
    refine ⟨hi.1, ?_⟩
    refine hs.update (more := []) (rxmore := []) (List.append_nil tx).symm (List.append_nil rx).symm ?_
    intro n' r' al' post' ns' hi' hl'
    obtain ⟨h1, h2⟩ := hok.send ln n' r' al' post' ns' h data chan mode hi' hlen hch
    simp only [saNonces, List.filterMap_nil, List.append_nil]
    exact ⟨h1, by rw [h2]; exact hl'⟩
  · exact hi

theorem cDisconnect_invX {c : Client H} (hi : CInvX ep Inv last T tx rx c) (m : DisconnectMode) :
    CInvX ep Inv last T tx rx (c.disconnect m) := by
  unfold Client.disconnect
  split
  · exact ⟨hi.1, trivial⟩
  · rename_i ln h t sig hst
    have hs : CStOkX Inv last T tx rx c.state := hi.2
    rw [hst] at hs
    exact ⟨hi.1, hs⟩
  · exact hi

theorem cApply_x (hok : HCOkX hc ep Inv last) {c : Client H} (hi : CInvX ep Inv last T tx rx c) (op : COp)
    (hop : copOk T op = true) :
    ∃ c' sent evs, c.apply hc op = .ok (c', sent, evs) ∧
      CInvX ep Inv last (copTime T op) (tx ++ sent) (rx ++ copArrivals op) c' := by
  cases op with
  | step now arr =>
    simp only [copOk, decide_eq_true_eq] at hop
    exact cStep_x hok hi now hop arr
  | flush =>
    obtain ⟨⟨c', sent⟩, hr, hi'⟩ := cFlush_x hok hi
    exact ⟨c', sent, [], by simp only [Client.apply, hr], by simpa [copArrivals, copTime] using hi'⟩
  | disconnect m =>
    exact ⟨_, [], [], rfl, by simpa [copArrivals, copTime] using cDisconnect_invX hi m⟩
  | send data chan mode =>
    simp only [copOk, Bool.and_eq_true, decide_eq_true_eq] at hop
    exact ⟨_, [], [], rfl, by simpa [copArrivals, copTime] using cSend_invX hok hi data chan mode hop.1 hop.2⟩

theorem cRun_x (hok : HCOkX hc ep Inv last) (ops : List COp) : ∀ {T : Nat} {tx rx : List (List Nat)} {c : Client H},
    CInvX ep Inv last T tx rx c → copsOk T ops = true →
    ∃ c' sent evs, Client.run hc c ops = .ok (c', sent, evs) ∧
      CInvX ep Inv last (copsTime T ops) (tx ++ sent) (rx ++ copsArrivals ops) c' := by
  induction ops with
  | nil => intro T tx rx c hi _; exact ⟨c, [], [], rfl, by simpa [copsArrivals, copsTime] using hi⟩
  | cons op rest ih =>
    intro T tx rx c hi hop
    simp only [copsOk, Bool.and_eq_true] at hop
    obtain ⟨c1, sent1, evs1, h1, i1⟩ := cApply_x hok hi op hop.1
    obtain ⟨c2, sent2, evs2, h2, i2⟩ := ih i1 hop.2
    refine ⟨c2, sent1 ++ sent2, evs1 ++ evs2, by simp only [Client.run, h1, h2], ?_⟩
    simp only [copsArrivals, copsTime, List.append_assoc] at i2 ⊢
    exact i2

end Uflow.EpCeil
