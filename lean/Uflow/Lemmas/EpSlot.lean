import Uflow.Lemmas.EpPeerSrv3d

/-!
C17 / C10 (server model): an `active` entry whose deadline has passed is timed out in the step, whatever its
disconnect signal, and its slot (map entry, occupancy count of the SYN handler) is released.
-/

namespace Uflow.Endpoint

open Uflow.Gen Uflow.Codec Uflow.HalfConn

variable {H : Type}

/-- The occupancy predicate of the SYN handler. -/
def RState.occupies : RState H → Bool
  | .pending .. => true
  | .active .. => true
  | _ => false

theorem Server.activeCount_eq (s : Server H) : s.activeCount = (s.clients.filter fun c => c.state.occupies).length := by
  unfold Server.activeCount
  congr 1

/-- Removing the unique element with a given key. -/
theorem filter_key_length {α : Type} (f : α → Nat) (p : α → Bool) : ∀ (l : List α) (c : α), (l.map f).Nodup → c ∈ l →
    (l.filter (fun x => f x ≠ f c)).length + 1 = l.length ∧
    (p c = true → ((l.filter (fun x => f x ≠ f c)).filter p).length + 1 = (l.filter p).length) ∧
    (p c = false → ((l.filter (fun x => f x ≠ f c)).filter p).length = (l.filter p).length) := by
  intro l
  induction l with
  | nil => intro c _ hm; cases hm
  | cons y ys ih =>
    intro c hn hm
    rw [List.map_cons, List.nodup_cons] at hn
    obtain ⟨hny, hnys⟩ := hn
    rcases List.mem_cons.mp hm with rfl | hm
    · have hall : ys.filter (fun x => f x ≠ f c) = ys := by
        rw [List.filter_eq_self]
        intro x hx
        have : f x ≠ f c := fun e => hny (e ▸ List.mem_map_of_mem hx)
        simpa using this
      simp only [List.filter_cons, ne_eq, not_true_eq_false, decide_false, Bool.false_eq_true, if_false, hall]
      refine ⟨by simp, fun hp => by simp [hp], fun hp => by simp [hp]⟩
    · have hyc : f y ≠ f c := fun e => hny (e ▸ List.mem_map_of_mem hm)
      obtain ⟨i1, i2, i3⟩ := ih c hnys hm
      have e1 : (y :: ys).filter (fun x => f x ≠ f c) = y :: ys.filter (fun x => f x ≠ f c) := by
        simp [hyc]
      rw [e1]
      refine ⟨by simp only [List.length_cons]; omega, fun hp => ?_, fun hp => ?_⟩
      · have := i2 hp
        rw [List.filter_cons, List.filter_cons (x := y) (xs := ys)]
        by_cases hy : p y = true
        · rw [if_pos hy, if_pos hy]; simp only [List.length_cons]; omega
        · rw [if_neg hy, if_neg hy]; exact this
      · have := i3 hp
        rw [List.filter_cons, List.filter_cons (x := y) (xs := ys)]
        by_cases hy : p y = true
        · rw [if_pos hy, if_pos hy]; simp only [List.length_cons]; omega
        · rw [if_neg hy, if_neg hy]; exact this

/-- `finish` of an entry of the map that occupies a slot: both counts of the SYN handler drop by exactly one. -/
theorem Server.finish_counts (s : Server H) (hw : s.WF) (c : RClient H) (hcm : c ∈ s.clients)
    (ho : c.state.occupies = true) :
    (s.finish c).clients.length + 1 = s.clients.length ∧ (s.finish c).activeCount + 1 = s.activeCount := by
  have e : (s.finish c).clients = s.clients.filter (fun x => x.address ≠ c.address) := by
    rw [Server.finish_eq hcm]
  obtain ⟨i1, i2, -⟩ := filter_key_length (fun x : RClient H => x.address) (fun x => x.state.occupies) s.clients c hw.addr hcm
  rw [Server.activeCount_eq, Server.activeCount_eq, e]
  exact ⟨i1, i2 ho⟩

/-- A SYN with the right version and acceptable configuration from an address without an entry is accepted
(SYN-ACK sent, `pending` entry created) as soon as the server is not full. -/
theorem Server.handleSyn_accepts (s : Server H) (addr n r p a nowMs : Nat) (hf : s.find addr = none)
    (h1 : s.clients.length < s.cfg.maxTotalConnections) (h2 : s.activeCount < s.cfg.maxActiveConnections)
    (h3 : ¬ a < s.cfg.ep.maxPacketSize) (h4 : ¬ p > s.cfg.ep.maxReceiveAlloc) :
    (s.handleSyn addr PROTOCOL_VERSION n r p a nowMs).2 =
      [(addr, encode (.synAck n (s.rng.next.1 % 2^32) (u32 s.cfg.ep.maxReceiveRate) (u32 s.cfg.ep.maxPacketSize)
        (u32 s.cfg.ep.maxReceiveAlloc)))] ∧
    ∃ c, (s.handleSyn addr PROTOCOL_VERSION n r p a nowMs).1.find addr = some c ∧
      ∃ ln rn rr al rb, c.state = .pending ln rn rr al rb := by
  have hfull : ¬ (s.clients.length ≥ s.cfg.maxTotalConnections ∨ s.activeCount ≥ s.cfg.maxActiveConnections) := by omega
  constructor
  · unfold Server.handleSyn
    rw [hf]
    simp only [ne_eq, not_true_eq_false, if_false, hfull, h3, h4]
  · unfold Server.handleSyn
    rw [hf]
    simp only [ne_eq, not_true_eq_false, if_false, hfull, h3, h4]
    rw [Server.find_eq]
    show ∃ c, findA (s.clients ++ [_]) addr = some c ∧ _
    rw [findA_append, ← Server.find_eq, hf]
    simp

/-- The datagram loop when nothing arrives from `a`: the entry of `a` is untouched. -/
theorem Server.frames_silent (hc : HC H) (a : Nat) (nowMs nowNs : Nat) : ∀ (arr : List (Nat × List Nat)) (x : Server H)
    (o : List (Nat × List Nat)) (x' : Server H) (o' : List (Nat × List Nat)), x.WF → (∀ y ∈ arr, y.1 ≠ a) →
    arr.foldlM (Server.frameStep hc nowMs nowNs) (x, o) = .ok (x', o') → x'.WF ∧ x'.find a = x.find a := by
  intro arr
  induction arr with
  | nil =>
    intro x o x' o' hw _ h
    simp only [List.foldlM_nil, pure, Except.pure] at h; cases h
    exact ⟨hw, rfl⟩
  | cons y ys ih =>
    intro x o x' o' hw hne h
    simp only [List.foldlM_cons, bind, Except.bind] at h
    split at h
    · cases h
    · next acc hacc =>
      obtain ⟨x1, o1⟩ := acc
      have hys : ∀ z ∈ ys, z.1 ≠ a := fun z hz => hne z (List.mem_cons_of_mem _ hz)
      unfold Server.frameStep at hacc
      split at hacc
      · cases hacc; exact ih x o x' o' hw hys h
      · next f hd =>
        split at hacc
        · cases hacc
        · next x2 out hfr =>
          cases hacc
          obtain ⟨w1, f1, -⟩ := Server.handleFrame_other hc x x1 hw a y.1 (hne y List.mem_cons_self) f nowMs nowNs out hfr
          obtain ⟨w, r⟩ := ih x1 _ x' o' w1 hys h
          exact ⟨w, r.trans f1⟩

/-- The timer loop never touches an `active` entry. -/
theorem Server.runTimers_keeps_active (a : Nat) (nowMs : Nat) (fuel : Nat) : ∀ (s : Server H) (sent : List (Nat × List Nat))
    (c : RClient H) (hh : H) (t : Nat) (sig : Option DisconnectMode), s.WF → s.find a = some c → c.state = .active hh t sig →
    (Server.runTimers fuel s nowMs sent).1.WF ∧ (Server.runTimers fuel s nowMs sent).1.find a = some c := by
  induction fuel with
  | zero => intro s sent c hh t sig hw hf _; exact ⟨hw, hf⟩
  | succ k ih =>
    intro s sent c hh t sig hw hf hst
    unfold Server.runTimers
    split
    · exact ⟨hw, hf⟩
    · split
      · exact ⟨hw, hf⟩
      · split
        · exact ⟨hw, hf⟩
        · next tm h hp =>
          have h0 : STr s [] ({ s with timers := h } : Server H) :=
            STr.of_same hw rfl rfl rfl (fun _ h => h) rfl rfl rfl
          have hf0 : ({ s with timers := h } : Server H).find a = some c := hf
          obtain ⟨e1, h1, -⟩ := Server.handleTimer_STr _ h0.wf tm nowMs
          have hloc := Server.handleTimer_LocalAt _ h0.wf tm nowMs
          have key : (({ s with timers := h } : Server H).handleTimer tm nowMs).1.find a = some c := by
            rcases hloc with hl | ⟨c', hb, hcm, -, hl, -⟩
            · rw [hl]; exact hf0
            · by_cases hca : a = c'.address
              · have hfc := Server.find_of_mem h0.wf hcm
                rw [← hca, hf0] at hfc; cases hfc
                have : ({ s with timers := h } : Server H).handleTimer tm nowMs = (({ s with timers := h } : Server H), []) := by
                  unfold Server.handleTimer; rw [hb]; simp only [hst]
                rw [this]; exact hf0
              · rw [hl.find a hca]; exact hf0
          rcases hx : ({ s with timers := h } : Server H).handleTimer tm nowMs with ⟨s1, o1⟩
          rw [hx] at key h1
          exact ih s1 (sent ++ o1) c hh t sig h1.wf key hst

/-- One iteration of the active-timeout loop on an `active` entry whose deadline has passed: the signal plays
no role — the half connection is drained, the packets and then `error timeout` are reported, the entry is removed. -/
theorem Server.activeTimeoutStep_due (hc : HC H) (nowMs : Nat) (s : Server H) (cid : Nat) (c : RClient H) (hh : H)
    (t : Nat) (sig : Option DisconnectMode) (hb : s.byCid cid = some c) (hst : c.state = .active hh t sig)
    (hge : nowMs ≥ t) :
    Server.activeTimeoutStep hc nowMs s cid =
      match hc.receive hh with
      | .error e => .error e
      | .ok (_, pkts) =>
        .ok (({ s with eventsOut := s.eventsOut ++ pkts.map (SEvent.receive c.address) ++
                [SEvent.error c.address .timeout] } : Server H).finish c) := by
  unfold Server.activeTimeoutStep
  rw [hb]; simp only [hst, if_pos hge]
  split <;> simp_all

/-- Whole step: an `active` entry of `a` (any signal) whose deadline has passed, and nothing arrives from `a`. -/
theorem Server.step_timeout_releases (hc : HC H) (s s' : Server H) (hw : s.WF) (nowNs a : Nat)
    (arr sent : List (Nat × List Nat)) (evs : List SEvent) (c : RClient H) (hh : H) (t : Nat)
    (sig : Option DisconnectMode) (hf : s.find a = some c) (hst : c.state = .active hh t sig)
    (hge : s.nowMs nowNs ≥ t) (hsil : ∀ y ∈ arr, y.1 ≠ a)
    (h : s.step hc nowNs arr = .ok (s', sent, evs)) :
    SEvent.error a .timeout ∈ evs ∧ s'.WF ∧ s'.eventsOut = [] ∧ s'.phaseOf a = .idle ∧
    (∀ c' h' t' sig', s'.find a = some c' → c'.state ≠ .active h' t' sig') := by
  obtain ⟨s1, o1, s2, o2, s4, s6, o6, p1, p2, p4, p6, rfl, rfl, -⟩ := Server.step_phases hc s s' nowNs arr sent evs h
  obtain ⟨w1, -, rngs, h1, c1, -, f1, st1⟩ := Server.flushActive_at hc s s1 hw o1 a c hh t sig hf hst p1
  have p2' := p2
  rw [Server.handleFrames_eq] at p2'
  obtain ⟨w2, f2⟩ := Server.frames_silent hc a (s.nowMs nowNs) nowNs arr s1 [] s2 o2 w1 hsil p2'
  obtain ⟨w3, f3⟩ := Server.runTimers_keeps_active a (s.nowMs nowNs) (s2.timers.size * 12 + 16) s2 [] c1 h1 t sig w2
    (f2.trans f1) st1
  obtain ⟨hcm, hca⟩ := Server.find_some f3
  have hev := Server.step_timeout_prompt hc s _ hw nowNs arr sent _ h s1 o1 s2 o2 p1 p2 c1 hcm h1 t sig st1 hge
  rw [hca] at hev
  obtain ⟨ev4, -, -, f4⟩ := Server.activeTimeouts_prompt hc _ s4 w3 (s.nowMs nowNs) c1 hcm h1 t sig st1 hge p4
  rw [hca] at f4
  have w4 := (Server.activeTimeouts_STr hc _ s4 w3 (s.nowMs nowNs) p4).choose_spec.wf
  have i4 : s4.phaseOf a = .idle := by unfold Server.phaseOf; rw [f4]
  have key := fun (det : List (RClient H)) (hdet : det.Sublist s4.detached) => Server.retain_STr s4 w4 det hdet
  obtain ⟨w6, i6, -⟩ := Server.stepActive_idle hc a _ s6 (key _ List.filter_sublist).wf
    (by rw [Server.phaseOf_congr rfl]; exact i4) _ nowNs o6 p6
  have i6' : ({ s6 with eventsOut := [] } : Server H).phaseOf a = .idle := by rw [← i6]; exact Server.phaseOf_congr rfl a
  refine ⟨hev, w6.congr rfl rfl rfl (fun _ h => h), rfl, i6', fun c' h' t' sig' hf' hst' => ?_⟩
  unfold Server.phaseOf at i6'
  rw [hf'] at i6'
  simp only [RState.phase, hst', RState.connected] at i6'
  cases i6'

end Uflow.Endpoint
