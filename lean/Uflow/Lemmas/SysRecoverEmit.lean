import Uflow.Lemmas.SysRecoverDefs

/-!
Recovery of the composed system after a blackout (C11Sys), part 2: `emit_packet` on a sender whose
window has room — exact result, no trap.
-/

namespace Uflow.Props.C11

open Uflow Uflow.Gen Uflow.Codec Uflow.PSend Uflow.PRecv Uflow.Frag Uflow.Sys

/-- A packet that respects the `debug_assert!(data.len() <= self.max_alloc)` of `enqueue_packet`
passes the allocation test of `emit_packet` on an empty window. -/
theorem allocSize_le_ceil (n a : Nat) (h : n ≤ allocCeil a) : allocSize n ≤ allocCeil a := by
  unfold allocSize
  unfold allocCeil at h ⊢
  simp only [MAX_FRAGMENT_SIZE] at h ⊢
  generalize (a + 1448 - 1) / 1448 = c at h ⊢
  split
  · have : (n + 1448 - 1) / 1448 ≤ c := by omega
    exact Nat.mul_le_mul_right _ this
  · exact h

/-- The loop dropping stale TimeSensitive packets, on a queue whose stale prefix is `dropped`. -/
theorem dropStale_split (f : Nat) (dropped : List QEntry) (q : QEntry) (rest : List QEntry)
    (hd : ∀ d ∈ dropped, Stale f d) (hn : ¬ Stale f q) (t : Nat) (ht : qBytes dropped ≤ t) :
    dropStale f (dropped ++ q :: rest) t = .ok (q :: rest, t - qBytes dropped) := by
  induction dropped generalizing t with
  | nil =>
    rw [List.nil_append, dropStale, if_neg (show ¬ (q.mode = .timeSensitive ∧ q.flushId ≠ f) from hn)]
    simp [qBytes]
  | cons d ds ih =>
    have hq : qBytes (d :: ds) = d.data.length + qBytes ds := by simp [qBytes]
    rw [hq] at ht
    rw [List.cons_append, dropStale,
      if_pos (show d.mode = .timeSensitive ∧ d.flushId ≠ f from hd d List.mem_cons_self), if_neg (by omega)]
    rw [ih (fun x hx => hd x (List.mem_cons_of_mem _ hx)) _ (by omega), hq]
    congr 2
    omega

/-- … and on a queue that is stale altogether. -/
theorem dropStale_all (f : Nat) (l : List QEntry) (hd : ∀ d ∈ l, Stale f d) (t : Nat)
    (ht : qBytes l ≤ t) : dropStale f l t = .ok ([], t - qBytes l) := by
  induction l generalizing t with
  | nil => rw [dropStale]; simp [qBytes]
  | cons d ds ih =>
    have hq : qBytes (d :: ds) = d.data.length + qBytes ds := by simp [qBytes]
    rw [hq] at ht
    rw [dropStale, if_pos (show d.mode = .timeSensitive ∧ d.flushId ≠ f from hd d List.mem_cons_self),
      if_neg (by omega)]
    rw [ih (fun x hx => hd x (List.mem_cons_of_mem _ hx)) _ (by omega), hq]
    congr 2
    omega

/-- A queue is stale altogether or splits at its first entry that is not stale. -/
theorem stale_split (f : Nat) (l : List QEntry) :
    (∀ d ∈ l, Stale f d) ∨
    ∃ dropped q rest, l = dropped ++ q :: rest ∧ (∀ d ∈ dropped, Stale f d) ∧ ¬ Stale f q := by
  induction l with
  | nil => left; intro d hd; cases hd
  | cons x xs ih =>
    by_cases hx : Stale f x
    · rcases ih with h | ⟨dropped, q, rest, h1, h2, h3⟩
      · left
        intro d hd
        rcases List.mem_cons.mp hd with rfl | hd
        · exact hx
        · exact h d hd
      · right
        refine ⟨x :: dropped, q, rest, by rw [h1]; rfl, ?_, h3⟩
        intro d hd
        rcases List.mem_cons.mp hd with rfl | hd
        · exact hx
        · exact h2 d hd
    · right
      exact ⟨[], x, xs, rfl, (fun d hd => by cases hd), hx⟩

/-- The packet `emit_packet` builds from queue entry `q` in sender state `s` with channel parent
`chanPar`. -/
def mkPending (s : PSend.State) (q : QEntry) (chanPar : Option Nat) : Pending :=
  { uid := s.nextUid, data := q.data, channelId := q.channelId, sequenceId := s.nextId,
    windowParentLead := leadOf s.nextId s.windowParentId,
    channelParentLead := leadOf s.nextId chanPar,
    lastFragmentId := (numFragments q.data.length - 1) % 2^16, acked := [],
    expiry := if q.mode = .timeSensitive then some q.flushId else none }

/-- **`emit_packet` when nothing blocks the head of the queue.** The send queue is `dropped ++ q :: rest`
with `dropped` stale for `f` and `q` not; the byte counter covers `dropped`; the window has room
(`sub(next_id, base_id) < window_size`), the allocation counter has room for `q`, and the channel of
`q` exists. Then `emit_packet(f)` does not trap and returns the packet built from `q`, with
`resend = (mode is Persistent or Reliable)`; the new state has `rest` as its queue and the packet as
the last entry of the send window. -/
theorem emit_head (s : PSend.State) (f : Nat) (dropped : List QEntry) (q : QEntry) (rest : List QEntry)
    (hq : s.queue = dropped ++ q :: rest) (hd : ∀ d ∈ dropped, Stale f d) (hn : ¬ Stale f q)
    (ht : qBytes dropped ≤ s.totalSize)
    (hwin : pidSub s.nextId s.baseId < s.windowSize)
    (hal : s.alloc + allocSize q.data.length ≤ s.maxAlloc)
    (hch : q.channelId < s.chanParent.length) :
    emit s f = .ok (emitState s q rest (s.totalSize - qBytes dropped) (mkPending s q s.chanParent[q.channelId]),
      some (mkPending s q s.chanParent[q.channelId], decide (q.mode = .persistent ∨ q.mode = .reliable))) := by
  unfold emit
  rw [hq, dropStale_split f dropped q rest hd hn _ ht]
  simp only
  rw [if_neg (by omega), if_neg (by omega), List.getElem?_eq_getElem hch]
  simp only
  unfold emitState mkPending leadOf
  cases s.windowParentId <;> cases s.chanParent[q.channelId] <;> rfl

/-- **`emit_packet` on a queue of stale packets only** (in particular an empty queue): all of them
are dropped, nothing is emitted, nothing else changes. -/
theorem emit_all_stale (s : PSend.State) (f : Nat) (hd : ∀ d ∈ s.queue, Stale f d)
    (ht : qBytes s.queue ≤ s.totalSize) :
    emit s f = .ok ({ s with queue := [], totalSize := s.totalSize - qBytes s.queue }, none) := by
  unfold emit
  rw [dropStale_all f s.queue hd _ ht]

end Uflow.Props.C11
