import Uflow.Lemmas.SysLiveMain

/-!
C09Gate, part 1: the receiver-side lemma on the packet-layer system `Sys`. In a state satisfying the
three system invariants in which every Reliable emitted packet is completely received (`Sys.SyncOk`:
in the log, passed by the window base, or in the window with its entry flag), ONE `recv` step puts
every Reliable emitted packet into the log. This is `round_delivers_entry` with "a redelivery round has
just run" (`Arrived`) replaced by "the entry flags are already set" (`SyncOk`).
-/

namespace Uflow.Sys

open Uflow Uflow.Gen Uflow.Codec Uflow.PSend Uflow.PRecv Uflow.Frag

/-- `SyncOk`, in terms of the window index function of the proofs: a Reliable emitted packet the window
base has not passed is in the log or has its entry flag. -/
theorem syncOk_entry {b0 w W M : Nat} {t : Sys} (h : SInv b0 w W M t) (hok : SyncOk t)
    (j : Nat) (x : Emitted) (hx : t.hist.emitted[j]? = some x) (hrel : x.mode = .reliable)
    (hj : t.rcv.adv ≤ j) :
    (∃ e ∈ t.rcv.log, e.uid = j) ∨ (lget t.rcv.st.slots (wi W (pidAdd b0 j))).entryFlag = true := by
  have hr := hok x (List.mem_of_getElem? hx) hrel
  unfold Recvd at hr
  rw [(h.snd.hinv.ids j x hx).1, widx_eq h.rcv.inv, getSlot_eq, h.rcv.inv.wsz,
    (h.snd.hinv.ids j x hx).2.1] at hr
  rcases hr with h1 | h1 | ⟨-, h2⟩
  · exact Or.inl h1
  · omega
  · exact Or.inr h2

/-- **`receive` hands out every completely received Reliable packet.** From a state in which every
Reliable emitted packet is completely received (`SyncOk`), the `recv` step leaves every Reliable
emitted packet in the log (and the log only grows). -/
theorem recv_delivers_complete {b0 w W M : Nat} (hW : WOk W) (hw : w ≤ 2^16) (hwW : w ≤ W) {t t' : Sys}
    (h : SInv b0 w W M t) (p : PInv W t) (hok : SyncOk t)
    (hs : stepS t .recv = .ok t') :
    (∀ e ∈ t.rcv.log, e ∈ t'.rcv.log) ∧
    ∀ j x, t.hist.emitted[j]? = some x → x.mode = .reliable → ∃ e ∈ t'.rcv.log, e.uid = j := by
  have h' : SInv b0 w W M t' := sinv_recv hW h hs
  simp only [stepS] at hs
  cases hg : stepT t.rcv .recv with
  | error e => rw [hg] at hs; cases hs
  | ok g =>
    rw [hg, bindR_ok] at hs
    cases hs
    rw [stepT_recv] at hg
    cases hr : receiveT t.rcv.st with
    | error e => rw [hr] at hg; cases hg
    | ok pr =>
      rw [hr, bindR_ok] at hg
      cases hg
      have hr' : receiveT t.rcv.st = .ok (pr.1, pr.2) := hr
      obtain ⟨s1, hinv1, hord1, hgi1, hsh, hdone, htaken, -, -⟩ :=
        receiveT_parts hW h.rcv.inv h.rcv.ord h.rcv.gi p.rdy (hon_of_sinv hw h) hr'
      have hc1 : CInv W t.pend t.rcv.adv s1 := cinv_shrunk h.cinv hsh
      have hblt := h.rcv.inv.blt
      have hew := h.rcv.ord.ewin
      show (∀ e ∈ t.rcv.log, e ∈ t.rcv.log ++ pr.2.map (lift t.rcv.adv t.rcv.st.baseId)) ∧
        ∀ j x, t.hist.emitted[j]? = some x → x.mode = .reliable →
        ∃ e ∈ t.rcv.log ++ pr.2.map (lift t.rcv.adv t.rcv.st.baseId), e.uid = j
      generalize hlog1 : t.rcv.log ++ pr.2.map (lift t.rcv.adv t.rcv.st.baseId) = log1 at *
      have hsub : ∀ e ∈ t.rcv.log, e ∈ log1 := by
        intro e he; rw [← hlog1]; exact List.mem_append.mpr (Or.inl he)
      have ent1 : Ent W t.rcv.adv log1 s1 := by
        intro x hx hxo hen
        rw [hsh.base] at hxo ⊢
        rw [hsh.entry] at hen
        rcases p.ent x hx hxo hen with hf | ⟨e, he, hu⟩
        · rcases htaken _ hf with hf1 | ⟨ev, hev, e1, e2, e3⟩
          · exact Or.inl hf1
          · right
            refine ⟨lift t.rcv.adv t.rcv.st.baseId ev, ?_, ?_⟩
            · rw [← hlog1]; exact List.mem_append.mpr (Or.inr (List.mem_map.mpr ⟨ev, hev, rfl⟩))
            · show t.rcv.adv + pidSub ev.seq t.rcv.st.baseId = _
              rw [off_eq_of_wi hW ev.seq x t.rcv.st.baseId hblt (by omega) (by omega) e3]
        · exact Or.inr ⟨e, hsub e he, hu⟩
      have hlogchan : ∀ e ∈ log1, ∃ em, t.hist.emitted[e.uid]? = some em ∧ e.chan = em.channelId := by
        intro e he
        obtain ⟨p0, hp0, c1, -⟩ := h'.log e he
        obtain ⟨-, em, hem, -, e2, -⟩ := h'.snd.plink e.uid p0 hp0
        exact ⟨em, hem, by rw [c1, e2]⟩
      have hbeyond : ∀ e ∈ log1, ∀ y, t.hist.emitted[e.uid]? = some y →
          e.uid < t.rcv.adv + pidSub (cbO s1 y.channelId) s1.baseId := by
        intro e he y hy
        obtain ⟨em, hem, hch⟩ := hlogchan e he
        rw [hy] at hem; cases hem
        have := hgi1.glt e he
        rw [hch] at this
        exact this
      -- every entry of the window that is completely received is in the log afterwards
      have key : ∀ j, t.rcv.adv ≤ j → j < t.hist.emitted.length →
          (lget t.rcv.st.slots (wi W (pidAdd b0 j))).entryFlag = true → ∃ e ∈ log1, e.uid = j := by
        intro j
        induction j using Nat.strongRecOn with
        | _ j ih =>
          intro h1 hjlt hen
          obtain ⟨hxj, hoff, hjW⟩ := win_pos (by omega) hwW h j h1 hjlt
          rw [← hsh.entry] at hen
          have hxo1 : pidSub (pidAdd b0 j) s1.baseId < W := by rw [hsh.base, hoff]; exact hjW
          rcases ent1 _ hxj hxo1 hen with hf | ⟨e, he, hu⟩
          · exfalso
            have hnd := hdone _ hxj hxo1 hf
            obtain ⟨jp, y, hy, hyrel, hych, q1, q2, q3⟩ :=
              blocked_parent hw h.snd hinv1 hord1 hc1 _ hxj hxo1 hf hnd
            rw [hsh.base, hoff] at q2
            have hjplt : jp < t.hist.emitted.length := (List.getElem?_eq_some_iff.mp hy).1
            have hpar : ∃ e ∈ log1, e.uid = jp := by
              rcases syncOk_entry h hok jp y hy hyrel (by omega) with ⟨e, he, hu⟩ | hen'
              · exact ⟨e, hsub e he, hu⟩
              · exact ih jp (by omega) (by omega) hjplt hen'
            obtain ⟨e, he, hu⟩ := hpar
            have := hbeyond e he y (by rw [hu]; exact hy)
            rw [hych, hu] at this
            omega
          · exact ⟨e, he, by rw [hu, hsh.base, hoff]; omega⟩
      refine ⟨hsub, ?_⟩
      intro j x hx hrel
      rcases Nat.lt_or_ge j t.rcv.adv with hlt | hge
      · obtain ⟨e, he, hu⟩ := p.passed j x hx hrel hlt
        exact ⟨e, hsub e he, hu⟩
      · rcases syncOk_entry h hok j x hx hrel hge with ⟨e, he, hu⟩ | hen
        · exact ⟨e, hsub e he, hu⟩
        · exact key j hge (List.getElem?_eq_some_iff.mp hx).1 hen

end Uflow.Sys
