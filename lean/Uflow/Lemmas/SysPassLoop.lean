import Uflow.Lemmas.SysRecv

/-!
The composed system (C01Sys), part 7: completeness of the delivery pass of `receive`.

`Deliv W s x` is the test `receive` applies to the packet in the slot of id `x`
(`channel_parent_lead == 0 || channel_parent_lead > sub(x, channel_base_id)`). `Rdy` says the
`channel_ready_flags` are live: every undelivered packet that passes the test has its channel's
ready flag set. `Hon` is what the receiver sees of an honest sender: along a channel the channel
parents do not go backwards. Under `Rdy` and `Hon` the delivery pass ends in a state where no
undelivered packet passes the test (`Done`), and every data flag it clears is reported as an event.
-/

namespace Uflow.Sys

open Uflow Uflow.Gen Uflow.Codec Uflow.PRecv

/-- `channel.base_id.unwrap_or(base_id)`. -/
def cbO (s : State) (c : Nat) : Nat := (cbase s c).getD s.baseId

/-- The packet in the slot of `x` passes the delivery test of `receive`. -/
def Deliv (W : Nat) (s : State) (x : Nat) : Prop :=
  (lget s.slots (wi W x)).cpl = 0 ∨
    (lget s.slots (wi W x)).cpl > pidSub x (cbO s (lget s.slots (wi W x)).chan)

/-- Liveness of `channel_ready_flags`: an undelivered packet that passes the test has its channel's
ready flag set. -/
def Rdy (W : Nat) (s : State) : Prop :=
  ∀ x, x < 2^20 → pidSub x s.baseId < W → (lget s.slots (wi W x)).dataFlag = true → Deliv W s x →
    s.readyFlags[(lget s.slots (wi W x)).chan]? = some true

/-- No undelivered packet of the window passes the delivery test. -/
def Done (W : Nat) (s : State) : Prop :=
  ∀ x, x < 2^20 → pidSub x s.baseId < W → (lget s.slots (wi W x)).dataFlag = true → ¬ Deliv W s x

/-- Honest channel parent leads, as far as the receive window shows them: if an undelivered packet
`x` names a channel parent inside the window, every later undelivered packet `y` of the channel names
a channel parent at or after that of `x`. -/
def Hon (W : Nat) (s : State) : Prop :=
  ∀ x y, x < 2^20 → y < 2^20 → pidSub x s.baseId < pidSub y s.baseId → pidSub y s.baseId < W →
    (lget s.slots (wi W x)).dataFlag = true → (lget s.slots (wi W y)).dataFlag = true →
    (lget s.slots (wi W x)).chan = (lget s.slots (wi W y)).chan →
    (lget s.slots (wi W x)).cpl ≠ 0 → (lget s.slots (wi W x)).cpl ≤ pidSub x s.baseId →
    (lget s.slots (wi W y)).cpl ≠ 0 ∧
      pidSub x s.baseId + (lget s.slots (wi W y)).cpl ≤ pidSub y s.baseId + (lget s.slots (wi W x)).cpl

theorem Hon.of_shrunk {W : Nat} {s t : State} (h : Hon W s) (hst : Shrunk s t) : Hon W t := by
  intro x y hx hy hxy hyo hfx hfy hc hne hle
  rw [hst.base] at hxy hyo hle ⊢
  rw [hst.chan, hst.chan] at hc
  rw [hst.cpl] at hne hle ⊢
  rw [hst.cpl]
  exact h x y hx hy hxy hyo (hst.flag _ hfx).1 (hst.flag _ hfy).1 hc hne hle

/-- The channel base used by the test, as an offset from the window base. -/
theorem cbO_off {W M : Nat} {s : State} (hinv : Inv W M s) (h : Ord W s) (c : Nat) :
    cbO s c < 2^20 ∧ pidSub (cbO s c) s.baseId ≤ W ∧
    ∀ x, x < 2^20 → pidSub (cbO s c) s.baseId ≤ pidSub x s.baseId →
      pidSub x (cbO s c) = pidSub x s.baseId - pidSub (cbO s c) s.baseId := by
  unfold cbO
  cases hcb : cbase s c with
  | none =>
    simp only [Option.getD_none]
    rw [pidSub_self]
    exact ⟨hinv.blt, Nat.zero_le _, fun x _ _ => by omega⟩
  | some b =>
    simp only [Option.getD_some]
    obtain ⟨h1, h2, h3⟩ := h.cbr c b hcb
    exact ⟨h1, h3, fun x _ hle => off_shift x s.baseId b hinv.blt h1 hle⟩

/-- An undelivered packet is not behind its channel's base. -/
theorem cbO_le {W : Nat} {s : State} (h : Ord W s) (x : Nat) (hx : x < 2^20) (hxo : pidSub x s.baseId < W)
    (hf : (lget s.slots (wi W x)).dataFlag = true) :
    pidSub (cbO s (lget s.slots (wi W x)).chan) s.baseId ≤ pidSub x s.baseId := by
  unfold cbO
  cases hcb : cbase s (lget s.slots (wi W x)).chan with
  | none => simp only [Option.getD_none]; rw [pidSub_self]; exact Nat.zero_le _
  | some b => simp only [Option.getD_some]; exact h.fcb x hx hxo hf b hcb

/-- What a failed delivery test says in terms of window offsets. -/
theorem not_deliv_off {W M : Nat} {s : State} (hinv : Inv W M s) (h : Ord W s) (x : Nat) (hx : x < 2^20)
    (hxo : pidSub x s.baseId < W) (hf : (lget s.slots (wi W x)).dataFlag = true) (hn : ¬ Deliv W s x) :
    (lget s.slots (wi W x)).cpl ≠ 0 ∧
    (lget s.slots (wi W x)).cpl + pidSub (cbO s (lget s.slots (wi W x)).chan) s.baseId ≤ pidSub x s.baseId := by
  have hle := cbO_le h x hx hxo hf
  obtain ⟨-, -, hsh⟩ := cbO_off hinv h (lget s.slots (wi W x)).chan
  have := hsh x hx hle
  unfold Deliv at hn
  rw [this] at hn
  omega

theorem anyReady_of_get (s : State) (c : Nat) (h : s.readyFlags[c]? = some true) : anyReady s = true := by
  unfold anyReady
  rw [List.any_eq_true]
  exact ⟨true, List.mem_of_getElem? h, rfl⟩

/-- Loop invariant, part 1: from `seq` on the ready flags are live. -/
def L1 (W : Nat) (t : State) (seq : Nat) : Prop :=
  ∀ x, x < 2^20 → pidSub x t.baseId < W → pidSub seq t.baseId ≤ pidSub x t.baseId →
    (lget t.slots (wi W x)).dataFlag = true → Deliv W t x →
    t.readyFlags[(lget t.slots (wi W x)).chan]? = some true

/-- Loop invariant, part 2: before `seq` nothing deliverable is left. -/
def L2 (W : Nat) (t : State) (seq : Nat) : Prop :=
  ∀ x, x < 2^20 → pidSub x t.baseId < pidSub seq t.baseId →
    (lget t.slots (wi W x)).dataFlag = true → ¬ Deliv W t x

/-- Every data flag cleared between `t` and `t'` is reported by one of the events `new`. -/
def Taken (W base endId : Nat) (t t' : State) (new : List Ev) : Prop :=
  ∀ k, (lget t.slots k).dataFlag = true → (lget t'.slots k).dataFlag = true ∨
    ∃ ev ∈ new, ev.seq < 2^20 ∧ pidSub ev.seq base < pidSub endId base ∧ wi W ev.seq = k

/-- Ready flags and channel counter after one delivery. -/
theorem deliver_ready {W : Nat} (t t2 : State) (i : Nat) (sl : Slot) (ch : Chan) (newId : Nat)
    (hws : t.windowSize = W) (hch : t.chans[sl.chan]? = some ch)
    (h : setChannelBase (dlDeliver t i sl ch) sl.chan newId = .ok t2) :
    t2.readyFlags = (if ch.count - 1 = 0 then t.readyFlags.set sl.chan false else t.readyFlags) ∧
    ∃ ch2, t2.chans[sl.chan]? = some ch2 ∧ ch2.count = ch.count - 1 := by
  have hlt : sl.chan < t.chans.length := by
    rcases Nat.lt_or_ge sl.chan t.chans.length with h | h
    · exact h
    · rw [List.getElem?_eq_none h] at hch; cases hch
  have d3 : (dlDeliver t i sl ch).windowSize = t.windowSize := (dlDeliver_facts t i sl ch).2.2.1
  have d5 : (dlDeliver t i sl ch).chans = t.chans.set sl.chan { ch with count := ch.count - 1 } :=
    (dlDeliver_facts t i sl ch).2.2.2.2.1
  have dr : (dlDeliver t i sl ch).readyFlags =
      (if ch.count - 1 = 0 then t.readyFlags.set sl.chan false else t.readyFlags) := by
    unfold dlDeliver
    split
    · rfl
    · rfl
  generalize dlDeliver t i sl ch = t1 at *
  obtain ⟨ch1, e1, -, -, e4, -, e6, -⟩ := setChannelBase_facts (W := W) t1 t2 sl.chan newId
    (by rw [d3]; exact hws) h
  refine ⟨by rw [e4, dr], ?_⟩
  rw [d5, List.getElem?_set, if_pos rfl, if_pos hlt] at e1
  cases e1
  refine ⟨_, by rw [e6, List.getElem?_set, if_pos rfl, if_pos (by rw [d5, List.length_set]; exact hlt)], rfl⟩

theorem getElem?_set_false_ne (l : List Bool) (c c' : Nat) (h : c ≠ c') :
    (l.set c false)[c']? = l[c']? := by
  rw [List.getElem?_set, if_neg h]

/-- **Completeness of the delivery pass.** -/
theorem deliverLoopT_done {W M : Nat} (hW : WOk W) (base endId : Nat) (he : endId < 2^20) :
    ∀ (fuel : Nat) (t : State) (seq : Nat) (evs : List Ev) (t' : State) (evs' : List Ev),
      Inv W M t → Ord W t → Hon W t → t.baseId = base → t.endId = endId → seq < 2^20 →
      pidSub seq base ≤ pidSub endId base → Visited W t seq → L1 W t seq → L2 W t seq →
      deliverLoopT base fuel t seq endId evs = .ok (t', evs') →
      Done W t' ∧ ∃ new, evs' = evs ++ new ∧ Taken W base endId t t' new := by
  intro fuel
  induction fuel with
  | zero => intro t seq evs t' evs' _ _ _ _ _ _ _ _ _ _ h; rw [deliverLoopT] at h; cases h
  | succ fuel ih =>
    intro t seq evs t' evs' hinv hord hhon hb hen hs hle hvis hl1 hl2 h
    have hblt : base < 2^20 := by rw [← hb]; exact hinv.blt
    have hew : pidSub endId base ≤ W := by rw [← hb, ← hen]; exact hord.ewin
    -- the two ways the pass stops
    have stop : (pidSub seq base = pidSub endId base ∨ ¬ anyReady t = true) →
        (Except.ok (t, evs) : R (State × List Ev)) = .ok (t', evs') →
        Done W t' ∧ ∃ new, evs' = evs ++ new ∧ Taken W base endId t t' new := by
      intro hc h
      cases h
      refine ⟨?_, [], by rw [List.append_nil], fun k hk => Or.inl hk⟩
      intro x hx hxo hf
      rcases Nat.lt_or_ge (pidSub x t.baseId) (pidSub seq t.baseId) with hlt | hge
      · exact hl2 x hx hlt hf
      · rcases hc with hc | hc
        · have := hord.fin x hx hxo hf
          rw [hb, hen] at this
          rw [hb] at hge
          omega
        · intro hd
          exact hc (anyReady_of_get t _ (hl1 x hx hxo hge hf hd))
    rw [deliverLoopT] at h
    by_cases heq : seq = endId
    · rw [if_pos heq] at h; exact stop (Or.inl (by rw [heq])) h
    rw [if_neg heq] at h
    by_cases hr : ¬ anyReady t = true
    · rw [if_pos hr] at h; exact stop (Or.inr hr) h
    rw [if_neg hr] at h
    have hn := pidAdd_lt seq 1
    have hjlt : pidSub seq base < pidSub endId base := by
      rcases Nat.lt_or_ge (pidSub seq base) (pidSub endId base) with h | h
      · exact h
      · exact absurd (id_eq_of_off seq endId base hs he (by omega)) heq
    have hoff : pidSub (pidAdd seq 1) base = pidSub seq base + 1 :=
      off_succ _ _ (by have := hW.le; omega)
    have hle' : pidSub (pidAdd seq 1) base ≤ pidSub endId base := by omega
    have hso : pidSub seq t.baseId < W := by rw [hb]; omega
    -- recursion on a state with the same slots
    have same : ∀ t1 : State, t1.slots = t.slots → Inv W M t1 → Ord W t1 → Hon W t1 → t1.baseId = base →
        t1.endId = endId → Visited W t1 (pidAdd seq 1) → L1 W t1 (pidAdd seq 1) → L2 W t1 (pidAdd seq 1) →
        deliverLoopT base fuel t1 (pidAdd seq 1) endId evs = .ok (t', evs') →
        Done W t' ∧ ∃ new, evs' = evs ++ new ∧ Taken W base endId t t' new := by
      intro t1 hsl i1 i2 i3 i4 i5 i6 i7 i8 ht
      obtain ⟨d, new, e1, e2⟩ := ih t1 _ evs t' evs' i1 i2 i3 i4 i5 hn hle' i6 i7 i8 ht
      refine ⟨d, new, e1, ?_⟩
      intro k hk
      rw [← hsl] at hk
      exact e2 k hk
    -- `x` at or before `seq + 1` is before `seq` or is `seq`
    have split1 : ∀ x, x < 2^20 → pidSub x base < pidSub (pidAdd seq 1) base →
        pidSub x base < pidSub seq base ∨ x = seq := by
      intro x hx hxo
      rw [hoff] at hxo
      rcases Nat.lt_or_ge (pidSub x base) (pidSub seq base) with hlt | hge
      · exact Or.inl hlt
      · exact Or.inr (id_eq_of_off x seq base hx hs (by omega))
    simp only at h
    rw [widx_eq hinv, getSlot_eq] at h
    by_cases hf : (lget t.slots (wi W seq)).dataFlag = true
    case neg =>
      rw [if_neg hf] at h
      refine same t rfl hinv hord hhon hb hen
        (visited_next seq hs (by rw [hb]; exact hoff) hvis (fun h => absurd h hf)) ?_ ?_ h
      · intro x hx hxo hge hfx hd
        exact hl1 x hx hxo (by rw [hb] at hge ⊢; omega) hfx hd
      · intro x hx hxo hfx
        rw [hb] at hxo
        rcases split1 x hx hxo with hlt | rfl
        · exact hl2 x hx (by rw [hb]; exact hlt) hfx
        · exact absurd hfx hf
    rw [if_pos hf] at h
    have hchan : (lget t.slots (wi W seq)).chan < CHANNEL_COUNT := ((hinv.sok (wi W seq)).flagged hf).1
    obtain ⟨b, hbr⟩ := hinv.ready_get _ hchan
    rw [hbr] at h
    cases b with
    | false =>
      refine same t rfl hinv hord hhon hb hen
        (visited_next seq hs (by rw [hb]; exact hoff) hvis (fun _ => by rw [hbr]; intro hc; cases hc)) ?_ ?_ h
      · intro x hx hxo hge hfx hd
        exact hl1 x hx hxo (by rw [hb] at hge ⊢; omega) hfx hd
      · intro x hx hxo hfx
        rw [hb] at hxo
        rcases split1 x hx hxo with hlt | rfl
        · exact hl2 x hx (by rw [hb]; exact hlt) hfx
        · intro hd
          have := hl1 x hx hso (Nat.le_refl _) hfx hd
          rw [hbr] at this
          cases this
    | true =>
      simp only at h
      obtain ⟨ch, hch⟩ := hinv.chan_get _ hchan
      rw [chanBase_of_get hch] at h
      simp only at h
      have hcbeq : (cbase t (lget t.slots (wi W seq)).chan).getD base = cbO t (lget t.slots (wi W seq)).chan := by
        unfold cbO; rw [hb]
      rw [hcbeq] at h
      by_cases hcond : (lget t.slots (wi W seq)).cpl = 0 ∨ (lget t.slots (wi W seq)).cpl >
          pidSub seq (cbO t (lget t.slots (wi W seq)).chan)
      case neg =>
        rw [if_neg hcond] at h
        have hnd : ¬ Deliv W t seq := hcond
        obtain ⟨n1, n2⟩ := not_deliv_off hinv hord seq hs hso hf hnd
        have hinv' := hinv.setReady (t.readyFlags.set (lget t.slots (wi W seq)).chan false) (by simp [hinv.rlen])
        refine same { t with readyFlags := t.readyFlags.set (lget t.slots (wi W seq)).chan false } rfl hinv'
          (hord.congr rfl rfl rfl rfl) (fun x y => hhon x y) hb hen ?_ ?_ ?_ h
        · intro x hx hxo hfx
          show (t.readyFlags.set (lget t.slots (wi W seq)).chan false)[(lget t.slots (wi W x)).chan]? ≠ some true
          rw [List.getElem?_set]
          split
          · split <;> (intro hc; cases hc)
          · rename_i hne
            have hxo' : pidSub x t.baseId < pidSub (pidAdd seq 1) t.baseId := hxo
            rw [hb] at hxo'
            rcases split1 x hx hxo' with hlt | rfl
            · exact hvis x hx (by rw [hb]; exact hlt) hfx
            · exact absurd rfl hne
        · intro x hx hxo hge hfx hd
          have hxo' : pidSub x t.baseId < W := hxo
          have hge' : pidSub (pidAdd seq 1) t.baseId ≤ pidSub x t.baseId := hge
          have hfx' : (lget t.slots (wi W x)).dataFlag = true := hfx
          have hd' : Deliv W t x := hd
          show (t.readyFlags.set (lget t.slots (wi W seq)).chan false)[(lget t.slots (wi W x)).chan]? = some true
          rw [hb, hoff] at hge'
          by_cases hcc : (lget t.slots (wi W seq)).chan = (lget t.slots (wi W x)).chan
          · exfalso
            obtain ⟨m1, m2⟩ := hhon seq x hs hx (by rw [hb]; omega) hxo' hf hfx' hcc n1 (by omega)
            have hlx := cbO_le hord x hx hxo' hfx'
            obtain ⟨-, -, hsh⟩ := cbO_off hinv hord (lget t.slots (wi W x)).chan
            have := hsh x hx hlx
            unfold Deliv at hd'
            rw [this, ← hcc] at hd'
            rw [hb] at m2 n2 hd'
            omega
          · rw [getElem?_set_false_ne _ _ _ hcc]
            exact hl1 x hx hxo' (by rw [hb]; omega) hfx' hd'
        · intro x hx hxo hfx
          have hxo' : pidSub x t.baseId < pidSub (pidAdd seq 1) t.baseId := hxo
          rw [hb] at hxo'
          show ¬ Deliv W t x
          rcases split1 x hx hxo' with hlt | rfl
          · exact hl2 x hx (by rw [hb]; exact hlt) hfx
          · exact hnd
      rw [if_pos hcond, hch] at h
      simp only at h
      have hpos := hinv.count_pos (wi W seq) ch hf hch
      rw [if_neg (by omega)] at h
      have hfg : (getSlot t (widx t seq)).dataFlag = true := by rw [widx_eq hinv, getSlot_eq]; exact hf
      obtain ⟨ch', hch', -, hinv1⟩ := dlDeliver_inv hinv seq hfg
      rw [widx_eq hinv, getSlot_eq] at hch' hinv1
      rw [hch] at hch'
      cases hch'
      obtain ⟨t2, hs2, hinv2⟩ := setChannelBase_inv hinv1 _ hchan (pidAdd seq 1)
      rw [hs2] at h
      simp only at h
      have F := deliver_facts hinv seq ch (by rw [getSlot_eq]; exact hch) (pidAdd seq 1)
        (by rw [getSlot_eq]; exact hs2)
      rw [getSlot_eq] at F
      have hst : Shrunk t t2 := Shrunk.deliver t t2 _ ch _ _ hinv.wsz hs2
      obtain ⟨hrf, ch2, hch2, hcnt2⟩ := deliver_ready t t2 (wi W seq) (lget t.slots (wi W seq)) ch (pidAdd seq 1)
        hinv.wsz hch hs2
      have hjs : pidSub seq t.baseId < pidSub t.endId t.baseId := by rw [hb, hen]; exact hjlt
      have hord2 := deliver_ord hW hinv hord seq hs hjs hf hvis hbr F
      -- the other channels keep their base, `seq`'s channel moves to `seq + 1`
      have hcb2 : ∀ c', c' ≠ (lget t.slots (wi W seq)).chan → cbO t2 c' = cbO t c' := by
        intro c' hc'
        unfold cbO
        rw [F.cb, if_neg hc', F.base]
      have hdeliv2 : ∀ x, (lget t.slots (wi W x)).chan ≠ (lget t.slots (wi W seq)).chan →
          (Deliv W t2 x ↔ Deliv W t x) := by
        intro x hc'
        unfold Deliv
        rw [hst.cpl, hst.chan, hcb2 _ hc']
      have hflag2 : ∀ k, (lget t2.slots k).dataFlag = true → k ≠ wi W seq ∧ (lget t.slots k).dataFlag = true := by
        intro k hk
        rw [F.flag] at hk
        split at hk
        · cases hk
        · rename_i hne; exact ⟨hne, hk⟩
      have hvis2 : Visited W t2 (pidAdd seq 1) := by
        intro x hx hxo hfx
        rw [F.base, hb] at hxo
        obtain ⟨hne, hfx'⟩ := hflag2 _ hfx
        rw [F.chan]
        intro hc
        have hc' := F.ready _ hc
        rcases split1 x hx hxo with hlt | rfl
        · exact hvis x hx (by rw [hb]; exact hlt) hfx' hc'
        · exact hne rfl
      have hl1' : L1 W t2 (pidAdd seq 1) := by
        intro x hx hxo hge hfx hd
        rw [F.base] at hxo hge
        rw [hb, hoff] at hge
        obtain ⟨hne, hfx'⟩ := hflag2 _ hfx
        rw [hst.chan]
        by_cases hcc : (lget t.slots (wi W x)).chan = (lget t.slots (wi W seq)).chan
        · -- same channel: the counter is still positive, the flag stays
          have hpos2 := hinv2.count_pos (wi W x) ch2 hfx (by rw [hst.chan, hcc]; exact hch2)
          rw [hrf, if_neg (by omega), hcc]
          exact hbr
        · have hd' := (hdeliv2 x hcc).mp hd
          have := hl1 x hx hxo (by rw [hb]; omega) hfx' hd'
          rw [hrf]
          split
          · rw [getElem?_set_false_ne _ _ _ (fun h => hcc h.symm)]; exact this
          · exact this
      have hl2' : L2 W t2 (pidAdd seq 1) := by
        intro x hx hxo hfx
        rw [F.base, hb] at hxo
        obtain ⟨hne, hfx'⟩ := hflag2 _ hfx
        rcases split1 x hx hxo with hlt | rfl
        · have hcc : (lget t.slots (wi W x)).chan ≠ (lget t.slots (wi W seq)).chan := by
            intro hcc
            have := hvis x hx (by rw [hb]; exact hlt) hfx'
            rw [hcc] at this
            exact this hbr
          intro hd
          exact hl2 x hx (by rw [hb]; exact hlt) hfx' ((hdeliv2 x hcc).mp hd)
        · exact absurd rfl hne
      obtain ⟨d, new, e1, e2⟩ := ih t2 _ _ t' evs' hinv2 hord2 (hhon.of_shrunk hst)
        (by rw [F.base]; exact hb) (by rw [F.endId]; exact hen) hn hle' hvis2 hl1' hl2' h
      refine ⟨d, evOf seq (lget t.slots (wi W seq)) :: new, ?_, ?_⟩
      · rw [e1, List.append_assoc]; rfl
      · intro k hk
        by_cases hkk : k = wi W seq
        · right
          exact ⟨_, List.mem_cons_self, hs, hjlt, hkk.symm⟩
        · have : (lget t2.slots k).dataFlag = true := by rw [F.flag, if_neg hkk]; exact hk
          rcases e2 k this with h1 | ⟨ev, hev, r⟩
          · exact Or.inl h1
          · exact Or.inr ⟨ev, List.mem_cons_of_mem _ hev, r⟩

/-- `receiveT` in two halves: the delivery pass (state `s1`) and the optional window advance. -/
theorem receiveT_parts {W M : Nat} (hW : WOk W) {b0 adv : Nat} {log : List LogE} {s s' : State} {evs : List Ev}
    (hinv : Inv W M s) (h : Ord W s) (g : GI W b0 adv log s) (hrdy : Rdy W s) (hhon : Hon W s)
    (hr : receiveT s = .ok (s', evs)) :
    ∃ s1, Inv W M s1 ∧ Ord W s1 ∧ GI W b0 adv (log ++ evs.map (lift adv s.baseId)) s1 ∧ Shrunk s s1 ∧
      Done W s1 ∧ Taken W s.baseId s.endId s s1 evs ∧
      (∀ ev ∈ evs, ev.seq < 2^20 ∧ pidSub ev.seq s.baseId < pidSub s.endId s.baseId ∧
        (lget s.slots (wi W ev.seq)).dataFlag = true ∧ ev = evOf ev.seq (lget s.slots (wi W ev.seq))) ∧
      ((s1.windowReady = false ∧ s' = s1) ∨
       (∃ nb, nb < 2^20 ∧ pidSub nb s.baseId ≤ W ∧
          advanceWindow { s1 with windowReady := false } nb = .ok s')) := by
  have hvis : Visited W s s.baseId := by
    intro x _ hxo _
    rw [pidSub_self] at hxo
    exact absurd hxo (Nat.not_lt_zero _)
  obtain ⟨s1, new, hdl, hinv1, hord1, hgi1, hb1, he1, -⟩ := deliverLoopT_ord (M := M) hW b0 adv s.baseId s.endId
    hinv.elt loopFuel s s.baseId [] log hinv h g rfl rfl hinv.blt (by rw [pidSub_self]; exact Nat.zero_le _)
    hvis (loopFuel_gt _ _)
  obtain ⟨hsh, new2, hnew2, hev⟩ := deliverLoopT_content hW s.baseId s.endId hinv.blt hinv.elt h.ewin
    loopFuel s s.baseId [] s1 ([] ++ new) hinv.wsz hinv.blt (by rw [pidSub_self]; exact Nat.zero_le _) hdl
  have hcontent : ∀ ev ∈ new, ev.seq < 2^20 ∧ pidSub ev.seq s.baseId < pidSub s.endId s.baseId ∧
      (lget s.slots (wi W ev.seq)).dataFlag = true ∧ ev = evOf ev.seq (lget s.slots (wi W ev.seq)) := by
    intro ev hm
    simp only [List.nil_append] at hnew2
    subst hnew2
    obtain ⟨e1, -, e3, e4, e5⟩ := hev ev hm
    exact ⟨e1, e3, e4, e5⟩
  obtain ⟨hdone, new', hnew, htaken⟩ := deliverLoopT_done (M := M) hW s.baseId s.endId hinv.elt loopFuel s s.baseId []
    s1 ([] ++ new) hinv h hhon rfl rfl hinv.blt (by rw [pidSub_self]; exact Nat.zero_le _) hvis
    (fun x hx hxo _ hf hd => hrdy x hx hxo hf hd)
    (fun x _ hxo _ => by rw [pidSub_self] at hxo; exact absurd hxo (Nat.not_lt_zero _)) hdl
  simp only [List.nil_append] at hnew hgi1
  subst hnew
  rw [receiveT, hdl, bindR_ok] at hr
  simp only [List.nil_append] at hr
  unfold recvTailS at hr
  by_cases hw : s1.windowReady = true
  · rw [if_pos hw] at hr
    cases hwl : windowLoop loopFuel { s1 with windowReady := false } s.baseId s.endId s.baseId with
    | error t => rw [hwl] at hr; cases hr
    | ok nb =>
      rw [hwl, bindR_ok] at hr
      cases hadvw : advanceWindow { s1 with windowReady := false } nb with
      | error t => rw [hadvw] at hr; cases hr
      | ok s2 =>
        rw [hadvw, bindR_ok] at hr
        cases hr
        obtain ⟨hnb, hnle⟩ := windowLoop_le _ s.baseId s.endId hinv.blt hinv.elt loopFuel s.baseId s.baseId nb
          hinv.blt hinv.blt (by rw [pidSub_self]; exact Nat.zero_le _) (Nat.le_refl _) hwl
        have hew := h.ewin
        exact ⟨s1, hinv1, hord1, hgi1, hsh, hdone, htaken, hcontent, Or.inr ⟨nb, hnb, by omega, hadvw⟩⟩
  · rw [if_neg hw, bindR_ok] at hr
    cases hr
    exact ⟨s', hinv1, hord1, hgi1, hsh, hdone, htaken, hcontent, Or.inl ⟨by simpa using hw, rfl⟩⟩

end Uflow.Sys
