import Uflow.Lemmas.RateTcpInv

/-!
Invariants of the TFRC sender model and runs of events (used by `Props/C14` and `Props/C03Rate`).
-/

namespace Uflow.Rate

open Uflow.Gen

variable {F : Type}

/-! ## runs -/

/-- what can happen to a `SendRateComp`: a frame was sent, or `step` is called (with or without
feedback). -/
inductive Event (F : Type) where
  | sent (now : Nat)
  | step (now : Nat) (fb : Option (Feedback F))

def Event.time : Event F → Nat
  | .sent now => now
  | .step now _ => now

def applyEvent (ops : FloatOps F) (s : State F) : Event F → R (State F)
  | .sent now => .ok (notifyFrameSent s now)
  | .step now fb =>
    match step ops s now fb with
    | .error t => .error t
    | .ok (s', _) => .ok s'

/-- run a list of events; the first trap aborts the run. -/
def run (ops : FloatOps F) (s : State F) : List (Event F) → R (State F)
  | [] => .ok s
  | e :: es =>
    match applyEvent ops s e with
    | .error t => .error t
    | .ok s' => run ops s' es

/-- the event times never decrease, starting from `t0`. -/
def nondecreasing (t0 : Nat) : List (Event F) → Bool
  | [] => true
  | e :: es => decide (t0 ≤ e.time) && nondecreasing e.time es

/-- invariants of single events are invariants of runs. -/
theorem run_invariant {ops : FloatOps F} (P : State F → Prop)
    (hstep : ∀ s e s', P s → applyEvent ops s e = .ok s' → P s')
    {s s' : State F} {evs : List (Event F)} (h0 : P s) (h : run ops s evs = .ok s') : P s' := by
  induction evs generalizing s with
  | nil => cases h; exact h0
  | cons e es ih =>
    rw [run] at h
    cases he : applyEvent ops s e with
    | error t => rw [he] at h; cases h
    | ok s1 =>
      rw [he] at h
      exact ih (hstep s e s1 h0 he) h

theorem applyEvent_ok_cases {ops : FloatOps F} {s s' : State F} {e : Event F}
    (h : applyEvent ops s e = .ok s') :
    (∃ now, e = .sent now ∧ s' = notifyFrameSent s now) ∨
    (∃ now fb r, e = .step now fb ∧ step ops s now fb = .ok (s', r)) := by
  cases e with
  | sent now => cases h; exact Or.inl ⟨now, rfl, rfl⟩
  | step now fb =>
    rw [applyEvent] at h
    cases hs : step ops s now fb with
    | error t => rw [hs] at h; cases h
    | ok v =>
      obtain ⟨s1, r⟩ := v
      rw [hs] at h
      cases h
      exact Or.inr ⟨now, fb, r, rfl, hs⟩

/-! ## the ceiling -/

theorem notifyFrameSent_sendRate (s : State F) (now : Nat) :
    (notifyFrameSent s now).sendRate = s.sendRate ∧
    (notifyFrameSent s now).maxSendRate = s.maxSendRate := by
  unfold notifyFrameSent
  split <;> exact ⟨rfl, rfl⟩

theorem NfBranch.maxSendRate {ops : FloatOps F} {s s1 : State F} {now : Nat}
    (h : NfBranch ops s now s1) : s1.maxSendRate = s.maxSendRate := by
  cases h <;> rfl

theorem NfBranch.mode {ops : FloatOps F} {s s1 : State F} {now : Nat}
    (h : NfBranch ops s now s1) : s1.mode = s.mode := by
  cases h <;> rfl

theorem NfBranch.rttS {ops : FloatOps F} {s s1 : State F} {now : Nat}
    (h : NfBranch ops s now s1) : s1.rttS = s.rttS := by
  cases h <;> rfl

theorem step_maxSendRate {ops : FloatOps F} {s s' : State F} {now : Nat}
    {fb : Option (Feedback F)} {r : Option F} (h : step ops s now fb = .ok (s', r)) :
    s'.maxSendRate = s.maxSendRate := by
  cases step_ok_cases h with
  | idle _ _ => rfl
  | feedback fb _ _ _ hf =>
    obtain ⟨set, L, md, x, _, rfl, _⟩ := handleFeedback_ok_cases hf
    rfl
  | expired _ _ _ _ _ hn =>
    obtain ⟨s1, hb, rfl⟩ := nofeedbackExpired_ok_cases hn
    exact hb.maxSendRate

/-- after any feedback the rate is capped, whatever it was before. -/
theorem handleFeedback_ceiling {ops : FloatOps F} {s s' : State F} {now : Nat}
    {fb : Feedback F} {r : Option F} (h : handleFeedback ops s now fb = .ok (s', r)) :
    s'.sendRate ≤ s.maxSendRate := by
  obtain ⟨set, L, md, x, _, rfl, _⟩ := handleFeedback_ok_cases h
  exact Nat.min_le_right _ _

theorem step_ceiling {ops : FloatOps F} {s s' : State F} {now : Nat}
    {fb : Option (Feedback F)} {r : Option F} (h : step ops s now fb = .ok (s', r))
    (hc : s.sendRate ≤ s.maxSendRate) (hm : MINIMUM_RATE ≤ s.maxSendRate) :
    s'.sendRate ≤ s.maxSendRate := by
  cases step_ok_cases h with
  | idle _ _ => exact hc
  | feedback fb _ _ _ hf => exact handleFeedback_ceiling hf
  | expired _ _ _ _ _ hn =>
    obtain ⟨s1, hb, rfl⟩ := nofeedbackExpired_ok_cases hn
    show s1.sendRate ≤ s.maxSendRate
    cases hb with
    | keep _ => exact hc
    | halve ld _ =>
      show max (s.sendRate / 2) MINIMUM_RATE ≤ s.maxSendRate
      simp only [MINIMUM_RATE] at hm ⊢
      omega
    | limit tcp rtt recv _ _ _ => exact Nat.min_le_right _ _

/-! ## `RateInv`: the invariant under which `step` can not trap (except for the bisection fuel) -/

structure RateInv (s : State F) (now : Nat) : Prop where
  /-- once a frame has been sent the receive-rate set is never empty -/
  recvSet_ne : s.mode ≠ .awaitSend → s.recvSet ≠ []
  /-- the equation phase is only entered by a feedback, which sets the RTT -/
  rtt_some : ∀ tcp, s.mode = .eqn tcp → s.rttS.isSome = true
  /-- no receive-rate entry is from the future -/
  ts_le : ∀ e ∈ s.recvSet, e.ts ≤ now
  /-- the last doubling is not in the future -/
  doubled_le : ∀ t, s.mode = .slowStart (some t) → t ≤ now

theorem RateInv.mono {s : State F} {now now' : Nat} (h : RateInv s now) (hle : now ≤ now') :
    RateInv s now' where
  recvSet_ne := h.recvSet_ne
  rtt_some := h.rtt_some
  ts_le := fun e he => Nat.le_trans (h.ts_le e he) hle
  doubled_le := fun t ht => Nat.le_trans (h.doubled_le t ht) hle

theorem RateInv_init (ops : FloatOps F) (m now : Nat) : RateInv (init ops m) now where
  recvSet_ne := fun h => absurd rfl h
  rtt_some := fun tcp h => by cases h
  ts_le := fun e he => by cases he
  doubled_le := fun t h => by cases h

theorem RateInv_sent {s : State F} {now : Nat} (h : RateInv s now) :
    RateInv (notifyFrameSent s now) now := by
  unfold notifyFrameSent
  split
  · rename_i hm
    exact {
      recvSet_ne := fun _ => List.cons_ne_nil _ _
      rtt_some := fun tcp h' => by cases h'
      ts_le := fun e he => by
        simp only [List.mem_singleton] at he
        subst he
        exact Nat.le_refl _
      doubled_le := fun t h' => by cases h' }
  · exact {
      recvSet_ne := h.recvSet_ne
      rtt_some := h.rtt_some
      ts_le := h.ts_le
      doubled_le := h.doubled_le }

/-- `handle_feedback` under the invariant: it returns, or the bisection ran out of fuel. -/
theorem handleFeedback_notrap {ops : FloatOps F} {s : State F} {now : Nat} (fb : Feedback F)
    (h : RateInv s now) (hm : s.mode ≠ .awaitSend) :
    (∃ v, handleFeedback ops s now fb = .ok v) ∨
    (handleFeedback ops s now fb = .error .hang ∧ ∃ ld, s.mode = .slowStart ld ∧
      lossInc ops s fb = true ∧
      tcpInv ops (rttOf ops s fb) (ssTarget ops s fb ld) bisectFuel ops.zero ops.one
        = .error .hang) := by
  rw [handleFeedback_eq]
  obtain ⟨set, L, hu⟩ := updOf_ok ops s now fb h.ts_le
  rw [hu]
  simp only []
  cases hmode : s.mode with
  | awaitSend => exact absurd hmode hm
  | eqn t => exact Or.inl ⟨_, rfl⟩
  | slowStart ld =>
    simp only []
    cases hl : lossInc ops s fb with
    | true =>
      simp only [if_true]
      cases hp : tcpInv ops (rttOf ops s fb) (ssTarget ops s fb ld) bisectFuel ops.zero ops.one with
      | ok p => exact Or.inl ⟨_, rfl⟩
      | error t =>
        have := tcpInv_error _ _ _ _ _ _ _ hp
        subst this
        exact Or.inr ⟨rfl, ld, rfl, trivial, hp⟩
    | false =>
      simp only [Bool.false_eq_true, if_false]
      cases ld with
      | none => exact Or.inl ⟨_, rfl⟩
      | some t =>
        have ht := h.doubled_le t hmode
        simp only []
        rw [if_neg (by omega)]
        split
        · exact Or.inl ⟨_, rfl⟩
        · exact Or.inl ⟨_, rfl⟩

theorem nofeedbackExpired_notrap {ops : FloatOps F} {s : State F} {now : Nat}
    (h : RateInv s now) (hm : s.mode ≠ .awaitSend) :
    ∃ s', nofeedbackExpired ops s now = .ok s' := by
  rw [nofeedbackExpired_eq]
  suffices hc : ∃ s1, nfCore ops s now = .ok s1 by
    obtain ⟨s1, hs1⟩ := hc
    rw [hs1]
    exact ⟨_, rfl⟩
  unfold nfCore
  cases hmode : s.mode with
  | awaitSend => exact absurd hmode hm
  | slowStart ld =>
    simp only []
    cases s.rttS with
    | none => exact ⟨_, rfl⟩
    | some rtt =>
      simp only []
      split <;> exact ⟨_, rfl⟩
  | eqn tcp =>
    simp only []
    have hr := h.rtt_some tcp hmode
    cases hrtt : s.rttS with
    | none => rw [hrtt] at hr; cases hr
    | some rtt =>
      simp only []
      obtain ⟨recv, hrecv⟩ := setMax_ne_nil (h.recvSet_ne hm)
      rw [hrecv]
      simp only []
      split <;> exact ⟨_, rfl⟩

/-- `step` under the invariant: it returns, or the bisection ran out of fuel. -/
theorem step_notrap {ops : FloatOps F} {s : State F} {now : Nat} (fb : Option (Feedback F))
    (h : RateInv s now) :
    (∃ v, step ops s now fb = .ok v) ∨
    (step ops s now fb = .error .hang ∧ ∃ fb' ld, fb = some fb' ∧ s.mode = .slowStart ld ∧
      lossInc ops s fb' = true ∧
      tcpInv ops (rttOf ops s fb') (ssTarget ops s fb' ld) bisectFuel ops.zero ops.one
        = .error .hang) := by
  unfold step
  split
  · exact Or.inl ⟨_, rfl⟩
  · rename_i hm
    have hm' : s.mode ≠ .awaitSend := fun h' => hm h'
    cases fb with
    | some fb' =>
      simp only []
      rcases handleFeedback_notrap fb' h hm' with hok | ⟨he, ld, h1, h2, h3⟩
      · exact Or.inl hok
      · exact Or.inr ⟨he, fb', ld, rfl, h1, h2, h3⟩
    | none =>
      simp only []
      cases s.nofeedbackExp with
      | none => exact Or.inl ⟨_, rfl⟩
      | some exp =>
        simp only []
        split
        · obtain ⟨s', hs'⟩ := nofeedbackExpired_notrap (ops := ops) h hm'
          rw [hs']
          exact Or.inl ⟨_, rfl⟩
        · exact Or.inl ⟨_, rfl⟩

theorem RateInv_handleFeedback {ops : FloatOps F} {s s' : State F} {now : Nat} {fb : Feedback F}
    {r : Option F}
    (hf : handleFeedback ops s now fb = .ok (s', r)) : RateInv s' now := by
  obtain ⟨set, L, md, x, hu, rfl, hb⟩ := handleFeedback_ok_cases hf
  obtain ⟨hne, hts, _⟩ := updOf_eq_ok hu
  exact {
    recvSet_ne := fun _ => hne
    rtt_some := fun _ _ => rfl
    ts_le := hts
    doubled_le := by
      intro t' ht'
      change md = _ at ht'
      cases hb with
      | eqn _ _ => cases ht'
      | leave _ _ _ _ _ => cases ht'
      | first _ _ => cases ht'; exact Nat.le_refl _
      | double _ _ _ _ _ => cases ht'; exact Nat.le_refl _
      | keep t _ _ htn _ => cases ht'; exact htn }

theorem RateInv_nofeedbackExpired {ops : FloatOps F} {s s' : State F} {now : Nat}
    (h : RateInv s now)
    (hn : nofeedbackExpired ops s now = .ok s') : RateInv s' now := by
  obtain ⟨s1, hb, rfl⟩ := nofeedbackExpired_ok_cases hn
  cases hb with
  | keep _ => exact ⟨h.recvSet_ne, h.rtt_some, h.ts_le, h.doubled_le⟩
  | halve ld _ => exact ⟨h.recvSet_ne, h.rtt_some, h.ts_le, h.doubled_le⟩
  | limit tcp rtt recv _ _ _ =>
    refine ⟨fun _ => List.cons_ne_nil _ _, h.rtt_some, ?_, h.doubled_le⟩
    intro e he
    change e ∈ [_] at he
    simp only [List.mem_singleton] at he
    subst he
    exact Nat.le_refl _

theorem RateInv_step {ops : FloatOps F} {s s' : State F} {now : Nat} {fb : Option (Feedback F)}
    {r : Option F} (h : RateInv s now)
    (hs : step ops s now fb = .ok (s', r)) : RateInv s' now := by
  cases step_ok_cases hs with
  | idle _ _ => exact h
  | feedback fb _ _ _ hf => exact RateInv_handleFeedback hf
  | expired _ _ _ _ _ hn => exact RateInv_nofeedbackExpired h hn

/-- with converging bisection `step` never traps under the invariant. -/
theorem step_notrap_conv {ops : FloatOps F} {s : State F} {now : Nat} (fb : Option (Feedback F))
    (hconv : BisectConverges ops) (h : RateInv s now) : ∃ v, step ops s now fb = .ok v := by
  rcases step_notrap (ops := ops) fb h with hok | ⟨_, fb', ld, _, _, _, hhang⟩
  · exact hok
  · obtain ⟨p, hp⟩ := tcpInv_ok_of_within hconv (rttOf ops s fb') (ssTarget ops s fb' ld)
    rw [hp] at hhang
    cases hhang

/-! ### runs with non-decreasing time -/

theorem applyEvent_RateInv {ops : FloatOps F} {s s' : State F} {t0 : Nat} {e : Event F}
    (h : RateInv s t0) (ht : t0 ≤ e.time)
    (he : applyEvent ops s e = .ok s') : RateInv s' e.time ∧ s'.maxSendRate = s.maxSendRate := by
  rcases applyEvent_ok_cases he with ⟨now, rfl, rfl⟩ | ⟨now, fb, r, rfl, hs⟩
  · exact ⟨RateInv_sent (h.mono ht), (notifyFrameSent_sendRate s now).2⟩
  · exact ⟨RateInv_step (h.mono ht) hs, step_maxSendRate hs⟩

theorem applyEvent_notrap {ops : FloatOps F} {s : State F} {t0 : Nat} (e : Event F)
    (h : RateInv s t0) (ht : t0 ≤ e.time) :
    (∃ s', applyEvent ops s e = .ok s') ∨ applyEvent ops s e = .error .hang := by
  cases e with
  | sent now => exact Or.inl ⟨_, rfl⟩
  | step now fb =>
    rw [applyEvent]
    have ht' : t0 ≤ now := ht
    rcases step_notrap (ops := ops) fb (h.mono ht') with ⟨⟨s', r⟩, hok⟩ | ⟨herr, _⟩
    · rw [hok]; exact Or.inl ⟨_, rfl⟩
    · rw [herr]; exact Or.inr rfl

theorem run_RateInv {ops : FloatOps F} {s s' : State F} {t0 : Nat} {evs : List (Event F)}
    (h : RateInv s t0) (hnd : nondecreasing t0 evs = true)
    (hr : run ops s evs = .ok s') : ∃ t, t0 ≤ t ∧ RateInv s' t := by
  induction evs generalizing s t0 with
  | nil => cases hr; exact ⟨t0, Nat.le_refl _, h⟩
  | cons e es ih =>
    rw [nondecreasing, Bool.and_eq_true, decide_eq_true_eq] at hnd
    rw [run] at hr
    cases he : applyEvent ops s e with
    | error t => rw [he] at hr; cases hr
    | ok s1 =>
      rw [he] at hr
      obtain ⟨hinv, hmx⟩ := applyEvent_RateInv h hnd.1 he
      obtain ⟨t, ht, hinv'⟩ := ih hinv hnd.2 hr
      exact ⟨t, Nat.le_trans hnd.1 ht, hinv'⟩

theorem run_error_hang {ops : FloatOps F} {s : State F} {t0 : Nat} {evs : List (Event F)} {t : Trap}
    (h : RateInv s t0) (hnd : nondecreasing t0 evs = true)
    (hr : run ops s evs = .error t) : t = .hang := by
  induction evs generalizing s t0 with
  | nil => cases hr
  | cons e es ih =>
    rw [nondecreasing, Bool.and_eq_true, decide_eq_true_eq] at hnd
    rw [run] at hr
    rcases applyEvent_notrap (ops := ops) e h hnd.1 with ⟨s1, he⟩ | he
    · rw [he] at hr
      obtain ⟨hinv, hmx⟩ := applyEvent_RateInv h hnd.1 he
      exact ih hinv hnd.2 hr
    · rw [he] at hr
      cases hr
      rfl

theorem run_notrap_conv {ops : FloatOps F} {s : State F} {t0 : Nat} {evs : List (Event F)}
    (hconv : BisectConverges ops) (h : RateInv s t0)
    (hnd : nondecreasing t0 evs = true) : ∃ s', run ops s evs = .ok s' := by
  induction evs generalizing s t0 with
  | nil => exact ⟨s, rfl⟩
  | cons e es ih =>
    rw [nondecreasing, Bool.and_eq_true, decide_eq_true_eq] at hnd
    rw [run]
    have hok : ∃ s1, applyEvent ops s e = .ok s1 := by
      cases e with
      | sent now => exact ⟨_, rfl⟩
      | step now fb =>
        have ht' : t0 ≤ now := hnd.1
        obtain ⟨⟨s1, r⟩, hs⟩ := step_notrap_conv (ops := ops) fb hconv (h.mono ht')
        exact ⟨s1, by rw [applyEvent, hs]⟩
    obtain ⟨s1, he⟩ := hok
    rw [he]
    obtain ⟨hinv, hmx⟩ := applyEvent_RateInv h hnd.1 he
    exact ih hinv hnd.2

/-! ## `EqnInv`: the relation between rate, equation rate and receive-rate set that makes the
no-feedback rule of the equation phase non-increasing -/

/-- In the equation phase the rate is at least what the no-feedback rule would set it to. -/
def EqnInv (s : State F) : Prop :=
  ∀ tcp recv, s.mode = .eqn tcp → setMax s.recvSet = .ok recv →
    min (max (min tcp (max (satMul2 recv / 2) MINIMUM_RATE)) MINIMUM_RATE) s.maxSendRate
      ≤ s.sendRate

theorem EqnInv_init (ops : FloatOps F) (m : Nat) : EqnInv (init ops m) := by
  intro tcp recv h _
  cases h

theorem EqnInv_sent {s : State F} (h : EqnInv s) (now : Nat) : EqnInv (notifyFrameSent s now) := by
  unfold notifyFrameSent
  split
  · intro tcp recv h' _
    cases h'
  · exact h

theorem EqnInv_handleFeedback {ops : FloatOps F} {s s' : State F} {now : Nat} {fb : Feedback F}
    {r : Option F} (hf : handleFeedback ops s now fb = .ok (s', r)) : EqnInv s' := by
  obtain ⟨set, L, md, x, hu, rfl, hb⟩ := handleFeedback_ok_cases hf
  obtain ⟨_, _, m, hm, hL⟩ := updOf_eq_ok hu
  intro tcp recv hmode hrecv
  change md = _ at hmode
  change setMax set = _ at hrecv
  rw [hm] at hrecv
  cases hrecv
  show min (max (min tcp (max (satMul2 m / 2) MINIMUM_RATE)) MINIMUM_RATE) s.maxSendRate
    ≤ min x s.maxSendRate
  cases hb with
  | eqn _ _ => cases hmode; omega
  | leave _ _ _ _ _ => cases hmode; omega
  | first _ _ => cases hmode
  | double _ _ _ _ _ => cases hmode
  | keep _ _ _ _ _ => cases hmode

theorem EqnInv_nofeedbackExpired {ops : FloatOps F} {s s' : State F} {now : Nat}
    (h : EqnInv s) (hn : nofeedbackExpired ops s now = .ok s') : EqnInv s' := by
  obtain ⟨s1, hb, rfl⟩ := nofeedbackExpired_ok_cases hn
  cases hb with
  | keep _ => exact h
  | halve ld hm =>
    intro tcp recv hmode _
    change s.mode = _ at hmode
    rw [hm] at hmode
    cases hmode
  | limit tcp rtt recv hm _ _ =>
    intro tcp' recv' hmode hrecv
    change s.mode = _ at hmode
    rw [hm] at hmode
    cases hmode
    change setMax [_] = _ at hrecv
    rw [setMax_singleton] at hrecv
    cases hrecv
    show min (max (min tcp (max (satMul2 (max (min tcp (satMul2 recv) / 2) MINIMUM_RATE / 2) / 2)
      MINIMUM_RATE)) MINIMUM_RATE) s.maxSendRate ≤
      min (max (min tcp (max (min tcp (satMul2 recv) / 2) MINIMUM_RATE)) MINIMUM_RATE) s.maxSendRate
    have := satMul2_half_le (max (min tcp (satMul2 recv) / 2) MINIMUM_RATE / 2)
    omega

theorem EqnInv_step {ops : FloatOps F} {s s' : State F} {now : Nat} {fb : Option (Feedback F)}
    {r : Option F} (h : EqnInv s) (hs : step ops s now fb = .ok (s', r)) : EqnInv s' := by
  cases step_ok_cases hs with
  | idle _ _ => exact h
  | feedback fb _ _ _ hf => exact EqnInv_handleFeedback hf
  | expired _ _ _ _ _ hn => exact EqnInv_nofeedbackExpired h hn

theorem run_EqnInv {ops : FloatOps F} {s s' : State F} {evs : List (Event F)} (h : EqnInv s)
    (hr : run ops s evs = .ok s') : EqnInv s' := by
  refine run_invariant (ops := ops) EqnInv ?_ h hr
  intro s e s1 hs he
  rcases applyEvent_ok_cases he with ⟨now, rfl, rfl⟩ | ⟨now, fb, r, rfl, hst⟩
  · exact EqnInv_sent hs now
  · exact EqnInv_step hs hst

end Uflow.Rate
