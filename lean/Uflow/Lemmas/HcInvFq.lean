import Uflow.Lemmas.FrameQCullRun

/-!
C03 (half connection): the clock invariant `FqTime s t` of the frame queue (no send time, ack
data time or feedback time lies after `t`), which is what keeps the `u64` subtractions of
`get_feedback` from overflowing, and the insensitivity of `WInv` to the fields that the emitters and
`reset_loss_rate` write.
-/

namespace Uflow.FrameQ

open Uflow Uflow.Gen Uflow.Codec Uflow.Rate

variable {F : Type}

/-- No time recorded in the frame queue lies after `t`. -/
structure FqTime (s : State) (t : Nat) : Prop where
  frames : ∀ e ∈ s.frames, e.sendTime ≤ t
  ackData : ∀ d, s.ackData = some d → d.lastSendTime ≤ t
  lastFb : ∀ lf, s.lastFeedback = some lf → lf ≤ t

theorem FqTime.mono {s : State} {t t' : Nat} (h : FqTime s t) (hle : t ≤ t') : FqTime s t' :=
  ⟨fun e he => Nat.le_trans (h.frames e he) hle, fun d hd => Nat.le_trans (h.ackData d hd) hle,
   fun lf hl => Nat.le_trans (h.lastFb lf hl) hle⟩

theorem FqTime_init (size tail base t : Nat) : FqTime (init size tail base) t :=
  ⟨fun e he => (by cases he), fun d hd => (by cases hd), fun lf hl => (by cases hl)⟩

theorem FqTime_push (s : State) (size now : Nat) (refs : List (Nat × Nat)) (nonce : Bool) (t : Nat)
    (h : FqTime s t) (hle : now ≤ t) : FqTime (push s size now refs nonce) t := by
  unfold push
  split
  · refine ⟨?_, h.ackData, h.lastFb⟩
    intro e he
    simp only [List.mem_append, List.mem_singleton] at he
    rcases he with he | rfl
    · exact h.frames e he
    · exact hle
  · exact h

/-- `FqTime` only looks at `frames`, `ackData` and `lastFeedback`. -/
theorem FqTime_congr {s s' : State} {t : Nat} (h : FqTime s t) (h1 : s'.frames = s.frames)
    (h2 : s'.ackData = s.ackData) (h3 : s'.lastFeedback = s.lastFeedback) : FqTime s' t :=
  ⟨by rw [h1]; exact h.frames, by rw [h2]; exact h.ackData, by rw [h3]; exact h.lastFb⟩

theorem AckRel.frames_time {s s' : State} (h : AckRel s s') (t : Nat)
    (hf : ∀ e ∈ s.frames, e.sendTime ≤ t) : ∀ e ∈ s'.frames, e.sendTime ≤ t := by
  intro e' he'
  obtain ⟨k, hk, hke⟩ := List.mem_iff_getElem.mp he'
  have hk' : s'.frames[k]? = some e' := by rw [List.getElem?_eq_getElem hk, hke]
  obtain ⟨e, he, hle⟩ := h.frames_back k e' hk'
  rw [hle.fields.2.1]
  exact hf e (List.mem_of_getElem? he)

theorem ackLoop_lst (ack : AckGroup) (rtt : Option Nat) (t : Nat) (l : List Nat) :
    ∀ (s : State) (lst tot : Nat) (rl : Bool) (fr : List (Nat × Nat))
      (s' : State) (lst' tot' : Nat) (rl' : Bool) (fr' : List (Nat × Nat)),
      ackLoop ack rtt l s lst tot rl fr = .ok (s', lst', tot', rl', fr') →
      (∀ e ∈ s.frames, e.sendTime ≤ t) → lst ≤ t → lst' ≤ t := by
  induction l with
  | nil =>
    intro s lst tot rl fr s' lst' tot' rl' fr' h _ hl
    rw [ackLoop_nil] at h
    cases h
    exact hl
  | cons i l ih =>
    intro s lst tot rl fr s' lst' tot' rl' fr' h hf hl
    rw [ackLoop_cons] at h
    cases hk : s.frames[wsub32 (wadd32 ack.baseId i) s.logBase]? with
    | none => rw [hk] at h; cases h
    | some e =>
      rw [hk] at h
      simp only [] at h
      have het : e.sendTime ≤ t := hf e (List.mem_of_getElem? hk)
      by_cases hc : ack.bitfield / 2^i % 2 = 1 ∧ ¬ e.acked
      · rw [if_pos hc] at h
        have hacked : e.acked = false := by
          cases hx : e.acked with
          | false => rfl
          | true => exact absurd hx hc.2
        split at h
        · cases h
        · rename_i s2 hn
          obtain ⟨hrel2, _⟩ := notifyAck_rel hn
          have hrel1 := AckRel.set s _ e hk hacked
          refine ih _ _ _ _ _ _ _ _ _ _ h ((hrel1.trans hrel2).frames_time t hf) ?_
          exact Nat.max_le.mpr ⟨hl, het⟩
      · rw [if_neg hc] at h
        exact ih _ _ _ _ _ _ _ _ _ _ h hf hl

theorem FqTime_ack (s s' : State) (ack : AckGroup) (rtt : Option Nat) (frs : List (Nat × Nat))
    (t : Nat) (h : FqTime s t) (he : acknowledgeGroup s ack rtt = .ok (s', frs)) : FqTime s' t := by
  rcases acknowledgeGroup_inv he with ⟨rfl, _⟩ | ⟨_, _, s2, lst, tot, rl, hl, rfl⟩
  · exact h
  · obtain ⟨hrel, _, _⟩ := ackLoop_spec ack rtt _ _ _ _ _ _ _ _ _ _ _ hl
    have hlst := ackLoop_lst ack rtt t _ _ _ _ _ _ _ _ _ _ _ hl h.frames (Nat.zero_le _)
    have hfr := hrel.frames_time t h.frames
    unfold ackFinish
    split
    · exact ⟨hfr, by rw [hrel.ackData]; exact h.ackData, by rw [hrel.lastFeedback]; exact h.lastFb⟩
    · refine ⟨hfr, ?_, by show ∀ lf, s2.lastFeedback = some lf → lf ≤ t; rw [hrel.lastFeedback]; exact h.lastFb⟩
      intro d hd
      simp only [Option.some.injEq] at hd
      subst hd
      split
      · rename_i d0 hd0
        have := h.ackData d0 (by rw [← hrel.ackData]; exact hd0)
        exact Nat.max_le.mpr ⟨this, hlst⟩
      · exact hlst

/-! ### `cull` and its callers -/

theorem cullG_shape (ac : State → Option Nat → Cb → List Interval → R (List Interval))
    (adv : Reorder → Nat → R (Reorder × Cb)) (can : Reorder → Nat → Bool) (d : Nat → Nat → Nat)
    (s s' : State) (nb : Nat) (rtt : Option Nat) (h : cullG ac adv can d s nb rtt = .ok s') :
    ∃ r l, s' = { s with reorder := r, intervals := l, frames := s.frames.drop (d nb s.logBase),
                         logBase := nb } := by
  unfold cullG at h
  simp only [] at h
  by_cases hcan : can s.reorder nb = true
  · rw [if_pos hcan] at h
    cases hadv : adv s.reorder nb with
    | error t => rw [hadv] at h; cases h
    | ok v =>
      obtain ⟨r', cb⟩ := v
      rw [hadv] at h
      simp only [] at h
      cases hl : ac s rtt cb s.intervals with
      | error t => rw [hl] at h; cases h
      | ok l =>
        rw [hl] at h
        simp only [] at h
        split at h
        · cases h
        · cases h; exact ⟨r', l, rfl⟩
  · rw [if_neg hcan] at h
    simp only [] at h
    split at h
    · cases h
    · cases h; exact ⟨s.reorder, s.intervals, rfl⟩

theorem cull_shape (s s' : State) (nb : Nat) (rtt : Option Nat) (h : cull s nb rtt = .ok s') :
    ∃ r l, s' = { s with reorder := r, intervals := l, frames := s.frames.drop (wsub32 nb s.logBase),
                         logBase := nb } := by
  rw [cull_eq_G] at h
  exact cullG_shape _ _ _ _ s s' nb rtt h

theorem FqTime_cull (s s' : State) (nb : Nat) (rtt : Option Nat) (t : Nat) (h : FqTime s t)
    (he : cull s nb rtt = .ok s') : FqTime s' t := by
  obtain ⟨r, l, rfl⟩ := cull_shape s s' nb rtt he
  exact ⟨fun e he => h.frames e (List.mem_of_mem_drop he), h.ackData, h.lastFb⟩

theorem FqTime_atw (s s' : State) (nb : Nat) (rtt : Option Nat) (t : Nat) (h : FqTime s t)
    (he : advanceTransferWindow s nb rtt = .ok s') : FqTime s' t := by
  rw [atw_eq_G] at he
  by_cases hcan : canAdvanceTransferWindow s nb = true
  case neg => rw [atwG_no _ _ _ s nb rtt hcan] at he; cases he; exact h
  have h1 : FqTime { s with winBase := nb } t := ⟨h.frames, h.ackData, h.lastFb⟩
  by_cases hd : wsub32 (wsub32 nb s.tailSize) s.logBase ≠ 0 ∧
      wsub32 (wsub32 nb s.tailSize) s.logBase ≤ s.frames.length % 2^32
  · rw [atwG_cull _ _ _ s nb rtt hcan hd] at he
    exact FqTime_cull _ _ _ _ t h1 he
  · rw [atwG_keep _ _ _ s nb rtt hcan hd] at he
    cases he; exact h1

theorem FqTime_forget (s s' : State) (thresh : Nat) (rtt : Option Nat) (t : Nat) (h : FqTime s t)
    (he : forgetFrames s thresh rtt = .ok s') : FqTime s' t := by
  rw [ff_eq_G, ffG_eq] at he
  split at he
  · exact FqTime_cull _ _ _ _ t h he
  · cases he; exact h

/-! ### `get_feedback`, `reset_loss_rate` -/

/-- `get_feedback` cannot overflow when the clock has not run backwards. -/
theorem getFeedback_ok (ops : FloatOps F) (s : State) (now : Nat) (h : FqTime s now) :
    ∃ s' fb, getFeedback ops s now = .ok (s', fb) ∧ FqTime s' now ∧
      (∀ f, fb = some f → f.lossRate = ops.lossRate (s.intervals.map (·.length))) ∧
      s'.intervals = s.intervals := by
  unfold getFeedback
  cases hd : s.ackData with
  | none => exact ⟨s, none, rfl, h, fun f hf => (by cases hf), rfl⟩
  | some d =>
    simp only []
    have h1 : ¬ now < d.lastSendTime := by have := h.ackData d hd; omega
    rw [if_neg h1]
    cases hlf : s.lastFeedback with
    | none =>
      simp only []
      refine ⟨_, _, rfl, ⟨h.frames, fun d hd => (by cases hd), fun lf hl => ?_⟩, ?_, rfl⟩
      · simp only [Option.some.injEq] at hl; omega
      · intro f hf; cases hf; rfl
    | some lf =>
      simp only []
      have h2 : ¬ now < lf := by have := h.lastFb lf hlf; omega
      rw [if_neg h2]
      simp only []
      refine ⟨_, _, rfl, ⟨h.frames, fun d hd => (by cases hd), fun lf hl => ?_⟩, ?_, rfl⟩
      · simp only [Option.some.injEq] at hl; omega
      · intro f hf; cases hf; rfl

/-- `WInv` does not depend on `rateLimited`, `intervals`, `ackData`, `lastFeedback`. -/
theorem WInv_congr {s s' : State} (h : WInv s) (h1 : s'.logNext = s.logNext)
    (h2 : s'.logBase = s.logBase) (h3 : s'.frames = s.frames) (h4 : s'.reorder = s.reorder)
    (h5 : s'.winBase = s.winBase) (h6 : s'.winSize = s.winSize) (h7 : s'.tailSize = s.tailSize) :
    WInv s' := by
  refine ⟨⟨?_, ?_⟩, ?_, ?_, ?_, ?_, ?_⟩
  · rw [h2, h3, h4]; exact h.ack.rinv
  · intro x hx
    rw [h4] at hx
    obtain ⟨e, he, ha⟩ := h.ack.bufAcked x hx
    exact ⟨e, by unfold getFrame at he ⊢; rw [h2, h3]; exact he, ha⟩
  · rw [h4, h6, h7]; exact h.ms
  · rw [h6, h7]; exact h.small
  · rw [h1, h2, h3]; exact h.next
  · rw [h1, h5, h6]; exact h.win
  · rw [h1, h3, h5, h7]; exact h.tail

theorem resetLossRate_ok (ops : FloatOps F) (s : State) (p : F) (hne : s.intervals ≠ []) :
    ∃ s', resetLossRate ops s p = .ok s' ∧ s'.logNext = s.logNext ∧ s'.logBase = s.logBase ∧
      s'.frames = s.frames ∧ s'.reorder = s.reorder ∧ s'.winBase = s.winBase ∧
      s'.winSize = s.winSize ∧ s'.tailSize = s.tailSize ∧ s'.ackData = s.ackData ∧
      s'.lastFeedback = s.lastFeedback := by
  unfold resetLossRate
  cases hi : s.intervals with
  | nil => exact absurd hi hne
  | cons i rest => exact ⟨_, rfl, rfl, rfl, rfl, rfl, rfl, rfl, rfl, rfl, rfl⟩

end Uflow.FrameQ
