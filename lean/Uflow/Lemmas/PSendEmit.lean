import Uflow.Model.PSend
import Uflow.Lemmas.Frag

/-!
Helper lemmas for C12 / C13: what `PSend.dropStale` and `PSend.emit` do to the send queue and
the packet window.
-/

namespace Uflow.PSend

open Uflow Uflow.Gen

/-- A queue entry is stale for flush `f`: TimeSensitive and stamped with another flush id. -/
def Stale (f : Nat) (q : QEntry) : Prop := q.mode = .timeSensitive ∧ q.flushId ≠ f

instance (f : Nat) (q : QEntry) : Decidable (Stale f q) := by unfold Stale; infer_instance

/-- `dropStale` removes a prefix of stale entries (debiting their sizes) and stops at the first
entry that is not stale. -/
theorem dropStale_prefix (f : Nat) (q q' : List QEntry) (t t' : Nat)
    (h : dropStale f q t = .ok (q', t')) :
    ∃ dropped, q = dropped ++ q' ∧ (∀ d ∈ dropped, Stale f d) ∧
      (∀ x rest, q' = x :: rest → ¬ Stale f x) ∧
      t' + (dropped.map (·.data.length)).sum = t := by
  induction q generalizing t with
  | nil =>
    simp only [dropStale, Except.ok.injEq, Prod.mk.injEq] at h
    obtain ⟨rfl, rfl⟩ := h
    exact ⟨[], rfl, by simp, by simp, by simp⟩
  | cons e rest ih =>
    unfold dropStale at h
    split at h
    · rename_i hst
      split at h
      · cases h
      · rename_i hge
        obtain ⟨dropped, h1, h2, h3, h4⟩ := ih _ h
        refine ⟨e :: dropped, by rw [h1]; rfl, ?_, h3, ?_⟩
        · intro d hd
          simp only [List.mem_cons] at hd
          rcases hd with rfl | hd
          · exact hst
          · exact h2 d hd
        · simp only [List.map_cons, List.sum_cons]
          omega
    · rename_i hst
      simp only [Except.ok.injEq, Prod.mk.injEq] at h
      obtain ⟨rfl, rfl⟩ := h
      refine ⟨[], rfl, by simp, ?_, by simp⟩
      intro x r hx
      cases hx
      exact hst

/-- Case analysis of a successful `emit`. Either no packet is assigned an id and only the stale
prefix is removed from the queue, or the first non-stale entry `q` is moved to the end of the window
as a fresh pending packet `p` (identity `s.nextUid`, no fragment acknowledged), with
`resend = true` iff the mode of `q` is Persistent or Reliable. -/
theorem emit_cases (s s' : State) (f : Nat) (r : Option (Pending × Bool))
    (h : emit s f = .ok (s', r)) :
    ∃ dropped queue total,
      dropStale f s.queue s.totalSize = .ok (queue, total) ∧
      s.queue = dropped ++ queue ∧ (∀ d ∈ dropped, Stale f d) ∧
      ((r = none ∧ s' = { s with queue := queue, totalSize := total }) ∨
       (∃ q rest p resend w,
          queue = q :: rest ∧ r = some (p, resend) ∧ ¬ Stale f q ∧
          p.uid = s.nextUid ∧ p.data = q.data ∧ p.channelId = q.channelId ∧ p.acked = [] ∧
          p.lastFragmentId = (numFragments q.data.length - 1) % 2 ^ 16 ∧
          p.expiry = (if q.mode = .timeSensitive then some q.flushId else none) ∧
          (resend = true ↔ (q.mode = .persistent ∨ q.mode = .reliable)) ∧
          w.packet = p ∧
          s'.queue = rest ∧ s'.win = s.win ++ [w] ∧ s'.nextUid = s.nextUid + 1 ∧
          s'.baseId = s.baseId)) := by
  unfold emit at h
  split at h
  · cases h
  · rename_i queue total hds
    obtain ⟨dropped, h1, h2, h3, _⟩ := dropStale_prefix f s.queue queue s.totalSize total hds
    refine ⟨dropped, queue, total, hds, h1, h2, ?_⟩
    simp only at h
    split at h
    · simp only [Except.ok.injEq, Prod.mk.injEq] at h
      exact .inl ⟨h.2.symm, h.1.symm⟩
    · rename_i q rest
      split at h
      · simp only [Except.ok.injEq, Prod.mk.injEq] at h
        exact .inl ⟨h.2.symm, h.1.symm⟩
      · split at h
        · simp only [Except.ok.injEq, Prod.mk.injEq] at h
          exact .inl ⟨h.2.symm, h.1.symm⟩
        · split at h
          · cases h
          · simp only [Except.ok.injEq, Prod.mk.injEq] at h
            obtain ⟨hs, hr⟩ := h
            refine .inr ⟨q, rest, _, _, { packet := _, allocSize := allocSize q.data.length, channelId := q.channelId }, rfl, hr.symm, h3 q rest rfl, rfl, rfl, rfl, rfl, rfl, rfl, ?_,
              rfl, ?_, ?_, ?_, ?_⟩
            · simp
            all_goals (subst hs; rfl)

/-- A pending packet built by `emit` from a queue entry within `MAX_PACKET_SIZE` slices into
fragments of at most 1448 bytes. -/
theorem emit_pkt_bound (n last : Nat) (hn : n ≤ MAX_PACKET_SIZE)
    (hl : last = (numFragments n - 1) % 2 ^ 16) : n ≤ (last + 1) * 1448 := by
  have h1 := Frag.numFragments_le n hn
  have h2 := Frag.numFragments_pos n
  have h3 := (Frag.last_bounds n).2
  have : last + 1 = numFragments n := by omega
  rw [this]
  exact h3

end Uflow.PSend
