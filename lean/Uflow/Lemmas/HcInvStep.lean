import Uflow.Lemmas.HcInvLoops
import Uflow.Lemmas.HcFrameStep

/-!
C03 (half connection): `HalfConnection::step`. Under a monotone clock, a converging bisection
(`BisectConverges`, the residual assumption of `C03Rate`) and `LossOk` (the loss rate of an empty
loss history is not greater than anything: `0.0 > p` is false), `step` never traps and preserves the
invariant.
-/

namespace Uflow.HcInv

open Uflow Uflow.Gen Uflow.Codec Uflow.HalfConn Uflow.HcFrame
open Uflow.Rate (FloatOps RateInv BisectConverges)
open Uflow.PSend (PsInv FragOk UidLt)
open Uflow.FrameQ (WInv FqTime)
open Uflow.Credit (PsOk)

variable {F : Type}

/-- The loss rate computed from an empty loss history never counts as a loss increase
(`compute_loss_rate` returns `0.0` for no intervals, and `0.0 > p` is false for every `p ≥ 0`).
Without it `reset_loss_rate` can index an empty interval queue, see `C03_hc_step_reset_witness` in `Uflow/Props/C03Hc.lean`. -/
def LossOk (ops : FloatOps F) : Prop := ∀ p, ops.gt (ops.lossRate []) p = false

theorem fill_proj (ops : FloatOps F) (s : State F) (now : Nat) :
    (fillFlushAlloc ops s now).ps = s.ps ∧ (fillFlushAlloc ops s now).pending = s.pending ∧
    (fillFlushAlloc ops s now).resend = s.resend ∧ (fillFlushAlloc ops s now).pr = s.pr ∧
    (fillFlushAlloc ops s now).timeBase = s.timeBase ∧
    (fillFlushAlloc ops s now).timeLastFlushed = some now ∧
    (fillFlushAlloc ops s now).syncTimeoutBase = s.syncTimeoutBase ∧
    (fillFlushAlloc ops s now).nowMs = s.nowMs ∧ (fillFlushAlloc ops s now).fq = s.fq ∧
    (fillFlushAlloc ops s now).rate = s.rate := by
  cases hl : s.timeLastFlushed <;> simp [fillFlushAlloc, hl]

theorem HcInv.stepFinal {s s' : State F} (h : HcInv s) (now : Nat) (hps : s'.ps = s.ps)
    (hpend : s'.pending = s.pending) (hres : s'.resend = s.resend) (hpr : s'.pr = s.pr)
    (htb : s'.timeBase = s.timeBase) (htl : s'.timeLastFlushed = some now)
    (hsync : s'.syncTimeoutBase = s.syncTimeoutBase) (hmono : s.nowMs ≤ s'.nowMs)
    (hnow : s'.nowMs = (now - s.timeBase) / 1000000) (hfq : WInv s'.fq)
    (hfqt : FqTime s'.fq s'.nowMs) (hrate : RateInv s'.rate s'.nowMs) : HcInv s' where
  ps := by rw [hps]; exact h.ps
  pok := by rw [hps]; exact h.pok
  uid := by rw [hps]; exact h.uid
  pend := by rw [hps, hpend]; exact h.pend
  res := by rw [hps, hres]; exact h.res
  fq := hfq
  fqt := hfqt
  pr := by rw [hpr]; exact h.pr
  rate := hrate
  sync := by rw [hsync]; exact Nat.le_trans h.sync hmono
  clock := by unfold lastNow; rw [htl, htb, hnow]; rfl

/-- What the generic proof needs to know about the functions called by `step`. -/
structure StepFns (ops : FloatOps F)
    (ff : FrameQ.State → Nat → Option Nat → R FrameQ.State)
    (gf : FrameQ.State → Nat → R (FrameQ.State × Option (Rate.Feedback F)))
    (rs : Rate.State F → Nat → Option (Rate.Feedback F) → R (Rate.State F × Option F))
    (rl : FrameQ.State → F → R FrameQ.State) : Prop where
  ff_ok : ∀ fq th rtt t, WInv fq → FqTime fq t → ∃ fq', ff fq th rtt = .ok fq' ∧ WInv fq' ∧ FqTime fq' t
  gf_ok : ∀ fq t, WInv fq → FqTime fq t → ∃ fq' fb, gf fq t = .ok (fq', fb) ∧ WInv fq' ∧ FqTime fq' t ∧
    (∀ f, fb = some f → f.lossRate = ops.lossRate (fq.intervals.map (·.length))) ∧
    fq'.intervals = fq.intervals
  rs_ok : ∀ r t fb, RateInv r t → ∃ r' reset, rs r t fb = .ok (r', reset) ∧
    RateInv r' t ∧
    (∀ p, reset = some p → ∃ f, fb = some f ∧ ops.gt f.lossRate r.prevLossRate = true)
  rl_ok : ∀ fq p t, fq.intervals ≠ [] → WInv fq → FqTime fq t →
    ∃ fq', rl fq p = .ok fq' ∧ WInv fq' ∧ FqTime fq' t

theorem stepFns_model (ops : FloatOps F) (hconv : BisectConverges ops) :
    StepFns ops FrameQ.forgetFrames (FrameQ.getFeedback ops) (Rate.step ops) (FrameQ.resetLossRate ops) where
  ff_ok := by
    intro fq th rtt t hw ht
    obtain ⟨fq', he, hw'⟩ := FrameQ.WInv_forget fq th rtt hw
    exact ⟨fq', he, hw', FrameQ.FqTime_forget _ _ _ _ _ ht he⟩
  gf_ok := by
    intro fq t hw ht
    obtain ⟨fq', fb, he, ht', hl, hi⟩ := FrameQ.getFeedback_ok ops fq t ht
    exact ⟨fq', fb, he, FrameQ.WInv_feedback ops fq fq' t fb hw he, ht', hl, hi⟩
  rs_ok := by
    intro r t fb hr
    obtain ⟨⟨r', reset⟩, he⟩ := Rate.step_notrap_conv fb hconv hr
    refine ⟨r', reset, he, Rate.RateInv_step hr he, ?_⟩
    intro p hp
    subst hp
    cases Rate.step_ok_cases he with
    | feedback f _ _ _ hf =>
      refine ⟨f, rfl, ?_⟩
      obtain ⟨set, L, md, x, _, _, hb⟩ := Rate.handleFeedback_ok_cases hf
      cases hb with
      | leave ld p hm hl hp => exact hl
  rl_ok := by
    intro fq p t hne hw ht
    obtain ⟨fq', he, e1, e2, e3, e4, e5, e6, e7, e8, e9⟩ := FrameQ.resetLossRate_ok ops fq p hne
    exact ⟨fq', he, FrameQ.WInv_congr hw e1 e2 e3 e4 e5 e6 e7, FrameQ.FqTime_congr ht e3 e8 e9⟩

theorem stepP_ok (ops : FloatOps F) (hloss : LossOk ops)
    {ff : FrameQ.State → Nat → Option Nat → R FrameQ.State}
    {gf : FrameQ.State → Nat → R (FrameQ.State × Option (Rate.Feedback F))}
    {rs : Rate.State F → Nat → Option (Rate.Feedback F) → R (Rate.State F × Option F)}
    {rl : FrameQ.State → F → R FrameQ.State} (hf : StepFns ops ff gf rs rl)
    (s : State F) (now nowMs : Nat) (w : Nat → Nat → Nat) (h : HcInv s)
    (hmono : s.nowMs ≤ nowMs) (hnow : nowMs = (now - s.timeBase) / 1000000) :
    ∃ s', stepP ops s now nowMs w ff gf rs rl = .ok s' ∧ HcInv s' ∧ lastNow s' = now := by
  unfold stepP
  simp only []
  obtain ⟨fq1, he1, hw1, ht1⟩ := hf.ff_ok s.fq
    (nowMs - max (s.rate.rttMs.getD INITIAL_RTT_ESTIMATE_MS * FORGET_RTT_MULT)
      (s.rate.rtoMs.getD INITIAL_RTO_ESTIMATE_MS)) s.rate.rttMs nowMs h.fq (h.fqt.mono hmono)
  rw [he1]
  simp only []
  obtain ⟨k1, k2, k3, k4, k5, k6, k7, k8, k9, k10⟩ := fill_proj ops
    ({ s with nowMs := nowMs, rttMs := s.rate.rttMs.getD INITIAL_RTT_ESTIMATE_MS,
              rtoMs := s.rate.rtoMs.getD INITIAL_RTO_ESTIMATE_MS, fq := fq1 } : State F) now
  simp only [] at k1 k2 k3 k4 k5 k6 k7 k8 k9 k10
  rw [k9]
  obtain ⟨fq2, fb, he2, hw2, ht2, hl2, hi2⟩ := hf.gf_ok fq1 nowMs hw1 ht1
  rw [he2]
  simp only []
  rw [k10]
  obtain ⟨r', reset, he3, hr3, hreset⟩ := hf.rs_ok s.rate nowMs fb (h.rate.mono hmono)
  rw [he3]
  simp only []
  have hfinal : ∀ fqX : FrameQ.State, WInv fqX → FqTime fqX nowMs →
      HcInv ({ ({ fillFlushAlloc ops ({ s with nowMs := nowMs, rttMs := s.rate.rttMs.getD INITIAL_RTT_ESTIMATE_MS, rtoMs := s.rate.rtoMs.getD INITIAL_RTO_ESTIMATE_MS, fq := fq1 } : State F) now with flushId := w (fillFlushAlloc ops ({ s with nowMs := nowMs, rttMs := s.rate.rttMs.getD INITIAL_RTT_ESTIMATE_MS, rtoMs := s.rate.rtoMs.getD INITIAL_RTO_ESTIMATE_MS, fq := fq1 } : State F) now).flushId 1 } : State F) with fq := fqX, rate := r' } : State F) ∧
      lastNow ({ ({ fillFlushAlloc ops ({ s with nowMs := nowMs, rttMs := s.rate.rttMs.getD INITIAL_RTT_ESTIMATE_MS, rtoMs := s.rate.rtoMs.getD INITIAL_RTO_ESTIMATE_MS, fq := fq1 } : State F) now with flushId := w (fillFlushAlloc ops ({ s with nowMs := nowMs, rttMs := s.rate.rttMs.getD INITIAL_RTT_ESTIMATE_MS, rtoMs := s.rate.rtoMs.getD INITIAL_RTO_ESTIMATE_MS, fq := fq1 } : State F) now).flushId 1 } : State F) with fq := fqX, rate := r' } : State F) = now := by
    intro fqX hwX htX
    refine ⟨h.stepFinal now k1 k2 k3 k4 k5 k6 k7 ?_ ?_ hwX ?_ ?_, ?_⟩
    · simp only []
      rw [k8]; exact hmono
    · simp only []
      rw [k8]; exact hnow
    · simp only []
      rw [k8]; exact htX
    · simp only []
      rw [k8]; exact hr3
    · unfold lastNow
      simp only []
      rw [k6]; rfl
  cases reset with
  | none =>
    simp only []
    obtain ⟨hi, hl⟩ := hfinal fq2 hw2 ht2
    exact ⟨_, rfl, hi, hl⟩
  | some p =>
    simp only []
    obtain ⟨f, hfb, hgt⟩ := hreset p rfl
    have hne : fq2.intervals ≠ [] := by
      intro hnil
      rw [hi2] at hnil
      have := hl2 f hfb
      rw [hnil] at this
      simp only [List.map_nil] at this
      rw [this, hloss] at hgt
      cases hgt
    obtain ⟨fq3, he4, hw4, ht4⟩ := hf.rl_ok fq2 p nowMs hne hw2 ht2
    rw [he4]
    simp only []
    obtain ⟨hi, hl⟩ := hfinal fq3 hw4 ht4
    exact ⟨_, rfl, hi, hl⟩

/-- `HalfConnection::step` with a clock that has not run backwards: no trap, invariant kept. -/
theorem step_ok (ops : FloatOps F) (hconv : BisectConverges ops) (hloss : LossOk ops) (s : State F)
    (now : Nat) (h : HcInv s) (hclock : lastNow s ≤ now) :
    ∃ s', step ops s now = .ok s' ∧ HcInv s' ∧ lastNow s' = now := by
  rw [step_eq]
  refine stepP_ok ops hloss (stepFns_model ops hconv) s now _ wadd32 h ?_ rfl
  rw [h.clock]
  exact Nat.div_le_div_right (Nat.sub_le_sub_right hclock _)

end Uflow.HcInv
