import Uflow.Lemmas.SysSend
import Uflow.Lemmas.SysRecv
import Uflow.Lemmas.SysResync

/-!
The composed system (C01Sys), part 5: the system invariant `SInv` and its preservation by every step
of `stepS`, hence by every run from `initS`.
-/

namespace Uflow.Sys

open Uflow Uflow.Gen Uflow.Codec Uflow.PSend Uflow.PRecv Uflow.Frag
open Uflow.Props.C20 (Op)

/-- The invariant linking sender, network and receiver. `b0` common initial id, `w` send window,
`W` receive window, `M` receive allocation ceiling. -/
structure SInv (b0 w W M : Nat) (s : Sys) : Prop where
  snd : SndInv b0 w s
  rcv : GInv W M b0 s.rcv
  cinv : CInv W s.pend s.rcv.adv s.rcv.st
  /-- the sender's window base (unwrapped) is not ahead of the receiver's -/
  lo : s.hist.emitted.length - s.snd.win.length ≤ s.rcv.adv
  /-- the receiver's window base is not ahead of the sender's next id -/
  hi : s.rcv.adv ≤ s.hist.emitted.length
  seen : ∀ a rb, (a, rb) ∈ s.seen → a ≤ s.rcv.adv ∧ rb = (b0 + a) % 2^20
  /-- every packet taken out of the receive window is the emitted packet at its unwrapped id -/
  log : ∀ e ∈ s.rcv.log, EvOk s.pend e.uid e.chan e.cpl e.wpl e.data
  wbmono : s.rcv.log.Pairwise (fun a b => a.wb ≤ b.wb)
  /-- a packet is taken out of the receive window when the window base is at or beyond the send
  window base of the time the packet was emitted -/
  logbase : ∀ e ∈ s.rcv.log, ∀ em : Emitted, s.hist.emitted[e.uid]? = some em →
    em.uid - pidSub em.sequenceId em.baseAt ≤ e.wb
  /-- a recorded sync value is a past value of the sender's next id -/
  syncs : ∀ n id, (n, id) ∈ s.syncs → n ≤ s.hist.emitted.length ∧ id = (b0 + n) % 2^20

theorem sinv_init (w W b a m : Nat) (hW : 0 < W) (hb : b < 2^20) :
    SInv b w W (allocCeil m) (initS w W b a m) where
  snd := sndInv_init w W b a m hb
  rcv := ginv_init W b m hW hb
  cinv := by
    intro x _ _
    show SlotC [] _ (lget [] _)
    rw [lget_nil]
    exact ⟨fun h => (by cases h), fun h => (by cases h), fun _ _ _ _ _ _ h => (by cases h)⟩
  lo := Nat.zero_le _
  hi := Nat.zero_le _
  seen := by
    intro a rb h
    simp only [initS, List.mem_singleton, Prod.mk.injEq] at h
    obtain ⟨rfl, rfl⟩ := h
    exact ⟨Nat.le_refl _, by omega⟩
  log := by intro e h; cases h
  wbmono := List.Pairwise.nil
  logbase := by intro e h; cases h
  syncs := by intro n id h; cases h

theorem SndInv.congr {b0 w : Nat} {s s' : Sys} (h : SndInv b0 w s) (h1 : s'.snd = s.snd)
    (h2 : s'.hist = s.hist) (h3 : s'.pend = s.pend) (h4 : s'.net = s.net) : SndInv b0 w s' :=
  h.frame s.snd s.hist h.hinv h.qsz rfl (Nat.le_refl _) s' h1 h2 h3 h4

theorem EvOk.mono {pend : List Pending} {u chan cpl wpl : Nat} {data : Option (List Nat)}
    (h : EvOk pend u chan cpl wpl data) (more : List Pending) : EvOk (pend ++ more) u chan cpl wpl data := by
  obtain ⟨p, hp, r⟩ := h
  refine ⟨p, ?_, r⟩
  rw [List.getElem?_append_left (List.getElem?_eq_some_iff.mp hp).1]; exact hp

/-- Position of a fresh datagram in the receive window. -/
theorem pos_arith (b0 adv i w W : Nat) (hw : w < 2^20) (hi : i < adv + w)
    (hfresh : adv + W ≤ i + 2^20) (hk : pidSub (pidAdd b0 i) ((b0 + adv) % 2^20) < W) :
    adv + pidSub (pidAdd b0 i) ((b0 + adv) % 2^20) = i := by
  simp only [pidSub, pidAdd, PACKET_ID_SPAN] at *
  omega

/-- The sender's new window base after an acknowledgement that was not ignored. -/
theorem ack_arith (b0 o' a : Nat) (h1 : o' < a + 2^20) (h2 : a < o' + 2^20)
    (h : pidAdd b0 o' = (b0 + a) % 2^20) : o' = a := by
  simp only [pidAdd, PACKET_ID_SPAN] at h
  omega

/-! ### the steps -/

theorem sinv_enq {b0 w W M : Nat} {s s' : Sys} (h : SInv b0 w W M s) (d : List Nat) (c : Nat) (m : SendMode)
    (f : Nat) (hs : stepS s (.enq d c m f) = .ok s') : SInv b0 w W M s' := by
  simp only [stepS] at hs
  split at hs
  · rename_i hd
    cases hr : stepH s.snd s.hist (.enq d c m f) with
    | error t => rw [hr] at hs; cases hs
    | ok r =>
      rw [hr, bindR_ok] at hs
      cases hs
      have hsnd := sndInv_enq h.snd d c m f hd r hr
      simp only [stepH, Except.ok.injEq] at hr
      subst hr
      exact ⟨hsnd, h.rcv, h.cinv, h.lo, h.hi, h.seen, h.log, h.wbmono, h.logbase, h.syncs⟩
  · cases hs; exact h

theorem sinv_emit {b0 w W M : Nat} (hw : w < 2^20) {s s' : Sys} (h : SInv b0 w W M s) (f : Nat)
    (hs : stepS s (.emit f) = .ok s') : SInv b0 w W M s' := by
  simp only [stepS] at hs
  cases he : emit s.snd f with
  | error t =>
    have : stepH s.snd s.hist (.emit f) = .error t := by simp only [stepH, he]
    rw [this] at hs; cases hs
  | ok r =>
    obtain ⟨s1, o⟩ := r
    cases o with
    | none =>
      obtain ⟨hst, hem, hwin, hsnd⟩ := sndInv_emit_none hw h.snd f s1 he
      rw [hst, bindR_ok, hem] at hs
      simp only [Option.toList, List.append_nil, List.flatMap_nil] at hs
      cases hs
      refine ⟨hsnd.congr rfl rfl rfl rfl, h.rcv, h.cinv, ?_, h.hi, h.seen, h.log, h.wbmono, h.logbase, h.syncs⟩
      show s.hist.emitted.length - s1.win.length ≤ _
      rw [hwin]; exact h.lo
    | some pr =>
      obtain ⟨p, rs⟩ := pr
      obtain ⟨hst, hem, hwin, hsnd⟩ := sndInv_emit_some hw h.snd f s1 p rs he
      rw [hst, bindR_ok, hem] at hs
      simp only [Option.toList, List.flatMap_cons, List.flatMap_nil, List.append_nil] at hs
      cases hs
      refine ⟨hsnd.congr rfl rfl rfl rfl, h.rcv, h.cinv.mono _, ?_, ?_, h.seen,
        fun e he => (h.log e he).mono _, h.wbmono, ?_, ?_⟩
      rotate_left 2
      · intro e hm em hem
        have hem' : (s.hist.emitted ++ [mkEmitted s.snd f p])[e.uid]? = some em := hem
        obtain ⟨p0, hp0, -⟩ := h.log e hm
        have hlt : e.uid < s.hist.emitted.length := by
          rw [← h.snd.plen]; exact (List.getElem?_eq_some_iff.mp hp0).1
        rw [List.getElem?_append_left hlt] at hem'
        exact h.logbase e hm em hem'
      · intro n id hm
        obtain ⟨h1, h2⟩ := h.syncs n id hm
        refine ⟨?_, h2⟩
        show n ≤ (s.hist.emitted ++ [mkEmitted s.snd f p]).length
        rw [List.length_append, List.length_singleton]
        omega
      · show (s.hist.emitted ++ [mkEmitted s.snd f p]).length - s1.win.length ≤ s.rcv.adv
        rw [List.length_append, List.length_singleton, hwin]
        have := h.lo
        omega
      · show s.rcv.adv ≤ (s.hist.emitted ++ [mkEmitted s.snd f p]).length
        rw [List.length_append, List.length_singleton]
        have := h.hi
        omega

theorem sinv_deliver {b0 w W M : Nat} (hW : WOk W) (hw : w < 2^20) {s s' : Sys} (h : SInv b0 w W M s)
    (k : Nat) (hs : stepS s (.deliver k) = .ok s') : SInv b0 w W M s' := by
  simp only [stepS] at hs
  split at hs
  · cases hs; exact h
  · rename_i i d hk
    split at hs
    · rename_i hfresh
      rw [stepT_dg] at hs
      cases hd : handleDatagram s.rcv.st d with
      | error t => rw [hd] at hs; cases hs
      | ok st' =>
        rw [hd, bindR_ok, bindR_ok] at hs
        cases hs
        have hg' : GInv W M b0 { s.rcv with st := st' } :=
          stepT_ginv hW h.rcv (.dg d) (by rw [stepT_dg, hd, bindR_ok])
        obtain ⟨p, hp, hgen⟩ := h.snd.net i d (List.mem_of_getElem? hk)
        obtain ⟨hwf, e, he, -, -, hseq, -⟩ := h.snd.plink i p hp
        obtain ⟨k0, hk0, hdk0⟩ := hgen
        have hdseq : d.sequenceId = pidAdd b0 i := by
          rw [genuine_eq p hwf d k0 hk0 hdk0]
          show p.sequenceId = _
          rw [← hseq]; exact (h.snd.hinv.ids i e he).2.1
        obtain ⟨hw1, hw2, -, hw4, -⟩ := hinv_win h.snd.hinv hw
        have hilt : i < s.hist.emitted.length := (List.getElem?_eq_some_iff.mp he).1
        have hlo := h.lo
        have hc' := handleDatagram_cinv hW h.rcv.inv h.cinv p i hp hwf d ⟨k0, hk0, hdk0⟩ (by
          intro hlt
          rw [hdseq, h.rcv.gi.gbase] at hlt ⊢
          unfold Fresh at hfresh
          rw [h.rcv.inv.wsz] at hfresh
          exact pos_arith b0 _ i w W hw (by omega) hfresh hlt) hd
        exact ⟨h.snd.congr rfl rfl rfl rfl, hg', hc', h.lo, h.hi, h.seen, h.log, h.wbmono, h.logbase, h.syncs⟩
    · cases hs; exact h

theorem sinv_recv {b0 w W M : Nat} (hW : WOk W) {s s' : Sys} (h : SInv b0 w W M s)
    (hs : stepS s .recv = .ok s') : SInv b0 w W M s' := by
  simp only [stepS] at hs
  cases hg : stepT s.rcv .recv with
  | error t => rw [hg] at hs; cases hs
  | ok g =>
    rw [hg, bindR_ok] at hs
    cases hs
    have hg' : GInv W M b0 g := stepT_ginv hW h.rcv .recv hg
    rw [stepT_recv] at hg
    cases hr : receiveT s.rcv.st with
    | error t => rw [hr] at hg; cases hg
    | ok pr =>
      rw [hr, bindR_ok] at hg
      cases hg
      have hadv : s.rcv.adv ≤ s.pend.length := by rw [h.snd.plen]; exact h.hi
      obtain ⟨hc', hevs, hle, -⟩ := receiveT_cinv hW h.rcv.inv h.rcv.ord h.rcv.gi h.cinv hadv
        (show receiveT s.rcv.st = .ok (pr.1, pr.2) from hr)
      refine ⟨h.snd.congr rfl rfl rfl rfl, hg', hc', ?_, ?_, ?_, ?_, ?_, ?_, h.syncs⟩
      · have := h.lo
        show s.hist.emitted.length - s.snd.win.length ≤ s.rcv.adv + pidSub pr.1.baseId s.rcv.st.baseId
        omega
      · rw [← h.snd.plen]; exact hle
      · intro a rb hm
        have hm' : (a, rb) ∈ s.seen ++ [(s.rcv.adv + pidSub pr.1.baseId s.rcv.st.baseId, pr.1.baseId)] := hm
        show a ≤ s.rcv.adv + pidSub pr.1.baseId s.rcv.st.baseId ∧ rb = (b0 + a) % 2^20
        rcases List.mem_append.mp hm' with hm' | hm'
        · have := h.seen a rb hm'
          exact ⟨by omega, this.2⟩
        · simp only [List.mem_singleton, Prod.mk.injEq] at hm'
          obtain ⟨rfl, rfl⟩ := hm'
          exact ⟨Nat.le_refl _, hg'.gi.gbase⟩
      · intro e hm
        have hm' : e ∈ s.rcv.log ++ pr.2.map (lift s.rcv.adv s.rcv.st.baseId) := hm
        rcases List.mem_append.mp hm' with hm' | hm'
        · exact h.log e hm'
        · obtain ⟨ev, hev, rfl⟩ := List.mem_map.mp hm'
          exact hevs ev hev
      · show (s.rcv.log ++ pr.2.map (lift s.rcv.adv s.rcv.st.baseId)).Pairwise _
        rw [List.pairwise_append]
        refine ⟨h.wbmono, ?_, ?_⟩
        · rw [List.pairwise_map]
          exact List.pairwise_of_forall_sublist (fun _ => Nat.le_refl _)
        · intro x hx y hy
          obtain ⟨ev, -, rfl⟩ := List.mem_map.mp hy
          exact (h.rcv.gi.gwin x hx).2.2
      · intro e hm em hem
        have hm' : e ∈ s.rcv.log ++ pr.2.map (lift s.rcv.adv s.rcv.st.baseId) := hm
        rcases List.mem_append.mp hm' with hm' | hm'
        · exact h.logbase e hm' em hem
        · obtain ⟨ev, -, rfl⟩ := List.mem_map.mp hm'
          have h1 := h.snd.ebase em (List.mem_of_getElem? hem)
          have h2 := h.lo
          show _ ≤ s.rcv.adv
          omega

theorem sinv_ack {b0 w W M : Nat} (hw : w < 2^20) {s s' : Sys} (h : SInv b0 w W M s) (k : Nat)
    (hs : stepS s (.ack k) = .ok s') : SInv b0 w W M s' := by
  simp only [stepS] at hs
  split at hs
  · cases hs; exact h
  · rename_i a rb hk
    split at hs
    · rename_i hfresh
      cases hr : stepH s.snd s.hist (.ack rb) with
      | error t => rw [hr] at hs; cases hs
      | ok r =>
        rw [hr, bindR_ok] at hs
        cases hs
        obtain ⟨hsnd, hh, hb⟩ := sndInv_ack hw h.snd rb r hr
        obtain ⟨r1, r2⟩ := r
        have hh' : r2 = s.hist := hh
        subst hh'
        have hi' : HInv b0 w r1 s.hist := hsnd.hinv
        refine ⟨hsnd, h.rcv, h.cinv, ?_, h.hi, h.seen, h.log, h.wbmono, h.logbase, ?_⟩
        rotate_left
        · exact h.syncs
        show s.hist.emitted.length - r1.win.length ≤ s.rcv.adv
        rcases hb with hb | hb
        · have hb' : r1 = s.snd := hb
          rw [hb']; exact h.lo
        · have hb' : r1.baseId = rb := hb
          obtain ⟨ha, hrb⟩ := h.seen a rb (List.mem_of_getElem? hk)
          obtain ⟨v1, v2, v3, -, -⟩ := hinv_win hi' hw
          obtain ⟨u1, u2, -, u4, -⟩ := hinv_win h.snd.hinv hw
          unfold AckFresh at hfresh
          have hhi := h.hi
          rw [hb', hrb] at v3
          have := ack_arith b0 (s.hist.emitted.length - r1.win.length) a (by omega) (by omega) v3.symm
          omega
    · cases hs; exact h

theorem sinv_sync {b0 w W M : Nat} {s s' : Sys} (h : SInv b0 w W M s)
    (hs : stepS s .sync = .ok s') : SInv b0 w W M s' := by
  simp only [stepS] at hs
  split at hs
  · cases hs
    refine ⟨h.snd.congr rfl rfl rfl rfl, h.rcv, h.cinv, h.lo, h.hi, h.seen, h.log, h.wbmono, h.logbase, ?_⟩
    intro n id hm
    have hm' : (n, id) ∈ s.syncs ++ [(s.hist.emitted.length, s.snd.nextId)] := hm
    rcases List.mem_append.mp hm' with hm' | hm'
    · exact h.syncs n id hm'
    · simp only [List.mem_singleton, Prod.mk.injEq] at hm'
      obtain ⟨rfl, rfl⟩ := hm'
      refine ⟨Nat.le_refl _, ?_⟩
      rw [h.snd.hinv.nid]
      simp only [pidAdd, PACKET_ID_SPAN]
      omega
  · cases hs; exact h

/-- What a `resync` step that is not refused does to the receiver: nothing, or one `advance_window`
to an id `nb` whose unwrapped value is at most the sync value `n`, passing only slots without the
entry flag. -/
theorem resync_cases {b0 w W M : Nat} (hw : w < 2^20) {s : Sys} (h : SInv b0 w W M s) (n id : Nat)
    (hm : (n, id) ∈ s.syncs) (hfresh : SyncFresh s n) (st' : PRecv.State)
    (hr : resynchronize s.rcv.st id = .ok st') :
    st' = s.rcv.st ∨
    ∃ nb, nb < 2^20 ∧ s.rcv.adv + pidSub nb s.rcv.st.baseId ≤ n ∧ pidSub nb s.rcv.st.baseId ≤ W ∧
      advanceWindow s.rcv.st nb = .ok st' ∧
      (∀ x, x < 2^20 → pidSub x s.rcv.st.baseId < pidSub nb s.rcv.st.baseId →
        (lget s.rcv.st.slots (wi W x)).entryFlag = false) := by
  obtain ⟨hn, hid⟩ := h.syncs n id hm
  rcases resynchronize_shape h.rcv.inv id hr with rfl | ⟨-, hidW, nb, hnb, hle, hadv, hno, -⟩
  · exact Or.inl rfl
  · right
    obtain ⟨-, w2, -⟩ := hinv_win h.snd.hinv hw
    have hlo := h.lo
    unfold SyncFresh at hfresh
    rw [h.rcv.inv.wsz] at hfresh
    rw [hid, h.rcv.gi.gbase] at hidW hle
    obtain ⟨a1, a2⟩ := sync_arith b0 s.rcv.adv n W hfresh (by omega) hidW
    rw [a2] at hle
    rw [← h.rcv.gi.gbase] at hle
    exact ⟨nb, hnb, by omega, by omega, hadv, hno⟩

theorem sinv_resync {b0 w W M : Nat} (hW : WOk W) (hw : w < 2^20) {s s' : Sys} (h : SInv b0 w W M s)
    (k : Nat) (hs : stepS s (.resync k) = .ok s') : SInv b0 w W M s' := by
  simp only [stepS] at hs
  split at hs
  · cases hs; exact h
  · rename_i n id hk
    split at hs
    · rename_i hfresh
      cases hg : stepT s.rcv (.resync id) with
      | error t => rw [hg] at hs; cases hs
      | ok g =>
        rw [hg, bindR_ok] at hs
        cases hs
        have hg' : GInv W M b0 g := stepT_ginv hW h.rcv (.resync id) hg
        rw [stepT_resync] at hg
        cases hr : resynchronize s.rcv.st id with
        | error t => rw [hr] at hg; cases hg
        | ok st' =>
          rw [hr, bindR_ok] at hg
          cases hg
          have hc' := resynchronize_cinv hW h.rcv.inv h.rcv.ord h.cinv id hr
          have hle : s.rcv.adv + pidSub st'.baseId s.rcv.st.baseId ≤ s.hist.emitted.length := by
            rcases resync_cases hw h n id (List.mem_of_getElem? hk) hfresh st' hr with rfl | ⟨nb, hnb, h1, h2, hadv, -⟩
            · rw [pidSub_self]; exact h.hi
            · have F := advanceWindow_facts hW h.rcv.inv h.rcv.ord nb hnb h2 hadv
              rw [F.base]
              have := (h.syncs n id (List.mem_of_getElem? hk)).1
              omega
          refine ⟨h.snd.congr rfl rfl rfl rfl, hg', hc', ?_, hle, ?_, h.log, h.wbmono, h.logbase, h.syncs⟩
          · have := h.lo
            show s.hist.emitted.length - s.snd.win.length ≤ s.rcv.adv + pidSub st'.baseId s.rcv.st.baseId
            omega
          · intro a rb hm
            have hm' : (a, rb) ∈ s.seen ++ [(s.rcv.adv + pidSub st'.baseId s.rcv.st.baseId, st'.baseId)] := hm
            show a ≤ s.rcv.adv + pidSub st'.baseId s.rcv.st.baseId ∧ rb = (b0 + a) % 2^20
            rcases List.mem_append.mp hm' with hm' | hm'
            · have := h.seen a rb hm'
              exact ⟨by omega, this.2⟩
            · simp only [List.mem_singleton, Prod.mk.injEq] at hm'
              obtain ⟨rfl, rfl⟩ := hm'
              exact ⟨Nat.le_refl _, hg'.gi.gbase⟩
    · cases hs; exact h

theorem sinv_step {b0 w W M : Nat} (hW : WOk W) (hw : w < 2^20) {s s' : Sys} (h : SInv b0 w W M s)
    (op : SOp) (hs : stepS s op = .ok s') : SInv b0 w W M s' := by
  cases op with
  | enq d c m f => exact sinv_enq h d c m f hs
  | emit f => exact sinv_emit hw h f hs
  | deliver k => exact sinv_deliver hW hw h k hs
  | recv => exact sinv_recv hW h hs
  | ack k => exact sinv_ack hw h k hs
  | sync => exact sinv_sync h hs
  | resync k => exact sinv_resync hW hw h k hs

theorem sinv_run {b0 w W M : Nat} (hW : WOk W) (hw : w < 2^20) (ops : List SOp) :
    ∀ {s s' : Sys}, SInv b0 w W M s → runS s ops = .ok s' → SInv b0 w W M s' := by
  induction ops with
  | nil => intro s s' h hr; cases hr; exact h
  | cons op rest ih =>
    intro s s' h hr
    rw [runS] at hr
    cases hs : stepS s op with
    | error t => rw [hs] at hr; cases hr
    | ok s1 =>
      rw [hs, bindR_ok] at hr
      exact ih (sinv_step hW hw h op hs) hr

end Uflow.Sys
