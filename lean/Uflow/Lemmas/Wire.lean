import Uflow.Model.HalfConn

/-!
C12: instrumented copies of the loops of `emit_data_frames` that additionally return the list of
fragments put on the wire (a fragment is transmitted exactly when `dfePush … = .ok (_, none)` for
it), and the erasure theorems: forgetting the trace gives back the model functions.
-/

namespace Uflow.Wire

open Uflow Uflow.Gen Uflow.Codec Uflow.HalfConn

variable {F : Type}

/-- One fragment put into a data frame: packet identity, fragment id, the `resend` flag it was
pushed with, whether it came from the resend queue, the flush id of the flush that pushed it and
the `expiry` of its packet (`some f` for a TimeSensitive packet queued for flush `f`). -/
structure Push where
  uid : Nat
  fid : Nat
  resend : Bool
  fromResend : Bool
  flushId : Nat
  expiry : Option Nat
  deriving Repr, DecidableEq, Inhabited

/-- `resendLoop` with the trace of successful `dfePush` calls. -/
def resendLoopT : Nat → Emit F → List Push → R (Emit F × Option Stage × List Push)
  | 0, _, _ => .error .hang
  | fuel+1, e, tr =>
    match e.s.resend[0]? with
    | none => .ok (e, none, tr)
    | some entry =>
      let popped : Emit F := match heapPop e.s.resend with
        | some (_, h) => { e with s := { e.s with resend := h } }
        | none => e
      match PSend.findPacket e.s.ps entry.uid with
      | none => resendLoopT fuel popped tr
      | some p =>
        if entry.fid ∈ p.acked then resendLoopT fuel popped tr
        else if entry.resendTime > e.s.nowMs then .ok (e, none, tr)
        else
          match dfePush e p entry.fid true with
          | .error t => .error t
          | .ok (e, some .windowLimited) => .ok (e, some .cont, tr)
          | .ok (e, some .sizeLimited) => .ok (e, some .stop, tr)
          | .ok (e, none) =>
            match heapPop e.s.resend with
            | none => .error .unwrap
            | some (ent, h) =>
              let ne : REntry := { uid := ent.uid, fid := ent.fid,
                                   resendTime := e.s.nowMs + e.s.rttMs * 2^ent.sendCount,
                                   sendCount := min (ent.sendCount + 1) MAX_SEND_COUNT }
              resendLoopT fuel { e with s := { e.s with resend := heapPush h ne } }
                (tr ++ [{ uid := entry.uid, fid := entry.fid, resend := true, fromResend := true,
                          flushId := e.s.flushId, expiry := p.expiry }])

/-- `pendingInner` with the trace of successful `dfePush` calls. -/
def pendingInnerT : Nat → Emit F → List Push → R (Emit F × Option Stage × List Push)
  | 0, _, _ => .error .hang
  | fuel+1, e, tr =>
    match e.s.pending with
    | [] => .ok (e, none, tr)
    | entry :: rest =>
      match PSend.findPacket e.s.ps entry.uid with
      | none => pendingInnerT fuel { e with s := { e.s with pending := rest } } tr
      | some p =>
        if entry.fid ∈ p.acked then pendingInnerT fuel { e with s := { e.s with pending := rest } } tr
        else if entry.fid = 0 ∧ p.expired e.s.flushId then
          pendingInnerT fuel { e with s := { e.s with pending := [] } } tr
        else
          match dfePush e p entry.fid entry.resend with
          | .error t => .error t
          | .ok (e, some .windowLimited) => .ok (e, some .cont, tr)
          | .ok (e, some .sizeLimited) => .ok (e, some .stop, tr)
          | .ok (e, none) =>
            let s := { e.s with pending := rest }
            let s := if entry.resend then
              { s with resend := heapPush s.resend { uid := entry.uid, fid := entry.fid, resendTime := s.nowMs + s.rttMs, sendCount := 1 } }
              else s
            pendingInnerT fuel { e with s := s }
              (tr ++ [{ uid := entry.uid, fid := entry.fid, resend := entry.resend, fromResend := false,
                        flushId := e.s.flushId, expiry := p.expiry }])

/-- The refill step of the outer loop of `emit_data_frames` (`PSend.emit` when the pending queue
is empty). -/
def refill (e : Emit F) : R (Emit F × Bool) :=
  if e.s.pending.isEmpty then
    match PSend.emit e.s.ps e.s.flushId with
    | .error t => .error t
    | .ok (ps, none) => .ok ({ e with s := { e.s with ps := ps } }, false)
    | .ok (ps, some (p, resend)) =>
      let entries := (List.range (p.lastFragmentId + 1)).map fun i => ({ uid := p.uid, fid := i, resend := resend } : PEntry)
      .ok ({ e with s := { e.s with ps := ps, pending := entries } }, true)
  else .ok (e, true)

/-- `pendingOuter` with the trace. -/
def pendingOuterT : Nat → Emit F → List Push → R (Emit F × Option Stage × List Push)
  | 0, _, _ => .error .hang
  | fuel+1, e, tr =>
    match refill e with
    | .error t => .error t
    | .ok (e, false) => .ok (e, none, tr)
    | .ok (e, true) =>
      match pendingInnerT (e.s.pending.length + 2) e tr with
      | .error t => .error t
      | .ok (e, some st, tr) => .ok (e, some st, tr)
      | .ok (e, none, tr) => pendingOuterT fuel e tr

/-- `emitDataFrames` with the trace. -/
def emitDataFramesT (s : State F) : R (State F × List (List Nat) × Stage × List Push) :=
  let e : Emit F := { s := s, inProg := none, out := [] }
  match resendLoopT (2 * s.resend.size + 16 + s.flushAlloc.toNat) e [] with
  | .error t => .error t
  | .ok (e, some st, tr) => .ok (e.s, e.out, st, tr)
  | .ok (e, none, tr) =>
    match pendingOuterT (e.s.ps.queue.length + e.s.pending.length + 4) e tr with
    | .error t => .error t
    | .ok (e, some st, tr) => .ok (e.s, e.out, st, tr)
    | .ok (e, none, tr) =>
      let e := dfeFinalize e
      .ok (e.s, e.out, .cont, tr)

/-- `flush` with the list of fragments put on the wire, in order. -/
def flushT (s : State F) : R (State F × List (List Nat) × List Push) :=
  let (s, out1, st) := emitAckFrames s
  if st = .stop then .ok (s, out1, []) else
  match emitDataFramesT s with
  | .error t => .error t
  | .ok (s, out2, st, tr) =>
    if st = .stop then .ok (s, out1 ++ out2, tr) else
    match emitSyncFrame s with
    | .error t => .error t
    | .ok (s, out3, _) => .ok (s, out1 ++ out2 ++ out3, tr)

/-! ### erasure -/

/-- Forgets the trace. -/
def er {α β γ : Type} (r : R (α × β × γ)) : R (α × β) := r.map fun x => (x.1, x.2.1)

theorem resendLoopT_erase (fuel : Nat) (e : Emit F) (tr : List Push) :
    er (resendLoopT fuel e tr) = resendLoop fuel e := by
  induction fuel generalizing e tr with
  | zero => rfl
  | succ n ih =>
    unfold resendLoopT resendLoop
    cases h0 : e.s.resend[0]? with
    | none => rfl
    | some entry =>
      simp only
      cases h1 : PSend.findPacket e.s.ps entry.uid with
      | none => exact ih _ _
      | some p =>
        simp only
        split
        · exact ih _ _
        · split
          · rfl
          · generalize dfePush e p entry.fid true = r
            cases r with
            | error t => rfl
            | ok v =>
              obtain ⟨e1, err⟩ := v
              cases err with
              | some pe => cases pe <;> rfl
              | none =>
                simp only
                cases h2 : heapPop e1.s.resend with
                | none => rfl
                | some w => exact ih _ _

theorem pendingInnerT_erase (fuel : Nat) (e : Emit F) (tr : List Push) :
    er (pendingInnerT fuel e tr) = pendingInner fuel e := by
  induction fuel generalizing e tr with
  | zero => rfl
  | succ n ih =>
    unfold pendingInnerT pendingInner
    cases h0 : e.s.pending with
    | nil => rfl
    | cons entry rest =>
      simp only
      cases h1 : PSend.findPacket e.s.ps entry.uid with
      | none => exact ih _ _
      | some p =>
        simp only
        split
        · exact ih _ _
        · split
          · exact ih _ _
          · generalize dfePush e p entry.fid entry.resend = r
            cases r with
            | error t => rfl
            | ok v =>
              obtain ⟨e1, err⟩ := v
              cases err with
              | some pe => cases pe <;> rfl
              | none => exact ih _ _

theorem pendingOuter_eq (fuel : Nat) (e : Emit F) :
    pendingOuter (fuel + 1) e =
      match refill e with
      | .error t => .error t
      | .ok (e, false) => .ok (e, none)
      | .ok (e, true) =>
        match pendingInner (e.s.pending.length + 2) e with
        | .error t => .error t
        | .ok (e, some st) => .ok (e, some st)
        | .ok (e, none) => pendingOuter fuel e := rfl

theorem pendingOuterT_erase (fuel : Nat) (e : Emit F) (tr : List Push) :
    er (pendingOuterT fuel e tr) = pendingOuter fuel e := by
  induction fuel generalizing e tr with
  | zero => rfl
  | succ n ih =>
    rw [pendingOuter_eq]
    unfold pendingOuterT
    generalize refill e = r
    cases r with
    | error t => rfl
    | ok v =>
      obtain ⟨e1, b⟩ := v
      cases b with
      | false => rfl
      | true =>
        simp only
        rw [← pendingInnerT_erase _ e1 tr]
        generalize pendingInnerT (e1.s.pending.length + 2) e1 tr = r2
        cases r2 with
        | error t => rfl
        | ok v2 =>
          obtain ⟨e2, st, tr2⟩ := v2
          cases st with
          | some st => rfl
          | none => exact ih _ _

theorem emitDataFramesT_erase (s : State F) :
    (emitDataFramesT s).map (fun x => (x.1, x.2.1, x.2.2.1)) = emitDataFrames s := by
  unfold emitDataFramesT emitDataFrames
  simp only
  rw [← resendLoopT_erase _ _ []]
  generalize resendLoopT (2 * s.resend.size + 16 + s.flushAlloc.toNat)
    ({ s := s, inProg := none, out := [] } : Emit F) [] = r
  cases r with
  | error t => rfl
  | ok v =>
    obtain ⟨e1, st, tr1⟩ := v
    cases st with
    | some st => rfl
    | none =>
      simp only [er, Except.map]
      rw [← pendingOuterT_erase _ e1 tr1]
      generalize pendingOuterT (e1.s.ps.queue.length + e1.s.pending.length + 4) e1 tr1 = r2
      cases r2 with
      | error t => rfl
      | ok v2 =>
        obtain ⟨e2, st2, tr2⟩ := v2
        cases st2 with
        | some st => rfl
        | none => rfl

/-- Forgetting the trace of `flushT` gives `flush`. -/
theorem flushT_erase (s : State F) : er (flushT s) = flush s := by
  unfold flushT flush
  generalize emitAckFrames s = a
  obtain ⟨s1, out1, st1⟩ := a
  simp only
  by_cases h1 : st1 = .stop
  · rw [if_pos h1, if_pos h1]; rfl
  · rw [if_neg h1, if_neg h1, ← emitDataFramesT_erase]
    generalize emitDataFramesT s1 = r
    cases r with
    | error t => rfl
    | ok v =>
      obtain ⟨s2, out2, st2, tr⟩ := v
      simp only [Except.map, er]
      by_cases h2 : st2 = .stop
      · rw [if_pos h2, if_pos h2]
      · rw [if_neg h2, if_neg h2]
        generalize emitSyncFrame s2 = r3
        cases r3 with
        | error t => rfl
        | ok v3 => rfl

/-- `flush s = .ok (s', out)` iff `flushT` returns the same state and frames with some trace. -/
theorem flush_iff_flushT (s s' : State F) (out : List (List Nat)) :
    flush s = .ok (s', out) ↔ ∃ tr, flushT s = .ok (s', out, tr) := by
  rw [← flushT_erase]
  cases h : flushT s with
  | error t => simp [er, Except.map]
  | ok v =>
    obtain ⟨a, b, c⟩ := v
    simp only [er, Except.map, Except.ok.injEq, Prod.mk.injEq]
    constructor
    · rintro ⟨rfl, rfl⟩; exact ⟨c, rfl, rfl, rfl⟩
    · rintro ⟨tr, rfl, rfl, _⟩; exact ⟨rfl, rfl⟩

end Uflow.Wire
