import Uflow.Lemmas.PSendHistRun
import Uflow.Lemmas.PSendHistOrder
import Uflow.Lemmas.PRecvOrdRun
import Uflow.Lemmas.FragAsm

/-!
The composed system sender → datagram network → receiver (C01Sys), part 1: definitions.

`Sys` couples the packet sender `PSend` (with its ghost history, `PSendHist.lean`), a ghost network
`net` holding every fragment datagram of every packet `emit_packet` has returned so far, and the
instrumented receiver `PRecv.G` (`PRecvOrdDefs.lean`). All steps go through the existing model
functions: `PSend.stepH` (`enqueue` / `emit` / `acknowledge`), `Pending.datagram`, `PRecv.stepT`
(`handleDatagram` / `receiveT` / `resynchronize`). Sync frames are two steps: `sync` (the sender
records its `next_id` in the ghost list `syncs`, under the ghost guard `SyncOk`) and `resync k` (the
network hands the receiver entry `k` of `syncs`).
-/

namespace Uflow.Sys

open Uflow Uflow.Gen Uflow.Codec Uflow.PSend Uflow.PRecv Uflow.Frag

/-- All fields of a receiver slot except the channel-base marker. -/
def core (sl : Slot) : Slot := { sl with marker := none }

/-- `t` is `s` after some deliveries of the delivery pass of `receive`: same window, per slot
everything but the marker, the data and the data flag is unchanged; data flags are only cleared, and a
slot that still has its flag still has its data. -/
structure Shrunk (s t : PRecv.State) : Prop where
  base : t.baseId = s.baseId
  endId : t.endId = s.endId
  wsz : t.windowSize = s.windowSize
  asm : ∀ k, (lget t.slots k).asm = (lget s.slots k).asm
  entry : ∀ k, (lget t.slots k).entryFlag = (lget s.slots k).entryFlag
  chan : ∀ k, (lget t.slots k).chan = (lget s.slots k).chan
  cpl : ∀ k, (lget t.slots k).cpl = (lget s.slots k).cpl
  wpl : ∀ k, (lget t.slots k).wpl = (lget s.slots k).wpl
  flag : ∀ k, (lget t.slots k).dataFlag = true →
    (lget s.slots k).dataFlag = true ∧ (lget t.slots k).data = (lget s.slots k).data

/-! ### the system -/

/-- Sender, ghost network, receiver. -/
structure Sys where
  snd : PSend.State
  /-- ghost: submitted / emitted packets of the sender (`PSend.Hist`) -/
  hist : PSend.Hist
  /-- ghost: the `PendingPacket`s `emit_packet` returned, in emission order (position = `uid`) -/
  pend : List Pending
  /-- ghost network: every fragment datagram of every emitted packet, tagged with the emission
  position of its packet; never shrinks (a datagram can be delivered any number of times) -/
  net : List (Nat × Datagram)
  rcv : PRecv.G
  /-- ghost: `(adv, base_id)` of the receiver initially and after every `receive` — the values an
  acknowledgement can carry -/
  seen : List (Nat × Nat)
  /-- ghost: `(number of packets emitted so far, next_id)` recorded by every `sync` step — the values
  the `next_packet_id` field of a sync frame of the sender can carry -/
  syncs : List (Nat × Nat)
  deriving Repr

inductive SOp where
  /-- application: `enqueue_packet(data, chan, mode, flush_id)` -/
  | enq (data : List Nat) (chan : Nat) (mode : SendMode) (flushId : Nat)
  /-- sender: `emit_packet(flush_id)`; all fragment datagrams of the returned packet enter the network -/
  | emit (flushId : Nat)
  /-- network: hand datagram number `k` of `net` to the receiver's `handle_datagram` -/
  | deliver (k : Nat)
  /-- receiver: `receive` -/
  | recv
  /-- network: hand the sender an acknowledgement carrying entry number `k` of `seen` -/
  | ack (k : Nat)
  /-- sender: a sync frame carrying `next_packet_id = Some(next_id)` is put on the wire (recorded in
  `syncs`); only taken when `SyncOk` holds (otherwise a no-op) -/
  | sync
  /-- network: hand the receiver a sync frame carrying entry number `k` of `syncs`:
  `resynchronize(next_packet_id)` -/
  | resync (k : Nat)
  deriving Repr

/-- The packet `emit_packet(f)` returns in sender state `s`, if any. -/
def emitted? (s : PSend.State) (f : Nat) : Option Pending :=
  match emit s f with
  | .ok (_, some (p, _)) => some p
  | _ => none

/-- The fragment datagrams `p.datagram 0 … p.datagram last` of the packet at emission position `i`. -/
def dgsOf (i : Nat) (p : Pending) : List (Nat × Datagram) :=
  (List.range (p.lastFragmentId + 1)).filterMap fun fid =>
    match p.datagram fid with
    | .ok d => some (i, d)
    | .error _ => none

/-- Network hypothesis for datagrams (needed because sequence ids have 20 bits): a datagram of the
packet at emission position `i` is handed to the receiver only while the receive window base
(`adv` = number of ids it has moved) is less than `2^20 - W` ids beyond that packet. -/
def Fresh (s : Sys) (i : Nat) : Prop := s.rcv.adv + s.rcv.st.windowSize ≤ i + 2^20

instance (s : Sys) (i : Nat) : Decidable (Fresh s i) := by unfold Fresh; infer_instance

/-- Network hypothesis for acknowledgements: an acknowledgement carrying the receiver base with
unwrapped value `a` is handed to the sender only while the sender's window base (number of packets
that left the send window) is less than `2^20 - w` ids beyond it. -/
def AckFresh (s : Sys) (a : Nat) : Prop :=
  (s.hist.emitted.length - s.snd.win.length) + s.snd.windowSize < a + 2^20

instance (s : Sys) (a : Nat) : Decidable (AckFresh s a) := by unfold AckFresh; infer_instance

/-- The emitted packet `x` (emission position `x.uid`) has been completely received, as far as the
receiver can tell: `receive` took it out of the window (it is in the log), or the window base has
passed it, or it lies in the receive window and its slot has the entry flag (`handle_datagram` sets it
when `try_add` returns the reassembled packet). -/
def Recvd (s : Sys) (x : Emitted) : Prop :=
  (∃ e ∈ s.rcv.log, e.uid = x.uid) ∨ x.uid < s.rcv.adv ∨
  (x.uid < s.rcv.adv + s.rcv.st.windowSize ∧
    (getSlot s.rcv.st (widx s.rcv.st x.sequenceId)).entryFlag = true)

instance (s : Sys) (x : Emitted) : Decidable (Recvd s x) := by unfold Recvd; infer_instance

/-- Ghost guard of the `sync` step, to be discharged by the frame layer (`emit_sync_frame` sends
`next_packet_id` only when the resend queue and the pending queue are empty: every fragment of every
Reliable / Persistent packet still in the send window has been acknowledged at frame level): every
Reliable packet emitted so far has been completely received (`Recvd`). Nothing is required of
Unreliable, TimeSensitive or Persistent packets. -/
def SyncOk (s : Sys) : Prop := ∀ x ∈ s.hist.emitted, x.mode = .reliable → Recvd s x

instance (s : Sys) : Decidable (SyncOk s) := by unfold SyncOk; infer_instance

/-- Network hypothesis for sync frames (20-bit ids, as `Fresh`): a sync frame carrying the sender's
next id with unwrapped value `n` is handed to the receiver only while the receive window base is less
than `2^20 - W` ids beyond it. -/
def SyncFresh (s : Sys) (n : Nat) : Prop := s.rcv.adv + s.rcv.st.windowSize < n + 2^20

instance (s : Sys) (n : Nat) : Decidable (SyncFresh s n) := by unfold SyncFresh; infer_instance

/-- One step of the system. Steps the environment is not allowed to take (an oversized packet, a
datagram / acknowledgement / sync frame that is not in the network or violates `Fresh` / `AckFresh` /
`SyncFresh`, a `sync` while `SyncOk` fails) leave the state unchanged. -/
def stepS (s : Sys) : SOp → R Sys
  | .enq d c m f =>
    if d.length ≤ MAX_PACKET_SIZE then
      bindR (stepH s.snd s.hist (.enq d c m f)) fun r => .ok { s with snd := r.1, hist := r.2 }
    else .ok s
  | .emit f =>
    bindR (stepH s.snd s.hist (.emit f)) fun r =>
      .ok { s with snd := r.1, hist := r.2,
                   pend := s.pend ++ (emitted? s.snd f).toList,
                   net := s.net ++ (emitted? s.snd f).toList.flatMap (dgsOf s.pend.length) }
  | .deliver k =>
    match s.net[k]? with
    | none => .ok s
    | some (i, d) =>
      if Fresh s i then bindR (stepT s.rcv (.dg d)) fun g => .ok { s with rcv := g } else .ok s
  | .recv =>
    bindR (stepT s.rcv .recv) fun g => .ok { s with rcv := g, seen := s.seen ++ [(g.adv, g.st.baseId)] }
  | .ack k =>
    match s.seen[k]? with
    | none => .ok s
    | some (a, rb) =>
      if AckFresh s a then
        bindR (stepH s.snd s.hist (.ack rb)) fun r => .ok { s with snd := r.1, hist := r.2 }
      else .ok s
  | .sync =>
    if SyncOk s then .ok { s with syncs := s.syncs ++ [(s.hist.emitted.length, s.snd.nextId)] } else .ok s
  | .resync k =>
    match s.syncs[k]? with
    | none => .ok s
    | some (n, id) =>
      if SyncFresh s n then
        bindR (stepT s.rcv (.resync id)) fun g => .ok { s with rcv := g, seen := s.seen ++ [(g.adv, g.st.baseId)] }
      else .ok s

def runS (s : Sys) : List SOp → R Sys
  | [] => .ok s
  | op :: rest => bindR (stepS s op) fun s' => runS s' rest

/-- `PacketSender::new(w, b, a)` and `PacketReceiver::new(W, b, m)` with the same initial id `b`. -/
def initS (w W b a m : Nat) : Sys :=
  { snd := PSend.init w b a, hist := {}, pend := [], net := [], rcv := initG W b m, seen := [(0, b)],
    syncs := [] }

/-! ### invariants -/

/-- The assembly entry is active for packet `p`: it was built from a non-empty, incomplete feed of
genuine fragments of `p` (and ignored datagrams). -/
def ActiveOk (p : Pending) (A : Asm) : Prop :=
  ∃ l a buf, Feed p l ∧ ¬ Complete p l ∧
    A = .active a p.channelId p.windowParentLead p.channelParentLead p.lastFragmentId buf ∧
    writes p.data (FragBuf.new (p.lastFragmentId + 1)) (gidx p l) = .ok buf

/-- What the slot at unwrapped id `u` may contain. -/
structure SlotC (pend : List Pending) (u : Nat) (sl : Slot) : Prop where
  data : sl.dataFlag = true → ∃ p, pend[u]? = some p ∧ sl.chan = p.channelId ∧
    sl.cpl = p.channelParentLead ∧ sl.wpl = p.windowParentLead ∧ (sl.data = none ∨ sl.data = some p.data)
  entry : sl.entryFlag = true → ∃ p, pend[u]? = some p ∧ sl.wpl = p.windowParentLead
  asm : ∀ a c w cp l buf, sl.asm = .active a c w cp l buf → ∃ p, pend[u]? = some p ∧ ActiveOk p sl.asm

/-- Content invariant of the receive window. -/
def CInv (W : Nat) (pend : List Pending) (adv : Nat) (st : PRecv.State) : Prop :=
  ∀ x, x < 2^20 → pidSub x st.baseId < W → SlotC pend (adv + pidSub x st.baseId) (lget st.slots (wi W x))

end Uflow.Sys
