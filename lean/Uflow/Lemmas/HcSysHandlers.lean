import Uflow.Lemmas.HcSysEmit
import Uflow.Lemmas.HcFrameAck
import Uflow.Lemmas.HcFrameStep

/-!
C01Hc, part 5: what the operations of a half connection other than `flush` do to its packet sender
`ps` and packet receiver `pr`.

* `handleAckFrame`: some `ackFragment`s (`FragSteps`), then exactly one `PSend.acknowledge` with the
  packet window base of the frame; `pr` untouched.
* `handleDataFrame`: `PRecv.handleDatagram` on the datagrams of the frame, in order, if the frame id
  passes the frame window test, nothing otherwise; `ps` untouched.
* `handleSyncFrame`: `PRecv.resynchronize` if the frame carries a packet id; `ps` untouched.
* `step`: neither.
-/

namespace Uflow.HcSys

open Uflow Uflow.Gen Uflow.Codec Uflow.HalfConn Uflow.PSend Uflow.HcFrame
open Uflow.Rate (FloatOps)

variable {F : Type}

/-! ### fragment acknowledgements -/

/-- `ps'` is `ps` after some `acknowledge_fragment` calls. -/
inductive FragSteps : PSend.State → PSend.State → Prop
  | refl (ps : PSend.State) : FragSteps ps ps
  | frag {ps ps1 : PSend.State} (uid fid : Nat) : FragSteps ps ps1 → FragSteps ps (ackFragment ps1 uid fid)

theorem FragSteps.trans {a b c : PSend.State} (h1 : FragSteps a b) (h2 : FragSteps b c) : FragSteps a c := by
  induction h2 with
  | refl => exact h1
  | frag uid fid _ ih => exact .frag uid fid ih

theorem fragSteps_foldl (ps : PSend.State) (frs : List (Nat × Nat)) :
    FragSteps ps (frs.foldl (fun ps (x : Nat × Nat) => ackFragment ps x.1 x.2) ps) := by
  induction frs generalizing ps with
  | nil => exact .refl _
  | cons x frs ih =>
    simp only [List.foldl_cons]
    exact FragSteps.trans (.frag x.1 x.2 (.refl _)) (ih _)

theorem FragSteps.erase {a b : PSend.State} (h : FragSteps a b) : erase b = erase a := by
  induction h with
  | refl => rfl
  | frag uid fid _ ih => rw [erase_ackFragment, ih]

theorem FragSteps.ainv {a b : PSend.State} (h : FragSteps a b) {pend : List Pending} (hi : AInv pend a) :
    AInv pend b := by
  induction h with
  | refl => exact hi
  | frag uid fid _ ih => exact ainv_ackFragment ih uid fid

theorem FragSteps.keep {a b : PSend.State} (h : FragSteps a b) :
    b.win.length = a.win.length ∧ b.windowSize = a.windowSize := by
  induction h with
  | refl => exact ⟨rfl, rfl⟩
  | frag uid fid _ ih =>
    refine ⟨?_, ih.2⟩
    rw [← ih.1]
    simp [ackFragment]

theorem ackP_spec (s s' : State F) (fb pb : Nat) (acks : List AckGroup)
    (ag : FrameQ.State → AckGroup → Option Nat → R (FrameQ.State × List (Nat × Nat)))
    (adv : FrameQ.State → Nat → Option Nat → R FrameQ.State)
    (pack : PSend.State → Nat → R PSend.State)
    (h : ackP s fb pb acks ag adv pack = .ok s') :
    s'.pr = s.pr ∧ ∃ ps1, FragSteps s.ps ps1 ∧ pack ps1 pb = .ok s'.ps := by
  unfold ackP at h
  simp only at h
  generalize hr : (List.foldlM _ s acks : R (State F)) = r at h
  cases r with
  | error t => cases h
  | ok s1 =>
    simp only at h
    have h1 : s1.pr = s.pr ∧ FragSteps s.ps s1.ps := by
      refine foldlM_rel _ (fun a b : State F => b.pr = a.pr ∧ FragSteps a.ps b.ps)
        (fun a => ⟨rfl, .refl _⟩)
        (fun a b c h1 h2 => ⟨h2.1.trans h1.1, h1.2.trans h2.2⟩) ?_ acks s s1 hr
      intro a g a' ha
      generalize ag a.fq g _ = r at ha
      cases r with
      | error t => cases ha
      | ok v =>
        obtain ⟨fq, frs⟩ := v
        simp only [Except.ok.injEq] at ha
        subst ha
        exact ⟨rfl, fragSteps_foldl a.ps frs⟩
    generalize adv s1.fq fb _ = r2 at h
    generalize hack : pack s1.ps pb = r3 at h
    cases r2 with
    | error t => cases h
    | ok fq =>
      cases r3 with
      | error t => cases h
      | ok ps2 =>
        simp only [Except.ok.injEq] at h
        subst h
        exact ⟨h1.1, s1.ps, h1.2, hack⟩

/-- `handle_ack_frame`: fragment acknowledgements, then `acknowledge(packet_window_base_id)`. -/
theorem handleAckFrame_spec (s s' : State F) (fb pb : Nat) (acks : List AckGroup)
    (h : handleAckFrame s fb pb acks = .ok s') :
    s'.pr = s.pr ∧ ∃ ps1, FragSteps s.ps ps1 ∧ acknowledge ps1 pb = .ok s'.ps := by
  rw [handleAckFrame_eq] at h
  exact ackP_spec s s' fb pb acks _ _ _ h

/-! ### data and sync frames -/

theorem foldDatagrams_pr (dgs : List Datagram) (s s' : State F)
    (h : dgs.foldlM (fun (s : State F) d =>
      (PRecv.handleDatagram s.pr d).map fun pr => { s with pr := pr }) s = .ok s') :
    dgs.foldlM PRecv.handleDatagram s.pr = .ok s'.pr := by
  induction dgs generalizing s with
  | nil =>
    simp only [List.foldlM_nil, pure, Except.pure, Except.ok.injEq] at h
    subst h; rfl
  | cons d dgs ih =>
    rw [List.foldlM_cons] at h ⊢
    cases hd : PRecv.handleDatagram s.pr d with
    | error t => rw [hd] at h; simp only [Except.map, bind, Except.bind] at h; cases h
    | ok pr =>
      rw [hd] at h
      simp only [Except.map, bind, Except.bind] at h ⊢
      exact ih _ h

theorem dataFrameCore_spec (s s' : State F) (b : Bool) (aq' : FrameQ.AckQ) (dgs : List Datagram)
    (h : dataFrameCore s b aq' dgs = .ok s') :
    (if b then dgs else []).foldlM PRecv.handleDatagram s.pr = .ok s'.pr := by
  unfold dataFrameCore at h
  cases b with
  | false =>
    simp only [Bool.false_eq_true, if_false, Except.ok.injEq] at h ⊢
    subst h; rfl
  | true =>
    simp only [if_true] at h ⊢
    have := foldDatagrams_pr dgs _ s' h
    exact this

/-- `handle_data_frame`: the datagrams handed to `handle_datagram` are those of the frame if its id
is in the frame window, none otherwise. -/
theorem handleDataFrame_spec (s s' : State F) (id : Nat) (nonce : Bool) (dgs : List Datagram)
    (h : handleDataFrame s id nonce dgs = .ok s') :
    s'.ps = s.ps ∧
      (if s.aq.contains id then dgs else []).foldlM PRecv.handleDatagram s.pr = .ok s'.pr := by
  refine ⟨(handleDataFrame_frame s s' id nonce dgs h).2, ?_⟩
  rw [handleDataFrame_eq] at h
  exact dataFrameCore_spec s s' _ _ dgs h

/-- What `handle_sync_frame` does to the packet receiver. -/
def resyncTo (pr : PRecv.State) : Option Nat → R PRecv.State
  | some id => PRecv.resynchronize pr id
  | none => .ok pr

theorem syncFrameCore_spec (s s' : State F) (g : Nat → FrameQ.AckQ) (nf np : Option Nat)
    (h : syncFrameCore s g nf np = .ok s') : resyncTo s.pr np = .ok s'.pr := by
  simp only [syncFrameCore] at h
  unfold resyncTo
  cases np with
  | none =>
    cases nf with
    | none =>
      simp only [Except.map, Except.ok.injEq] at h
      subst h; rfl
    | some fid =>
      simp only [Except.map, Except.ok.injEq] at h
      subst h; rfl
  | some pid =>
    cases nf with
    | none =>
      simp only [Except.map] at h ⊢
      cases hr : PRecv.resynchronize s.pr pid with
      | error t => rw [hr] at h; cases h
      | ok pr =>
        rw [hr] at h
        simp only [Except.ok.injEq] at h
        subst h; rfl
    | some fid =>
      simp only [Except.map] at h ⊢
      generalize g fid = aq' at h
      cases hr : PRecv.resynchronize s.pr pid with
      | error t => rw [hr] at h; cases h
      | ok pr =>
        rw [hr] at h
        simp only [Except.ok.injEq] at h
        subst h; rfl

/-- `handle_sync_frame`. -/
theorem handleSyncFrame_spec (s s' : State F) (nf np : Option Nat)
    (h : handleSyncFrame s nf np = .ok s') :
    s'.ps = s.ps ∧ resyncTo s.pr np = .ok s'.pr := by
  refine ⟨(handleSyncFrame_frame s s' nf np h).2, ?_⟩
  rw [handleSyncFrame_eq] at h
  exact syncFrameCore_spec s s' _ nf np h

/-! ### `step` -/

theorem fill_pr (ops : FloatOps F) (s : State F) (now : Nat) : (fillFlushAlloc ops s now).pr = s.pr := by
  cases h : s.timeLastFlushed <;> simp [fillFlushAlloc, h]

theorem stepP_pr (ops : FloatOps F) (s s' : State F) (now nowMs : Nat) (w : Nat → Nat → Nat)
    (ff : FrameQ.State → Nat → Option Nat → R FrameQ.State)
    (gf : FrameQ.State → Nat → R (FrameQ.State × Option (Rate.Feedback F)))
    (rs : Rate.State F → Nat → Option (Rate.Feedback F) → R (Rate.State F × Option F))
    (rl : FrameQ.State → F → R FrameQ.State)
    (h : HcFrame.stepP ops s now nowMs w ff gf rs rl = .ok s') : s'.pr = s.pr := by
  unfold HcFrame.stepP at h
  simp only at h
  generalize ff s.fq _ _ = r1 at h
  cases r1 with
  | error t => cases h
  | ok fq =>
    simp only at h
    generalize gf _ _ = r2 at h
    cases r2 with
    | error t => cases h
    | ok v =>
      obtain ⟨fq2, fbk⟩ := v
      simp only at h
      generalize rs _ _ _ = r3 at h
      cases r3 with
      | error t => cases h
      | ok v3 =>
        obtain ⟨rate, reset⟩ := v3
        cases reset with
        | none =>
          simp only [Except.ok.injEq] at h
          subst h
          exact fill_pr ops _ now
        | some p =>
          simp only at h
          generalize rl fq2 p = r4 at h
          cases r4 with
          | error t => cases h
          | ok fq3 =>
            simp only [Except.ok.injEq] at h
            subst h
            exact fill_pr ops _ now

/-- `step` touches neither the packet sender nor the packet receiver. -/
theorem step_spec (ops : FloatOps F) (s s' : State F) (now : Nat) (h : step ops s now = .ok s') :
    s'.ps = s.ps ∧ s'.pr = s.pr := by
  refine ⟨(step_frame ops s s' now h).2.1, ?_⟩
  rw [step_eq] at h
  exact stepP_pr ops s s' now _ _ _ _ _ _ h

/-! ### `dispatch` -/

/-- The four things `dispatch` can do. -/
inductive DView (s s' : State F) (bytes : List Nat) : Prop
  | skip : s' = s → fedBy s bytes = [] → ackBy bytes = [] →
      (∀ id n dgs, decode bytes ≠ some (.data id n dgs)) → (∀ nf np, decode bytes ≠ some (.sync nf np)) →
      (∀ fb pb acks, decode bytes ≠ some (.ack fb pb acks)) → DView s s' bytes
  | data (id : Nat) (nonce : Bool) (dgs : List Datagram) : decode bytes = some (.data id nonce dgs) →
      s'.ps = s.ps → fedBy s bytes = (if s.aq.contains id then dgs else []) → ackBy bytes = [] →
      (fedBy s bytes).foldlM PRecv.handleDatagram s.pr = .ok s'.pr → DView s s' bytes
  | sync (nf np : Option Nat) : decode bytes = some (.sync nf np) → s'.ps = s.ps →
      fedBy s bytes = [] → ackBy bytes = [] → resyncTo s.pr np = .ok s'.pr → DView s s' bytes
  | ack (fb pb : Nat) (acks : List AckGroup) (ps1 : PSend.State) : decode bytes = some (.ack fb pb acks) →
      s'.pr = s.pr → fedBy s bytes = [] → ackBy bytes = [pb] →
      FragSteps s.ps ps1 → acknowledge ps1 pb = .ok s'.ps → DView s s' bytes

theorem dispatch_view (s s' : State F) (bytes : List Nat) (h : dispatch s bytes = .ok s') :
    DView s s' bytes := by
  unfold dispatch at h
  cases hd : decode bytes with
  | none =>
    rw [hd] at h
    simp only [Except.ok.injEq] at h
    exact .skip h.symm (by simp [fedBy, hd]) (by simp [ackBy, hd]) (by simp [hd]) (by simp [hd]) (by simp [hd])
  | some f =>
    rw [hd] at h
    cases f with
    | data id nonce dgs =>
      simp only at h
      obtain ⟨h1, h2⟩ := handleDataFrame_spec s s' id nonce dgs h
      have hf : fedBy s bytes = (if s.aq.contains id then dgs else []) := by simp [fedBy, hd]
      exact .data id nonce dgs hd h1 hf (by simp [ackBy, hd]) (by rw [hf]; exact h2)
    | sync nf np =>
      simp only at h
      obtain ⟨h1, h2⟩ := handleSyncFrame_spec s s' nf np h
      exact .sync nf np hd h1 (by simp [fedBy, hd]) (by simp [ackBy, hd]) h2
    | ack fb pb acks =>
      simp only at h
      obtain ⟨h1, ps1, h2, h3⟩ := handleAckFrame_spec s s' fb pb acks h
      exact .ack fb pb acks ps1 hd h1 (by simp [fedBy, hd]) (by simp [ackBy, hd]) h2 h3
    | syn v n r p a =>
      simp only [Except.ok.injEq] at h
      exact .skip h.symm (by simp [fedBy, hd]) (by simp [ackBy, hd]) (by simp [hd]) (by simp [hd]) (by simp [hd])
    | synAck na n r p a =>
      simp only [Except.ok.injEq] at h
      exact .skip h.symm (by simp [fedBy, hd]) (by simp [ackBy, hd]) (by simp [hd]) (by simp [hd]) (by simp [hd])
    | hsAck na =>
      simp only [Except.ok.injEq] at h
      exact .skip h.symm (by simp [fedBy, hd]) (by simp [ackBy, hd]) (by simp [hd]) (by simp [hd]) (by simp [hd])
    | hsError na e =>
      simp only [Except.ok.injEq] at h
      exact .skip h.symm (by simp [fedBy, hd]) (by simp [ackBy, hd]) (by simp [hd]) (by simp [hd]) (by simp [hd])
    | disconnect =>
      simp only [Except.ok.injEq] at h
      exact .skip h.symm (by simp [fedBy, hd]) (by simp [ackBy, hd]) (by simp [hd]) (by simp [hd]) (by simp [hd])
    | disconnectAck =>
      simp only [Except.ok.injEq] at h
      exact .skip h.symm (by simp [fedBy, hd]) (by simp [ackBy, hd]) (by simp [hd]) (by simp [hd]) (by simp [hd])

end Uflow.HcSys
