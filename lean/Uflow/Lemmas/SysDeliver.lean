import Uflow.Lemmas.SysDefs

namespace Uflow.Sys
open Uflow Uflow.Gen Uflow.Codec Uflow.PRecv

/-!
The composed system (C01Sys), part 2: what the delivery pass of `receive` reports. Every event of
`deliverLoopT` is the content of a flagged slot of the state the pass started in.
-/

theorem Shrunk.refl (s : State) : Shrunk s s :=
  ⟨rfl, rfl, rfl, fun _ => rfl, fun _ => rfl, fun _ => rfl, fun _ => rfl, fun _ => rfl, fun _ h => ⟨h, rfl⟩⟩

theorem Shrunk.trans {s t u : State} (h1 : Shrunk s t) (h2 : Shrunk t u) : Shrunk s u where
  base := by rw [h2.base, h1.base]
  endId := by rw [h2.endId, h1.endId]
  wsz := by rw [h2.wsz, h1.wsz]
  asm k := by rw [h2.asm, h1.asm]
  entry k := by rw [h2.entry, h1.entry]
  chan k := by rw [h2.chan, h1.chan]
  cpl k := by rw [h2.cpl, h1.cpl]
  wpl k := by rw [h2.wpl, h1.wpl]
  flag k hk := by
    obtain ⟨a, b⟩ := h2.flag k hk
    obtain ⟨c, d⟩ := h1.flag k a
    exact ⟨c, by rw [b, d]⟩

/-- Changing only the ready flags does not touch the window. -/
theorem Shrunk.setReady (s : State) (r : List Bool) : Shrunk s { s with readyFlags := r } :=
  ⟨rfl, rfl, rfl, fun _ => rfl, fun _ => rfl, fun _ => rfl, fun _ => rfl, fun _ => rfl, fun _ h => ⟨h, rfl⟩⟩

/-- One delivery: the delivered slot loses its data and flag, markers move, nothing else changes. -/
theorem Shrunk.deliver {W : Nat} (s s2 : State) (i : Nat) (ch : Chan) (c newId : Nat)
    (hws : s.windowSize = W)
    (h : setChannelBase (dlDeliver s i (lget s.slots i) ch) c newId = .ok s2) : Shrunk s s2 := by
  obtain ⟨d1, d2, d3, d4, -, -⟩ := dlDeliver_facts s i (lget s.slots i) ch
  generalize dlDeliver s i (lget s.slots i) ch = s1 at *
  obtain ⟨ch1, -, e2, e3, -, e5, -, e7⟩ := setChannelBase_facts (W := W) s1 s2 c newId
    (by rw [d3]; exact hws) h
  have hl1 : ∀ k, lget s1.slots k = if k = i then { lget s.slots i with data := none, dataFlag := false }
      else lget s.slots k := by
    intro k; rw [d4, lget_lset]
  refine ⟨by rw [e2, d1], by rw [e3, d2], by rw [e5, d3], ?_, ?_, ?_, ?_, ?_, ?_⟩
  · intro k
    rw [e7, hl1]
    split
    · rename_i hk; rw [hk]
    · rfl
  · intro k
    rw [e7, hl1]
    split
    · rename_i hk; rw [hk]
    · rfl
  · intro k
    rw [e7, hl1]
    split
    · rename_i hk; rw [hk]
    · rfl
  · intro k
    rw [e7, hl1]
    split
    · rename_i hk; rw [hk]
    · rfl
  · intro k
    rw [e7, hl1]
    split
    · rename_i hk; rw [hk]
    · rfl
  · intro k
    rw [e7, hl1]
    split
    · intro hk; cases hk
    · intro hk; exact ⟨hk, rfl⟩

/-- The event built from a still-flagged slot of a shrunk state is the event of the original slot. -/
theorem Shrunk.evOf_eq {s t : State} (h : Shrunk s t) (x k : Nat)
    (hf : (lget t.slots k).dataFlag = true) :
    (lget s.slots k).dataFlag = true ∧ evOf x (lget t.slots k) = evOf x (lget s.slots k) := by
  obtain ⟨a, b⟩ := h.flag k hf
  refine ⟨a, ?_⟩
  unfold evOf
  rw [h.chan, h.cpl, h.wpl, b]

set_option linter.unusedVariables false in
/-- The delivery pass only clears data flags (and moves markers); every event it reports is the
content of a flagged slot of the START state, at an id inside `[seq, endId)`. (`hb` is not needed;
it is kept so that the statement has the shape its callers expect.) -/
theorem deliverLoopT_content {W : Nat} (hW : WOk W) (base endId : Nat) (hb : base < 2^20) (he : endId < 2^20)
    (hew : pidSub endId base ≤ W) :
    ∀ (fuel : Nat) (s : State) (seq : Nat) (evs : List Ev) (s' : State) (evs' : List Ev),
      s.windowSize = W → seq < 2^20 → pidSub seq base ≤ pidSub endId base →
      deliverLoopT base fuel s seq endId evs = .ok (s', evs') →
      Shrunk s s' ∧ ∃ new, evs' = evs ++ new ∧
        ∀ ev ∈ new, ev.seq < 2^20 ∧ pidSub seq base ≤ pidSub ev.seq base ∧
          pidSub ev.seq base < pidSub endId base ∧
          (lget s.slots (wi W ev.seq)).dataFlag = true ∧ ev = evOf ev.seq (lget s.slots (wi W ev.seq)) := by
  intro fuel
  induction fuel with
  | zero => intro s seq evs s' evs' _ _ _ h; rw [deliverLoopT] at h; cases h
  | succ fuel ih =>
    intro s seq evs s' evs' hws hs hle h
    have stop : (Except.ok (s, evs) : R (State × List Ev)) = .ok (s', evs') →
        Shrunk s s' ∧ ∃ new, evs' = evs ++ new ∧
        ∀ ev ∈ new, ev.seq < 2^20 ∧ pidSub seq base ≤ pidSub ev.seq base ∧
          pidSub ev.seq base < pidSub endId base ∧
          (lget s.slots (wi W ev.seq)).dataFlag = true ∧ ev = evOf ev.seq (lget s.slots (wi W ev.seq)) := by
      intro h
      cases h
      exact ⟨Shrunk.refl s, [], by rw [List.append_nil], fun ev hev => by cases hev⟩
    rw [deliverLoopT] at h
    by_cases heq : seq = endId
    · rw [if_pos heq] at h; exact stop h
    rw [if_neg heq] at h
    by_cases hr : ¬ anyReady s = true
    · rw [if_pos hr] at h; exact stop h
    rw [if_neg hr] at h
    have hn := pidAdd_lt seq 1
    have hjlt : pidSub seq base < pidSub endId base := by
      rcases Nat.lt_or_ge (pidSub seq base) (pidSub endId base) with h | h
      · exact h
      · exact absurd (id_eq_of_off seq endId base hs he (by omega)) heq
    have hoff : pidSub (pidAdd seq 1) base = pidSub seq base + 1 :=
      off_succ _ _ (by have := hW.le; omega)
    have hle' : pidSub (pidAdd seq 1) base ≤ pidSub endId base := by omega
    -- recursion on a state `t` with `Shrunk s t`, no event appended
    have same : ∀ t : State, Shrunk s t →
        deliverLoopT base fuel t (pidAdd seq 1) endId evs = .ok (s', evs') →
        Shrunk s s' ∧ ∃ new, evs' = evs ++ new ∧
        ∀ ev ∈ new, ev.seq < 2^20 ∧ pidSub seq base ≤ pidSub ev.seq base ∧
          pidSub ev.seq base < pidSub endId base ∧
          (lget s.slots (wi W ev.seq)).dataFlag = true ∧ ev = evOf ev.seq (lget s.slots (wi W ev.seq)) := by
      intro t hst ht
      obtain ⟨h1, new, h2, h3⟩ := ih t _ evs s' evs' (by rw [hst.wsz]; exact hws) hn hle' ht
      refine ⟨hst.trans h1, new, h2, ?_⟩
      intro ev hev
      obtain ⟨a1, a2, a3, a4, a5⟩ := h3 ev hev
      obtain ⟨b1, b2⟩ := hst.evOf_eq ev.seq _ a4
      exact ⟨a1, by omega, a3, b1, by rw [← b2]; exact a5⟩
    have hwidx : widx s seq = wi W seq := by simp only [widx, wi, hws]
    simp only at h
    rw [hwidx, getSlot_eq] at h
    by_cases hf : (lget s.slots (wi W seq)).dataFlag = true
    case neg =>
      rw [if_neg hf] at h
      exact same s (Shrunk.refl s) h
    rw [if_pos hf] at h
    cases hbr : s.readyFlags[(lget s.slots (wi W seq)).chan]? with
    | none => rw [hbr] at h; cases h
    | some b =>
      rw [hbr] at h
      cases b with
      | false => exact same s (Shrunk.refl s) h
      | true =>
        simp only at h
        cases hcb : chanBase s (lget s.slots (wi W seq)).chan base with
        | error t => rw [hcb] at h; cases h
        | ok cb =>
          rw [hcb] at h
          simp only at h
          by_cases hcond : (lget s.slots (wi W seq)).cpl = 0 ∨ (lget s.slots (wi W seq)).cpl > pidSub seq cb
          case neg =>
            rw [if_neg hcond] at h
            exact same _ (Shrunk.setReady s _) h
          rw [if_pos hcond] at h
          cases hch : s.chans[(lget s.slots (wi W seq)).chan]? with
          | none => rw [hch] at h; cases h
          | some ch =>
            rw [hch] at h
            simp only at h
            by_cases hz : ch.count = 0
            · rw [if_pos hz] at h; cases h
            rw [if_neg hz] at h
            cases hs2 : setChannelBase (dlDeliver s (wi W seq) (lget s.slots (wi W seq)) ch)
                (lget s.slots (wi W seq)).chan (pidAdd seq 1) with
            | error t => rw [hs2] at h; cases h
            | ok s2 =>
              rw [hs2] at h
              simp only at h
              have hst : Shrunk s s2 := Shrunk.deliver s s2 _ ch _ _ hws hs2
              obtain ⟨h1, new, h2, h3⟩ := ih s2 _ _ s' evs' (by rw [hst.wsz]; exact hws) hn hle' h
              refine ⟨hst.trans h1, evOf seq (lget s.slots (wi W seq)) :: new, ?_, ?_⟩
              · rw [h2, List.append_assoc]; rfl
              · intro ev hev
                rcases List.mem_cons.mp hev with hev | hev
                · subst hev
                  exact ⟨hs, Nat.le_refl _, hjlt, hf, rfl⟩
                · obtain ⟨a1, a2, a3, a4, a5⟩ := h3 ev hev
                  obtain ⟨b1, b2⟩ := hst.evOf_eq ev.seq _ a4
                  exact ⟨a1, by omega, a3, b1, by rw [← b2]; exact a5⟩

end Uflow.Sys
