import Uflow.Lemmas.HcFlushPair
import Uflow.Lemmas.SysPassAlloc

/-!
C06NoDud, helper lemmas: in a `Sys` state satisfying `SInv` and the allocation invariant `AInv` the
receiver's allocation counter is at most the sender's (every assembly entry of the receive window belongs
to a packet still in the send window and is charged at most the sender's `alloc_size`), and the transfer
of the allocation facts to the pair through `HcSys.Rel`.
-/

namespace Uflow.Sys

open Uflow Uflow.Gen Uflow.Codec Uflow.PSend Uflow.PRecv Uflow.Frag

/-- **The receiver's allocation counter never exceeds the sender's** (`alloc_room` without the slack). -/
theorem recv_alloc_le_send_alloc {b0 w W M A : Nat} (hW : WOk W) {s : Sys} (h : SInv b0 w W M s)
    (a : AInv W A s) : s.rcv.st.alloc ≤ s.snd.alloc := by
  have hinv := h.rcv.inv
  have h1 : s.rcv.st.alloc =
      rsum W (fun u => fAlloc (lget s.rcv.st.slots ((s.rcv.st.baseId + u) % W))) := by
    rw [hinv.aeq, lsum_eq_rsum fAlloc fAlloc_default W _ hinv.nodup hinv.klt]
    exact (rsum_rot W s.rcv.st.baseId (fun k => fAlloc (lget s.rcv.st.slots k)) hinv.wpos).symm
  have hpt : ∀ u, u < W → fAlloc (lget s.rcv.st.slots ((s.rcv.st.baseId + u) % W)) ≤
      bnd s.pend (s.rcv.adv + u) := by
    intro u hu
    have hu20 : u < 2^20 := by have := hW.le; omega
    have hx := PRecv.pidAdd_lt s.rcv.st.baseId u
    have hoff := pidSub_pidAdd_base s.rcv.st.baseId u hinv.blt hu20
    have := a.al (pidAdd s.rcv.st.baseId u) hx (by rw [hoff]; exact hu)
    rw [wi_eq_off hW _ s.rcv.st.baseId hinv.blt, hoff] at this
    exact this
  have h2 := rsum_le W _ _ hpt
  have h3 : rsum W (fun u => bnd s.pend (s.rcv.adv + u)) ≤ ((s.pend.drop s.rcv.adv).map asz).sum := by
    have := rsum_getElem_le asz (s.pend.drop s.rcv.adv) W
    refine Nat.le_trans (Nat.le_of_eq (rsum_congr _ _ _ (fun u _ => ?_))) this
    show bnd s.pend (s.rcv.adv + u) = _
    unfold bnd
    rw [List.getElem?_drop]
    cases s.pend[s.rcv.adv + u]? <;> rfl
  have h4 := sum_drop_mono asz s.pend (s.pend.length - s.snd.win.length) s.rcv.adv
    (by rw [h.snd.plen]; exact h.lo)
  have h5 : s.snd.alloc = ((s.pend.drop (s.pend.length - s.snd.win.length)).map asz).sum := by
    rw [a.sacc.2, ← a.swin]; rfl
  omega

end Uflow.Sys
