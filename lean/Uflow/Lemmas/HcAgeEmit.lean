import Uflow.Lemmas.HcSysEmit
import Uflow.Lemmas.HcWinUids

/-!
C01Age, part 1: what `flush` puts on the wire, with POSITIONS. `HcSys.flush_spec` shows that every
datagram of an emitted data frame is a fragment datagram of SOME packet of the emission history
(`Genuine`). Here the same chain of lemmas (`Lemmas/HcSysEmit.lean`, same proofs) is run with the
stronger predicate `GenL lo pend d`: `d` is a fragment datagram of the packet at an emission position
`i ≥ lo`, where `lo` is the position of the first packet of the send window (`nextUid - win.length`,
constant during a `flush`: `PSend.emit` appends to the window). The fragments `flush` transmits are found
by `findPacket` in the send window, whose entries have the identities `nextUid - win.length, …,
nextUid - 1` (`HcCov.WinUids`).
-/

namespace Uflow.HcAge

open Uflow Uflow.Gen Uflow.Codec Uflow.HalfConn Uflow.PSend Uflow.HcSys Uflow.HcCov
open Uflow.HcInv (dfePush_eq startNewG dfeFinalize_none dfeFinalize_some)

variable {F : Type} {lo : Nat}

/-- `d` is a fragment datagram of the packet at an emission position `i ≥ lo`. -/
def GenL (lo : Nat) (pend : List Pending) (d : Datagram) : Prop := ∃ i, lo ≤ i ∧ IsFrag pend i d

theorem GenL.mono {pend : List Pending} {d : Datagram} (h : GenL lo pend d) (l : List Pending) :
    GenL lo (pend ++ l) d := by
  obtain ⟨i, h1, h2⟩ := h
  exact ⟨i, h1, h2.mono l⟩

theorem GenL.genuine {pend : List Pending} {d : Datagram} (h : GenL lo pend d) : Genuine pend d := by
  obtain ⟨i, _, h2⟩ := h
  exact ⟨i, h2⟩

/-- `AInv` together with the identities of the send window, all at or above `lo`. -/
structure AInvL (lo : Nat) (pend : List Pending) (ps : PSend.State) : Prop where
  a : AInv pend ps
  wu : WinUids ps
  lob : lo ≤ ps.nextUid - ps.win.length

theorem ainvL_genuine {pend : List Pending} {ps : PSend.State} (h : AInvL lo pend ps) (uid fid : Nat)
    (p : Pending) (d : Datagram) (hf : findPacket ps uid = some p) (hd : p.datagram fid = .ok d) :
    GenL lo pend d := by
  obtain ⟨⟨w, hw, rfl⟩, _⟩ := findPacket_some ps uid _ hf
  have h1 := h.a.win w hw
  have hok := h.a.pok _ _ h1
  have hd' : ({ w.packet with acked := [] } : Pending).datagram fid = .ok d := hd
  have hmem : w.packet.uid ∈ ps.win.map (·.packet.uid) := List.mem_map.mpr ⟨w, hw, rfl⟩
  rw [h.wu.2, List.mem_range'_1] at hmem
  have := h.lob
  exact ⟨w.packet.uid, by omega, _, fid, h1, (pendOk_datagram hok fid d hd').1, hd'⟩

theorem ainvL_emit {pend : List Pending} {ps ps' : PSend.State} (h : AInvL lo pend ps) (f : Nat)
    (r : Option (Pending × Bool)) (he : emit ps f = .ok (ps', r)) :
    AInvL lo (pend ++ (r.map Prod.fst).toList) ps' ∧
      ∃ ws, ps'.win = ps.win ++ ws ∧ ws.map (·.packet) = (r.map Prod.fst).toList := by
  obtain ⟨ha, ws, hws, hmap⟩ := ainv_emit h.a f r he
  refine ⟨⟨ha, winUids_emit h.wu f r he, ?_⟩, ws, hws, hmap⟩
  have h1 := ha.nuid
  have h2 := h.a.nuid
  have h3 := h.lob
  have h4 := h.wu.1
  have hl : ws.length = (r.map Prod.fst).toList.length := by rw [← hmap, List.length_map]
  rw [h1, hws, List.length_append, List.length_append, ← hl]
  omega

def DataOkL (lo : Nat) (pend : List Pending) (b : List Nat) : Prop :=
  ∃ id nonce dgs, b = encode (.data id nonce dgs) ∧ dgs.length ≤ 127 ∧ ∀ d ∈ dgs, GenL lo pend d

/-- Invariant of the emitter context relative to the emission history. -/
structure GEL (lo : Nat) (pend : List Pending) (e : Emit F) : Prop where
  a : AInvL lo pend e.s.ps
  out : ∀ b ∈ e.out, DataOkL lo pend b
  ip : ∀ ip, e.inProg = some ip → ip.dgs.length ≤ 127 ∧ ∀ d ∈ ip.dgs, GenL lo pend d

theorem GEL.grow {pend : List Pending} {e : Emit F} (h : GEL lo pend e) (l : List Pending) (ps : PSend.State)
    (pe : List PEntry) (ha : AInvL lo (pend ++ l) ps) :
    GEL lo (pend ++ l) ({ e with s := { e.s with ps := ps, pending := pe } } : Emit F) where
  a := ha
  out := by
    intro b hb
    obtain ⟨id, n, dgs, h1, h2, h3⟩ := h.out b hb
    exact ⟨id, n, dgs, h1, h2, fun d hd => (h3 d hd).mono l⟩
  ip := by
    intro ip hip
    obtain ⟨h1, h2⟩ := h.ip ip hip
    exact ⟨h1, fun d hd => (h2 d hd).mono l⟩

/-- Changing the transmit queues (or any field other than `ps`) keeps `GEL lo`. -/
theorem GEL.setS {pend : List Pending} {e : Emit F} (h : GEL lo pend e) (s : State F) (hs : s.ps = e.s.ps) :
    GEL lo pend ({ e with s := s } : Emit F) where
  a := by show AInvL lo pend s.ps; rw [hs]; exact h.a
  out := h.out
  ip := h.ip

theorem dfeFinalize_geL {pend : List Pending} (e : Emit F) (h : GEL lo pend e) :
    GEL lo pend (dfeFinalize e) ∧ K e.s (dfeFinalize e).s ∧ (dfeFinalize e).s.ps = e.s.ps ∧
      (dfeFinalize e).inProg = none := by
  cases hip : e.inProg with
  | none =>
    rw [dfeFinalize_none e hip]
    exact ⟨h, K.refl _, rfl, hip⟩
  | some ip =>
    obtain ⟨fq, rate, _, _, heq⟩ := dfeFinalize_some e ip hip
    rw [heq]
    obtain ⟨h1, h2⟩ := h.ip ip hip
    refine ⟨⟨h.a, ?_, fun ip' h' => by cases h'⟩, ⟨rfl, rfl⟩, rfl, rfl⟩
    intro b hb
    simp only [List.mem_append, List.mem_singleton] at hb
    rcases hb with hb | rfl
    · exact h.out b hb
    · exact ⟨_, _, _, rfl, h1, h2⟩


theorem startNewG_geL {pend : List Pending} (dg : Datagram) (p : Pending) (fid : Nat) (resend : Bool)
    (e e' : Emit F) (res : Option PushErr) (h : GEL lo pend e) (_hn : e.inProg = none)
    (hg : GenL lo pend dg) (hs : startNewG dg p fid resend e = .ok (e', res)) :
    GEL lo pend e' ∧ K e.s e'.s ∧ e'.s.ps = e.s.ps ∧ e'.s.pending = e.s.pending ∧
      e'.s.resend = e.s.resend := by
  unfold startNewG at hs
  split at hs
  · simp only [Except.ok.injEq, Prod.mk.injEq] at hs
    obtain ⟨rfl, _⟩ := hs
    exact ⟨h.setS _ rfl, ⟨rfl, rfl⟩, rfl, rfl, rfl⟩
  · split at hs
    · simp only [Except.ok.injEq, Prod.mk.injEq] at hs
      obtain ⟨rfl, _⟩ := hs
      exact ⟨h, K.refl _, rfl, rfl, rfl⟩
    · generalize e.s.rng.next = vr at hs
      obtain ⟨v, rng⟩ := vr
      simp only [Except.ok.injEq, Prod.mk.injEq] at hs
      obtain ⟨rfl, _⟩ := hs
      refine ⟨⟨h.a, h.out, ?_⟩, ⟨rfl, rfl⟩, rfl, rfl, rfl⟩
      intro ip hip
      simp only [Option.some.injEq] at hip
      subst hip
      refine ⟨by simp, ?_⟩
      intro d hd
      simp only [List.mem_singleton] at hd
      subst hd
      exact hg

/-- `dfePush` of a genuine fragment keeps the invariant. -/
theorem dfePush_geL {pend : List Pending} (e e' : Emit F) (p : Pending) (fid : Nat) (resend : Bool)
    (res : Option PushErr) (h : GEL lo pend e) (hg : ∀ d, p.datagram fid = .ok d → GenL lo pend d)
    (hp : dfePush e p fid resend = .ok (e', res)) :
    GEL lo pend e' ∧ K e.s e'.s ∧ e'.s.ps = e.s.ps ∧ e'.s.pending = e.s.pending ∧
      e'.s.resend = e.s.resend := by
  rw [dfePush_eq] at hp
  cases hdg : p.datagram fid with
  | error t => rw [hdg] at hp; cases hp
  | ok dg =>
    rw [hdg] at hp
    simp only [] at hp
    have hgd := hg dg hdg
    obtain ⟨hf1, hf2, hf3, hf4⟩ := dfeFinalize_geL e h
    have hfq : (dfeFinalize e).s.pending = e.s.pending ∧ (dfeFinalize e).s.resend = e.s.resend := by
      cases hip : e.inProg with
      | none => rw [dfeFinalize_none e hip]; exact ⟨rfl, rfl⟩
      | some ip =>
        obtain ⟨fq, rate, _, _, heq⟩ := dfeFinalize_some e ip hip
        rw [heq]; exact ⟨rfl, rfl⟩
    cases hip : e.inProg with
    | none =>
      rw [hip] at hp
      simp only [] at hp
      exact startNewG_geL dg p fid resend e e' res h hip hgd hp
    | some ip =>
      rw [hip] at hp
      simp only [] at hp
      split at hp
      · simp only [Except.ok.injEq, Prod.mk.injEq] at hp
        obtain ⟨rfl, _⟩ := hp
        exact ⟨hf1.setS _ rfl, ⟨hf2.pr, hf2.fid⟩, hf3, hfq.1, hfq.2⟩
      · split at hp
        · obtain ⟨g1, g2, g3, g4, g5⟩ := startNewG_geL dg p fid resend _ e' res hf1 hf4 hgd hp
          exact ⟨g1, hf2.trans g2, g3.trans hf3, g4.trans hfq.1, g5.trans hfq.2⟩
        · rename_i hlim
          simp only [Except.ok.injEq, Prod.mk.injEq] at hp
          obtain ⟨rfl, _⟩ := hp
          obtain ⟨h1, h2⟩ := h.ip ip hip
          refine ⟨⟨h.a, h.out, ?_⟩, K.refl _, rfl, rfl, rfl⟩
          intro ip' hip'
          simp only [Option.some.injEq] at hip'
          subst hip'
          simp only [not_or, Nat.not_lt, ge_iff_le, Nat.not_le, maxPacketCount_eq] at hlim
          refine ⟨by simp only [List.length_append, List.length_cons, List.length_nil]; omega, ?_⟩
          intro d hd
          simp only [List.mem_append, List.mem_singleton] at hd
          rcases hd with hd | rfl
          · exact h2 d hd
          · exact hgd

/-! ### the loops -/

theorem resendLoop_geL {pend : List Pending} (fuel : Nat) (e e' : Emit F) (st : Option Stage)
    (h : GEL lo pend e) (hr : resendLoop fuel e = .ok (e', st)) :
    GEL lo pend e' ∧ K e.s e'.s ∧ e'.s.ps = e.s.ps := by
  induction fuel generalizing e with
  | zero => simp [resendLoop] at hr
  | succ n ih =>
    rw [resendLoop] at hr
    cases h0 : e.s.resend[0]? with
    | none =>
      rw [h0] at hr
      simp only [Except.ok.injEq, Prod.mk.injEq] at hr
      obtain ⟨rfl, _⟩ := hr
      exact ⟨h, K.refl _, rfl⟩
    | some entry =>
      rw [h0] at hr
      simp only [] at hr
      have hpopped : ∀ (pp : Emit F), pp.s.ps = e.s.ps → pp.s.pr = e.s.pr → pp.s.flushId = e.s.flushId →
          pp.out = e.out → pp.inProg = e.inProg → resendLoop n pp = .ok (e', st) →
          GEL lo pend e' ∧ K e.s e'.s ∧ e'.s.ps = e.s.ps := by
        intro pp h1 h2 h3 h4 h5 hr'
        have hg : GEL lo pend pp := ⟨by rw [h1]; exact h.a, by rw [h4]; exact h.out, by rw [h5]; exact h.ip⟩
        obtain ⟨g1, g2, g3⟩ := ih pp hg hr'
        exact ⟨g1, K.trans ⟨h2, h3⟩ g2, g3.trans h1⟩
      have hpp : ∀ x : Option (REntry × Array REntry),
          ((match x with
            | some (_, hh) => ({ e with s := { e.s with resend := hh } } : Emit F)
            | none => e) : Emit F).s.ps = e.s.ps ∧
          ((match x with
            | some (_, hh) => ({ e with s := { e.s with resend := hh } } : Emit F)
            | none => e) : Emit F).s.pr = e.s.pr ∧
          ((match x with
            | some (_, hh) => ({ e with s := { e.s with resend := hh } } : Emit F)
            | none => e) : Emit F).s.flushId = e.s.flushId ∧
          ((match x with
            | some (_, hh) => ({ e with s := { e.s with resend := hh } } : Emit F)
            | none => e) : Emit F).out = e.out ∧
          ((match x with
            | some (_, hh) => ({ e with s := { e.s with resend := hh } } : Emit F)
            | none => e) : Emit F).inProg = e.inProg := by
        intro x
        cases x with
        | none => exact ⟨rfl, rfl, rfl, rfl, rfl⟩
        | some v => exact ⟨rfl, rfl, rfl, rfl, rfl⟩
      obtain ⟨q1, q2, q3, q4, q5⟩ := hpp (heapPop e.s.resend)
      cases hfp : findPacket e.s.ps entry.uid with
      | none =>
        rw [hfp] at hr
        simp only [] at hr
        exact hpopped _ q1 q2 q3 q4 q5 hr
      | some p =>
        rw [hfp] at hr
        simp only [] at hr
        split at hr
        · exact hpopped _ q1 q2 q3 q4 q5 hr
        · split at hr
          · simp only [Except.ok.injEq, Prod.mk.injEq] at hr
            obtain ⟨rfl, _⟩ := hr
            exact ⟨h, K.refl _, rfl⟩
          · cases hpush : dfePush e p entry.fid true with
            | error t => rw [hpush] at hr; cases hr
            | ok v =>
              obtain ⟨e1, res⟩ := v
              rw [hpush] at hr
              obtain ⟨g1, g2, g3, _, _⟩ := dfePush_geL e e1 p entry.fid true res h
                (fun d hd => ainvL_genuine h.a entry.uid entry.fid p d hfp hd) hpush
              cases res with
              | some pe =>
                cases pe with
                | sizeLimited =>
                  simp only [Except.ok.injEq, Prod.mk.injEq] at hr
                  obtain ⟨rfl, _⟩ := hr
                  exact ⟨g1, g2, g3⟩
                | windowLimited =>
                  simp only [Except.ok.injEq, Prod.mk.injEq] at hr
                  obtain ⟨rfl, _⟩ := hr
                  exact ⟨g1, g2, g3⟩
              | none =>
                simp only [] at hr
                cases hpop2 : heapPop e1.s.resend with
                | none => rw [hpop2] at hr; cases hr
                | some w =>
                  obtain ⟨ent, hh⟩ := w
                  rw [hpop2] at hr
                  simp only [] at hr
                  obtain ⟨k1, k2, k3⟩ := ih _ (by exact g1.setS _ rfl) hr
                  exact ⟨k1, g2.trans (K.trans (K.of_eq (by exact rfl) (by exact rfl)) k2), k3.trans g3⟩

theorem pendingInner_geL {pend : List Pending} (fuel : Nat) (e e' : Emit F) (st : Option Stage)
    (h : GEL lo pend e) (hr : pendingInner fuel e = .ok (e', st)) :
    GEL lo pend e' ∧ K e.s e'.s ∧ e'.s.ps = e.s.ps := by
  induction fuel generalizing e with
  | zero => simp [pendingInner] at hr
  | succ n ih =>
    rw [pendingInner] at hr
    cases hpe : e.s.pending with
    | nil =>
      rw [hpe] at hr
      simp only [Except.ok.injEq, Prod.mk.injEq] at hr
      obtain ⟨rfl, _⟩ := hr
      exact ⟨h, K.refl _, rfl⟩
    | cons entry rest =>
      rw [hpe] at hr
      simp only [] at hr
      have hset : ∀ (pe : List PEntry), pendingInner n ({ e with s := { e.s with pending := pe } } : Emit F) = .ok (e', st) →
          GEL lo pend e' ∧ K e.s e'.s ∧ e'.s.ps = e.s.ps := by
        intro pe hr'
        obtain ⟨g1, g2, g3⟩ := ih _ (by exact h.setS _ rfl) hr'
        exact ⟨g1, K.trans (K.of_eq (by exact rfl) (by exact rfl)) g2, g3⟩
      cases hfp : findPacket e.s.ps entry.uid with
      | none =>
        rw [hfp] at hr
        exact hset _ hr
      | some p =>
        rw [hfp] at hr
        simp only [] at hr
        split at hr
        · exact hset _ hr
        · split at hr
          · exact hset _ hr
          · cases hpush : dfePush e p entry.fid entry.resend with
            | error t => rw [hpush] at hr; cases hr
            | ok v =>
              obtain ⟨e1, res⟩ := v
              rw [hpush] at hr
              obtain ⟨g1, g2, g3, _, _⟩ := dfePush_geL e e1 p entry.fid entry.resend res h
                (fun d hd => ainvL_genuine h.a entry.uid entry.fid p d hfp hd) hpush
              cases res with
              | some pe =>
                cases pe with
                | sizeLimited =>
                  simp only [Except.ok.injEq, Prod.mk.injEq] at hr
                  obtain ⟨rfl, _⟩ := hr
                  exact ⟨g1, g2, g3⟩
                | windowLimited =>
                  simp only [Except.ok.injEq, Prod.mk.injEq] at hr
                  obtain ⟨rfl, _⟩ := hr
                  exact ⟨g1, g2, g3⟩
              | none =>
                simp only [] at hr
                have hps : ∀ (s2 : State F), s2.ps = e1.s.ps → s2.pr = e1.s.pr → s2.flushId = e1.s.flushId →
                    pendingInner n ({ e1 with s := s2 } : Emit F) = .ok (e', st) →
                    GEL lo pend e' ∧ K e.s e'.s ∧ e'.s.ps = e.s.ps := by
                  intro s2 a1 a2 a3 hr'
                  obtain ⟨k1, k2, k3⟩ := ih _ (by exact g1.setS s2 a1) hr'
                  exact ⟨k1, g2.trans (K.trans ⟨a2, a3⟩ k2), (k3.trans a1).trans g3⟩
                split at hr
                · exact hps _ (by exact rfl) (by exact rfl) (by exact rfl) hr
                · exact hps _ (by exact rfl) (by exact rfl) (by exact rfl) hr

theorem refill_geL {pend : List Pending} (e e1 : Emit F) (b : Bool) (h : GEL lo pend e)
    (hr : Wire.refill e = .ok (e1, b)) :
    ∃ l, Emits e.s.flushId e.s.ps e1.s.ps l ∧ GEL lo (pend ++ l) e1 ∧ K e.s e1.s := by
  unfold Wire.refill at hr
  split at hr
  · cases hem : emit e.s.ps e.s.flushId with
    | error t => rw [hem] at hr; cases hr
    | ok v =>
      obtain ⟨ps', r⟩ := v
      rw [hem] at hr
      obtain ⟨ha, _⟩ := ainvL_emit h.a _ r hem
      cases r with
      | none =>
        simp only [Except.ok.injEq, Prod.mk.injEq] at hr
        obtain ⟨rfl, _⟩ := hr
        refine ⟨_, Emits.single hem, ?_, ⟨rfl, rfl⟩⟩
        have := h.grow [] ps' e.s.pending (by simpa using ha)
        simpa using this
      | some v =>
        obtain ⟨p, resend⟩ := v
        simp only [Except.ok.injEq, Prod.mk.injEq] at hr
        obtain ⟨rfl, _⟩ := hr
        exact ⟨_, Emits.single hem, h.grow _ ps' _ ha, ⟨rfl, rfl⟩⟩
  · simp only [Except.ok.injEq, Prod.mk.injEq] at hr
    obtain ⟨rfl, _⟩ := hr
    exact ⟨[], .nil _, by simpa using h, K.refl _⟩

theorem pendingOuter_geL {pend : List Pending} (fuel : Nat) (e e' : Emit F) (st : Option Stage)
    (h : GEL lo pend e) (hr : pendingOuter fuel e = .ok (e', st)) :
    ∃ l, Emits e.s.flushId e.s.ps e'.s.ps l ∧ GEL lo (pend ++ l) e' ∧ K e.s e'.s := by
  induction fuel generalizing e pend with
  | zero => simp [pendingOuter] at hr
  | succ n ih =>
    rw [Wire.pendingOuter_eq] at hr
    cases hre : Wire.refill e with
    | error t => rw [hre] at hr; cases hr
    | ok v =>
      obtain ⟨e1, b⟩ := v
      rw [hre] at hr
      obtain ⟨l1, hem1, hg1, hk1⟩ := refill_geL e e1 b h hre
      cases b with
      | false =>
        simp only [Except.ok.injEq, Prod.mk.injEq] at hr
        obtain ⟨rfl, _⟩ := hr
        exact ⟨l1, hem1, hg1, hk1⟩
      | true =>
        simp only [] at hr
        cases hin : pendingInner (e1.s.pending.length + 2) e1 with
        | error t => rw [hin] at hr; cases hr
        | ok v2 =>
          obtain ⟨e2, st2⟩ := v2
          rw [hin] at hr
          obtain ⟨hg2, hk2, hp2⟩ := pendingInner_geL _ e1 e2 st2 hg1 hin
          cases st2 with
          | some s2 =>
            simp only [Except.ok.injEq, Prod.mk.injEq] at hr
            obtain ⟨rfl, _⟩ := hr
            exact ⟨l1, by rw [hp2]; exact hem1, hg2, hk1.trans hk2⟩
          | none =>
            simp only [] at hr
            obtain ⟨l3, hem3, hg3, hk3⟩ := ih e2 hg2 hr
            refine ⟨l1 ++ l3, ?_, by rw [← List.append_assoc]; exact hg3, (hk1.trans hk2).trans hk3⟩
            rw [hp2, hk2.fid, hk1.fid] at hem3
            exact hem1.trans hem3

/-- `emit_data_frames`. -/
theorem emitDataFrames_geL {pend : List Pending} (s s' : State F) (out : List (List Nat)) (st : Stage)
    (h : AInvL lo pend s.ps) (hr : emitDataFrames s = .ok (s', out, st)) :
    ∃ l, Emits s.flushId s.ps s'.ps l ∧ AInvL lo (pend ++ l) s'.ps ∧ (∀ b ∈ out, DataOkL lo (pend ++ l) b) ∧
      K s s' := by
  unfold emitDataFrames at hr
  simp only [] at hr
  have h0 : GEL lo pend ({ s := s, inProg := none, out := [] } : Emit F) :=
    ⟨h, fun b hb => (by cases hb), fun ip h' => (by cases h')⟩
  cases hr1 : resendLoop (2 * s.resend.size + 16 + s.flushAlloc.toNat)
      ({ s := s, inProg := none, out := [] } : Emit F) with
  | error t => rw [hr1] at hr; cases hr
  | ok v =>
    obtain ⟨e1, st1⟩ := v
    rw [hr1] at hr
    obtain ⟨g1, k1, p1⟩ := resendLoop_geL _ _ e1 st1 h0 hr1
    cases st1 with
    | some s1 =>
      simp only [Except.ok.injEq, Prod.mk.injEq] at hr
      obtain ⟨rfl, rfl, _⟩ := hr
      refine ⟨[], ?_, by simpa using g1.a, by simpa using g1.out, k1⟩
      rw [p1]; exact .nil _
    | none =>
      simp only [] at hr
      cases hr2 : pendingOuter (e1.s.ps.queue.length + e1.s.pending.length + 4) e1 with
      | error t => rw [hr2] at hr; cases hr
      | ok v2 =>
        obtain ⟨e2, st2⟩ := v2
        rw [hr2] at hr
        obtain ⟨l, hem, g2, k2⟩ := pendingOuter_geL _ e1 e2 st2 g1 hr2
        have hem' : Emits s.flushId s.ps e2.s.ps l := by
          have := hem
          rw [p1, k1.fid] at this
          exact this
        cases st2 with
        | some s2 =>
          simp only [Except.ok.injEq, Prod.mk.injEq] at hr
          obtain ⟨rfl, rfl, _⟩ := hr
          exact ⟨l, hem', g2.a, g2.out, k1.trans k2⟩
        | none =>
          simp only [Except.ok.injEq, Prod.mk.injEq] at hr
          obtain ⟨rfl, rfl, _⟩ := hr
          obtain ⟨g3, k3, p3, _⟩ := dfeFinalize_geL e2 g2
          refine ⟨l, by rw [p3]; exact hem', g3.a, g3.out, (k1.trans k2).trans k3⟩

/-! ### ack frames, sync frame -/


/-- **What `flush` emits.** From a state whose packet sender satisfies `AInvL lo pend`: the sender moves
by a chain of `PSend.emit · flushId` calls returning the packets `l`; the receiver is untouched; every
emitted frame is an ack frame carrying the receiver's current `base_id`, a data frame whose datagrams
are fragment datagrams of packets of `pend ++ l`, or a sync frame. -/
theorem flush_specL {pend : List Pending} (s s' : State F) (out : List (List Nat))
    (h : AInvL lo pend s.ps) (hf : flush s = .ok (s', out)) :
    ∃ l, Emits s.flushId s.ps s'.ps l ∧ AInvL lo (pend ++ l) s'.ps ∧ s'.pr = s.pr ∧
      ∀ b ∈ out, WireOk (GenL lo (pend ++ l)) (fun pb => pb = s.pr.baseId) b := by
  unfold flush at hf
  have hout1 := emitAckFrames_out s
  obtain ⟨k1, k2, k3⟩ := emitAckFrames_keep s
  generalize emitAckFrames s = r at hf hout1 k1 k2 k3
  obtain ⟨s1, out1, st1⟩ := r
  simp only [] at hf hout1 k1 k2 k3
  have hw1 : ∀ (l : List Pending), ∀ b ∈ out1, WireOk (GenL lo (pend ++ l)) (fun pb => pb = s.pr.baseId) b := by
    intro l b hb
    obtain ⟨gs, rfl⟩ := hout1 b hb
    exact .ack _ _ gs rfl rfl
  by_cases hst : st1 = .stop
  · rw [if_pos hst] at hf
    simp only [Except.ok.injEq, Prod.mk.injEq] at hf
    obtain ⟨rfl, rfl⟩ := hf
    refine ⟨[], by rw [k1]; exact .nil _, by rw [k1]; simpa using h, k2, hw1 []⟩
  · rw [if_neg hst] at hf
    cases hd : emitDataFrames s1 with
    | error t => rw [hd] at hf; cases hf
    | ok v =>
      obtain ⟨s2, out2, st2⟩ := v
      rw [hd] at hf
      simp only [] at hf
      obtain ⟨l, hem, ha2, ho2, kk⟩ := emitDataFrames_geL s1 s2 out2 st2 (by rw [k1]; exact h) hd
      rw [k1, k3] at hem
      have hw2 : ∀ b ∈ out2, WireOk (GenL lo (pend ++ l)) (fun pb => pb = s.pr.baseId) b := by
        intro b hb
        obtain ⟨id, n, dgs, h1, h2, h3⟩ := ho2 b hb
        exact .data id n dgs h1 h2 h3
      by_cases hst2 : st2 = .stop
      · rw [if_pos hst2] at hf
        simp only [Except.ok.injEq, Prod.mk.injEq] at hf
        obtain ⟨rfl, rfl⟩ := hf
        refine ⟨l, hem, ha2, kk.pr.trans k2, ?_⟩
        intro b hb
        rcases List.mem_append.mp hb with hb | hb
        · exact hw1 l b hb
        · exact hw2 b hb
      · rw [if_neg hst2] at hf
        cases hsy : emitSyncFrame s2 with
        | error t => rw [hsy] at hf; cases hf
        | ok v3 =>
          obtain ⟨s3, out3, st3⟩ := v3
          rw [hsy] at hf
          simp only [Except.ok.injEq, Prod.mk.injEq] at hf
          obtain ⟨rfl, rfl⟩ := hf
          obtain ⟨y1, y2, y3⟩ := emitSyncFrame_spec s2 _ out3 st3 hsy
          refine ⟨l, by rw [y1]; exact hem, by rw [y1]; exact ha2, (y2.trans kk.pr).trans k2, ?_⟩
          intro b hb
          rcases List.mem_append.mp hb with hb | hb
          · rcases List.mem_append.mp hb with hb | hb
            · exact hw1 l b hb
            · exact hw2 b hb
          · obtain ⟨nf, np, rfl⟩ := y3 b hb
            exact .sync nf np rfl


end Uflow.HcAge
