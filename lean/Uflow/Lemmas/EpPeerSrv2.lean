import Uflow.Lemmas.EpPeerEx
import Uflow.Lemmas.EndpointEventsBudget

/-!
C09, the peer endpoint's part (server model), per address: the datagram loop of a `step` seen from one
address `a` — frames from other addresses leave the entry of `a` alone and emit nothing about `a`; traffic
frames from `a` are dispatched in arrival order; a Disconnect frame drains; afterwards nothing about `a`.
-/

namespace Uflow.Endpoint

open Uflow.Gen Uflow.Codec Uflow.HalfConn

variable {H : Type}

/-- The datagrams that came from `a`, in arrival order. -/
def fromAddr (a : Nat) (arr : List (Nat × List Nat)) : List (List Nat) := (arr.filter (·.1 = a)).map (·.2)

/-- The data / sync / ack frames that came from `a`, in arrival order. -/
def trafficAt (a : Nat) (arr : List (Nat × List Nat)) : List Frame := trafficOf (fromAddr a arr)

/-- Some datagram from `a` is a Disconnect frame. -/
def hasDiscAt (a : Nat) (arr : List (Nat × List Nat)) : Bool := hasDisc (fromAddr a arr)

/-- `hc.flush` applied repeatedly, with the given generators (the shared server generator, as it was at
each call). -/
def flushAll (hc : HC H) (h : H) (rngs : List Rng) : R H :=
  rngs.foldlM (fun h r => match hc.flush h r with
    | .error e => .error e
    | .ok (h', _, _) => .ok h') h

theorem fromAddr_cons_ne {a : Nat} {x : Nat × List Nat} (arr : List (Nat × List Nat)) (h : x.1 ≠ a) :
    fromAddr a (x :: arr) = fromAddr a arr := by
  simp [fromAddr, h]

theorem fromAddr_cons_eq {a : Nat} {x : Nat × List Nat} (arr : List (Nat × List Nat)) (h : x.1 = a) :
    fromAddr a (x :: arr) = x.2 :: fromAddr a arr := by
  simp [fromAddr, h]

/-- The events appended from `s` to `s'` contain nothing about `a`. -/
def QuietAt (a : Nat) (s s' : Server H) : Prop := ∃ evs, s'.eventsOut = s.eventsOut ++ evs ∧ evsOf a evs = []

theorem QuietAt.refl (a : Nat) (s : Server H) : QuietAt a s s := ⟨[], by simp, rfl⟩

theorem QuietAt.trans {a : Nat} {s s1 s2 : Server H} (x : QuietAt a s s1) (y : QuietAt a s1 s2) : QuietAt a s s2 := by
  obtain ⟨e1, h1, q1⟩ := x
  obtain ⟨e2, h2, q2⟩ := y
  exact ⟨e1 ++ e2, by rw [h2, h1, List.append_assoc], by rw [evsOf_append, q1, q2]; rfl⟩

theorem QuietAt.of_STr {a b : Nat} {s s' : Server H} {evs : List SEvent} (t : STr s evs s')
    (hall : ∀ e ∈ evs, e.addr = b) (hab : a ≠ b) : QuietAt a s s' :=
  ⟨evs, t.events, evsOf_none hall hab⟩

/-- All events emitted by `handle_frame` for a datagram from `addr` are about `addr`. -/
theorem Server.handleFrame_evs_addr (hc : HC H) (s s' : Server H) (hw : s.WF) (addr : Nat) (f : Frame) (nowMs nowNs : Nat)
    (out : List (Nat × List Nat)) (h : s.handleFrame hc addr f nowMs nowNs = .ok (s', out)) :
    ∃ evs, STr s evs s' ∧ ∀ e ∈ evs, e.addr = addr := by
  unfold Server.handleFrame at h
  have traffic : (s.handleTraffic hc addr f nowMs).map (·, ([] : List (Nat × List Nat))) = .ok (s', out) →
      ∃ evs, STr s evs s' ∧ ∀ e ∈ evs, e.addr = addr := by
    intro h
    cases ht : s.handleTraffic hc addr f nowMs with
    | error e => rw [ht] at h; cases h
    | ok s1 =>
      rw [ht] at h; cases h
      exact ⟨[], Server.handleTraffic_STr hc s _ hw addr f nowMs ht, by simp⟩
  cases f with
  | syn v n r p a =>
    have e := Except.ok.inj h
    obtain ⟨evs, h1, hsh⟩ := Server.handleSyn_STr s hw addr v n r p a nowMs
    rw [e] at h1
    refine ⟨evs, h1, fun e' hm => ?_⟩
    rcases hsh with rfl | ⟨⟨ev, hne, rfl⟩, _⟩
    · cases hm
    · simp only [List.mem_singleton] at hm; subst hm; rfl
  | hsAck na =>
    cases h
    obtain ⟨evs, h1, hsh⟩ := Server.handleHsAck_STr hc s hw addr na nowMs nowNs
    refine ⟨evs, h1, fun e' hm => ?_⟩
    rcases hsh with rfl | ⟨rfl, _⟩
    · cases hm
    · simp only [List.mem_singleton] at hm; subst hm; rfl
  | synAck => cases h; exact ⟨[], STr.refl hw, by simp⟩
  | hsError => cases h; exact ⟨[], STr.refl hw, by simp⟩
  | disconnect =>
    obtain ⟨evs, h1, hsh⟩ := Server.handleDisconnect_STr hc s s' hw addr nowMs out h
    refine ⟨evs, h1, fun e' hm => ?_⟩
    rcases hsh with rfl | ⟨_, _, _, pkts, rfl⟩
    · cases hm
    · simp only [List.mem_append, List.mem_map, List.mem_singleton] at hm
      rcases hm with ⟨_, _, rfl⟩ | rfl <;> rfl
  | disconnectAck =>
    cases h
    obtain ⟨evs, h1, hsh⟩ := Server.handleDisconnectAck_STr s hw addr
    refine ⟨evs, h1, fun e' hm => ?_⟩
    rcases hsh with rfl | ⟨rfl, _⟩
    · cases hm
    · simp only [List.mem_singleton] at hm; subst hm; rfl
  | data => exact traffic h
  | sync => exact traffic h
  | ack => exact traffic h

/-- A frame from another address: the entry of `a` is untouched, nothing about `a` is emitted. -/
theorem Server.handleFrame_other (hc : HC H) (s s' : Server H) (hw : s.WF) (a addr : Nat) (hne : addr ≠ a) (f : Frame)
    (nowMs nowNs : Nat) (out : List (Nat × List Nat)) (h : s.handleFrame hc addr f nowMs nowNs = .ok (s', out)) :
    s'.WF ∧ s'.find a = s.find a ∧ QuietAt a s s' := by
  obtain ⟨evs, t, hall⟩ := Server.handleFrame_evs_addr hc s s' hw addr f nowMs nowNs out h
  exact ⟨t.wf, (Server.handleFrame_LocalAt hc s s' hw addr f nowMs nowNs out h).find a (fun e => hne e.symm),
    QuietAt.of_STr t hall (fun e => hne e.symm)⟩

/-- A frame other than Disconnect from `a` whose entry is `active`: no event; the entry stays `active` (same
signal), its half connection has dispatched the frame iff it is a traffic frame. -/
theorem Server.handleFrame_active_nodisc (hc : HC H) (s s' : Server H) (hw : s.WF) (a : Nat) (f : Frame)
    (nowMs nowNs : Nat) (out : List (Nat × List Nat)) (c : RClient H) (hh : H) (t : Nat) (sig : Option DisconnectMode)
    (hf : s.find a = some c) (hst : c.state = .active hh t sig) (hnd : f ≠ .disconnect)
    (h : s.handleFrame hc a f nowMs nowNs = .ok (s', out)) :
    s'.WF ∧ s'.eventsOut = s.eventsOut ∧ ∃ c' h' t', s'.find a = some c' ∧ c'.state = .active h' t' sig ∧
      dispatchAll hc hh (if isTraffic f then [f] else []) = .ok h' := by
  have same : s' = s → isTraffic f = false →
      s'.WF ∧ s'.eventsOut = s.eventsOut ∧ ∃ c' h' t', s'.find a = some c' ∧ c'.state = .active h' t' sig ∧
      dispatchAll hc hh (if isTraffic f then [f] else []) = .ok h' := by
    intro e hnt; subst e
    exact ⟨hw, rfl, c, hh, t, hf, hst, by rw [hnt]; rfl⟩
  have traffic : isTraffic f = true → (s.handleTraffic hc a f nowMs).map (·, ([] : List (Nat × List Nat))) = .ok (s', out) →
      s'.WF ∧ s'.eventsOut = s.eventsOut ∧ ∃ c' h' t', s'.find a = some c' ∧ c'.state = .active h' t' sig ∧
      dispatchAll hc hh (if isTraffic f then [f] else []) = .ok h' := by
    intro hft h
    cases ht : s.handleTraffic hc a f nowMs with
    | error e => rw [ht] at h; cases h
    | ok s1 =>
      rw [ht] at h; cases h
      have tr := Server.handleTraffic_STr hc s _ hw a f nowMs ht
      rcases Server.handleTraffic_deadline hc s _ hw a f nowMs ht with ⟨_, hx⟩ | ⟨c0, hh0, t0, sig0, h', hf0, hst0, hd, hfind, _⟩
      · exact absurd hst (hx c hh t sig hf)
      · rw [hf] at hf0; cases hf0
        rw [hst] at hst0; cases hst0
        refine ⟨tr.wf, by simpa using tr.events, _, h', _, hfind, rfl, ?_⟩
        rw [if_pos hft]
        simp only [dispatchAll, List.foldlM_cons, List.foldlM_nil, bind, Except.bind, hd]; rfl
  unfold Server.handleFrame at h
  cases f with
  | disconnect => exact absurd rfl hnd
  | syn v n r p al =>
    refine same ?_ rfl
    simp [Server.handleSyn, hf] at h; exact h.1.symm
  | hsAck na =>
    refine same ?_ rfl
    simp [Server.handleHsAck, hf, hst] at h; exact h.1.symm
  | synAck => refine same ?_ rfl; simp at h; exact h.1.symm
  | hsError => refine same ?_ rfl; simp at h; exact h.1.symm
  | disconnectAck =>
    refine same ?_ rfl
    simp [Server.handleDisconnectAck, hf, hst] at h; exact h.1.symm
  | data => exact traffic rfl h
  | sync => exact traffic rfl h
  | ack => exact traffic rfl h

/-- Any frame from `a` whose entry is `closed` changes nothing. -/
theorem Server.handleFrame_closed (hc : HC H) (s s' : Server H) (a : Nat) (f : Frame)
    (nowMs nowNs : Nat) (out : List (Nat × List Nat)) (c : RClient H)
    (hf : s.find a = some c) (hst : c.state = .closed)
    (h : s.handleFrame hc a f nowMs nowNs = .ok (s', out)) : s' = s := by
  unfold Server.handleFrame at h
  cases f <;>
    simp [Server.handleSyn, Server.handleHsAck, Server.handleDisconnect, Server.handleDisconnectAck,
      Server.handleTraffic, hf, hst, Except.map] at h <;> exact h.1.symm

end Uflow.Endpoint
