import Uflow.Lemmas.HcInvHandlers
import Uflow.Lemmas.HcInvStep

/-!
C03 (half connection): runs. An arbitrary interleaving of the public operations of a
`HalfConnection` (`Credit.Ev`: frames from the network with arbitrary contents, `send`, `receive`,
`step`, `flush`) never traps.
-/

namespace Uflow.HcInv

open Uflow Uflow.Gen Uflow.Codec Uflow.HalfConn Uflow.Credit
open Uflow.Rate (FloatOps BisectConverges)

variable {F : Type}

/-- The side condition of one event, given the time `t` of the last `step` (or of creation):
`send` within the preconditions asserted by `RemoteClient::send` / `Client::send`
(`data.len() <= MAX_PACKET_SIZE`, `channel_id < CHANNEL_COUNT`); `step` with a clock that has not
run backwards. Frames from the network are unconstrained. -/
def evOk (t : Nat) : Ev → Bool
  | .step now => decide (t ≤ now)
  | .send data chan _ => decide (data.length ≤ MAX_PACKET_SIZE) && decide (chan < CHANNEL_COUNT)
  | _ => true

/-- The time of the last `step` after the event. -/
def evTime (t : Nat) : Ev → Nat
  | .step now => now
  | _ => t

def evsOk (t : Nat) : List Ev → Bool
  | [] => true
  | ev :: rest => evOk t ev && evsOk (evTime t ev) rest

/-- Runs an event list; returns the final state and all frames handed to the frame sink. -/
def runEvs (ops : FloatOps F) : State F → List Ev → R (State F × List (List Nat))
  | s, [] => .ok (s, [])
  | s, ev :: rest =>
    match exec ops s ev with
    | .error t => .error t
    | .ok (s1, out) =>
      match runEvs ops s1 rest with
      | .error t => .error t
      | .ok (s2, out2) => .ok (s2, out ++ out2)

theorem exec_ok (ops : FloatOps F) (hconv : BisectConverges ops) (hloss : LossOk ops) (s : State F)
    (ev : Ev) (h : HcInv s) (hev : evOk (lastNow s) ev = true) :
    ∃ s' out, exec ops s ev = .ok (s', out) ∧ HcInv s' ∧ lastNow s' = evTime (lastNow s) ev := by
  cases ev with
  | step now =>
    simp only [evOk, decide_eq_true_eq] at hev
    obtain ⟨s', he, hi, hl⟩ := step_ok ops hconv hloss s now h hev
    have hx : exec ops s (.step now) = (HalfConn.step ops s now).map fun s' => (s', []) := rfl
    exact ⟨s', [], by rw [hx, he]; rfl, hi, hl⟩
  | flush =>
    obtain ⟨s', out, he, hi, hl⟩ := flush_ok s h
    exact ⟨s', out, he, hi, hl⟩
  | send d c m =>
    simp only [evOk, Bool.and_eq_true, decide_eq_true_eq] at hev
    obtain ⟨hi, hl⟩ := send_ok s d c m h hev.1 hev.2
    exact ⟨_, [], rfl, hi, hl⟩
  | receive =>
    obtain ⟨s', out, he, hi, hl⟩ := receive_ok s h
    have hx : exec ops s .receive = (HalfConn.receive s).map fun r => (r.1, []) := rfl
    exact ⟨s', [], by rw [hx, he]; rfl, hi, hl⟩
  | dataFrame id nonce dgs =>
    obtain ⟨s', he, hi, hl⟩ := handleDataFrame_ok s id nonce dgs h
    have hx : exec ops s (.dataFrame id nonce dgs) =
        (handleDataFrame s id nonce dgs).map fun s' => (s', []) := rfl
    exact ⟨s', [], by rw [hx, he]; rfl, hi, hl⟩
  | syncFrame nf np =>
    obtain ⟨s', he, hi, hl⟩ := handleSyncFrame_ok s nf np h
    have hx : exec ops s (.syncFrame nf np) = (handleSyncFrame s nf np).map fun s' => (s', []) := rfl
    exact ⟨s', [], by rw [hx, he]; rfl, hi, hl⟩
  | ackFrame fb pb acks =>
    obtain ⟨s', he, hi, hl⟩ := handleAckFrame_ok s fb pb acks h
    have hx : exec ops s (.ackFrame fb pb acks) =
        (handleAckFrame s fb pb acks).map fun s' => (s', []) := rfl
    exact ⟨s', [], by rw [hx, he]; rfl, hi, hl⟩

theorem runEvs_ok (ops : FloatOps F) (hconv : BisectConverges ops) (hloss : LossOk ops)
    (evs : List Ev) (s : State F) (h : HcInv s) (hev : evsOk (lastNow s) evs = true) :
    ∃ s' out, runEvs ops s evs = .ok (s', out) ∧ HcInv s' := by
  induction evs generalizing s with
  | nil => exact ⟨s, [], rfl, h⟩
  | cons ev rest ih =>
    simp only [evsOk, Bool.and_eq_true] at hev
    obtain ⟨s1, out, he, hi, hl⟩ := exec_ok ops hconv hloss s ev h hev.1
    obtain ⟨s2, out2, hr, hi2⟩ := ih s1 hi (by rw [hl]; exact hev.2)
    exact ⟨s2, out ++ out2, by simp only [runEvs, he, hr], hi2⟩

/-- The same for the run function of C13 (`Credit.run`, which also totals bytes and credit). -/
theorem creditRun_ok (ops : FloatOps F) (hconv : BisectConverges ops) (hloss : LossOk ops)
    (evs : List Ev) (s : State F) (h : HcInv s) (hev : evsOk (lastNow s) evs = true) :
    ∃ r, Credit.run ops s evs = .ok r := by
  induction evs generalizing s with
  | nil => exact ⟨_, rfl⟩
  | cons ev rest ih =>
    simp only [evsOk, Bool.and_eq_true] at hev
    obtain ⟨s1, out, he, hi, hl⟩ := exec_ok ops hconv hloss s ev h hev.1
    obtain ⟨⟨s2, b, c⟩, hr⟩ := ih s1 hi (by rw [hl]; exact hev.2)
    exact ⟨(s2, bytes out + b, evCredit ops s ev + c), by simp only [Credit.run, he, hr]⟩

end Uflow.HcInv
