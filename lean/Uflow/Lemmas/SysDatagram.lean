import Uflow.Lemmas.SysDefs

/-!
The composed system (C01Sys), part 2: `handle_datagram` on a genuine fragment of an emitted packet
keeps the content invariant `CInv` of the receive window.
-/

namespace Uflow.Sys

open Uflow Uflow.Gen Uflow.Codec Uflow.PSend Uflow.PRecv Uflow.Frag

theorem slotInv_active {p : Pending} {i : Nat} {l : List Datagram} {s : PRecv.State} (hl : Feed p l)
    (h : SlotInv p i l s) :
    ∀ a c w cp la buf, (getSlot s i).asm = .active a c w cp la buf → ActiveOk p (getSlot s i).asm := by
  intro a c w cp la buf hasm
  obtain ⟨a', ⟨_, hcl⟩ | ⟨hnc, buf', hact, hw⟩⟩ := h
  · rw [hcl] at hasm; cases hasm
  · exact ⟨l, a', buf', hl, hnc, hact, hw⟩

/-- `try_add` on a genuine fragment of `p`, on a slot that is opened, closed or active for `p`: the
slot is afterwards again opened, closed or active for `p`, and a packet handed over carries `p`'s
payload (or none, if it exceeded the allocation limit). -/
theorem tryAdd_genuine (p : Pending) (hwf : WF p) (s : PRecv.State) (i : Nat) (d : Datagram)
    (hd : Genuine p d)
    (hslot : ∀ a c w cp l buf, (getSlot s i).asm = .active a c w cp l buf → ActiveOk p (getSlot s i).asm)
    (s1 : PRecv.State) (o : Option Packet) (h : tryAdd s i d = .ok (s1, o)) :
    (∀ a c w cp l buf, (getSlot s1 i).asm = .active a c w cp l buf → ActiveOk p (getSlot s1 i).asm) ∧
    (∀ pk, o = some pk → pk.data = none ∨ pk.data = some p.data) := by
  cases hasm : (getSlot s i).asm with
  | opened =>
    by_cases halloc : s.alloc + packetAllocSize d ≤ s.maxAlloc
    · by_cases hlast : p.lastFragmentId = 0
      · obtain ⟨k, hk, hdk⟩ := hd
        have he := genuine_eq p hwf d k hk hdk
        have hk0 : k = 0 := by omega
        subst hk0
        have hdata : frag p.data 0 = p.data := by
          have h1 := flatMap_frag_numFragments p.data
          have hn := wf_succ p hwf
          rw [← hn, hlast] at h1
          simpa using h1
        obtain ⟨s', h1, h2, -⟩ := tryAdd_opened_single s i d hasm halloc (by rw [he]; exact hlast)
        rw [h1] at h
        simp only [Except.ok.injEq, Prod.mk.injEq] at h
        obtain ⟨rfl, rfl⟩ := h
        refine ⟨?_, ?_⟩
        · intro a c w cp l buf hact; rw [h2] at hact; cases hact
        · intro pk hpk
          cases hpk
          right
          show some d.data = some p.data
          rw [he, hdata]
      · obtain ⟨s', h1, h2⟩ := tryAdd_first p hwf (by omega) s i d hasm halloc hd
        rw [h1] at h
        simp only [Except.ok.injEq, Prod.mk.injEq] at h
        obtain ⟨rfl, rfl⟩ := h
        refine ⟨slotInv_active (l := [d]) ?_ h2, fun pk hpk => by cases hpk⟩
        intro d' hd'
        rw [List.mem_singleton.mp hd']
        exact Or.inl hd
    · simp only [tryAdd, hasm] at h
      rw [if_pos (by omega)] at h
      simp only [Except.ok.injEq, Prod.mk.injEq] at h
      obtain ⟨rfl, rfl⟩ := h
      refine ⟨?_, ?_⟩
      · intro a c w cp l buf hact
        rw [getSlot_setSlot] at hact
        cases hact
      · intro pk hpk; cases hpk; exact Or.inl rfl
  | closed a =>
    rw [tryAdd_closed s i d a hasm] at h
    simp only [Except.ok.injEq, Prod.mk.injEq] at h
    obtain ⟨rfl, rfl⟩ := h
    exact ⟨hslot, fun pk hpk => by cases hpk⟩
  | active a c w cp la buf =>
    obtain ⟨l, a', buf', hl, hnc, hact, hw⟩ := hslot a c w cp la buf hasm
    have hinv : SlotInv p i l s := ⟨a', Or.inr ⟨hnc, buf', hact, hw⟩⟩
    obtain ⟨s', o', h1, hinv', ho, -⟩ := tryAdd_step p hwf s i l hl hinv d (Or.inl hd)
    rw [h1] at h
    simp only [Except.ok.injEq, Prod.mk.injEq] at h
    obtain ⟨rfl, rfl⟩ := h
    have hl' : Feed p (l ++ [d]) := feed_append p l [d] hl (by
      intro d' hd'; rw [List.mem_singleton.mp hd']; exact Or.inl hd)
    refine ⟨slotInv_active hl' hinv', ?_⟩
    intro pk hpk
    rcases ho with ho | ho
    · rw [ho] at hpk; cases hpk; exact Or.inr rfl
    · rw [ho] at hpk; cases hpk

/-- `SlotC` only reads the core of the slot. -/
theorem SlotC.of_core {pend : List Pending} {u : Nat} {sl sl' : Slot} (h : SlotC pend u sl)
    (hc : core sl' = core sl) : SlotC pend u sl' := by
  have e1 : sl'.dataFlag = sl.dataFlag := congrArg Slot.dataFlag hc |> fun (h : (core sl').dataFlag = (core sl).dataFlag) => h
  have e2 : sl'.entryFlag = sl.entryFlag := congrArg Slot.entryFlag hc |> fun (h : (core sl').entryFlag = (core sl).entryFlag) => h
  have e3 : sl'.chan = sl.chan := congrArg Slot.chan hc |> fun (h : (core sl').chan = (core sl).chan) => h
  have e4 : sl'.cpl = sl.cpl := congrArg Slot.cpl hc |> fun (h : (core sl').cpl = (core sl).cpl) => h
  have e5 : sl'.wpl = sl.wpl := congrArg Slot.wpl hc |> fun (h : (core sl').wpl = (core sl).wpl) => h
  have e6 : sl'.data = sl.data := congrArg Slot.data hc |> fun (h : (core sl').data = (core sl).data) => h
  have e7 : sl'.asm = sl.asm := congrArg Slot.asm hc |> fun (h : (core sl').asm = (core sl).asm) => h
  refine ⟨?_, ?_, ?_⟩
  · rw [e1, e3, e4, e5, e6]; exact h.data
  · rw [e2, e5]; exact h.entry
  · rw [e7]; exact h.asm

/-- More packets emitted: the content invariant of a slot stays. -/
theorem SlotC.mono {pend : List Pending} {u : Nat} {sl : Slot} (h : SlotC pend u sl) (more : List Pending) :
    SlotC (pend ++ more) u sl := by
  have key : ∀ p, pend[u]? = some p → (pend ++ more)[u]? = some p := by
    intro p hp
    rw [List.getElem?_append_left (List.getElem?_eq_some_iff.mp hp).1]; exact hp
  refine ⟨?_, ?_, ?_⟩
  · intro hf
    obtain ⟨p, hp, r⟩ := h.data hf
    exact ⟨p, key p hp, r⟩
  · intro hf
    obtain ⟨p, hp, r⟩ := h.entry hf
    exact ⟨p, key p hp, r⟩
  · intro a c w cp l buf hf
    obtain ⟨p, hp, r⟩ := h.asm a c w cp l buf hf
    exact ⟨p, key p hp, r⟩

theorem CInv.mono {W : Nat} {pend : List Pending} {adv : Nat} {st : PRecv.State} (h : CInv W pend adv st)
    (more : List Pending) : CInv W (pend ++ more) adv st :=
  fun x hx hxo => (h x hx hxo).mono more

/-- `handle_datagram` on a genuine fragment `d` of the packet `p` at emission position `i`, when the
position of `d.sequence_id` in the receive window (if it is inside) is that of `i`. -/
theorem handleDatagram_cinv {W M : Nat} (hW : WOk W) {pend : List Pending} {adv : Nat} {s s' : PRecv.State}
    (hinv : Inv W M s) (hc : CInv W pend adv s) (p : Pending) (i : Nat) (hp : pend[i]? = some p)
    (hwf : WF p) (d : Datagram) (hd : Genuine p d)
    (hpos : pidSub d.sequenceId s.baseId < W → adv + pidSub d.sequenceId s.baseId = i)
    (h : handleDatagram s d = .ok s') : CInv W pend adv s' := by
  rw [handleDatagram_eq] at h
  by_cases hv : datagramIsValid d = true
  case neg => rw [if_pos (by simpa using hv)] at h; cases h; exact hc
  rw [if_neg (by simp [hv])] at h
  obtain ⟨hchan, -, -⟩ := valid_facts d hv
  obtain ⟨ch0, hch0⟩ := hinv.chan_get d.channelId hchan
  rw [chanBase_of_get hch0] at h
  simp only at h
  split at h
  · cases h; exact hc
  rename_i hlead
  split at h
  · cases h; exact hc
  rw [widx_eq hinv] at h
  rw [hinv.wsz] at hlead
  have hk : pidSub d.sequenceId s.baseId < W := by omega
  have hi := hpos hk
  -- slots sharing the index of the datagram have its offset
  have hox : ∀ b, pidSub (d.sequenceId % 2^20) b = pidSub d.sequenceId b := fun b => pidSub_mod20 _ b
  have hwx : wi W (d.sequenceId % 2^20) = wi W d.sequenceId := wi_mod20 hW _
  have hsame : ∀ x, x < 2^20 → pidSub x s.baseId < W → wi W x = wi W d.sequenceId →
      pidSub x s.baseId = pidSub d.sequenceId s.baseId := by
    intro x hx hxo hwi
    rw [← hox]
    exact off_eq_of_wi hW x _ s.baseId hinv.blt (by rw [hox]; omega) (by rw [hox]; omega) (by rw [hwx]; exact hwi)
  -- the slot of the datagram is opened, closed or active for `p`
  have hslot : ∀ a c w cp l buf, (getSlot s (wi W d.sequenceId)).asm = .active a c w cp l buf →
      ActiveOk p (getSlot s (wi W d.sequenceId)).asm := by
    intro a c w cp l buf hact
    have hx := hc (d.sequenceId % 2^20) (Nat.mod_lt _ (by decide)) (by rw [hox]; exact hk)
    rw [hox, hwx, hi] at hx
    rw [getSlot_eq] at hact ⊢
    obtain ⟨p', hp', hok⟩ := hx.asm a c w cp l buf hact
    rw [hp] at hp'; cases hp'
    exact hok
  cases ht : tryAdd s (wi W d.sequenceId) d with
  | error t => rw [ht] at h; cases h
  | ok r =>
    obtain ⟨s1, o⟩ := r
    rw [ht] at h
    have hfr := tryAdd_frame s _ d s1 o ht
    obtain ⟨A, hA⟩ := hfr.same
    obtain ⟨hact1, hpk⟩ := tryAdd_genuine p hwf s _ d hd hslot s1 o ht
    obtain ⟨k0, hk0, hdk0⟩ := hd
    have he := genuine_eq p hwf d k0 hk0 hdk0
    have hdc : d.channelId = p.channelId := by rw [he]
    have hdw : d.windowParentLead = p.windowParentLead := by rw [he]
    have hdp : d.channelParentLead = p.channelParentLead := by rw [he]
    cases o with
    | none =>
      cases h
      intro x hx hxo
      rw [hfr.base] at hxo ⊢
      by_cases hwi : wi W x = wi W d.sequenceId
      · rw [hsame x hx hxo hwi, hi, hwi]
        have hold := hc x hx hxo
        rw [hsame x hx hxo hwi, hi, hwi] at hold
        rw [hA]
        refine ⟨hold.data, hold.entry, ?_⟩
        intro a c w cp l buf hact
        refine ⟨p, hp, ?_⟩
        have := hact1 a c w cp l buf (by rw [getSlot_eq, hA]; exact hact)
        rw [getSlot_eq, hA] at this
        exact this
      · rw [hfr.other _ hwi]; exact hc x hx hxo
    | some pk =>
      simp only at h
      cases h
      obtain ⟨hp1, hp2, hp3⟩ := hfr.pkt pk rfl
      obtain ⟨hb2, -, -, hs2⟩ := hdPost_facts s1 (wi W d.sequenceId) d pk
        ((cbase s d.channelId).getD s.baseId) s.baseId
      intro x hx hxo
      rw [hb2, hfr.base] at hxo ⊢
      rw [hs2, lget_lset]
      by_cases hwi : wi W x = wi W d.sequenceId
      · rw [if_pos hwi, hsame x hx hxo hwi, hi]
        refine ⟨?_, ?_, ?_⟩
        · intro _
          exact ⟨p, hp, by rw [← hdc]; exact hp1, by rw [← hdp]; exact hp2, by rw [← hdw]; exact hp3,
            hpk pk rfl⟩
        · intro _
          exact ⟨p, hp, by rw [← hdw]; exact hp3⟩
        · intro a c w cp l buf hact
          exact ⟨p, hp, hact1 a c w cp l buf hact⟩
      · rw [if_neg hwi, hfr.other _ hwi]; exact hc x hx hxo

end Uflow.Sys
