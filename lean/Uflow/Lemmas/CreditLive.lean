import Uflow.Lemmas.CreditBoundEx
import Uflow.Props.C14

/-!
C11 (credit liveness), part 1: the LOWER bound on what a fill credits (`FillLo`, dual to
`CreditBound.FillOk`), the run invariant `LInv` (rate floor of C14, carried fraction, a fill time is
recorded) and what one event does to the credit measured in nano-bytes.

Units as in `CreditBoundSum.lean`: times in nanoseconds, rates in bytes per second, `rate * dt` and
`v frac` in nano-bytes, `G = 10⁹`.
-/

namespace Uflow.CreditLive

open Uflow Uflow.Gen Uflow.Codec Uflow.HalfConn Uflow.HcFrame Uflow.Credit Uflow.CreditBound
open Uflow.Rate (FloatOps)
open Uflow.HcInv (lastNow evTime)

variable {F : Type}

/-- **The lower-bound hypothesis on `fillBytes`** (`x = rate·dt + frac; (⌊x⌋, x − ⌊x⌋)`), dual to
`CreditBound.FillOk`. `good` singles out the fractions that can occur, `v f` is the value of the
fraction `f` in nano-bytes. For rates up to `maxRate` and step distances up to `maxDt` ns, a fill

* maps a `good` fraction to a `good` fraction, and `good` fractions are below one byte;
* credits a non-negative number of whole bytes;
* does not LOSE credit: `rate·dt + v frac ≤ new_bytes·10⁹ + v frac' + eps`
  (what is credited plus the new carried fraction is at least `rate·dt` plus the old fraction, up to
  the rounding slack `eps` nano-bytes of one fill);

and the cap `fillMax` (`(rate · rtt_s.unwrap_or(0.0)).round() as isize`) is never negative.
Exact arithmetic satisfies this with `eps = 0` on every domain (`exactFillLo`). -/
structure FillLo (ops : FloatOps F) (eps : Nat) where
  maxRate : Nat
  maxDt : Nat
  good : F → Prop
  v : F → Nat
  good_zero : good ops.zero
  good_fill : ∀ rate dt f, rate ≤ maxRate → dt ≤ maxDt → good f → good (ops.fillBytes rate dt f).2
  v_lt : ∀ f, good f → v f < G
  nonneg : ∀ rate dt f, rate ≤ maxRate → dt ≤ maxDt → good f → 0 ≤ (ops.fillBytes rate dt f).1
  fill : ∀ rate dt f, rate ≤ maxRate → dt ≤ maxDt → good f →
    ((rate * dt + v f : Nat) : Int) ≤
      (ops.fillBytes rate dt f).1 * (G : Int) + ((v (ops.fillBytes rate dt f).2 : Nat) : Int) +
        (eps : Int)
  cap_nonneg : ∀ rate rtt, 0 ≤ ops.fillMax rate rtt

/-- `exactOps` satisfies `FillLo` with NO slack, for every bound on rates and step distances. -/
def exactFillLo (R D : Nat) : FillLo exactOps 0 where
  maxRate := R
  maxDt := D
  good f := f < G
  v f := f
  good_zero := by decide
  good_fill := fun rate dt f _ _ _ => Nat.mod_lt _ (by decide)
  v_lt := fun _ h => h
  nonneg := fun rate dt f _ _ _ => Int.natCast_nonneg _
  fill := fun rate dt f _ _ _ => by
    show _ ≤ (((rate * dt + f) / G : Nat) : Int) * (G : Int) + (((rate * dt + f) % G : Nat) : Int) + _
    have := Nat.div_add_mod (rate * dt + f) G
    generalize (rate * dt + f) / G = q at this ⊢
    generalize (rate * dt + f) % G = r at this ⊢
    generalize rate * dt = X at this ⊢
    simp only [G] at this ⊢
    omega
  cap_nonneg := fun rate rtt => Int.natCast_nonneg _

/-- The credit in nano-bytes: whole bytes plus the carried fraction. -/
def phi {ops : FloatOps F} {eps : Nat} (L : FillLo ops eps) (s : State F) : Int :=
  s.flushAlloc * (G : Int) + ((L.v s.flushFrac : Nat) : Int)

/-- What the lower bound needs of a state: the send rate is between the floor `MINIMUM_RATE` and
the ceiling `m` (C14), the carried fraction is one that can occur, and a fill time is recorded (a
`step` has happened: the first `step` of a half connection only records the time). -/
structure LInv {ops : FloatOps F} {eps : Nat} (L : FillLo ops eps) (m : Nat) (s : State F) : Prop where
  floor : MINIMUM_RATE ≤ s.rate.sendRate
  le : s.rate.sendRate ≤ s.rate.maxSendRate
  max : s.rate.maxSendRate = m
  good : L.good s.flushFrac
  started : ∃ t, s.timeLastFlushed = some t

/-- Events other than `step`: the bytes handed to the sink are debited, nothing is sent with
negative credit, and only `flush` sends. -/
theorem exec_alloc (ops : FloatOps F) (s s1 : State F) (ev : Ev) (out : List (List Nat))
    (hns : ∀ now, ev ≠ .step now) (h : exec ops s ev = .ok (s1, out)) :
    s1.flushAlloc = s.flushAlloc - (bytes out : Int) ∧ (s.flushAlloc < 0 → out = []) ∧
    (ev ≠ .flush → out = []) := by
  cases ev with
  | step now => exact absurd rfl (hns now)
  | flush =>
    simp only [exec] at h
    obtain ⟨hd, _⟩ := flush_debit False s s1 out (fun h => h.elim) h
    exact ⟨hd.1, hd.2.1, fun hne => absurd rfl hne⟩
  | send d c m =>
    simp only [exec, Except.ok.injEq, Prod.mk.injEq] at h
    obtain ⟨rfl, rfl⟩ := h
    exact ⟨by simp [HalfConn.send], fun _ => rfl, fun _ => rfl⟩
  | receive =>
    simp only [exec] at h
    generalize hs : HalfConn.receive s = r at h
    cases r with
    | error t => cases h
    | ok v =>
      simp only [Except.map, Except.ok.injEq, Prod.mk.injEq] at h
      obtain ⟨rfl, rfl⟩ := h
      obtain ⟨hq, _⟩ := receive_frame s v.1 v.2 hs
      exact ⟨by simp [hq.2.2.1], fun _ => rfl, fun _ => rfl⟩
  | dataFrame id nonce dgs =>
    simp only [exec] at h
    generalize hs : handleDataFrame s id nonce dgs = r at h
    cases r with
    | error t => cases h
    | ok s2 =>
      simp only [Except.map, Except.ok.injEq, Prod.mk.injEq] at h
      obtain ⟨rfl, rfl⟩ := h
      obtain ⟨hq, _⟩ := handleDataFrame_frame s s2 id nonce dgs hs
      exact ⟨by simp [hq.2.2.1], fun _ => rfl, fun _ => rfl⟩
  | syncFrame nf np =>
    simp only [exec] at h
    generalize hs : handleSyncFrame s nf np = r at h
    cases r with
    | error t => cases h
    | ok s2 =>
      simp only [Except.map, Except.ok.injEq, Prod.mk.injEq] at h
      obtain ⟨rfl, rfl⟩ := h
      obtain ⟨hq, _⟩ := handleSyncFrame_frame s s2 nf np hs
      exact ⟨by simp [hq.2.2.1], fun _ => rfl, fun _ => rfl⟩
  | ackFrame fb pb acks =>
    simp only [exec] at h
    generalize hs : handleAckFrame s fb pb acks = r at h
    cases r with
    | error t => cases h
    | ok s2 =>
      simp only [Except.map, Except.ok.injEq, Prod.mk.injEq] at h
      obtain ⟨rfl, rfl⟩ := h
      obtain ⟨hq, _⟩ := handleAckFrame_frame s s2 fb pb acks hs
      exact ⟨by simp [hq.2.2.1], fun _ => rfl, fun _ => rfl⟩

/-- The arithmetic of one fill: with `n ≥ 0` new bytes and a cap `≥ 0`, the new credit
`min (satAdd A n) cap` is either non-negative (the cap or the saturation bit) or at least `A + n`;
and it is at least `min A 0`. -/
theorem fill_arith (A n cap : Int) (hn : 0 ≤ n) (hc : 0 ≤ cap) :
    (0 ≤ min (satAdd A n) cap ∨ A + n ≤ min (satAdd A n) cap) ∧
    (0 ≤ A → 0 ≤ min (satAdd A n) cap) := by
  have h1 : (0 : Int) ≤ isizeMax := by decide
  have h2 : isizeMin ≤ (0 : Int) := by decide
  simp only [satAdd]
  generalize isizeMax = M at h1 ⊢
  generalize isizeMin = m at h2 ⊢
  omega

/-- One event: the invariant is kept, the time of the last fill moves to the time of the event,
and for the credit either (a) the event sent nothing and left a non-negative credit, or (b) the
credit did not drop by more than the bytes sent and, in nano-bytes, the new credit plus the bytes
sent (plus the slack, for a `step`) is at least the old credit plus
`send rate × (time since the last fill)`. -/
theorem exec_lo (ops : FloatOps F) {eps : Nat} (L : FillLo ops eps) (m : Nat)
    (hmin : MINIMUM_RATE ≤ m) (hR : m ≤ L.maxRate) (hinit : ∀ rtt, MINIMUM_RATE ≤ ops.initRate rtt)
    (s s1 : State F) (ev : Ev) (out : List (List Nat)) (hi : LInv L m s)
    (ht : ∀ now, ev = .step now → lastNow s ≤ now ∧ now - lastNow s ≤ L.maxDt)
    (h : exec ops s ev = .ok (s1, out)) :
    LInv L m s1 ∧ lastNow s1 = evTime (lastNow s) ev ∧ lastNow s ≤ lastNow s1 ∧
    (s.flushAlloc < 0 → out = []) ∧ (ev ≠ .flush → out = []) ∧
    ((0 ≤ s1.flushAlloc ∧ out = []) ∨
      (s.flushAlloc ≤ s1.flushAlloc + (bytes out : Int) ∧
       phi L s + ((s.rate.sendRate * (lastNow s1 - lastNow s) : Nat) : Int) ≤
        phi L s1 + (bytes out : Int) * (G : Int) + ((nSteps [ev] * eps : Nat) : Int))) := by
  by_cases hst : ∃ now, ev = .step now
  · obtain ⟨now, rfl⟩ := hst
    obtain ⟨ht1, ht2⟩ := ht now rfl
    simp only [exec] at h
    generalize hs : HalfConn.step ops s now = r at h
    cases r with
    | error t => cases h
    | ok s2 =>
      simp only [Except.map, Except.ok.injEq, Prod.mk.injEq] at h
      obtain ⟨rfl, rfl⟩ := h
      obtain ⟨hA, _, _, _, _, htl, _⟩ := step_frame ops s s2 now hs
      obtain ⟨hfr, htb, t, fb, r, hrs⟩ := step_core ops s s2 now hs
      have hmx := Rate.step_maxSendRate hrs
      have hce := Rate.step_ceiling hrs hi.le (by rw [hi.max]; exact hmin)
      have hfl := Uflow.Props.C14.C14_floor_partial ops s.rate s2.rate t fb r hrs
        (by rw [hi.max]; exact hmin) hi.floor (fun fb' _ _ _ _ _ => hinit _)
      have hl2 : lastNow s2 = now := by simp [lastNow, htl]
      have hrate : s.rate.sendRate ≤ L.maxRate := by
        have := hi.le; have := hi.max; omega
      obtain ⟨last, hl⟩ := hi.started
      have hln : lastNow s = last := by simp [lastNow, hl]
      rw [hln] at ht1 ht2
      rw [fill_frac_some ops s now last hl] at hfr
      rw [fill_some ops s now last hl] at hA
      have hg := L.good_fill _ _ _ hrate ht2 hi.good
      have hnn := L.nonneg _ _ _ hrate ht2 hi.good
      have hfill := L.fill _ _ _ hrate ht2 hi.good
      have hcap := L.cap_nonneg s.rate.sendRate s.rate.rttS
      obtain ⟨ha1, _⟩ := fill_arith s.flushAlloc _ _ hnn hcap
      refine ⟨⟨hfl, by rw [hmx]; exact hce, by rw [hmx]; exact hi.max, by rw [hfr]; exact hg,
        ⟨now, htl⟩⟩, by simp only [evTime, hl2], by rw [hl2, hln]; exact ht1, fun _ => rfl,
        fun _ => rfl, ?_⟩
      rw [hl2, hln]
      simp only [phi, hfr, hA, nSteps, bytes_nil]
      generalize ops.fillBytes s.rate.sendRate (now - last) s.flushFrac = fbv at hnn hfill ha1 ⊢
      generalize ops.fillMax s.rate.sendRate s.rate.rttS = cap at ha1 ⊢
      generalize min (satAdd s.flushAlloc fbv.1) cap = A1 at ha1 ⊢
      generalize s.rate.sendRate * (now - last) = X at hfill ⊢
      simp only [G] at hfill ⊢
      rcases ha1 with ha1 | ha1
      · exact .inl ⟨ha1, trivial⟩
      · refine .inr ⟨by omega, ?_⟩
        omega
  · have hns : ∀ now, ev ≠ .step now := fun now he => hst ⟨now, he⟩
    obtain ⟨c1, c2, c3, c4, c5, _⟩ := core_eq (core_exec ops s s1 ev out hns h)
    obtain ⟨a1, a2, a3⟩ := exec_alloc ops s s1 ev out hns h
    have hl : lastNow s1 = lastNow s := by simp only [lastNow, c1, c3]
    have het : evTime (lastNow s) ev = lastNow s := by
      cases ev with
      | step now => exact absurd rfl (hns now)
      | _ => rfl
    have hk : nSteps [ev] = 0 := by
      cases ev with
      | step now => exact absurd rfl (hns now)
      | _ => rfl
    refine ⟨⟨by rw [c4]; exact hi.floor, by rw [c4, c5]; exact hi.le, by rw [c5]; exact hi.max,
      by rw [c2]; exact hi.good, by rw [c1]; exact hi.started⟩, by rw [hl, het],
      by rw [hl]; exact Nat.le_refl _, a2, a3, .inr ⟨by omega, ?_⟩⟩
    rw [hk, hl]
    simp only [phi, c2, a1, Nat.sub_self, Nat.mul_zero, Nat.zero_mul, G]
    omega

end Uflow.CreditLive
