import Uflow.Lemmas.FlushProgMain

/-!
C02 (per-flush progress), part 3: the data stage on the head of the pending queue and on a packet
freshly taken from the send queue by `PSend.emit`; when `PSend.emit` refuses.
-/

namespace Uflow.FlushProg

open Uflow Uflow.Gen Uflow.Codec Uflow.HalfConn Uflow.Wire Uflow.Modes Uflow.Credit
open Uflow.PSend (UidInv)

variable {F : Type}

/-- The data stage with an idle resend queue and a live head of the pending queue. -/
theorem data_pending (s s' : State F) (out : List (List Nat)) (st : Stage) (entry : PEntry)
    (rest : List PEntry) (p : PSend.Pending) (hidle : ResendIdle s) (hA : 0 ≤ s.flushAlloc)
    (hcp : FrameQ.canPush s.fq = true) (h0 : s.pending = entry :: rest)
    (h1 : PSend.findPacket s.ps entry.uid = some p) (h2 : entry.fid ∉ p.acked)
    (h3 : ¬ (entry.fid = 0 ∧ p.expired s.flushId = true))
    (h : emitDataFrames s = .ok (s', out, st)) :
    ∃ dg, p.datagram entry.fid = .ok dg ∧ DataIn dg out := by
  have href : refill ({ s := s, inProg := none, out := [] } : Emit F) =
      .ok ({ s := s, inProg := none, out := [] }, true) := by
    simp only [refill, h0, List.isEmpty_cons, Bool.false_eq_true, if_false]
  exact data_outer s s' out st _ entry rest p hidle href rfl hA hcp h0 h1 h2 h3 h

/-- The packet `PSend.emit` hands out is not expired in the flush it is handed out in. -/
theorem emit_not_expired (ps ps' : PSend.State) (f : Nat) (p : PSend.Pending) (resend : Bool)
    (h : PSend.emit ps f = .ok (ps', some (p, resend))) :
    p.uid = ps.nextUid ∧ p.acked = [] ∧ p.expired f = false := by
  obtain ⟨_, _, _, _, _, _, hcase⟩ := PSend.emit_cases ps ps' f _ h
  rcases hcase with ⟨hc, _⟩ | ⟨q, _, p', _, w, _, hr, hns, hpu, _, _, hack, _, hexp, _⟩
  · cases hc
  · simp only [Option.some.injEq, Prod.mk.injEq] at hr
    obtain ⟨rfl, _⟩ := hr
    refine ⟨hpu, hack, ?_⟩
    simp only [PSend.Pending.expired, hexp]
    by_cases hm : q.mode = .timeSensitive
    · simp only [hm, if_true]
      have : q.flushId = f := by
        apply Classical.byContradiction
        intro hne
        exact hns ⟨hm, hne⟩
      simp [this]
    · simp only [hm, if_false]

/-- The data stage with an idle resend queue, an empty pending queue and a send queue whose head
`PSend.emit` hands out: fragment 0 of that packet is sent. -/
theorem data_new (s s' : State F) (out : List (List Nat)) (st : Stage) (ps' : PSend.State)
    (p : PSend.Pending) (resend : Bool) (hidle : ResendIdle s) (hA : 0 ≤ s.flushAlloc)
    (hcp : FrameQ.canPush s.fq = true) (h0 : s.pending = []) (hu : UidInv s.ps)
    (hem : PSend.emit s.ps s.flushId = .ok (ps', some (p, resend)))
    (h : emitDataFrames s = .ok (s', out, st)) :
    ∃ dg, p.datagram 0 = .ok dg ∧ DataIn dg out := by
  obtain ⟨hpu, hack, hexp⟩ := emit_not_expired _ _ _ _ _ hem
  have hfind := PSend.findPacket_emit_new _ _ _ _ _ hu hem
  rw [← hpu] at hfind
  obtain ⟨ents, hents⟩ : ∃ ents : List PEntry, ents = (List.range (p.lastFragmentId + 1)).map
      (fun i => ({ uid := p.uid, fid := i, resend := resend } : PEntry)) := ⟨_, rfl⟩
  have hent : ents = ({ uid := p.uid, fid := 0, resend := resend } : PEntry) ::
        ((List.range p.lastFragmentId).map Nat.succ).map
          (fun i => ({ uid := p.uid, fid := i, resend := resend } : PEntry)) := by
    rw [hents, List.range_succ_eq_map]
    rfl
  have href : refill ({ s := s, inProg := none, out := [] } : Emit F) =
      .ok ({ s := { s with ps := ps', pending := ents }, inProg := none, out := [] }, true) := by
    simp only [refill, h0, List.isEmpty_nil, if_true, hem, hents]
  exact data_outer s s' out st _ { uid := p.uid, fid := 0, resend := resend } _ p hidle href rfl hA
    hcp hent hfind (by rw [hack]; simp) (by simp [hexp]) h

/-- When `PSend.emit` hands out nothing: after dropping the stale TimeSensitive entries at the head
of the send queue, the queue is empty, or the packet window is full, or the allocation limit would
be exceeded by the head packet. -/
theorem emit_none_cases (ps ps' : PSend.State) (f : Nat) (h : PSend.emit ps f = .ok (ps', none)) :
    ∃ queue total, PSend.dropStale f ps.queue ps.totalSize = .ok (queue, total) ∧
      (queue = [] ∨ pidSub ps.nextId ps.baseId ≥ ps.windowSize ∨
        ∃ q rest, queue = q :: rest ∧ ps.alloc + PSend.allocSize q.data.length > ps.maxAlloc) := by
  unfold PSend.emit at h
  split at h
  · cases h
  · rename_i queue total hds
    refine ⟨queue, total, hds, ?_⟩
    simp only at h
    split at h
    · exact .inl rfl
    · rename_i q rest
      split at h
      · rename_i hw; exact .inr (.inl hw)
      · split at h
        · rename_i ha; exact .inr (.inr ⟨q, rest, rfl, ha⟩)
        · split at h
          · cases h
          · simp only [Except.ok.injEq, Prod.mk.injEq] at h
            cases h.2

/-- The conditions of `ResendIdle` and of the head entries only involve components that the ack
stage does not change. -/
theorem resendIdle_ack (s : State F) (h : ResendIdle s) : ResendIdle (emitAckFrames s).1 := by
  obtain ⟨t1, _, t3, t4, _, _⟩ := emitAckFrames_tx s
  unfold ResendIdle at h ⊢
  rw [t1, t3, t4]
  exact h

/-- There is something the data stage can transmit right now: a live, due head of the resend
queue; or (resend queue idle) a live head of the pending queue; or (both idle / empty) a packet that
`PSend.emit` hands out. -/
def Sendable (s : State F) : Prop :=
  (∃ entry p, s.resend[0]? = some entry ∧ PSend.findPacket s.ps entry.uid = some p ∧
    entry.fid ∉ p.acked ∧ entry.resendTime ≤ s.nowMs) ∨
  (ResendIdle s ∧ ∃ entry rest p, s.pending = entry :: rest ∧
    PSend.findPacket s.ps entry.uid = some p ∧ entry.fid ∉ p.acked ∧
    ¬ (entry.fid = 0 ∧ p.expired s.flushId = true)) ∨
  (ResendIdle s ∧ s.pending = [] ∧
    ∃ ps' p resend, PSend.emit s.ps s.flushId = .ok (ps', some (p, resend)))

end Uflow.FlushProg
