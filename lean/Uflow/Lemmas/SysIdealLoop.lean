import Uflow.Lemmas.SysIdealDefs

/-!
The ideal network (C05Sys), part 2: the delivery pass of `receive` reports its events in the order of
their offsets from the window base (it walks the window from the base towards `end_id`).
-/

namespace Uflow.Sys

open Uflow Uflow.Gen Uflow.Codec Uflow.PRecv

theorem deliverLoopT_sorted {W : Nat} (hW : WOk W) (base endId : Nat) (he : endId < 2^20)
    (hew : pidSub endId base ≤ W) :
    ∀ (fuel : Nat) (s : State) (seq : Nat) (evs : List Ev) (s' : State) (evs' : List Ev),
      s.windowSize = W → seq < 2^20 → pidSub seq base ≤ pidSub endId base →
      deliverLoopT base fuel s seq endId evs = .ok (s', evs') →
      ∃ new, evs' = evs ++ new ∧ (∀ ev ∈ new, pidSub seq base ≤ pidSub ev.seq base) ∧
        new.Pairwise (fun a b => pidSub a.seq base < pidSub b.seq base) := by
  intro fuel
  induction fuel with
  | zero => intro s seq evs s' evs' _ _ _ h; rw [deliverLoopT] at h; cases h
  | succ fuel ih =>
    intro s seq evs s' evs' hws hs hle h
    have stop : (Except.ok (s, evs) : R (State × List Ev)) = .ok (s', evs') →
        ∃ new, evs' = evs ++ new ∧ (∀ ev ∈ new, pidSub seq base ≤ pidSub ev.seq base) ∧
          new.Pairwise (fun a b => pidSub a.seq base < pidSub b.seq base) := by
      intro h
      cases h
      exact ⟨[], by rw [List.append_nil], fun ev hev => (by cases hev), List.Pairwise.nil⟩
    rw [deliverLoopT] at h
    by_cases heq : seq = endId
    · rw [if_pos heq] at h; exact stop h
    rw [if_neg heq] at h
    by_cases hr : ¬ anyReady s = true
    · rw [if_pos hr] at h; exact stop h
    rw [if_neg hr] at h
    have hn := pidAdd_lt seq 1
    have hjlt : pidSub seq base < pidSub endId base := by
      rcases Nat.lt_or_ge (pidSub seq base) (pidSub endId base) with h | h
      · exact h
      · exact absurd (id_eq_of_off seq endId base hs he (by omega)) heq
    have hoff : pidSub (pidAdd seq 1) base = pidSub seq base + 1 :=
      off_succ _ _ (by have := hW.le; omega)
    have hle' : pidSub (pidAdd seq 1) base ≤ pidSub endId base := by omega
    have same : ∀ t : State, t.windowSize = W →
        deliverLoopT base fuel t (pidAdd seq 1) endId evs = .ok (s', evs') →
        ∃ new, evs' = evs ++ new ∧ (∀ ev ∈ new, pidSub seq base ≤ pidSub ev.seq base) ∧
          new.Pairwise (fun a b => pidSub a.seq base < pidSub b.seq base) := by
      intro t hwt ht
      obtain ⟨new, h1, h2, h3⟩ := ih t _ evs s' evs' hwt hn hle' ht
      exact ⟨new, h1, fun ev hev => by have := h2 ev hev; omega, h3⟩
    have hwidx : widx s seq = wi W seq := by simp only [widx, wi, hws]
    simp only at h
    rw [hwidx, getSlot_eq] at h
    by_cases hf : (lget s.slots (wi W seq)).dataFlag = true
    case neg =>
      rw [if_neg hf] at h
      exact same s hws h
    rw [if_pos hf] at h
    cases hbr : s.readyFlags[(lget s.slots (wi W seq)).chan]? with
    | none => rw [hbr] at h; cases h
    | some b =>
      rw [hbr] at h
      cases b with
      | false => exact same s hws h
      | true =>
        simp only at h
        cases hcb : chanBase s (lget s.slots (wi W seq)).chan base with
        | error t => rw [hcb] at h; cases h
        | ok cb =>
          rw [hcb] at h
          simp only at h
          by_cases hcond : (lget s.slots (wi W seq)).cpl = 0 ∨ (lget s.slots (wi W seq)).cpl > pidSub seq cb
          case neg =>
            rw [if_neg hcond] at h
            exact same { s with readyFlags := s.readyFlags.set (lget s.slots (wi W seq)).chan false } hws h
          rw [if_pos hcond] at h
          cases hch : s.chans[(lget s.slots (wi W seq)).chan]? with
          | none => rw [hch] at h; cases h
          | some ch =>
            rw [hch] at h
            simp only at h
            by_cases hz : ch.count = 0
            · rw [if_pos hz] at h; cases h
            rw [if_neg hz] at h
            cases hs2 : setChannelBase (dlDeliver s (wi W seq) (lget s.slots (wi W seq)) ch)
                (lget s.slots (wi W seq)).chan (pidAdd seq 1) with
            | error t => rw [hs2] at h; cases h
            | ok s2 =>
              rw [hs2] at h
              simp only at h
              have hst : Shrunk s s2 := Shrunk.deliver s s2 _ ch _ _ hws hs2
              obtain ⟨new, h1, h2, h3⟩ := ih s2 _ _ s' evs' (by rw [hst.wsz]; exact hws) hn hle' h
              refine ⟨evOf seq (lget s.slots (wi W seq)) :: new, ?_, ?_, ?_⟩
              · rw [h1, List.append_assoc]; rfl
              · intro ev hev
                rcases List.mem_cons.mp hev with hev | hev
                · subst hev; exact Nat.le_refl _
                · have := h2 ev hev; omega
              · rw [List.pairwise_cons]
                refine ⟨?_, h3⟩
                intro ev hev
                have := h2 ev hev
                show pidSub seq base < pidSub ev.seq base
                omega

end Uflow.Sys
