import Uflow.Lemmas.EpCeilTxSrv
import Uflow.Lemmas.EpCeilRun

/-!
C13 (endpoints), part 8: the half-connection model satisfies the log-indexed contract `HCOkT` with
`InvT`: `InvC` (the half connection is the result of an event list run from `HalfConn.init` of the
negotiated configuration) together with the LINK to the log: from some position `k` of the log on,
the datagrams addressed to the peer are exactly the frames `out` of the projection.
-/

namespace Uflow.EpCeil

open Uflow Uflow.Gen Uflow.Codec Uflow.HalfConn Uflow.Endpoint Uflow.EpNoTrap Uflow.HcInv Uflow.Credit
open Uflow.CreditBound
open Uflow.Rate (FloatOps BisectConverges)

variable {F : Type}

/-- The datagrams of `tx` from position `k` on that are addressed to `a`. -/
def sentTo (a k : Nat) (tx : Log) : Log := (tx.drop k).filter fun x => x.1 = a

theorem sentTo_append (a k : Nat) (tx more : Log) (hk : k ≤ tx.length) :
    sentTo a k (tx ++ more) = sentTo a k tx ++ more.filter fun x => x.1 = a := by
  unfold sentTo
  rw [List.drop_append_of_le_length hk, List.filter_append]

theorem filter_toAddr (a : Nat) (out : List (List Nat)) : (toAddr a out).filter (fun x => x.1 = a) = toAddr a out := by
  unfold toAddr
  induction out with
  | nil => rfl
  | cons f rest ih => simp [ih]

theorem filter_other (a : Nat) (more : Log) (h : ∀ x ∈ more, x.1 ≠ a) : more.filter (fun x => x.1 = a) = [] := by
  rw [List.filter_eq_nil_iff]
  intro x hx
  simpa using h x hx

theorem toAddr_append (a : Nat) (o1 o2 : List (List Nat)) : toAddr a (o1 ++ o2) = toAddr a o1 ++ toAddr a o2 := by
  unfold toAddr; rw [List.map_append]

def InvT (ops : FloatOps F) (ep : EpConfig) (PInv : Nat → Nat → Nat → Nat → Prop) (tx : Log) (a : Nat)
    (h : State F) : Prop :=
  HcInv h ∧ ∃ ln n r al t0 gevs out c k, PInv a n r al ∧ Proj ops ep h ln n r al t0 gevs out c ∧
    k ≤ tx.length ∧ sentTo a k tx = toAddr a out

theorem hcOf_okT (ops : FloatOps F) (hconv : BisectConverges ops) (hloss : LossOk ops) (ep : EpConfig)
    (PInv : Nat → Nat → Nat → Nat → Prop) : HCOkT (hcOf ops) ep PInv (InvT ops ep PInv) lastNow := by
  have hok := hcOf_ok ops hconv hloss
  have one : ∀ (tx : Log) (a : Nat) (h h' : State F) (e : Ev), InvT ops ep PInv tx a h → HcInv h' →
      exec ops h e = .ok (h', []) → evOk (lastNow h) e = true → lastNow h' = evTime (lastNow h) e →
      InvT ops ep PInv tx a h' := by
    intro tx a h h' e hi hi' hex hev ht
    obtain ⟨_, ln, n, r, al, t0, gevs, out, c, k, hp, p, hk, hl⟩ := hi
    refine ⟨hi', ln, n, r, al, t0, gevs ++ [.ev e], out ++ [], c + gcredit ops h (.ev e), k, hp, ?_, hk, ?_⟩
    · exact p.extend (grun_single ops h h' (.ev e) [] hex) (by simp only [erase, evsOk, hev, Bool.and_true])
        (by simp only [erase, endTime, ht])
    · rw [List.append_nil]; exact hl
  constructor
  · intro tx a ln rn rate alloc now hn hp
    refine ⟨⟨hcInv_init ops _ now _ (cfgOk_hcConfig ep ln rn rate alloc hn), ln, rn, rate, alloc, now, [], [], 0,
      tx.length, hp, ⟨hn, rfl, rfl, rfl⟩, Nat.le_refl _, ?_⟩, rfl⟩
    simp [sentTo, toAddr]
  · intro tx a h f hi
    obtain ⟨h', he, hi', hl⟩ := hok.dispatch h f hi.1
    refine ⟨h', he, ?_, hl⟩
    cases f with
    | data id nonce dgs =>
      exact one tx a h h' (.dataFrame id nonce dgs) hi hi' (exec_map_ok _ _ _ he) rfl hl
    | ack fb pb acks =>
      exact one tx a h h' (.ackFrame fb pb acks) hi hi' (exec_map_ok _ _ _ he) rfl hl
    | sync nf np =>
      exact one tx a h h' (.syncFrame nf np) hi hi' (exec_map_ok _ _ _ he) rfl hl
    | syn _ _ _ _ _ => cases he; exact hi
    | synAck _ _ _ _ _ => cases he; exact hi
    | hsAck _ => cases he; exact hi
    | hsError _ _ => cases he; exact hi
    | disconnect => cases he; exact hi
    | disconnectAck => cases he; exact hi
  · intro tx a h now hi hle
    obtain ⟨h', he, hi', hl⟩ := hok.step h now hi.1 hle
    refine ⟨h', he, ?_, hl⟩
    exact one tx a h h' (.step now) hi hi' (exec_map_ok _ _ _ he) (by simpa [evOk] using hle) hl
  · intro tx a h rng hi
    obtain ⟨h', rng', o, he, hi', hl⟩ := hok.flush h rng hi.1
    refine ⟨h', rng', o, he, ?_, hl⟩
    have hfl : HalfConn.flush { h with rng := rng } = .ok (h', o) := by
      have hx : (hcOf ops).flush h rng =
          (HalfConn.flush { h with rng := rng }).map fun (x : State F × List (List Nat)) => (x.1, x.1.rng, x.2) := rfl
      rw [hx] at he
      generalize HalfConn.flush { h with rng := rng } = r at he
      cases r with
      | error t => cases he
      | ok v =>
        obtain ⟨v1, v2⟩ := v
        simp only [Except.map, Except.ok.injEq, Prod.mk.injEq] at he
        obtain ⟨rfl, _, rfl⟩ := he
        rfl
    obtain ⟨_, ln, n, r, al, t0, gevs, out, c, k, hp, p, hk, hlink⟩ := hi
    refine ⟨hi', ln, n, r, al, t0, gevs ++ [.rng rng, .ev .flush], out ++ o, c + 0, k, hp, ?_, ?_, ?_⟩
    · refine p.extend (more := [.rng rng, .ev .flush]) ?_ (by simp [erase, evsOk, evOk]) ?_
      · simp only [grun, gexec, exec, hfl, gcredit, evCredit, List.nil_append, List.append_nil, Int.add_zero]
      · simp only [erase, endTime, evTime]; exact hl
    · rw [List.length_append]; omega
    · rw [sentTo_append a k tx _ hk, filter_toAddr, hlink, toAddr_append]
  · intro tx a h hi
    obtain ⟨h', o, he, hi', hl⟩ := hok.receive h hi.1
    refine ⟨h', o, he, ?_, hl⟩
    exact one tx a h h' .receive hi hi'
      (exec_map_ok (HalfConn.receive h) (fun r : State F × List (List Nat) => (r.1, ([] : List (List Nat)))) (h', o) he)
      rfl hl
  · intro tx a h data chan mode hi hlen hch
    obtain ⟨hi', hl⟩ := hok.send h data chan mode hi.1 hlen hch
    refine ⟨?_, hl⟩
    exact one tx a h _ (.send data chan mode) hi hi' rfl (by simp [evOk, hlen, hch]) hl
  · intro tx more a h hi hm
    obtain ⟨hi', ln, n, r, al, t0, gevs, out, c, k, hp, p, hk, hlink⟩ := hi
    refine ⟨hi', ln, n, r, al, t0, gevs, out, c, k, hp, p, by rw [List.length_append]; omega, ?_⟩
    rw [sentTo_append a k tx _ hk, filter_other a more hm, List.append_nil, hlink]

/-- Every server run: `Server.WF` and `CoreT` with `InvT` for the log of ALL datagrams sent. -/
theorem srv_run_invT (ops : FloatOps F) (hconv : BisectConverges ops) (hloss : LossOk ops) (cfg : SrvConfig)
    (now : Nat) (rng : Rng) (sops : List SOp) (hops : sopsOk 0 sops = true) :
    ∃ s' sent evs, runS (hcOf ops) (Server.init cfg now rng) sops = .ok (s', sent, evs) ∧ s'.WF ∧
      CoreT cfg.ep (SynFrom (sopsArrivals sops)) (InvT ops cfg.ep (SynFrom (sopsArrivals sops))) lastNow
        (sopsTime 0 sops) sent s' := by
  obtain ⟨s', sent, evs, hr, hw, hi⟩ := runS_coreT (hcOf_okT ops hconv hloss cfg.ep _) sops (tx := [])
    (Server.init_WF cfg now rng) (CoreT.init cfg now rng 0 []) hops (arrOk_sops sops)
  exact ⟨s', sent, evs, hr, hw, by simpa using hi⟩

theorem CoreT.active {ops : FloatOps F} {ep : EpConfig} {PInv : Nat → Nat → Nat → Nat → Prop} {T : Nat} {tx : Log}
    {s : Server (State F)} (hi : CoreT ep PInv (InvT ops ep PInv) lastNow T tx s) {c : RClient (State F)}
    (hc : c ∈ s.clients ++ s.detached) {h : State F} {t : Nat} {sig : Option DisconnectMode}
    (hst : c.state = .active h t sig) :
    ∃ ln n r al t0 gevs out cr k, PInv c.address n r al ∧ Proj ops ep h ln n r al t0 gevs out cr ∧
      k ≤ tx.length ∧ sentTo c.address k tx = toAddr c.address out := by
  have := hi.core c hc
  rw [hst] at this
  exact this.1.2

end Uflow.EpCeil
