import Uflow.Model.HalfConn
import Uflow.Lemmas.PRecvLoops
import Uflow.Lemmas.PSendHist

/-!
C01Hc, part 1: a pair of half connections joined by an adversarial, non-forging frame network.

`HcPair` is a transition system over two `HalfConn.State`s: `A`, of which only the sending side is
exercised by the application (`A.send`), and `B`, whose receiving side hands packets to the
application (`B.receive`). `wireAB` / `wireBA` hold every frame `A.flush` / `B.flush` has handed to its
frame sink so far (byte strings, what travels in UDP datagrams). The network may hand any frame of
`wireAB` to `B` and any frame of `wireBA` to `A`, any number of times, in any order (loss = never
chosen); it cannot invent frames. A delivered frame is truncated to `MAX_FRAME_SIZE` bytes (the
receive buffer of `handle_frames` / `Client::step`; the identity on emitted frames), parsed (`Codec.decode` = `Frame::read`) and
dispatched exactly as `handle_frame` of the endpoints does: data → `handleDataFrame`, sync →
`handleSyncFrame`, ack → `handleAckFrame`; anything else (handshake / disconnect frames, undecodable
bytes) does not reach the half connection.

All ghost fields are write-only records of what the model functions were called with / returned;
they never influence `A`, `B` or the wires. `em` replays the `PSend.emit` calls of a `flush` to recover
the send modes (`replayEmit`); `syncs` records the sync frames that carry a packet id and were emitted
while the ghost guard `SyncOkP` held (the `sync` step of `Sys`).
-/

namespace Uflow.HcSys

open Uflow Uflow.Gen Uflow.Codec Uflow.HalfConn Uflow.PSend
open Uflow.PRecv (bindR bindR_ok)
open Uflow.Rate (FloatOps)

variable {F : Type}

/-- The packets a `flush` moved from the send queue into the send window: `PSend.emit` appends the
packet it returns to `win` and nothing else inside `flush` changes the length of `win`
(`HcSys.flush_spec` shows that this list is exactly the list of packets returned by the calls of
`PSend.emit` made by that `flush`, in call order). -/
def newPackets (ps ps' : PSend.State) : List Pending :=
  (ps'.win.drop ps.win.length).map (·.packet)

/-- What `handle_frame` does with a byte string addressed to an active connection. -/
def dispatch (s : State F) (bytes : List Nat) : R (State F) :=
  match decode bytes with
  | some (.data id nonce dgs) => handleDataFrame s id nonce dgs
  | some (.sync nf np) => handleSyncFrame s nf np
  | some (.ack fb pb acks) => handleAckFrame s fb pb acks
  | _ => .ok s

/-- The frame id `dispatch s bytes` marks seen in the frame acknowledgement queue: that of a data
frame whose frame id passes the frame window test of `handleDataFrame`. -/
def accBy (s : State F) (bytes : List Nat) : List Nat :=
  match decode bytes with
  | some (.data id _ _) => if s.aq.contains id then [id] else []
  | _ => []

/-- The datagrams `dispatch s bytes` hands to `PRecv.handleDatagram`: those of a data frame whose
frame id passes the frame window test of `handleDataFrame`. -/
def fedBy (s : State F) (bytes : List Nat) : List Datagram :=
  match decode bytes with
  | some (.data id _ dgs) => if s.aq.contains id then dgs else []
  | _ => []

/-- The receiver packet-window base `dispatch s bytes` passes to `PSend.acknowledge` (through
`handleAckFrame`, if its frame-level part does not trap). -/
def ackBy (bytes : List Nat) : List Nat :=
  match decode bytes with
  | some (.ack _ pb _) => [pb]
  | _ => []

/-- Ghost replay of the `PSend.emit` calls of a `flush` that moved `k` packets into the send window:
the history records (`PSend.mkEmitted`: the packet with the send mode of the queue entry it came
from) of the first `k` packets a chain of calls `PSend.emit · f` returns from `ps` on
(`HcSys.replay_emits`: for the chain of `flush_spec` these are all of them). -/
def replayEmit : Nat → PSend.State → Nat → List Emitted
  | 0, _, _ => []
  | k+1, ps, f =>
    match emit ps f with
    | .ok (ps', some (p, _)) => mkEmitted ps f p :: replayEmit k ps' f
    | _ => []

/-- The entries `(n, next_packet_id)` for the sync frames among `frames` that carry a packet id. -/
def syncIds (n : Nat) (frames : List (List Nat)) : List (Nat × Nat) :=
  frames.filterMap fun b =>
    match decode b with
    | some (.sync _ (some np)) => some (n, np)
    | _ => none

structure HcPair (F : Type) where
  A : State F
  B : State F
  /-- every frame `A.flush` has emitted, in emission order; never shrinks -/
  wireAB : List (List Nat)
  /-- every frame `B.flush` has emitted -/
  wireBA : List (List Nat)
  /-- ghost: the `A.send` calls (with the flush id `send` stamps on the queue entry) -/
  sent : List QEntry
  /-- ghost: the packets `A`'s `PSend.emit` returned, in emission order -/
  pend : List Pending
  /-- ghost: every datagram `B.handleDataFrame` handed to `PRecv.handleDatagram` -/
  fed : List Datagram
  /-- ghost: every base id `A.handleAckFrame` passed to `PSend.acknowledge` -/
  acks : List Nat
  /-- ghost: total distance `B`'s packet receive window base has moved (sum of
  `pidSub newBase oldBase`, the `adv` of `PRecv.G`) -/
  advB : Nat
  /-- ghost: `(advB, B.pr.baseId)` initially and after every step that can change `B.pr.baseId`
  (`B.receive`, delivery of a frame to `B`) -/
  bases : List (Nat × Nat)
  /-- ghost: the payloads returned by the `B.receive` calls, concatenated -/
  outs : List (List Nat)
  /-- ghost: the packets `A`'s `PSend.emit` returned with their send modes (`PSend.mkEmitted`), in
  emission order; runs parallel to `pend` -/
  em : List Emitted
  /-- ghost: `(number of packets emitted so far, next_packet_id)` for every sync frame carrying a
  packet id that `A.flush` emitted while `SyncOkP` held (the `syncs` list of `Sys`) -/
  syncs : List (Nat × Nat)
  /-- ghost: for every frame of `wireAB`, the number of packets `A` had emitted when the `flush` that
  emitted the frame returned; runs parallel to `wireAB` -/
  wireT : List Nat
  /-- ghost: the frame ids of the data frames `B.handleDataFrame` accepted (passed the frame window
  test of `B`'s frame acknowledgement queue) -/
  accIds : List Nat

/-- The emitted packet `x` has been completely received by `B`, as far as `B`'s packet receiver can
tell (`Sys.Recvd` without the log): the receive window base has passed it, or it lies in the receive
window and its slot has the entry flag. -/
def RecvdP (h : HcPair F) (x : Emitted) : Prop :=
  x.uid < h.advB ∨
  (x.uid < h.advB + h.B.pr.windowSize ∧
    (PRecv.getSlot h.B.pr (PRecv.widx h.B.pr x.sequenceId)).entryFlag = true)

instance (h : HcPair F) (x : Emitted) : Decidable (RecvdP h x) := by unfold RecvdP; infer_instance

/-- The guard `Sys.SyncOk` of the `sync` step of `Sys`, on the pair: every Reliable packet `A` has
emitted so far has been completely received by `B`. -/
def SyncOkP (h : HcPair F) : Prop := ∀ x ∈ h.em, x.mode = .reliable → RecvdP h x

instance (h : HcPair F) : Decidable (SyncOkP h) := by unfold SyncOkP; infer_instance

inductive POp where
  /-- application: `A.send(data, chan, mode)`; refused (no-op) if `data.len() > MAX_PACKET_SIZE`, the
  precondition `Endpoint::send` checks (as the `enq` step of `Sys`) -/
  | sendA (data : List Nat) (chan : Nat) (mode : SendMode)
  | flushA
  | stepA (now : Nat)
  /-- network: hand the `k`-th frame of `wireAB` to `B` (truncated to `MAX_FRAME_SIZE`, the size of the
  receive buffer of the endpoints; emitted frames are never longer, `PairInv.lab`) -/
  | deliverAB (k : Nat)
  | recvB
  | flushB
  | stepB (now : Nat)
  /-- network: hand the `k`-th frame of `wireBA` to `A` -/
  | deliverBA (k : Nat)
  deriving Repr, DecidableEq

/-- One step of the pair. -/
def stepP (ops : FloatOps F) (h : HcPair F) : POp → R (HcPair F)
  | .sendA d c m =>
    if d.length ≤ MAX_PACKET_SIZE then
      .ok { h with A := send h.A d c m,
                   sent := h.sent ++ [{ data := d, channelId := c, mode := m, flushId := h.A.flushId }] }
    else .ok h
  | .flushA =>
    bindR (flush h.A) fun r =>
      let h1 : HcPair F :=
        { h with A := r.1, wireAB := h.wireAB ++ r.2, pend := h.pend ++ newPackets h.A.ps r.1.ps,
                 em := h.em ++ replayEmit (r.1.ps.win.length - h.A.ps.win.length) h.A.ps h.A.flushId,
                 wireT := h.wireT ++ List.replicate r.2.length (h.pend ++ newPackets h.A.ps r.1.ps).length }
      .ok { h1 with syncs := h.syncs ++ (if SyncOkP h1 then syncIds h1.pend.length r.2 else []) }
  | .stepA now => bindR (step ops h.A now) fun a => .ok { h with A := a }
  | .deliverAB k =>
    match h.wireAB[k]? with
    | none => .ok h
    | some bytes =>
      bindR (dispatch h.B (bytes.take MAX_FRAME_SIZE)) fun b =>
        .ok { h with B := b, fed := h.fed ++ fedBy h.B (bytes.take MAX_FRAME_SIZE),
                     accIds := h.accIds ++ accBy h.B (bytes.take MAX_FRAME_SIZE),
                     advB := h.advB + pidSub b.pr.baseId h.B.pr.baseId,
                     bases := h.bases ++ [(h.advB + pidSub b.pr.baseId h.B.pr.baseId, b.pr.baseId)] }
  | .recvB =>
    bindR (receive h.B) fun r =>
      .ok { h with B := r.1, outs := h.outs ++ r.2,
                   advB := h.advB + pidSub r.1.pr.baseId h.B.pr.baseId,
                   bases := h.bases ++ [(h.advB + pidSub r.1.pr.baseId h.B.pr.baseId, r.1.pr.baseId)] }
  | .flushB => bindR (flush h.B) fun r => .ok { h with B := r.1, wireBA := h.wireBA ++ r.2 }
  | .stepB now => bindR (step ops h.B now) fun b => .ok { h with B := b }
  | .deliverBA k =>
    match h.wireBA[k]? with
    | none => .ok h
    | some bytes =>
      bindR (dispatch h.A (bytes.take MAX_FRAME_SIZE)) fun a =>
        .ok { h with A := a, acks := h.acks ++ ackBy (bytes.take MAX_FRAME_SIZE) }

def runP (ops : FloatOps F) (h : HcPair F) : List POp → R (HcPair F)
  | [] => .ok h
  | op :: rest => bindR (stepP ops h op) fun h' => runP ops h' rest

/-- Two fresh half connections (`HalfConnection::new`) and empty wires. -/
def initP (ops : FloatOps F) (cA cB : Config) (nowA nowB : Nat) (rngA rngB : Rng) : HcPair F :=
  { A := init ops cA nowA rngA, B := init ops cB nowB rngB, wireAB := [], wireBA := [], sent := [],
    pend := [], fed := [], acks := [], advB := 0, bases := [(0, cB.rxPacketBaseId)], outs := [],
    em := [], syncs := [], wireT := [], accIds := [] }

/-! ### genuineness -/

/-- `d` is fragment `fid` of the packet at position `i` of the emission history `pend`. -/
def IsFrag (pend : List Pending) (i : Nat) (d : Datagram) : Prop :=
  ∃ p fid, pend[i]? = some p ∧ fid ≤ p.lastFragmentId ∧ p.datagram fid = .ok d

/-- `d` is a fragment datagram of a packet `PSend.emit` returned. -/
def Genuine (pend : List Pending) (d : Datagram) : Prop := ∃ i, IsFrag pend i d

/-! ### the schedule hypotheses of the refinement theorem -/

/-- The `Fresh` guard of `Sys` for a datagram about to be handed to `B`'s packet receiver: it is a
fragment of a packet whose emission position `i` is less than `2^20 - W` ids behind `B`'s receive
window base. -/
def FreshDg (h : HcPair F) (d : Datagram) : Prop :=
  ∃ i, IsFrag h.pend i d ∧ h.advB + h.B.pr.windowSize ≤ i + 2^20

/-- The `AckFresh` guard of `Sys` for a receiver base id `pb` about to be handed to `A`'s packet
sender: `pb` is a base `B` had when its unwrapped value was `a`, and `A`'s send window base (number of
packets that have left the send window) is less than `2^20 - w` ids beyond `a`. -/
def FreshAck (h : HcPair F) (pb : Nat) : Prop :=
  ∃ a, (a, pb) ∈ h.bases ∧ (h.pend.length - h.A.ps.win.length) + h.A.ps.windowSize < a + 2^20

/-- The `SyncFresh` guard of `Sys` for a packet id `id` carried by a sync frame about to be handed to
`B`: `id` is the `next_packet_id` of a sync frame `A.flush` emitted while `SyncOkP` held, when `n`
packets had been emitted, and `B`'s receive window base is less than `2^20 - W` ids beyond `n`. -/
def FreshSync (h : HcPair F) (id : Nat) : Prop :=
  ∃ n, (n, id) ∈ h.syncs ∧ h.advB + h.B.pr.windowSize < n + 2^20

/-- The side condition of one step, for `C01_hc_refines_sys`:
* a data frame that passes `B`'s frame window test carries only `FreshDg` datagrams;
* a sync frame delivered to `B` carries no packet id, or one on which `PRecv.resynchronize` does
  nothing in `B`'s current state, or a `FreshSync` one (emitted while every Reliable packet emitted so
  far had been completely received, `SyncOkP`, and not older than `2^20 - W` ids);
* an ack frame delivered to `A` carries a `FreshAck` base id. -/
def OpOk (h : HcPair F) : POp → Prop
  | .deliverAB k => ∀ bytes, h.wireAB[k]? = some bytes →
      (∀ id nonce dgs, decode bytes = some (.data id nonce dgs) → h.B.aq.contains id = true →
        ∀ d ∈ dgs, FreshDg h d) ∧
      (∀ nf id, decode bytes = some (.sync nf (some id)) →
        PRecv.resynchronize h.B.pr id = .ok h.B.pr ∨ FreshSync h id)
  | .deliverBA k => ∀ bytes, h.wireBA[k]? = some bytes →
      ∀ fb pb acks, decode bytes = some (.ack fb pb acks) → FreshAck h pb
  | _ => True

/-- Every step of the schedule `ops`, run from `h`, satisfies its side condition. -/
def Guarded (fo : FloatOps F) : HcPair F → List POp → Prop
  | _, [] => True
  | h, op :: rest => OpOk h op ∧ ∀ h', stepP fo h op = .ok h' → Guarded fo h' rest

end Uflow.HcSys
