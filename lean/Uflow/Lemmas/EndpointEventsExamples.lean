import Uflow.Lemmas.EndpointEventsDeadline
import Uflow.Lemmas.EndpointClientExamples

/-!
Example server states and datagrams, used only by the non-vacuity `example`s of the property files.
-/

namespace Uflow.Endpoint

open Uflow.Gen Uflow.Codec Uflow.HalfConn

def exCfg : SrvConfig :=
  { maxTotalConnections := 4, maxActiveConnections := 4, enableHandshakeErrors := true, ep := exEp }

/-- Fresh servers (time base 0; the first nonce drawn is 7). -/
def exServer : Server Unit := Server.init exCfg 0 exRng
def exServerE : Server (List (List Nat)) := Server.init exCfg 0 exRng

/-- A SYN of a client with nonce 9, the matching ACK of the server's nonce 7, and a forged ACK. -/
def exSyn : List Nat := encode (.syn PROTOCOL_VERSION 9 500000 10000 100000)
def exHsAck : List Nat := encode (.hsAck 7)
def exHsAckBad : List Nat := encode (.hsAck 8)

end Uflow.Endpoint
