import Uflow.Lemmas.SysDefs

/-!
The composed system (C01Sys), part 3: the sender half of the system invariant — the ghost lists
`pend` / `net` against the sender history, and the facts about `emit` / `acknowledge` needed for it.
-/

namespace Uflow.Sys

open Uflow Uflow.Gen Uflow.Codec Uflow.PSend Uflow.PRecv Uflow.Frag
open Uflow.Props.C20 (Op)

/-! ### `acknowledge` -/

theorem ackLoop_facts (fuel : Nat) (s s' : PSend.State) (rb : Nat) (h : ackLoop fuel s rb = .ok s') :
    s'.queue = s.queue ∧ s'.baseId = rb ∧ s'.win.length ≤ s.win.length := by
  induction fuel generalizing s with
  | zero => simp [ackLoop] at h
  | succ n ih =>
    unfold ackLoop at h
    split at h
    · rename_i hb; cases h; exact ⟨rfl, hb, Nat.le_refl _⟩
    · split at h
      · cases h
      · rename_i e rest hw
        split at h
        · cases h
        · split at h
          · cases h
          · split at h
            · cases h
            · obtain ⟨h1, h2, h3⟩ := ih _ h
              refine ⟨h1, h2, ?_⟩
              rw [hw]
              simp only [List.length_cons] at h3 ⊢
              omega

/-- `acknowledge(rb)` never touches the queue; it either leaves the state alone or moves the window
base to `rb`; the window only shrinks. -/
theorem acknowledge_facts (s s' : PSend.State) (rb : Nat) (h : acknowledge s rb = .ok s') :
    s'.queue = s.queue ∧ (s' = s ∨ s'.baseId = rb) ∧ s'.win.length ≤ s.win.length := by
  unfold acknowledge at h
  simp only at h
  split at h
  · cases h; exact ⟨rfl, Or.inl rfl, Nat.le_refl _⟩
  · split at h
    · cases h; exact ⟨rfl, Or.inl rfl, Nat.le_refl _⟩
    · obtain ⟨h1, h2, h3⟩ := ackLoop_facts _ s s' rb h
      exact ⟨h1, Or.inr h2, h3⟩

/-! ### what `HInv` says about the window -/

theorem hinv_win {b0 w : Nat} {s : PSend.State} {h : Hist} (hi : HInv b0 w s h) (hw : w < 2^20) :
    s.win.length ≤ h.emitted.length ∧ s.win.length ≤ w ∧
    s.baseId = pidAdd b0 (h.emitted.length - s.win.length) ∧ s.windowSize = w ∧
    pidSub s.nextId s.baseId = s.win.length := by
  obtain ⟨old, wl, wi⟩ := hi.win
  have hn : h.emitted.length = old.length + wl.length := by rw [wi.em_eq, List.length_append]
  have hwl := wi.wlen
  have hwle := wi.wle
  refine ⟨by omega, by omega, ?_, hi.wsz, ?_⟩
  · rw [wi.base]; congr 1; omega
  · rw [hi.nid, wi.base, pidSub_pidAdd _ _ _ (by omega) (by omega)]; omega

/-! ### the ghost lists -/

theorem mem_dgsOf (i : Nat) (p : Pending) (j : Nat) (d : Datagram) (h : (j, d) ∈ dgsOf i p) :
    j = i ∧ Genuine p d := by
  unfold dgsOf at h
  rw [List.mem_filterMap] at h
  obtain ⟨fid, hfid, hm⟩ := h
  rw [List.mem_range] at hfid
  cases hd : p.datagram fid with
  | error t => rw [hd] at hm; cases hm
  | ok d' =>
    rw [hd] at hm
    simp only [Option.some.injEq, Prod.mk.injEq] at hm
    obtain ⟨rfl, rfl⟩ := hm
    exact ⟨rfl, fid, by omega, hd⟩

/-- The sender half of the system invariant. -/
structure SndInv (b0 w : Nat) (s : Sys) : Prop where
  hinv : HInv b0 w s.snd s.hist
  /-- every queued packet respects `MAX_PACKET_SIZE` (the `debug_assert` of `enqueue_packet`) -/
  qsz : ∀ q ∈ s.snd.queue, q.data.length ≤ MAX_PACKET_SIZE
  plen : s.pend.length = s.hist.emitted.length
  plink : ∀ (i : Nat) (p : Pending), s.pend[i]? = some p → WF p ∧ ∃ e : Emitted, s.hist.emitted[i]? = some e ∧ e.data = p.data ∧
    e.channelId = p.channelId ∧ e.sequenceId = p.sequenceId ∧
    e.windowParentLead = p.windowParentLead ∧ e.channelParentLead = p.channelParentLead ∧ e.uid = p.uid
  net : ∀ (i : Nat) (d : Datagram), (i, d) ∈ s.net → ∃ p : Pending, s.pend[i]? = some p ∧ Genuine p d
  /-- ghost: the window base at emission time (`uid - sub(seq, baseAt)`, unwrapped) never decreases
  and is at most the current one -/
  ebase : ∀ e ∈ s.hist.emitted,
    e.uid - pidSub e.sequenceId e.baseAt ≤ s.hist.emitted.length - s.snd.win.length
  emono : s.hist.emitted.Pairwise fun x y =>
    x.uid - pidSub x.sequenceId x.baseAt ≤ y.uid - pidSub y.sequenceId y.baseAt

theorem sndInv_init (w W b a m : Nat) (hb : b < 2^20) : SndInv b w (initS w W b a m) where
  hinv := hinv_init b w a hb
  qsz := by intro q hq; cases hq
  plen := rfl
  plink := by intro i p h; simp [initS] at h
  net := by intro i d h; cases h
  ebase := by intro e he; cases he
  emono := List.Pairwise.nil

/-- Changes of the sender state and history that keep the emitted list. -/
theorem SndInv.frame {b0 w : Nat} {s : Sys} (h : SndInv b0 w s) (snd' : PSend.State) (hist' : Hist)
    (hi : HInv b0 w snd' hist') (hq : ∀ q ∈ snd'.queue, q.data.length ≤ MAX_PACKET_SIZE)
    (he : hist'.emitted = s.hist.emitted) (hwin : snd'.win.length ≤ s.snd.win.length) (s' : Sys)
    (h1 : s'.snd = snd') (h2 : s'.hist = hist') (h3 : s'.pend = s.pend) (h4 : s'.net = s.net) :
    SndInv b0 w s' where
  hinv := by rw [h1, h2]; exact hi
  qsz := by rw [h1]; exact hq
  plen := by rw [h3, h2, he]; exact h.plen
  plink := by rw [h3, h2, he]; exact h.plink
  net := by rw [h3, h4]; exact h.net
  ebase := by
    rw [h2, he, h1]
    intro e hm
    have := h.ebase e hm
    omega
  emono := by rw [h2, he]; exact h.emono

theorem sndInv_enq {b0 w : Nat} {s : Sys} (h : SndInv b0 w s) (d : List Nat) (c : Nat) (m : SendMode)
    (f : Nat) (hd : d.length ≤ MAX_PACKET_SIZE) (r : PSend.State × Hist)
    (hr : stepH s.snd s.hist (.enq d c m f) = .ok r) :
    SndInv b0 w { s with snd := r.1, hist := r.2 } := by
  simp only [stepH, Except.ok.injEq] at hr
  subst hr
  refine h.frame _ _ (hinv_enqueue b0 w s.snd s.hist d c m f h.hinv) ?_ rfl (Nat.le_refl _) _ rfl rfl rfl rfl
  intro q hq
  simp only [enqueue, List.mem_append, List.mem_singleton] at hq
  rcases hq with hq | rfl
  · exact h.qsz q hq
  · exact hd

theorem sndInv_ack {b0 w : Nat} (hw : w < 2^20) {s : Sys} (h : SndInv b0 w s) (rb : Nat)
    (r : PSend.State × Hist) (hr : stepH s.snd s.hist (.ack rb) = .ok r) :
    SndInv b0 w { s with snd := r.1, hist := r.2 } ∧ r.2 = s.hist ∧
    (r.1 = s.snd ∨ r.1.baseId = rb) := by
  have hi' := hinv_stepH b0 w hw s.snd s.hist (.ack rb) h.hinv r.1 r.2 hr
  simp only [stepH] at hr
  cases ha : acknowledge s.snd rb with
  | error t => rw [ha] at hr; cases hr
  | ok s1 =>
    rw [ha] at hr
    simp only [Except.ok.injEq] at hr
    subst hr
    obtain ⟨hq, hb, hl⟩ := acknowledge_facts s.snd s1 rb ha
    refine ⟨h.frame _ _ hi' ?_ rfl hl _ rfl rfl rfl rfl, rfl, hb⟩
    show ∀ q ∈ s1.queue, _
    rw [hq]; exact h.qsz

/-- `emit_packet` that returns nothing. -/
theorem sndInv_emit_none {b0 w : Nat} (hw : w < 2^20) {s : Sys} (h : SndInv b0 w s) (f : Nat)
    (s1 : PSend.State) (he : emit s.snd f = .ok (s1, none)) :
    stepH s.snd s.hist (.emit f) = .ok (s1, s.hist) ∧ emitted? s.snd f = none ∧
    s1.win = s.snd.win ∧
    SndInv b0 w { s with snd := s1 } := by
  have hst : stepH s.snd s.hist (.emit f) = .ok (s1, s.hist) := by simp only [stepH, he]
  have hi' := hinv_stepH b0 w hw s.snd s.hist (.emit f) h.hinv s1 s.hist hst
  obtain ⟨dropped, queue, total, hq, hd, hcase⟩ := emit_spec s.snd s1 f none he
  rcases hcase with ⟨-, hs1⟩ | ⟨q, rest, p, resend, chanPar, -, hc, -⟩
  · have hwin : s1.win = s.snd.win := by rw [hs1]
    refine ⟨hst, by simp only [emitted?, he], hwin, ?_⟩
    refine h.frame _ _ hi' ?_ rfl (by rw [hwin]; exact Nat.le_refl _) _ rfl rfl rfl rfl
    intro x hx
    rw [hs1] at hx
    exact h.qsz x (by rw [hq]; exact List.mem_append.mpr (Or.inr hx))
  · cases hc

/-- `emit_packet` that returns packet `p`. -/
theorem sndInv_emit_some {b0 w : Nat} (hw : w < 2^20) {s : Sys} (h : SndInv b0 w s) (f : Nat)
    (s1 : PSend.State) (p : Pending) (rs : Bool) (he : emit s.snd f = .ok (s1, some (p, rs))) :
    stepH s.snd s.hist (.emit f) =
      .ok (s1, { s.hist with emitted := s.hist.emitted ++ [mkEmitted s.snd f p] }) ∧
    emitted? s.snd f = some p ∧ s1.win.length = s.snd.win.length + 1 ∧
    SndInv b0 w { s with snd := s1,
                         hist := { s.hist with emitted := s.hist.emitted ++ [mkEmitted s.snd f p] },
                         pend := s.pend ++ [p], net := s.net ++ dgsOf s.pend.length p } := by
  have hst : stepH s.snd s.hist (.emit f) =
      .ok (s1, { s.hist with emitted := s.hist.emitted ++ [mkEmitted s.snd f p] }) := by
    simp only [stepH, he]
  have hi' := hinv_stepH b0 w hw s.snd s.hist (.emit f) h.hinv _ _ hst
  obtain ⟨dropped, queue, total, hq, hd, hcase⟩ := emit_spec s.snd s1 f _ he
  rcases hcase with ⟨hc, -⟩ | ⟨q, rest, p', resend, chanPar, hqq, hc, -, -, -, -, hpu, hpd, -, hps, -, -, -, -, hs1⟩
  · cases hc
  · simp only [Option.some.injEq, Prod.mk.injEq] at hc
    obtain ⟨rfl, rfl⟩ := hc
    have hqmem : q ∈ s.snd.queue := by rw [hq, hqq]; simp
    have hwf : WF p := emit_wf s.snd s1 f p rs he (by rw [hpd]; exact h.qsz q hqmem)
    have hwin : s1.win.length = s.snd.win.length + 1 := by rw [hs1]; simp [emitState]
    obtain ⟨hw1, hw2, hw3, hw4, hw5⟩ := hinv_win h.hinv hw
    refine ⟨hst, by simp only [emitted?, he], hwin, ?_⟩
    refine ⟨hi', ?_, ?_, ?_, ?_, ?_, ?_⟩
    · intro x hx
      have hx' : x ∈ s1.queue := hx
      rw [hs1] at hx'
      exact h.qsz x (by rw [hq, hqq]; exact List.mem_append.mpr (Or.inr (List.mem_cons_of_mem _ hx')))
    · show (s.pend ++ [p]).length = (s.hist.emitted ++ [mkEmitted s.snd f p]).length
      simp [h.plen]
    · intro i x hx
      have hx' : (s.pend ++ [p])[i]? = some x := hx
      show WF x ∧ ∃ e, (s.hist.emitted ++ [mkEmitted s.snd f p])[i]? = some e ∧ _
      rcases getElem?_snoc_some _ _ _ _ hx' with hx' | ⟨hil, rfl⟩
      · obtain ⟨a1, e, a2, a3⟩ := h.plink i x hx'
        refine ⟨a1, e, ?_, a3⟩
        rw [List.getElem?_append_left (List.getElem?_eq_some_iff.mp a2).1]; exact a2
      · refine ⟨hwf, mkEmitted s.snd f x, ?_, rfl, rfl, rfl, rfl, rfl, rfl⟩
        rw [hil, h.plen, List.getElem?_append_right (Nat.le_refl _), Nat.sub_self]; rfl
    · intro i d hm
      have hm' : (i, d) ∈ s.net ++ dgsOf s.pend.length p := hm
      show ∃ x, (s.pend ++ [p])[i]? = some x ∧ _
      rcases List.mem_append.mp hm' with hm' | hm'
      · obtain ⟨x, hx, hg⟩ := h.net i d hm'
        refine ⟨x, ?_, hg⟩
        rw [List.getElem?_append_left (List.getElem?_eq_some_iff.mp hx).1]; exact hx
      · obtain ⟨rfl, hg⟩ := mem_dgsOf _ _ _ _ hm'
        refine ⟨p, ?_, hg⟩
        rw [List.getElem?_append_right (Nat.le_refl _), Nat.sub_self]; rfl
    · intro e hm
      have hm' : e ∈ s.hist.emitted ++ [mkEmitted s.snd f p] := hm
      show _ ≤ (s.hist.emitted ++ [mkEmitted s.snd f p]).length - s1.win.length
      rw [List.length_append, List.length_singleton, hwin]
      rcases List.mem_append.mp hm' with hm' | hm'
      · have := h.ebase e hm'
        omega
      · rw [List.mem_singleton.mp hm']
        show p.uid - pidSub p.sequenceId s.snd.baseId ≤ _
        rw [hpu, hps, hw5, h.hinv.nuid]
        omega
    · show (s.hist.emitted ++ [mkEmitted s.snd f p]).Pairwise _
      rw [List.pairwise_append]
      refine ⟨h.emono, List.pairwise_singleton _ _, ?_⟩
      intro x hx y hy
      rw [List.mem_singleton.mp hy]
      show _ ≤ p.uid - pidSub p.sequenceId s.snd.baseId
      rw [hpu, hps, hw5, h.hinv.nuid]
      have := h.ebase x hx
      omega

end Uflow.Sys
