import Uflow.Lemmas.SyncEmit
import Uflow.Lemmas.SyncData
import Uflow.Lemmas.HcFrame
import Uflow.Lemmas.SyncStop

/-!
Helper lemmas for C11, part 4: `flush` as the sequence of its three emitters, and what the whole
flush does to the sync timer and to an owed sync reply.
-/

namespace Uflow.SyncCycle

open Uflow Uflow.Gen Uflow.Codec Uflow.HalfConn Uflow.Credit

variable {F : Type}

/-- A non-trapping `emitSyncFrame` either does nothing or sends the one sync frame and re-arms. -/
theorem emitSyncFrame_ok (s s' : State F) (out : List (List Nat)) (st : Stage)
    (h : emitSyncFrame s = .ok (s', out, st)) :
    s.syncTimeoutBase ≤ s.nowMs ∧
    ((out = [] ∧ s' = s ∧ (st = .stop ↔ SyncDue s ∧ s.flushAlloc < 0) ∧
        ¬ (SyncDue s ∧ 0 ≤ s.flushAlloc)) ∨
     (out = [syncBytes s] ∧ st = .cont ∧ SyncDue s ∧ 0 ≤ s.flushAlloc ∧
        s' = { s with flushAlloc := s.flushAlloc - (syncBytes s).length,
                      syncTimeoutBase := s.nowMs })) := by
  have hle : s.syncTimeoutBase ≤ s.nowMs := by
    by_cases hlt : s.nowMs < s.syncTimeoutBase
    · rw [emitSyncFrame_overflow s hlt] at h; cases h
    · omega
  refine ⟨hle, ?_⟩
  rw [emitSyncFrame_eq s hle] at h
  split at h
  · rename_i hd
    split at h
    · rename_i hc
      cases h
      exact Or.inl ⟨rfl, rfl, ⟨fun _ => ⟨hd, hc⟩, fun _ => rfl⟩, fun hh => by omega⟩
    · rename_i hc
      cases h
      exact Or.inr ⟨rfl, rfl, hd, by omega, rfl⟩
  · rename_i hd
    cases h
    exact Or.inl ⟨rfl, rfl, ⟨(fun hh => nomatch hh), (fun hh => absurd hh.1 hd)⟩, fun hh => hd hh.1⟩

/-- `flush` as the sequence of its three emitters. -/
theorem flush_parts (s s' : State F) (out : List (List Nat)) (h : flush s = .ok (s', out)) :
    ((emitAckFrames s).2.2 = .stop ∧ s' = (emitAckFrames s).1 ∧ out = (emitAckFrames s).2.1) ∨
    ((emitAckFrames s).2.2 = .cont ∧ ∃ s2 out2 st2,
      emitDataFrames (emitAckFrames s).1 = .ok (s2, out2, st2) ∧
      ((st2 = .stop ∧ s' = s2 ∧ out = (emitAckFrames s).2.1 ++ out2) ∨
       (st2 = .cont ∧ ∃ out3 st3, emitSyncFrame s2 = .ok (s', out3, st3) ∧
          out = (emitAckFrames s).2.1 ++ out2 ++ out3))) := by
  unfold flush at h
  generalize emitAckFrames s = r at h ⊢
  obtain ⟨s1, out1, st1⟩ := r
  simp only at h ⊢
  cases st1 with
  | stop =>
    simp only [if_true, Except.ok.injEq, Prod.mk.injEq] at h
    exact Or.inl ⟨rfl, h.1.symm, h.2.symm⟩
  | cont =>
    simp only [reduceCtorEq, if_false] at h
    refine Or.inr ⟨rfl, ?_⟩
    generalize emitDataFrames s1 = r2 at h ⊢
    cases r2 with
    | error t => cases h
    | ok v =>
      obtain ⟨s2, out2, st2⟩ := v
      refine ⟨s2, out2, st2, rfl, ?_⟩
      simp only at h
      cases st2 with
      | stop =>
        simp only [if_true, Except.ok.injEq, Prod.mk.injEq] at h
        exact Or.inl ⟨rfl, h.1.symm, h.2.symm⟩
      | cont =>
        simp only [reduceCtorEq, if_false] at h
        refine Or.inr ⟨rfl, ?_⟩
        generalize emitSyncFrame s2 = r3 at h ⊢
        cases r3 with
        | error t => cases h
        | ok v3 =>
          obtain ⟨s3, out3, st3⟩ := v3
          simp only [Except.ok.injEq, Prod.mk.injEq] at h
          obtain ⟨rfl, rfl⟩ := h
          exact ⟨out3, st3, rfl, rfl⟩

/-- The frames a flush sends after its ack frames (data and sync frames) re-arm the sync timer; if
there are none the timer is unchanged. -/
theorem flush_rearm (s s' : State F) (out : List (List Nat)) (h : flush s = .ok (s', out)) :
    ∃ rest, out = (emitAckFrames s).2.1 ++ rest ∧ s'.nowMs = s.nowMs ∧
      (rest ≠ [] → s'.syncTimeoutBase = s.nowMs) ∧
      (rest = [] → s'.syncTimeoutBase = s.syncTimeoutBase) ∧
      (∀ f ∈ rest, (∃ id n dgs, f = encode (.data id n dgs)) ∨ ∃ nf np, f = encode (.sync nf np)) := by
  have hk := (emitAckFrames_keep s).1
  rcases flush_parts s s' out h with ⟨_, rfl, rfl⟩ | ⟨_, s2, out2, st2, hd, hrest⟩
  · exact ⟨[], by simp, hk.now, fun hh => absurd rfl hh, fun _ => hk.stb, (fun f hf => nomatch hf)⟩
  · have hi := emitDataFrames_sync _ _ _ _ hd
    have hnow2 : s2.nowMs = s.nowMs := hi.now.trans hk.now
    have harm2 : out2 ≠ [] → s2.syncTimeoutBase = s.nowMs := fun hh => (hi.armed hh).trans hk.now
    have hq2 : out2 = [] → s2.syncTimeoutBase = s.syncTimeoutBase := fun hh => (hi.quiet hh).trans hk.stb
    rcases hrest with ⟨_, rfl, rfl⟩ | ⟨_, out3, st3, hs, rfl⟩
    · exact ⟨out2, rfl, hnow2, harm2, hq2, fun f hf => Or.inl (hi.data f hf)⟩
    · obtain ⟨_, hcase⟩ := emitSyncFrame_ok _ _ _ _ hs
      refine ⟨out2 ++ out3, by rw [List.append_assoc], ?_⟩
      rcases hcase with ⟨rfl, rfl, _, _⟩ | ⟨rfl, _, _, _, rfl⟩
      · simp only [List.append_nil]
        exact ⟨hnow2, harm2, hq2, fun f hf => Or.inl (hi.data f hf)⟩
      · refine ⟨hnow2, fun _ => hnow2, fun hh => ?_, fun f hf => ?_⟩
        · simp at hh
        · rw [List.mem_append, List.mem_singleton] at hf
          rcases hf with hf | rfl
          · exact Or.inl (hi.data f hf)
          · exact Or.inr ⟨_, _, rfl⟩

/-- After a flush that started with non-negative credit no sync reply is owed any more, and a flush
that started with a reply owed begins with an ack frame. -/
theorem flush_reply (s s' : State F) (out : List (List Nat)) (h : flush s = .ok (s', out))
    (hr : s.syncReply = true) (hc : 0 ≤ s.flushAlloc) :
    s'.syncReply = false ∧ ∃ f rest, out = f :: rest ∧ IsAck s.aq.baseId s.pr.baseId s.aq.entries f := by
  obtain ⟨hne, hclr⟩ := emitAckFrames_reply s hr hc
  have hall := (emitAckFrames_keep s).2
  have hhead : ∀ rest, ∃ f rest', (emitAckFrames s).2.1 ++ rest = f :: rest' ∧
      IsAck s.aq.baseId s.pr.baseId s.aq.entries f := by
    intro rest
    cases ho : (emitAckFrames s).2.1 with
    | nil => exact absurd ho hne
    | cons f o =>
      exact ⟨f, o ++ rest, rfl, hall f (by rw [ho]; exact List.mem_cons_self)⟩
  rcases flush_parts s s' out h with ⟨_, rfl, rfl⟩ | ⟨_, s2, out2, st2, hd, hrest⟩
  · obtain ⟨f, r, h1, h2⟩ := hhead []
    exact ⟨hclr, f, r, by simpa using h1, h2⟩
  · have hi := emitDataFrames_sync _ _ _ _ hd
    have h2r : s2.syncReply = false := hi.reply.trans hclr
    rcases hrest with ⟨_, rfl, rfl⟩ | ⟨_, out3, st3, hs, rfl⟩
    · obtain ⟨f, r, h1, h2⟩ := hhead out2
      exact ⟨h2r, f, r, h1, h2⟩
    · obtain ⟨_, hcase⟩ := emitSyncFrame_ok _ _ _ _ hs
      obtain ⟨f, r, h1, h2⟩ := hhead (out2 ++ out3)
      refine ⟨?_, f, r, by rw [List.append_assoc]; exact h1, h2⟩
      rcases hcase with ⟨_, rfl, _, _⟩ | ⟨_, _, _, _, rfl⟩
      · exact h2r
      · exact h2r

/-- No silent skip: a flush in a state with frames in flight whose sync timeout has elapsed either
ends out of credit or has sent a data or sync frame (and so re-armed the timer). -/
theorem flush_sync_progress (s s' : State F) (out : List (List Nat)) (h : flush s = .ok (s', out))
    (hto : timeout s ≤ elapsed s) (hun : FramesUnacked s) :
    s'.flushAlloc < 0 ∨
    ∃ rest, out = (emitAckFrames s).2.1 ++ rest ∧ rest ≠ [] ∧ s'.syncTimeoutBase = s.nowMs := by
  have hk := (emitAckFrames_keep s).1
  rcases flush_parts s s' out h with ⟨hst, rfl, rfl⟩ | ⟨_, s2, out2, st2, hd, hrest⟩
  · exact Or.inl (emitAckFrames_stop s hst)
  · have hi := emitDataFrames_sync _ _ _ _ hd
    have hnow2 : s2.nowMs = s.nowMs := hi.now.trans hk.now
    have harm2 : out2 ≠ [] → s2.syncTimeoutBase = s.nowMs := fun hh => (hi.armed hh).trans hk.now
    rcases hrest with ⟨rfl, rfl, rfl⟩ | ⟨_, out3, st3, hs, rfl⟩
    · rcases emitDataFrames_stop _ _ _ hd with hne | hneg
      · exact Or.inr ⟨out2, rfl, hne, harm2 hne⟩
      · exact Or.inl hneg
    · obtain ⟨_, hcase⟩ := emitSyncFrame_ok _ _ _ _ hs
      by_cases hne : out2 = []
      · -- nothing sent by the data stage: the sync frame is due in `s2`
        have hdue : SyncDue s2 := by
          have hstb : s2.syncTimeoutBase = s.syncTimeoutBase := (hi.quiet hne).trans hk.stb
          have hrto : s2.rtoMs = s.rtoMs := hi.rto.trans hk.rto
          obtain ⟨hl, hb⟩ := hi.fqIdle hne
          refine ⟨?_, Or.inl ?_⟩
          · simp only [timeout, elapsed, hstb, hrto, hnow2] at hto ⊢
            exact hto
          · show s2.fq.logNext ≠ s2.fq.winBase
            rw [hl, hb, hk.fq]
            exact hun
        rcases hcase with ⟨_, rfl, _, hnd⟩ | ⟨rfl, _, _, _, rfl⟩
        · refine Or.inl ?_
          have : ¬ 0 ≤ s'.flushAlloc := fun hh => hnd ⟨hdue, hh⟩
          omega
        · exact Or.inr ⟨out2 ++ [syncBytes s2], by rw [List.append_assoc], by simp, hnow2⟩
      · refine Or.inr ⟨out2 ++ out3, by rw [List.append_assoc], by simp [hne], ?_⟩
        rcases hcase with ⟨_, rfl, _, _⟩ | ⟨_, _, _, _, rfl⟩
        · exact harm2 hne
        · exact hnow2

/-- `handleSyncFrame` (with the `AckQ` computation as a parameter `g`) by cases on its two fields. -/
theorem syncFrameCore_spec (s : State F) (g : Nat → FrameQ.AckQ) (nf np : Option Nat) :
    HcFrame.syncFrameCore s g nf np =
      match np with
      | none => .ok { s with aq := (match nf with | some id => g id | none => s.aq),
                             syncReply := true }
      | some pid =>
        (PRecv.resynchronize s.pr pid).map fun pr =>
          { s with aq := (match nf with | some id => g id | none => s.aq),
                   pr := pr, syncReply := true } := by
  cases nf with
  | none =>
    cases np with
    | none => rfl
    | some pid =>
      simp only [HcFrame.syncFrameCore]
      generalize PRecv.resynchronize s.pr pid = r
      cases r <;> rfl
  | some fid =>
    simp only [HcFrame.syncFrameCore]
    generalize g fid = aq'
    cases np with
    | none => rfl
    | some pid =>
      simp only
      generalize PRecv.resynchronize s.pr pid = r
      cases r <;> rfl

end Uflow.SyncCycle
