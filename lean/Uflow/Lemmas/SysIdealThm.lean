import Uflow.Lemmas.SysIdealRun

/-!
The ideal network (C05Sys), part 7: what the invariants of ideal runs say about the log, and the
declarative reading of `idealFrom`.
-/

namespace Uflow.Sys

open Uflow Uflow.Gen Uflow.Codec Uflow.PSend Uflow.PRecv Uflow.Frag

/-! ### the log against the emitted packets -/

/-- A log whose keys are `0, 1, …` and whose entries report what is found at their key reports a
prefix of the list the keys point into. -/
theorem map_eq_take {ε α β : Type} (log : List ε) (uid : ε → Nat) (g : ε → β) (em : List α) (h : α → β)
    (hu : log.map uid = List.range log.length)
    (hl : ∀ e ∈ log, ∃ x, em[uid e]? = some x ∧ g e = h x) :
    log.length ≤ em.length ∧ log.map g = (em.take log.length).map h := by
  have hidx : ∀ i (hi : i < log.length), uid log[i] = i := by
    intro i hi
    have h1 : (log.map uid)[i]? = some (uid log[i]) := by
      rw [List.getElem?_map, List.getElem?_eq_getElem hi]; rfl
    rw [hu, List.getElem?_range hi] at h1
    exact (Option.some.inj h1).symm
  have hlen : log.length ≤ em.length := by
    rcases Nat.eq_zero_or_pos log.length with h0 | hpos
    · omega
    · obtain ⟨x, hx, -⟩ := hl log[log.length - 1] (List.getElem_mem _)
      rw [hidx _ (by omega)] at hx
      have := (List.getElem?_eq_some_iff.mp hx).1
      omega
  refine ⟨hlen, ?_⟩
  apply List.ext_getElem?
  intro i
  rcases Nat.lt_or_ge i log.length with hi | hi
  · obtain ⟨x, hx, hgx⟩ := hl log[i] (List.getElem_mem _)
    rw [hidx i hi] at hx
    rw [List.getElem?_map, List.getElem?_map, List.getElem?_take, if_pos hi, hx,
      List.getElem?_eq_getElem hi]
    show some (g log[i]) = some (h x)
    rw [hgx]
  · rw [List.getElem?_eq_none (by rw [List.length_map]; exact hi),
      List.getElem?_eq_none (by rw [List.length_map, List.length_take]; omega)]

theorem filterMap_of_map_some {α β γ : Type} (f : α → Option β) (g : γ → β) :
    ∀ (l : List α) (l' : List γ), l.map f = l'.map (fun x => some (g x)) → l.filterMap f = l'.map g := by
  intro l
  induction l with
  | nil => intro l' h; cases l' with
    | nil => rfl
    | cons y l' => simp at h
  | cons x l ih =>
    intro l' h
    cases l' with
    | nil => simp at h
    | cons y l' =>
      simp only [List.map_cons, List.cons.injEq] at h
      rw [List.filterMap_cons, h.1, List.map_cons, ih l' h.2]

/-- The next datagram of an ideal network belongs to a packet the receive window has not passed, so
the `Fresh` guard of `stepS` does not refuse it. -/
theorem iinv_next {b0 w W M : Nat} (hW : WOk W) {s : Sys} (h : SInv b0 w W M s) {n : Nat} {q : Bool}
    {C f : Nat} (I : IInv b0 W s n q C f) (hn : n < s.net.length) :
    ∃ d, s.net[n]? = some (C, d) ∧ Fresh s C := by
  have hwfall : ∀ q ∈ s.pend, WF q := by
    intro q hq
    obtain ⟨i, hi⟩ := List.getElem?_of_mem hq
    exact (h.snd.plink i q hi).1
  have hClt : C < s.pend.length := by
    rcases Nat.lt_or_ge C s.pend.length with hlt | hge
    · exact hlt
    · exfalso
      have hC : C = s.pend.length := by have := I.cle; omega
      have hf0 := I.fz hC
      have hlen := netOf_length s.pend hwfall 0
      rw [← I.net] at hlen
      have hp := I.pos
      rw [hC, List.take_length, hf0] at hp
      omega
  obtain ⟨p, hp⟩ : ∃ p, s.pend[C]? = some p := ⟨s.pend[C], List.getElem?_eq_getElem hClt⟩
  have hf := I.flt p hp
  refine ⟨mkDg p f, ?_, ?_⟩
  · have := netOf_get s.pend hwfall 0 C f p hp hf
    rw [← I.net, ← I.pos, Nat.zero_add] at this
    exact this
  · unfold Fresh
    rw [h.rcv.inv.wsz]
    have := I.advK; have := I.kC; have := hW.le
    omega

/-- When every datagram of the network has been handed over, every emitted packet has been received
completely. -/
theorem iinv_all {b0 w W M : Nat} {s : Sys} (h : SInv b0 w W M s) {n : Nat} {q : Bool}
    {C f : Nat} (I : IInv b0 W s n q C f) (hn : n = s.net.length) : C = s.pend.length := by
  have hwfall : ∀ q ∈ s.pend, WF q := by
    intro q hq
    obtain ⟨i, hi⟩ := List.getElem?_of_mem hq
    exact (h.snd.plink i q hi).1
  rcases Nat.lt_or_ge C s.pend.length with hlt | hge
  · exfalso
    obtain ⟨p, hp⟩ : ∃ p, s.pend[C]? = some p := ⟨s.pend[C], List.getElem?_eq_getElem hlt⟩
    have hf := I.flt p hp
    have hlen := netOf_length s.pend hwfall 0
    rw [← I.net] at hlen
    have h1 := sum_take_succ s.pend C p hp
    have h2 := sum_take_le (s.pend.map cnt) (C + 1)
    rw [← List.map_take] at h2
    have := I.pos
    omega
  · have := I.cle; omega

/-- **The log of an ideal run.** The packets taken out of the receive window are the packets emitted
at positions `0, 1, …, log.length - 1`, in this order, each with its channel and its payload; if there
has been a `recv` since the last datagram and no datagram is still in flight, these are all emitted
packets. -/
theorem idealSt_log {b0 w W M A : Nat} {s : Sys} {n : Nat} {q : Bool} (h : IdealSt b0 w W M A s n q) :
    s.rcv.log.map LogE.uid = List.range s.rcv.log.length ∧
    s.rcv.log.length ≤ s.hist.emitted.length ∧
    (s.rcv.log.map fun e => (e.chan, e.data)) =
      (s.hist.emitted.take s.rcv.log.length).map (fun x => (x.channelId, some x.data)) ∧
    (q = true → n = s.net.length → s.rcv.log.length = s.hist.emitted.length) := by
  obtain ⟨C, f, I⟩ := h.iinv
  have hl : ∀ e ∈ s.rcv.log, ∃ x, s.hist.emitted[e.uid]? = some x ∧
      (e.chan, e.data) = (x.channelId, some x.data) := by
    intro e he
    obtain ⟨p, hp, c1, -, -, c4⟩ := h.sinv.log e he
    obtain ⟨-, em, hem, e1, e2, -⟩ := h.sinv.snd.plink e.uid p hp
    refine ⟨em, hem, ?_⟩
    rcases c4 with c4 | c4
    · exact absurd c4 (h.ainv.ld e he)
    · rw [c1, c4, e1, e2]
  obtain ⟨m1, m2⟩ := map_eq_take s.rcv.log LogE.uid (fun e => (e.chan, e.data)) s.hist.emitted
    (fun x => (x.channelId, some x.data)) I.loguid hl
  refine ⟨I.loguid, m1, m2, ?_⟩
  intro hq hn
  rw [I.settled hq, iinv_all h.sinv I hn, h.sinv.snd.plen]

/-! ### the declarative reading of `idealFrom` -/

theorem runS_cons (s : Sys) (op : SOp) (rest : List SOp) :
    runS s (op :: rest) = bindR (stepS s op) fun s' => runS s' rest := rfl

theorem delivers_cons_deliver (k : Nat) (rest : List SOp) : delivers (.deliver k :: rest) = delivers rest + 1 := rfl

theorem delivers_cons_other (op : SOp) (rest : List SOp) (h : ∀ k, op ≠ .deliver k) :
    delivers (op :: rest) = delivers rest := by
  cases op with
  | deliver k => exact absurd rfl (h k)
  | enq d c m f => rfl
  | emit f => rfl
  | recv => rfl
  | ack k => rfl
  | sync => rfl
  | resync k => rfl

theorem noResyncB_iff (ops : List SOp) : noResyncB ops = true ↔ NoResync ops := by
  unfold noResyncB NoResync
  rw [List.all_eq_true]
  constructor
  · intro h op hop k hk
    have := h op hop
    rw [hk] at this
    cases this
  · intro h op hop
    cases op with
    | resync k => exact absurd rfl (h _ hop k)
    | enq d c m f => rfl
    | emit f => rfl
    | deliver k => rfl
    | recv => rfl
    | ack k => rfl
    | sync => rfl

/-- `idealFrom s n ops` says exactly: whenever the run reaches a `deliver k` step of `ops` (without
having trapped), `k` is `n` plus the number of `deliver` steps before it, and the network holds more
than `k` datagrams at that moment. -/
theorem idealFrom_iff (ops : List SOp) : ∀ (s : Sys) (n : Nat),
    idealFrom s n ops = true ↔
      ∀ pre k post s1, ops = pre ++ .deliver k :: post → runS s pre = .ok s1 →
        k = n + delivers pre ∧ k < s1.net.length := by
  induction ops with
  | nil =>
    intro s n
    refine ⟨fun _ pre k post s1 h => ?_, fun _ => rfl⟩
    cases pre <;> cases h
  | cons op rest ih =>
    intro s n
    by_cases hdel : ∃ k, op = .deliver k
    · obtain ⟨k0, rfl⟩ := hdel
      rw [idealFrom_cons_deliver]
      constructor
      · intro hid pre k post s1 hsplit hrun
        simp only [Bool.and_eq_true, beq_iff_eq, decide_eq_true_eq] at hid
        obtain ⟨⟨hk, hlt⟩, hrest⟩ := hid
        cases pre with
        | nil =>
          simp only [List.nil_append, List.cons.injEq, SOp.deliver.injEq] at hsplit
          obtain ⟨rfl, -⟩ := hsplit
          cases hrun
          exact ⟨by rw [hk]; rfl, hlt⟩
        | cons op' pre' =>
          simp only [List.cons_append, List.cons.injEq] at hsplit
          obtain ⟨rfl, hsplit⟩ := hsplit
          rw [runS_cons] at hrun
          cases hs : stepS s (.deliver k0) with
          | error t => rw [hs] at hrun; cases hrun
          | ok s2 =>
            rw [hs, bindR_ok] at hrun
            rw [hs] at hrest
            obtain ⟨a1, a2⟩ := (ih s2 (n + 1)).mp hrest pre' k post s1 hsplit hrun
            refine ⟨?_, a2⟩
            rw [delivers_cons_deliver]
            omega
      · intro hall
        obtain ⟨a1, a2⟩ := hall [] k0 rest s rfl rfl
        simp only [Bool.and_eq_true, beq_iff_eq, decide_eq_true_eq]
        refine ⟨⟨by simpa [delivers] using a1, a2⟩, ?_⟩
        cases hs : stepS s (.deliver k0) with
        | error t => rfl
        | ok s2 =>
          show idealFrom s2 (n + 1) rest = true
          rw [ih s2 (n + 1)]
          intro pre k post s1 hsplit hrun
          obtain ⟨b1, b2⟩ := hall (.deliver k0 :: pre) k post s1 (by rw [hsplit]; rfl)
            (by rw [runS_cons, hs, bindR_ok]; exact hrun)
          refine ⟨?_, b2⟩
          rw [delivers_cons_deliver] at b1
          omega
    · have hnd : ∀ k, op ≠ .deliver k := fun k hk => hdel ⟨k, hk⟩
      rw [idealFrom_cons_other s n op rest hnd]
      constructor
      · intro hid pre k post s1 hsplit hrun
        cases pre with
        | nil =>
          simp only [List.nil_append, List.cons.injEq] at hsplit
          exact absurd hsplit.1 (hnd k)
        | cons op' pre' =>
          simp only [List.cons_append, List.cons.injEq] at hsplit
          obtain ⟨rfl, hsplit⟩ := hsplit
          rw [runS_cons] at hrun
          cases hs : stepS s op with
          | error t => rw [hs] at hrun; cases hrun
          | ok s2 =>
            rw [hs, bindR_ok] at hrun
            rw [hs] at hid
            obtain ⟨a1, a2⟩ := (ih s2 n).mp hid pre' k post s1 hsplit hrun
            refine ⟨?_, a2⟩
            rw [delivers_cons_other op pre' hnd]
            exact a1
      · intro hall
        cases hs : stepS s op with
        | error t => rfl
        | ok s2 =>
          show idealFrom s2 n rest = true
          rw [ih s2 n]
          intro pre k post s1 hsplit hrun
          obtain ⟨b1, b2⟩ := hall (op :: pre) k post s1 (by rw [hsplit]; rfl)
            (by rw [runS_cons, hs, bindR_ok]; exact hrun)
          refine ⟨?_, b2⟩
          rw [delivers_cons_other op pre hnd] at b1
          exact b1

end Uflow.Sys
