import Uflow.Lemmas.EndpointServerHeap
namespace Uflow.EpNoTrap
open Uflow.Endpoint

def upd (f : Nat → Nat) (p v : Nat) : Nat → Nat := fun i => if i = p then v else f i

def HeapF (n : Nat) (f : Nat → Nat) : Prop :=
  ∀ i, 0 < i → i < n → f ((i - 1) / 2) ≤ f i

def DownInv (n : Nat) (f : Nat → Nat) (pos : Nat) : Prop :=
  (∀ i, 0 < i → i < n → i ≠ pos → (i - 1) / 2 ≠ pos → f ((i - 1) / 2) ≤ f i) ∧
  (∀ c, 0 < c → c < n → (c - 1) / 2 = pos → 0 < pos → f ((pos - 1) / 2) ≤ f c)

def UpInv (n : Nat) (f : Nat → Nat) (pos e : Nat) : Prop :=
  DownInv n f pos ∧ (∀ c, 0 < c → c < n → (c - 1) / 2 = pos → e ≤ f c)

theorem upInv_step {n f pos e} (hI : UpInv n f pos e) (hp : 0 < pos) (hn : pos < n)
    (hlt : e < f ((pos - 1) / 2)) :
    UpInv n (upd f pos (f ((pos - 1) / 2))) ((pos - 1) / 2) e := by
  obtain ⟨⟨ha, hc⟩, hb⟩ := hI
  refine ⟨⟨?_, ?_⟩, ?_⟩
  · intro i h0 hin hne hpar
    simp only [upd]
    by_cases h1 : i = pos
    · subst h1; exact absurd rfl hpar
    · by_cases h2 : (i - 1) / 2 = pos
      · have := hc i h0 hin h2 hp
        rw [if_neg h1, if_pos h2]; exact this
      · rw [if_neg h1, if_neg h2]; exact ha i h0 hin h1 h2
  · intro c h0 hcn hpar hpp
    simp only [upd]
    have hg : (((pos - 1) / 2 - 1) / 2) ≠ pos := by omega
    have hpp' : (pos - 1) / 2 ≠ pos := by omega
    have hgp := ha ((pos - 1) / 2) hpp (by omega) hpp' hg
    rw [if_neg hg]
    by_cases h1 : c = pos
    · rw [if_pos h1]; exact hgp
    · rw [if_neg h1]
      have := ha c h0 hcn h1 (by omega)
      rw [hpar] at this
      omega
  · intro c h0 hcn hpar
    simp only [upd]
    by_cases h1 : c = pos
    · rw [if_pos h1]; omega
    · rw [if_neg h1]
      have := ha c h0 hcn h1 (by omega)
      rw [hpar] at this
      omega

theorem upInv_done {n f pos e} (hI : UpInv n f pos e)
    (hstop : pos = 0 ∨ f ((pos - 1) / 2) ≤ e) : HeapF n (upd f pos e) := by
  obtain ⟨⟨ha, hc⟩, hb⟩ := hI
  intro i h0 hin
  simp only [upd]
  by_cases h1 : i = pos
  · subst h1
    have : (i - 1) / 2 ≠ i := by omega
    rw [if_pos rfl, if_neg this]
    rcases hstop with h | h
    · omega
    · exact h
  · by_cases h2 : (i - 1) / 2 = pos
    · rw [if_neg h1, if_pos h2]; exact hb i h0 hin h2
    · rw [if_neg h1, if_neg h2]; exact ha i h0 hin h1 h2

theorem downInv_step {n f pos c} (hI : DownInv n f pos) (h0 : 0 < c) (hcn : c < n)
    (hpar : (c - 1) / 2 = pos)
    (hmin : ∀ d, 0 < d → d < n → (d - 1) / 2 = pos → f c ≤ f d) :
    DownInv n (upd f pos (f c)) c := by
  obtain ⟨ha, hc⟩ := hI
  have hcp : c ≠ pos := by omega
  refine ⟨?_, ?_⟩
  · intro i hi0 hin hne hpar'
    simp only [upd]
    by_cases h1 : i = pos
    · subst h1
      have hg : (i - 1) / 2 ≠ i := by omega
      rw [if_pos rfl, if_neg hg]
      exact hc c h0 hcn hpar hi0
    · rw [if_neg h1]
      by_cases h2 : (i - 1) / 2 = pos
      · rw [if_pos h2]; exact hmin i hi0 hin h2
      · rw [if_neg h2]; exact ha i hi0 hin h1 h2
  · intro d hd0 hdn hpard _
    simp only [upd]
    rw [hpar, if_pos rfl]
    have hdp : d ≠ pos := by omega
    rw [if_neg hdp]
    have := ha d hd0 hdn hdp (by omega)
    rw [hpard] at this
    exact this

/-! ## Arrays -/

/-- min-heap order on `time`: every non-root element is at least its parent -/
def THeap (h : Array Timer) : Prop :=
  ∀ i (hi : i < h.size), 0 < i → (h[(i - 1) / 2]'(by omega)).time ≤ h[i].time

instance (h : Array Timer) : Decidable (THeap h) := by
  unfold THeap; infer_instance

/-- the key at index `i` (0 outside the array) -/
def key (h : Array Timer) (i : Nat) : Nat :=
  match h[i]? with
  | some t => t.time
  | none => 0

theorem key_of_lt (h : Array Timer) (i : Nat) (hi : i < h.size) : key h i = h[i].time := by
  simp [key, hi]

theorem key_of_some {h : Array Timer} {i : Nat} {t : Timer} (ht : h[i]? = some t) :
    key h i = t.time := by
  simp [key, ht]

theorem tHeap_iff (h : Array Timer) : THeap h ↔ HeapF h.size (key h) := by
  constructor
  · intro hh i h0 hin
    rw [key_of_lt h i hin, key_of_lt h _ (by omega)]
    exact hh i hin h0
  · intro hh i hin h0
    have := hh i h0 hin
    rw [key_of_lt h i hin, key_of_lt h _ (by omega)] at this
    exact this

theorem key_set (h : Array Timer) (p : Nat) (v : Timer) (hp : p < h.size) :
    key (h.setIfInBounds p v) = upd (key h) p v.time := by
  funext i
  simp only [key, upd, Array.getElem?_setIfInBounds]
  by_cases h1 : i = p
  · subst h1; simp [hp]
  · have : ¬ p = i := fun e => h1 e.symm
    simp [h1, this]

/-! ## sift-up -/

theorem tSiftUp_go_heap (elt : Timer) (fuel : Nat) :
    ∀ (h : Array Timer) (pos : Nat), pos < h.size → pos < fuel →
      UpInv h.size (key h) pos elt.time →
      THeap ((tSiftUp.go 0 elt fuel h pos).1.setIfInBounds (tSiftUp.go 0 elt fuel h pos).2 elt) := by
  induction fuel with
  | zero => intro h pos _ hf; omega
  | succ fuel ih =>
    intro h pos hpos hf hI
    have done : (pos = 0 ∨ key h ((pos - 1) / 2) ≤ elt.time) →
        THeap (h.setIfInBounds pos elt) := by
      intro hs
      rw [tHeap_iff, key_set h pos elt hpos, Array.size_setIfInBounds]
      exact upInv_done hI hs
    simp only [tSiftUp.go]
    split
    · rename_i hgt
      split
      · rename_i hnone
        have : (pos - 1) / 2 < h.size := by omega
        simp [this] at hnone
      · rename_i p hp
        have hkp : key h ((pos - 1) / 2) = p.time := key_of_some hp
        split
        · rename_i hle
          apply done
          right
          rw [hkp]
          simpa [Timer.le] using hle
        · rename_i hle
          have hlt : elt.time < p.time := by
            simpa [Timer.le] using hle
          have hstep := upInv_step hI hgt hpos (by rw [hkp]; exact hlt)
          rw [hkp, ← key_set h pos p hpos] at hstep
          apply ih
          · rw [Array.size_setIfInBounds]; omega
          · omega
          · rw [Array.size_setIfInBounds]; exact hstep
    · rename_i hgt
      apply done
      left; omega

theorem tSiftUp_heap (h : Array Timer) (pos : Nat) (elt : Timer) (he : h[pos]? = some elt)
    (hI : UpInv h.size (key h) pos elt.time) : THeap (tSiftUp h 0 pos) := by
  have hpos := lt_size_of_getElem?_eq_some he
  unfold tSiftUp
  rw [he]
  exact tSiftUp_go_heap elt (h.size + 1) h pos hpos (by omega) hI

/-! ## sift-down -/

theorem tSiftDown_go_heap (n : Nat) (fuel : Nat) :
    ∀ (h : Array Timer) (pos child : Nat), h.size = n → pos < n → child = 2 * pos + 1 →
      n ≤ fuel + pos → DownInv n (key h) pos →
      (tSiftDown.go n fuel h pos child).1.size = n ∧
      (tSiftDown.go n fuel h pos child).2 < n ∧
      n ≤ 2 * (tSiftDown.go n fuel h pos child).2 + 1 ∧
      DownInv n (key (tSiftDown.go n fuel h pos child).1) (tSiftDown.go n fuel h pos child).2 := by
  induction fuel with
  | zero => intro h pos child _ hpos _ hf; omega
  | succ fuel ih =>
    intro h pos child hsz hpos hch hf hI
    simp only [tSiftDown.go]
    split
    · rename_i hcond
      have hc0 : child < h.size := by omega
      have hc1 : child + 1 < h.size := by omega
      rw [Array.getElem?_eq_getElem hc0, Array.getElem?_eq_getElem hc1]
      simp only
      -- the chosen child
      have hsel : ∀ c, (c = child ∨ c = child + 1) →
          (∀ d, 0 < d → d < n → (d - 1) / 2 = pos → key h c ≤ key h d) →
          ∀ (hc : c < h.size),
          (tSiftDown.go n fuel (h.setIfInBounds pos h[c]) c (2 * c + 1)).1.size = n ∧
          (tSiftDown.go n fuel (h.setIfInBounds pos h[c]) c (2 * c + 1)).2 < n ∧
          n ≤ 2 * (tSiftDown.go n fuel (h.setIfInBounds pos h[c]) c (2 * c + 1)).2 + 1 ∧
          DownInv n (key (tSiftDown.go n fuel (h.setIfInBounds pos h[c]) c (2 * c + 1)).1)
            (tSiftDown.go n fuel (h.setIfInBounds pos h[c]) c (2 * c + 1)).2 := by
        intro c hcc hmin hc
        apply ih
        · rw [Array.size_setIfInBounds]; exact hsz
        · omega
        · rfl
        · omega
        · rw [key_set h pos _ (by omega), ← key_of_lt h c hc]
          exact downInv_step hI (by omega) (by omega) (by omega) hmin
      have hk0 := key_of_lt h child hc0
      have hk1 := key_of_lt h (child + 1) hc1
      by_cases hle : h[child].le h[child + 1] = true
      · have hle' : h[child + 1].time ≤ h[child].time := by simpa [Timer.le] using hle
        simp only [if_pos hle]
        rw [Array.getElem?_eq_getElem hc1]
        simp only
        apply hsel (child + 1) (Or.inr rfl) _ hc1
        intro d hd0 hdn hpar
        have : d = child ∨ d = child + 1 := by omega
        rcases this with rfl | rfl
        · rw [hk0, hk1]; exact hle'
        · exact Nat.le_refl _
      · have hle' : h[child].time < h[child + 1].time := by simpa [Timer.le] using hle
        simp only [if_neg hle]
        rw [Array.getElem?_eq_getElem hc0]
        simp only
        apply hsel child (Or.inl rfl) _ hc0
        intro d hd0 hdn hpar
        have : d = child ∨ d = child + 1 := by omega
        rcases this with rfl | rfl
        · exact Nat.le_refl _
        · rw [hk0, hk1]; omega
    · rename_i hcond
      split
      · rename_i hcond2
        have hc0 : child < h.size := by omega
        rw [Array.getElem?_eq_getElem hc0]
        simp only
        refine ⟨by rw [Array.size_setIfInBounds]; exact hsz, by omega, by omega, ?_⟩
        rw [key_set h pos _ (by omega), ← key_of_lt h child hc0]
        apply downInv_step hI (by omega) (by omega) (by omega)
        intro d hd0 hdn hpar
        have : d = child := by omega
        subst this
        exact Nat.le_refl _
      · rename_i hcond2
        exact ⟨hsz, hpos, by omega, hI⟩

theorem tSiftDown_heap (h : Array Timer) (hI : DownInv h.size (key h) 0) : THeap (tSiftDown h) := by
  unfold tSiftDown
  split
  · rename_i hnone
    have : h.size = 0 := by
      simpa using hnone
    show THeap h
    intro i hi; omega
  · rename_i elt helt
    have hpos := lt_size_of_getElem?_eq_some helt
    obtain ⟨h1, h2, h3, h4⟩ :=
      tSiftDown_go_heap h.size (h.size + 1) h 0 1 rfl hpos rfl (by omega) hI
    simp only
    generalize tSiftDown.go h.size (h.size + 1) h 0 1 = r at h1 h2 h3 h4
    obtain ⟨h', pos'⟩ := r
    simp only at h1 h2 h3 h4 ⊢
    apply tSiftUp_heap _ pos' elt
    · simp [h1, h2]
    · rw [Array.size_setIfInBounds, h1, key_set h' pos' elt (by omega)]
      obtain ⟨ha, hc⟩ := h4
      refine ⟨⟨?_, ?_⟩, ?_⟩
      · intro i h0 hin hne hpar
        simp only [upd, if_neg hne, if_neg hpar]
        exact ha i h0 hin hne hpar
      · intro c h0 hcn hpar; omega
      · intro c h0 hcn hpar; omega

/-! ## The five theorems -/

theorem tHeap_empty : THeap #[] := by
  intro i hi; simp at hi

theorem tHeap_push (h : Array Timer) (e : Timer) (hh : THeap h) : THeap (tPush h e) := by
  unfold tPush
  simp only [Array.size_push, Nat.add_sub_cancel]
  apply tSiftUp_heap _ _ e
  · simp
  · rw [Array.size_push]
    rw [tHeap_iff] at hh
    refine ⟨⟨?_, ?_⟩, ?_⟩
    · intro i h0 hin hne hpar
      have hi : i < h.size := by omega
      have := hh i h0 hi
      rw [key_of_lt h i hi, key_of_lt h _ (by omega)] at this
      rw [key_of_lt _ i (by simp; omega), key_of_lt _ ((i - 1) / 2) (by simp; omega)]
      rw [Array.getElem_push_lt hi, Array.getElem_push_lt (by omega)]
      exact this
    · intro c h0 hcn hpar; omega
    · intro c h0 hcn hpar; omega

/-- `tPop` returns the root -/
theorem tPop_root (h h' : Array Timer) (t : Timer) (hp : tPop h = some (t, h')) :
    h[0]? = some t := by
  unfold tPop at hp
  split at hp
  · cases hp
  · rename_i last hlast
    obtain ⟨ys, rfl⟩ := Array.back?_eq_some_iff.mp hlast
    simp only [Array.pop_push] at hp
    split at hp
    · rename_i hnone
      simp only [Option.some.injEq, Prod.mk.injEq] at hp
      obtain ⟨rfl, rfl⟩ := hp
      have : ys.size = 0 := by simpa using hnone
      have : ys = #[] := Array.eq_empty_of_size_eq_zero this
      subst this
      rfl
    · rename_i top htop
      simp only [Option.some.injEq, Prod.mk.injEq] at hp
      obtain ⟨rfl, rfl⟩ := hp
      have := lt_size_of_getElem?_eq_some htop
      rw [Array.getElem?_push]
      rw [if_neg (by omega)]
      exact htop

theorem tHeap_pop (h h' : Array Timer) (t : Timer) (hh : THeap h)
    (hp : tPop h = some (t, h')) : THeap h' := by
  unfold tPop at hp
  split at hp
  · cases hp
  · rename_i last hlast
    obtain ⟨ys, rfl⟩ := Array.back?_eq_some_iff.mp hlast
    simp only [Array.pop_push] at hp
    split at hp
    · rename_i hnone
      simp only [Option.some.injEq, Prod.mk.injEq] at hp
      obtain ⟨rfl, rfl⟩ := hp
      have : ys.size = 0 := by simpa using hnone
      intro i hi; omega
    · rename_i top htop
      simp only [Option.some.injEq, Prod.mk.injEq] at hp
      obtain ⟨rfl, rfl⟩ := hp
      have h0 := lt_size_of_getElem?_eq_some htop
      apply tSiftDown_heap
      rw [Array.size_setIfInBounds, key_set ys 0 last h0]
      refine ⟨?_, ?_⟩
      · intro i hi0 hin hne hpar
        simp only [upd, if_neg hne, if_neg hpar]
        have := hh i (by simp; omega) hi0
        rw [Array.getElem_push_lt hin, Array.getElem_push_lt (by omega)] at this
        rw [key_of_lt ys i hin, key_of_lt ys _ (by omega)]
        exact this
      · intro c _ _ _ hc; omega

/-- the root is a minimum -/
theorem tHeap_root_le (h : Array Timer) (top : Timer) (hh : THeap h) (h0 : h[0]? = some top) :
    ∀ x ∈ h.toList, top.time ≤ x.time := by
  have hsz := lt_size_of_getElem?_eq_some h0
  have htop : h[0] = top := by
    rcases Array.getElem?_eq_some_iff.mp h0 with ⟨_, e⟩; exact e
  have key : ∀ i (hi : i < h.size), top.time ≤ h[i].time := by
    intro i
    induction i using Nat.strongRecOn with
    | ind i ih =>
      intro hi
      by_cases hz : i = 0
      · subst hz; rw [htop]; exact Nat.le_refl _
      · have h1 := ih ((i - 1) / 2) (by omega) (by omega)
        have h2 := hh i hi (by omega)
        omega
  intro x hx
  rw [Array.mem_toList_iff] at hx
  obtain ⟨i, hi, rfl⟩ := Array.mem_iff_getElem.mp hx
  exact key i hi

example : THeap (tPush (tPush (tPush #[] ⟨0, .resendSynAck, 5, 1⟩) ⟨1, .closedTimeout, 3, 0⟩)
    ⟨2, .resendDisconnect, 4, 2⟩) := by decide

/-- popping that heap returns the timer with the smallest time and leaves a heap -/
example : (tPop (tPush (tPush (tPush #[] ⟨0, .resendSynAck, 5, 1⟩) ⟨1, .closedTimeout, 3, 0⟩)
    ⟨2, .resendDisconnect, 4, 2⟩)).map (fun r => (r.1.time, decide (THeap r.2))) = some (3, true) := by
  decide

end Uflow.EpNoTrap
