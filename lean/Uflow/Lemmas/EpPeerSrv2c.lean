import Uflow.Lemmas.EpPeerSrv2b

/-!
C09, the peer endpoint's part (server model), per address: a whole `Server.step` with a Disconnect frame
from `a`.
-/

namespace Uflow.Endpoint

open Uflow.Gen Uflow.Codec Uflow.HalfConn

variable {H : Type}

/-- Whole step, seen from address `a` whose entry is `active`; the arrival list is `pre ++ (a, b) :: post`,
`(a, b)` being the first Disconnect frame from `a`. -/
theorem Server.step_disconnect_drains_at (hc : HC H) (s s' : Server H) (hw : s.WF) (he : s.eventsOut = []) (nowNs a : Nat)
    (pre : List (Nat × List Nat)) (b : List Nat) (post sent : List (Nat × List Nat)) (evs : List SEvent)
    (c : RClient H) (hh : H) (t : Nat) (sig : Option DisconnectMode) (hf : s.find a = some c)
    (hst : c.state = .active hh t sig) (hpre : hasDiscAt a pre = false) (hb : decodesTo b .disconnect)
    (h : s.step hc nowNs (pre ++ (a, b) :: post) = .ok (s', sent, evs)) :
    ∃ rngs h1 h2 h3 pkts, flushAll hc hh rngs = .ok h1 ∧ dispatchAll hc h1 (trafficAt a pre) = .ok h2 ∧
      hc.receive h2 = .ok (h3, pkts) ∧
      evsOf a evs = pkts.map (SEvent.receive a) ++ [SEvent.disconnect a] ∧
      s'.WF ∧ s'.eventsOut = [] ∧ s'.phaseOf a = .idle := by
  obtain ⟨s1, o1, s2, o2, s4, s6, o6, p1, p2, p4, p6, rfl, rfl, -⟩ := Server.step_phases hc s s' nowNs _ sent evs h
  obtain ⟨w1, e1, rngs, h1, c1, hfl, f1, st1⟩ := Server.flushActive_at hc s s1 hw o1 a c hh t sig hf hst p1
  rw [Server.handleFrames_eq, List.foldlM_append] at p2
  simp only [bind, Except.bind] at p2
  split at p2
  · cases p2
  next acc hacc =>
  obtain ⟨xa, oa⟩ := acc
  obtain ⟨wa, qa, ca, h2, ta, fa, sa, da⟩ :=
    Server.frames_pre_at hc a sig (s.nowMs nowNs) nowNs pre s1 [] xa oa c1 h1 t w1 f1 st1 hpre hacc
  simp only [List.foldlM_cons, bind, Except.bind] at p2
  split at p2
  · cases p2
  next acc2 hacc2 =>
  obtain ⟨xb, ob⟩ := acc2
  unfold Server.frameStep at hacc2
  unfold decodesTo at hb
  simp only [hb] at hacc2
  split at hacc2
  · cases hacc2
  next xb' out hfb =>
  cases hacc2
  have wb := (Server.handleFrame_STr hc xa xb wa a .disconnect _ nowNs out hfb).choose_spec.1.wf
  have hfd : xa.handleDisconnect hc a (s.nowMs nowNs) = .ok (xb, out) := hfb
  obtain ⟨h3, pkts, hrecv, rfl, eb, -⟩ := Server.handleDisconnect_active hc xa xb a _ out ca h2 ta sig fa sa hfd
  have fb := Server.find_afterDisconnect xa wa ca a (s.nowMs nowNs) pkts fa a
  rw [if_pos rfl] at fb
  obtain ⟨w2, q2, f2⟩ := Server.frames_post_at hc a (s.nowMs nowNs) nowNs post _ _ s2 o2 _ wb fb rfl p2
  have g2 : GoneAt a s2 := by intro c0 hf0; rw [f2] at hf0; cases hf0; rfl
  obtain ⟨w3, g3, q3⟩ := Server.runTimers_gone a (s.nowMs nowNs) (s2.timers.size * 12 + 16) s2 [] w2 g2
  obtain ⟨w4, i4, q4⟩ := Server.activeTimeouts_idle hc a _ s4 w3 g3.idle (s.nowMs nowNs) p4
  have key := fun (det : List (RClient H)) (hdet : det.Sublist s4.detached) => Server.retain_STr s4 w4 det hdet
  obtain ⟨w6, i6, q6⟩ := Server.stepActive_idle hc a _ s6 (key _ List.filter_sublist).wf
    (by rw [Server.phaseOf_congr rfl]; exact i4) _ nowNs o6 p6
  have q6' : QuietAt a s4 s6 := q6
  obtain ⟨ea, hea, qea⟩ := qa
  obtain ⟨er, her, qer⟩ := (q2.trans q3).trans (q4.trans q6')
  refine ⟨rngs, h1, h2, h3, pkts, hfl, da, hrecv, ?_, w6.congr rfl rfl rfl (fun _ h => h), rfl,
    by rw [← i6]; exact Server.phaseOf_congr rfl a⟩
  rw [her, eb, hea, e1, he]
  simp only [List.nil_append, evsOf_append, qea, qer, List.append_nil]
  have hr : evsOf a (pkts.map (SEvent.receive a)) = pkts.map (SEvent.receive a) :=
    evsOf_all (by intro e he; simp only [List.mem_map] at he; obtain ⟨_, _, rfl⟩ := he; rfl)
  have hd : evsOf a [SEvent.disconnect a] = [SEvent.disconnect a] := evsOf_all (by simp [SEvent.addr])
  rw [hr, hd]

end Uflow.Endpoint
