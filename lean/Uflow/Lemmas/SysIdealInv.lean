import Uflow.Lemmas.SysIdealFrag
import Uflow.Lemmas.SysIdealLoop
import Uflow.Lemmas.SysPassInv

/-!
The ideal network (C05Sys), part 4: the invariant `IInv` of ideal runs and its preservation by a
`deliver` step that hands over the next datagram of the network.

`n` datagrams have been handed over, in network order; these are all fragments of the packets at
emission positions `< C` and the first `f` fragments of packet `C`. The receiver has taken the packets
`0, …, log.length - 1` out of its window, in this order; the packets up to `C` (exclusive) have been
received completely, nothing of the packets beyond `C` has been seen, and the assembly entry of packet
`C` holds exactly its first `f` fragments.
-/

namespace Uflow.Sys

open Uflow Uflow.Gen Uflow.Codec Uflow.PSend Uflow.PRecv Uflow.Frag

structure IInv (b0 W : Nat) (s : Sys) (n : Nat) (q : Bool) (C f : Nat) : Prop where
  net : s.net = netOf 0 s.pend
  pos : n = ((s.pend.take C).map cnt).sum + f
  cle : C ≤ s.pend.length
  flt : ∀ p, s.pend[C]? = some p → f < cnt p
  fz : C = s.pend.length → f = 0
  /-- the packets taken out of the receive window are the packets `0, 1, …` in this order -/
  loguid : s.rcv.log.map LogE.uid = List.range s.rcv.log.length
  advK : s.rcv.adv ≤ s.rcv.log.length
  kC : s.rcv.log.length ≤ C
  /-- after a `receive` with no datagram since, every completely received packet has been taken -/
  settled : q = true → s.rcv.log.length = C
  ent : ∀ x, x < 2^20 → pidSub x s.rcv.st.baseId < W → s.rcv.adv + pidSub x s.rcv.st.baseId < C →
    (lget s.rcv.st.slots (wi W x)).entryFlag = true
  fresh : ∀ x, x < 2^20 → pidSub x s.rcv.st.baseId < W → C ≤ s.rcv.adv + pidSub x s.rcv.st.baseId →
    (lget s.rcv.st.slots (wi W x)).entryFlag = false ∧ (lget s.rcv.st.slots (wi W x)).dataFlag = false ∧
    ((C < s.rcv.adv + pidSub x s.rcv.st.baseId ∨ f = 0) → (lget s.rcv.st.slots (wi W x)).asm = .opened)
  part : 0 < f → ∀ p, s.pend[C]? = some p → SlotInv p (wi W (pidAdd b0 C)) (firstFrags p f) s.rcv.st

theorem iinv_init (w W b a m : Nat) : IInv b W (initS w W b a m) 0 true 0 0 where
  net := rfl
  pos := rfl
  cle := Nat.le_refl _
  flt := by intro p h; simp [initS] at h
  fz := fun _ => rfl
  loguid := rfl
  advK := Nat.le_refl _
  kC := Nat.le_refl _
  settled := fun _ => rfl
  ent := by intro x _ _ h; exact absurd h (Nat.not_lt_zero _)
  fresh := by
    intro x _ _ _
    show (lget [] _).entryFlag = false ∧ (lget [] _).dataFlag = false ∧ (_ → (lget [] _).asm = .opened)
    rw [lget_nil]
    exact ⟨rfl, rfl, fun _ => rfl⟩
  part := by intro h; exact absurd h (Nat.lt_irrefl _)

/-- What the system invariant says about the packet at emission position `C`. -/
theorem pend_facts {b0 w W M : Nat} (hw : w ≤ 2^16) {s : Sys} (h : SInv b0 w W M s) (C : Nat) (p : Pending)
    (hp : s.pend[C]? = some p) :
    WF p ∧ p.sequenceId = pidAdd b0 C ∧ p.channelId < CHANNEL_COUNT ∧
    (p.channelParentLead ≠ 0 → p.windowParentLead ≠ 0 ∧ p.windowParentLead ≤ p.channelParentLead) := by
  obtain ⟨hwf, e, he, -, e2, e3, e4, e5, -⟩ := h.snd.plink C p hp
  obtain ⟨-, i2, i3⟩ := h.snd.hinv.ids C e he
  obtain ⟨l1, l2, l3, -, -⟩ := h.snd.hinv.leads C e he
  refine ⟨hwf, by rw [← e3]; exact i2, by rw [← e2]; exact i3, ?_⟩
  rw [← e4, ← e5]
  generalize pidSub e.sequenceId e.baseAt = out at *
  obtain ⟨-, a2, a3, a4⟩ := l1.exact (by omega)
  obtain ⟨b1, b2, -, b4⟩ := l2.exact (by omega)
  intro hne
  obtain ⟨x, hx, hPx, -⟩ := b4 hne
  have hw0 : e.windowParentLead ≠ 0 := by
    intro h0
    exact (a3.mp h0) _ x hx (by omega) (by omega) hPx.1
  refine ⟨hw0, ?_⟩
  obtain ⟨y, -, -, hnone⟩ := a4 hw0
  rcases Nat.lt_or_ge e.channelParentLead e.windowParentLead with hlt | hge
  · exact absurd hPx.1 (hnone _ x hx (by omega) (by omega))
  · exact hge

/-- Two ids of the window with the same slot have the same offset. -/
theorem off_eq_of_wi' {W : Nat} (hW : WOk W) {x y b : Nat} (hb : b < 2^20) (hx : pidSub x b < W)
    (hy : pidSub y b < W) (h : wi W x = wi W y) : pidSub x b = pidSub y b :=
  off_eq_of_wi hW x y b hb (by omega) (by omega) h

theorem iinv_deliver {b0 w W M A : Nat} (hW : WOk W) (hw : w ≤ 2^16) (hwW : w ≤ W) (hAM : A ≤ M) {s s' : Sys}
    (h : SInv b0 w W M s) (a : AInv W A s) {n : Nat} {q : Bool} {C f : Nat} (I : IInv b0 W s n q C f)
    (hn : n < s.net.length) (hs : stepS s (.deliver n) = .ok s') :
    ∃ C' f', IInv b0 W s' (n + 1) false C' f' := by
  have hinv := h.rcv.inv
  have hblt := hinv.blt
  have hWle := hW.le
  -- the datagram
  have hwfall : ∀ q ∈ s.pend, WF q := by
    intro q hq
    obtain ⟨i, hi⟩ := List.getElem?_of_mem hq
    exact (h.snd.plink i q hi).1
  have hClt : C < s.pend.length := by
    rcases Nat.lt_or_ge C s.pend.length with hlt | hge
    · exact hlt
    · exfalso
      have hC : C = s.pend.length := by have := I.cle; omega
      have hf0 := I.fz hC
      have hlen := netOf_length s.pend hwfall 0
      rw [← I.net] at hlen
      have hp := I.pos
      rw [hC, List.take_length, hf0] at hp
      omega
  obtain ⟨p, hp⟩ : ∃ p, s.pend[C]? = some p := ⟨s.pend[C], List.getElem?_eq_getElem hClt⟩
  have hf := I.flt p hp
  obtain ⟨hwf, hseq, hchan, hleads⟩ := pend_facts hw h C p hp
  have hget : s.net[n]? = some (C, mkDg p f) := by
    have := netOf_get s.pend hwfall 0 C f p hp hf
    rw [← I.net, ← I.pos, Nat.zero_add] at this
    exact this
  -- positions
  obtain ⟨hw1, hw2, -, hw4, -⟩ := hinv_win h.snd.hinv (show w < 2^20 by omega)
  have hCadv : s.rcv.adv ≤ C := Nat.le_trans I.advK I.kC
  have hCw : C < s.rcv.adv + W := by
    have := h.lo
    have := h.snd.plen
    omega
  have hx0 : pidAdd b0 C < 2^20 := PRecv.pidAdd_lt _ _
  have hoff : pidSub (pidAdd b0 C) s.rcv.st.baseId = C - s.rcv.adv := by
    rw [h.rcv.gi.gbase]
    exact off_arith b0 s.rcv.adv C hCadv (by omega)
  have hoffW : pidSub (pidAdd b0 C) s.rcv.st.baseId < W := by rw [hoff]; omega
  have hfr0 := I.fresh (pidAdd b0 C) hx0 hoffW (by rw [hoff]; omega)
  -- the step
  simp only [stepS] at hs
  rw [hget] at hs
  simp only at hs
  have hfresh : Fresh s C := by
    unfold Fresh
    rw [hinv.wsz]
    omega
  rw [if_pos hfresh, stepT_dg] at hs
  cases hd : handleDatagram s.rcv.st (mkDg p f) with
  | error t => rw [hd] at hs; cases hs
  | ok st' =>
    rw [hd, bindR_ok, bindR_ok] at hs
    cases hs
    have hdseq : (mkDg p f).sequenceId = pidAdd b0 C := hseq
    rw [handleDatagram_eq, if_neg (by simp [valid_mkDg p hwf f hf hchan hleads])] at hd
    obtain ⟨ch0, hch0⟩ := hinv.chan_get (mkDg p f).channelId hchan
    rw [chanBase_of_get hch0] at hd
    simp only at hd
    rw [hdseq, hinv.wsz, if_neg (by omega)] at hd
    -- the channel base is not beyond the packet
    have hcb : pidSub ((cbase s.rcv.st (mkDg p f).channelId).getD s.rcv.st.baseId) s.rcv.st.baseId ≤
        C - s.rcv.adv := by
      cases hcbv : cbase s.rcv.st (mkDg p f).channelId with
      | none => simp only [Option.getD_none]; rw [pidSub_self]; exact Nat.zero_le _
      | some b =>
        simp only [Option.getD_some]
        obtain ⟨e, he, -, hu⟩ := h.rcv.gi.gcb _ b hcbv
        have : e.uid ∈ s.rcv.log.map LogE.uid := List.mem_map.mpr ⟨e, he, rfl⟩
        rw [I.loguid, List.mem_range] at this
        have := I.kC
        omega
    rw [hoff, if_neg (by omega), widx_eq hinv] at hd
    -- `try_add`
    have hroom : f = 0 → (getSlot s.rcv.st (wi W (pidAdd b0 C))).asm = .opened ∧
        s.rcv.st.alloc + packetAllocSize (mkDg p 0) ≤ s.rcv.st.maxAlloc := by
      intro hf0
      have hop := hfr0.2.2 (Or.inr hf0)
      refine ⟨by rw [getSlot_eq]; exact hop, ?_⟩
      rw [wi_eq_off hW _ s.rcv.st.baseId hblt] at hop
      have := alloc_room hW h a hAM _ hoffW hop
      rw [hoff, show s.rcv.adv + (C - s.rcv.adv) = C by omega] at this
      have hb : bnd s.pend C = packetAllocSize (mkDg p 0) := by
        unfold bnd
        rw [hp]
        exact (packetAllocSize_genuine p hwf _ (genuine_mkDg p hwf 0 (by omega))).symm
      rw [hb] at this
      exact this
    obtain ⟨s1, o, ht, hcase⟩ := tryAdd_ideal p hwf s.rcv.st (wi W (pidAdd b0 C)) f hf hroom
      (fun hpos => I.part hpos p hp)
    rw [ht] at hd
    have hfr := tryAdd_frame _ _ _ s1 o ht
    obtain ⟨A0, hA0⟩ := hfr.same
    have hflags1 : ∀ k, (lget s1.slots k).entryFlag = (lget s.rcv.st.slots k).entryFlag ∧
        (lget s1.slots k).dataFlag = (lget s.rcv.st.slots k).dataFlag := by
      intro k
      by_cases hk : k = wi W (pidAdd b0 C)
      · subst hk; rw [hA0]; exact ⟨rfl, rfl⟩
      · rw [hfr.other k hk]; exact ⟨rfl, rfl⟩
    -- ids of the window sharing the slot of the datagram are the datagram's id
    have hsame : ∀ x, x < 2^20 → pidSub x s.rcv.st.baseId < W → wi W x = wi W (pidAdd b0 C) →
        s.rcv.adv + pidSub x s.rcv.st.baseId = C := by
      intro x hx hxo hwi
      rw [off_eq_of_wi' hW hblt hxo hoffW hwi, hoff]
      omega
    rcases hcase with ⟨hlast, pk, rfl⟩ | ⟨hmore, rfl, hslot⟩
    · -- the packet is complete
      simp only at hd
      cases hd
      obtain ⟨hb2, -, -, hs2⟩ := hdPost_facts s1 (wi W (pidAdd b0 C)) (mkDg p f) pk
        ((cbase s.rcv.st (mkDg p f).channelId).getD s.rcv.st.baseId) s.rcv.st.baseId
      rw [hfr.base] at hb2
      generalize hdPost s1 (wi W (pidAdd b0 C)) (mkDg p f) pk
        ((cbase s.rcv.st (mkDg p f).channelId).getD s.rcv.st.baseId) s.rcv.st.baseId = s2 at *
      refine ⟨C + 1, 0, ?_⟩
      refine ⟨I.net, ?_, by show C + 1 ≤ s.pend.length; omega, ?_, fun _ => rfl, I.loguid, I.advK,
        by have := I.kC; show s.rcv.log.length ≤ C + 1; omega, fun hq => (by cases hq), ?_, ?_, ?_⟩
      · show n + 1 = ((s.pend.take (C + 1)).map cnt).sum + 0
        rw [sum_take_succ s.pend C p hp]
        have := I.pos
        omega
      · intro p' _
        unfold cnt; omega
      · intro x hx hxo hu
        have hxo' : pidSub x s2.baseId < W := hxo
        have hu' : s.rcv.adv + pidSub x s2.baseId < C + 1 := hu
        show (lget s2.slots (wi W x)).entryFlag = true
        rw [hb2] at hxo' hu'
        rw [hs2, lget_lset]
        by_cases hwi : wi W x = wi W (pidAdd b0 C)
        · rw [if_pos hwi]
        · rw [if_neg hwi, (hflags1 _).1]
          refine I.ent x hx hxo' ?_
          rcases Nat.lt_or_ge (s.rcv.adv + pidSub x s.rcv.st.baseId) C with hlt | hge
          · exact hlt
          · exfalso
            have : pidSub x s.rcv.st.baseId = pidSub (pidAdd b0 C) s.rcv.st.baseId := by rw [hoff]; omega
            rw [id_eq_of_off x _ _ hx hx0 this] at hwi
            exact hwi rfl
      · intro x hx hxo hu
        have hxo' : pidSub x s2.baseId < W := hxo
        have hu' : C + 1 ≤ s.rcv.adv + pidSub x s2.baseId := hu
        show (lget s2.slots (wi W x)).entryFlag = false ∧ (lget s2.slots (wi W x)).dataFlag = false ∧
          ((C + 1 < s.rcv.adv + pidSub x s2.baseId ∨ 0 = 0) → (lget s2.slots (wi W x)).asm = .opened)
        rw [hb2] at hxo' hu' ⊢
        have hwi : wi W x ≠ wi W (pidAdd b0 C) := by
          intro hwi
          have := hsame x hx hxo' hwi
          omega
        rw [hs2, lget_lset, if_neg hwi, hfr.other _ hwi]
        obtain ⟨f1, f2, f3⟩ := I.fresh x hx hxo' (by omega)
        exact ⟨f1, f2, fun _ => f3 (Or.inl (by omega))⟩
      · intro h0; exact absurd h0 (Nat.lt_irrefl _)
    · -- more fragments to come
      simp only at hd
      cases hd
      refine ⟨C, f + 1, ?_⟩
      refine ⟨I.net, (by have := I.pos; show n + 1 = ((s.pend.take C).map cnt).sum + (f + 1); omega), I.cle, ?_, ?_, I.loguid, I.advK,
        I.kC, fun hq => (by cases hq), ?_, ?_, ?_⟩
      · intro p' hp'
        have hp'' : s.pend[C]? = some p' := hp'
        rw [hp] at hp''; cases hp''
        exact hmore
      · intro hC
        have : C = s.pend.length := hC
        omega
      · intro x hx hxo hu
        have hxo' : pidSub x st'.baseId < W := hxo
        have hu' : s.rcv.adv + pidSub x st'.baseId < C := hu
        show (lget st'.slots (wi W x)).entryFlag = true
        rw [hfr.base] at hxo' hu'
        rw [(hflags1 _).1]
        exact I.ent x hx hxo' hu'
      · intro x hx hxo hu
        have hxo' : pidSub x st'.baseId < W := hxo
        have hu' : C ≤ s.rcv.adv + pidSub x st'.baseId := hu
        show (lget st'.slots (wi W x)).entryFlag = false ∧ (lget st'.slots (wi W x)).dataFlag = false ∧
          ((C < s.rcv.adv + pidSub x st'.baseId ∨ f + 1 = 0) → (lget st'.slots (wi W x)).asm = .opened)
        rw [hfr.base] at hxo' hu' ⊢
        obtain ⟨f1, f2, f3⟩ := I.fresh x hx hxo' hu'
        refine ⟨by rw [(hflags1 _).1]; exact f1, by rw [(hflags1 _).2]; exact f2, ?_⟩
        intro hc
        have hlt : C < s.rcv.adv + pidSub x s.rcv.st.baseId := by omega
        have hwi : wi W x ≠ wi W (pidAdd b0 C) := by
          intro hwi
          have := hsame x hx hxo' hwi
          omega
        rw [hfr.other _ hwi]
        exact f3 (Or.inl hlt)
      · intro _ p' hp'
        have hp'' : s.pend[C]? = some p' := hp'
        rw [hp] at hp''; cases hp''
        exact hslot

end Uflow.Sys
