import Uflow.Lemmas.HcSysDefs
import Uflow.Lemmas.PSendHist
import Uflow.Lemmas.PSendAck
import Uflow.Lemmas.Codec
import Uflow.Lemmas.Frag

/-!
C01Hc, part 2: the packet sender inside a half connection.

* `erase`: forgets the fragment acknowledgement flags (`acked`) of the packets in the send window —
  the only part of `PSend.State` that `Sys` does not model (`acknowledge_fragment` is not a `Sys`
  step). `enqueue`, `emit`, `acknowledge` commute with `erase`; `ackFragment` is invisible after it.
* `AInv pend ps`: the send window of `ps` consists of packets of the emission history `pend` (up to
  `acked`), and every packet of `pend` is well formed (`PendOk`), so that all its fragment datagrams
  are representable on the wire (`Codec.DatagramOk`).
* `Emits f ps ps' l`: `ps'` is reached from `ps` by consecutive calls `PSend.emit · f`, which returned
  the packets `l`.
-/

namespace Uflow.HcSys

open Uflow Uflow.Gen Uflow.Codec Uflow.PSend

/-! ### `erase` -/

def eraseW (w : WEntry) : WEntry := { w with packet := { w.packet with acked := [] } }

def erase (s : PSend.State) : PSend.State := { s with win := s.win.map eraseW }

theorem erase_enqueue (s : PSend.State) (d : List Nat) (c : Nat) (m : SendMode) (f : Nat) :
    erase (enqueue s d c m f) = enqueue (erase s) d c m f := rfl

theorem eraseW_ack (e : WEntry) (uid fid : Nat) :
    eraseW (if e.packet.uid = uid ∧ ¬ (fid ∈ e.packet.acked)
      then { e with packet := { e.packet with acked := fid :: e.packet.acked } } else e) = eraseW e := by
  split <;> rfl

theorem erase_ackFragment (s : PSend.State) (uid fid : Nat) : erase (ackFragment s uid fid) = erase s := by
  simp only [erase, ackFragment, List.map_map]
  congr 1
  apply List.map_congr_left
  intro e _
  exact eraseW_ack e uid fid

theorem emit_erase (s : PSend.State) (f : Nat) :
    emit (erase s) f = (emit s f).map fun x => (erase x.1, x.2) := by
  unfold emit erase
  simp only []
  cases dropStale f s.queue s.totalSize with
  | error t => rfl
  | ok v =>
    obtain ⟨queue, total⟩ := v
    cases queue with
    | nil => rfl
    | cons q rest =>
      simp only []
      by_cases h1 : pidSub s.nextId s.baseId ≥ s.windowSize
      · rw [if_pos h1, if_pos h1]; rfl
      · rw [if_neg h1, if_neg h1]
        by_cases h2 : s.alloc + allocSize q.data.length > s.maxAlloc
        · rw [if_pos h2, if_pos h2]; rfl
        · rw [if_neg h2, if_neg h2]
          cases s.chanParent[q.channelId]? with
          | none => rfl
          | some cp =>
            simp only [Except.map, List.map_append, List.map_cons, List.map_nil, eraseW]

theorem ackLoop_erase (fuel : Nat) (s : PSend.State) (rb : Nat) :
    ackLoop fuel (erase s) rb = (ackLoop fuel s rb).map erase := by
  induction fuel generalizing s with
  | zero => rfl
  | succ n ih =>
    rw [ackLoop, ackLoop]
    by_cases hb : s.baseId = rb
    · have hb' : (erase s).baseId = rb := hb
      rw [if_pos hb, if_pos hb']; rfl
    · have hb' : ¬ (erase s).baseId = rb := hb
      rw [if_neg hb, if_neg hb']
      show (match s.win.map eraseW with
        | [] => _
        | e :: rest => _) = _
      cases hw : s.win with
      | nil => rfl
      | cons e rest =>
        simp only [List.map_cons]
        show (match s.chanParent[e.channelId]? with
          | none => _
          | some cp => _) = _
        cases s.chanParent[e.channelId]? with
        | none => rfl
        | some cp =>
          simp only []
          by_cases h1 : s.alloc < e.allocSize
          · have h1' : (erase s).alloc < (eraseW e).allocSize := h1
            rw [if_pos h1, if_pos h1']; rfl
          · have h1' : ¬ (erase s).alloc < (eraseW e).allocSize := h1
            rw [if_neg h1, if_neg h1']
            by_cases h2 : s.totalSize < e.packet.data.length
            · have h2' : (erase s).totalSize < (eraseW e).packet.data.length := h2
              rw [if_pos h2, if_pos h2']; rfl
            · have h2' : ¬ (erase s).totalSize < (eraseW e).packet.data.length := h2
              rw [if_neg h2, if_neg h2']
              exact ih { s with
                windowParentId := if s.windowParentId = some s.baseId then none else s.windowParentId,
                chanParent := if cp = some s.baseId then s.chanParent.set e.channelId none else s.chanParent,
                alloc := s.alloc - e.allocSize,
                totalSize := s.totalSize - e.packet.data.length,
                win := rest,
                baseId := pidAdd s.baseId 1 }

theorem acknowledge_erase (s : PSend.State) (rb : Nat) :
    acknowledge (erase s) rb = (acknowledge s rb).map erase := by
  unfold acknowledge
  by_cases h1 : rb % 2^32 % PACKET_ID_SPAN ≠ rb
  · rw [if_pos h1, if_pos h1]; rfl
  · rw [if_neg h1, if_neg h1]
    simp only []
    by_cases h2 : pidSub rb s.baseId > pidSub s.nextId s.baseId
    · have h2' : pidSub rb (erase s).baseId > pidSub (erase s).nextId (erase s).baseId := h2
      rw [if_pos h2, if_pos h2']; rfl
    · have h2' : ¬ pidSub rb (erase s).baseId > pidSub (erase s).nextId (erase s).baseId := h2
      rw [if_neg h2, if_neg h2']
      have : (erase s).win.length = s.win.length := by simp [erase]
      rw [this]
      exact ackLoop_erase _ s rb

/-! ### well-formed emitted packets -/

/-- The packet at emission position `i`. -/
structure PendOk (i : Nat) (p : Pending) : Prop where
  uid : p.uid = i
  chan : p.channelId < 64
  seq : p.sequenceId < 2^20
  wpl : p.windowParentLead < 2^16
  cpl : p.channelParentLead < 2^16
  len : p.data.length ≤ MAX_PACKET_SIZE
  last : p.lastFragmentId = numFragments p.data.length - 1
  acked : p.acked = []

/-- The datagram does not depend on the acknowledgement flags. -/
theorem datagram_acked (p : Pending) (l : List Nat) (fid : Nat) :
    ({ p with acked := l } : Pending).datagram fid = p.datagram fid := rfl

/-- Every fragment datagram of a well-formed packet exists only for `fid ≤ last`, is representable
on the wire and carries at most one fragment of payload. -/
theorem pendOk_datagram {i : Nat} {p : Pending} (hp : PendOk i p) (fid : Nat) (d : Datagram)
    (h : p.datagram fid = .ok d) : fid ≤ p.lastFragmentId ∧ DatagramOk d ∧ d.data.length ≤ 1448 := by
  have hn := Frag.numFragments_le _ hp.len
  have hpos := Frag.numFragments_pos p.data.length
  have hb := Frag.last_bounds p.data.length
  have hl := hp.last
  simp only [Pending.datagram, MAX_FRAGMENT_SIZE] at h
  split at h
  · rename_i hf
    split at h
    · cases h
    · cases h
      refine ⟨by omega, ⟨hp.chan, hp.seq, hp.wpl, hp.cpl, by simp only []; omega, by simp only []; omega,
        fun h0 => by simp only [] at h0 ⊢; omega, ?_⟩, ?_⟩
      · simp only [List.length_drop]; omega
      · simp only [List.length_drop]; omega
  · rename_i hf
    split at h
    · cases h
    · rename_i hlen
      cases h
      have hlt : fid < numFragments p.data.length - 1 := by
        rcases Nat.lt_or_ge fid (numFragments p.data.length - 1) with h1 | h1
        · exact h1
        · exfalso
          have h2 : numFragments p.data.length ≤ fid := by omega
          have := Nat.mul_le_mul_right 1448 h2
          omega
      refine ⟨by omega, ⟨hp.chan, hp.seq, hp.wpl, hp.cpl, by simp only []; omega, by simp only []; omega,
        fun h0 => by simp only [] at h0 ⊢; omega, ?_⟩, ?_⟩
      · simp only [List.length_take, List.length_drop]; omega
      · simp only [List.length_take, List.length_drop]; omega

/-! ### the sender invariant relative to the emission history -/

structure AInv (pend : List Pending) (ps : PSend.State) : Prop where
  nuid : ps.nextUid = pend.length
  nid : ps.nextId < 2^20
  chans : ps.chanParent.length = 64
  q : ∀ q ∈ ps.queue, q.data.length ≤ MAX_PACKET_SIZE
  win : ∀ w ∈ ps.win, pend[w.packet.uid]? = some { w.packet with acked := [] }
  pok : ∀ i p, pend[i]? = some p → PendOk i p

theorem ainv_init (w b a : Nat) (hb : b < 2^20) : AInv [] (PSend.init w b a) where
  nuid := rfl
  nid := hb
  chans := by simp [PSend.init, CHANNEL_COUNT]
  q := by intro q hq; simp [PSend.init] at hq
  win := by intro x hx; simp [PSend.init] at hx
  pok := by intro i p h; simp at h

theorem ainv_enqueue {pend : List Pending} {ps : PSend.State} (h : AInv pend ps) (d : List Nat)
    (c : Nat) (m : SendMode) (f : Nat) (hd : d.length ≤ MAX_PACKET_SIZE) :
    AInv pend (enqueue ps d c m f) where
  nuid := h.nuid
  nid := h.nid
  chans := h.chans
  q := by
    intro q hq
    simp only [enqueue, List.mem_append, List.mem_singleton] at hq
    rcases hq with hq | rfl
    · exact h.q q hq
    · exact hd
  win := h.win
  pok := h.pok

theorem ainv_ackFragment {pend : List Pending} {ps : PSend.State} (h : AInv pend ps) (uid fid : Nat) :
    AInv pend (ackFragment ps uid fid) where
  nuid := h.nuid
  nid := h.nid
  chans := h.chans
  q := h.q
  win := by
    intro w hw
    simp only [ackFragment, List.mem_map] at hw
    obtain ⟨w0, hw0, rfl⟩ := hw
    have := h.win w0 hw0
    split
    · exact this
    · exact this
  pok := h.pok

theorem ackLoop_keep (fuel : Nat) (s s' : PSend.State) (rb : Nat) (h : ackLoop fuel s rb = .ok s') :
    s'.nextId = s.nextId ∧ s'.chanParent.length = s.chanParent.length ∧ s'.windowSize = s.windowSize := by
  induction fuel generalizing s with
  | zero => simp [ackLoop] at h
  | succ n ih =>
    unfold ackLoop at h
    split at h
    · cases h; exact ⟨rfl, rfl, rfl⟩
    · split at h
      · cases h
      · split at h
        · cases h
        · split at h
          · cases h
          · split at h
            · cases h
            · obtain ⟨h1, h2, h3⟩ := ih _ h
              refine ⟨h1, ?_, h3⟩
              rw [h2]
              simp only []
              split
              · rw [List.length_set]
              · rfl

theorem acknowledge_keep (s s' : PSend.State) (rb : Nat) (h : acknowledge s rb = .ok s') :
    s'.nextId = s.nextId ∧ s'.chanParent.length = s.chanParent.length ∧ s'.windowSize = s.windowSize := by
  unfold acknowledge at h
  simp only at h
  split at h
  · cases h; exact ⟨rfl, rfl, rfl⟩
  · split at h
    · cases h; exact ⟨rfl, rfl, rfl⟩
    · exact ackLoop_keep _ _ _ _ h

theorem ainv_acknowledge {pend : List Pending} {ps ps' : PSend.State} (h : AInv pend ps) (rb : Nat)
    (ha : acknowledge ps rb = .ok ps') : AInv pend ps' := by
  obtain ⟨⟨d, hw⟩, hn, hq⟩ := acknowledge_suffix ps ps' rb ha
  obtain ⟨k1, k2, _⟩ := acknowledge_keep ps ps' rb ha
  exact {
    nuid := by rw [hn]; exact h.nuid
    nid := by rw [k1]; exact h.nid
    chans := by rw [k2]; exact h.chans
    q := by rw [hq]; exact h.q
    win := fun w hw' => h.win w (by rw [hw]; exact List.mem_append_right _ hw')
    pok := h.pok }

theorem getElem?_append_singleton_cases {α : Type} (l : List α) (x : α) (i : Nat) (y : α)
    (h : (l ++ [x])[i]? = some y) : l[i]? = some y ∨ (i = l.length ∧ y = x) := by
  rcases Nat.lt_or_ge i l.length with hi | hi
  · rw [List.getElem?_append_left hi] at h; exact .inl h
  · rw [List.getElem?_append_right hi] at h
    rcases Nat.eq_zero_or_pos (i - l.length) with h0 | h0
    · rw [h0] at h
      simp only [List.getElem?_cons_zero, Option.some.injEq] at h
      exact .inr ⟨by omega, h.symm⟩
    · have : (i - l.length) = (i - l.length - 1) + 1 := by omega
      rw [this] at h
      simp at h

/-- `PSend.emit` in a state satisfying `AInv`: the history grows by the returned packet. -/
theorem ainv_emit {pend : List Pending} {ps ps' : PSend.State} (h : AInv pend ps) (f : Nat)
    (r : Option (Pending × Bool)) (he : emit ps f = .ok (ps', r)) :
    AInv (pend ++ (r.map Prod.fst).toList) ps' ∧
      ∃ ws, ps'.win = ps.win ++ ws ∧ ws.map (·.packet) = (r.map Prod.fst).toList := by
  obtain ⟨dropped, queue, total, hq, _, hcase⟩ := emit_spec ps ps' f r he
  obtain ⟨_, _, _, _, _, _, hcase2⟩ := emit_cases ps ps' f r he
  have hsub : ∀ x ∈ queue, x.data.length ≤ MAX_PACKET_SIZE := fun x hx =>
    h.q x (by rw [hq]; exact List.mem_append_right _ hx)
  rcases hcase with ⟨rfl, rfl⟩ | ⟨q, rest, p, resend, cp, hqq, rfl, _, _, _, hcp, hu, hd, hc, hs, hwpl, hcpl, _, _, rfl⟩
  · simp only [Option.map_none, Option.toList_none, List.append_nil]
    exact ⟨⟨h.nuid, h.nid, h.chans, hsub, h.win, h.pok⟩, [], by simp, rfl⟩
  · rcases hcase2 with ⟨hc2, _⟩ | ⟨q2, _, p2, _, _, _, hr2, _, _, hd2, _, hack2, hlast2, _⟩
    · cases hc2
    · simp only [Option.some.injEq, Prod.mk.injEq] at hr2
      obtain ⟨rfl, _⟩ := hr2
      have hlen : p.data.length ≤ MAX_PACKET_SIZE := by
        rw [hd]; exact hsub q (by rw [hqq]; simp)
      have hlast : p.lastFragmentId = numFragments p.data.length - 1 := by
        rw [hlast2, ← hd2]
        have := Frag.numFragments_le _ hlen
        omega
      have hchan : q.channelId < 64 := by
        have := (List.getElem?_eq_some_iff.mp hcp).1
        rw [h.chans] at this; exact this
      have hpok : PendOk pend.length p :=
        { uid := by rw [hu, h.nuid]
          chan := by rw [hc]; exact hchan
          seq := by rw [hs]; exact h.nid
          wpl := by
            rw [hwpl]; cases ps.windowParentId with
            | none => simp [leadOf]
            | some x => simp only [leadOf]; omega
          cpl := by
            rw [hcpl]; cases cp with
            | none => simp [leadOf]
            | some x => simp only [leadOf]; omega
          len := hlen
          last := hlast
          acked := hack2 }
      have hpeq : ({ p with acked := [] } : Pending) = p := by
        cases p; simp only [Pending.mk.injEq, and_true, true_and] at hack2 ⊢; exact hack2.symm
      simp only [Option.map_some, Option.toList_some]
      refine ⟨?_, [_], rfl, rfl⟩
      exact {
        nuid := by simp only [emitState, List.length_append, List.length_cons, List.length_nil]; rw [h.nuid]
        nid := by
          simp only [emitState, pidAdd, PACKET_ID_SPAN]; omega
        chans := by
          simp only [emitState]
          split
          · rw [List.length_set]; exact h.chans
          · exact h.chans
        q := fun x hx => hsub x (by rw [hqq]; exact List.mem_cons_of_mem _ hx)
        win := by
          intro w hw
          simp only [emitState, List.mem_append, List.mem_singleton] at hw
          rcases hw with hw | rfl
          · have := h.win w hw
            have hlt : w.packet.uid < pend.length := (List.getElem?_eq_some_iff.mp this).1
            rw [List.getElem?_append_left hlt]; exact this
          · simp only []
            rw [hpeq, hu, h.nuid, List.getElem?_append_right (Nat.le_refl _)]
            simp
        pok := by
          intro i x hx
          rcases getElem?_append_singleton_cases pend p i x hx with h1 | ⟨rfl, rfl⟩
          · exact h.pok i x h1
          · exact hpok }

/-! ### chains of `emit` calls -/

/-- `ps'` is reached from `ps` by consecutive calls of `PSend.emit · f`; `l` lists the packets they
returned, in call order. -/
inductive Emits (f : Nat) : PSend.State → PSend.State → List Pending → Prop
  | nil (ps : PSend.State) : Emits f ps ps []
  | cons {ps ps1 ps2 : PSend.State} {r : Option (Pending × Bool)} {l : List Pending} :
      emit ps f = .ok (ps1, r) → Emits f ps1 ps2 l → Emits f ps ps2 ((r.map Prod.fst).toList ++ l)

theorem Emits.trans {f : Nat} {a b c : PSend.State} {l1 l2 : List Pending} (h1 : Emits f a b l1)
    (h2 : Emits f b c l2) : Emits f a c (l1 ++ l2) := by
  induction h1 with
  | nil => exact h2
  | cons he _ ih => rw [List.append_assoc]; exact .cons he (ih h2)

theorem Emits.single {f : Nat} {ps ps1 : PSend.State} {r : Option (Pending × Bool)}
    (he : emit ps f = .ok (ps1, r)) : Emits f ps ps1 (r.map Prod.fst).toList := by
  have := Emits.cons he (.nil ps1)
  rwa [List.append_nil] at this

theorem Emits.win_prefix {f : Nat} {ps ps' : PSend.State} {l : List Pending} (h : Emits f ps ps' l) :
    ∃ ws, ps'.win = ps.win ++ ws := by
  induction h with
  | nil => exact ⟨[], by simp⟩
  | cons he _ ih =>
    obtain ⟨_, _, _, _, _, _, hc⟩ := emit_cases _ _ _ _ he
    obtain ⟨w2, hw2⟩ := ih
    rcases hc with ⟨_, rfl⟩ | ⟨_, _, _, _, w, _, _, _, _, _, _, _, _, _, _, _, _, hwin, _⟩
    · exact ⟨w2, hw2⟩
    · exact ⟨[w] ++ w2, by rw [hw2, hwin, List.append_assoc]⟩

/-- The packets returned by a chain of `emit` calls are exactly the packets appended to the window. -/
theorem Emits.newPackets {f : Nat} {ps ps' : PSend.State} {l : List Pending} (h : Emits f ps ps' l)
    {pend : List Pending} (hi : AInv pend ps) : AInv (pend ++ l) ps' ∧ newPackets ps ps' = l := by
  induction h generalizing pend with
  | nil ps => simp [HcSys.newPackets, hi]
  | cons he hch ih =>
    rename_i ps0 ps1 ps2 r l
    obtain ⟨h1, ws, hws, hmap⟩ := ainv_emit hi f r he
    obtain ⟨h2, hnp⟩ := ih h1
    rw [List.append_assoc] at h2
    refine ⟨h2, ?_⟩
    unfold HcSys.newPackets at hnp ⊢
    obtain ⟨ws2, hws2⟩ := hch.win_prefix
    have hd : ps2.win.drop ps0.win.length = ws ++ ps2.win.drop ps1.win.length := by
      rw [hws2, hws]
      simp [List.drop_append]
    rw [hd, List.map_append, hmap, hnp]

/-! ### the ghost replay of the `emit` calls of a flush -/

theorem dropStale_idem (f : Nat) (q q' : List QEntry) (t t' : Nat)
    (h : dropStale f q t = .ok (q', t')) : dropStale f q' t' = .ok (q', t') := by
  obtain ⟨_, _, _, h3, _⟩ := dropStale_prefix f q q' t t' h
  cases q' with
  | nil => rfl
  | cons x rest =>
    have hx : ¬ Stale f x := h3 x rest rfl
    unfold dropStale
    rw [if_neg (show ¬ (x.mode = .timeSensitive ∧ x.flushId ≠ f) from hx)]

/-- Once `emit_packet` returns nothing it keeps returning nothing (the queue head is not stale any
more, and the window / allocation test fails again). -/
theorem emit_none_again (s s' : PSend.State) (f : Nat) (h : emit s f = .ok (s', none)) :
    emit s' f = .ok (s', none) := by
  unfold emit at h
  split at h
  · cases h
  · rename_i queue total hds
    have hid := dropStale_idem f _ _ _ _ hds
    simp only at h
    split at h
    · simp only [Except.ok.injEq, Prod.mk.injEq, and_true] at h
      subst h
      unfold emit
      simp only [hid]
    · rename_i q rest
      split at h
      · rename_i hwin
        simp only [Except.ok.injEq, Prod.mk.injEq, and_true] at h
        subst h
        unfold emit
        simp only [hid]
        rw [if_pos hwin]
      · rename_i hwin
        split at h
        · rename_i hal
          simp only [Except.ok.injEq, Prod.mk.injEq, and_true] at h
          subst h
          unfold emit
          simp only [hid]
          rw [if_neg hwin, if_pos hal]
        · split at h
          · cases h
          · simp only [Except.ok.injEq, Prod.mk.injEq, reduceCtorEq, and_false] at h

/-- After an `emit` that returned nothing, a chain of `emit` calls returns nothing and stays put. -/
theorem Emits.of_none {f : Nat} {ps1 ps2 : PSend.State} {l : List Pending} (h : Emits f ps1 ps2 l)
    (hn : emit ps1 f = .ok (ps1, none)) : l = [] ∧ ps2 = ps1 := by
  induction h with
  | nil => exact ⟨rfl, rfl⟩
  | cons he _ ih =>
    rw [hn] at he
    simp only [Except.ok.injEq, Prod.mk.injEq] at he
    obtain ⟨rfl, rfl⟩ := he
    obtain ⟨rfl, rfl⟩ := ih hn
    exact ⟨rfl, rfl⟩

/-- **The ghost replay is the chain.** For a chain of `emit` calls returning the packets `l`,
`replayEmit l.length` started in the same state lists the history records `PSend.mkEmitted` of exactly
these calls: the same packets, in the same order, with the send mode of the queue entry each came
from. -/
theorem replay_emits {f : Nat} {ps ps' : PSend.State} {l : List Pending} (h : Emits f ps ps' l) :
    (replayEmit l.length ps f).map (·.uid) = l.map (·.uid) ∧
    (replayEmit l.length ps f).length = l.length := by
  induction h with
  | nil => exact ⟨rfl, rfl⟩
  | cons he hch ih =>
    rename_i ps0 ps1 ps2 r l
    cases r with
    | none =>
      obtain ⟨rfl, _⟩ := hch.of_none (emit_none_again _ _ _ he)
      exact ⟨rfl, rfl⟩
    | some v =>
      obtain ⟨p, b⟩ := v
      simp only [Option.map_some, Option.toList_some, List.cons_append, List.nil_append,
        List.length_cons, replayEmit, he, List.map_cons]
      exact ⟨by rw [ih.1]; rfl, by rw [ih.2]⟩

end Uflow.HcSys
