import Uflow.Lemmas.HcFrameAck
import Uflow.Lemmas.FrameQAckGroup

/-!
Helper lemmas for C11, part 3: what `handleAckFrame` does to the two sender windows
(`FrameQ.advanceTransferWindow`, `PSend.acknowledge`).
-/

namespace Uflow.SyncCycle

open Uflow Uflow.Gen Uflow.Codec Uflow.HalfConn Uflow.HcFrame

variable {F : Type}

/-! ### frame window -/

/-- `can_advance_transfer_window`: `nb` is ahead of the window base by at least one and at most the
number of frames in flight. -/
def FrameAdv (q : FrameQ.State) (nb : Nat) : Prop :=
  wsub32 nb q.winBase ≠ 0 ∧ wsub32 nb q.winBase ≤ wsub32 q.logNext q.winBase

instance (q : FrameQ.State) (nb : Nat) : Decidable (FrameAdv q nb) := by
  unfold FrameAdv; infer_instance

theorem canAdvance_iff (q : FrameQ.State) (nb : Nat) :
    FrameQ.canAdvanceTransferWindow q nb = true ↔ FrameAdv q nb := by
  simp [FrameQ.canAdvanceTransferWindow, FrameAdv]

/-- The window fields of the frame queue are the same. -/
structure WinKeep (q q' : FrameQ.State) : Prop where
  logNext : q'.logNext = q.logNext
  winSize : q'.winSize = q.winSize
  tailSize : q'.tailSize = q.tailSize

/-- `FrameQ.cull` with the reorder-buffer calls and the wrapping subtraction as parameters (written
with the matchers of the model, so that `cull_eq` is syntactic). -/
def cullP (s : FrameQ.State) (newBase : Nat) (rtt : Option Nat) (ca : Bool)
    (adv : R (FrameQ.Reorder × FrameQ.Cb)) (w : Nat → Nat → Nat) : R FrameQ.State :=
  have r :=
    if ca = true then
      FrameQ.Reorder.advance.match_1 (fun _ => R FrameQ.State) adv
        (fun t => Except.error t) fun r cb =>
        FrameQ.notifyAck.match_1 (fun _ => R FrameQ.State) (FrameQ.applyCb s rtt cb s.intervals)
          (fun t => Except.error t) fun l =>
          Except.ok { s with reorder := r, intervals := l }
    else Except.ok s
  FrameQ.cull.match_1 (fun _ => R FrameQ.State) r (fun t => Except.error t) fun s =>
    have k := w newBase s.logBase
    if k > s.frames.length then Except.error Trap.index
    else Except.ok { s with frames := s.frames.drop k, logBase := newBase }

theorem cull_eq (s : FrameQ.State) (newBase : Nat) (rtt : Option Nat) :
    FrameQ.cull s newBase rtt =
      cullP s newBase rtt (s.reorder.canAdvance newBase) (s.reorder.advance newBase) wsub32 := rfl
theorem cullP_keep (q q' : FrameQ.State) (nb : Nat) (rtt : Option Nat) (ca : Bool)
    (adv : R (FrameQ.Reorder × FrameQ.Cb)) (w : Nat → Nat → Nat)
    (h : cullP q nb rtt ca adv w = .ok q') : WinKeep q q' ∧ q'.winBase = q.winBase := by
  unfold cullP at h
  simp only at h
  have hs1 : ∀ s1, (if ca = true then
      FrameQ.Reorder.advance.match_1 (fun _ => R FrameQ.State) adv
        (fun t => Except.error t) fun r cb =>
        FrameQ.notifyAck.match_1 (fun _ => R FrameQ.State) (FrameQ.applyCb q rtt cb q.intervals)
          (fun t => Except.error t) fun l =>
          Except.ok { q with reorder := r, intervals := l }
    else Except.ok q) = .ok s1 →
      s1.logNext = q.logNext ∧ s1.winSize = q.winSize ∧ s1.tailSize = q.tailSize ∧
        s1.winBase = q.winBase := by
    intro s1 hr
    cases ca with
    | false =>
      simp only [Bool.false_eq_true, if_false, Except.ok.injEq] at hr
      subst hr; exact ⟨rfl, rfl, rfl, rfl⟩
    | true =>
      simp only [if_true] at hr
      cases adv with
      | error t => cases hr
      | ok v =>
        obtain ⟨r, cb⟩ := v
        simp only at hr
        generalize FrameQ.applyCb q rtt cb q.intervals = r2 at hr
        cases r2 with
        | error t => cases hr
        | ok l =>
          simp only [Except.ok.injEq] at hr
          subst hr; exact ⟨rfl, rfl, rfl, rfl⟩
  generalize (if ca = true then _ else _ : R FrameQ.State) = r1 at h hs1
  cases r1 with
  | error t => cases h
  | ok s1 =>
    obtain ⟨e1, e2, e3, e4⟩ := hs1 s1 rfl
    simp only at h
    generalize w nb s1.logBase = k at h
    split at h
    · cases h
    · simp only [Except.ok.injEq] at h
      subst h
      exact ⟨⟨e1, e2, e3⟩, e4⟩

theorem cull_keep (q q' : FrameQ.State) (nb : Nat) (rtt : Option Nat)
    (h : FrameQ.cull q nb rtt = .ok q') : WinKeep q q' ∧ q'.winBase = q.winBase := by
  rw [cull_eq] at h
  exact cullP_keep _ _ _ _ _ _ _ h

/-- A non-trapping `advanceTransferWindow`: the base becomes `nb` if `nb` is admissible, and nothing
changes otherwise. -/
theorem advance_spec (q q' : FrameQ.State) (nb : Nat) (rtt : Option Nat)
    (h : FrameQ.advanceTransferWindow q nb rtt = .ok q') :
    WinKeep q q' ∧ (FrameAdv q nb → q'.winBase = nb) ∧ (¬ FrameAdv q nb → q' = q) := by
  unfold FrameQ.advanceTransferWindow at h
  generalize hc : FrameQ.canAdvanceTransferWindow q nb = c at h
  cases c with
  | false =>
    simp only [Bool.false_eq_true, if_false, Except.ok.injEq] at h
    subst h
    refine ⟨⟨rfl, rfl, rfl⟩, fun hadv => ?_, fun _ => rfl⟩
    rw [(canAdvance_iff q nb).mpr hadv] at hc
    cases hc
  | true =>
    have hadv := (canAdvance_iff q nb).mp hc
    simp only [if_true] at h
    generalize wsub32 (wsub32 nb q.tailSize) q.logBase = d at h
    generalize wsub32 nb q.tailSize = mb at h
    split at h
    · obtain ⟨hk, hb⟩ := cull_keep _ _ _ _ h
      exact ⟨⟨hk.logNext, hk.winSize, hk.tailSize⟩, fun _ => hb, fun hn => absurd hadv hn⟩
    · cases h
      exact ⟨⟨rfl, rfl, rfl⟩, fun _ => rfl, fun hn => absurd hadv hn⟩

/-! ### packet window -/

/-- The condition under which `PSend.acknowledge` acts: `rb` is a valid packet id and lies within
the window, `base_id ..= next_id`. -/
def PacketAdv (ps : PSend.State) (rb : Nat) : Prop :=
  rb < PACKET_ID_SPAN ∧ pidSub rb ps.baseId ≤ pidSub ps.nextId ps.baseId

instance (ps : PSend.State) (rb : Nat) : Decidable (PacketAdv ps rb) := by
  unfold PacketAdv; infer_instance

theorem psAckLoop_base (fuel : Nat) (s s' : PSend.State) (rb : Nat)
    (h : PSend.ackLoop fuel s rb = .ok s') :
    s'.baseId = rb ∧ s'.nextId = s.nextId ∧ s'.windowSize = s.windowSize := by
  induction fuel generalizing s with
  | zero => simp [PSend.ackLoop] at h
  | succ n ih =>
    unfold PSend.ackLoop at h
    split at h
    · rename_i hb
      cases h
      exact ⟨hb, rfl, rfl⟩
    · repeat' split at h
      all_goals first
        | cases h
        | (have := ih _ h; exact this)

/-- A non-trapping `PSend.acknowledge`: the base becomes `rb` if `rb` is admissible, and nothing
changes otherwise. -/
theorem psAcknowledge_spec (s s' : PSend.State) (rb : Nat) (h : PSend.acknowledge s rb = .ok s') :
    s'.nextId = s.nextId ∧ s'.windowSize = s.windowSize ∧
    (PacketAdv s rb → s'.baseId = rb) ∧ (¬ PacketAdv s rb → s' = s) := by
  unfold PSend.acknowledge at h
  simp only at h
  unfold PacketAdv
  generalize pidSub rb s.baseId = d at h ⊢
  generalize pidSub s.nextId s.baseId = sp at h ⊢
  split at h
  · rename_i hv
    cases h
    refine ⟨rfl, rfl, fun hadv => ?_, fun _ => rfl⟩
    have := hadv.1
    simp only [PACKET_ID_SPAN] at hv this
    omega
  · rename_i hv
    split at h
    · rename_i hd
      cases h
      exact ⟨rfl, rfl, fun hadv => absurd hadv.2 (by omega), fun _ => rfl⟩
    · rename_i hd
      obtain ⟨h1, h2, h3⟩ := psAckLoop_base _ _ _ _ h
      refine ⟨h2, h3, fun _ => h1, fun hn => absurd ?_ hn⟩
      refine ⟨?_, by omega⟩
      simp only [PACKET_ID_SPAN] at hv ⊢
      omega

theorem ackFragment_ids (ps : PSend.State) (u f : Nat) :
    (PSend.ackFragment ps u f).baseId = ps.baseId ∧ (PSend.ackFragment ps u f).nextId = ps.nextId ∧
    (PSend.ackFragment ps u f).windowSize = ps.windowSize := ⟨rfl, rfl, rfl⟩

theorem ackFragments_ids (frs : List (Nat × Nat)) (ps : PSend.State) :
    (frs.foldl (fun ps (x : Nat × Nat) => PSend.ackFragment ps x.1 x.2) ps).baseId = ps.baseId ∧
    (frs.foldl (fun ps (x : Nat × Nat) => PSend.ackFragment ps x.1 x.2) ps).nextId = ps.nextId ∧
    (frs.foldl (fun ps (x : Nat × Nat) => PSend.ackFragment ps x.1 x.2) ps).windowSize = ps.windowSize := by
  induction frs generalizing ps with
  | nil => exact ⟨rfl, rfl, rfl⟩
  | cons x frs ih =>
    simp only [List.foldl_cons]
    obtain ⟨h1, h2, h3⟩ := ih (PSend.ackFragment ps x.1 x.2)
    exact ⟨h1, h2, h3⟩

/-! ### the half connection -/

/-- The fields of the half connection `handleAckFrame` never touches. -/
structure SideKeep (s s' : State F) : Prop where
  pending : s'.pending = s.pending
  resend : s'.resend = s.resend
  flushAlloc : s'.flushAlloc = s.flushAlloc
  nowMs : s'.nowMs = s.nowMs
  stb : s'.syncTimeoutBase = s.syncTimeoutBase
  reply : s'.syncReply = s.syncReply
  aq : s'.aq = s.aq
  pr : s'.pr = s.pr
  rto : s'.rtoMs = s.rtoMs
  keepalive : s'.keepalive = s.keepalive

theorem SideKeep.refl (s : State F) : SideKeep s s := ⟨rfl, rfl, rfl, rfl, rfl, rfl, rfl, rfl, rfl, rfl⟩

theorem SideKeep.trans {a b c : State F} (h1 : SideKeep a b) (h2 : SideKeep b c) : SideKeep a c :=
  ⟨h2.pending.trans h1.pending, h2.resend.trans h1.resend, h2.flushAlloc.trans h1.flushAlloc,
   h2.nowMs.trans h1.nowMs, h2.stb.trans h1.stb, h2.reply.trans h1.reply, h2.aq.trans h1.aq,
   h2.pr.trans h1.pr, h2.rto.trans h1.rto, h2.keepalive.trans h1.keepalive⟩

/-- What the group-acknowledging fold of `handleAckFrame` preserves. -/
structure GroupsKeep (s s' : State F) : Prop where
  side : SideKeep s s'
  win : WinKeep s.fq s'.fq
  winBase : s'.fq.winBase = s.fq.winBase
  pBase : s'.ps.baseId = s.ps.baseId
  pNext : s'.ps.nextId = s.ps.nextId
  pSize : s'.ps.windowSize = s.ps.windowSize
  rate : s'.rate = s.rate

theorem GroupsKeep.refl (s : State F) : GroupsKeep s s :=
  ⟨SideKeep.refl s, ⟨rfl, rfl, rfl⟩, rfl, rfl, rfl, rfl, rfl⟩

theorem GroupsKeep.trans {a b c : State F} (h1 : GroupsKeep a b) (h2 : GroupsKeep b c) :
    GroupsKeep a c :=
  ⟨h1.side.trans h2.side,
   ⟨h2.win.logNext.trans h1.win.logNext, h2.win.winSize.trans h1.win.winSize,
    h2.win.tailSize.trans h1.win.tailSize⟩,
   h2.winBase.trans h1.winBase, h2.pBase.trans h1.pBase, h2.pNext.trans h1.pNext,
   h2.pSize.trans h1.pSize, h2.rate.trans h1.rate⟩

/-- `ackP` (the body of `handleAckFrame` with its calls as parameters) as its three stages. -/
theorem ackP_stages (s s' : State F) (fb pb : Nat) (acks : List AckGroup)
    (ag : FrameQ.State → AckGroup → Option Nat → R (FrameQ.State × List (Nat × Nat)))
    (adv : FrameQ.State → Nat → Option Nat → R FrameQ.State)
    (pack : PSend.State → Nat → R PSend.State)
    (hag : ∀ q g rtt q' frs, ag q g rtt = .ok (q', frs) → WinKeep q q' ∧ q'.winBase = q.winBase)
    (h : ackP s fb pb acks ag adv pack = .ok s') :
    ∃ s1 fq ps, GroupsKeep s s1 ∧ adv s1.fq fb s.rate.rttMs = .ok fq ∧
      pack s1.ps pb = .ok ps ∧ s' = { s1 with fq := fq, ps := ps } ∧ (acks = [] → s1 = s) := by
  unfold ackP at h
  simp only at h
  generalize hr : (List.foldlM _ s acks : R (State F)) = r at h
  cases r with
  | error t => cases h
  | ok s1 =>
    simp only at h
    have hk : GroupsKeep s s1 := by
      refine foldlM_rel _ (fun a b : State F => GroupsKeep a b) GroupsKeep.refl
        (fun a b c h1 h2 => h1.trans h2) ?_ acks s s1 hr
      intro a g a' ha
      generalize hagr : ag a.fq g _ = r at ha
      cases r with
      | error t => cases ha
      | ok v =>
        obtain ⟨fq, frs⟩ := v
        simp only [Except.ok.injEq] at ha
        subst ha
        obtain ⟨hw, hb⟩ := hag _ _ _ _ _ hagr
        obtain ⟨p1, p2, p3⟩ := ackFragments_ids frs a.ps
        exact ⟨⟨rfl, rfl, rfl, rfl, rfl, rfl, rfl, rfl, rfl, rfl⟩, hw, hb, p1, p2, p3, rfl⟩
    have hnil : acks = [] → s1 = s := by
      intro he
      subst he
      simp only [List.foldlM_nil, pure, Except.pure, Except.ok.injEq] at hr
      exact hr.symm
    generalize hadv : adv s1.fq fb _ = r2 at h
    generalize hack : pack s1.ps pb = r3 at h
    cases r2 with
    | error t => cases h
    | ok fq =>
      cases r3 with
      | error t => cases h
      | ok ps2 =>
        simp only [Except.ok.injEq] at h
        exact ⟨s1, fq, ps2, hk, hadv, hack, h.symm, hnil⟩

/-- `handleAckFrame` as its three stages. -/
theorem handleAckFrame_stages (s s' : State F) (fb pb : Nat) (acks : List AckGroup)
    (h : handleAckFrame s fb pb acks = .ok s') :
    ∃ s1 fq ps, GroupsKeep s s1 ∧
      FrameQ.advanceTransferWindow s1.fq fb s.rate.rttMs = .ok fq ∧
      PSend.acknowledge s1.ps pb = .ok ps ∧ s' = { s1 with fq := fq, ps := ps } ∧
      (acks = [] → s1 = s) := by
  rw [handleAckFrame_eq] at h
  refine ackP_stages s s' fb pb acks _ _ _ ?_ h
  intro q g rtt q' frs hag
  have hrel := FrameQ.acknowledgeGroup_rel hag
  exact ⟨⟨hrel.logNext, hrel.winSize, hrel.tailSize⟩, hrel.winBase⟩

/-- A non-trapping `handleAckFrame` and the two sender windows. -/
theorem handleAckFrame_windows (s s' : State F) (fb pb : Nat) (acks : List AckGroup)
    (h : handleAckFrame s fb pb acks = .ok s') :
    SideKeep s s' ∧ WinKeep s.fq s'.fq ∧
    s'.ps.nextId = s.ps.nextId ∧ s'.ps.windowSize = s.ps.windowSize ∧
    (FrameAdv s.fq fb → s'.fq.winBase = fb) ∧ (¬ FrameAdv s.fq fb → s'.fq.winBase = s.fq.winBase) ∧
    (PacketAdv s.ps pb → s'.ps.baseId = pb) ∧ (¬ PacketAdv s.ps pb → s'.ps.baseId = s.ps.baseId) := by
  obtain ⟨s1, fq, ps, hk, hadv, hack, rfl, _⟩ := handleAckFrame_stages s s' fb pb acks h
  obtain ⟨hw, ha1, ha2⟩ := advance_spec _ _ _ _ hadv
  obtain ⟨hp1, hp2, hp3, hp4⟩ := psAcknowledge_spec _ _ _ hack
  have hfa : FrameAdv s1.fq fb ↔ FrameAdv s.fq fb := by
    unfold FrameAdv; rw [hk.winBase, hk.win.logNext]
  have hpa : PacketAdv s1.ps pb ↔ PacketAdv s.ps pb := by
    unfold PacketAdv; rw [hk.pBase, hk.pNext]
  refine ⟨⟨hk.side.pending, hk.side.resend, hk.side.flushAlloc, hk.side.nowMs, hk.side.stb,
      hk.side.reply, hk.side.aq, hk.side.pr, hk.side.rto, hk.side.keepalive⟩,
    ⟨hw.logNext.trans hk.win.logNext, hw.winSize.trans hk.win.winSize,
      hw.tailSize.trans hk.win.tailSize⟩,
    hp1.trans hk.pNext, hp2.trans hk.pSize, fun hf => ha1 (hfa.mpr hf), fun hf => ?_,
    fun hp => hp3 (hpa.mpr hp), fun hp => ?_⟩
  · have := ha2 (fun hh => hf (hfa.mp hh))
    show fq.winBase = s.fq.winBase
    rw [this]; exact hk.winBase
  · have := hp4 (fun hh => hp (hpa.mp hh))
    show ps.baseId = s.ps.baseId
    rw [this]; exact hk.pBase

theorem advance_stale (q : FrameQ.State) (fb : Nat) (rtt : Option Nat) (hf : ¬ FrameAdv q fb) :
    FrameQ.advanceTransferWindow q fb rtt = .ok q := by
  unfold FrameQ.advanceTransferWindow
  have : FrameQ.canAdvanceTransferWindow q fb = false := by
    cases hc : FrameQ.canAdvanceTransferWindow q fb with
    | false => rfl
    | true => exact absurd ((canAdvance_iff _ _).mp hc) hf
  rw [this]
  rfl
theorem psAcknowledge_stale (ps : PSend.State) (pb : Nat) (hp : ¬ PacketAdv ps pb) :
    PSend.acknowledge ps pb = .ok ps := by
  unfold PSend.acknowledge
  simp only
  unfold PacketAdv at hp
  generalize pidSub pb ps.baseId = d at hp ⊢
  generalize pidSub ps.nextId ps.baseId = sp at hp ⊢
  split
  · rfl
  · rename_i hv
    split
    · rfl
    · rename_i hd
      refine absurd ⟨?_, by omega⟩ hp
      simp only [PACKET_ID_SPAN] at hv ⊢
      omega
theorem ackP_nil (s : State F) (fb pb : Nat)
    (ag : FrameQ.State → AckGroup → Option Nat → R (FrameQ.State × List (Nat × Nat)))
    (adv : FrameQ.State → Nat → Option Nat → R FrameQ.State)
    (pack : PSend.State → Nat → R PSend.State)
    (hadv : adv s.fq fb s.rate.rttMs = .ok s.fq) (hpack : pack s.ps pb = .ok s.ps) :
    ackP s fb pb [] ag adv pack = .ok s := by
  unfold ackP
  simp only [List.foldlM_nil, pure, Except.pure, hadv, hpack]
/-- An ack frame without groups whose two bases are stale or out of range changes nothing. -/
theorem handleAckFrame_stale (s : State F) (fb pb : Nat) (hf : ¬ FrameAdv s.fq fb)
    (hp : ¬ PacketAdv s.ps pb) : handleAckFrame s fb pb [] = .ok s := by
  rw [handleAckFrame_eq]
  exact ackP_nil s fb pb _ _ _ (advance_stale _ _ _ hf) (psAcknowledge_stale _ _ hp)
end Uflow.SyncCycle
