import Uflow.Lemmas.Rate

/-!
What the bisection `tcpInv` (`eval_tcp_throughput_inv`) guarantees, exactly; and when it
terminates within its fuel.
-/

namespace Uflow.Rate

open Uflow.Gen

variable {F : Type}

/-- the bracket `[a,b]` can not be narrowed: its midpoint equals one of its ends. -/
def BisectStuck (ops : FloatOps F) (a b : F) : Prop :=
  (ops.feq (ops.mid b a) a || ops.feq (ops.mid b a) b) = true

instance (ops : FloatOps F) (a b : F) : Decidable (BisectStuck ops a b) := by
  unfold BisectStuck; infer_instance

/-- `p` reproduces `target` within 5 % (`mul005 target`), in `u32` arithmetic (truncated
subtraction: one of the two differences is 0). -/
def BisectClose (ops : FloatOps F) (rtt : F) (target : Nat) (p : F) : Prop :=
  ops.tcpRate rtt p - target ≤ ops.mul005 target ∧ target - ops.tcpRate rtt p ≤ ops.mul005 target

instance (ops : FloatOps F) (rtt : F) (target : Nat) (p : F) :
    Decidable (BisectClose ops rtt target p) := by
  unfold BisectClose; infer_instance

/-- `Narrows ops rtt target k a b a' b'`: `k` loop iterations of the bisection lead from the bracket
`[a,b]` to the bracket `[a',b']`, none of them returning. -/
inductive Narrows (ops : FloatOps F) (rtt : F) (target : Nat) : Nat → F → F → F → F → Prop
  | refl (a b : F) : Narrows ops rtt target 0 a b a b
  /-- rate at the midpoint too high: continue in the upper half `[c,b]` -/
  | up {k : Nat} {a b a' b' : F} (hs : ¬ BisectStuck ops a b)
      (hc : ¬ BisectClose ops rtt target (ops.mid b a))
      (hr : ops.tcpRate rtt (ops.mid b a) > target)
      (hn : Narrows ops rtt target k (ops.mid b a) b a' b') : Narrows ops rtt target (k+1) a b a' b'
  /-- rate at the midpoint too low: continue in the lower half `[a,c]` -/
  | down {k : Nat} {a b a' b' : F} (hs : ¬ BisectStuck ops a b)
      (hc : ¬ BisectClose ops rtt target (ops.mid b a))
      (hr : ops.tcpRate rtt (ops.mid b a) < target)
      (hn : Narrows ops rtt target k a (ops.mid b a) a' b') : Narrows ops rtt target (k+1) a b a' b'

/-- one unfolding of the loop, in terms of `BisectStuck` / `BisectClose`. -/
theorem tcpInv_succ (ops : FloatOps F) (rtt : F) (target fuel : Nat) (a b : F) :
    tcpInv ops rtt target (fuel+1) a b =
      if BisectStuck ops a b ∨ BisectClose ops rtt target (ops.mid b a) then .ok (ops.mid b a)
      else if ops.tcpRate rtt (ops.mid b a) > target then tcpInv ops rtt target fuel (ops.mid b a) b
      else tcpInv ops rtt target fuel a (ops.mid b a) := by
  rw [tcpInv]
  show (if (ops.feq (ops.mid b a) a || ops.feq (ops.mid b a) b) = true then _ else _) = _
  by_cases hs : (ops.feq (ops.mid b a) a || ops.feq (ops.mid b a) b) = true
  · have hsc : BisectStuck ops a b ∨ BisectClose ops rtt target (ops.mid b a) := Or.inl hs
    rw [if_pos hs, if_pos hsc]
  · rw [if_neg hs]
    have hs' : ¬ BisectStuck ops a b := hs
    by_cases hc : BisectClose ops rtt target (ops.mid b a)
    · have hsc : BisectStuck ops a b ∨ BisectClose ops rtt target (ops.mid b a) := Or.inr hc
      rw [if_pos hsc]
      obtain ⟨c1, c2⟩ := hc
      by_cases h1 : ops.tcpRate rtt (ops.mid b a) > target
      · rw [if_pos h1, if_pos c1]
      · rw [if_neg h1]
        by_cases h3 : ops.tcpRate rtt (ops.mid b a) < target
        · rw [if_pos h3, if_pos c2]
        · rw [if_neg h3]
    · have hsc : ¬ (BisectStuck ops a b ∨ BisectClose ops rtt target (ops.mid b a)) := by
        rintro (h | h)
        · exact hs' h
        · exact hc h
      rw [if_neg hsc]
      by_cases h1 : ops.tcpRate rtt (ops.mid b a) > target
      · have h2 : ¬ ops.tcpRate rtt (ops.mid b a) - target ≤ ops.mul005 target := by
          intro h2; apply hc; unfold BisectClose; omega
        rw [if_pos h1, if_pos h1, if_neg h2]
      · have h3 : ops.tcpRate rtt (ops.mid b a) < target := by
          apply Nat.lt_of_not_ge; intro hge; apply hc; unfold BisectClose; omega
        have h4 : ¬ target - ops.tcpRate rtt (ops.mid b a) ≤ ops.mul005 target := by
          intro h4; apply hc; unfold BisectClose; omega
        rw [if_neg h1, if_neg h1, if_pos h3, if_neg h4]

/-- **Exact characterisation of a successful `tcpInv`.** It returns `p` iff after `k < fuel`
non-returning iterations the bracket `[a',b']` is reached, `p` is its midpoint and either the
bracket can not be narrowed or `p` reproduces the target within 5 %. -/
theorem tcpInv_ok_iff (ops : FloatOps F) (rtt : F) (target fuel : Nat) (a b p : F) :
    tcpInv ops rtt target fuel a b = .ok p ↔
      ∃ k a' b', k < fuel ∧ Narrows ops rtt target k a b a' b' ∧ p = ops.mid b' a' ∧
        (BisectStuck ops a' b' ∨ BisectClose ops rtt target p) := by
  induction fuel generalizing a b with
  | zero =>
    constructor
    · intro h; rw [tcpInv] at h; cases h
    · rintro ⟨k, _, _, hk, _⟩; omega
  | succ fuel ih =>
    rw [tcpInv_succ]
    by_cases hsc : BisectStuck ops a b ∨ BisectClose ops rtt target (ops.mid b a)
    · rw [if_pos hsc]
      constructor
      · intro h
        cases h
        exact ⟨0, a, b, by omega, .refl a b, rfl, hsc⟩
      · rintro ⟨k, a', b', hk, hn, hp, hfin⟩
        cases hn with
        | refl => rw [hp]
        | up hs hc _ _ => exact absurd hsc (by rintro (h | h); exact hs h; exact hc h)
        | down hs hc _ _ => exact absurd hsc (by rintro (h | h); exact hs h; exact hc h)
    · rw [if_neg hsc]
      have hs : ¬ BisectStuck ops a b := fun h => hsc (Or.inl h)
      have hc : ¬ BisectClose ops rtt target (ops.mid b a) := fun h => hsc (Or.inr h)
      by_cases h1 : ops.tcpRate rtt (ops.mid b a) > target
      · rw [if_pos h1, ih]
        constructor
        · rintro ⟨k, a', b', hk, hn, hp, hfin⟩
          exact ⟨k+1, a', b', by omega, .up hs hc h1 hn, hp, hfin⟩
        · rintro ⟨k, a', b', hk, hn, hp, hfin⟩
          cases hn with
          | refl => subst hp; exact absurd hfin hsc
          | up _ _ _ hn' => exact ⟨_, a', b', by omega, hn', hp, hfin⟩
          | down _ _ hr _ => omega
      · rw [if_neg h1, ih]
        have h3 : ops.tcpRate rtt (ops.mid b a) < target := by
          apply Nat.lt_of_not_ge
          intro hge
          apply hc
          unfold BisectClose
          omega
        constructor
        · rintro ⟨k, a', b', hk, hn, hp, hfin⟩
          exact ⟨k+1, a', b', by omega, .down hs hc h3 hn, hp, hfin⟩
        · rintro ⟨k, a', b', hk, hn, hp, hfin⟩
          cases hn with
          | refl => subst hp; exact absurd hfin hsc
          | up _ _ hr _ => omega
          | down _ _ _ hn' => exact ⟨_, a', b', by omega, hn', hp, hfin⟩

/-- the only trap of `tcpInv` is running out of fuel. -/
theorem tcpInv_error (ops : FloatOps F) (rtt : F) (target fuel : Nat) (a b : F) (t : Trap)
    (h : tcpInv ops rtt target fuel a b = .error t) : t = .hang := by
  induction fuel generalizing a b with
  | zero => rw [tcpInv] at h; cases h; rfl
  | succ fuel ih =>
    rw [tcpInv_succ] at h
    split at h
    · cases h
    · split at h
      · exact ih _ _ h
      · exact ih _ _ h

/-- `BisectWithin ops n a b`: whatever halves are chosen, bisecting the bracket `[a,b]` reaches a
bracket that can not be narrowed (midpoint == an end) after fewer than `n` halvings. This is a
property of the float operations `mid`/`feq` alone (not of `tcpRate`). -/
inductive BisectWithin (ops : FloatOps F) : Nat → F → F → Prop
  | stop {n : Nat} {a b : F} (h : BisectStuck ops a b) : BisectWithin ops (n+1) a b
  | narrow {n : Nat} {a b : F} (hu : BisectWithin ops n (ops.mid b a) b)
      (hd : BisectWithin ops n a (ops.mid b a)) : BisectWithin ops (n+1) a b

/-- **Residual assumption on the float operations**: the interval `[0,1]` bisects to a fixpoint
within the fuel of the model (2200 iterations; for IEEE binary64 fewer than 1100 are needed). -/
def BisectConverges (ops : FloatOps F) : Prop := BisectWithin ops bisectFuel ops.zero ops.one

theorem BisectWithin.mono {ops : FloatOps F} {n m : Nat} {a b : F} (h : BisectWithin ops n a b)
    (hnm : n ≤ m) : BisectWithin ops m a b := by
  induction h generalizing m with
  | stop h =>
    obtain ⟨m', rfl⟩ : ∃ m', m = m' + 1 := ⟨m - 1, by omega⟩
    exact .stop h
  | narrow _ _ ih1 ih2 =>
    obtain ⟨m', rfl⟩ : ∃ m', m = m' + 1 := ⟨m - 1, by omega⟩
    exact .narrow (ih1 (by omega)) (ih2 (by omega))

/-- `tcpInv` returns whenever the bracket bisects to a fixpoint within the fuel. -/
theorem tcpInv_ok_of_within {ops : FloatOps F} {n : Nat} {a b : F} (h : BisectWithin ops n a b)
    (rtt : F) (target : Nat) : ∃ p, tcpInv ops rtt target n a b = .ok p := by
  induction h with
  | stop h => exact ⟨_, by rw [tcpInv_succ, if_pos (Or.inl h)]⟩
  | narrow _ _ ih1 ih2 =>
    rw [tcpInv_succ]
    split
    · exact ⟨_, rfl⟩
    · split
      · exact ih1
      · exact ih2

/-- Path-wise version: if the iterations actually performed reach, within the fuel, a bracket that
can not be narrowed, `tcpInv` returns its midpoint. -/
theorem tcpInv_ok_of_path {ops : FloatOps F} {rtt : F} {target k fuel : Nat} {a b a' b' : F}
    (hn : Narrows ops rtt target k a b a' b') (hk : k < fuel) (hs : BisectStuck ops a' b') :
    tcpInv ops rtt target fuel a b = .ok (ops.mid b' a') :=
  (tcpInv_ok_iff ops rtt target fuel a b _).mpr ⟨k, a', b', hk, hn, rfl, Or.inl hs⟩

end Uflow.Rate
