import Uflow.Model.Codec
import Uflow.Lemmas.CrcHD

/-!
Effect of `Codec.flipBit` on the CRC residual of a frame `body ++ [c0, c1, c2, c3]`:
every flipped bit xors one element `u q` of the LFSR orbit into
`residual body c0 c1 c2 c3 = ext 0 body ^^^ rd32 c0 c1 c2 c3`, and distinct bit positions have
distinct `q`.
-/

namespace Uflow.Codec

open Uflow.Gen Uflow.Crc

/-! ### `rd32` of bytes as a xor of shifts -/

theorem mul_two_pow_add_eq_xor (a b s : Nat) (hb : b < 2 ^ s) : a * 2 ^ s + b = (a <<< s) ^^^ b := by
  apply Nat.eq_of_testBit_eq
  intro j
  rw [Nat.mul_comm, Nat.testBit_two_pow_mul_add a hb, Nat.testBit_xor, Nat.testBit_shiftLeft]
  by_cases h : j < s
  · have : ¬ (j ≥ s) := by omega
    simp [h, this]
  · have hge : j ≥ s := by omega
    have hbj : b.testBit j = false :=
      Nat.testBit_lt_two_pow (Nat.lt_of_lt_of_le hb (Nat.pow_le_pow_right (by omega) hge))
    simp [h, hge, hbj]

theorem rd32_eq_xor (c0 c1 c2 c3 : Nat) (h1 : c1 < 256) (h2 : c2 < 256) (h3 : c3 < 256) :
    rd32 c0 c1 c2 c3 = (c0 <<< 24) ^^^ ((c1 <<< 16) ^^^ ((c2 <<< 8) ^^^ c3)) := by
  have e : rd32 c0 c1 c2 c3 = c0 * 2 ^ 24 + (c1 * 2 ^ 16 + (c2 * 2 ^ 8 + c3)) := by
    unfold rd32; omega
  rw [e, mul_two_pow_add_eq_xor c0 _ 24 (by omega), mul_two_pow_add_eq_xor c1 _ 16 (by omega),
    mul_two_pow_add_eq_xor c2 _ 8 (by omega)]

theorem eq_xor_of_xor_eq (a b d : BitVec 32) (h : a ^^^ b = d) : a = b ^^^ d := by
  rw [← h, BitVec.xor_comm a b, ← BitVec.xor_assoc, BitVec.xor_self, BitVec.zero_xor]

theorem ofNat_two_pow (m : Nat) : BitVec.ofNat 32 (2 ^ m) = BitVec.twoPow 32 m := by
  apply BitVec.eq_of_toNat_eq
  simp [BitVec.toNat_twoPow]

theorem flip_lt (c k : Nat) (hc : c < 256) (hk : k < 8) : c ^^^ 2 ^ k < 256 :=
  Nat.xor_lt_two_pow (n := 8) hc (Nat.pow_lt_pow_right (by omega) hk)

theorem two_pow_shiftLeft (k s : Nat) : (2 ^ k) <<< s = 2 ^ (s + k) := by
  rw [Nat.shiftLeft_eq, ← Nat.pow_add, Nat.add_comm]

theorem xor_flip_0 (a b c d e : Nat) :
    (a ^^^ e) ^^^ (b ^^^ (c ^^^ d)) = (a ^^^ (b ^^^ (c ^^^ d))) ^^^ e := by ac_rfl
theorem xor_flip_1 (a b c d e : Nat) :
    a ^^^ ((b ^^^ e) ^^^ (c ^^^ d)) = (a ^^^ (b ^^^ (c ^^^ d))) ^^^ e := by ac_rfl
theorem xor_flip_2 (a b c d e : Nat) :
    a ^^^ (b ^^^ ((c ^^^ e) ^^^ d)) = (a ^^^ (b ^^^ (c ^^^ d))) ^^^ e := by ac_rfl
theorem xor_flip_3 (a b c d e : Nat) :
    a ^^^ (b ^^^ (c ^^^ (d ^^^ e))) = (a ^^^ (b ^^^ (c ^^^ d))) ^^^ e := by ac_rfl

theorem rd32_flip0 (c0 c1 c2 c3 k : Nat) (h0 : c0 < 256) (h1 : c1 < 256) (h2 : c2 < 256)
    (h3 : c3 < 256) (hk : k < 8) :
    rd32 (c0 ^^^ 2 ^ k) c1 c2 c3 = rd32 c0 c1 c2 c3 ^^^ 2 ^ (24 + k) := by
  have _ := h0; have _ := hk
  rw [rd32_eq_xor _ _ _ _ h1 h2 h3, rd32_eq_xor _ _ _ _ h1 h2 h3, Nat.shiftLeft_xor_distrib,
    two_pow_shiftLeft]
  exact xor_flip_0 _ _ _ _ _

theorem rd32_flip1 (c0 c1 c2 c3 k : Nat) (h0 : c0 < 256) (h1 : c1 < 256) (h2 : c2 < 256)
    (h3 : c3 < 256) (hk : k < 8) :
    rd32 c0 (c1 ^^^ 2 ^ k) c2 c3 = rd32 c0 c1 c2 c3 ^^^ 2 ^ (16 + k) := by
  have _ := h0
  rw [rd32_eq_xor _ _ _ _ (flip_lt c1 k h1 hk) h2 h3, rd32_eq_xor _ _ _ _ h1 h2 h3,
    Nat.shiftLeft_xor_distrib, two_pow_shiftLeft]
  exact xor_flip_1 _ _ _ _ _

theorem rd32_flip2 (c0 c1 c2 c3 k : Nat) (h0 : c0 < 256) (h1 : c1 < 256) (h2 : c2 < 256)
    (h3 : c3 < 256) (hk : k < 8) :
    rd32 c0 c1 (c2 ^^^ 2 ^ k) c3 = rd32 c0 c1 c2 c3 ^^^ 2 ^ (8 + k) := by
  have _ := h0
  rw [rd32_eq_xor _ _ _ _ h1 (flip_lt c2 k h2 hk) h3, rd32_eq_xor _ _ _ _ h1 h2 h3,
    Nat.shiftLeft_xor_distrib, two_pow_shiftLeft]
  exact xor_flip_2 _ _ _ _ _

theorem rd32_flip3 (c0 c1 c2 c3 k : Nat) (h0 : c0 < 256) (h1 : c1 < 256) (h2 : c2 < 256)
    (h3 : c3 < 256) (hk : k < 8) :
    rd32 c0 c1 c2 (c3 ^^^ 2 ^ k) = rd32 c0 c1 c2 c3 ^^^ 2 ^ k := by
  have _ := h0
  rw [rd32_eq_xor _ _ _ _ h1 h2 (flip_lt c3 k h3 hk), rd32_eq_xor _ _ _ _ h1 h2 h3]
  exact xor_flip_3 _ _ _ _ _

/-! ### residual and positions -/

/-- Zero iff the CRC test of `decode` passes on `body ++ [c0, c1, c2, c3]`. -/
def residual (body : List Nat) (c0 c1 c2 c3 : Nat) : BitVec 32 :=
  Crc.ext 0#32 body ^^^ BitVec.ofNat 32 (rd32 c0 c1 c2 c3)

theorem residual_eq_zero (body : List Nat) (c0 c1 c2 c3 : Nat)
    (h : Crc.compute body = rd32 c0 c1 c2 c3) : residual body c0 c1 c2 c3 = 0#32 := by
  unfold residual
  rw [← h, xor_eq_zero_iff]
  show Crc.ext 0#32 body = BitVec.ofNat 32 (Crc.ext 0#32 body).toNat
  simp

/-- Index in the LFSR orbit of bit position `p` of a frame with `L` body bytes. -/
def qpos (L p : Nat) : Nat :=
  if p / 8 < L then 8 * (L - p / 8) + 31 - p % 8 else 8 * (p / 8 - L) + 7 - p % 8

theorem qpos_lt (L p : Nat) (hp : p < 8 * (L + 4)) : qpos L p < 8 * (L + 4) := by
  unfold qpos; split <;> omega

theorem qpos_inj (L p p' : Nat) (hp : p < 8 * (L + 4)) (hp' : p' < 8 * (L + 4))
    (h : qpos L p = qpos L p') : p = p' := by
  unfold qpos at h
  split at h <;> split at h <;> omega

theorem flipBit_eq (bs : List Nat) (p b : Nat) (h : bs[p / 8]? = some b) :
    flipBit bs p = bs.set (p / 8) (b ^^^ 2 ^ (p % 8)) := by
  unfold flipBit; rw [h]

theorem twoPow_eq_u' (m q : Nat) (hm : m < 32) (hq : q = 31 - m) : BitVec.twoPow 32 m = u q := by
  rw [hq]; exact twoPow_eq_u m hm

/-- One flipped bit: the frame keeps its shape and the residual changes by `u (qpos L p)`. -/
theorem flipBit_residual (body : List Nat) (c0 c1 c2 c3 : Nat)
    (h0 : c0 < 256) (h1 : c1 < 256) (h2 : c2 < 256) (h3 : c3 < 256)
    (p : Nat) (hp : p < 8 * (body.length + 4)) :
    ∃ body' d0 d1 d2 d3, flipBit (body ++ [c0, c1, c2, c3]) p = body' ++ [d0, d1, d2, d3] ∧
      body'.length = body.length ∧ d0 < 256 ∧ d1 < 256 ∧ d2 < 256 ∧ d3 < 256 ∧
      residual body' d0 d1 d2 d3 = residual body c0 c1 c2 c3 ^^^ u (qpos body.length p) := by
  have hk : p % 8 < 8 := Nat.mod_lt _ (by omega)
  by_cases hi : p / 8 < body.length
  · -- a data byte
    have hget : (body ++ [c0, c1, c2, c3])[p / 8]? = some body[p / 8] := by
      rw [List.getElem?_append_left hi, List.getElem?_eq_getElem hi]
    refine ⟨body.set (p / 8) (body[p / 8] ^^^ 2 ^ (p % 8)), c0, c1, c2, c3, ?_, by simp,
      h0, h1, h2, h3, ?_⟩
    · rw [flipBit_eq _ _ _ hget, List.set_append_left _ _ hi]
    · have hext := eq_xor_of_xor_eq _ _ _ (ext_set_flip body (p / 8) hi (p % 8) hk 0#32)
      have hext' : Crc.ext 0#32 (body.set (p / 8) (body[p / 8] ^^^ 2 ^ (p % 8))) =
          Crc.ext 0#32 body ^^^ u (qpos body.length p) := by
        have hq : qpos body.length p = (31 - p % 8) + 8 * (body.length - p / 8) := by
          unfold qpos; rw [if_pos hi]; omega
        rw [hq, u_add, ← twoPow_eq_u (p % 8) (by omega)]
        exact hext
      unfold residual
      rw [hext']
      ac_rfl
  · -- a CRC byte
    have hge : body.length ≤ p / 8 := by omega
    have hj : p / 8 - body.length = 0 ∨ p / 8 - body.length = 1 ∨ p / 8 - body.length = 2 ∨
        p / 8 - body.length = 3 := by omega
    have hqp : qpos body.length p = 8 * (p / 8 - body.length) + 7 - p % 8 := by
      unfold qpos; rw [if_neg hi]
    rcases hj with hj | hj | hj | hj
    · have hget : (body ++ [c0, c1, c2, c3])[p / 8]? = some c0 := by
        rw [List.getElem?_append_right hge, hj]; rfl
      refine ⟨body, c0 ^^^ 2 ^ (p % 8), c1, c2, c3, ?_, rfl, flip_lt c0 _ h0 hk, h1, h2, h3, ?_⟩
      · rw [flipBit_eq _ _ _ hget, List.set_append_right _ _ hge, hj]; rfl
      · unfold residual
        rw [rd32_flip0 _ _ _ _ _ h0 h1 h2 h3 hk, BitVec.ofNat_xor, ofNat_two_pow,
          twoPow_eq_u' (24 + p % 8) (qpos body.length p) (by omega) (by omega),
          BitVec.xor_assoc]
    · have hget : (body ++ [c0, c1, c2, c3])[p / 8]? = some c1 := by
        rw [List.getElem?_append_right hge, hj]; rfl
      refine ⟨body, c0, c1 ^^^ 2 ^ (p % 8), c2, c3, ?_, rfl, h0, flip_lt c1 _ h1 hk, h2, h3, ?_⟩
      · rw [flipBit_eq _ _ _ hget, List.set_append_right _ _ hge, hj]; rfl
      · unfold residual
        rw [rd32_flip1 _ _ _ _ _ h0 h1 h2 h3 hk, BitVec.ofNat_xor, ofNat_two_pow,
          twoPow_eq_u' (16 + p % 8) (qpos body.length p) (by omega) (by omega),
          BitVec.xor_assoc]
    · have hget : (body ++ [c0, c1, c2, c3])[p / 8]? = some c2 := by
        rw [List.getElem?_append_right hge, hj]; rfl
      refine ⟨body, c0, c1, c2 ^^^ 2 ^ (p % 8), c3, ?_, rfl, h0, h1, flip_lt c2 _ h2 hk, h3, ?_⟩
      · rw [flipBit_eq _ _ _ hget, List.set_append_right _ _ hge, hj]; rfl
      · unfold residual
        rw [rd32_flip2 _ _ _ _ _ h0 h1 h2 h3 hk, BitVec.ofNat_xor, ofNat_two_pow,
          twoPow_eq_u' (8 + p % 8) (qpos body.length p) (by omega) (by omega),
          BitVec.xor_assoc]
    · have hget : (body ++ [c0, c1, c2, c3])[p / 8]? = some c3 := by
        rw [List.getElem?_append_right hge, hj]; rfl
      refine ⟨body, c0, c1, c2, c3 ^^^ 2 ^ (p % 8), ?_, rfl, h0, h1, h2, flip_lt c3 _ h3 hk, ?_⟩
      · rw [flipBit_eq _ _ _ hget, List.set_append_right _ _ hge, hj]; rfl
      · unfold residual
        rw [rd32_flip3 _ _ _ _ _ h0 h1 h2 h3 hk, BitVec.ofNat_xor, ofNat_two_pow,
          twoPow_eq_u' (p % 8) (qpos body.length p) (by omega) (by omega),
          BitVec.xor_assoc]

/-- xor of the syndromes of a list of orbit indices. -/
def xorU : List Nat → BitVec 32
  | [] => 0#32
  | q :: qs => u q ^^^ xorU qs

/-- Any number of flipped bits: shape is kept, the residual changes by the xor of the syndromes. -/
theorem foldl_flipBit_residual : ∀ (ps : List Nat) (body : List Nat) (c0 c1 c2 c3 : Nat),
    c0 < 256 → c1 < 256 → c2 < 256 → c3 < 256 →
    (∀ p ∈ ps, p < 8 * (body.length + 4)) →
    ∃ body' d0 d1 d2 d3, ps.foldl flipBit (body ++ [c0, c1, c2, c3]) = body' ++ [d0, d1, d2, d3] ∧
      residual body' d0 d1 d2 d3 =
        residual body c0 c1 c2 c3 ^^^ xorU (ps.map (qpos body.length))
  | [], body, c0, c1, c2, c3, _, _, _, _, _ =>
    ⟨body, c0, c1, c2, c3, rfl, by simp [xorU]⟩
  | p :: ps, body, c0, c1, c2, c3, h0, h1, h2, h3, hp => by
    obtain ⟨b1, e0, e1, e2, e3, hf, hl, g0, g1, g2, g3, hr⟩ :=
      flipBit_residual body c0 c1 c2 c3 h0 h1 h2 h3 p (hp p (by simp))
    obtain ⟨b2, d0, d1, d2, d3, hf2, hr2⟩ :=
      foldl_flipBit_residual ps b1 e0 e1 e2 e3 g0 g1 g2 g3
        (by intro q hq; rw [hl]; exact hp q (by simp [hq]))
    refine ⟨b2, d0, d1, d2, d3, ?_, ?_⟩
    · rw [List.foldl_cons, hf, hf2]
    · rw [hr2, hr, hl, List.map_cons, xorU, BitVec.xor_assoc]

end Uflow.Codec
