import Uflow.Lemmas.TsDropRun

/-!
C12 (TimeSensitive drop): a TimeSensitive packet that sits in the pending queue with nothing sent
(`Stuck`) is never put on the wire by a run in which the flush id does not wrap around to the id
the packet was queued for.
-/

namespace Uflow.TsDrop

open Uflow Uflow.Gen Uflow.Codec Uflow.HalfConn Uflow.Wire Uflow.Modes Uflow.Heap Uflow.Credit
open Uflow.HcFrame
open Uflow.PSend (Dead UidInv)
open Uflow.Rate (FloatOps)

variable {F : Type}

/-- Number of `step` events of an event list (each increments the flush id). -/
def stepCount : List Ev → Nat
  | [] => 0
  | .step _ :: rest => stepCount rest + 1
  | _ :: rest => stepCount rest

/-- Fragment 0 of packet `u`, a TimeSensitive packet queued for flush `f` that is still in the
window, is at the head of the pending queue. -/
structure Stuck (s : State F) (u f : Nat) : Prop where
  head : ∃ r rest, s.pending = ({ uid := u, fid := 0, resend := r } : PEntry) :: rest
  found : ∃ p, PSend.findPacket s.ps u = some p ∧ p.expiry = some f

/-- No fragment of `u` is in either transmit queue, or all of them are dead: nothing of `u` will
be put on the wire again. -/
def Gone (s : State F) (u : Nat) : Prop :=
  u < s.ps.nextUid ∧ ((∀ k, Absent s u k) ∨ (∀ k, Dead s.ps u k))

theorem gone_run (ops : FloatOps F) (evs : List Ev) (s s' : State F) (tr : List Push) (u : Nat)
    (hg : GInv s) (hgone : Gone s u) (h : runT ops s evs = .ok (s', tr)) : ∀ x ∈ tr, x.uid ≠ u := by
  have g := runT_gspec ops evs s s' tr hg h
  intro x hx he
  rcases hgone.2 with ha | hd
  · exact (g.absent u x.fid hgone.1 (ha x.fid)).2 x hx ⟨he, rfl⟩
  · exact g.notDead x hx (by rw [he]; exact hd x.fid)

theorem findPacket_ackFragment (ps : PSend.State) (a b u : Nat) :
    PSend.findPacket (PSend.ackFragment ps a b) u =
      (PSend.findPacket ps u).map (fun p =>
        if p.uid = a ∧ ¬ (b ∈ p.acked) then { p with acked := b :: p.acked } else p) := by
  simp only [PSend.findPacket, PSend.ackFragment]
  induction ps.win with
  | nil => rfl
  | cons x l ih =>
    simp only [List.map_cons, List.find?_cons]
    have hx : (if x.packet.uid = a ∧ ¬ (b ∈ x.packet.acked) then
        ({ x with packet := { x.packet with acked := b :: x.packet.acked } } : PSend.WEntry) else x).packet.uid
        = x.packet.uid := by split <;> rfl
    rw [hx]
    by_cases hxu : x.packet.uid = u
    · simp only [hxu, decide_true, Option.map_some]
      congr 1
      split <;> rfl
    · simp only [hxu, decide_false]
      exact ih

/-- Acknowledgements either remove the packet found under `u` from the window or keep it, with the
same expiry. -/
theorem ackSteps_found {ps ps' : PSend.State} (h : AckSteps ps ps') (hu : UidInv ps) (u : Nat)
    (p : PSend.Pending) (hf : PSend.findPacket ps u = some p) :
    PSend.findPacket ps' u = none ∨
      ∃ p', PSend.findPacket ps' u = some p' ∧ p'.expiry = p.expiry := by
  induction h with
  | refl => exact .inr ⟨p, hf, rfl⟩
  | frag uid fid hsub ih =>
    rcases ih with hn | ⟨p', hp', he⟩
    · exact .inl (ackSteps_none (.frag uid fid (.refl _)) u hn)
    · right
      rw [findPacket_ackFragment, hp']
      refine ⟨_, rfl, ?_⟩
      rw [← he]
      dsimp only
      split <;> rfl
  | ack rb hsub hack ih =>
    rename_i ps1 ps2
    rcases ih with hn | ⟨p', hp', he⟩
    · exact .inl (ackSteps_none (.ack rb (.refl _) hack) u hn)
    · cases hf2 : PSend.findPacket ps2 u with
      | none => exact .inl rfl
      | some p2 =>
        right
        refine ⟨p2, rfl, ?_⟩
        obtain ⟨⟨d, hw⟩, _, _⟩ := PSend.acknowledge_suffix ps1 ps2 rb hack
        obtain ⟨⟨w', hw', rfl⟩, hpu⟩ := PSend.findPacket_some _ _ _ hf2
        have hmem : w' ∈ ps1.win := by rw [hw]; exact List.mem_append_right _ hw'
        have := PSend.findPacket_of_mem ps1 ((ackSteps_facts hsub).2.1 hu) w' hmem
        rw [hpu, hp'] at this
        cases this
        exact he

theorem wsub_step (f g : Nat) (n : Nat) (h : n + 1 < wsub32 f g) : n < wsub32 f (wadd32 g 1) := by
  simp only [wsub32, wadd32] at h ⊢
  omega

theorem wsub_ne (f g : Nat) (n : Nat) (h : n < wsub32 f g) : g ≠ f := by
  rintro rfl
  simp only [wsub32] at h
  omega

/-- One event from a stuck state in which nothing of `u` has been sent: nothing of `u` is pushed,
and the state is stuck again or `u` is gone for good. -/
theorem stuck_exec (ops : FloatOps F) (base : List Push) (s s1 : State F) (ev : Ev) (tr1 : List Push)
    (u f : Nat) (hg : GInv s) (hI : RunInv s base) (hnone : ∀ x ∈ base, x.uid ≠ u)
    (hst : Stuck s u f) (hne : ev = .flush → s.flushId ≠ f)
    (h : execT ops s ev = .ok (s1, tr1)) :
    (∀ x ∈ tr1, x.uid ≠ u) ∧ (Stuck s1 u f ∨ Gone s1 u) := by
  obtain ⟨p, hp, hexp⟩ := hst.found
  have hlt : u < s.ps.nextUid := by
    obtain ⟨r, rest, hpe⟩ := hst.head
    exact hg.1.pend_lt ⟨u, 0, r⟩ (by rw [hpe]; simp)
  -- events that leave the pending queue and the window alone
  have quiet : ∀ s' : State F, s'.pending = s.pending → s'.ps.win = s.ps.win →
      (∀ x ∈ ([] : List Push), x.uid ≠ u) ∧ (Stuck s' u f ∨ Gone s' u) := by
    intro s' hpe hwin
    refine ⟨(fun x hx => by cases hx), .inl ⟨by rw [hpe]; exact hst.head, p, ?_, hexp⟩⟩
    simp only [PSend.findPacket, hwin]
    exact hp
  cases ev with
  | flush =>
    simp only [execT] at h
    generalize hv : flushT s = r at h
    cases r with
    | error t => cases h
    | ok v =>
      obtain ⟨a, b, c⟩ := v
      simp only [Except.map, Except.ok.injEq, Prod.mk.injEq] at h
      obtain ⟨rfl, rfl⟩ := h
      have hd : Doomed s u p := by
        refine ⟨hst.head, hp, ?_, ?_⟩
        · simp only [PSend.Pending.expired, hexp, bne_iff_ne, ne_eq]
          exact fun hc => hne rfl hc.symm
        · intro h0
          obtain ⟨x, hx, hxu, _⟩ := hI.1.acked.found u p hp 0 h0
          exact hnone x hx hxu
      obtain ⟨k1, k2⟩ := flushT_doomed s a b c u p hg.1 hg.2 hd hv
      have hlt' : u < a.ps.nextUid :=
        Nat.lt_of_lt_of_le hlt (flushT_spec s a b c hg.1 hv).mono
      refine ⟨k1, ?_⟩
      rcases k2 with hd' | ha
      · exact .inl ⟨hd'.head, p, hd'.found, hexp⟩
      · exact .inr ⟨hlt', .inl ha⟩
  | step now =>
    simp only [execT, exec] at h
    generalize hs : HalfConn.step ops s now = r at h
    cases r with
    | error t => cases h
    | ok s' =>
      simp only [Except.map, Except.ok.injEq, Prod.mk.injEq] at h
      obtain ⟨rfl, rfl⟩ := h
      obtain ⟨_, hps, hpe, _⟩ := step_frame ops s s' now hs
      exact quiet s' hpe (by rw [hps])
  | send d c m =>
    simp only [execT, exec, Except.map, Except.ok.injEq, Prod.mk.injEq] at h
    obtain ⟨rfl, rfl⟩ := h
    exact quiet _ rfl rfl
  | receive =>
    simp only [execT, exec] at h
    generalize hs : HalfConn.receive s = r at h
    cases r with
    | error t => cases h
    | ok v =>
      simp only [Except.map, Except.ok.injEq, Prod.mk.injEq] at h
      obtain ⟨rfl, rfl⟩ := h
      obtain ⟨hq, hps⟩ := receive_frame s v.1 v.2 hs
      exact quiet _ hq.1 (by rw [hps])
  | dataFrame id nonce dgs =>
    simp only [execT, exec] at h
    generalize hs : handleDataFrame s id nonce dgs = r at h
    cases r with
    | error t => cases h
    | ok s' =>
      simp only [Except.map, Except.ok.injEq, Prod.mk.injEq] at h
      obtain ⟨rfl, rfl⟩ := h
      obtain ⟨hq, hps⟩ := handleDataFrame_frame s s' id nonce dgs hs
      exact quiet _ hq.1 (by rw [hps])
  | syncFrame nf np =>
    simp only [execT, exec] at h
    generalize hs : handleSyncFrame s nf np = r at h
    cases r with
    | error t => cases h
    | ok s' =>
      simp only [Except.map, Except.ok.injEq, Prod.mk.injEq] at h
      obtain ⟨rfl, rfl⟩ := h
      obtain ⟨hq, hps⟩ := handleSyncFrame_frame s s' nf np hs
      exact quiet _ hq.1 (by rw [hps])
  | ackFrame fb pb acks =>
    simp only [execT, exec] at h
    generalize hs : handleAckFrame s fb pb acks = r at h
    cases r with
    | error t => cases h
    | ok s' =>
      simp only [Except.map, Except.ok.injEq, Prod.mk.injEq] at h
      obtain ⟨rfl, rfl⟩ := h
      obtain ⟨hq, ha⟩ := handleAckFrame_frame s s' fb pb acks hs
      refine ⟨(fun x hx => by cases hx), ?_⟩
      rcases ackSteps_found ha hg.2.uids u p hp with hn | ⟨p', hp', he⟩
      · have hn' : s'.ps.nextUid = s.ps.nextUid := (ackSteps_facts ha).1
        have hlt' : u < s'.ps.nextUid := by rw [hn']; exact hlt
        exact .inr ⟨hlt', .inr fun k => PSend.dead_of_findPacket_none _ u k hlt' hn⟩
      · exact .inl ⟨by rw [hq.1]; exact hst.head, p', hp', he.trans hexp⟩

/-- The flush id after an event: `step` increments it (mod 2^32). -/
def evFlushId : Ev → Nat → Nat
  | .step _, g => wadd32 g 1
  | _, g => g

/-- The flush id after one event. -/
theorem execT_flushId (ops : FloatOps F) (s s1 : State F) (ev : Ev) (tr1 : List Push)
    (hq : QInv s) (h : execT ops s ev = .ok (s1, tr1)) :
    s1.flushId = evFlushId ev s.flushId := by
  cases ev with
  | flush =>
    simp only [execT] at h
    generalize hv : flushT s = r at h
    cases r with
    | error t => cases h
    | ok v =>
      obtain ⟨a, b, c⟩ := v
      simp only [Except.map, Except.ok.injEq, Prod.mk.injEq] at h
      obtain ⟨rfl, rfl⟩ := h
      exact (flushT_spec s a b c hq hv).fid
  | step now =>
    simp only [execT, exec] at h
    generalize hs : HalfConn.step ops s now = r at h
    cases r with
    | error t => cases h
    | ok s' =>
      simp only [Except.map, Except.ok.injEq, Prod.mk.injEq] at h
      obtain ⟨rfl, rfl⟩ := h
      exact (step_frame ops s s' now hs).2.2.2.2.1
  | send d c m =>
    simp only [execT, exec, Except.map, Except.ok.injEq, Prod.mk.injEq] at h
    obtain ⟨rfl, rfl⟩ := h
    rfl
  | receive =>
    simp only [execT, exec] at h
    generalize hs : HalfConn.receive s = r at h
    cases r with
    | error t => cases h
    | ok v =>
      simp only [Except.map, Except.ok.injEq, Prod.mk.injEq] at h
      obtain ⟨rfl, rfl⟩ := h
      exact (receive_frame s v.1 v.2 hs).1.2.2.2.1
  | dataFrame id nonce dgs =>
    simp only [execT, exec] at h
    generalize hs : handleDataFrame s id nonce dgs = r at h
    cases r with
    | error t => cases h
    | ok s' =>
      simp only [Except.map, Except.ok.injEq, Prod.mk.injEq] at h
      obtain ⟨rfl, rfl⟩ := h
      exact (handleDataFrame_frame s s' id nonce dgs hs).1.2.2.2.1
  | syncFrame nf np =>
    simp only [execT, exec] at h
    generalize hs : handleSyncFrame s nf np = r at h
    cases r with
    | error t => cases h
    | ok s' =>
      simp only [Except.map, Except.ok.injEq, Prod.mk.injEq] at h
      obtain ⟨rfl, rfl⟩ := h
      exact (handleSyncFrame_frame s s' nf np hs).1.2.2.2.1
  | ackFrame fb pb acks =>
    simp only [execT, exec] at h
    generalize hs : handleAckFrame s fb pb acks = r at h
    cases r with
    | error t => cases h
    | ok s' =>
      simp only [Except.map, Except.ok.injEq, Prod.mk.injEq] at h
      obtain ⟨rfl, rfl⟩ := h
      exact (handleAckFrame_frame s s' fb pb acks hs).1.2.2.2.1

/-- From a stuck state in which nothing of `u` has been sent, no run with fewer than
`wsub32 f flushId` steps (the number of flush id increments after which the flush id is `f`
again) puts anything of `u` on the wire. -/
theorem stuck_run (ops : FloatOps F) (evs : List Ev) (base : List Push) (s s' : State F)
    (tr : List Push) (u f : Nat) (hg : GInv s) (hI : RunInv s base)
    (hnone : ∀ x ∈ base, x.uid ≠ u) (hst : Stuck s u f)
    (hcnt : stepCount evs < wsub32 f s.flushId)
    (h : runT ops s evs = .ok (s', tr)) : ∀ x ∈ tr, x.uid ≠ u := by
  induction evs generalizing s base tr with
  | nil =>
    simp only [runT, Except.ok.injEq, Prod.mk.injEq] at h
    obtain ⟨rfl, rfl⟩ := h
    intro x hx; cases hx
  | cons ev rest ih =>
    simp only [runT] at h
    generalize h1 : execT ops s ev = r1 at h
    cases r1 with
    | error t => cases h
    | ok v =>
      obtain ⟨s1, tr1⟩ := v
      simp only at h
      generalize h2 : runT ops s1 rest = r2 at h
      cases r2 with
      | error t => cases h
      | ok v2 =>
        obtain ⟨s2, tr2⟩ := v2
        simp only [Except.ok.injEq, Prod.mk.injEq] at h
        obtain ⟨rfl, rfl⟩ := h
        have hne : ev = .flush → s.flushId ≠ f := by
          intro hev
          subst hev
          exact wsub_ne f s.flushId _ hcnt
        obtain ⟨k1, k2⟩ := stuck_exec ops base s s1 ev tr1 u f hg hI hnone hst hne h1
        have g1 := execT_gspec ops s s1 ev tr1 hg h1
        have hfl := execT_flushId ops s s1 ev tr1 hg.1 h1
        intro x hx
        rcases List.mem_append.mp hx with hx | hx
        · exact k1 x hx
        · rcases k2 with hst1 | hgone
          · refine ih (base ++ tr1) s1 tr2 g1.inv (execT_inv ops base s s1 ev tr1 hI h1) ?_ hst1 ?_ h2 x hx
            · intro y hy
              rcases List.mem_append.mp hy with hy | hy
              · exact hnone y hy
              · exact k1 y hy
            · rw [hfl]
              cases ev with
              | step now =>
                simp only [stepCount] at hcnt
                exact wsub_step f s.flushId _ hcnt
              | _ => simpa only [stepCount, evFlushId] using hcnt
          · exact gone_run ops rest s1 s2 tr2 u g1.inv hgone h2 x hx

/-- The invariants do not mention the flush id. -/
theorem ginv_setFlushId {s : State F} (hg : GInv s) (g : Nat) :
    GInv ({ s with flushId := g } : State F) :=
  ⟨⟨hg.1.pend_lt, hg.1.res_lt, hg.1.pend_nodup, hg.1.disj⟩,
   ⟨hg.2.uids, hg.2.pend_flag, hg.2.res_noexp⟩⟩

theorem runInv_setFlushId {s : State F} {T : List Push} (hI : RunInv s T) (g : Nat) :
    RunInv ({ s with flushId := g } : State F) T :=
  ⟨⟨hI.1.refs, hI.1.acked⟩, hI.2⟩

end Uflow.TsDrop
