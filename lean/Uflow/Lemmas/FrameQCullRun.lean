import Uflow.Lemmas.FrameQCull

/-!
Run-level invariant of the sender's frame queue (`FrameQ.State`): `WInv` is `AckInv` plus the window
relations that keep the frame log no longer than the reorder buffer's span. It holds initially and is kept by
`push`, `acknowledgeGroup`, `advanceTransferWindow`, `forgetFrames` and `getFeedback`; under it none of the
first four can trap.
-/

namespace Uflow.FrameQ

open Uflow Uflow.Codec Uflow.Rate

/-! ### `maxSpan` never changes -/

theorem putG_maxSpan (d : Nat → Nat → Nat) (r : Reorder) (id : Nat) (r' : Reorder) (cb : Cb)
    (h : putG d r id = .ok (r', cb)) : r'.maxSpan = r.maxSpan := by
  unfold putG at h
  simp only [] at h
  repeat' split at h
  all_goals (try simp only [] at h)
  all_goals (repeat' split at h)
  all_goals first
    | (cases h; rfl)
    | cases h

theorem put_maxSpan (r : Reorder) (id : Nat) (r' : Reorder) (cb : Cb) (h : r.put id = .ok (r', cb)) :
    r'.maxSpan = r.maxSpan := by
  rw [put_eq_G] at h; exact putG_maxSpan wsub32 r id r' cb h

theorem notifyAck_maxSpan {s s' : State} {id : Nat} {rtt : Option Nat} (h : notifyAck s id rtt = .ok s') :
    s'.reorder.maxSpan = s.reorder.maxSpan := by
  unfold notifyAck at h
  split at h
  · split at h
    · cases h
    · rename_i r cb hput
      split at h
      · cases h
      · cases h; exact put_maxSpan _ _ _ _ hput
  · cases h; rfl

theorem ackLoop_maxSpan (ack : AckGroup) (rtt : Option Nat) (l : List Nat) :
    ∀ (s : State) (lst tot : Nat) (rl : Bool) (fr : List (Nat × Nat))
      (s' : State) (lst' tot' : Nat) (rl' : Bool) (fr' : List (Nat × Nat)),
      ackLoop ack rtt l s lst tot rl fr = .ok (s', lst', tot', rl', fr') →
      s'.reorder.maxSpan = s.reorder.maxSpan := by
  induction l with
  | nil =>
    intro s lst tot rl fr s' lst' tot' rl' fr' h
    rw [ackLoop_nil] at h
    cases h; rfl
  | cons i l ih =>
    intro s lst tot rl fr s' lst' tot' rl' fr' h
    rw [ackLoop_cons] at h
    cases hk : s.frames[wsub32 (wadd32 ack.baseId i) s.logBase]? with
    | none => rw [hk] at h; cases h
    | some e =>
      rw [hk] at h
      simp only [] at h
      split at h
      · split at h
        · cases h
        · rename_i s2 hn
          have h1 := ih _ _ _ _ _ _ _ _ _ _ h
          have h2 := notifyAck_maxSpan hn
          rw [h1, h2]
      · exact ih _ _ _ _ _ _ _ _ _ _ h

theorem acknowledgeGroup_maxSpan {s : State} {ack : AckGroup} {rtt : Option Nat} {s1 : State}
    {f1 : List (Nat × Nat)} (h : acknowledgeGroup s ack rtt = .ok (s1, f1)) :
    s1.reorder.maxSpan = s.reorder.maxSpan := by
  rcases acknowledgeGroup_inv h with ⟨rfl, _⟩ | ⟨_, _, s', lst, tot, rl, hl, rfl⟩
  · rfl
  · obtain ⟨ad, had⟩ := ackFinish_fst s' lst tot rl f1
    rw [had]
    show s'.reorder.maxSpan = s.reorder.maxSpan
    exact ackLoop_maxSpan ack rtt _ _ _ _ _ _ _ _ _ _ _ hl

/-! ### the run-level invariant -/

/-- `AckInv` plus: the reorder buffer spans window + tail (`< 2^31`), the log is contiguous up to `logNext`,
`logNext` is at most a window ahead of `winBase`, and the log reaches at most `tailSize` behind `winBase`. -/
structure WInv (s : State) : Prop where
  ack : AckInv s
  ms : s.reorder.maxSpan = s.winSize + s.tailSize
  small : s.winSize + s.tailSize < 2^31
  next : wsub32 s.logNext s.logBase = s.frames.length
  win : wsub32 s.logNext s.winBase ≤ s.winSize
  tail : s.frames.length ≤ wsub32 s.logNext s.winBase + s.tailSize

theorem WInv.len_le {s : State} (h : WInv s) : s.frames.length ≤ s.reorder.maxSpan := by
  have := h.win; have := h.tail; rw [h.ms]; omega

theorem WInv_init (size tail base : Nat) (hb : base < 2^32) (hs : size + tail < 2^31) :
    WInv (init size tail base) := by
  refine ⟨AckInv_init size tail base hb, ?_, hs, ?_, ?_, ?_⟩
  · show (size + tail) % 2^32 = size + tail; omega
  · show wsub32 base base = 0; unfold wsub32; omega
  · show wsub32 base base ≤ size; unfold wsub32; omega
  · show 0 ≤ wsub32 base base + tail; omega

theorem WInv_push (s : State) (size now : Nat) (refs : List (Nat × Nat)) (nonce : Bool) (h : WInv s) :
    WInv (push s size now refs nonce) := by
  have hll := h.len_le
  have hms := h.ms
  have hsm := h.small
  have hn := h.next
  have hw := h.win
  have ht := h.tail
  by_cases hcan : canPush s = true
  · have hc : wsub32 s.logNext s.winBase < s.winSize := by
      unfold canPush at hcan; exact of_decide_eq_true hcan
    have hack := AckInv_push s size now refs nonce h.ack (by omega)
    have hpush : push s size now refs nonce =
        { s with frames := s.frames ++ [{ size := size % 2^32, sendTime := now, refs := refs, nonce := nonce, rateLimited := s.rateLimited, acked := false }], logNext := wadd32 s.logNext 1, rateLimited := false } := by
      unfold push; rw [if_pos hcan]
    rw [hpush] at hack ⊢
    refine ⟨hack, hms, hsm, ?_, ?_, ?_⟩
    · show wsub32 (wadd32 s.logNext 1) s.logBase = (s.frames ++ [_]).length
      rw [List.length_append, List.length_singleton]
      unfold wsub32 wadd32 at *; omega
    · show wsub32 (wadd32 s.logNext 1) s.winBase ≤ s.winSize
      unfold wsub32 wadd32 at *; omega
    · show (s.frames ++ [_]).length ≤ wsub32 (wadd32 s.logNext 1) s.winBase + s.tailSize
      rw [List.length_append, List.length_singleton]
      unfold wsub32 wadd32 at *; omega
  · have : push s size now refs nonce = s := by unfold push; rw [if_neg hcan]
    rw [this]; exact h

theorem WInv_ack (s : State) (ack : AckGroup) (rtt : Option Nat) (h : WInv s) :
    ∃ s' frs, acknowledgeGroup s ack rtt = .ok (s', frs) ∧ WInv s' := by
  obtain ⟨s', frs, he, hack⟩ := acknowledgeGroup_no_trap s ack rtt h.ack
  have hrel := acknowledgeGroup_rel he
  have hm := acknowledgeGroup_maxSpan he
  have h1 : s'.logNext = s.logNext := hrel.logNext
  have h2 : s'.logBase = s.logBase := hrel.logBase
  have h3 : s'.winBase = s.winBase := hrel.winBase
  have h4 : s'.winSize = s.winSize := hrel.winSize
  have h5 : s'.tailSize = s.tailSize := hrel.tailSize
  have h6 : s'.frames.length = s.frames.length := hrel.len
  refine ⟨s', frs, he, hack, ?_, ?_, ?_, ?_, ?_⟩
  · rw [hm, h4, h5]; exact h.ms
  · rw [h4, h5]; exact h.small
  · rw [h1, h2, h6]; exact h.next
  · rw [h1, h3, h4]; exact h.win
  · rw [h1, h3, h5, h6]; exact h.tail

/-! ### `advanceTransferWindow`, `forgetFrames` -/

theorem wsub32_diff (x y z : Nat) : wsub32 y z = (wsub32 x z + 2^32 - wsub32 x y) % 2^32 := by
  unfold wsub32; omega

theorem wsub32_sub_right (x y t : Nat) : wsub32 x (wsub32 y t) = (wsub32 x y + t) % 2^32 := by
  unfold wsub32; omega

/-- Window arithmetic of `advance_transfer_window` (all distances wrapped, sizes below `2^31`). -/
theorem atw_arith (L B W n T S len : Nat) (hn : wsub32 L B = len) (hw : wsub32 L W ≤ S)
    (ht : len ≤ wsub32 L W + T) (hsm : S + T < 2^31)
    (hc : wsub32 n W ≠ 0 ∧ wsub32 n W ≤ wsub32 L W) :
    wsub32 L n ≤ S ∧
    ((wsub32 (wsub32 n T) B ≠ 0 ∧ wsub32 (wsub32 n T) B ≤ len) →
      wsub32 L (wsub32 n T) = len - wsub32 (wsub32 n T) B ∧
      len - wsub32 (wsub32 n T) B ≤ wsub32 L n + T) ∧
    (¬ (wsub32 (wsub32 n T) B ≠ 0 ∧ wsub32 (wsub32 n T) B ≤ len) → len ≤ wsub32 L n + T) := by
  have e1 := wsub32_diff W n L
  have e1' := wsub32_diff n L W
  have e2 := wsub32_sub_right L n T
  have e3 := wsub32_diff L (wsub32 n T) B
  have hLn : wsub32 L n < 2^32 := by unfold wsub32; omega
  have hnL : wsub32 n L < 2^32 := by unfold wsub32; omega
  have hLn2 : wsub32 L n = (2^32 - wsub32 n L) % 2^32 := by unfold wsub32; omega
  rw [hn] at e3
  generalize wsub32 L (wsub32 n T) = f at *
  generalize wsub32 (wsub32 n T) B = dl at *
  generalize wsub32 L W = a at *
  generalize wsub32 n W = dt at *
  generalize wsub32 L n = e at *
  generalize wsub32 n L = e' at *
  omega

theorem forget_arith (L B k len : Nat) (hn : wsub32 L B = len) (hk : k ≤ len) (_hl : len < 2^32) :
    wsub32 (wadd32 B k) B = k ∧ wsub32 L (wadd32 B k) = len - k := by
  unfold wsub32 wadd32 at *; omega

abstract_const Uflow.wsub32 in Uflow.FrameQ.advanceTransferWindow as atwG1
abstract_const Uflow.FrameQ.cull in Uflow.FrameQ.atwG1 as atwG2
abstract_const Uflow.FrameQ.canAdvanceTransferWindow in Uflow.FrameQ.atwG2 as atwG

theorem atw_eq_G : @advanceTransferWindow = atwG canAdvanceTransferWindow cull wsub32 := by
  delta advanceTransferWindow atwG atwG2 atwG1; rfl

theorem atwG_no (can : State → Nat → Bool) (cl : State → Nat → Option Nat → R State) (d : Nat → Nat → Nat)
    (s : State) (nb : Nat) (rtt : Option Nat) (h : ¬ can s nb = true) : atwG can cl d s nb rtt = .ok s := by
  unfold atwG; rw [if_neg h]

theorem atwG_cull (can : State → Nat → Bool) (cl : State → Nat → Option Nat → R State) (d : Nat → Nat → Nat)
    (s : State) (nb : Nat) (rtt : Option Nat) (h : can s nb = true)
    (hd : d (d nb s.tailSize) s.logBase ≠ 0 ∧ d (d nb s.tailSize) s.logBase ≤ s.frames.length % 2^32) :
    atwG can cl d s nb rtt = cl { s with winBase := nb } (d nb s.tailSize) rtt := by
  unfold atwG; rw [if_pos h]; simp only []; rw [if_pos hd]

theorem atwG_keep (can : State → Nat → Bool) (cl : State → Nat → Option Nat → R State) (d : Nat → Nat → Nat)
    (s : State) (nb : Nat) (rtt : Option Nat) (h : can s nb = true)
    (hd : ¬ (d (d nb s.tailSize) s.logBase ≠ 0 ∧ d (d nb s.tailSize) s.logBase ≤ s.frames.length % 2^32)) :
    atwG can cl d s nb rtt = .ok { s with winBase := nb } := by
  unfold atwG; rw [if_pos h]; simp only []; rw [if_neg hd]

theorem WInv_atw (s : State) (nb : Nat) (rtt : Option Nat) (h : WInv s) :
    ∃ s', advanceTransferWindow s nb rtt = .ok s' ∧ WInv s' := by
  rw [atw_eq_G]
  by_cases hcan : canAdvanceTransferWindow s nb = true
  case neg => rw [atwG_no _ _ _ s nb rtt hcan]; exact ⟨s, rfl, h⟩
  have hc : wsub32 nb s.winBase ≠ 0 ∧ wsub32 nb s.winBase ≤ wsub32 s.logNext s.winBase := by
    unfold canAdvanceTransferWindow at hcan; exact of_decide_eq_true hcan
  have hll := h.len_le
  have hms := h.ms
  have hsm := h.small
  have hn := h.next
  have hw := h.win
  have ht := h.tail
  have hack1 : AckInv { s with winBase := nb } := ⟨h.ack.rinv, h.ack.bufAcked⟩
  obtain ⟨ha1, ha2, ha3⟩ := atw_arith s.logNext s.logBase s.winBase nb s.tailSize s.winSize s.frames.length
    hn hw ht hsm hc
  have hl32 : s.frames.length % 2^32 = s.frames.length := Nat.mod_eq_of_lt (by omega)
  by_cases hd : wsub32 (wsub32 nb s.tailSize) s.logBase ≠ 0 ∧
      wsub32 (wsub32 nb s.tailSize) s.logBase ≤ s.frames.length % 2^32
  · rw [atwG_cull _ _ _ s nb rtt hcan hd]
    have hk : wsub32 (wsub32 nb s.tailSize) s.logBase ≤ s.frames.length := by omega
    obtain ⟨hb1, hb2⟩ := ha2 ⟨hd.1, hk⟩
    obtain ⟨s', hcull, hack', e1, e2, e3, e4, e5, e6, e7, _, _⟩ := cull_inv { s with winBase := nb }
      (wsub32 nb s.tailSize) rtt hack1 (wsub32_lt _ _) hk hll (by rw [hms]; exact hsm)
    simp only [] at e1 e2 e3 e4 e5 e6 e7
    refine ⟨s', hcull, hack', ?_, ?_, ?_, ?_, ?_⟩
    · rw [e7, e5, e6]; exact hms
    · rw [e5, e6]; exact hsm
    · rw [e3, e1, e2]; exact hb1
    · rw [e3, e4, e5]; exact ha1
    · rw [e3, e4, e6, e2]; exact hb2
  · rw [atwG_keep _ _ _ s nb rtt hcan hd]
    refine ⟨_, rfl, hack1, hms, hsm, hn, ?_, ?_⟩
    · exact ha1
    · exact ha3 (by rw [hl32] at hd; exact hd)

abstract_const Uflow.wsub32 in Uflow.FrameQ.forgetFrames as ffG1
abstract_const Uflow.FrameQ.cull in Uflow.FrameQ.ffG1 as ffG

theorem ff_eq_G : @forgetFrames = ffG cull wsub32 := by
  delta forgetFrames ffG ffG1; rfl

theorem ffG_eq (cl : State → Nat → Option Nat → R State) (d : Nat → Nat → Nat) (s : State) (thresh : Nat)
    (rtt : Option Nat) :
    ffG cl d s thresh rtt =
      if d (wadd32 s.logBase (s.frames.takeWhile (fun e => e.sendTime < thresh)).length) s.logBase ≠ 0 then
        cl s (wadd32 s.logBase (s.frames.takeWhile (fun e => e.sendTime < thresh)).length) rtt
      else .ok s := by
  unfold ffG; rfl

theorem length_takeWhile_le' {α : Type} (p : α → Bool) (l : List α) : (l.takeWhile p).length ≤ l.length := by
  induction l with
  | nil => simp
  | cons a l ih =>
    rw [List.takeWhile_cons]
    split
    · simp only [List.length_cons]; omega
    · simp

theorem WInv_forget (s : State) (thresh : Nat) (rtt : Option Nat) (h : WInv s) :
    ∃ s', forgetFrames s thresh rtt = .ok s' ∧ WInv s' := by
  rw [ff_eq_G, ffG_eq]
  have hll := h.len_le
  have hms := h.ms
  have hsm := h.small
  have hn := h.next
  have hw := h.win
  have ht := h.tail
  have hkl : (s.frames.takeWhile (fun e => e.sendTime < thresh)).length ≤ s.frames.length :=
    length_takeWhile_le' _ _
  generalize (s.frames.takeWhile (fun e => e.sendTime < thresh)).length = k at hkl ⊢
  obtain ⟨hf1, hf2⟩ := forget_arith s.logNext s.logBase k s.frames.length hn hkl (by omega)
  by_cases hz : wsub32 (wadd32 s.logBase k) s.logBase ≠ 0
  · rw [if_pos hz]
    obtain ⟨s', hcull, hack', e1, e2, e3, e4, e5, e6, e7, _, _⟩ := cull_inv s (wadd32 s.logBase k) rtt h.ack
      (wadd32_lt _ _) (by omega) hll (by omega)
    refine ⟨s', hcull, hack', ?_, ?_, ?_, ?_, ?_⟩
    · rw [e7, e5, e6]; exact hms
    · rw [e5, e6]; exact hsm
    · rw [e3, e1, e2, hf1]; exact hf2
    · rw [e3, e4, e5]; exact hw
    · rw [e3, e4, e6, e2]; omega
  · rw [if_neg hz]; exact ⟨s, rfl, h⟩

variable {F : Type}

theorem WInv_feedback (ops : FloatOps F) (s s' : State) (now : Nat) (fb : Option (Feedback F)) (h : WInv s)
    (he : getFeedback ops s now = .ok (s', fb)) : WInv s' := by
  have key : ∀ (ad : Option AckData) (lf : Option Nat), WInv { s with ackData := ad, lastFeedback := lf } :=
    fun _ _ => ⟨⟨h.ack.rinv, h.ack.bufAcked⟩, h.ms, h.small, h.next, h.win, h.tail⟩
  unfold getFeedback at he
  split at he
  · cases he; exact h
  · split at he
    · cases he
    · split at he
      · cases he
      · cases he; exact key _ _

/-! ### runs -/

/-- What the half connection does to the frame queue. -/
inductive QOp where
  | push (size now : Nat) (refs : List (Nat × Nat)) (nonce : Bool)
  | ack (g : AckGroup) (rtt : Option Nat)
  | advance (nb : Nat) (rtt : Option Nat)
  | forget (thresh : Nat) (rtt : Option Nat)
  | feedback (now : Nat)
  deriving Repr, DecidableEq, Inhabited

def QOp.isFeedback : QOp → Bool
  | .feedback _ => true
  | _ => false

def stepQ (ops : FloatOps F) (s : State) : QOp → R State
  | .push size now refs nonce => .ok (push s size now refs nonce)
  | .ack g rtt => (acknowledgeGroup s g rtt).map (·.1)
  | .advance nb rtt => advanceTransferWindow s nb rtt
  | .forget thresh rtt => forgetFrames s thresh rtt
  | .feedback now => (getFeedback ops s now).map (·.1)

def runQ (ops : FloatOps F) (s : State) : List QOp → R State
  | [] => .ok s
  | op :: rest =>
    match stepQ ops s op with
    | .error t => .error t
    | .ok s' => runQ ops s' rest

theorem WInv_step (ops : FloatOps F) (s s' : State) (op : QOp) (h : WInv s) (he : stepQ ops s op = .ok s') :
    WInv s' := by
  cases op with
  | push size now refs nonce =>
    simp only [stepQ, Except.ok.injEq] at he; subst he; exact WInv_push s size now refs nonce h
  | ack g rtt =>
    obtain ⟨s1, frs, h1, h2⟩ := WInv_ack s g rtt h
    simp only [stepQ, h1, Except.map, Except.ok.injEq] at he; subst he; exact h2
  | advance nb rtt =>
    obtain ⟨s1, h1, h2⟩ := WInv_atw s nb rtt h
    simp only [stepQ, h1, Except.ok.injEq] at he; subst he; exact h2
  | forget thresh rtt =>
    obtain ⟨s1, h1, h2⟩ := WInv_forget s thresh rtt h
    simp only [stepQ, h1, Except.ok.injEq] at he; subst he; exact h2
  | feedback now =>
    simp only [stepQ] at he
    cases hg : getFeedback ops s now with
    | error t => rw [hg] at he; cases he
    | ok v =>
      rw [hg] at he
      simp only [Except.map, Except.ok.injEq] at he
      subst he
      exact WInv_feedback ops s v.1 now v.2 h hg

theorem WInv_step_ok (ops : FloatOps F) (s : State) (op : QOp) (h : WInv s) (hf : op.isFeedback = false) :
    ∃ s', stepQ ops s op = .ok s' := by
  cases op with
  | push size now refs nonce => exact ⟨_, rfl⟩
  | ack g rtt =>
    obtain ⟨s1, frs, h1, _⟩ := WInv_ack s g rtt h
    exact ⟨s1, by simp only [stepQ, h1, Except.map]⟩
  | advance nb rtt =>
    obtain ⟨s1, h1, _⟩ := WInv_atw s nb rtt h
    exact ⟨s1, h1⟩
  | forget thresh rtt =>
    obtain ⟨s1, h1, _⟩ := WInv_forget s thresh rtt h
    exact ⟨s1, h1⟩
  | feedback now => cases hf

theorem WInv_run (ops : FloatOps F) (l : List QOp) : ∀ (s s' : State), WInv s → runQ ops s l = .ok s' → WInv s' := by
  induction l with
  | nil => intro s s' h he; simp only [runQ, Except.ok.injEq] at he; subst he; exact h
  | cons op rest ih =>
    intro s s' h he
    rw [runQ] at he
    cases hs : stepQ ops s op with
    | error t => rw [hs] at he; cases he
    | ok s1 =>
      rw [hs] at he
      exact ih s1 s' (WInv_step ops s s1 op h hs) he

theorem WInv_run_ok (ops : FloatOps F) (l : List QOp) :
    ∀ (s : State), WInv s → (∀ op ∈ l, op.isFeedback = false) → ∃ s', runQ ops s l = .ok s' := by
  induction l with
  | nil => intro s _ _; exact ⟨s, rfl⟩
  | cons op rest ih =>
    intro s h hf
    obtain ⟨s1, hs⟩ := WInv_step_ok ops s op h (hf op List.mem_cons_self)
    rw [runQ, hs]
    exact ih s1 (WInv_step ops s s1 op h hs) (fun o ho => hf o (List.mem_cons_of_mem _ ho))

end Uflow.FrameQ
