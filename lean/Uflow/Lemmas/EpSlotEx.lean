import Uflow.Lemmas.EpSlot

/-! Example objects for `Uflow/Props/C17Timeout.lean`. -/

namespace Uflow.Endpoint

open Uflow.Gen Uflow.Codec Uflow.HalfConn

/-- A half connection that reports "send pending" for ever (a `flush` disconnect never fires). -/
def pendHC : HC Unit := { trivHC with isSendPending := fun _ => true }

/-- One active connection at most. -/
def oneCfg : SrvConfig := { maxTotalConnections := 8, maxActiveConnections := 1, enableHandshakeErrors := true, ep := exEp }

def oneServer : Server Unit := Server.init oneCfg 0 exRng

end Uflow.Endpoint
