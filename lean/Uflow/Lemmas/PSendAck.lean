import Uflow.Lemmas.PSendEmit

/-!
Helper lemmas for C12: acknowledged ("dead") fragments in the sender `PSend.State` and their
stability under every operation of the sender.
-/

namespace Uflow.PSend

open Uflow Uflow.Gen

/-- The fragment `(u, fid)` is dead: the identity `u` has been issued and every packet in the
window with that identity (there is at most one, or none once the window base moved past it) has
fragment `fid` acknowledged. -/
def Dead (ps : State) (u fid : Nat) : Prop :=
  u < ps.nextUid ∧ ∀ w ∈ ps.win, w.packet.uid = u → fid ∈ w.packet.acked

theorem findPacket_some (ps : State) (u : Nat) (p : Pending) (h : findPacket ps u = some p) :
    (∃ w ∈ ps.win, w.packet = p) ∧ p.uid = u := by
  simp only [findPacket, Option.map_eq_some_iff] at h
  obtain ⟨w, hw, rfl⟩ := h
  refine ⟨⟨w, List.mem_of_find?_eq_some hw, rfl⟩, ?_⟩
  have := List.find?_some hw
  simpa using this

theorem findPacket_none (ps : State) (u : Nat) (h : findPacket ps u = none) :
    ∀ w ∈ ps.win, w.packet.uid ≠ u := by
  simp only [findPacket, Option.map_eq_none_iff, List.find?_eq_none] at h
  intro w hw
  simpa using h w hw

/-- A dead fragment is skipped by the emitter loops: if its packet is found at all, the fragment is
in its `acked` set. -/
theorem dead_findPacket (ps : State) (u fid : Nat) (p : Pending) (hd : Dead ps u fid)
    (h : findPacket ps u = some p) : fid ∈ p.acked := by
  obtain ⟨⟨w, hw, rfl⟩, hu⟩ := findPacket_some ps u _ h
  exact hd.2 w hw hu

/-- A fragment whose packet has left the window is dead. -/
theorem dead_of_findPacket_none (ps : State) (u fid : Nat) (hu : u < ps.nextUid)
    (h : findPacket ps u = none) : Dead ps u fid :=
  ⟨hu, fun w hw he => absurd he (findPacket_none ps u h w hw)⟩

/-- After `ackFragment ps u fid` the fragment is dead. -/
theorem dead_ackFragment_self (ps : State) (u fid : Nat) (hu : u < ps.nextUid) :
    Dead (ackFragment ps u fid) u fid := by
  refine ⟨hu, ?_⟩
  intro w hw he
  simp only [ackFragment, List.mem_map] at hw
  obtain ⟨w0, _, rfl⟩ := hw
  split
  · simp
  · rename_i hn
    split at he
    · rename_i hc; exact absurd hc hn
    · simp only [not_and, Decidable.not_not] at hn
      exact hn he

theorem dead_ackFragment (ps : State) (u fid u' f' : Nat) (hd : Dead ps u fid) :
    Dead (ackFragment ps u' f') u fid := by
  refine ⟨hd.1, ?_⟩
  intro w hw he
  simp only [ackFragment, List.mem_map] at hw
  obtain ⟨w0, hw0, rfl⟩ := hw
  split
  · split at he
    · exact List.mem_cons_of_mem _ (hd.2 w0 hw0 he)
    · rename_i hc _; exact absurd hc ‹_›
  · split at he
    · rename_i hn hc; exact absurd hc hn
    · exact hd.2 w0 hw0 he

theorem ackLoop_suffix (fuel : Nat) (s s' : State) (rb : Nat) (h : ackLoop fuel s rb = .ok s') :
    (∃ dropped, s.win = dropped ++ s'.win) ∧ s'.nextUid = s.nextUid ∧ s'.queue = s.queue := by
  induction fuel generalizing s with
  | zero => simp [ackLoop] at h
  | succ n ih =>
    unfold ackLoop at h
    split at h
    · cases h; exact ⟨⟨[], rfl⟩, rfl, rfl⟩
    · split at h
      · cases h
      · rename_i e rest hw
        split at h
        · cases h
        · split at h
          · cases h
          · split at h
            · cases h
            · obtain ⟨⟨d, hd⟩, h2, h3⟩ := ih _ h
              refine ⟨⟨e :: d, ?_⟩, h2, h3⟩
              rw [hw]
              simp only at hd
              rw [hd]; rfl

theorem acknowledge_suffix (s s' : State) (rb : Nat) (h : acknowledge s rb = .ok s') :
    (∃ dropped, s.win = dropped ++ s'.win) ∧ s'.nextUid = s.nextUid ∧ s'.queue = s.queue := by
  unfold acknowledge at h
  simp only at h
  split at h
  · cases h; exact ⟨⟨[], rfl⟩, rfl, rfl⟩
  · split at h
    · cases h; exact ⟨⟨[], rfl⟩, rfl, rfl⟩
    · exact ackLoop_suffix _ _ _ _ h

theorem dead_acknowledge (ps ps' : State) (rb u fid : Nat) (h : acknowledge ps rb = .ok ps')
    (hd : Dead ps u fid) : Dead ps' u fid := by
  obtain ⟨⟨d, hw⟩, hn, _⟩ := acknowledge_suffix ps ps' rb h
  refine ⟨by rw [hn]; exact hd.1, ?_⟩
  intro w hw' he
  exact hd.2 w (by rw [hw]; exact List.mem_append_right _ hw') he

theorem emit_nextUid_le (ps ps' : State) (f : Nat) (r : Option (Pending × Bool))
    (h : emit ps f = .ok (ps', r)) : ps.nextUid ≤ ps'.nextUid := by
  obtain ⟨_, _, _, _, _, _, hcase⟩ := emit_cases ps ps' f r h
  rcases hcase with ⟨_, rfl⟩ | ⟨_, _, _, _, _, _, _, _, _, _, _, _, _, _, _, _, _, hn, _⟩
  · exact Nat.le_refl _
  · omega

theorem dead_emit (ps ps' : State) (f : Nat) (r : Option (Pending × Bool)) (u fid : Nat)
    (h : emit ps f = .ok (ps', r)) (hd : Dead ps u fid) : Dead ps' u fid := by
  obtain ⟨_, _, _, _, _, _, hcase⟩ := emit_cases ps ps' f r h
  rcases hcase with ⟨_, rfl⟩ | ⟨_, _, p, _, w, _, _, _, hpu, _, _, _, _, _, _, hwp, _, hwin, hn, _⟩
  · exact hd
  · refine ⟨by rw [hn]; exact Nat.lt_succ_of_lt hd.1, ?_⟩
    intro x hx he
    rw [hwin, List.mem_append, List.mem_singleton] at hx
    rcases hx with hx | rfl
    · exact hd.2 x hx he
    · rw [hwp, hpu] at he
      have := hd.1
      omega

theorem dead_enqueue (ps : State) (d : List Nat) (c : Nat) (m : SendMode) (f u fid : Nat)
    (hd : Dead ps u fid) : Dead (enqueue ps d c m f) u fid := hd

/-! ### uniqueness of packet identities -/

/-- Packet identities in the window are strictly increasing and already issued. -/
def UidInv (ps : State) : Prop :=
  (ps.win.map (·.packet.uid)).Pairwise (· < ·) ∧ ∀ w ∈ ps.win, w.packet.uid < ps.nextUid

theorem uidInv_init (w b a : Nat) : UidInv (init w b a) := by
  simp [UidInv, init]

theorem pairwise_unique (l : List WEntry) (h : (l.map (·.packet.uid)).Pairwise (· < ·))
    (a b : WEntry) (ha : a ∈ l) (hb : b ∈ l) (he : a.packet.uid = b.packet.uid) : a = b := by
  induction l with
  | nil => cases ha
  | cons x l ih =>
    simp only [List.map_cons, List.pairwise_cons, List.mem_map, forall_exists_index, and_imp,
      forall_apply_eq_imp_iff₂] at h
    simp only [List.mem_cons] at ha hb
    rcases ha with rfl | ha <;> rcases hb with rfl | hb
    · rfl
    · have := h.1 b hb; omega
    · have := h.1 a ha; omega
    · exact ih h.2 ha hb

/-- With unique identities, a fragment that the emitter loops skip because it is acknowledged
is dead. -/
theorem dead_of_acked (ps : State) (hu : UidInv ps) (u fid : Nat) (p : Pending)
    (hf : findPacket ps u = some p) (ha : fid ∈ p.acked) : Dead ps u fid := by
  obtain ⟨⟨w, hw, rfl⟩, hpu⟩ := findPacket_some ps u _ hf
  refine ⟨by rw [← hpu]; exact hu.2 w hw, ?_⟩
  intro w' hw' he
  have := pairwise_unique ps.win hu.1 w' w hw' hw (by rw [he, hpu])
  rw [this]; exact ha

theorem uidInv_ackFragment (ps : State) (u f : Nat) (h : UidInv ps) : UidInv (ackFragment ps u f) := by
  have hmap : (ackFragment ps u f).win.map (·.packet.uid) = ps.win.map (·.packet.uid) := by
    simp only [ackFragment, List.map_map]
    apply List.map_congr_left
    intro e _
    simp only [Function.comp]
    split <;> rfl
  refine ⟨by rw [hmap]; exact h.1, ?_⟩
  intro w hw
  simp only [ackFragment, List.mem_map] at hw
  obtain ⟨w0, hw0, rfl⟩ := hw
  have := h.2 w0 hw0
  split
  · exact this
  · exact this

theorem uidInv_acknowledge (ps ps' : State) (rb : Nat) (h : acknowledge ps rb = .ok ps')
    (hu : UidInv ps) : UidInv ps' := by
  obtain ⟨⟨d, hw⟩, hn, _⟩ := acknowledge_suffix ps ps' rb h
  refine ⟨?_, ?_⟩
  · have := hu.1
    rw [hw, List.map_append, List.pairwise_append] at this
    exact this.2.1
  · intro w hw'
    rw [hn]
    exact hu.2 w (by rw [hw]; exact List.mem_append_right _ hw')

theorem uidInv_emit (ps ps' : State) (f : Nat) (r : Option (Pending × Bool))
    (h : emit ps f = .ok (ps', r)) (hu : UidInv ps) : UidInv ps' := by
  obtain ⟨_, _, _, _, _, _, hcase⟩ := emit_cases ps ps' f r h
  rcases hcase with ⟨_, rfl⟩ | ⟨_, _, p, _, w, _, _, _, hpu, _, _, _, _, _, _, hwp, _, hwin, hn, _⟩
  · exact hu
  · refine ⟨?_, ?_⟩
    · rw [hwin, List.map_append, List.pairwise_append]
      refine ⟨hu.1, by simp, ?_⟩
      intro a ha b hb
      simp only [List.map_cons, List.map_nil, List.mem_singleton] at hb
      simp only [List.mem_map] at ha
      obtain ⟨x, hx, rfl⟩ := ha
      rw [hb, hwp, hpu]
      exact hu.2 x hx
    · intro x hx
      rw [hwin, List.mem_append, List.mem_singleton] at hx
      rw [hn]
      rcases hx with hx | rfl
      · exact Nat.lt_succ_of_lt (hu.2 x hx)
      · rw [hwp, hpu]; exact Nat.lt_succ_self _

theorem uidInv_enqueue (ps : State) (d : List Nat) (c : Nat) (m : SendMode) (f : Nat)
    (h : UidInv ps) : UidInv (enqueue ps d c m f) := h

/-- `emit` does not change what `findPacket` returns for already issued identities. -/
theorem findPacket_emit (ps ps' : State) (f : Nat) (r : Option (Pending × Bool)) (u : Nat)
    (h : emit ps f = .ok (ps', r)) (hu : u < ps.nextUid) : findPacket ps' u = findPacket ps u := by
  obtain ⟨_, _, _, _, _, _, hcase⟩ := emit_cases ps ps' f r h
  rcases hcase with ⟨_, rfl⟩ | ⟨_, _, p, _, w, _, _, _, hpu, _, _, _, _, _, _, hwp, _, hwin, hn, _⟩
  · rfl
  · simp only [findPacket, hwin, List.find?_append]
    have : List.find? (fun e => decide (e.packet.uid = u)) [w] = none := by
      simp only [List.find?_cons, List.find?_nil]
      have : w.packet.uid ≠ u := by rw [hwp, hpu]; omega
      simp [this]
    rw [this, Option.or_none]

/-! ### packets without expiry (not TimeSensitive) -/

/-- The packet with identity `u`, if it is in the window, is not TimeSensitive. -/
def NoExp (ps : State) (u : Nat) : Prop := ∀ p, findPacket ps u = some p → p.expiry = none

theorem findPacket_of_mem (ps : State) (hu : UidInv ps) (w : WEntry) (hw : w ∈ ps.win) :
    findPacket ps w.packet.uid = some w.packet := by
  cases hf : findPacket ps w.packet.uid with
  | none => exact absurd rfl (findPacket_none ps _ hf w hw)
  | some p =>
    obtain ⟨⟨w', hw', rfl⟩, hpu⟩ := findPacket_some ps _ _ hf
    rw [pairwise_unique ps.win hu.1 w' w hw' hw hpu]

theorem noExp_ackFragment (ps : State) (u a b : Nat) (h : NoExp ps u) :
    NoExp (ackFragment ps a b) u := by
  intro p' hp'
  obtain ⟨⟨w', hw', rfl⟩, hpu⟩ := findPacket_some _ _ _ hp'
  simp only [ackFragment, List.mem_map] at hw'
  obtain ⟨w0, hw0, rfl⟩ := hw'
  -- the first entry with identity `u` in the original window has the same expiry
  have key : ∀ (l : List WEntry) (p' : Pending),
      ((l.map fun e => if e.packet.uid = a ∧ ¬ (b ∈ e.packet.acked) then
          { e with packet := { e.packet with acked := b :: e.packet.acked } } else e).find?
        (fun e => e.packet.uid = u)).map (·.packet) = some p' →
      ∃ p, (l.find? (fun e => e.packet.uid = u)).map (·.packet) = some p ∧ p'.expiry = p.expiry := by
    intro l
    induction l with
    | nil => intro p' h; simp at h
    | cons x l ih =>
      intro p' h
      simp only [List.map_cons, List.find?_cons] at h ⊢
      have hx : (if x.packet.uid = a ∧ ¬ (b ∈ x.packet.acked) then
          ({ x with packet := { x.packet with acked := b :: x.packet.acked } } : WEntry) else x).packet.uid
          = x.packet.uid := by split <;> rfl
      rw [hx] at h
      by_cases hxu : x.packet.uid = u
      · simp only [hxu, decide_true, Option.map_some, Option.some.injEq] at h ⊢
        refine ⟨x.packet, rfl, ?_⟩
        rw [← h]
        split <;> rfl
      · simp only [hxu, decide_false] at h ⊢
        exact ih p' h
  obtain ⟨p, hp, he⟩ := key ps.win _ hp'
  rw [he]
  exact h p hp

theorem noExp_acknowledge (ps ps' : State) (rb u : Nat) (hu : UidInv ps)
    (h : acknowledge ps rb = .ok ps') (hn : NoExp ps u) : NoExp ps' u := by
  intro p' hp'
  obtain ⟨⟨d, hw⟩, _, _⟩ := acknowledge_suffix ps ps' rb h
  obtain ⟨⟨w', hw', rfl⟩, hpu⟩ := findPacket_some _ _ _ hp'
  have hmem : w' ∈ ps.win := by rw [hw]; exact List.mem_append_right _ hw'
  have := findPacket_of_mem ps hu w' hmem
  rw [hpu] at this
  exact hn _ this

theorem noExp_emit (ps ps' : State) (f : Nat) (r : Option (Pending × Bool)) (u : Nat)
    (h : emit ps f = .ok (ps', r)) (hu : u < ps.nextUid) (hn : NoExp ps u) : NoExp ps' u := by
  intro p hp
  rw [findPacket_emit ps ps' f r u h hu] at hp
  exact hn p hp

/-- The packet just emitted is found under its identity. -/
theorem findPacket_emit_new (ps ps' : State) (f : Nat) (p : Pending) (resend : Bool)
    (hu : UidInv ps) (h : emit ps f = .ok (ps', some (p, resend))) :
    findPacket ps' ps.nextUid = some p := by
  obtain ⟨_, _, _, _, _, _, hcase⟩ := emit_cases ps ps' f _ h
  rcases hcase with ⟨hc, _⟩ | ⟨_, _, p', _, w, _, hr, _, hpu, _, _, _, _, _, _, hwp, _, hwin, _, _⟩
  · cases hc
  · simp only [Option.some.injEq, Prod.mk.injEq] at hr
    obtain ⟨rfl, _⟩ := hr
    simp only [findPacket, hwin, List.find?_append]
    have h1 : List.find? (fun e => decide (e.packet.uid = ps.nextUid)) ps.win = none := by
      rw [List.find?_eq_none]
      intro x hx
      have := hu.2 x hx
      simp only [decide_eq_true_eq]
      omega
    rw [h1, Option.none_or]
    simp [hwp, hpu]

end Uflow.PSend
