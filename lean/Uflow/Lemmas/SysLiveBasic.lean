import Uflow.Lemmas.SysPassInv

/-!
Liveness of the composed system (C02Live), part 1: small facts about the receiver functions that the
safety proofs did not need — `window_ready` is untouched by the delivery pass, where the window pass
of `receive` stops, what `try_add` does to the fragment buffer of an active entry.
-/

namespace Uflow.Sys

open Uflow Uflow.Gen Uflow.Codec Uflow.PSend Uflow.PRecv Uflow.Frag

/-! ### `window_ready` and the delivery pass -/

theorem setChannelBase_wready (s s' : PRecv.State) (c newId : Nat) (h : setChannelBase s c newId = .ok s') :
    s'.windowReady = s.windowReady := by
  rw [setChannelBase_eq] at h
  cases hc : s.chans[c]? with
  | none => rw [hc] at h; cases h
  | some ch =>
    rw [hc] at h
    cases h
    show (scbStep2 (scbStep1 s ch) c newId).windowReady = _
    have h1 : (scbStep1 s ch).windowReady = s.windowReady := by
      unfold scbStep1; cases ch.base <;> rfl
    show (scbStep1 s ch).windowReady = _
    exact h1

theorem dlDeliver_wready (s : PRecv.State) (i : Nat) (sl : Slot) (ch : Chan) :
    (dlDeliver s i sl ch).windowReady = s.windowReady := by
  unfold dlDeliver; split <;> rfl

/-- The delivery pass of `receive` does not touch `window_ready`. -/
theorem deliverLoopT_wready (base endId : Nat) : ∀ (fuel : Nat) (s : PRecv.State) (seq : Nat) (evs : List Ev)
    (s' : PRecv.State) (evs' : List Ev), deliverLoopT base fuel s seq endId evs = .ok (s', evs') →
    s'.windowReady = s.windowReady := by
  intro fuel
  induction fuel with
  | zero => intro s seq evs s' evs' h; rw [deliverLoopT] at h; cases h
  | succ fuel ih =>
    intro s seq evs s' evs' h
    rw [deliverLoopT] at h
    split at h
    · cases h; rfl
    split at h
    · cases h; rfl
    simp only at h
    split at h
    · split at h
      · cases h
      · exact ih _ _ _ _ _ h
      · split at h
        · cases h
        · split at h
          · split at h
            · cases h
            · split at h
              · cases h
              · split at h
                · cases h
                · rename_i s2 hs2
                  rw [ih _ _ _ _ _ h, setChannelBase_wready _ _ _ _ hs2, dlDeliver_wready]
          · rw [ih _ _ _ _ _ h]
    · exact ih _ _ _ _ _ h

/-! ### where the window pass stops -/

/-- The window pass of `receive`, started with no received entry between `nb` and `seq`, returns a
base `r` such that either no received entry lies between `r` and `end_id`, or the first one, `y`,
fails the test (`window_parent_lead ≠ 0` and not beyond `sub(y, r)`). -/
theorem windowLoop_stop {W M : Nat} (s : PRecv.State) (hinv : Inv W M s) (base endId : Nat) (hb : base < 2^20)
    (he : endId < 2^20) :
    ∀ (fuel seq nb r : Nat), seq < 2^20 → nb < 2^20 → pidSub seq base ≤ pidSub endId base →
      pidSub nb base ≤ pidSub seq base →
      (∀ x, x < 2^20 → pidSub nb base ≤ pidSub x base → pidSub x base < pidSub seq base →
        (lget s.slots (wi W x)).entryFlag = false) →
      windowLoop fuel s seq endId nb = .ok r →
      r < 2^20 ∧ pidSub nb base ≤ pidSub r base ∧ pidSub r base ≤ pidSub endId base ∧
      ((∀ x, x < 2^20 → pidSub r base ≤ pidSub x base → pidSub x base < pidSub endId base →
          (lget s.slots (wi W x)).entryFlag = false) ∨
       (∃ y, y < 2^20 ∧ pidSub r base ≤ pidSub y base ∧ pidSub y base < pidSub endId base ∧
          (lget s.slots (wi W y)).entryFlag = true ∧ (lget s.slots (wi W y)).wpl ≠ 0 ∧
          (lget s.slots (wi W y)).wpl + pidSub r base ≤ pidSub y base ∧
          ∀ x, x < 2^20 → pidSub r base ≤ pidSub x base → pidSub x base < pidSub y base →
            (lget s.slots (wi W x)).entryFlag = false)) := by
  intro fuel
  induction fuel with
  | zero => intro seq nb r _ _ _ _ _ h; rw [windowLoop] at h; cases h
  | succ fuel ih =>
    intro seq nb r hs hnb hle hnle hno h
    rw [windowLoop] at h
    by_cases heq : seq = endId
    · rw [if_pos heq] at h
      cases h
      refine ⟨hnb, Nat.le_refl _, by rw [← heq]; exact hnle, Or.inl ?_⟩
      intro x hx h1 h2
      rw [← heq] at h2
      exact hno x hx h1 h2
    · rw [if_neg heq] at h
      have hn := PRecv.pidAdd_lt seq 1
      have hlt : pidSub seq base < pidSub endId base := by
        rcases Nat.lt_or_ge (pidSub seq base) (pidSub endId base) with h | h
        · exact h
        · exact absurd (id_eq_of_off seq endId base hs he (by omega)) heq
      have hoff : pidSub (pidAdd seq 1) base = pidSub seq base + 1 :=
        off_succ _ _ (by have := pidSub_lt endId base; omega)
      simp only at h
      rw [widx_eq hinv, getSlot_eq] at h
      split at h
      · rename_i hentry
        split at h
        · obtain ⟨r1, r2, r3, r4⟩ := ih _ _ r hn hn (by omega) (Nat.le_refl _) (by
            intro x _ h1 h2; omega) h
          exact ⟨r1, by omega, r3, r4⟩
        · rename_i hw
          cases h
          refine ⟨hnb, Nat.le_refl _, by omega, Or.inr ⟨seq, hs, hnle, hlt, hentry, ?_, ?_, ?_⟩⟩
          · intro h0; exact hw (Or.inl h0)
          · rw [off_shift seq base _ hb hnb hnle] at hw
            omega
          · intro x hx h1 h2; exact hno x hx h1 h2
      · rename_i hentry
        refine ih _ _ r hn hnb (by omega) (by omega) ?_ h
        intro x hx h1 h2
        rw [hoff] at h2
        rcases Nat.lt_or_ge (pidSub x base) (pidSub seq base) with hlt' | hge
        · exact hno x hx h1 hlt'
        · have : x = seq := id_eq_of_off x seq base hx hs (by omega)
          rw [this]
          simpa using hentry

/-! ### `FragBuf.write` and `try_add` on the fragment set -/

theorem write_has_mono (b b' : FragBuf) (i : Nat) (x : List Nat) (h : b.write i x = .ok b') :
    b'.has i = true ∧ ∀ j, b.has j = true → b'.has j = true := by
  refine ⟨(write_ok_has b b' i x h).1, ?_⟩
  intro j hj
  simp only [FragBuf.write] at h
  split at h
  · cases h
  · split at h
    · cases h; exact hj
    · split at h
      · cases h
      · split at h
        · cases h
        · cases h
          simp only [FragBuf.has, List.any_append, Bool.or_eq_true] at hj ⊢
          exact Or.inl hj

/-- The assembly entry of the slot is active and its buffer holds fragment `f`. -/
def HasFrag (A : Asm) (f : Nat) : Prop :=
  ∃ a c w cp l buf, A = .active a c w cp l buf ∧ buf.has f = true

/-- What `try_add` does when it hands nothing over: nothing at all (closed entry, or active entry and
a datagram with another header), or the entry is afterwards active, holds the datagram's fragment,
and has lost none. -/
theorem tryAdd_none (s : PRecv.State) (i : Nat) (d : Datagram) (s1 : PRecv.State)
    (h : tryAdd s i d = .ok (s1, none)) :
    (s1 = s ∧ ((∃ a, (getSlot s i).asm = .closed a) ∨
      (∃ a c w cp l buf, (getSlot s i).asm = .active a c w cp l buf ∧
        (d.channelId ≠ c ∨ d.windowParentLead ≠ w ∨ d.channelParentLead ≠ cp ∨ d.fragmentIdLast ≠ l)))) ∨
    (HasFrag (getSlot s1 i).asm d.fragmentId ∧
      ∀ f, HasFrag (getSlot s i).asm f → HasFrag (getSlot s1 i).asm f) := by
  unfold tryAdd at h
  simp only at h
  cases hasm : (getSlot s i).asm with
  | opened =>
    rw [hasm] at h
    simp only at h
    split at h
    · cases h
    · split at h
      · cases h
      · split at h
        · cases h
        · rename_i buf hw
          simp only [Except.ok.injEq, Prod.mk.injEq, and_true] at h
          subst h
          right
          refine ⟨⟨_, _, _, _, _, buf, by rw [getSlot_setSlot_alloc], (write_has_mono _ _ _ _ hw).1⟩, ?_⟩
          rintro f ⟨a, c, w, cp, l, b, hb, -⟩
          cases hb
  | closed a =>
    rw [hasm] at h
    simp only at h
    cases h
    exact Or.inl ⟨rfl, Or.inl ⟨a, rfl⟩⟩
  | active a chan wpl cpl last buf =>
    rw [hasm] at h
    simp only at h
    split at h
    · rename_i hm
      cases h
      exact Or.inl ⟨rfl, Or.inr ⟨a, chan, wpl, cpl, last, buf, rfl, hm⟩⟩
    · split at h
      · cases h
      · rename_i buf' hw
        split at h
        · cases h
        · simp only [Except.ok.injEq, Prod.mk.injEq, and_true] at h
          subst h
          right
          obtain ⟨m1, m2⟩ := write_has_mono _ _ _ _ hw
          refine ⟨⟨_, _, _, _, _, buf', by rw [getSlot_setSlot], m1⟩, ?_⟩
          rintro f ⟨a', c', w', cp', l', b, hb, hf⟩
          cases hb
          exact ⟨_, _, _, _, _, buf', by rw [getSlot_setSlot], m2 f hf⟩

end Uflow.Sys
