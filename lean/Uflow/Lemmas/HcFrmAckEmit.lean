import Uflow.Lemmas.HcFrmAckQ
import Uflow.Lemmas.HcSysEmit

/-!
C01Hc (frame-level acknowledgements), part 2: the ack frames `emit_ack_frames` builds carry only ack
groups that were pending in the frame acknowledgement queue, at most `2^16 - 1` of them per frame, and
what remains in the queue was pending before; a parsed ack frame gives back the groups.
-/

namespace Uflow.HcFrm

open Uflow Uflow.Gen Uflow.Codec Uflow.HalfConn Uflow.FrameQ

variable {F : Type}

/-- An ack frame with bases `fb`, `pb` all of whose groups satisfy `G`. -/
def AckW (G : AckGroup → Prop) (fb pb : Nat) (b : List Nat) : Prop :=
  ∃ gs, b = encode (.ack fb pb gs) ∧ gs.length < 2^16 ∧ ∀ g ∈ gs, G g

/-- Invariant of the in-progress ack frame. -/
def IpOk (G : AckGroup → Prop) (ip : Option AckProg) : Prop :=
  ∀ a, ip = some a → (∀ g ∈ a.groups, G g) ∧ a.size ≤ MAX_FRAME_SIZE

theorem size_len (a : AckProg) (h : a.size ≤ MAX_FRAME_SIZE) : a.groups.length < 2^16 := by
  simp only [AckProg.size, FRAME_OVERHEAD, ACK_FRAME_PAYLOAD_HEADER_SIZE, ACK_GROUP_SIZE, MAX_FRAME_SIZE] at h
  omega

theorem ackFin_groups (G : AckGroup → Prop) (fb pb : Nat) (s : State F) (ip : Option AckProg)
    (out : List (List Nat)) (hip : IpOk G ip) (h : ∀ b ∈ out, AckW G fb pb b) :
    (∀ b ∈ (Credit.ackFin fb pb s ip out).2, AckW G fb pb b) ∧ (Credit.ackFin fb pb s ip out).1.aq = s.aq := by
  cases ip with
  | none => exact ⟨h, rfl⟩
  | some a =>
    refine ⟨?_, rfl⟩
    intro b hb
    simp only [Credit.ackFin, List.mem_append, List.mem_singleton] at hb
    rcases hb with hb | rfl
    · exact h b hb
    · obtain ⟨h1, h2⟩ := hip a rfl
      exact ⟨_, rfl, size_len a h2, h1⟩

theorem ipOk_single (G : AckGroup → Prop) (g : AckGroup) (hg : G g) : IpOk G (some { groups := [g] }) := by
  intro a ha
  cases ha
  refine ⟨?_, (by
    simp only [AckProg.size, FRAME_OVERHEAD, ACK_FRAME_PAYLOAD_HEADER_SIZE, ACK_GROUP_SIZE, MAX_FRAME_SIZE,
      List.length_cons, List.length_nil]
    omega)⟩
  intro g' hg'
  rw [List.mem_singleton.mp hg']; exact hg

theorem ackLoop_groups (G : AckGroup → Prop) (fb pb : Nat) (fuel : Nat) (s : State F) (ip : Option AckProg)
    (out : List (List Nat)) (hE : ∀ g ∈ s.aq.entries, G g) (hip : IpOk G ip)
    (hout : ∀ b ∈ out, AckW G fb pb b) :
    (∀ b ∈ (emitAckFrames.loop (Credit.ackFin fb pb) fuel s ip out).2.1, AckW G fb pb b) ∧
    (∀ g ∈ (emitAckFrames.loop (Credit.ackFin fb pb) fuel s ip out).1.aq.entries, G g) ∧
    (emitAckFrames.loop (Credit.ackFin fb pb) fuel s ip out).1.aq.baseId = s.aq.baseId ∧
    (emitAckFrames.loop (Credit.ackFin fb pb) fuel s ip out).1.aq.size = s.aq.size := by
  induction fuel generalizing s ip out with
  | zero => exact ⟨hout, hE, rfl, rfl⟩
  | succ n ih =>
    simp only [emitAckFrames.loop]
    obtain ⟨f1, f2⟩ := ackFin_groups G fb pb s ip out hip hout
    cases hen : s.aq.entries with
    | nil =>
      simp only []
      refine ⟨f1, ?_, by rw [f2], by rw [f2]⟩
      rw [f2, hen]; intro g hg; cases hg
    | cons g rest =>
      simp only []
      have hg : G g := hE g (by rw [hen]; exact List.mem_cons_self)
      have hrest : ∀ g' ∈ rest, G g' := fun g' hg' => hE g' (by rw [hen]; exact List.mem_cons_of_mem _ hg')
      cases ip with
      | none =>
        simp only []
        split
        · exact ⟨hout, hE, rfl, rfl⟩
        · exact ih _ _ _ hrest (ipOk_single G g hg) hout
      | some a =>
        simp only []
        split
        · refine ⟨f1, ?_, by rw [f2], by rw [f2]⟩
          rw [f2]; exact hE
        · split
          · rename_i hbig
            split
            · refine ⟨f1, ?_, by rw [f2], by rw [f2]⟩
              rw [f2]; exact hE
            · obtain ⟨r1, r2, r3, r4⟩ := ih { (Credit.ackFin fb pb s (some a) out).1 with
                  aq := { (Credit.ackFin fb pb s (some a) out).1.aq with entries := rest } }
                (some { groups := [g] }) (Credit.ackFin fb pb s (some a) out).2 hrest (ipOk_single G g hg) f1
              refine ⟨r1, r2, ?_, ?_⟩
              · rw [r3]; show (Credit.ackFin fb pb s (some a) out).1.aq.baseId = _; rw [f2]
              · rw [r4]; show (Credit.ackFin fb pb s (some a) out).1.aq.size = _; rw [f2]
          · rename_i hfit
            refine ih _ _ _ hrest ?_ hout
            intro a' ha'
            cases ha'
            obtain ⟨h1, h2⟩ := hip a rfl
            refine ⟨?_, ?_⟩
            · intro g' hg'
              rcases List.mem_append.mp hg' with hg' | hg'
              · exact h1 g' hg'
              · rw [List.mem_singleton.mp hg']; exact hg
            · simp only [AckProg.size, List.length_append, List.length_cons, List.length_nil, FRAME_OVERHEAD,
                ACK_FRAME_PAYLOAD_HEADER_SIZE, ACK_GROUP_SIZE, MAX_FRAME_SIZE] at hfit ⊢
              omega

/-- **The ack frames of `emit_ack_frames`**: each carries the queue's and the packet receiver's base
ids and fewer than `2^16` groups, all of which were pending in the queue; the groups left in the queue
were pending before; the window of the queue is unchanged. -/
theorem emitAckFrames_groups (G : AckGroup → Prop) (s : State F) (hE : ∀ g ∈ s.aq.entries, G g) :
    (∀ b ∈ (emitAckFrames s).2.1, AckW G s.aq.baseId s.pr.baseId b) ∧
    (∀ g ∈ (emitAckFrames s).1.aq.entries, G g) ∧
    (emitAckFrames s).1.aq.baseId = s.aq.baseId ∧ (emitAckFrames s).1.aq.size = s.aq.size := by
  rw [Credit.emitAckFrames_eq]
  split
  · exact ⟨fun b hb => (by cases hb), hE, rfl, rfl⟩
  · refine ackLoop_groups G _ _ _ s _ [] hE ?_ (fun b hb => (by cases hb))
    intro a ha
    split at ha
    · cases ha
      refine ⟨fun g hg => (by cases hg), ?_⟩
      simp only [AckProg.size, FRAME_OVERHEAD, ACK_FRAME_PAYLOAD_HEADER_SIZE, ACK_GROUP_SIZE, MAX_FRAME_SIZE,
        List.length_nil]
      omega
    · cases ha

theorem encode_ack_mod (fb pb : Nat) (gs : List AckGroup) :
    encode (.ack (fb % 2^32) (pb % 2^32) gs) = encode (.ack fb pb gs) := by
  unfold encode
  simp only [encodeBody]
  rw [be32_mod, be32_mod]

/-- A parsed ack frame gives back the emitted groups. -/
theorem decode_ackW (G : AckGroup → Prop) (fb pb : Nat) (b : List Nat)
    (h : AckW (fun g => AckGroupOk g ∧ G g) fb pb b) (fb' pb' : Nat) (gs' : List AckGroup)
    (hd : decode b = some (.ack fb' pb' gs')) : ∀ g ∈ gs', G g := by
  obtain ⟨gs, rfl, hlen, hg⟩ := h
  have hrep : Representable (.ack (fb % 2^32) (pb % 2^32) gs) :=
    ⟨Nat.mod_lt _ (by decide), Nat.mod_lt _ (by decide), hlen, fun g hg' => (hg g hg').1⟩
  rw [← encode_ack_mod, decode_encode _ hrep] at hd
  simp only [Option.some.injEq, Frame.ack.injEq] at hd
  obtain ⟨-, -, rfl⟩ := hd
  exact fun g hg' => (hg g hg').2

end Uflow.HcFrm
