import Uflow.Lemmas.SysRecoverThm

/-!
Recovery of the composed system after a blackout (C11Sys), part 5: the queued packets of a reachable
state come from the `enq` steps of the schedule; reading single deliveries off the log equations.
-/

namespace Uflow.Props.C11

open Uflow Uflow.Gen Uflow.Codec Uflow.PSend Uflow.PRecv Uflow.Frag Uflow.Sys

/-- Only `enq` steps extend the list of submitted packets. -/
theorem step_enqueued (s s' : Sys) (op : SOp) (h : stepS s op = .ok s') :
    s'.hist.enqueued = s.hist.enqueued ∨
    ∃ d c m f, op = .enq d c m f ∧
      s'.hist.enqueued = s.hist.enqueued ++ [{ data := d, channelId := c, mode := m, flushId := f }] := by
  cases op with
  | enq d c m f =>
    simp only [stepS] at h
    split at h
    · simp only [stepH, bindR_ok] at h
      cases h
      exact Or.inr ⟨d, c, m, f, rfl, rfl⟩
    · cases h; exact Or.inl rfl
  | emit f =>
    left
    simp only [stepS] at h
    cases hr : stepH s.snd s.hist (.emit f) with
    | error t => rw [hr] at h; cases h
    | ok r =>
      rw [hr, bindR_ok] at h
      cases h
      show r.2.enqueued = s.hist.enqueued
      simp only [stepH] at hr
      split at hr
      · cases hr
      · cases hr; rfl
      · cases hr; rfl
  | deliver k =>
    left
    simp only [stepS] at h
    split at h
    · cases h; rfl
    · split at h
      · cases hg : stepT s.rcv (.dg _) with
        | error t => rw [hg] at h; cases h
        | ok g => rw [hg, bindR_ok] at h; cases h; rfl
      · cases h; rfl
  | recv =>
    left
    simp only [stepS] at h
    cases hg : stepT s.rcv .recv with
    | error t => rw [hg] at h; cases h
    | ok g => rw [hg, bindR_ok] at h; cases h; rfl
  | ack k =>
    left
    simp only [stepS] at h
    split at h
    · cases h; rfl
    · split at h
      · cases hr : stepH s.snd s.hist (.ack _) with
        | error t => rw [hr] at h; cases h
        | ok r =>
          rw [hr, bindR_ok] at h
          cases h
          show r.2.enqueued = s.hist.enqueued
          simp only [stepH] at hr
          split at hr
          · cases hr
          · cases hr; rfl
      · cases h; rfl
  | sync =>
    left
    simp only [stepS] at h
    split at h
    · cases h; rfl
    · cases h; rfl
  | resync k =>
    left
    simp only [stepS] at h
    split at h
    · cases h; rfl
    · split at h
      · cases hg : stepT s.rcv (.resync _) with
        | error t => rw [hg] at h; cases h
        | ok g => rw [hg, bindR_ok] at h; cases h; rfl
      · cases h; rfl

/-- Every submitted packet of a run comes from an `enq` step of the schedule (or was there before). -/
theorem run_enqueued (ops : List SOp) : ∀ (s s' : Sys), runS s ops = .ok s' →
    ∀ q ∈ s'.hist.enqueued, q ∈ s.hist.enqueued ∨ SOp.enq q.data q.channelId q.mode q.flushId ∈ ops := by
  induction ops with
  | nil => intro s s' h q hq; cases h; exact Or.inl hq
  | cons op rest ih =>
    intro s s' h q hq
    rw [runS] at h
    cases hs : stepS s op with
    | error t => rw [hs] at h; cases h
    | ok s1 =>
      rw [hs, bindR_ok] at h
      rcases ih s1 s' h q hq with h1 | h1
      · rcases step_enqueued s s1 op hs with h2 | ⟨d, c, m, f, rfl, h2⟩
        · rw [h2] at h1; exact Or.inl h1
        · rw [h2] at h1
          rcases List.mem_append.mp h1 with h3 | h3
          · exact Or.inl h3
          · rw [List.mem_singleton.mp h3]
            exact Or.inr List.mem_cons_self
      · exact Or.inr (List.mem_cons_of_mem _ h1)

/-- The packets waiting in the send queue of a reachable state were submitted by `enq` steps of the
schedule. -/
theorem queue_from_ops {w k b a m : Nat} (H : Hyp w k b a m) (ops : List SOp) (s : Sys)
    (h : runS (initS w (2^k) b a m) ops = .ok s) :
    ∀ q ∈ s.snd.queue, SOp.enq q.data q.channelId q.mode q.flushId ∈ ops := by
  intro q hq
  have hs := Reach.sinv H ⟨ops, h⟩
  have hsub := hs.snd.hinv.order.1
  have hm : q ∈ s.hist.enqueued := hsub.subset (List.mem_append.mpr (Or.inr hq))
  rcases run_enqueued ops _ s h q hm with h1 | h1
  · cases h1
  · exact h1

/-- Reading one delivery off the log equations of `recover_schedule`. -/
theorem delivered_of_lists (E0 : Nat) (es : List Emitted) (new : List LogE) (Q : List QEntry)
    (hes : es.map Emitted.toQ = Q)
    (huid : new.map LogE.uid = List.range' E0 es.length)
    (hcd : new.map (fun e => (e.chan, e.data)) = es.map (fun x => (x.channelId, some x.data))) :
    ∀ q ∈ Q, ∃ e ∈ new, e.chan = q.channelId ∧ e.data = some q.data ∧ E0 ≤ e.uid := by
  intro q hq
  rw [← hes] at hq
  obtain ⟨x, hx, rfl⟩ := List.mem_map.mp hq
  have hm : (x.channelId, some x.data) ∈ new.map (fun e => (e.chan, e.data)) := by
    rw [hcd]; exact List.mem_map.mpr ⟨x, hx, rfl⟩
  obtain ⟨e, he, hpair⟩ := List.mem_map.mp hm
  simp only [Prod.mk.injEq] at hpair
  have hu : e.uid ∈ List.range' E0 es.length := by
    rw [← huid]; exact List.mem_map.mpr ⟨e, he, rfl⟩
  rw [List.mem_range'_1] at hu
  exact ⟨e, he, hpair.1, hpair.2, hu.1⟩

/-- The `(channel, payload)` list of the emitted packets, through their queue entries. -/
theorem chan_data_toQ (es : List Emitted) :
    es.map (fun x => (x.channelId, some x.data)) =
      (es.map Emitted.toQ).map (fun q => (q.channelId, some q.data)) := by
  rw [List.map_map]
  rfl

end Uflow.Props.C11
