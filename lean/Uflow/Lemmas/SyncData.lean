import Uflow.Model.HalfConn

/-!
Helper lemmas for C11, part 2: `emitDataFrames` re-arms the sync timer (`syncTimeoutBase := nowMs`)
exactly when it sends a frame, and leaves the receiver side (`aq`, `pr`, `syncReply`) alone.
-/

namespace Uflow.SyncCycle

open Uflow Uflow.Gen Uflow.Codec Uflow.HalfConn

variable {F : Type}

/-- Invariant of `emitDataFrames` relative to the state `s0` at its start: the sync timer is re-armed
iff a frame has been sent; every frame sent is a data frame; clock and receiver side unchanged. -/
structure SyncInv (s0 : State F) (e : Emit F) : Prop where
  now : e.s.nowMs = s0.nowMs
  quiet : e.out = [] → e.s.syncTimeoutBase = s0.syncTimeoutBase
  armed : e.out ≠ [] → e.s.syncTimeoutBase = s0.nowMs
  data : ∀ f ∈ e.out, ∃ id n dgs, f = encode (.data id n dgs)
  reply : e.s.syncReply = s0.syncReply
  aq : e.s.aq = s0.aq
  pr : e.s.pr = s0.pr
  rto : e.s.rtoMs = s0.rtoMs
  keep : e.s.keepalive = s0.keepalive
  fqIdle : e.out = [] → e.s.fq.logNext = s0.fq.logNext ∧ e.s.fq.winBase = s0.fq.winBase

theorem SyncInv.of_eqs {s0 : State F} {e e' : Emit F} (hi : SyncInv s0 e)
    (h1 : e'.s.nowMs = e.s.nowMs) (h2 : e'.s.syncTimeoutBase = e.s.syncTimeoutBase)
    (h3 : e'.out = e.out) (h4 : e'.s.syncReply = e.s.syncReply) (h5 : e'.s.aq = e.s.aq)
    (h6 : e'.s.pr = e.s.pr) (h7 : e'.s.rtoMs = e.s.rtoMs) (h8 : e'.s.keepalive = e.s.keepalive)
    (h9 : e'.s.fq.logNext = e.s.fq.logNext) (h10 : e'.s.fq.winBase = e.s.fq.winBase) :
    SyncInv s0 e' := by
  refine ⟨h1.trans hi.now, fun h => h2.trans (hi.quiet ?_), fun h => h2.trans (hi.armed ?_),
    fun f hf => hi.data f ?_, h4.trans hi.reply, h5.trans hi.aq, h6.trans hi.pr,
    h7.trans hi.rto, h8.trans hi.keep, fun h => ?_⟩
  · rw [← h3]; exact h
  · rw [← h3]; exact h
  · rw [← h3]; exact hf
  · rw [h9, h10]; exact hi.fqIdle (by rw [← h3]; exact h)

theorem dfeFinalize_some (e : Emit F) (ip : InProg) (h : e.inProg = some ip) :
    (dfeFinalize e).s.nowMs = e.s.nowMs ∧ (dfeFinalize e).s.syncTimeoutBase = e.s.nowMs ∧
    (dfeFinalize e).out = e.out ++ [encode (.data ip.frameId ip.nonce ip.dgs)] ∧
    (dfeFinalize e).s.syncReply = e.s.syncReply ∧ (dfeFinalize e).s.aq = e.s.aq ∧
    (dfeFinalize e).s.pr = e.s.pr ∧ (dfeFinalize e).s.rtoMs = e.s.rtoMs ∧
    (dfeFinalize e).s.keepalive = e.s.keepalive := by
  simp only [dfeFinalize, h]
  exact ⟨trivial, trivial, trivial, trivial, trivial, trivial, trivial, trivial⟩

theorem dfeFinalize_sync (s0 : State F) (e : Emit F) (hi : SyncInv s0 e) :
    SyncInv s0 (dfeFinalize e) := by
  cases h : e.inProg with
  | none =>
    have : dfeFinalize e = e := by simp only [dfeFinalize, h]
    rw [this]; exact hi
  | some ip =>
    obtain ⟨h1, h2, h3, h4, h5, h6, h7, h8⟩ := dfeFinalize_some e ip h
    refine ⟨h1.trans hi.now, fun h => ?_, fun _ => h2.trans hi.now, ?_, h4.trans hi.reply,
      h5.trans hi.aq, h6.trans hi.pr, h7.trans hi.rto, h8.trans hi.keep, fun h => ?_⟩
    · rw [h3] at h
      exact absurd h (List.append_ne_nil_of_right_ne_nil _ (List.cons_ne_nil _ _))
    rotate_left
    · rw [h3] at h
      exact absurd h (List.append_ne_nil_of_right_ne_nil _ (List.cons_ne_nil _ _))
    · intro f hf
      rw [h3] at hf
      simp only [List.mem_append, List.mem_singleton] at hf
      rcases hf with hf | hf
      · exact hi.data f hf
      · exact ⟨_, _, _, hf⟩

theorem dfePush_sync (s0 : State F) (e e' : Emit F) (p : PSend.Pending) (fid : Nat) (resend : Bool)
    (r : Option PushErr) (hi : SyncInv s0 e) (h : dfePush e p fid resend = .ok (e', r)) :
    SyncInv s0 e' := by
  have hf := dfeFinalize_sync s0 e hi
  simp only [dfePush] at h
  split at h
  · cases h
  · repeat' split at h
    all_goals first
      | (cases h; first | exact hi.of_eqs rfl rfl rfl rfl rfl rfl rfl rfl rfl rfl | exact hf.of_eqs rfl rfl rfl rfl rfl rfl rfl rfl rfl rfl)
      | cases h

theorem resendLoop_sync (s0 : State F) (fuel : Nat) (e e' : Emit F) (st : Option Stage)
    (hi : SyncInv s0 e) (h : resendLoop fuel e = .ok (e', st)) : SyncInv s0 e' := by
  induction fuel generalizing e with
  | zero => simp [resendLoop] at h
  | succ n ih =>
    unfold resendLoop at h
    split at h
    · cases h; exact hi
    · rename_i entry _
      have hpop : SyncInv s0 (match heapPop e.s.resend with
          | some (_, hh) => { e with s := { e.s with resend := hh } }
          | none => e) := by
        split
        · exact hi.of_eqs rfl rfl rfl rfl rfl rfl rfl rfl rfl rfl
        · exact hi
      simp only at h
      split at h
      · exact ih _ hpop h
      · rename_i p hfp
        split at h
        · exact ih _ hpop h
        · split at h
          · cases h; exact hi
          · split at h
            · cases h
            · rename_i e1 hpush
              cases h
              exact dfePush_sync s0 e _ p _ _ _ hi hpush
            · rename_i e1 hpush
              cases h
              exact dfePush_sync s0 e _ p _ _ _ hi hpush
            · rename_i e1 hpush
              have h1 := dfePush_sync s0 e _ p _ _ _ hi hpush
              split at h
              · cases h
              · (refine ih _ ?_ h; exact h1.of_eqs rfl rfl rfl rfl rfl rfl rfl rfl rfl rfl)

theorem pendingInner_sync (s0 : State F) (fuel : Nat) (e e' : Emit F) (st : Option Stage)
    (hi : SyncInv s0 e) (h : pendingInner fuel e = .ok (e', st)) : SyncInv s0 e' := by
  induction fuel generalizing e with
  | zero => simp [pendingInner] at h
  | succ n ih =>
    unfold pendingInner at h
    split at h
    · cases h; exact hi
    · rename_i entry rest _
      split at h
      · (refine ih _ ?_ h; exact hi.of_eqs rfl rfl rfl rfl rfl rfl rfl rfl rfl rfl)
      · rename_i p hfp
        split at h
        · (refine ih _ ?_ h; exact hi.of_eqs rfl rfl rfl rfl rfl rfl rfl rfl rfl rfl)
        · split at h
          · (refine ih _ ?_ h; exact hi.of_eqs rfl rfl rfl rfl rfl rfl rfl rfl rfl rfl)
          · split at h
            · cases h
            · rename_i e1 hpush
              cases h
              exact dfePush_sync s0 e _ p _ _ _ hi hpush
            · rename_i e1 hpush
              cases h
              exact dfePush_sync s0 e _ p _ _ _ hi hpush
            · rename_i e1 hpush
              have h1 := dfePush_sync s0 e _ p _ _ _ hi hpush
              refine ih _ ?_ h
              simp only
              split
              · exact h1.of_eqs rfl rfl rfl rfl rfl rfl rfl rfl rfl rfl
              · exact h1.of_eqs rfl rfl rfl rfl rfl rfl rfl rfl rfl rfl

theorem pendingOuter_sync (s0 : State F) (fuel : Nat) (e e' : Emit F) (st : Option Stage)
    (hi : SyncInv s0 e) (h : pendingOuter fuel e = .ok (e', st)) : SyncInv s0 e' := by
  induction fuel generalizing e with
  | zero => simp [pendingOuter] at h
  | succ n ih =>
    unfold pendingOuter at h
    simp only at h
    split at h
    · cases h
    · rename_i e1 href
      cases h
      split at href
      · split at href
        · cases href
        · cases href
          exact hi.of_eqs rfl rfl rfl rfl rfl rfl rfl rfl rfl rfl
        · cases href
      · cases href
    · rename_i e1 href
      have h1 : SyncInv s0 e1 := by
        split at href
        · split at href
          · cases href
          · cases href
          · cases href
            exact hi.of_eqs rfl rfl rfl rfl rfl rfl rfl rfl rfl rfl
        · cases href
          exact hi
      split at h
      · cases h
      · rename_i e2 st2 hin
        cases h
        exact pendingInner_sync s0 _ e1 _ _ h1 hin
      · rename_i e2 hin
        exact ih _ (pendingInner_sync s0 _ e1 _ _ h1 hin) h

/-- `emitDataFrames` re-arms the sync timer iff it sends a frame. -/
theorem emitDataFrames_sync (s s' : State F) (out : List (List Nat)) (st : Stage)
    (h : emitDataFrames s = .ok (s', out, st)) :
    SyncInv s ({ s := s', inProg := none, out := out } : Emit F) := by
  have h0 : SyncInv s ({ s := s, inProg := none, out := [] } : Emit F) :=
    ⟨rfl, fun _ => rfl, fun h => absurd rfl h, (fun f hf => nomatch hf), rfl, rfl, rfl, rfl, rfl, fun _ => ⟨rfl, rfl⟩⟩
  unfold emitDataFrames at h
  simp only at h
  split at h
  · cases h
  · rename_i e1 st1 hr
    cases h
    exact (resendLoop_sync s _ _ _ _ h0 hr).of_eqs rfl rfl rfl rfl rfl rfl rfl rfl rfl rfl
  · rename_i e1 hr
    have h1 := resendLoop_sync s _ _ _ _ h0 hr
    split at h
    · cases h
    · rename_i e2 st2 hp
      cases h
      exact (pendingOuter_sync s _ _ _ _ h1 hp).of_eqs rfl rfl rfl rfl rfl rfl rfl rfl rfl rfl
    · rename_i e2 hp
      cases h
      exact (dfeFinalize_sync s e2 (pendingOuter_sync s _ _ _ _ h1 hp)).of_eqs rfl rfl rfl rfl rfl rfl rfl rfl rfl rfl

end Uflow.SyncCycle
