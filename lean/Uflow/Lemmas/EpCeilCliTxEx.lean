import Uflow.Lemmas.EpCeilCliTxHc
import Uflow.Lemmas.EpCeilEx

/-!
C13 (endpoints), client wire: concrete runs from `Client::connect` (`exCli0`, nonce 55), evaluated by
the kernel.

* `exHsOps`: the SYN-ACK `synAckL` (ceiling 1472 B/s) activates the client; in a second `step` at the
  same instant 170 copies of it arrive. Log: the activation ACK, then 170 handshake ACKs.
* `exHonOps`: the SYN-ACK, a `send`, a `step` in which a data frame of the server arrives, `flush`,
  `step`. Log: the activation ACK, then one data frame of the half connection.
-/

namespace Uflow.EpCeil.Ex

open Uflow Uflow.Gen Uflow.Codec Uflow.HalfConn Uflow.Endpoint Uflow.EpNoTrap Uflow.EpNoTrap.Ex Uflow.CreditEx

def exHsOps : List COp := [.step 1000000 [synAckL], .step 1000000 (List.replicate 170 synAckL)]

/-- The run `exHsOps`: trap free, `Active` with local nonce 55 and ceiling 1472; 171 datagrams sent;
`sent[0]` is the activation ACK; the 170 datagrams after position `k = 1` are all `hsAckBytes 88`,
1530 bytes; the half connection emitted nothing (all of them are handshake ACKs). -/
def exHsRunChk : Bool :=
  match Client.run hcN exCli0 exHsOps with
  | .ok (c, sent, _) =>
    sent.length == 171 && sent[0]? == some (hsAckBytes 88) && Credit.bytes (sent.drop 1) == 1530 &&
    (sent.drop 1).all (· == hsAckBytes 88) && cRateOf c == some (1472, 1472) &&
    (match c.state with | .active ln _ _ _ => ln == 55 | _ => false)
  | .error _ => false

theorem exHsRunChk_true : exHsRunChk = true ∧ copsOk 0 exHsOps = true := by decide +kernel

theorem exHs_nonces : (saNonces 55 (List.replicate 170 synAckL)).length = 170 ∧
    copsArrivals exHsOps = [] ++ synAckL :: List.replicate 170 synAckL := by decide +kernel

def exHonOps : List COp :=
  [.step 1000000 [synAck], .send [1, 2, 3] 0 .reliable, .step 2000000 [cGoodData], .flush, .step 3000000 []]

/-- The run `exHonOps`: trap free, `Active`; events `connect`, `receive [4, 5, 6]`; two datagrams sent:
the activation ACK (9 bytes) and one data frame (19 bytes). -/
def exHonRunChk : Bool :=
  match Client.run hcN exCli0 exHonOps with
  | .ok (c, sent, evs) =>
    sent.map List.length == [9, 19] && sent[0]? == some (hsAckBytes 88) &&
    evs == [CEvent.connect, CEvent.receive [4, 5, 6]] &&
    (match c.state with | .active ln _ _ _ => ln == 55 | _ => false)
  | .error _ => false

theorem exHonRunChk_true : exHonRunChk = true ∧ copsOk 0 exHonOps = true := by decide +kernel

theorem exHon_arrivals : copsArrivals exHonOps = [synAck, cGoodData] ∧
    (∃ f, decode (cGoodData.take MAX_FRAME_SIZE) = some f ∧ ∀ na n r p a, f ≠ .synAck na n r p a) := by
  refine ⟨by decide +kernel, .data 88 false [cDgGood], by decide +kernel, by intros; simp⟩

/-- No SYN-ACK among the arrivals of `exHonOps` is followed by a SYN-ACK acknowledging the same nonce. -/
theorem exHon_honest : ∀ (na : Nat) (rx1 : List (List Nat)) (b : List Nat) (rx2 : List (List Nat)),
    copsArrivals exHonOps = rx1 ++ b :: rx2 →
    (∃ n r p al, decode (b.take MAX_FRAME_SIZE) = some (.synAck na n r p al)) → saNonces na rx2 = [] := by
  intro na rx1 b rx2 he hb
  obtain ⟨ha, f, hf, hnf⟩ := exHon_arrivals
  rw [ha] at he
  cases rx1 with
  | nil =>
    simp only [List.nil_append, List.cons.injEq] at he
    obtain ⟨_, rfl⟩ := he
    exact saNonces_single_none (saNonce_other hf hnf)
  | cons x rest =>
    cases rest with
    | nil =>
      simp only [List.cons_append, List.nil_append, List.cons.injEq] at he
      obtain ⟨_, rfl, rfl⟩ := he
      rfl
    | cons y rest2 =>
      simp only [List.cons_append, List.cons.injEq] at he
      obtain ⟨_, _, he⟩ := he
      cases rest2 <;> cases he

end Uflow.EpCeil.Ex
