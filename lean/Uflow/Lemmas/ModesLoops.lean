import Uflow.Lemmas.Modes

/-!
C12: `Spec` for the instrumented emitter loops and for `flushT`.
-/

namespace Uflow.Modes

open Uflow Uflow.Gen Uflow.Codec Uflow.HalfConn Uflow.Wire Uflow.Heap
open Uflow.PSend (Dead)

variable {F : Type}

/-- `s'` has the same sender, queues and clocks as `s`. -/
def TxSame (s s' : State F) : Prop :=
  s'.ps = s.ps ∧ s'.pending = s.pending ∧ s'.resend = s.resend ∧ s'.nowMs = s.nowMs ∧
  s'.rttMs = s.rttMs ∧ s'.flushId = s.flushId

theorem TxSame.refl (s : State F) : TxSame s s := ⟨rfl, rfl, rfl, rfl, rfl, rfl⟩

theorem TxSame.trans {a b c : State F} (h1 : TxSame a b) (h2 : TxSame b c) : TxSame a c :=
  ⟨h2.1.trans h1.1, h2.2.1.trans h1.2.1, h2.2.2.1.trans h1.2.2.1, h2.2.2.2.1.trans h1.2.2.2.1,
   h2.2.2.2.2.1.trans h1.2.2.2.2.1, h2.2.2.2.2.2.trans h1.2.2.2.2.2⟩

theorem spec_txSame (s s' : State F) (hq : QInv s) (h : TxSame s s') : Spec s [] s' :=
  spec_quiet s s' hq (by rw [h.1]) (by rw [h.1]) h.2.2.1 h.2.2.2.2.2 ⟨[], h.2.1.symm⟩

theorem dfeFinalize_tx (e : Emit F) : TxSame e.s (dfeFinalize e).s := by
  cases h : e.inProg <;> simp [dfeFinalize, h, TxSame]

theorem dfePush_tx (e e' : Emit F) (p : PSend.Pending) (fid : Nat) (resend : Bool)
    (r : Option PushErr) (h : dfePush e p fid resend = .ok (e', r)) : TxSame e.s e'.s := by
  have hf := dfeFinalize_tx e
  simp only [dfePush] at h
  split at h
  · cases h
  · repeat' split at h
    all_goals first
      | (cases h; first | exact ⟨rfl, rfl, rfl, rfl, rfl, rfl⟩ | exact hf)
      | cases h

/-! ### one-step equations of the instrumented loops -/

theorem not_skipped_of {ps : PSend.State} {u fid : Nat} {p : PSend.Pending}
    (h1 : PSend.findPacket ps u = some p) (h2 : fid ∉ p.acked) : ¬ Skipped ps u fid := by
  rintro (hn | ⟨p', hp', ha⟩)
  · rw [h1] at hn; cases hn
  · rw [h1] at hp'; cases hp'; exact h2 ha

theorem resendLoopT_spec (fuel : Nat) (e e' : Emit F) (tr tr' : List Push) (st : Option Stage)
    (hq : QInv e.s) (h : resendLoopT fuel e tr = .ok (e', st, tr')) :
    ∃ add, tr' = tr ++ add ∧ Spec e.s add e'.s := by
  induction fuel generalizing e tr with
  | zero => simp [resendLoopT] at h
  | succ n ih =>
    unfold resendLoopT at h
    cases h0 : e.s.resend[0]? with
    | none =>
      simp only [h0] at h
      cases h
      exact ⟨[], by simp, Spec.refl _ hq⟩
    | some entry =>
      obtain ⟨hh, hpop⟩ := heapPop_isSome e.s.resend entry h0
      simp only [h0, hpop] at h
      cases h1 : PSend.findPacket e.s.ps entry.uid with
      | none =>
        simp only [h1] at h
        have hs := spec_popResend e.s ({ e.s with resend := hh }) entry hh hq hpop (.inl h1) rfl rfl rfl rfl
        obtain ⟨add, hadd, hsp⟩ := ih _ _ hs.inv h
        have := hs.trans hsp
        rw [List.nil_append] at this
        exact ⟨add, hadd, this⟩
      | some p =>
        simp only [h1] at h
        split at h
        · rename_i hack
          have hs := spec_popResend e.s ({ e.s with resend := hh }) entry hh hq hpop
            (.inr ⟨p, h1, hack⟩) rfl rfl rfl rfl
          obtain ⟨add, hadd, hsp⟩ := ih _ _ hs.inv h
          have := hs.trans hsp
          rw [List.nil_append] at this
          exact ⟨add, hadd, this⟩
        · rename_i hnack
          split at h
          · cases h
            exact ⟨[], by simp, Spec.refl _ hq⟩
          · cases hpush : dfePush e p entry.fid true with
            | error t => rw [hpush] at h; cases h
            | ok v =>
              obtain ⟨e1, err⟩ := v
              rw [hpush] at h
              have htx := dfePush_tx e e1 p entry.fid true err hpush
              cases err with
              | some pe =>
                cases pe <;>
                · simp only [Except.ok.injEq, Prod.mk.injEq] at h
                  obtain ⟨rfl, _, rfl⟩ := h
                  exact ⟨[], by simp, spec_txSame _ _ hq htx⟩
              | none =>
                simp only [htx.2.2.1, hpop] at h
                have hs := spec_pushResend e.s
                  ({ e1.s with resend := heapPush hh ⟨entry.uid, entry.fid, e1.s.nowMs + e1.s.rttMs * 2 ^ entry.sendCount, min (entry.sendCount + 1) MAX_SEND_COUNT⟩ })
                  entry ⟨entry.uid, entry.fid, e1.s.nowMs + e1.s.rttMs * 2 ^ entry.sendCount, min (entry.sendCount + 1) MAX_SEND_COUNT⟩
                  hh hq hpop (not_skipped_of h1 hnack) rfl rfl e1.s.flushId p.expiry htx.2.2.2.2.2
                  (fun hT => hT.res_noexp entry ((mem_heapPop e.s.resend hh entry entry hpop).mpr (.inl rfl)) p h1)
                  htx.1 htx.2.1 rfl htx.2.2.2.2.2
                obtain ⟨add, hadd, hsp⟩ := ih _ _ hs.inv h
                exact ⟨_ ++ add, by rw [hadd, List.append_assoc], hs.trans hsp⟩

theorem pendingInnerT_spec (fuel : Nat) (e e' : Emit F) (tr tr' : List Push) (st : Option Stage)
    (hq : QInv e.s) (h : pendingInnerT fuel e tr = .ok (e', st, tr')) :
    ∃ add, tr' = tr ++ add ∧ Spec e.s add e'.s := by
  induction fuel generalizing e tr with
  | zero => simp [pendingInnerT] at h
  | succ n ih =>
    unfold pendingInnerT at h
    cases h0 : e.s.pending with
    | nil =>
      simp only [h0] at h
      cases h
      exact ⟨[], by simp, Spec.refl _ hq⟩
    | cons entry rest =>
      simp only [h0] at h
      have hpop : Spec e.s [] ({ e.s with pending := rest } : State F) :=
        spec_quiet e.s _ hq rfl rfl rfl rfl ⟨[entry], by rw [h0]; rfl⟩
      cases h1 : PSend.findPacket e.s.ps entry.uid with
      | none =>
        simp only [h1] at h
        obtain ⟨add, hadd, hsp⟩ := ih _ _ hpop.inv h
        have := hpop.trans hsp
        rw [List.nil_append] at this
        exact ⟨add, hadd, this⟩
      | some p =>
        simp only [h1] at h
        split at h
        · obtain ⟨add, hadd, hsp⟩ := ih _ _ hpop.inv h
          have := hpop.trans hsp
          rw [List.nil_append] at this
          exact ⟨add, hadd, this⟩
        · rename_i hnack
          split at h
          · -- an expired TimeSensitive packet whose fragment 0 is still queued: the queue is cleared
            have hclr : Spec e.s [] ({ e.s with pending := [] } : State F) :=
              spec_quiet e.s _ hq rfl rfl rfl rfl ⟨entry :: rest, by rw [h0]; simp⟩
            obtain ⟨add, hadd, hsp⟩ := ih _ _ hclr.inv h
            have := hclr.trans hsp
            rw [List.nil_append] at this
            exact ⟨add, hadd, this⟩
          rename_i hnexp
          cases hpush : dfePush e p entry.fid entry.resend with
          | error t => rw [hpush] at h; cases h
          | ok v =>
            obtain ⟨e1, err⟩ := v
            rw [hpush] at h
            have htx := dfePush_tx e e1 p entry.fid entry.resend err hpush
            cases err with
            | some pe =>
              cases pe <;>
              · simp only [Except.ok.injEq, Prod.mk.injEq] at h
                obtain ⟨rfl, _, rfl⟩ := h
                exact ⟨[], by simp, spec_txSame _ _ hq htx⟩
            | none =>
              simp only at h
              have hts : entry.fid = 0 → p.expiry = none ∨ p.expiry = some e.s.flushId := by
                intro hz
                cases hpx : p.expiry with
                | none => exact .inl rfl
                | some f =>
                  right
                  have hne : ¬ (p.expired e.s.flushId = true) := fun hx => hnexp ⟨hz, hx⟩
                  simp only [PSend.Pending.expired, hpx, bne_iff_ne, ne_eq, Decidable.not_not] at hne
                  rw [hne]
              have hs : Spec e.s
                  [{ uid := entry.uid, fid := entry.fid, resend := entry.resend, fromResend := false,
                     flushId := e1.s.flushId, expiry := p.expiry }]
                  (if entry.resend then
                    { e1.s with pending := rest, resend := heapPush e1.s.resend ⟨entry.uid, entry.fid, e1.s.nowMs + e1.s.rttMs, 1⟩ }
                  else { e1.s with pending := rest } : State F) := by
                refine spec_pushPending e.s _ entry rest (e1.s.nowMs + e1.s.rttMs) 1 hq h0
                  (not_skipped_of h1 hnack) e1.s.flushId p.expiry htx.2.2.2.2.2 hts
                  (fun hT hr => hT.pend_flag entry (by rw [h0]; simp) hr p h1) ?_ ?_ ?_ ?_
                · split <;> exact htx.1
                · split <;> rfl
                · split
                  · simp only [htx.2.2.1]
                  · exact htx.2.2.1
                · split <;> exact htx.2.2.2.2.2
              obtain ⟨add, hadd, hsp⟩ := ih _ _ hs.inv h
              exact ⟨_ ++ add, by rw [hadd, List.append_assoc], hs.trans hsp⟩

theorem refill_spec (e e1 : Emit F) (b : Bool) (hq : QInv e.s) (h : refill e = .ok (e1, b)) :
    Spec e.s [] e1.s := by
  unfold refill at h
  split at h
  · rename_i hemp
    have hempty : e.s.pending = [] := by simpa using hemp
    cases hem : PSend.emit e.s.ps e.s.flushId with
    | error t => rw [hem] at h; cases h
    | ok v =>
      obtain ⟨ps', r⟩ := v
      rw [hem] at h
      cases r with
      | none =>
        simp only [Except.ok.injEq, Prod.mk.injEq] at h
        obtain ⟨rfl, _⟩ := h
        obtain ⟨_, _, _, _, _, _, hcase⟩ := PSend.emit_cases e.s.ps ps' _ _ hem
        rcases hcase with ⟨_, rfl⟩ | ⟨_, _, _, _, _, _, hr, _⟩
        · exact spec_quiet e.s _ hq rfl rfl rfl rfl ⟨[], rfl⟩
        · cases hr
      | some pr =>
        obtain ⟨p, resend⟩ := pr
        simp only [Except.ok.injEq, Prod.mk.injEq] at h
        obtain ⟨rfl, _⟩ := h
        exact spec_refill_some e.s _ e.s.flushId ps' p resend hq hempty hem rfl rfl rfl rfl
  · simp only [Except.ok.injEq, Prod.mk.injEq] at h
    obtain ⟨rfl, _⟩ := h
    exact Spec.refl _ hq

theorem pendingOuterT_spec (fuel : Nat) (e e' : Emit F) (tr tr' : List Push) (st : Option Stage)
    (hq : QInv e.s) (h : pendingOuterT fuel e tr = .ok (e', st, tr')) :
    ∃ add, tr' = tr ++ add ∧ Spec e.s add e'.s := by
  induction fuel generalizing e tr with
  | zero => simp [pendingOuterT] at h
  | succ n ih =>
    unfold pendingOuterT at h
    cases hr : refill e with
    | error t => rw [hr] at h; cases h
    | ok v =>
      obtain ⟨e1, b⟩ := v
      rw [hr] at h
      have hs1 := refill_spec e e1 b hq hr
      cases b with
      | false =>
        simp only [Except.ok.injEq, Prod.mk.injEq] at h
        obtain ⟨rfl, _, rfl⟩ := h
        exact ⟨[], by simp, hs1⟩
      | true =>
        simp only at h
        cases hin : pendingInnerT (e1.s.pending.length + 2) e1 tr with
        | error t => rw [hin] at h; cases h
        | ok v2 =>
          obtain ⟨e2, st2, tr2⟩ := v2
          rw [hin] at h
          obtain ⟨add2, hadd2, hs2⟩ := pendingInnerT_spec _ e1 e2 tr tr2 st2 hs1.inv hin
          have hs12 := hs1.trans hs2
          rw [List.nil_append] at hs12
          cases st2 with
          | some s2 =>
            simp only [Except.ok.injEq, Prod.mk.injEq] at h
            obtain ⟨rfl, _, rfl⟩ := h
            exact ⟨add2, hadd2, hs12⟩
          | none =>
            simp only at h
            obtain ⟨add3, hadd3, hs3⟩ := ih _ _ hs2.inv h
            exact ⟨add2 ++ add3, by rw [hadd3, hadd2, List.append_assoc], hs12.trans hs3⟩

end Uflow.Modes
