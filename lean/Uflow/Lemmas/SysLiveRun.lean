import Uflow.Lemmas.SysLiveRecv

/-!
Liveness of the composed system (C02Live), part 4: the liveness invariant `LInv` of the system and
its preservation by every step of `stepS`.
-/

namespace Uflow.Sys

open Uflow Uflow.Gen Uflow.Codec Uflow.PSend Uflow.PRecv Uflow.Frag

/-- The liveness invariant of the system: the receiver part `RL`, the link `LG` between the log and
the entry flags, and completeness of the ghost network (every fragment of every emitted packet is
in `net`). -/
structure LInv (W : Nat) (s : Sys) : Prop where
  rl : RL W s.rcv.st
  lg : LG W s.rcv
  nf : ∀ i p, s.pend[i]? = some p → ∀ f d, f ≤ p.lastFragmentId → p.datagram f = .ok d → (i, d) ∈ s.net

theorem linv_init (w W b a m : Nat) : LInv W (initS w W b a m) where
  rl := rl_init W b m
  lg := by intro e he; cases he
  nf := by intro i p h; simp [initS] at h

theorem mem_dgsOf_of (i : Nat) (p : Pending) (f : Nat) (d : Datagram) (hf : f ≤ p.lastFragmentId)
    (hd : p.datagram f = .ok d) : (i, d) ∈ dgsOf i p := by
  unfold dgsOf
  rw [List.mem_filterMap]
  exact ⟨f, List.mem_range.mpr (by omega), by rw [hd]⟩

/-- The honesty hypothesis of `receiveT_live`, from the system invariant. -/
theorem hon_wpl {b0 w W M : Nat} (hw : w ≤ 2^16) {s : Sys} (h : SInv b0 w W M s) :
    ∀ x, x < 2^20 → pidSub x s.rcv.st.baseId < W → (lget s.rcv.st.slots (wi W x)).entryFlag = true →
      (∀ j, (∃ y, s.hist.emitted[j]? = some y ∧ y.mode = .reliable) → s.rcv.adv ≤ j →
        j < s.rcv.adv + pidSub x s.rcv.st.baseId →
        (lget s.rcv.st.slots (wi W x)).wpl ≠ 0 ∧
        j + (lget s.rcv.st.slots (wi W x)).wpl ≤ s.rcv.adv + pidSub x s.rcv.st.baseId) ∧
      ((lget s.rcv.st.slots (wi W x)).wpl ≠ 0 →
        (lget s.rcv.st.slots (wi W x)).wpl ≤ s.rcv.adv + pidSub x s.rcv.st.baseId ∧
        ∃ y, s.hist.emitted[s.rcv.adv + pidSub x s.rcv.st.baseId - (lget s.rcv.st.slots (wi W x)).wpl]? = some y ∧
          y.mode = .reliable) := by
  intro x hx hxo hen
  obtain ⟨h1, h2⟩ := wpl_honest hw h x hx hxo hen
  exact ⟨fun j ⟨y, hy, hrel⟩ a b => h1 j y hy hrel a b, h2⟩

theorem linv_recv {b0 w W M : Nat} (hW : WOk W) (hw : w ≤ 2^16) {s s' : Sys} (h : SInv b0 w W M s)
    (l : LInv W s) (hs : stepS s .recv = .ok s') : LInv W s' := by
  simp only [stepS] at hs
  cases hg : stepT s.rcv .recv with
  | error t => rw [hg] at hs; cases hs
  | ok g =>
    rw [hg, bindR_ok] at hs
    cases hs
    rw [stepT_recv] at hg
    cases hr : receiveT s.rcv.st with
    | error t => rw [hr] at hg; cases hg
    | ok pr =>
      rw [hr, bindR_ok] at hg
      cases hg
      have hr' : receiveT s.rcv.st = .ok (pr.1, pr.2) := hr
      refine ⟨?_, ?_, l.nf⟩
      · exact receiveT_live hW h.rcv.inv h.rcv.ord h.rcv.gi l.rl _ (hon_wpl hw h) hr'
      · exact receiveT_lg hW h.rcv.inv h.rcv.ord h.rcv.gi l.rl l.lg hr'

theorem linv_deliver {b0 w W M : Nat} (hW : WOk W) {s s' : Sys} (h : SInv b0 w W M s) (l : LInv W s)
    (k : Nat) (hs : stepS s (.deliver k) = .ok s') : LInv W s' := by
  simp only [stepS] at hs
  split at hs
  · cases hs; exact l
  · rename_i i d hk
    split at hs
    · rw [stepT_dg] at hs
      cases hd : handleDatagram s.rcv.st d with
      | error t => rw [hd] at hs; cases hs
      | ok st' =>
        rw [hd, bindR_ok, bindR_ok] at hs
        cases hs
        obtain ⟨hrl, hent⟩ := handleDatagram_live hW h.rcv.inv h.rcv.ord l.rl d hd
        refine ⟨hrl, ?_, l.nf⟩
        intro e he hu
        exact hent _ (l.lg e he hu)
    · cases hs; exact l

theorem linv_step {b0 w W M : Nat} (hW : WOk W) (hw : w ≤ 2^16) {s s' : Sys} (h : SInv b0 w W M s)
    (l : LInv W s) (op : SOp) (hs : stepS s op = .ok s') : LInv W s' := by
  cases op with
  | recv => exact linv_recv hW hw h l hs
  | deliver k => exact linv_deliver hW h l k hs
  | enq d c m f =>
    simp only [stepS] at hs
    split at hs
    · simp only [stepH, bindR_ok] at hs
      cases hs
      exact ⟨l.rl, l.lg, l.nf⟩
    · cases hs; exact l
  | emit f =>
    simp only [stepS] at hs
    cases hr : stepH s.snd s.hist (.emit f) with
    | error t => rw [hr] at hs; cases hs
    | ok r =>
      rw [hr, bindR_ok] at hs
      cases hs
      refine ⟨l.rl, l.lg, ?_⟩
      intro i p hp f' d hf hd
      have hp' : (s.pend ++ (emitted? s.snd f).toList)[i]? = some p := hp
      show (i, d) ∈ s.net ++ (emitted? s.snd f).toList.flatMap (dgsOf s.pend.length)
      cases hem : emitted? s.snd f with
      | none =>
        rw [hem] at hp'
        simp only [Option.toList, List.append_nil] at hp'
        exact List.mem_append.mpr (Or.inl (l.nf i p hp' f' d hf hd))
      | some q =>
        rw [hem] at hp'
        simp only [Option.toList] at hp'
        rcases getElem?_snoc_some _ _ _ _ hp' with hp' | ⟨hil, rfl⟩
        · exact List.mem_append.mpr (Or.inl (l.nf i p hp' f' d hf hd))
        · refine List.mem_append.mpr (Or.inr ?_)
          simp only [Option.toList, List.flatMap_cons, List.flatMap_nil, List.append_nil]
          rw [hil]
          exact mem_dgsOf_of _ _ f' d hf hd
  | ack k =>
    simp only [stepS] at hs
    split at hs
    · cases hs; exact l
    · split at hs
      · rename_i a rb hk hfresh
        cases hr : stepH s.snd s.hist (.ack rb) with
        | error t => rw [hr] at hs; cases hs
        | ok r =>
          rw [hr, bindR_ok] at hs
          cases hs
          exact ⟨l.rl, l.lg, l.nf⟩
      · cases hs; exact l

theorem linv_run {b0 w W M : Nat} (hW : WOk W) (hw : w ≤ 2^16) (ops : List SOp) :
    ∀ {s s' : Sys}, SInv b0 w W M s → LInv W s → runS s ops = .ok s' → LInv W s' := by
  induction ops with
  | nil => intro s s' _ l hr; cases hr; exact l
  | cons op rest ih =>
    intro s s' h l hr
    rw [runS] at hr
    cases hs : stepS s op with
    | error t => rw [hs] at hr; cases hr
    | ok s1 =>
      rw [hs, bindR_ok] at hr
      exact ih (sinv_step hW (by omega) h op hs) (linv_step hW hw h l op hs) hr

end Uflow.Sys
