import Uflow.Lemmas.SysLiveRecv

/-!
Liveness of the composed system (C02Live), part 4: the liveness invariant `LInv` of the system and
its preservation by every step of `stepS`.
-/

namespace Uflow.Sys

open Uflow Uflow.Gen Uflow.Codec Uflow.PSend Uflow.PRecv Uflow.Frag

/-- The liveness invariant of the system: the receiver part `RL`, the link `LG` between the log and
the entry flags, and completeness of the ghost network (every fragment of every emitted packet is
in `net`). -/
structure LInv (W : Nat) (s : Sys) : Prop where
  rl : RL W s.rcv.st
  lg : LG W s.rcv
  nf : ∀ i p, s.pend[i]? = some p → ∀ f d, f ≤ p.lastFragmentId → p.datagram f = .ok d → (i, d) ∈ s.net

theorem linv_init (w W b a m : Nat) : LInv W (initS w W b a m) where
  rl := rl_init W b m
  lg := by intro e he; cases he
  nf := by intro i p h; simp [initS] at h

theorem mem_dgsOf_of (i : Nat) (p : Pending) (f : Nat) (d : Datagram) (hf : f ≤ p.lastFragmentId)
    (hd : p.datagram f = .ok d) : (i, d) ∈ dgsOf i p := by
  unfold dgsOf
  rw [List.mem_filterMap]
  exact ⟨f, List.mem_range.mpr (by omega), by rw [hd]⟩

/-- The honesty hypothesis of `receiveT_live`, from the system invariant. -/
theorem hon_wpl {b0 w W M : Nat} (hw : w ≤ 2^16) {s : Sys} (h : SInv b0 w W M s) :
    ∀ x, x < 2^20 → pidSub x s.rcv.st.baseId < W → (lget s.rcv.st.slots (wi W x)).entryFlag = true →
      (∀ j, (∃ y, s.hist.emitted[j]? = some y ∧ y.mode = .reliable) → s.rcv.adv ≤ j →
        j < s.rcv.adv + pidSub x s.rcv.st.baseId →
        (lget s.rcv.st.slots (wi W x)).wpl ≠ 0 ∧
        j + (lget s.rcv.st.slots (wi W x)).wpl ≤ s.rcv.adv + pidSub x s.rcv.st.baseId) ∧
      ((lget s.rcv.st.slots (wi W x)).wpl ≠ 0 →
        (lget s.rcv.st.slots (wi W x)).wpl ≤ s.rcv.adv + pidSub x s.rcv.st.baseId ∧
        ∃ y, s.hist.emitted[s.rcv.adv + pidSub x s.rcv.st.baseId - (lget s.rcv.st.slots (wi W x)).wpl]? = some y ∧
          y.mode = .reliable) := by
  intro x hx hxo hen
  obtain ⟨h1, h2⟩ := wpl_honest hw h x hx hxo hen
  exact ⟨fun j ⟨y, hy, hrel⟩ a b => h1 j y hy hrel a b, h2⟩

theorem linv_recv {b0 w W M : Nat} (hW : WOk W) (hw : w ≤ 2^16) {s s' : Sys} (h : SInv b0 w W M s)
    (l : LInv W s) (hs : stepS s .recv = .ok s') : LInv W s' := by
  simp only [stepS] at hs
  cases hg : stepT s.rcv .recv with
  | error t => rw [hg] at hs; cases hs
  | ok g =>
    rw [hg, bindR_ok] at hs
    cases hs
    rw [stepT_recv] at hg
    cases hr : receiveT s.rcv.st with
    | error t => rw [hr] at hg; cases hg
    | ok pr =>
      rw [hr, bindR_ok] at hg
      cases hg
      have hr' : receiveT s.rcv.st = .ok (pr.1, pr.2) := hr
      refine ⟨?_, ?_, l.nf⟩
      · exact receiveT_live hW h.rcv.inv h.rcv.ord h.rcv.gi l.rl _ (hon_wpl hw h) hr'
      · exact receiveT_lg hW h.rcv.inv h.rcv.ord h.rcv.gi l.rl l.lg hr'

theorem linv_deliver {b0 w W M : Nat} (hW : WOk W) {s s' : Sys} (h : SInv b0 w W M s) (l : LInv W s)
    (k : Nat) (hs : stepS s (.deliver k) = .ok s') : LInv W s' := by
  simp only [stepS] at hs
  split at hs
  · cases hs; exact l
  · rename_i i d hk
    split at hs
    · rw [stepT_dg] at hs
      cases hd : handleDatagram s.rcv.st d with
      | error t => rw [hd] at hs; cases hs
      | ok st' =>
        rw [hd, bindR_ok, bindR_ok] at hs
        cases hs
        obtain ⟨hrl, hent⟩ := handleDatagram_live hW h.rcv.inv h.rcv.ord l.rl d hd
        refine ⟨hrl, ?_, l.nf⟩
        intro e he hu
        exact hent _ (l.lg e he hu)
    · cases hs; exact l

/-- `resynchronize` keeps the liveness invariant: the window advance passes only slots without entry
flag, hence (recorded syncs, `PInv.sync`, and `LG`) no Reliable packet at all; so no received entry of
the new window newly passes the test of the window pass. -/
theorem linv_resync {b0 w W M : Nat} (hW : WOk W) (hw : w ≤ 2^16) {s s' : Sys} (h : SInv b0 w W M s)
    (p : PInv W s) (l : LInv W s) (k : Nat) (hs : stepS s (.resync k) = .ok s') : LInv W s' := by
  simp only [stepS] at hs
  split at hs
  · cases hs; exact l
  · rename_i n id hk
    split at hs
    · rename_i hfresh
      rw [stepT_resync] at hs
      cases hr : resynchronize s.rcv.st id with
      | error t => rw [hr] at hs; cases hs
      | ok st' =>
        rw [hr, bindR_ok, bindR_ok] at hs
        cases hs
        have hmem := List.mem_of_getElem? hk
        rcases resync_cases (by omega) h n id hmem hfresh st' hr with rfl | ⟨nb, hnb, hle, hδ, hadv, hno⟩
        · rw [pidSub_self]
          exact ⟨l.rl, l.lg, l.nf⟩
        · have hinv := h.rcv.inv
          have hord := h.rcv.ord
          have F := advanceWindow_facts hW hinv hord nb hnb hδ hadv
          obtain ⟨hA, hB⟩ := advanceWindow_core hW hinv hord nb hnb hδ hadv
          obtain ⟨-, hwr⟩ := advanceWindow_rdy hinv nb hnb hadv
          have hbe : st'.baseId = nb := F.base
          have hWle := hW.le
          have hblt := hinv.blt
          have P := resync_rel_logged hW h p n id hmem nb hle hδ hno
          -- no Reliable packet is passed at all
          have noRel : ∀ j x, s.hist.emitted[j]? = some x → x.mode = .reliable → s.rcv.adv ≤ j →
              j < s.rcv.adv + pidSub nb s.rcv.st.baseId → False := by
            intro j x hx hrel h1 h2
            obtain ⟨e, he, hu⟩ := P j x hx hrel h1 h2
            have hen := l.lg e he (by omega)
            have hseq := h.rcv.gi.gseq e he
            have hoff : pidSub e.seq s.rcv.st.baseId = e.uid - s.rcv.adv := by
              rw [hseq, h.rcv.gi.gbase]
              exact seq_off b0 s.rcv.adv e.uid (by omega) (by omega)
            have := hno e.seq (by rw [hseq]; exact Nat.mod_lt _ (by decide)) (by rw [hoff]; omega)
            rw [this] at hen
            cases hen
          -- an entry of the new window, in terms of the old one
          have inwin : ∀ x, x < 2^20 → pidSub x nb < W → (lget st'.slots (wi W x)).entryFlag = true →
              pidSub x s.rcv.st.baseId = pidSub x nb + pidSub nb s.rcv.st.baseId ∧
              pidSub x s.rcv.st.baseId < W ∧ (lget s.rcv.st.slots (wi W x)).entryFlag = true ∧
              (lget st'.slots (wi W x)).wpl = (lget s.rcv.st.slots (wi W x)).wpl := by
            intro x hx hxo hen
            obtain ⟨i1, i2, i3⟩ := adv_entry_inwin hW hinv nb hnb hδ hA hB x hx hxo hen
            rw [(core_fields i3).1] at hen
            exact ⟨i1, i2, hen, core_wpl i3⟩
          refine ⟨⟨?_, ?_, ?_⟩, ?_, l.nf⟩
          · intro k' a hcl
            have hcl' : (lget st'.slots k').asm = .closed a := hcl
            show (lget st'.slots k').entryFlag = true
            by_cases hpass : ∃ id, id < 2^20 ∧ pidSub id s.rcv.st.baseId < pidSub nb s.rcv.st.baseId ∧ wi W id = k'
            · obtain ⟨id', hid, hido, rfl⟩ := hpass
              rw [(hB id' hid hido).2.2] at hcl'
              cases hcl'
            · have hcore := hA k' (fun id' hid hido hwi => hpass ⟨id', hid, hido, hwi⟩)
              obtain ⟨e1, -, -, -, e5, -⟩ := core_fields hcore
              rw [e5] at hcl'
              rw [e1]
              exact l.rl.ce k' a hcl'
          · intro x hx hxo hen
            have hxo' : pidSub x st'.baseId < W := hxo
            have hen' : (lget st'.slots (wi W x)).entryFlag = true := hen
            show pidSub x st'.baseId < pidSub st'.endId st'.baseId
            rw [hbe] at hxo' ⊢
            obtain ⟨i1, i2, i3, -⟩ := inwin x hx hxo' hen'
            have i5 := l.rl.ef x hx i2 i3
            rw [F.endId, if_neg (by omega)]
            rw [off_shift s.rcv.st.endId s.rcv.st.baseId nb hblt hnb (by omega)]
            omega
          · intro x hx hxo hen ht
            have hxo' : pidSub x st'.baseId < W := hxo
            have hen' : (lget st'.slots (wi W x)).entryFlag = true := hen
            have ht' : (lget st'.slots (wi W x)).wpl = 0 ∨
                (lget st'.slots (wi W x)).wpl > pidSub x st'.baseId := ht
            show st'.windowReady = true
            rw [hbe] at hxo' ht'
            obtain ⟨i1, i2, i3, i4⟩ := inwin x hx hxo' hen'
            rw [i4] at ht'
            rw [hwr]
            apply l.rl.wr x hx i2 i3
            apply Classical.byContradiction
            intro hnt
            obtain ⟨-, hw2⟩ := wpl_honest hw h x hx i2 i3
            obtain ⟨hw2a, z, hz, hzrel⟩ := hw2 (by omega)
            exact noRel _ z hz hzrel (by omega) (by omega)
          · intro e he hu
            have hu' : s.rcv.adv + pidSub st'.baseId s.rcv.st.baseId ≤ e.uid := hu
            show (lget st'.slots (wi W e.seq)).entryFlag = true
            rw [hbe] at hu'
            have hin := l.lg e he (by omega)
            have hseq := h.rcv.gi.gseq e he
            obtain ⟨w1, w2, w3⟩ := h.rcv.gi.gwin e he
            have hoff : pidSub e.seq s.rcv.st.baseId = e.uid - s.rcv.adv := by
              rw [hseq, h.rcv.gi.gbase]
              exact seq_off b0 s.rcv.adv e.uid (by omega) (by omega)
            have hcore := hA (wi W e.seq) (by
              intro id' hid hido hwi
              have := off_eq_of_wi hW id' e.seq s.rcv.st.baseId hblt (by omega) (by omega) hwi
              omega)
            rw [(core_fields hcore).1]
            exact hin
    · cases hs; exact l

theorem linv_step {b0 w W M : Nat} (hW : WOk W) (hw : w ≤ 2^16) {s s' : Sys} (h : SInv b0 w W M s)
    (p : PInv W s) (l : LInv W s) (op : SOp) (hs : stepS s op = .ok s') : LInv W s' := by
  cases op with
  | recv => exact linv_recv hW hw h l hs
  | deliver k => exact linv_deliver hW h l k hs
  | resync k => exact linv_resync hW hw h p l k hs
  | sync =>
    simp only [stepS] at hs
    split at hs
    · cases hs; exact ⟨l.rl, l.lg, l.nf⟩
    · cases hs; exact l
  | enq d c m f =>
    simp only [stepS] at hs
    split at hs
    · simp only [stepH, bindR_ok] at hs
      cases hs
      exact ⟨l.rl, l.lg, l.nf⟩
    · cases hs; exact l
  | emit f =>
    simp only [stepS] at hs
    cases hr : stepH s.snd s.hist (.emit f) with
    | error t => rw [hr] at hs; cases hs
    | ok r =>
      rw [hr, bindR_ok] at hs
      cases hs
      refine ⟨l.rl, l.lg, ?_⟩
      intro i p hp f' d hf hd
      have hp' : (s.pend ++ (emitted? s.snd f).toList)[i]? = some p := hp
      show (i, d) ∈ s.net ++ (emitted? s.snd f).toList.flatMap (dgsOf s.pend.length)
      cases hem : emitted? s.snd f with
      | none =>
        rw [hem] at hp'
        simp only [Option.toList, List.append_nil] at hp'
        exact List.mem_append.mpr (Or.inl (l.nf i p hp' f' d hf hd))
      | some q =>
        rw [hem] at hp'
        simp only [Option.toList] at hp'
        rcases getElem?_snoc_some _ _ _ _ hp' with hp' | ⟨hil, rfl⟩
        · exact List.mem_append.mpr (Or.inl (l.nf i p hp' f' d hf hd))
        · refine List.mem_append.mpr (Or.inr ?_)
          simp only [Option.toList, List.flatMap_cons, List.flatMap_nil, List.append_nil]
          rw [hil]
          exact mem_dgsOf_of _ _ f' d hf hd
  | ack k =>
    simp only [stepS] at hs
    split at hs
    · cases hs; exact l
    · split at hs
      · rename_i a rb hk hfresh
        cases hr : stepH s.snd s.hist (.ack rb) with
        | error t => rw [hr] at hs; cases hs
        | ok r =>
          rw [hr, bindR_ok] at hs
          cases hs
          exact ⟨l.rl, l.lg, l.nf⟩
      · cases hs; exact l

theorem linv_run {b0 w W M : Nat} (hW : WOk W) (hw : w ≤ 2^16) (ops : List SOp) :
    ∀ {s s' : Sys}, SInv b0 w W M s → PInv W s → LInv W s → runS s ops = .ok s' → LInv W s' := by
  induction ops with
  | nil => intro s s' _ _ l hr; cases hr; exact l
  | cons op rest ih =>
    intro s s' h p l hr
    rw [runS] at hr
    cases hs : stepS s op with
    | error t => rw [hs] at hr; cases hr
    | ok s1 =>
      rw [hs, bindR_ok] at hr
      exact ih (sinv_step hW (by omega) h op hs) (pinv_step hW hw h p op hs) (linv_step hW hw h p l op hs) hr

end Uflow.Sys
