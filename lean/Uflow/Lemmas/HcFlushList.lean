/-!
C09Hc, part 2: list lemmas. Two strictly increasing lists of keys, one contained in the other, are in
the sublist relation; hence "every selected emitted packet has a log entry" gives "the selected
payloads, in emission order, are a subsequence of the logged payloads".
-/

namespace Uflow.HcFlush

/-- A strictly increasing list whose elements all occur in another strictly increasing list is a
sublist of it. -/
theorem sublist_of_sorted_subset (A B : List Nat) (hA : A.Pairwise (· < ·)) (hB : B.Pairwise (· < ·))
    (h : ∀ a ∈ A, a ∈ B) : A.Sublist B := by
  induction B generalizing A with
  | nil =>
    cases A with
    | nil => exact List.Sublist.slnil
    | cons a A' => exact absurd (h a (List.mem_cons_self ..)) (by simp)
  | cons b B' ih =>
    cases A with
    | nil => exact List.nil_sublist _
    | cons a A' =>
      obtain ⟨hbB, hB'⟩ := List.pairwise_cons.mp hB
      obtain ⟨haA, hA'⟩ := List.pairwise_cons.mp hA
      rcases List.mem_cons.mp (h a (List.mem_cons_self ..)) with hab | haB
      · subst hab
        refine List.Sublist.cons_cons _ (ih A' hA' hB' ?_)
        intro x hx
        rcases List.mem_cons.mp (h x (List.mem_cons_of_mem _ hx)) with hxa | hxB
        · have := haA x hx; omega
        · exact hxB
      · refine List.Sublist.cons _ (ih (a :: A') hA hB' ?_)
        have hba : b < a := hbB a haB
        intro x hx
        rcases List.mem_cons.mp (h x hx) with hxb | hxB
        · rcases List.mem_cons.mp hx with hxa | hxA
          · omega
          · have := haA x hxA; omega
        · exact hxB

theorem filterMap_congr' {α β : Type} (l : List α) (f g : α → Option β) (h : ∀ a ∈ l, f a = g a) :
    l.filterMap f = l.filterMap g := by
  induction l with
  | nil => rfl
  | cons a l ih =>
    simp only [List.filterMap_cons]
    rw [h a (List.mem_cons_self ..), ih (fun b hb => h b (List.mem_cons_of_mem _ hb))]

/-- A list whose `j`-th element has key `j` has strictly increasing keys. -/
theorem keys_increasing {α : Type} (em : List α) (key : α → Nat)
    (hkey : ∀ j x, em[j]? = some x → key x = j) : em.Pairwise (fun a b => key a < key b) := by
  rw [List.pairwise_iff_getElem]
  intro i j hi hj hij
  rw [hkey i em[i] (List.getElem?_eq_getElem hi), hkey j em[j] (List.getElem?_eq_getElem hj)]
  exact hij

theorem getElem?_key {α : Type} (em : List α) (key : α → Nat)
    (hkey : ∀ j x, em[j]? = some x → key x = j) (x : α) (hx : x ∈ em) : em[key x]? = some x := by
  obtain ⟨j, hj⟩ := List.getElem?_of_mem hx
  rw [hkey j x hj]; exact hj

/-- **Coverage gives a subsequence.** `em` is a list whose `j`-th element has key `j` (emitted packets,
key = emission position); `L` is a list of reports with strictly increasing positions `uid`, each
carrying the payload of the element at its position. If every element selected by `p` has a report,
then the selected payloads, in order, are a subsequence of the reported payloads, in order. -/
theorem covered_sublist {ε α β : Type} (L : List ε) (uid : ε → Nat) (f : ε → Option β)
    (em : List α) (key : α → Nat) (g : α → β) (p : α → Bool)
    (hkey : ∀ j x, em[j]? = some x → key x = j)
    (hinc : L.Pairwise (fun a b => uid a < uid b))
    (hlink : ∀ e ∈ L, ∃ x, em[uid e]? = some x ∧ f e = some (g x))
    (hcov : ∀ j x, em[j]? = some x → p x = true → ∃ e ∈ L, uid e = j) :
    ((em.filter p).map g).Sublist (L.filterMap f) := by
  have hE : ((em.filter p).map key).Pairwise (· < ·) := by
    rw [List.pairwise_map]
    exact (keys_increasing em key hkey).filter _
  have hL : (L.map uid).Pairwise (· < ·) := by
    rw [List.pairwise_map]; exact hinc
  have hsub : ((em.filter p).map key).Sublist (L.map uid) := by
    apply sublist_of_sorted_subset _ _ hE hL
    intro a ha
    obtain ⟨x, hx, rfl⟩ := List.mem_map.mp ha
    obtain ⟨hxe, hpx⟩ := List.mem_filter.mp hx
    obtain ⟨e, he, hu⟩ := hcov (key x) x (getElem?_key em key hkey x hxe) hpx
    exact List.mem_map.mpr ⟨e, he, hu⟩
  have h2 := hsub.filterMap (fun u => (em[u]?).map g)
  have e1 : ((em.filter p).map key).filterMap (fun u => (em[u]?).map g) = (em.filter p).map g := by
    rw [List.filterMap_map, ← List.filterMap_eq_map]
    apply filterMap_congr'
    intro x hx
    simp only [Function.comp]
    rw [getElem?_key em key hkey x (List.mem_filter.mp hx).1]
    rfl
  have e2 : (L.map uid).filterMap (fun u => (em[u]?).map g) = L.filterMap f := by
    rw [List.filterMap_map]
    apply filterMap_congr'
    intro e he
    obtain ⟨x, hx, hf⟩ := hlink e he
    simp only [Function.comp]
    rw [hx, hf]
    rfl
  rw [e1, e2] at h2
  exact h2

/-- Filtering twice, the second predicate implying the first. -/
theorem filter_filter_of_imp {α : Type} (l : List α) (p q : α → Bool) (h : ∀ a, q a = true → p a = true) :
    (l.filter p).filter q = l.filter q := by
  rw [List.filter_filter]
  apply List.filter_congr
  intro a _
  cases hq : q a with
  | false => simp
  | true => simp [h a hq]

end Uflow.HcFlush
