import Uflow.Lemmas.SysLiveRound

/-!
The composed system, sync frames (C01Hc / C02): fragments handed to the receiver are not forgotten.

`GotR W b0 g i f` — fragment `f` of the packet emitted at position `i` "has been taken care of" by the
receiver `g`: the window base has passed the packet, or the packet is in the log, or it lies in the
window and its slot has the entry flag or holds fragment `f` in its assembly buffer. For a Reliable
packet this is established when a `deliver` step hands over the fragment (`gotR_deliver`) and kept by
every step of `Sys` (`gotR_step`); when it holds for all fragments of the packet, the packet is
completely received (`gotR_all`, the `Recvd` of the `SyncOk` guard).
-/

namespace Uflow.Sys

open Uflow Uflow.Gen Uflow.Codec Uflow.PSend Uflow.PRecv Uflow.Frag

def GotR (W b0 : Nat) (g : G) (i f : Nat) : Prop :=
  i < g.adv ∨ (∃ e ∈ g.log, e.uid = i) ∨
  (i < g.adv + W ∧ ((lget g.st.slots (wi W (pidAdd b0 i))).entryFlag = true ∨
    HasFrag (lget g.st.slots (wi W (pidAdd b0 i))).asm f))

/-- `GotR` only depends on the slot of the packet. -/
theorem GotR.of_slot {W b0 : Nat} {g g' : G} {i f : Nat} (h : GotR W b0 g i f) (hadv : g.adv ≤ g'.adv)
    (hlog : ∀ e ∈ g.log, e ∈ g'.log)
    (hslot : g'.adv ≤ i → i < g.adv + W →
      ((lget g.st.slots (wi W (pidAdd b0 i))).entryFlag = true →
        (lget g'.st.slots (wi W (pidAdd b0 i))).entryFlag = true) ∧
      (HasFrag (lget g.st.slots (wi W (pidAdd b0 i))).asm f →
        (lget g'.st.slots (wi W (pidAdd b0 i))).entryFlag = true ∨
        HasFrag (lget g'.st.slots (wi W (pidAdd b0 i))).asm f)) : GotR W b0 g' i f := by
  rcases h with h | ⟨e, he, hu⟩ | ⟨h1, h2⟩
  · exact Or.inl (by omega)
  · exact Or.inr (Or.inl ⟨e, hlog e he, hu⟩)
  · rcases Nat.lt_or_ge i g'.adv with hlt | hge
    · exact Or.inl hlt
    · obtain ⟨s1, s2⟩ := hslot hge h1
      refine Or.inr (Or.inr ⟨by omega, ?_⟩)
      rcases h2 with h2 | h2
      · exact Or.inl (s1 h2)
      · exact s2 h2

/-! ### `handle_datagram` -/

theorem cbO_none {W M : Nat} {st : PRecv.State} (hinv : Inv W M st) : cbO st CHANNEL_COUNT = st.baseId := by
  unfold cbO cbase
  rw [List.getElem?_eq_none (by rw [hinv.clen]; exact Nat.le_refl _)]
  rfl

theorem gotR_dg_mono {W M b0 : Nat} (hW : WOk W) {st st' : PRecv.State} (hinv : Inv W M st) (hord : Ord W st)
    (hl : RL W st) (d : Datagram) (hd : handleDatagram st d = .ok st') (adv : Nat) (log : List LogE)
    (i f : Nat) (h : GotR W b0 ⟨st, adv, log⟩ i f) : GotR W b0 ⟨st', adv, log⟩ i f := by
  obtain ⟨st2, hd2, hinv'⟩ := handleDatagram_inv hinv d
  rw [hd] at hd2; cases hd2
  have conv : Got W st' (pidAdd b0 i) CHANNEL_COUNT f →
      (lget st'.slots (wi W (pidAdd b0 i))).entryFlag = true ∨ HasFrag (lget st'.slots (wi W (pidAdd b0 i))).asm f := by
    rintro (h1 | h1 | h1)
    · exact Or.inl h1
    · rw [cbO_none hinv', pidSub_self] at h1
      exact absurd h1 (Nat.not_lt_zero _)
    · exact Or.inr h1
  refine h.of_slot (Nat.le_refl _) (fun _ he => he) ?_
  intro _ _
  refine ⟨fun hen => ?_, fun hfr => ?_⟩
  · rcases conv (hd_got_mono hW hinv hord hl d hd _ CHANNEL_COUNT f (Or.inl hen)) with h1 | h1
    · exact h1
    · -- an entry flag is never cleared
      exact (handleDatagram_live hW hinv hord hl d hd).2 _ hen
  · exact conv (hd_got_mono hW hinv hord hl d hd _ CHANNEL_COUNT f (Or.inr (Or.inr hfr)))

/-- A Reliable packet of the window that is behind its channel's base id is in the log. -/
theorem behind_logged {b0 w W M : Nat} (hw : w ≤ 2^16) {s : Sys} (h : SInv b0 w W M s) (i : Nat)
    (x : Emitted) (hx : s.hist.emitted[i]? = some x) (hrel : x.mode = .reliable) (hadv : s.rcv.adv ≤ i)
    (hoff : pidSub (pidAdd b0 i) s.rcv.st.baseId = i - s.rcv.adv)
    (hb : pidSub (pidAdd b0 i) s.rcv.st.baseId < pidSub (cbO s.rcv.st x.channelId) s.rcv.st.baseId) :
    ∃ e ∈ s.rcv.log, e.uid = i := by
  unfold cbO at hb
  cases hcb : cbase s.rcv.st x.channelId with
  | none =>
    rw [hcb] at hb
    simp only [Option.getD_none] at hb
    rw [pidSub_self] at hb
    exact absurd hb (Nat.not_lt_zero _)
  | some cb =>
    rw [hcb] at hb
    simp only [Option.getD_some] at hb
    obtain ⟨e, he, hch, hu⟩ := h.rcv.gi.gcb _ cb hcb
    rcases Nat.lt_or_ge i e.uid with hlt | hge
    · obtain ⟨l1, l2, hsplit⟩ := List.append_of_mem he
      rcases no_skip_aux hw h l1.length l1 e l2 rfl hsplit i x hx hrel (by rw [hch]) hlt with
        ⟨e', he', hu'⟩ | hwb
      · exact ⟨e', by rw [hsplit]; exact List.mem_append_left _ he', hu'⟩
      · have := (h.rcv.gi.gwin e he).2.2
        omega
    · exact ⟨e, he, by omega⟩

/-- **A `deliver` step takes care of the fragment it carries**, for a Reliable packet. -/
theorem gotR_deliver {b0 w W M : Nat} (hW : WOk W) (hw : w ≤ 2^16) (hwW : w ≤ W) {s t : Sys}
    (h : SInv b0 w W M s) (l : LInv W s) (k i : Nat) (d : Datagram) (hk : s.net[k]? = some (i, d))
    (x : Emitted) (hx : s.hist.emitted[i]? = some x) (hrel : x.mode = .reliable)
    (hs : stepS s (.deliver k) = .ok t) : GotR W b0 t.rcv i d.fragmentId := by
  obtain ⟨t', hs', hfr, _, hgot⟩ := deliver_step hW hw hwW h l k
  rw [hs] at hs'; cases hs'
  rcases Nat.lt_or_ge i s.rcv.adv with hlt | hge
  · exact Or.inl (by rw [hfr.adv]; exact hlt)
  · have hilt : i < s.hist.emitted.length := (List.getElem?_eq_some_iff.mp hx).1
    have hip : i < s.pend.length := by rw [h.snd.plen]; exact hilt
    obtain ⟨hwf, e, he, -, e2, hseq, -⟩ := h.snd.plink i s.pend[i] (List.getElem?_eq_getElem hip)
    rw [hx] at he; cases he
    obtain ⟨p', hp', f, hf, hdf⟩ := h.snd.net i d (List.mem_of_getElem? hk)
    rw [List.getElem?_eq_getElem hip] at hp'
    cases hp'
    have hdseq : d.sequenceId = pidAdd b0 i := by
      rw [genuine_eq s.pend[i] hwf d f hf hdf]
      show s.pend[i].sequenceId = _
      rw [← hseq]; exact (h.snd.hinv.ids i x hx).2.1
    have hg := hgot i d s.pend[i] hk hge (List.getElem?_eq_getElem hip)
    rw [hdseq] at hg
    obtain ⟨q1, q2, q3⟩ := win_pos (by omega) hwW h i hge hilt
    have ht := sinv_step hW (by omega) h _ hs
    rcases hg with h1 | h1 | h1
    · exact Or.inr (Or.inr ⟨by rw [hfr.adv]; omega, Or.inl h1⟩)
    · right; left
      have hq2 : pidSub (pidAdd b0 i) t.rcv.st.baseId = i - t.rcv.adv := by
        obtain ⟨_, q2', _⟩ := win_pos (by omega) hwW ht i (by rw [hfr.adv]; exact hge)
          (by rw [hfr.hist]; exact hilt)
        exact q2'
      rw [← e2] at h1
      exact behind_logged hw ht i x (by rw [hfr.hist]; exact hx) hrel (by rw [hfr.adv]; exact hge) hq2 h1
    · exact Or.inr (Or.inr ⟨by rw [hfr.adv]; omega, Or.inr h1⟩)

/-! ### window advances -/

theorem core_asm {a b : Slot} (h : core a = core b) : a.asm = b.asm :=
  (congrArg Slot.asm h : (core a).asm = (core b).asm)

/-- `GotR` survives a window advance (described as in `cinv_advance`). -/
theorem GotR.advance {W M : Nat} (hW : WOk W) {b0 adv : Nat} {log log' : List LogE} {s s' : PRecv.State}
    (hinv : Inv W M s) (hbase : s.baseId = (b0 + adv) % 2^20) (hsub : ∀ e ∈ log, e ∈ log') (nb : Nat)
    (hA : ∀ k, (∀ id, id < 2^20 → pidSub id s.baseId < pidSub nb s.baseId → wi W id ≠ k) →
        core (lget s'.slots k) = core (lget s.slots k)) {i f : Nat}
    (hr : GotR W b0 ⟨s, adv, log⟩ i f) : GotR W b0 ⟨s', adv + pidSub nb s.baseId, log'⟩ i f := by
  refine hr.of_slot (Nat.le_add_right _ _) hsub ?_
  intro hge hlt
  have hge' : adv + pidSub nb s.baseId ≤ i := hge
  have hlt' : i < adv + W := hlt
  have hoff : pidSub (pidAdd b0 i) s.baseId = i - adv := by
    rw [hbase]; exact off_arith b0 adv i (by omega) (by have := hW.le; omega)
  have hcore := hA (wi W (pidAdd b0 i)) (by
    intro id hid hido hwi
    have := off_eq_of_wi hW id (pidAdd b0 i) s.baseId hinv.blt (by omega) (by omega) hwi
    omega)
  show ((lget s.slots _).entryFlag = true → (lget s'.slots _).entryFlag = true) ∧
    (HasFrag (lget s.slots _).asm f → (lget s'.slots _).entryFlag = true ∨ HasFrag (lget s'.slots _).asm f)
  rw [(core_fields hcore).1, core_asm hcore]
  exact ⟨fun h => h, fun h => Or.inr h⟩

theorem gotR_recv {b0 w W M : Nat} (hW : WOk W) {s t : Sys} (h : SInv b0 w W M s)
    (hs : stepS s .recv = .ok t) (i f : Nat) (hg : GotR W b0 s.rcv i f) : GotR W b0 t.rcv i f := by
  simp only [stepS] at hs
  cases hgt : stepT s.rcv .recv with
  | error e => rw [hgt] at hs; cases hs
  | ok g =>
    rw [hgt, bindR_ok] at hs
    cases hs
    rw [stepT_recv] at hgt
    cases hr : receiveT s.rcv.st with
    | error e => rw [hr] at hgt; cases hgt
    | ok pr =>
      rw [hr, bindR_ok] at hgt
      cases hgt
      have hr' : receiveT s.rcv.st = .ok (pr.1, pr.2) := hr
      obtain ⟨s1, hinv1, hord1, -, hsh, -, -, hcase⟩ := receiveT_split hW h.rcv.inv h.rcv.ord h.rcv.gi hr'
      have hsub : ∀ e ∈ s.rcv.log, e ∈ s.rcv.log ++ pr.2.map (lift s.rcv.adv s.rcv.st.baseId) :=
        fun e he => List.mem_append_left _ he
      have h1 : GotR W b0 ⟨s1, s.rcv.adv, s.rcv.log ++ pr.2.map (lift s.rcv.adv s.rcv.st.baseId)⟩ i f := by
        refine hg.of_slot (Nat.le_refl _) hsub ?_
        intro _ _
        show ((lget s.rcv.st.slots _).entryFlag = true → (lget s1.slots _).entryFlag = true) ∧
          (HasFrag (lget s.rcv.st.slots _).asm f → (lget s1.slots _).entryFlag = true ∨ HasFrag (lget s1.slots _).asm f)
        rw [hsh.entry, hsh.asm]
        exact ⟨fun h => h, fun h => Or.inr h⟩
      rcases hcase with ⟨-, heq⟩ | ⟨-, nb, -, hnb, hδ, hadv⟩
      · have heq' : pr.1 = s1 := heq
        show GotR W b0 ⟨pr.1, s.rcv.adv + pidSub pr.1.baseId s.rcv.st.baseId, _⟩ i f
        rw [heq', hsh.base, pidSub_self, Nat.add_zero]
        exact h1
      · have hinv1' := hinv1.setWindowReady false
        have hord1' : Ord W { s1 with windowReady := false } := hord1.congr rfl rfl rfl rfl
        have hδ' : pidSub nb ({ s1 with windowReady := false } : PRecv.State).baseId ≤ W := by
          show pidSub nb s1.baseId ≤ W; rw [hsh.base]; exact hδ
        have F := advanceWindow_facts hW hinv1' hord1' nb hnb hδ' hadv
        obtain ⟨hA, -⟩ := advanceWindow_core hW hinv1' hord1' nb hnb hδ' hadv
        have hA1 : ∀ k, (∀ id, id < 2^20 → pidSub id s1.baseId < pidSub nb s1.baseId → wi W id ≠ k) →
            core (lget pr.1.slots k) = core (lget s1.slots k) := hA
        have := h1.advance hW hinv1 (by rw [hsh.base]; exact h.rcv.gi.gbase) (fun _ he => he) nb hA1
        show GotR W b0 ⟨pr.1, s.rcv.adv + pidSub pr.1.baseId s.rcv.st.baseId, _⟩ i f
        have e : pidSub nb s.rcv.st.baseId = pidSub nb s1.baseId := by rw [hsh.base]
        rw [F.base, e]
        exact this

theorem gotR_resync {b0 w W M : Nat} (hW : WOk W) (hw : w < 2^20) {s t : Sys} (h : SInv b0 w W M s)
    (k : Nat) (hs : stepS s (.resync k) = .ok t) (i f : Nat) (hg : GotR W b0 s.rcv i f) :
    GotR W b0 t.rcv i f := by
  simp only [stepS] at hs
  split at hs
  · cases hs; exact hg
  · rename_i n id hk
    split at hs
    · rename_i hfresh
      rw [stepT_resync] at hs
      cases hr : resynchronize s.rcv.st id with
      | error e => rw [hr] at hs; cases hs
      | ok st' =>
        rw [hr, bindR_ok, bindR_ok] at hs
        cases hs
        rcases resync_cases hw h n id (List.mem_of_getElem? hk) hfresh st' hr with rfl | ⟨nb, hnb, -, hδ, hadv, -⟩
        · rw [pidSub_self]
          exact hg
        · have F := advanceWindow_facts hW h.rcv.inv h.rcv.ord nb hnb hδ hadv
          obtain ⟨hA, -⟩ := advanceWindow_core hW h.rcv.inv h.rcv.ord nb hnb hδ hadv
          show GotR W b0 ⟨st', s.rcv.adv + pidSub st'.baseId s.rcv.st.baseId, s.rcv.log⟩ i f
          rw [F.base]
          exact GotR.advance hW h.rcv.inv h.rcv.gi.gbase (fun _ he => he) nb hA hg
    · cases hs; exact hg

/-- **Every step keeps `GotR`.** -/
theorem gotR_step {b0 w W M : Nat} (hW : WOk W) (hw : w < 2^20) {s t : Sys} (h : SInv b0 w W M s)
    (l : LInv W s) (op : SOp) (hs : stepS s op = .ok t) (i f : Nat) (hg : GotR W b0 s.rcv i f) :
    GotR W b0 t.rcv i f := by
  cases op with
  | recv => exact gotR_recv hW h hs i f hg
  | resync k => exact gotR_resync hW hw h k hs i f hg
  | deliver k =>
    simp only [stepS] at hs
    split at hs
    · cases hs; exact hg
    · rename_i i' d hk
      split at hs
      · rw [stepT_dg] at hs
        cases hd : handleDatagram s.rcv.st d with
        | error e => rw [hd] at hs; cases hs
        | ok st' =>
          rw [hd, bindR_ok, bindR_ok] at hs
          cases hs
          exact gotR_dg_mono hW h.rcv.inv h.rcv.ord l.rl d hd _ _ i f hg
      · cases hs; exact hg
  | enq d c m f0 =>
    simp only [stepS] at hs
    split at hs
    · simp only [stepH, bindR_ok] at hs
      cases hs; exact hg
    · cases hs; exact hg
  | emit f0 =>
    simp only [stepS] at hs
    cases hr : stepH s.snd s.hist (.emit f0) with
    | error e => rw [hr] at hs; cases hs
    | ok r => rw [hr, bindR_ok] at hs; cases hs; exact hg
  | ack k =>
    simp only [stepS] at hs
    split at hs
    · cases hs; exact hg
    · split at hs
      · cases hr : stepH s.snd s.hist (.ack _) with
        | error e => rw [hr] at hs; cases hs
        | ok r => rw [hr, bindR_ok] at hs; cases hs; exact hg
      · cases hs; exact hg
  | sync =>
    simp only [stepS] at hs
    split at hs
    · cases hs; exact hg
    · cases hs; exact hg

/-! ### all fragments -/

/-- **All fragments taken care of ⇒ completely received.** -/
theorem gotR_all {b0 w W M : Nat} (hW : WOk W) {s : Sys} (h : SInv b0 w W M s) (i : Nat) (p : Pending)
    (hp : s.pend[i]? = some p) (hall : ∀ f, f ≤ p.lastFragmentId → GotR W b0 s.rcv i f) :
    RecvdW W s.rcv i (pidAdd b0 i) := by
  obtain ⟨hwf, e, he, -, -, hseq, -⟩ := h.snd.plink i p hp
  rcases hall 0 (Nat.zero_le _) with h0 | h0 | ⟨h1, _⟩
  · exact Or.inr (Or.inl h0)
  · exact Or.inl h0
  · rcases Nat.lt_or_ge i s.rcv.adv with hlt | hge
    · exact Or.inr (Or.inl hlt)
    · by_cases hen : (lget s.rcv.st.slots (wi W (pidAdd b0 i))).entryFlag = true
      · exact Or.inr (Or.inr ⟨h1, hen⟩)
      · by_cases hlog : ∃ e ∈ s.rcv.log, e.uid = i
        · exact Or.inl hlog
        · exfalso
          have hWle := hW.le
          have hoff := off_arith b0 s.rcv.adv i hge (by omega)
          rw [← h.rcv.gi.gbase] at hoff
          have hfr : ∀ f, f ≤ p.lastFragmentId → HasFrag (lget s.rcv.st.slots (wi W (pidAdd b0 i))).asm f := by
            intro f hf
            rcases hall f hf with h2 | h2 | ⟨_, h2 | h2⟩
            · omega
            · exact absurd h2 hlog
            · exact absurd h2 hen
            · exact h2
          obtain ⟨a, c, w', cp, la, buf, hact, -⟩ := hfr 0 (Nat.zero_le _)
          obtain ⟨p', hp', l', a', buf', hfeed, hnc, hA, hwrites⟩ :=
            (h.cinv (pidAdd b0 i) (PRecv.pidAdd_lt _ _) (by rw [hoff]; omega)).asm a c w' cp la buf hact
          rw [hoff, show s.rcv.adv + (i - s.rcv.adv) = i by omega, hp] at hp'
          cases hp'
          rw [hact] at hA
          simp only [Asm.active.injEq] at hA
          obtain ⟨-, -, -, -, -, rfl⟩ := hA
          obtain ⟨-, hhas, -⟩ := buf_of_gidx p hwf l' hfeed buf hwrites
          apply hnc
          rw [complete_iff_gidx p hwf l' hfeed]
          intro k hk
          have hk' : k ≤ p.lastFragmentId := by have := wf_succ p hwf; omega
          obtain ⟨a2, c2, w2, cp2, la2, buf2, hact2, hh⟩ := hfr k hk'
          rw [hact] at hact2
          simp only [Asm.active.injEq] at hact2
          obtain ⟨-, -, -, -, -, rfl⟩ := hact2
          exact (hhas k).mp hh

end Uflow.Sys
