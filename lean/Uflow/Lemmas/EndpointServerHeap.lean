import Uflow.Model.Endpoint

/-!
The timer heap of the server model (`tSiftUp`, `tSiftDown`, `tPush`, `tPop`) only permutes the
multiset of its elements.
-/

namespace Uflow.Endpoint

/-! ## List lemma: moving a hole -/

/-- Moving the hole from `i` to `j`: copy `l[j]` into `i`, then fill `j` with `e`. This is the list
with the hole `i` filled by `e`, with positions `i` and `j` swapped. -/
theorem hole_move_perm {α : Type} (l : List α) (i j : Nat) (p e : α)
    (hi : i < l.length) (hj : l[j]? = some p) :
    ((l.set i p).set j e).Perm (l.set i e) := by
  have hjl : j < l.length := by
    rcases List.getElem?_eq_some_iff.mp hj with ⟨h, _⟩; exact h
  have hjp : l[j] = p := by
    rcases List.getElem?_eq_some_iff.mp hj with ⟨_, h⟩; exact h
  by_cases hij : i = j
  · subst hij
    rw [List.set_set]
  · have hi' : i < (l.set i e).length := by simpa using hi
    have hj' : j < (l.set i e).length := by simpa using hjl
    have key := List.set_set_perm (as := l.set i e) hi' hj'
    have e1 : (l.set i e)[j] = p := by
      rw [List.getElem_set_ne hij]; exact hjp
    have e2 : (l.set i e)[i] = e := by
      rw [List.getElem_set_self]
    rw [e1, e2, List.set_set] at key
    exact key

/-- Array version of `hole_move_perm`. -/
theorem hole_move_perm_arr (h : Array Timer) (i j : Nat) (p e : Timer)
    (hi : i < h.size) (hj : h[j]? = some p) :
    ((h.setIfInBounds i p).setIfInBounds j e).toList.Perm (h.setIfInBounds i e).toList := by
  simp only [Array.toList_setIfInBounds]
  apply hole_move_perm
  · simpa using hi
  · simpa using hj

theorem lt_size_of_getElem?_eq_some {h : Array Timer} {i : Nat} {p : Timer}
    (hj : h[i]? = some p) : i < h.size := by
  rcases Array.getElem?_eq_some_iff.mp hj with ⟨hlt, _⟩; exact hlt

theorem setIfInBounds_of_getElem? {h : Array Timer} {i : Nat} {e : Timer}
    (he : h[i]? = some e) : h.setIfInBounds i e = h := by
  rcases Array.getElem?_eq_some_iff.mp he with ⟨hlt, rfl⟩
  simp [Array.setIfInBounds_def, hlt]

/-! ## `tSiftUp` -/

theorem tSiftUp_go_inv (start : Nat) (elt : Timer) (fuel : Nat) :
    ∀ (h : Array Timer) (pos : Nat), pos < h.size →
      (tSiftUp.go start elt fuel h pos).2 < (tSiftUp.go start elt fuel h pos).1.size ∧
      ((tSiftUp.go start elt fuel h pos).1.setIfInBounds (tSiftUp.go start elt fuel h pos).2 elt).toList.Perm
        (h.setIfInBounds pos elt).toList := by
  induction fuel with
  | zero =>
    intro h pos hpos
    simp only [tSiftUp.go]
    exact ⟨hpos, List.Perm.refl _⟩
  | succ fuel ih =>
    intro h pos hpos
    simp only [tSiftUp.go]
    split
    · split
      · exact ⟨hpos, List.Perm.refl _⟩
      · rename_i p hp
        split
        · exact ⟨hpos, List.Perm.refl _⟩
        · have hpar := lt_size_of_getElem?_eq_some hp
          have hpar' : (pos - 1) / 2 < (h.setIfInBounds pos p).size := by
            simpa using hpar
          obtain ⟨h1, h2⟩ := ih (h.setIfInBounds pos p) ((pos - 1) / 2) hpar'
          exact ⟨h1, h2.trans (hole_move_perm_arr h pos _ p elt hpos hp)⟩
    · exact ⟨hpos, List.Perm.refl _⟩

theorem tSiftUp_perm (h : Array Timer) (start pos : Nat) :
    (tSiftUp h start pos).toList.Perm h.toList := by
  unfold tSiftUp
  split
  · exact List.Perm.refl _
  · rename_i elt helt
    have hpos := lt_size_of_getElem?_eq_some helt
    obtain ⟨_, h2⟩ := tSiftUp_go_inv start elt (h.size + 1) h pos hpos
    have e : h.setIfInBounds pos elt = h := setIfInBounds_of_getElem? helt
    rw [e] at h2
    exact h2

theorem tSiftUp_size (h : Array Timer) (start pos : Nat) :
    (tSiftUp h start pos).size = h.size := by
  have := (tSiftUp_perm h start pos).length_eq
  simpa using this

/-! ## `tSiftDown` -/

theorem tSiftDown_go_inv (endI : Nat) (elt : Timer) (fuel : Nat) :
    ∀ (h : Array Timer) (pos child : Nat), pos < h.size →
      (tSiftDown.go endI fuel h pos child).2 < (tSiftDown.go endI fuel h pos child).1.size ∧
      ((tSiftDown.go endI fuel h pos child).1.setIfInBounds
          (tSiftDown.go endI fuel h pos child).2 elt).toList.Perm
        (h.setIfInBounds pos elt).toList := by
  induction fuel with
  | zero =>
    intro h pos child hpos
    simp only [tSiftDown.go]
    exact ⟨hpos, List.Perm.refl _⟩
  | succ fuel ih =>
    intro h pos child hpos
    simp only [tSiftDown.go]
    split
    · split
      · split
        · rename_i c hc
          have hch := lt_size_of_getElem?_eq_some hc
          obtain ⟨h1, h2⟩ := ih (h.setIfInBounds pos c) _ (2 * _ + 1) (by simpa using hch)
          exact ⟨h1, h2.trans (hole_move_perm_arr h pos _ c elt hpos hc)⟩
        · exact ⟨hpos, List.Perm.refl _⟩
      · exact ⟨hpos, List.Perm.refl _⟩
    · split
      · split
        · rename_i c hc
          have hch := lt_size_of_getElem?_eq_some hc
          refine ⟨by simpa using hch, ?_⟩
          exact hole_move_perm_arr h pos _ c elt hpos hc
        · exact ⟨hpos, List.Perm.refl _⟩
      · exact ⟨hpos, List.Perm.refl _⟩

theorem tSiftDown_perm (h : Array Timer) : (tSiftDown h).toList.Perm h.toList := by
  unfold tSiftDown
  split
  · exact List.Perm.refl _
  · rename_i elt helt
    have hpos := lt_size_of_getElem?_eq_some helt
    obtain ⟨_, h2⟩ := tSiftDown_go_inv h.size elt (h.size + 1) h 0 1 hpos
    have e : h.setIfInBounds 0 elt = h := setIfInBounds_of_getElem? helt
    rw [e] at h2
    exact (tSiftUp_perm _ 0 _).trans h2

theorem tSiftDown_size (h : Array Timer) : (tSiftDown h).size = h.size := by
  have := (tSiftDown_perm h).length_eq
  simpa using this

/-! ## `tPush` -/

theorem tPush_perm (h : Array Timer) (e : Timer) : (tPush h e).toList.Perm (e :: h.toList) := by
  unfold tPush
  refine (tSiftUp_perm _ 0 _).trans ?_
  rw [Array.toList_push]
  exact List.perm_append_singleton e h.toList

theorem size_tPush (h : Array Timer) (e : Timer) : (tPush h e).size = h.size + 1 := by
  have := (tPush_perm h e).length_eq
  simpa using this

theorem mem_tPush (h : Array Timer) (e x : Timer) :
    x ∈ (tPush h e).toList ↔ x = e ∨ x ∈ h.toList := by
  rw [(tPush_perm h e).mem_iff, List.mem_cons]

theorem sum_tPush (f : Timer → Nat) (h : Array Timer) (e : Timer) :
    ((tPush h e).toList.map f).sum = f e + (h.toList.map f).sum := by
  rw [((tPush_perm h e).map f).sum_nat, List.map_cons, List.sum_cons]

/-! ## `tPop` -/

theorem tPop_perm (h h' : Array Timer) (t : Timer) (hp : tPop h = some (t, h')) :
    h.toList.Perm (t :: h'.toList) := by
  unfold tPop at hp
  split at hp
  · cases hp
  · rename_i last hlast
    obtain ⟨ys, rfl⟩ := Array.back?_eq_some_iff.mp hlast
    simp only [Array.pop_push] at hp
    rw [Array.toList_push]
    split at hp
    · simp only [Option.some.injEq, Prod.mk.injEq] at hp
      obtain ⟨rfl, rfl⟩ := hp
      exact List.perm_append_singleton _ _
    · rename_i top htop
      simp only [Option.some.injEq, Prod.mk.injEq] at hp
      obtain ⟨rfl, rfl⟩ := hp
      have htop' : ys.toList[0]? = some top := by simpa using htop
      obtain ⟨rest, hrest⟩ : ∃ rest, ys.toList = top :: rest := by
        cases hpl : ys.toList with
        | nil => rw [hpl] at htop'; simp at htop'
        | cons a rest =>
          rw [hpl] at htop'
          simp only [List.getElem?_cons_zero, Option.some.injEq] at htop'
          exact ⟨rest, by rw [htop']⟩
      have hsd := tSiftDown_perm (ys.setIfInBounds 0 last)
      rw [Array.toList_setIfInBounds, hrest, List.set_cons_zero] at hsd
      rw [hrest]
      refine List.Perm.trans ?_ (List.Perm.cons top hsd.symm)
      exact List.Perm.cons top (List.perm_append_singleton last rest)

theorem tPop_none (h : Array Timer) (hp : tPop h = none) : h = #[] := by
  unfold tPop at hp
  split at hp
  · rename_i hnone
    simpa using hnone
  · dsimp only at hp
    split at hp <;> cases hp

theorem tPop_isSome (h : Array Timer) (hs : 0 < h.size) : (tPop h).isSome := by
  cases hp : tPop h with
  | none =>
    have := tPop_none h hp
    subst this
    simp at hs
  | some _ => rfl

theorem mem_tPop (h h' : Array Timer) (t x : Timer) (hp : tPop h = some (t, h')) :
    x ∈ h.toList ↔ x = t ∨ x ∈ h'.toList := by
  rw [(tPop_perm h h' t hp).mem_iff, List.mem_cons]

theorem sum_tPop (f : Timer → Nat) (h h' : Array Timer) (t : Timer)
    (hp : tPop h = some (t, h')) :
    (h.toList.map f).sum = f t + (h'.toList.map f).sum := by
  rw [((tPop_perm h h' t hp).map f).sum_nat, List.map_cons, List.sum_cons]

theorem size_tPop (h h' : Array Timer) (t : Timer) (hp : tPop h = some (t, h')) :
    h.size = h'.size + 1 := by
  have := (tPop_perm h h' t hp).length_eq
  simpa using this

end Uflow.Endpoint
