import Uflow.Lemmas.EpCeilTx

/-!
C13 (endpoints), part 7: `CoreT` (the log-indexed server invariant) through every phase of
`Server.step` and every API call: if `CoreT … tx s` and the operation returns `(s', sent)`, then
`CoreT … (tx ++ sent) s'`. `Server.WF` is threaded along (it provides the address uniqueness).
-/

namespace Uflow.EpCeil

open Uflow Uflow.Gen Uflow.Codec Uflow.HalfConn Uflow.Endpoint Uflow.EpNoTrap

variable {H : Type} {ep : EpConfig} {PInv : Nat → Nat → Nat → Nat → Prop} {Inv : Log → Nat → H → Prop}
  {last : H → Nat} {T : Nat} {tx : Log} {hc : HC H}

/-! ### frame handlers -/

theorem handleSyn_coreT (hok : HCOkT hc ep PInv Inv last) {s : Server H} (hw : s.WF)
    (hi : CoreT ep PInv Inv last T tx s) (addr v n r p a nowMs : Nat) (hP : PInv addr n r a) :
    CoreT ep PInv Inv last T (tx ++ (s.handleSyn addr v n r p a nowMs).2) (s.handleSyn addr v n r p a nowMs).1 := by
  rcases Server.handleSyn_cases s addr v n r p a nowMs with ⟨_, he⟩ | ⟨hf, e, ev, he⟩ | ⟨hf, _, _, _, _, he⟩
  · rw [he]; simpa using hi
  · rw [he]
    have h1 : CoreT ep PInv Inv last T tx (s.refuse addr ev) := hi.of_eq rfl rfl rfl
    exact h1.grow_free hok addr [(addr, errFrame n e)] (by simp) (free_of_find_none hw hf)
  · rw [he]
    have h2 := hi.grow_free hok addr [(addr, s.synAckBytes n)] (by simp) (free_of_find_none hw hf)
    refine ⟨?_, h2.cfg⟩
    intro x hx
    have hx' : x ∈ (s.clients ++ [s.newEntry addr n r a]) ++ s.detached := hx
    simp only [List.append_assoc, List.mem_append, List.mem_cons, List.not_mem_nil, or_false] at hx'
    rcases hx' with hx' | hx' | hx'
    · exact h2.core x (List.mem_append_left _ hx')
    · subst hx'
      exact ⟨Nat.mod_lt _ (by decide), hP⟩
    · exact h2.core x (List.mem_append_right _ hx')

theorem handleHsAck_coreT (hok : HCOkT hc ep PInv Inv last) {s : Server H}
    (hi : CoreT ep PInv Inv last T tx s) (addr na nowMs : Nat) :
    CoreT ep PInv Inv last T tx (s.handleHsAck hc addr na nowMs T) := by
  unfold Server.handleHsAck
  split
  · exact hi
  · rename_i c hf
    split
    · rename_i ln rn rate alloc reply hst
      split
      · have hp : ln < 2^32 ∧ PInv c.address rn rate alloc := by
          have := hi.find hf
          rw [hst] at this
          exact this
        obtain ⟨h1, h2⟩ := hok.new tx c.address ln rn rate alloc T hp.1 hp.2
        rw [hi.cfg]
        have := hi.put (c := { c with state := RState.active (hc.new (hcConfig ep ln rn rate alloc) T) (nowMs + ep.activeTimeoutMs) none })
          ⟨h1, Nat.le_of_eq h2⟩
        exact this.of_eq rfl rfl rfl
      · exact hi
    · exact hi

theorem handleDisconnect_coreT (hok : HCOkT hc ep PInv Inv last) {s : Server H} (hw : s.WF)
    (hi : CoreT ep PInv Inv last T tx s) (addr nowMs : Nat) :
    ∃ r, s.handleDisconnect hc addr nowMs = .ok r ∧ CoreT ep PInv Inv last T (tx ++ r.2) r.1 := by
  unfold Server.handleDisconnect
  split
  · exact ⟨_, rfl, by simpa using hi⟩
  · rename_i c hf
    obtain ⟨hcm, haddr⟩ := Server.find_some hf
    have hclose : ∀ s0 : Server H, s0.WF → c ∈ s0.clients → CoreT ep PInv Inv last T tx s0 → ∀ ev tm,
        CoreT ep PInv Inv last T (tx ++ [(addr, discAck)]) { (s0.put { c with state := .closed }) with
          eventsOut := ev, timers := tPush (s0.put { c with state := .closed }).timers tm } := by
      intro s0 hw0 hc0 h0 ev tm
      exact (h0.put_grow hok hw0 hc0 .closed [(addr, discAck)] (by simp [haddr]) trivial).of_eq rfl rfl rfl
    split
    · exact ⟨_, rfl, by simpa using hi⟩
    · rename_i h t sig hst
      have hs := hi.find hf
      rw [hst] at hs
      obtain ⟨h', out, hr, _, _⟩ := hok.receive tx c.address h hs.1
      rw [hr]
      exact ⟨_, rfl, hclose { s with eventsOut := s.eventsOut ++ out.map (SEvent.receive addr) }
        (hw.of_eq rfl rfl rfl rfl rfl) hcm (hi.of_eq rfl rfl rfl) _ _⟩
    · exact ⟨_, rfl, hclose _ hw hcm hi _ _⟩
    · rename_i hst
      refine ⟨_, rfl, ?_⟩
      have := hi.grow_free hok c.address [(addr, discAck)] (by simp [haddr])
        (free_of_inactive hw hcm (by rw [hst]; rfl))
      exact this
    · exact ⟨_, rfl, by simpa using hi⟩

theorem handleDisconnectAck_coreT {s : Server H} (hi : CoreT ep PInv Inv last T tx s) (addr : Nat) :
    CoreT ep PInv Inv last T tx (s.handleDisconnectAck addr) := by
  unfold Server.handleDisconnectAck
  split
  · exact hi
  · rename_i c hf
    split
    · exact (hi.setEvents _).finish c
    · exact hi

theorem handleTraffic_coreT (hok : HCOkT hc ep PInv Inv last) {s : Server H} (hi : CoreT ep PInv Inv last T tx s)
    (addr : Nat) (f : Frame) (nowMs : Nat) :
    ∃ s', s.handleTraffic hc addr f nowMs = .ok s' ∧ CoreT ep PInv Inv last T tx s' := by
  unfold Server.handleTraffic
  split
  · exact ⟨_, rfl, hi⟩
  · rename_i c hf
    split
    · rename_i h t sig hst
      have hs := hi.find hf
      rw [hst] at hs
      obtain ⟨h', hr, h1, h2⟩ := hok.dispatch tx c.address h f hs.1
      rw [hr]
      exact ⟨_, rfl, hi.put _ ⟨h1, by rw [h2]; exact hs.2⟩⟩
    · exact ⟨_, rfl, hi⟩

theorem handleFrame_coreT (hok : HCOkT hc ep PInv Inv last) {s : Server H} (hw : s.WF)
    (hi : CoreT ep PInv Inv last T tx s) (addr : Nat) (f : Frame) (nowMs : Nat)
    (hP : ∀ v n r p a, f = .syn v n r p a → PInv addr n r a) :
    ∃ r, s.handleFrame hc addr f nowMs T = .ok r ∧ r.1.WF ∧ CoreT ep PInv Inv last T (tx ++ r.2) r.1 := by
  have key : ∃ r, s.handleFrame hc addr f nowMs T = .ok r ∧ CoreT ep PInv Inv last T (tx ++ r.2) r.1 := by
    cases f with
    | syn v n r p a => exact ⟨_, rfl, handleSyn_coreT hok hw hi addr v n r p a nowMs (hP v n r p a rfl)⟩
    | hsAck na => exact ⟨_, rfl, by simpa using handleHsAck_coreT hok hi addr na nowMs⟩
    | synAck _ _ _ _ _ => exact ⟨_, rfl, by simpa using hi⟩
    | hsError _ _ => exact ⟨_, rfl, by simpa using hi⟩
    | disconnect => exact handleDisconnect_coreT hok hw hi addr nowMs
    | disconnectAck => exact ⟨_, rfl, by simpa using handleDisconnectAck_coreT hi addr⟩
    | data a b c =>
      obtain ⟨s', hr, h'⟩ := handleTraffic_coreT hok hi addr (.data a b c) nowMs
      exact ⟨(s', []), by simp only [Server.handleFrame, hr]; rfl, by simpa using h'⟩
    | sync a b =>
      obtain ⟨s', hr, h'⟩ := handleTraffic_coreT hok hi addr (.sync a b) nowMs
      exact ⟨(s', []), by simp only [Server.handleFrame, hr]; rfl, by simpa using h'⟩
    | ack a b c =>
      obtain ⟨s', hr, h'⟩ := handleTraffic_coreT hok hi addr (.ack a b c) nowMs
      exact ⟨(s', []), by simp only [Server.handleFrame, hr]; rfl, by simpa using h'⟩
  obtain ⟨⟨s', sent⟩, hr, h'⟩ := key
  exact ⟨(s', sent), hr, (Server.handleFrame_wq hc hw addr f nowMs T hr).1, h'⟩

theorem handleFrames_coreT (hok : HCOkT hc ep PInv Inv last) {s : Server H} (hw : s.WF)
    (hi : CoreT ep PInv Inv last T tx s) (arrivals : List (Nat × List Nat)) (nowMs : Nat)
    (harr : ArrOk PInv arrivals) :
    ∃ r, s.handleFrames hc arrivals nowMs T = .ok r ∧ r.1.WF ∧ CoreT ep PInv Inv last T (tx ++ r.2) r.1 := by
  rw [handleFrames_eq]
  induction arrivals generalizing s tx with
  | nil => exact ⟨(s, []), rfl, hw, by simpa using hi⟩
  | cons a rest ih =>
    rw [List.foldlM_cons]
    have h1 : ∃ r, frameStep hc nowMs T (s, []) a = .ok r ∧ r.1.WF ∧ CoreT ep PInv Inv last T (tx ++ r.2) r.1 := by
      unfold frameStep
      split
      · exact ⟨_, rfl, hw, by simpa using hi⟩
      · rename_i f hd
        obtain ⟨r, hr, hw', h'⟩ := handleFrame_coreT hok hw hi a.1 f nowMs
          (fun v n r p al hf => harr a List.mem_cons_self v n r p al (by rw [hd, hf]))
        simp only [hr]
        exact ⟨_, rfl, hw', by simpa using h'⟩
    obtain ⟨⟨s1, sent1⟩, hr1, w1, i1⟩ := h1
    rw [hr1]
    obtain ⟨r2, hr2, w2, i2⟩ := ih w1 i1 (fun x hx => harr x (List.mem_cons_of_mem _ hx))
    simp only [bind, Except.bind]
    rw [foldlM_frameStep_acc, hr2]
    exact ⟨_, rfl, w2, by simpa [List.append_assoc] using i2⟩

/-! ### timers -/

theorem handleTimer_coreT (hok : HCOkT hc ep PInv Inv last) {s : Server H} (hw : s.WF)
    (hi : CoreT ep PInv Inv last T tx s) (t : Timer) (nowMs : Nat) :
    CoreT ep PInv Inv last T (tx ++ (s.handleTimer t nowMs).2) (s.handleTimer t nowMs).1 := by
  unfold Server.handleTimer
  split
  · simpa using hi
  · rename_i c hb
    split
    · rename_i ln rn r al reply hst
      have hcm : c ∈ s.clients := hw.byCid_mem hb (by rw [hst]; rfl)
      split
      · split
        · have := hi.grow_free hok c.address [(c.address, reply)] (by simp) (free_of_inactive hw hcm (by rw [hst]; rfl))
          exact this.of_eq rfl rfl rfl
        · simpa using (hi.setEvents _).finish c
      · simpa using hi
    · rename_i hst
      have hcm : c ∈ s.clients := hw.byCid_mem hb (by rw [hst]; rfl)
      split
      · split
        · have := hi.grow_free hok c.address [(c.address, discReq)] (by simp) (free_of_inactive hw hcm (by rw [hst]; rfl))
          exact this.of_eq rfl rfl rfl
        · simpa using (hi.setEvents _).finish c
      · simpa using hi
    · split
      · simpa using hi.finish c
      · simpa using hi
    · simpa using hi

theorem runTimers_coreT (hok : HCOkT hc ep PInv Inv last) (fuel : Nat) : ∀ {s : Server H} (sent : Log), s.WF →
    CoreT ep PInv Inv last T (tx ++ sent) s → ∀ (nowMs : Nat),
    (Server.runTimers fuel s nowMs sent).1.WF ∧
    CoreT ep PInv Inv last T (tx ++ (Server.runTimers fuel s nowMs sent).2) (Server.runTimers fuel s nowMs sent).1 := by
  induction fuel with
  | zero => intro s sent hw hi nowMs; exact ⟨hw, hi⟩
  | succ fuel ih =>
    intro s sent hw hi nowMs
    rw [Server.runTimers]
    split
    · exact ⟨hw, hi⟩
    · split
      · exact ⟨hw, hi⟩
      · split
        · exact ⟨hw, hi⟩
        · rename_i t h hp
          have hw0 : ({ s with timers := h } : Server H).WF :=
            hw.set_timers h (fun x hx => hw.timersLt x ((mem_tPop _ _ _ x hp).2 (Or.inr hx)))
          have h1 : CoreT ep PInv Inv last T (tx ++ sent) ({ s with timers := h } : Server H) := hi.of_eq rfl rfl rfl
          have h2 := handleTimer_coreT hok hw0 h1 t nowMs
          have w2 := (Server.popTimer_wq hw hp nowMs).1
          rw [List.append_assoc] at h2
          exact ih _ w2 h2 nowMs

theorem activeTimeouts_coreT (hok : HCOkT hc ep PInv Inv last) {s : Server H} (hi : CoreT ep PInv Inv last T tx s)
    (nowMs : Nat) : ∃ s', s.activeTimeouts hc nowMs = .ok s' ∧ CoreT ep PInv Inv last T tx s' := by
  unfold Server.activeTimeouts
  refine foldlM_ok_of_inv (fun x : Server H => CoreT ep PInv Inv last T tx x) _ ?_ s.active s hi
  intro b cid hb
  simp only
  split
  · exact ⟨b, rfl, hb⟩
  · rename_i c hf
    split
    · rename_i h t sig hst
      split
      · have hs := hb.byCid hf
        rw [hst] at hs
        obtain ⟨h', out, hr, _, _⟩ := hok.receive tx c.address h hs.1
        rw [hr]
        exact ⟨_, rfl, (hb.setEvents _).finish c⟩
      · exact ⟨b, rfl, hb⟩
    · exact ⟨b, rfl, hb⟩

/-! ### per-connection work -/

theorem stepActive_coreT (hok : HCOkT hc ep PInv Inv last) {s : Server H} (hw : s.WF)
    (hi : CoreT ep PInv Inv last T tx s) (nowMs : Nat) :
    ∃ r, s.stepActive hc nowMs T = .ok r ∧ r.1.WF ∧ CoreT ep PInv Inv last T (tx ++ r.2) r.1 := by
  unfold Server.stepActive
  refine foldlM_ok_of_inv
    (fun x : Server H × List (Nat × List Nat) => x.1.WF ∧ CoreT ep PInv Inv last T (tx ++ x.2) x.1) _ ?_ s.active
    (s, []) ⟨hw, by simpa using hi⟩
  intro b cid hb
  simp only
  split
  · exact ⟨b, rfl, hb⟩
  · rename_i c hf
    split
    · rename_i h t sig hst
      have hs := hb.2.byCid hf
      rw [hst] at hs
      have hcm : c ∈ b.1.clients := hb.1.byCid_mem hf (by rw [hst]; rfl)
      have hlt : c.cid < b.1.nextCid := hb.1.cidLt c (List.mem_append_left _ hcm)
      split <;> split <;> first
        | (obtain ⟨h', out, hr, _, _⟩ := hok.receive _ c.address h hs.1
           rw [hr]
           refine ⟨_, rfl, ?_, ?_⟩
           · have h1 := WQ.events hb.1 (List.map (SEvent.receive c.address) out) (NoConn.receive _ _)
             have h2 := h1.trans (WQ.put h1.1 (c := c) hcm .closing rfl rfl (fun hh => by cases hh)
               (fun _ => by rw [hst]; rfl))
             exact (h2.push _ (by show c.cid < _; rw [Server.put_nextCid]; exact hlt) (by intro hk; cases hk)).1
           · rw [← List.append_assoc]
             exact (CoreT.put_grow hok
               (s := { b.1 with eventsOut := b.1.eventsOut ++ out.map (SEvent.receive c.address) })
               (hb.1.of_eq rfl rfl rfl rfl rfl)
               (hb.2.setEvents _) hcm .closing [(c.address, discReq)] (by simp) trivial).of_eq rfl rfl rfl)
        | (obtain ⟨h1, hr1, i1, l1⟩ := hok.step _ c.address h T hs.1 hs.2
           rw [hr1]
           obtain ⟨h2, out, hr2, i2, l2⟩ := hok.receive _ c.address h1 i1
           simp only [hr2]
           refine ⟨_, rfl, ?_, ?_⟩
           · refine Server.WF.of_eq (s := b.1.put { c with state := .active h2 t _ }) ?_ rfl rfl rfl rfl rfl
             exact Server.WF.put hb.1 hcm rfl rfl rfl rfl
           · refine CoreT.setEvents (CoreT.put hb.2 _ ?_) _
             exact ⟨i2, by rw [l2, l1]; exact Nat.le_refl _⟩)
        | (rename_i hne; exact absurd rfl hne)
        | (rename_i hne; cases hne)
    · exact ⟨b, rfl, hb⟩

theorem flushActive_coreT (hok : HCOkT hc ep PInv Inv last) {s : Server H} (hw : s.WF)
    (hi : CoreT ep PInv Inv last T tx s) :
    ∃ r, s.flushActive hc = .ok r ∧ r.1.WF ∧ CoreT ep PInv Inv last T (tx ++ r.2) r.1 := by
  unfold Server.flushActive
  refine foldlM_ok_of_inv
    (fun x : Server H × List (Nat × List Nat) => x.1.WF ∧ CoreT ep PInv Inv last T (tx ++ x.2) x.1) _ ?_ s.active
    (s, []) ⟨hw, by simpa using hi⟩
  intro b cid hb
  simp only
  split
  · exact ⟨b, rfl, hb⟩
  · rename_i c hf
    split
    · rename_i h t sig hst
      have hs := hb.2.byCid hf
      rw [hst] at hs
      have hcm : c ∈ b.1.clients := hb.1.byCid_mem hf (by rw [hst]; rfl)
      obtain ⟨h1, rng1, out, hr, i1, l1⟩ := hok.flush _ c.address h b.1.rng hs.1
      rw [hr]
      refine ⟨_, rfl, ?_, ?_⟩
      · have h0 : WQ b.1 ({ b.1 with rng := rng1 } : Server H) :=
          (WQ.refl hb.1).of_eq rfl rfl rfl rfl rfl rfl (EvNC.refl _)
        exact (WQ.put h0.1 (c := c) hcm (.active h1 t sig) rfl rfl (fun _ => by rw [hst]; rfl)
          (fun _ => by rw [hst]; rfl)).1
      · rw [← List.append_assoc]
        exact CoreT.put_grow hok (s := { b.1 with rng := rng1 }) (hb.1.of_eq rfl rfl rfl rfl rfl)
          (hb.2.of_eq rfl rfl rfl) hcm (.active h1 t sig) (toAddr c.address out)
          (by intro x hx; simp only [toAddr, List.mem_map] at hx; obtain ⟨f, _, rfl⟩ := hx; rfl)
          ⟨i1, by rw [l1]; exact hs.2⟩
    · exact ⟨b, rfl, hb⟩

/-! ### `Server::step` and the API -/

theorem step_coreT (hok : HCOkT hc ep PInv Inv last) {s : Server H} (hw : s.WF)
    (hi : CoreT ep PInv Inv last T tx s) (nowNs : Nat) (hle : T ≤ nowNs) (arrivals : List (Nat × List Nat))
    (harr : ArrOk PInv arrivals) :
    ∃ s' sent evs, s.step hc nowNs arrivals = .ok (s', sent, evs) ∧ s'.WF ∧
      CoreT ep PInv Inv last nowNs (tx ++ sent) s' := by
  have hi0 := hi.mono hle
  obtain ⟨⟨s1, sent1⟩, h1, w1, i1⟩ := flushActive_coreT hok hw hi0
  obtain ⟨⟨s2, sent2⟩, h2, w2, i2⟩ := handleFrames_coreT hok w1 i1 arrivals ((nowNs - s.timeBase) / 1000000) harr
  obtain ⟨w3, i3⟩ := runTimers_coreT hok (s2.timers.size * 12 + 16) (s := s2) [] w2 (by simpa using i2)
    ((nowNs - s.timeBase) / 1000000)
  obtain ⟨s4, h4, i4⟩ := activeTimeouts_coreT hok i3 ((nowNs - s.timeBase) / 1000000)
  have w4 := (Server.activeTimeouts_wq hc w3 _ h4).1
  have w5 := (Server.retain_wq w4).1
  have i5 : CoreT ep PInv Inv last nowNs
      (tx ++ (sent1 ++ sent2) ++ (Server.runTimers (s2.timers.size * 12 + 16) s2 ((nowNs - s.timeBase) / 1000000) []).2)
      s4.retain := by
    refine ⟨?_, i4.cfg⟩
    intro c hc
    rcases List.mem_append.1 hc with hc | hc
    · exact i4.core c (List.mem_append_left _ hc)
    · exact i4.core c (List.mem_append_right _ (List.mem_filter.1 hc).1)
  obtain ⟨⟨s6, sent4⟩, h6, w6, i6⟩ := stepActive_coreT hok w5 i5 ((nowNs - s.timeBase) / 1000000)
  refine ⟨{ s6 with eventsOut := [] }, sent1 ++ sent2 ++ (Server.runTimers (s2.timers.size * 12 + 16) s2 ((nowNs - s.timeBase) / 1000000) []).2 ++ sent4, s6.eventsOut, ?_, w6.of_eq rfl rfl rfl rfl rfl, ?_⟩
  · unfold Server.step
    simp only [h1, h2]
    rw [h4]
    simp only
    split
    · rename_i t ht
      have := ht.symm.trans h6
      cases this
    · rename_i s7 sent7 ht
      have := ht.symm.trans h6
      cases this
      rfl
  · have := i6.setEvents []
    simpa [List.append_assoc] using this

theorem apply_coreT (hok : HCOkT hc ep PInv Inv last) {s : Server H} (hw : s.WF)
    (hi : CoreT ep PInv Inv last T tx s) (op : SOp) (hop : sopOk T op = true) (harr : ArrOk PInv op.arrivals) :
    ∃ s' sent evs, s.apply hc op = .ok (s', sent, evs) ∧ s'.WF ∧
      CoreT ep PInv Inv last (sopTime T op) (tx ++ sent) s' := by
  cases op with
  | step now arr =>
    simp only [sopOk, decide_eq_true_eq] at hop
    exact step_coreT hok hw hi now hop arr harr
  | flush =>
    obtain ⟨⟨s', sent⟩, hr, w', hi'⟩ := flushActive_coreT hok hw hi
    exact ⟨s', sent, [], by simp only [Server.apply, Server.flush, hr], w', hi'⟩
  | drop addr =>
    refine ⟨_, [], [], rfl, (Server.drop_wq hw addr).1, ?_⟩
    unfold Server.drop
    split
    · simpa [sopTime] using hi.finish _
    · simpa [sopTime] using hi
  | disconnect addr m =>
    refine ⟨_, [], [], rfl, (Server.disconnect_wq hw addr m).1, ?_⟩
    unfold Server.disconnect
    split
    · rename_i c hf
      split
      · rename_i h t sig hst
        have hs := hi.find hf
        rw [hst] at hs
        simpa [sopTime] using hi.put { c with state := .active h t (some m) } hs
      · simpa [sopTime] using hi
    · simpa [sopTime] using hi
  | send addr data chan mode =>
    simp only [sopOk, Bool.and_eq_true, decide_eq_true_eq] at hop
    refine ⟨_, [], [], rfl, (Server.send_wq hc hw addr data chan mode).1, ?_⟩
    unfold Server.send
    split
    · rename_i c hf
      split
      · rename_i h t sig hst
        have hs := hi.find hf
        rw [hst] at hs
        obtain ⟨h1, h2⟩ := hok.send tx c.address h data chan mode hs.1 hop.1 hop.2
        simpa [sopTime] using hi.put { c with state := .active (hc.send h data chan mode) t sig } ⟨h1, by rw [h2]; exact hs.2⟩
      · simpa [sopTime] using hi
    · simpa [sopTime] using hi

theorem runS_coreT (hok : HCOkT hc ep PInv Inv last) (ops : List SOp) : ∀ {T : Nat} {tx : Log} {s : Server H},
    s.WF → CoreT ep PInv Inv last T tx s → sopsOk T ops = true → (∀ op ∈ ops, ArrOk PInv op.arrivals) →
    ∃ s' sent evs, runS hc s ops = .ok (s', sent, evs) ∧ s'.WF ∧
      CoreT ep PInv Inv last (sopsTime T ops) (tx ++ sent) s' := by
  induction ops with
  | nil => intro T tx s hw hi _ _; exact ⟨s, [], [], rfl, hw, by simpa [sopsTime] using hi⟩
  | cons op rest ih =>
    intro T tx s hw hi hop harr
    simp only [sopsOk, Bool.and_eq_true] at hop
    obtain ⟨s1, sent1, evs1, h1, w1, i1⟩ := apply_coreT hok hw hi op hop.1 (harr op List.mem_cons_self)
    obtain ⟨s2, sent2, evs2, h2, w2, i2⟩ := ih w1 i1 hop.2 (fun o ho => harr o (List.mem_cons_of_mem _ ho))
    exact ⟨s2, sent1 ++ sent2, evs1 ++ evs2, by simp only [runS, h1, h2], w2,
      by simpa [sopsTime, List.append_assoc] using i2⟩

end Uflow.EpCeil
