import Uflow.Lemmas.SysLiveRun

/-!
Liveness of the composed system (C02Live), part 5: one redelivery round. Handing every datagram of the
network to `handle_datagram` once more leaves every emitted packet of the current window completely
received (entry flag) or behind its channel's base id.
-/

namespace Uflow.Sys

open Uflow Uflow.Gen Uflow.Codec Uflow.PSend Uflow.PRecv Uflow.Frag

/-! ### the datagrams of the honest sender pass `datagram_is_valid` -/

theorem genuine_valid {b0 w W M : Nat} (hw : w ≤ 2^16) {s : Sys} (h : SInv b0 w W M s) (i : Nat) (p : Pending)
    (hp : s.pend[i]? = some p) (d : Datagram) (hd : Genuine p d) : datagramIsValid d = true := by
  obtain ⟨hwf, e, he, -, e2, -, e4, e5, -⟩ := h.snd.plink i p hp
  obtain ⟨-, -, hch⟩ := h.snd.hinv.ids i e he
  obtain ⟨l1, l2, l3, -, -⟩ := h.snd.hinv.leads i e he
  generalize pidSub e.sequenceId e.baseAt = out at *
  obtain ⟨-, a2, a3, a4⟩ := l1.exact (by omega)
  obtain ⟨b1, b2, -, b4⟩ := l2.exact (by omega)
  obtain ⟨k, hk, hdk⟩ := hd
  rw [genuine_eq p hwf d k hk hdk]
  have hwf' : p.lastFragmentId = numFragments p.data.length - 1 := hwf
  unfold datagramIsValid
  simp only [CHANNEL_COUNT, MAX_FRAGMENT_SIZE]
  rw [if_neg (by rw [← e2]; omega)]
  rw [if_neg ?_]
  · rw [if_neg (by omega)]
    rw [if_neg ?_]
    · rw [if_neg (by have := length_frag_le p.data k; omega)]
    · rintro ⟨hlt, hne⟩
      exact hne (length_frag_full p.data k (by omega))
  · rintro ⟨hc0, hcase⟩
    rw [← e5] at hc0 hcase
    rw [← e4] at hcase
    obtain ⟨x, hx, hPx, -⟩ := b4 hc0
    have hwne : e.windowParentLead ≠ 0 := by
      intro h0
      exact (a3.mp h0) (i - e.channelParentLead) x hx (by omega) (by omega) hPx.1
    rcases hcase with h0 | hlt
    · exact hwne h0
    · obtain ⟨y, -, -, hnone⟩ := a4 hwne
      exact hnone (i - e.channelParentLead) x hx (by omega) (by omega) hPx.1

/-! ### progress of one slot -/

/-- Fragment `f` of the packet of channel `c` with id `x` has been taken care of: the packet is
completely received, or behind its channel's base id, or fragment `f` is in its assembly buffer. -/
def Got (W : Nat) (st : PRecv.State) (x c f : Nat) : Prop :=
  (lget st.slots (wi W x)).entryFlag = true ∨
  pidSub x st.baseId < pidSub (cbO st c) st.baseId ∨
  HasFrag (lget st.slots (wi W x)).asm f

/-- `handle_datagram` never undoes `Got`. -/
theorem hd_got_mono {W M : Nat} (hW : WOk W) {st st' : PRecv.State} (hinv : Inv W M st) (hord : Ord W st)
    (hl : RL W st) (d : Datagram) (h : handleDatagram st d = .ok st') (x c f : Nat)
    (hg : Got W st x c f) : Got W st' x c f := by
  obtain ⟨-, hent⟩ := handleDatagram_live hW hinv hord hl d h
  obtain ⟨-, hbase, hcb⟩ := handleDatagram_ord hW hinv hord d h
  rcases hg with hg | hg | hg
  · exact Or.inl (hent _ hg)
  · right; left
    unfold cbO
    rw [hbase, hcb]
    exact hg
  · rcases handleDatagram_shape hinv d h with ⟨rfl, -⟩ | ⟨-, -, -, s1, o, ht, hcase⟩
    · exact Or.inr (Or.inr hg)
    have hfr := tryAdd_frame st _ d s1 o ht
    by_cases hj : wi W x = wi W d.sequenceId
    · rcases hcase with ⟨rfl, rfl⟩ | ⟨p, rfl, rfl⟩
      · rcases tryAdd_none st _ d st' ht with ⟨rfl, -⟩ | ⟨-, hmono⟩
        · exact Or.inr (Or.inr hg)
        · right; right
          rw [hj]
          rw [hj] at hg
          exact hmono f hg
      · left
        obtain ⟨-, -, -, hs2⟩ := hdPost_facts s1 (wi W d.sequenceId) d p (cbO st d.channelId) st.baseId
        rw [hs2, lget_lset, if_pos hj]
    · right; right
      rcases hcase with ⟨rfl, rfl⟩ | ⟨p, rfl, rfl⟩
      · rw [hfr.other _ hj]; exact hg
      · obtain ⟨-, -, -, hs2⟩ := hdPost_facts s1 (wi W d.sequenceId) d p (cbO st d.channelId) st.baseId
        rw [hs2, lget_lset, if_neg hj, hfr.other _ hj]
        exact hg

/-- `handle_datagram` on fragment `f` of the emitted packet `p` whose id lies in the window. -/
theorem hd_got {W M : Nat} {pend : List Pending} {adv : Nat} {st st' : PRecv.State}
    (hinv : Inv W M st) (hce : CE st) (hc : CInv W pend adv st) (p : Pending) (i : Nat)
    (hp : pend[i]? = some p) (hwf : WF p) (d : Datagram) (f : Nat) (hf : f ≤ p.lastFragmentId)
    (hd : p.datagram f = .ok d) (hv : datagramIsValid d = true) (hx : d.sequenceId < 2^20)
    (hin : pidSub d.sequenceId st.baseId < W) (hpos : adv + pidSub d.sequenceId st.baseId = i)
    (h : handleDatagram st d = .ok st') : Got W st' d.sequenceId p.channelId f := by
  have he := genuine_eq p hwf d f hf hd
  have hdc : d.channelId = p.channelId := by rw [he]
  have hdw : d.windowParentLead = p.windowParentLead := by rw [he]
  have hdp : d.channelParentLead = p.channelParentLead := by rw [he]
  have hdl : d.fragmentIdLast = p.lastFragmentId := by rw [he]
  have hdf : d.fragmentId = f := by rw [he]
  rcases handleDatagram_shape hinv d h with ⟨rfl, hearly⟩ | ⟨-, -, -, s1, o, ht, hcase⟩
  · rcases hearly with h1 | h1 | h1
    · rw [hv] at h1; cases h1
    · omega
    · right; left
      rw [← hdc]; exact h1
  rcases hcase with ⟨rfl, rfl⟩ | ⟨pk, rfl, rfl⟩
  · rcases tryAdd_none st _ d st' ht with ⟨rfl, hsame⟩ | ⟨hhas, -⟩
    · rcases hsame with ⟨a, hcl⟩ | ⟨a, c, w, cp, l, buf, hact, hmis⟩
      · left
        rw [getSlot_eq] at hcl
        exact hce _ a hcl
      · exfalso
        rw [getSlot_eq] at hact
        obtain ⟨p', hp', l', a', buf', -, -, hA, -⟩ := (hc d.sequenceId hx hin).asm a c w cp l buf hact
        rw [hpos, hp] at hp'
        cases hp'
        rw [hact] at hA
        simp only [Asm.active.injEq] at hA
        obtain ⟨-, rfl, rfl, rfl, rfl, -⟩ := hA
        rcases hmis with hm | hm | hm | hm
        · exact hm hdc
        · exact hm hdw
        · exact hm hdp
        · exact hm hdl
    · right; right
      rw [getSlot_eq, hdf] at hhas
      exact hhas
  · left
    obtain ⟨-, -, -, hs2⟩ := hdPost_facts s1 (wi W d.sequenceId) d pk (cbO st d.channelId) st.baseId
    rw [hs2, lget_lset, if_pos rfl]

/-! ### the round -/

/-- What a run of `deliver` steps leaves alone. -/
structure Frame (s t : Sys) : Prop where
  snd : t.snd = s.snd
  hist : t.hist = s.hist
  pend : t.pend = s.pend
  net : t.net = s.net
  seen : t.seen = s.seen
  adv : t.rcv.adv = s.rcv.adv
  log : t.rcv.log = s.rcv.log

theorem Frame.refl (s : Sys) : Frame s s := ⟨rfl, rfl, rfl, rfl, rfl, rfl, rfl⟩

theorem Frame.trans {s t u : Sys} (a : Frame s t) (b : Frame t u) : Frame s u :=
  ⟨by rw [b.snd, a.snd], by rw [b.hist, a.hist], by rw [b.pend, a.pend], by rw [b.net, a.net],
   by rw [b.seen, a.seen], by rw [b.adv, a.adv], by rw [b.log, a.log]⟩

/-- Position of an emitted packet of the current send window in the receive window. -/
theorem win_pos {b0 w W M : Nat} (hw : w < 2^20) (hwW : w ≤ W) {s : Sys} (h : SInv b0 w W M s) (i : Nat)
    (h1 : s.rcv.adv ≤ i) (h2 : i < s.hist.emitted.length) :
    pidAdd b0 i < 2^20 ∧ pidSub (pidAdd b0 i) s.rcv.st.baseId = i - s.rcv.adv ∧ i - s.rcv.adv < W := by
  obtain ⟨-, w2, -, -, -⟩ := hinv_win h.snd.hinv hw
  have hlo := h.lo
  refine ⟨PRecv.pidAdd_lt _ _, ?_, by omega⟩
  rw [h.rcv.gi.gbase]
  exact off_arith b0 s.rcv.adv i h1 (by omega)

/-- One `deliver` step: it succeeds, keeps the invariants, never undoes `Got`, and takes care of the
fragment it carries. -/
theorem deliver_step {b0 w W M : Nat} (hW : WOk W) (hw : w ≤ 2^16) (hwW : w ≤ W) {s : Sys}
    (h : SInv b0 w W M s) (l : LInv W s) (k : Nat) :
    ∃ t, stepS s (.deliver k) = .ok t ∧ Frame s t ∧
      (∀ x c f, Got W s.rcv.st x c f → Got W t.rcv.st x c f) ∧
      (∀ i d p, s.net[k]? = some (i, d) → s.rcv.adv ≤ i → s.pend[i]? = some p →
        Got W t.rcv.st d.sequenceId p.channelId d.fragmentId) := by
  simp only [stepS]
  cases hk : s.net[k]? with
  | none =>
    exact ⟨s, rfl, Frame.refl s, fun _ _ _ hg => hg, fun i d p hc => by cases hc⟩
  | some pr =>
    obtain ⟨i, d⟩ := pr
    simp only
    by_cases hfresh : Fresh s i
    · rw [if_pos hfresh, stepT_dg]
      obtain ⟨st', hd, -⟩ := handleDatagram_inv h.rcv.inv d
      rw [hd, bindR_ok, bindR_ok]
      refine ⟨_, rfl, ⟨rfl, rfl, rfl, rfl, rfl, rfl, rfl⟩, ?_, ?_⟩
      · intro x c f hg
        exact hd_got_mono hW h.rcv.inv h.rcv.ord l.rl d hd x c f hg
      · intro i' d' p hc hadv hp
        cases hc
        obtain ⟨p', hp', hgen⟩ := h.snd.net i d (List.mem_of_getElem? hk)
        rw [hp] at hp'
        cases hp'
        obtain ⟨hwf, e, he, -, -, hseq, -⟩ := h.snd.plink i p hp
        have hv := genuine_valid hw h i p hp d hgen
        obtain ⟨f, hf, hdf⟩ := hgen
        have hdseq : d.sequenceId = pidAdd b0 i := by
          rw [genuine_eq p hwf d f hf hdf]
          show p.sequenceId = _
          rw [← hseq]; exact (h.snd.hinv.ids i e he).2.1
        have hfid : d.fragmentId = f := by rw [genuine_eq p hwf d f hf hdf]
        have hilt : i < s.hist.emitted.length := (List.getElem?_eq_some_iff.mp he).1
        obtain ⟨q1, q2, q3⟩ := win_pos (by omega) hwW h i hadv hilt
        rw [← hdseq] at q1 q2
        have := hd_got h.rcv.inv l.rl.ce h.cinv p i hp hwf d f hf hdf hv q1 (by omega) (by omega) hd
        rw [hfid]
        exact this
    · rw [if_neg hfresh]
      refine ⟨s, rfl, Frame.refl s, fun _ _ _ hg => hg, ?_⟩
      intro i' d' p hc hadv hp
      cases hc
      exfalso
      apply hfresh
      unfold Fresh
      rw [h.rcv.inv.wsz]
      have := hW.le
      omega

/-- A run of `deliver` steps. -/
theorem deliver_run {b0 w W M : Nat} (hW : WOk W) (hw : w ≤ 2^16) (hwW : w ≤ W) (ks : List Nat) :
    ∀ {s : Sys}, SInv b0 w W M s → PInv W s → LInv W s →
    ∃ t, runS s (ks.map SOp.deliver) = .ok t ∧ SInv b0 w W M t ∧ PInv W t ∧ LInv W t ∧ Frame s t ∧
      (∀ x c f, Got W s.rcv.st x c f → Got W t.rcv.st x c f) ∧
      (∀ k ∈ ks, ∀ i d p, s.net[k]? = some (i, d) → s.rcv.adv ≤ i → s.pend[i]? = some p →
        Got W t.rcv.st d.sequenceId p.channelId d.fragmentId) := by
  induction ks with
  | nil =>
    intro s h p l
    exact ⟨s, rfl, h, p, l, Frame.refl s, fun _ _ _ hg => hg, fun k hk => by cases hk⟩
  | cons k ks ih =>
    intro s h p l
    obtain ⟨s1, hs1, f1, m1, g1⟩ := deliver_step hW hw hwW h l k
    have h1 := sinv_step hW (by omega) h _ hs1
    have p1 := pinv_step hW hw h p _ hs1
    have l1 := linv_step hW hw h p l _ hs1
    obtain ⟨t, ht, h2, p2, l2, f2, m2, g2⟩ := ih h1 p1 l1
    refine ⟨t, ?_, h2, p2, l2, f1.trans f2, fun x c f hg => m2 x c f (m1 x c f hg), ?_⟩
    · show runS s (SOp.deliver k :: ks.map SOp.deliver) = .ok t
      rw [runS, hs1, bindR_ok]
      exact ht
    · intro k' hk' i d pk hn hadv hp
      rcases List.mem_cons.mp hk' with rfl | hk'
      · exact m2 _ _ _ (g1 i d pk hn hadv hp)
      · exact g2 k' hk' i d pk (by rw [f1.net]; exact hn) (by rw [f1.adv]; exact hadv)
          (by rw [f1.pend]; exact hp)

/-- The packet at emission position `i` is completely received or behind its channel's base id. -/
def Arrived (b0 W : Nat) (t : Sys) (i : Nat) (p : Pending) : Prop :=
  (lget t.rcv.st.slots (wi W (pidAdd b0 i))).entryFlag = true ∨
  pidSub (pidAdd b0 i) t.rcv.st.baseId < pidSub (cbO t.rcv.st p.channelId) t.rcv.st.baseId

/-- **After a redelivery round** every emitted packet the receive window has not passed is completely
received or behind its channel's base id. -/
theorem round_arrived {b0 w W M : Nat} (hW : WOk W) (hw : w ≤ 2^16) (hwW : w ≤ W) {s : Sys}
    (h : SInv b0 w W M s) (p : PInv W s) (l : LInv W s) :
    ∃ t, runS s ((List.range s.net.length).map SOp.deliver) = .ok t ∧ SInv b0 w W M t ∧ PInv W t ∧
      LInv W t ∧ Frame s t ∧
      ∀ i pk, t.pend[i]? = some pk → t.rcv.adv ≤ i → Arrived b0 W t i pk := by
  obtain ⟨t, ht, h2, p2, l2, f2, -, g2⟩ := deliver_run hW hw hwW (List.range s.net.length) h p l
  refine ⟨t, ht, h2, p2, l2, f2, ?_⟩
  intro i pk hpk hadv
  obtain ⟨hwf, e, he, -, -, hseq, -⟩ := h2.snd.plink i pk hpk
  have hilt : i < t.hist.emitted.length := (List.getElem?_eq_some_iff.mp he).1
  obtain ⟨q1, q2, q3⟩ := win_pos (by omega) hwW h2 i hadv hilt
  have hpseq : pk.sequenceId = pidAdd b0 i := by rw [← hseq]; exact (h2.snd.hinv.ids i e he).2.1
  -- every fragment has been taken care of
  have hall : ∀ f, f ≤ pk.lastFragmentId → Got W t.rcv.st (pidAdd b0 i) pk.channelId f := by
    intro f hf
    have hd := datagram_ok pk hwf f hf
    have hmem := l.nf i pk (by rw [← f2.pend]; exact hpk) f _ hf hd
    obtain ⟨k, hklt, hk⟩ := List.mem_iff_getElem.mp hmem
    have := g2 k (List.mem_range.mpr hklt) i _ pk (by rw [List.getElem?_eq_getElem hklt, hk])
      (by rw [← f2.adv]; exact hadv) (by rw [← f2.pend]; exact hpk)
    simp only at this
    rw [hpseq] at this
    exact this
  unfold Arrived
  by_cases hen : (lget t.rcv.st.slots (wi W (pidAdd b0 i))).entryFlag = true
  · exact Or.inl hen
  by_cases hbeh : pidSub (pidAdd b0 i) t.rcv.st.baseId < pidSub (cbO t.rcv.st pk.channelId) t.rcv.st.baseId
  · exact Or.inr hbeh
  exfalso
  have hfr : ∀ f, f ≤ pk.lastFragmentId → HasFrag (lget t.rcv.st.slots (wi W (pidAdd b0 i))).asm f := by
    intro f hf
    rcases hall f hf with h1 | h1 | h1
    · exact absurd h1 hen
    · exact absurd h1 hbeh
    · exact h1
  obtain ⟨a, c, w', cp, la, buf, hact, -⟩ := hfr 0 (Nat.zero_le _)
  obtain ⟨p', hp', l', a', buf', hfeed, hnc, hA, hwrites⟩ :=
    (h2.cinv (pidAdd b0 i) q1 (by omega)).asm a c w' cp la buf hact
  rw [q2, show t.rcv.adv + (i - t.rcv.adv) = i by omega, hpk] at hp'
  cases hp'
  rw [hact] at hA
  simp only [Asm.active.injEq] at hA
  obtain ⟨-, -, -, -, -, rfl⟩ := hA
  obtain ⟨-, hhas, -⟩ := buf_of_gidx pk hwf l' hfeed buf hwrites
  apply hnc
  rw [complete_iff_gidx pk hwf l' hfeed]
  intro k hk
  have hk' : k ≤ pk.lastFragmentId := by have := wf_succ pk hwf; omega
  obtain ⟨a2, c2, w2, cp2, la2, buf2, hact2, hh⟩ := hfr k hk'
  rw [hact] at hact2
  simp only [Asm.active.injEq] at hact2
  obtain ⟨-, -, -, -, -, rfl⟩ := hact2
  exact (hhas k).mp hh

end Uflow.Sys
