import Uflow.Lemmas.HcSysDefs

/-!
C01Hc, part 8: an executable sufficient test for the schedule hypothesis `Guarded` (used for the
non-vacuity examples: `decide +kernel` evaluates it on a concrete run).
-/

namespace Uflow.HcSys

open Uflow Uflow.Gen Uflow.Codec Uflow.HalfConn Uflow.PSend
open Uflow.PRecv (bindR bindR_ok)
open Uflow.Rate (FloatOps)

variable {F : Type}

/-- `d` is fragment `fid` of `p`. -/
def isFragB (p : Pending) (fid : Nat) (d : Datagram) : Bool :=
  match p.datagram fid with
  | .ok d' => d' == d
  | .error _ => false

theorem isFragB_sound (p : Pending) (fid : Nat) (d : Datagram) (h : isFragB p fid d = true) :
    p.datagram fid = .ok d := by
  unfold isFragB at h
  split at h
  · rename_i d' hd
    rw [hd, eq_of_beq h]
  · cases h

/-- Executable `FreshDg`. -/
def freshDgB (h : HcPair F) (d : Datagram) : Bool :=
  (List.range h.pend.length).any fun i =>
    match h.pend[i]? with
    | some p => decide (h.advB + h.B.pr.windowSize ≤ i + 2^20) &&
        (List.range (p.lastFragmentId + 1)).any fun fid => isFragB p fid d
    | none => false

theorem freshDgB_sound (h : HcPair F) (d : Datagram) (hb : freshDgB h d = true) : FreshDg h d := by
  simp only [freshDgB, List.any_eq_true, List.mem_range] at hb
  obtain ⟨i, _, hi⟩ := hb
  split at hi
  · rename_i p hp
    simp only [Bool.and_eq_true, decide_eq_true_eq, List.any_eq_true, List.mem_range] at hi
    obtain ⟨hle, fid, hfid, hf⟩ := hi
    exact ⟨i, ⟨p, fid, hp, by omega, isFragB_sound p fid d hf⟩, hle⟩
  · cases hi

/-- Executable `FreshAck`. -/
def freshAckB (h : HcPair F) (pb : Nat) : Bool :=
  h.bases.any fun x => x.2 == pb &&
    decide ((h.pend.length - h.A.ps.win.length) + h.A.ps.windowSize < x.1 + 2^20)

theorem freshAckB_sound (h : HcPair F) (pb : Nat) (hb : freshAckB h pb = true) : FreshAck h pb := by
  simp only [freshAckB, List.any_eq_true, Bool.and_eq_true, decide_eq_true_eq, beq_iff_eq] at hb
  obtain ⟨⟨a, b⟩, hm, rfl, hlt⟩ := hb
  exact ⟨a, hm, hlt⟩

/-- Executable `FreshSync`. -/
def freshSyncB (h : HcPair F) (id : Nat) : Bool :=
  h.syncs.any fun x => x.2 == id && decide (h.advB + h.B.pr.windowSize < x.1 + 2^20)

theorem freshSyncB_sound (h : HcPair F) (id : Nat) (hb : freshSyncB h id = true) : FreshSync h id := by
  simp only [freshSyncB, List.any_eq_true, Bool.and_eq_true, decide_eq_true_eq, beq_iff_eq] at hb
  obtain ⟨⟨n, b⟩, hm, rfl, hlt⟩ := hb
  exact ⟨n, hm, hlt⟩

/-- Executable `OpOk`. -/
def opOkB (h : HcPair F) : POp → Bool
  | .deliverAB k =>
    match h.wireAB[k]? with
    | none => true
    | some bytes =>
      match decode bytes with
      | some (.data id _ dgs) => !h.B.aq.contains id || dgs.all (freshDgB h)
      | some (.sync _ (some id)) =>
        (match PRecv.resynchronize h.B.pr id with
         | .ok pr => pr == h.B.pr
         | .error _ => false) || freshSyncB h id
      | _ => true
  | .deliverBA k =>
    match h.wireBA[k]? with
    | none => true
    | some bytes =>
      match decode bytes with
      | some (.ack _ pb _) => freshAckB h pb
      | _ => true
  | _ => true

theorem opOkB_sound (h : HcPair F) (op : POp) (hb : opOkB h op = true) : OpOk h op := by
  cases op with
  | deliverAB k =>
    intro bytes hk
    simp only [opOkB, hk] at hb
    refine ⟨?_, ?_⟩
    · intro id nonce dgs hd hc d hmem
      rw [hd] at hb
      simp only [hc, Bool.not_true, Bool.false_or, List.all_eq_true] at hb
      exact freshDgB_sound h d (hb d hmem)
    · intro nf id hd
      rw [hd] at hb
      simp only [Bool.or_eq_true] at hb
      rcases hb with hb | hb
      · left
        split at hb
        · rename_i pr hpr
          rw [hpr, eq_of_beq hb]
        · cases hb
      · exact Or.inr (freshSyncB_sound h id hb)
  | deliverBA k =>
    intro bytes hk fb pb acks hd
    simp only [opOkB, hk, hd] at hb
    exact freshAckB_sound h pb hb
  | sendA d c m => trivial
  | flushA => trivial
  | stepA now => trivial
  | recvB => trivial
  | flushB => trivial
  | stepB now => trivial

/-- Runs the schedule and tests the side condition of every step. -/
def guardedB (fo : FloatOps F) : HcPair F → List POp → Bool
  | _, [] => true
  | h, op :: rest =>
    opOkB h op &&
      (match stepP fo h op with
       | .ok h' => guardedB fo h' rest
       | .error _ => true)

theorem guardedB_sound (fo : FloatOps F) (sched : List POp) (h : HcPair F)
    (hb : guardedB fo h sched = true) : Guarded fo h sched := by
  induction sched generalizing h with
  | nil => trivial
  | cons op rest ih =>
    simp only [guardedB, Bool.and_eq_true] at hb
    refine ⟨opOkB_sound h op hb.1, ?_⟩
    intro h' hs
    have := hb.2
    rw [hs] at this
    exact ih h' this

end Uflow.HcSys
