import Uflow.Lemmas.SysDatagram
import Uflow.Lemmas.SysAdvance
import Uflow.Lemmas.SysDeliver

/-!
The composed system (C01Sys), part 4: `receive` keeps the content invariant `CInv`, every event it
reports is the content of the slot of an emitted packet, and the window base never passes the last
emitted packet.
-/

namespace Uflow.Sys

open Uflow Uflow.Gen Uflow.Codec Uflow.PSend Uflow.PRecv Uflow.Frag

theorem cinv_shrunk {W : Nat} {pend : List Pending} {adv : Nat} {s t : PRecv.State}
    (hc : CInv W pend adv s) (h : Shrunk s t) : CInv W pend adv t := by
  intro x hx hxo
  rw [h.base] at hxo ⊢
  have hs := hc x hx hxo
  refine ⟨?_, ?_, ?_⟩
  · intro hf
    obtain ⟨hf', hd⟩ := h.flag _ hf
    rw [h.chan, h.cpl, h.wpl, hd]
    exact hs.data hf'
  · rw [h.entry, h.wpl]; exact hs.entry
  · rw [h.asm]; exact hs.asm

theorem cinv_frame {W : Nat} {pend : List Pending} {adv : Nat} {s t : PRecv.State}
    (hc : CInv W pend adv s) (hb : t.baseId = s.baseId) (hs : t.slots = s.slots) : CInv W pend adv t := by
  intro x hx hxo
  rw [hb] at hxo ⊢
  rw [hs]
  exact hc x hx hxo

/-- A window advance to `nb` described by `advanceWindow_core`. -/
theorem cinv_advance {W M : Nat} (hW : WOk W) {pend : List Pending} {adv : Nat} {s s' : PRecv.State}
    (hinv : Inv W M s) (hc : CInv W pend adv s) (nb : Nat) (hnb : nb < 2^20)
    (hδ : pidSub nb s.baseId ≤ W) (hbase : s'.baseId = nb)
    (hA : ∀ k, (∀ id, id < 2^20 → pidSub id s.baseId < pidSub nb s.baseId → wi W id ≠ k) →
        core (lget s'.slots k) = core (lget s.slots k))
    (hB : ∀ id, id < 2^20 → pidSub id s.baseId < pidSub nb s.baseId →
        (lget s'.slots (wi W id)).entryFlag = false ∧ (lget s'.slots (wi W id)).dataFlag = false ∧
        (lget s'.slots (wi W id)).asm = .opened) :
    CInv W pend (adv + pidSub nb s.baseId) s' := by
  have hle := hW.le
  have hblt := hinv.blt
  intro x hx hxo
  rw [hbase] at hxo ⊢
  have hun := off_unshift x s.baseId nb hblt hnb (by omega)
  rcases Nat.lt_or_ge (pidSub x s.baseId) W with hlt | hge
  · have hs := hc x hx hlt
    have hu : adv + pidSub nb s.baseId + pidSub x nb = adv + pidSub x s.baseId := by omega
    rw [hu]
    refine hs.of_core (hA _ ?_)
    intro id hid hido hwi
    have := off_eq_of_wi hW id x s.baseId hblt (by omega) (by omega) hwi
    omega
  · have hidlt : pidSub x W < 2^20 := pidSub_lt _ _
    have hido : pidSub (pidSub x W) s.baseId + W = pidSub x s.baseId := by
      have h1 := pidSub_cases x s.baseId hx hblt
      have h2 := pidSub_cases (pidSub x W) s.baseId hidlt hblt
      have h3 := pidSub_cases x W hx (by omega)
      omega
    have hwi := wi_eq_of_off_add hW x _ s.baseId hblt hido.symm
    obtain ⟨b1, b2, b3⟩ := hB (pidSub x W) hidlt (by omega)
    rw [hwi]
    refine ⟨?_, ?_, ?_⟩
    · intro hf; rw [b2] at hf; cases hf
    · intro hf; rw [b1] at hf; cases hf
    · intro a c w cp l buf hf; rw [b3] at hf; cases hf

theorem pidSub_pidAdd_base (b n : Nat) (hb : b < 2^20) (hn : n < 2^20) : pidSub (pidAdd b n) b = n := by
  simp only [pidSub, pidAdd, PACKET_ID_SPAN]; omega

/-- What an event reported by `receiveT` is, in terms of the emitted packets. -/
def EvOk (pend : List Pending) (u : Nat) (chan cpl wpl : Nat) (data : Option (List Nat)) : Prop :=
  ∃ p, pend[u]? = some p ∧ chan = p.channelId ∧ cpl = p.channelParentLead ∧
    wpl = p.windowParentLead ∧ (data = none ∨ data = some p.data)

theorem receiveT_cinv {W M : Nat} (hW : WOk W) {b0 adv : Nat} {log : List LogE} {s s' : PRecv.State}
    {evs : List Ev} {pend : List Pending}
    (hinv : Inv W M s) (h : Ord W s) (g : GI W b0 adv log s) (hc : CInv W pend adv s)
    (hadv : adv ≤ pend.length) (hr : receiveT s = .ok (s', evs)) :
    CInv W pend (adv + pidSub s'.baseId s.baseId) s' ∧
    (∀ ev ∈ evs, EvOk pend (adv + pidSub ev.seq s.baseId) ev.chan ev.cpl ev.wpl ev.data) ∧
    adv + pidSub s'.baseId s.baseId ≤ pend.length ∧ pidSub s'.baseId s.baseId ≤ W := by
  have hvis : Visited W s s.baseId := by
    intro x _ hxo _
    rw [pidSub_self] at hxo
    exact absurd hxo (Nat.not_lt_zero _)
  have hjust := receiveT_just hW hinv h g hr
  obtain ⟨s1, new, hdl, hinv1, hord1, hgi1, hb1, he1, -⟩ := deliverLoopT_ord (M := M) hW b0 adv s.baseId s.endId
    hinv.elt loopFuel s s.baseId [] log hinv h g rfl rfl hinv.blt (by rw [pidSub_self]; exact Nat.zero_le _)
    hvis (loopFuel_gt _ _)
  obtain ⟨hsh, new', hnew, hev⟩ := deliverLoopT_content hW s.baseId s.endId hinv.blt hinv.elt h.ewin
    loopFuel s s.baseId [] s1 ([] ++ new) hinv.wsz hinv.blt (by rw [pidSub_self]; exact Nat.zero_le _) hdl
  simp only [List.nil_append] at hnew
  subst hnew
  have hc1 := cinv_shrunk hc hsh
  have hew := h.ewin
  -- the events
  have hevs : ∀ ev ∈ new, EvOk pend (adv + pidSub ev.seq s.baseId) ev.chan ev.cpl ev.wpl ev.data := by
    intro ev hm
    obtain ⟨e1, -, e3, e4, e5⟩ := hev ev hm
    obtain ⟨p, hp, a1, a2, a3, a4⟩ := (hc ev.seq e1 (by omega)).data e4
    refine ⟨p, hp, ?_, ?_, ?_, ?_⟩
    · rw [e5]; exact a1
    · rw [e5]; exact a2
    · rw [e5]; exact a3
    · rw [e5]; exact a4
  rw [receiveT, hdl, bindR_ok] at hr
  simp only [List.nil_append] at hr
  unfold recvTailS at hr
  by_cases hw : s1.windowReady = true
  · rw [if_pos hw] at hr
    cases hwl : windowLoop loopFuel { s1 with windowReady := false } s.baseId s.endId s.baseId with
    | error t => rw [hwl] at hr; cases hr
    | ok nb =>
      rw [hwl, bindR_ok] at hr
      cases hadvw : advanceWindow { s1 with windowReady := false } nb with
      | error t => rw [hadvw] at hr; cases hr
      | ok s2 =>
        rw [hadvw, bindR_ok] at hr
        cases hr
        obtain ⟨hnb, hnle⟩ := windowLoop_le _ s.baseId s.endId hinv.blt hinv.elt loopFuel s.baseId s.baseId nb
          hinv.blt hinv.blt (by rw [pidSub_self]; exact Nat.zero_le _) (Nat.le_refl _) hwl
        have hinv1' := hinv1.setWindowReady false
        have hord1' : Ord W { s1 with windowReady := false } := hord1.congr rfl rfl rfl rfl
        have hδ : pidSub nb ({ s1 with windowReady := false } : PRecv.State).baseId ≤ W := by
          show pidSub nb s1.baseId ≤ W; rw [hb1]; omega
        have F := advanceWindow_facts hW hinv1' hord1' nb hnb hδ hadvw
        obtain ⟨hA, hB⟩ := advanceWindow_core hW hinv1' hord1' nb hnb hδ hadvw
        have hc1' : CInv W pend adv { s1 with windowReady := false } := cinv_frame hc1 rfl rfl
        have hc2 := cinv_advance hW hinv1' hc1' nb hnb hδ F.base hA hB
        rw [show ({ s1 with windowReady := false } : PRecv.State).baseId = s.baseId from hb1] at hc2
        rw [F.base] at hjust ⊢
        refine ⟨hc2, hevs, ?_, by omega⟩
        -- the base does not pass the last emitted packet
        rcases Nat.eq_zero_or_pos (pidSub nb s.baseId) with h0 | hpos
        · omega
        · have hlt : pidSub nb s.baseId - 1 < 2^20 := by have := pidSub_lt nb s.baseId; omega
          obtain ⟨v, v1, v2, v3, v4, -⟩ := hjust (pidAdd s.baseId (pidSub nb s.baseId - 1)) (PRecv.pidAdd_lt _ _)
            (by rw [pidSub_pidAdd_base _ _ hinv.blt hlt]; omega)
          rw [pidSub_pidAdd_base _ _ hinv.blt hlt] at v2
          obtain ⟨p, hp, -⟩ := (hc v v1 (by omega)).entry v4
          have := (List.getElem?_eq_some_iff.mp hp).1
          omega
  · rw [if_neg hw, bindR_ok] at hr
    cases hr
    rw [hb1, pidSub_self, Nat.add_zero]
    exact ⟨hc1, hevs, hadv, Nat.zero_le _⟩

end Uflow.Sys
