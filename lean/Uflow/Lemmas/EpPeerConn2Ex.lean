import Uflow.Lemmas.EpPeerConn2c

/-! A half connection that records its `send` calls, for the non-vacuity examples of `Uflow/Props/C01Init.lean`. -/

namespace Uflow.Endpoint

open Uflow.Gen Uflow.Codec Uflow.HalfConn

/-- State: the `(data, channel, mode)` of every `send` call so far, in call order; nothing else happens. -/
def logHC : HC (List (List Nat × Nat × SendMode)) :=
  { new := fun _ _ => [], send := fun h d ch m => h ++ [(d, ch, m)], dispatch := fun h _ => .ok h, step := fun h _ => .ok h,
    flush := fun h r => .ok (h, r, []), receive := fun h => .ok (h, []), isSendPending := fun h => !h.isEmpty,
    sendBufferSize := fun h => h.length }

def exClientL : Client (List (List Nat × Nat × SendMode)) := (Client.connect exEp 0 exRng).1

end Uflow.Endpoint
