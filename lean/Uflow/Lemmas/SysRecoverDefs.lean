import Uflow.Props.C02Live

/-!
Recovery of the composed system after a blackout (C11Sys), part 1: the recovery schedules and the
elementary facts about the steps they are made of.

* `recoverRound s` — frames flow again: every datagram emitted so far is handed to the receiver once,
  the receiving application calls `receive`, and the acknowledgement of the base recorded by that
  `receive` reaches the sender.
* `emitRound s f` — one `emit_packet(f)` followed by a recovery round of the state after it.
* `emitRounds n s f` — `n` such rounds.
* `recoverSchedule s f news` — `recoverRound`, the new submissions, then one round per queued packet.
-/

namespace Uflow.Props.C11

open Uflow Uflow.Gen Uflow.Codec Uflow.PSend Uflow.PRecv Uflow.Frag Uflow.Sys
open Uflow.Props.C02 (redeliverAll)

/-- **Frames flow again, once**: every datagram emitted so far gets through (`redeliverAll`: all
`deliver` steps, then the application's `receive`), and the acknowledgement carrying the receive
window base recorded by that `receive` (entry number `s.seen.length` of `seen`) gets through. -/
def recoverRound (s : Sys) : List SOp := redeliverAll s ++ [SOp.ack s.seen.length]

/-- One `emit_packet(f)` followed by a recovery round (of the state after the emission, so the
datagrams of the packet just emitted are among those that get through). -/
def emitRound (s : Sys) (f : Nat) : List SOp :=
  match stepS s (.emit f) with
  | .ok s1 => SOp.emit f :: recoverRound s1
  | .error _ => [SOp.emit f]

/-- `n` rounds `emitRound`, each computed from the state the previous ones lead to. -/
def emitRounds : Nat → Sys → Nat → List SOp
  | 0, _, _ => []
  | n+1, s, f =>
    match runS s (emitRound s f) with
    | .ok s' => emitRound s f ++ emitRounds n s' f
    | .error _ => emitRound s f

/-- A new submission `(data, channel, mode)`. -/
abbrev NewPkt := List Nat × Nat × SendMode

/-- The send queue entry of a new submission made while the sender's flush id is `f`. -/
def newQ (f : Nat) (n : NewPkt) : QEntry := { data := n.1, channelId := n.2.1, mode := n.2.2, flushId := f }

/-- The application submits the packets of `news` (`enqueue_packet(data, chan, mode, f)`). -/
def enqOps (f : Nat) (news : List NewPkt) : List SOp := news.map fun n => SOp.enq n.1 n.2.1 n.2.2 f

/-- **The continuation schedule after a blackout**: one recovery round; the application submits
`news` (flush id `f`); then one `emitRound` for every packet that is in the send queue at that
moment (the packets that were already waiting in state `s`, then `news`). -/
def recoverSchedule (s : Sys) (f : Nat) (news : List NewPkt) : List SOp :=
  match runS s (recoverRound s ++ enqOps f news) with
  | .ok s1 => (recoverRound s ++ enqOps f news) ++ emitRounds (s.snd.queue.length + news.length) s1 f
  | .error _ => recoverRound s ++ enqOps f news

/-- Number of `receive` calls (= rounds) of a schedule. -/
def recvCount (ops : List SOp) : Nat :=
  (ops.filter fun op => match op with | .recv => true | _ => false).length

theorem recvCount_append (a b : List SOp) : recvCount (a ++ b) = recvCount a + recvCount b := by
  simp [recvCount, List.filter_append]

theorem recvCount_redeliverAll (s : Sys) : recvCount (redeliverAll s) = 1 := by
  unfold redeliverAll
  rw [recvCount_append]
  have : recvCount ((List.range s.net.length).map SOp.deliver) = 0 := by
    unfold recvCount
    rw [List.length_eq_zero_iff, List.filter_eq_nil_iff]
    intro op hop
    obtain ⟨k, -, rfl⟩ := List.mem_map.mp hop
    simp
  rw [this]; rfl

theorem recvCount_recoverRound (s : Sys) : recvCount (recoverRound s) = 1 := by
  unfold recoverRound
  rw [recvCount_append, recvCount_redeliverAll]; rfl

theorem recvCount_enqOps (f : Nat) (news : List NewPkt) : recvCount (enqOps f news) = 0 := by
  unfold recvCount enqOps
  rw [List.length_eq_zero_iff, List.filter_eq_nil_iff]
  intro op hop
  obtain ⟨k, -, rfl⟩ := List.mem_map.mp hop
  simp

/-! ### reachability -/

/-- `s` is reachable from `PacketSender::new(w, b, a)` / `PacketReceiver::new(2^k, b, m)` by some
schedule. -/
def Reach (w k b a m : Nat) (s : Sys) : Prop := ∃ ops, runS (initS w (2^k) b a m) ops = .ok s

theorem Reach.run {w k b a m : Nat} {s s' : Sys} (h : Reach w k b a m s) (ops : List SOp)
    (hr : runS s ops = .ok s') : Reach w k b a m s' := by
  obtain ⟨ops0, h0⟩ := h
  exact ⟨ops0 ++ ops, by rw [runS_append _ _ _ s h0]; exact hr⟩

theorem Reach.step {w k b a m : Nat} {s s' : Sys} (h : Reach w k b a m s) (op : SOp)
    (hs : stepS s op = .ok s') : Reach w k b a m s' :=
  h.run [op] (by rw [runS, hs, bindR_ok, runS])

/-! ### the log during a redelivery round -/

/-- `deliver` steps leave the log and `adv` alone. -/
theorem deliver_log (s s' : Sys) (k : Nat) (h : stepS s (.deliver k) = .ok s') :
    s'.rcv.log = s.rcv.log ∧ s'.rcv.adv = s.rcv.adv := by
  simp only [stepS] at h
  split at h
  · cases h; exact ⟨rfl, rfl⟩
  · split at h
    · rw [stepT_dg] at h
      cases hd : handleDatagram s.rcv.st _ with
      | error t => rw [hd] at h; cases h
      | ok st' =>
        rw [hd, bindR_ok, bindR_ok] at h
        cases h; exact ⟨rfl, rfl⟩
    · cases h; exact ⟨rfl, rfl⟩

theorem delivers_log (ks : List Nat) : ∀ (s s' : Sys), runS s (ks.map SOp.deliver) = .ok s' →
    s'.rcv.log = s.rcv.log ∧ s'.rcv.adv = s.rcv.adv := by
  induction ks with
  | nil => intro s s' h; cases h; exact ⟨rfl, rfl⟩
  | cons k rest ih =>
    intro s s' h
    rw [List.map_cons, runS] at h
    cases hs : stepS s (.deliver k) with
    | error t => rw [hs] at h; cases h
    | ok s1 =>
      rw [hs, bindR_ok] at h
      obtain ⟨a1, a2⟩ := deliver_log s s1 k hs
      obtain ⟨b1, b2⟩ := ih s1 s' h
      exact ⟨by rw [b1, a1], by rw [b2, a2]⟩

/-- A `recv` step appends entries whose `wb` is the `adv` before the step. -/
theorem recv_log (s s' : Sys) (h : stepS s .recv = .ok s') :
    ∃ new, s'.rcv.log = s.rcv.log ++ new ∧ ∀ e ∈ new, e.wb = s.rcv.adv := by
  simp only [stepS] at h
  cases hg : stepT s.rcv .recv with
  | error t => rw [hg] at h; cases h
  | ok g =>
    rw [hg, bindR_ok] at h
    cases h
    obtain ⟨st', evs, -, -, hl⟩ := stepT_recv_log s.rcv g hg
    refine ⟨_, hl, ?_⟩
    intro e he
    obtain ⟨ev, -, rfl⟩ := List.mem_map.mp he
    rfl

/-- The log after a redelivery round: the old log followed by entries taken out of the window at
the old window base. -/
theorem redeliverAll_log (s s' : Sys) (h : runS s (redeliverAll s) = .ok s') :
    ∃ new, s'.rcv.log = s.rcv.log ++ new ∧ ∀ e ∈ new, e.wb = s.rcv.adv := by
  unfold redeliverAll at h
  cases h1 : runS s ((List.range s.net.length).map SOp.deliver) with
  | error t =>
    exfalso
    have : ∀ (ops ops2 : List SOp) (s : Sys) (t : Trap), runS s ops = .error t →
        runS s (ops ++ ops2) = .error t := by
      intro ops ops2
      induction ops with
      | nil => intro s t h; cases h
      | cons op rest ih =>
        intro s t h
        rw [runS] at h
        rw [List.cons_append, runS]
        cases hs : stepS s op with
        | error t' => rw [hs] at h; exact h
        | ok s1 => rw [hs, bindR_ok] at h; rw [bindR_ok]; exact ih s1 t h
    rw [this _ _ _ _ h1] at h
    cases h
  | ok s1 =>
    rw [runS_append _ _ s s1 h1, runS] at h
    cases hs : stepS s1 .recv with
    | error t => rw [hs] at h; cases h
    | ok s2 =>
      rw [hs, bindR_ok, runS] at h
      cases h
      obtain ⟨a1, a2⟩ := delivers_log _ s s1 h1
      obtain ⟨new, hn, hw⟩ := recv_log s1 s' hs
      exact ⟨new, by rw [hn, a1], by intro e he; rw [hw e he, a2]⟩

end Uflow.Props.C11
