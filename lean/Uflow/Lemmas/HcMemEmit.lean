import Uflow.Lemmas.HcSysEmit
import Uflow.Lemmas.AckQDefs

/-!
C06 (half connection), part 1: what `flush` does to the receiver-side components and to the packet
sender, WITHOUT any invariant as a hypothesis:
* the packet receiver `pr` is not touched;
* the frame acknowledgement queue `aq` only loses groups from its front (`AckQB.pop`, by
  `emit_ack_frames`);
* the packet sender `ps` changes only through a chain of `PSend.emit · flushId` calls.
-/

namespace Uflow.HcMem

open Uflow Uflow.Gen Uflow.Codec Uflow.HalfConn Uflow.PSend
open Uflow.HcSys (Emits)

variable {F : Type}

/-- The components the data / sync emitters never touch. -/
structure FK (s s' : State F) : Prop where
  pr : s'.pr = s.pr
  aq : s'.aq = s.aq
  fid : s'.flushId = s.flushId

theorem FK.refl (s : State F) : FK s s := ⟨rfl, rfl, rfl⟩

theorem FK.trans {a b c : State F} (h1 : FK a b) (h2 : FK b c) : FK a c :=
  ⟨h2.pr.trans h1.pr, h2.aq.trans h1.aq, h2.fid.trans h1.fid⟩

theorem dfeFinalize_fk (e : Emit F) : FK e.s (dfeFinalize e).s ∧ (dfeFinalize e).s.ps = e.s.ps := by
  cases h : e.inProg <;> simp [dfeFinalize, h, FK.refl] <;> exact ⟨rfl, rfl, rfl⟩

theorem dfePush_fk (e e' : Emit F) (p : Pending) (fid : Nat) (resend : Bool) (r : Option PushErr)
    (h : dfePush e p fid resend = .ok (e', r)) : FK e.s e'.s ∧ e'.s.ps = e.s.ps := by
  obtain ⟨hf, hp⟩ := dfeFinalize_fk e
  simp only [dfePush] at h
  split at h
  · cases h
  · repeat' split at h
    all_goals first
      | (cases h; first
          | exact ⟨⟨rfl, rfl, rfl⟩, rfl⟩
          | exact ⟨⟨hf.pr, hf.aq, hf.fid⟩, hp⟩)
      | cases h

/-! ### the loops of `emit_data_frames` -/

theorem resendLoop_fk (fuel : Nat) (e e' : Emit F) (st : Option Stage)
    (hr : resendLoop fuel e = .ok (e', st)) : FK e.s e'.s ∧ e'.s.ps = e.s.ps := by
  induction fuel generalizing e with
  | zero => simp [resendLoop] at hr
  | succ n ih =>
    rw [resendLoop] at hr
    cases h0 : e.s.resend[0]? with
    | none =>
      rw [h0] at hr
      simp only [Except.ok.injEq, Prod.mk.injEq] at hr
      obtain ⟨rfl, _⟩ := hr
      exact ⟨FK.refl _, rfl⟩
    | some entry =>
      rw [h0] at hr
      simp only [] at hr
      have hpopped : ∀ (pp : Emit F), FK e.s pp.s → pp.s.ps = e.s.ps →
          resendLoop n pp = .ok (e', st) → FK e.s e'.s ∧ e'.s.ps = e.s.ps := by
        intro pp h1 h2 hr'
        obtain ⟨g1, g2⟩ := ih pp hr'
        exact ⟨h1.trans g1, g2.trans h2⟩
      have hpp : ∀ x : Option (REntry × Array REntry),
          FK e.s ((match x with
            | some (_, hh) => ({ e with s := { e.s with resend := hh } } : Emit F)
            | none => e) : Emit F).s ∧
          ((match x with
            | some (_, hh) => ({ e with s := { e.s with resend := hh } } : Emit F)
            | none => e) : Emit F).s.ps = e.s.ps := by
        intro x
        cases x with
        | none => exact ⟨FK.refl _, rfl⟩
        | some v => exact ⟨⟨rfl, rfl, rfl⟩, rfl⟩
      obtain ⟨q1, q2⟩ := hpp (heapPop e.s.resend)
      cases hfp : findPacket e.s.ps entry.uid with
      | none =>
        rw [hfp] at hr
        simp only [] at hr
        exact hpopped _ q1 q2 hr
      | some p =>
        rw [hfp] at hr
        simp only [] at hr
        split at hr
        · exact hpopped _ q1 q2 hr
        · split at hr
          · simp only [Except.ok.injEq, Prod.mk.injEq] at hr
            obtain ⟨rfl, _⟩ := hr
            exact ⟨FK.refl _, rfl⟩
          · cases hpush : dfePush e p entry.fid true with
            | error t => rw [hpush] at hr; cases hr
            | ok v =>
              obtain ⟨e1, res⟩ := v
              rw [hpush] at hr
              obtain ⟨g2, g3⟩ := dfePush_fk e e1 p entry.fid true res hpush
              cases res with
              | some pe =>
                cases pe with
                | sizeLimited =>
                  simp only [Except.ok.injEq, Prod.mk.injEq] at hr
                  obtain ⟨rfl, _⟩ := hr
                  exact ⟨g2, g3⟩
                | windowLimited =>
                  simp only [Except.ok.injEq, Prod.mk.injEq] at hr
                  obtain ⟨rfl, _⟩ := hr
                  exact ⟨g2, g3⟩
              | none =>
                simp only [] at hr
                cases hpop2 : heapPop e1.s.resend with
                | none => rw [hpop2] at hr; cases hr
                | some w =>
                  obtain ⟨ent, hh⟩ := w
                  rw [hpop2] at hr
                  simp only [] at hr
                  obtain ⟨k2, k3⟩ := ih _ hr
                  exact ⟨g2.trans ⟨k2.pr, k2.aq, k2.fid⟩, k3.trans g3⟩

theorem pendingInner_fk (fuel : Nat) (e e' : Emit F) (st : Option Stage)
    (hr : pendingInner fuel e = .ok (e', st)) : FK e.s e'.s ∧ e'.s.ps = e.s.ps := by
  induction fuel generalizing e with
  | zero => simp [pendingInner] at hr
  | succ n ih =>
    rw [pendingInner] at hr
    cases hpe : e.s.pending with
    | nil =>
      rw [hpe] at hr
      simp only [Except.ok.injEq, Prod.mk.injEq] at hr
      obtain ⟨rfl, _⟩ := hr
      exact ⟨FK.refl _, rfl⟩
    | cons entry rest =>
      rw [hpe] at hr
      simp only [] at hr
      have hset : ∀ (pe : List PEntry),
          pendingInner n ({ e with s := { e.s with pending := pe } } : Emit F) = .ok (e', st) →
          FK e.s e'.s ∧ e'.s.ps = e.s.ps := by
        intro pe hr'
        obtain ⟨g2, g3⟩ := ih _ hr'
        exact ⟨⟨g2.pr, g2.aq, g2.fid⟩, g3⟩
      cases hfp : findPacket e.s.ps entry.uid with
      | none =>
        rw [hfp] at hr
        exact hset _ hr
      | some p =>
        rw [hfp] at hr
        simp only [] at hr
        split at hr
        · exact hset _ hr
        · split at hr
          · exact hset _ hr
          · cases hpush : dfePush e p entry.fid entry.resend with
            | error t => rw [hpush] at hr; cases hr
            | ok v =>
              obtain ⟨e1, res⟩ := v
              rw [hpush] at hr
              obtain ⟨g2, g3⟩ := dfePush_fk e e1 p entry.fid entry.resend res hpush
              cases res with
              | some pe =>
                cases pe with
                | sizeLimited =>
                  simp only [Except.ok.injEq, Prod.mk.injEq] at hr
                  obtain ⟨rfl, _⟩ := hr
                  exact ⟨g2, g3⟩
                | windowLimited =>
                  simp only [Except.ok.injEq, Prod.mk.injEq] at hr
                  obtain ⟨rfl, _⟩ := hr
                  exact ⟨g2, g3⟩
              | none =>
                simp only [] at hr
                have hps : ∀ (s2 : State F), FK e1.s s2 → s2.ps = e1.s.ps →
                    pendingInner n ({ e1 with s := s2 } : Emit F) = .ok (e', st) →
                    FK e.s e'.s ∧ e'.s.ps = e.s.ps := by
                  intro s2 a1 a2 hr'
                  obtain ⟨k2, k3⟩ := ih _ hr'
                  exact ⟨g2.trans (a1.trans k2), (k3.trans a2).trans g3⟩
                split at hr
                · refine hps _ ?_ ?_ hr
                  · exact ⟨rfl, rfl, rfl⟩
                  · rfl
                · refine hps _ ?_ ?_ hr
                  · exact ⟨rfl, rfl, rfl⟩
                  · rfl

theorem refill_fk (e e1 : Emit F) (b : Bool) (hr : Wire.refill e = .ok (e1, b)) :
    ∃ l, Emits e.s.flushId e.s.ps e1.s.ps l ∧ FK e.s e1.s := by
  unfold Wire.refill at hr
  split at hr
  · cases hem : emit e.s.ps e.s.flushId with
    | error t => rw [hem] at hr; cases hr
    | ok v =>
      obtain ⟨ps', r⟩ := v
      rw [hem] at hr
      cases r with
      | none =>
        simp only [Except.ok.injEq, Prod.mk.injEq] at hr
        obtain ⟨rfl, _⟩ := hr
        exact ⟨_, Emits.single hem, ⟨rfl, rfl, rfl⟩⟩
      | some v =>
        obtain ⟨p, resend⟩ := v
        simp only [Except.ok.injEq, Prod.mk.injEq] at hr
        obtain ⟨rfl, _⟩ := hr
        exact ⟨_, Emits.single hem, ⟨rfl, rfl, rfl⟩⟩
  · simp only [Except.ok.injEq, Prod.mk.injEq] at hr
    obtain ⟨rfl, _⟩ := hr
    exact ⟨[], .nil _, FK.refl _⟩

theorem pendingOuter_fk (fuel : Nat) (e e' : Emit F) (st : Option Stage)
    (hr : pendingOuter fuel e = .ok (e', st)) :
    ∃ l, Emits e.s.flushId e.s.ps e'.s.ps l ∧ FK e.s e'.s := by
  induction fuel generalizing e with
  | zero => simp [pendingOuter] at hr
  | succ n ih =>
    rw [Wire.pendingOuter_eq] at hr
    cases hre : Wire.refill e with
    | error t => rw [hre] at hr; cases hr
    | ok v =>
      obtain ⟨e1, b⟩ := v
      rw [hre] at hr
      obtain ⟨l1, hem1, hk1⟩ := refill_fk e e1 b hre
      cases b with
      | false =>
        simp only [Except.ok.injEq, Prod.mk.injEq] at hr
        obtain ⟨rfl, _⟩ := hr
        exact ⟨l1, hem1, hk1⟩
      | true =>
        simp only [] at hr
        cases hin : pendingInner (e1.s.pending.length + 2) e1 with
        | error t => rw [hin] at hr; cases hr
        | ok v2 =>
          obtain ⟨e2, st2⟩ := v2
          rw [hin] at hr
          obtain ⟨hk2, hp2⟩ := pendingInner_fk _ e1 e2 st2 hin
          cases st2 with
          | some s2 =>
            simp only [Except.ok.injEq, Prod.mk.injEq] at hr
            obtain ⟨rfl, _⟩ := hr
            exact ⟨l1, by rw [hp2]; exact hem1, hk1.trans hk2⟩
          | none =>
            simp only [] at hr
            obtain ⟨l3, hem3, hk3⟩ := ih e2 hr
            refine ⟨l1 ++ l3, ?_, (hk1.trans hk2).trans hk3⟩
            rw [hp2, hk2.fid, hk1.fid] at hem3
            exact hem1.trans hem3

/-- `emit_data_frames`: receiver side untouched, the sender moved by `PSend.emit` calls only. -/
theorem emitDataFrames_fk (s s' : State F) (out : List (List Nat)) (st : Stage)
    (hr : emitDataFrames s = .ok (s', out, st)) :
    ∃ l, Emits s.flushId s.ps s'.ps l ∧ FK s s' := by
  unfold emitDataFrames at hr
  simp only [] at hr
  cases hr1 : resendLoop (2 * s.resend.size + 16 + s.flushAlloc.toNat)
      ({ s := s, inProg := none, out := [] } : Emit F) with
  | error t => rw [hr1] at hr; cases hr
  | ok v =>
    obtain ⟨e1, st1⟩ := v
    rw [hr1] at hr
    obtain ⟨k1, p1⟩ := resendLoop_fk _ _ e1 st1 hr1
    cases st1 with
    | some s1 =>
      simp only [Except.ok.injEq, Prod.mk.injEq] at hr
      obtain ⟨rfl, rfl, _⟩ := hr
      refine ⟨[], ?_, k1⟩
      rw [p1]; exact .nil _
    | none =>
      simp only [] at hr
      cases hr2 : pendingOuter (e1.s.ps.queue.length + e1.s.pending.length + 4) e1 with
      | error t => rw [hr2] at hr; cases hr
      | ok v2 =>
        obtain ⟨e2, st2⟩ := v2
        rw [hr2] at hr
        obtain ⟨l, hem, k2⟩ := pendingOuter_fk _ e1 e2 st2 hr2
        have hem' : Emits s.flushId s.ps e2.s.ps l := by
          have := hem
          rw [p1, k1.fid] at this
          exact this
        cases st2 with
        | some s2 =>
          simp only [Except.ok.injEq, Prod.mk.injEq] at hr
          obtain ⟨rfl, rfl, _⟩ := hr
          exact ⟨l, hem', k1.trans k2⟩
        | none =>
          simp only [Except.ok.injEq, Prod.mk.injEq] at hr
          obtain ⟨rfl, rfl, _⟩ := hr
          obtain ⟨k3, p3⟩ := dfeFinalize_fk e2
          exact ⟨l, by rw [p3]; exact hem', (k1.trans k2).trans k3⟩

/-! ### `emit_sync_frame`, `emit_ack_frames` -/

theorem emitSyncFrame_fk (s s' : State F) (out : List (List Nat)) (st : Stage)
    (h : emitSyncFrame s = .ok (s', out, st)) : FK s s' ∧ s'.ps = s.ps := by
  unfold emitSyncFrame at h
  simp only [] at h
  repeat' split at h
  all_goals first
    | (cases h; exact ⟨⟨rfl, rfl, rfl⟩, rfl⟩)
    | cases h

/-- `n` groups taken from the front of the queue. -/
def popN (n : Nat) (q : FrameQ.AckQ) : FrameQ.AckQ := { q with entries := q.entries.drop n }

theorem popN_zero (q : FrameQ.AckQ) : popN 0 q = q := rfl

theorem popN_popN (n m : Nat) (q : FrameQ.AckQ) : popN n (popN m q) = popN (m + n) q := by
  simp [popN, List.drop_drop]

theorem run_pops (n : Nat) (q : FrameQ.AckQ) :
    AckQB.run q (List.replicate n .pop) = popN n q := by
  induction n generalizing q with
  | zero => rfl
  | succ n ih =>
    show AckQB.run (AckQB.step q .pop) (List.replicate n .pop) = _
    rw [ih]
    have h1 : AckQB.step q .pop = popN 1 q := by simp [AckQB.step, AckQB.pop, popN]
    rw [h1, popN_popN, Nat.add_comm]

theorem ackFin_aq (fb pb : Nat) (s : State F) (ip : Option AckProg) (out : List (List Nat)) :
    (Credit.ackFin fb pb s ip out).1.aq = s.aq := by
  cases ip <;> rfl

theorem ackLoop_aq (fb pb : Nat) (fuel : Nat) (s : State F) (ip : Option AckProg)
    (out : List (List Nat)) :
    ∃ n, (emitAckFrames.loop (Credit.ackFin fb pb) fuel s ip out).1.aq = popN n s.aq := by
  induction fuel generalizing s ip out with
  | zero => exact ⟨0, rfl⟩
  | succ k ih =>
    simp only [emitAckFrames.loop]
    cases hent : s.aq.entries with
    | nil => exact ⟨0, by simp only []; rw [ackFin_aq]; rfl⟩
    | cons g rest =>
      have hpop : ∀ (s1 : State F), s1.aq = s.aq →
          ({ s1 with aq := { s1.aq with entries := rest } } : State F).aq = popN 1 s.aq := by
        intro s1 h1
        show ({ s1.aq with entries := rest } : FrameQ.AckQ) = popN 1 s.aq
        rw [h1]
        simp [popN, hent]
      have hstep : ∀ (s1 : State F) (ip1 : Option AckProg) (out1 : List (List Nat)), s1.aq = s.aq →
          ∃ n, (emitAckFrames.loop (Credit.ackFin fb pb) k
            ({ s1 with aq := { s1.aq with entries := rest } } : State F) ip1 out1).1.aq = popN n s.aq := by
        intro s1 ip1 out1 h1
        obtain ⟨n, hn⟩ := ih ({ s1 with aq := { s1.aq with entries := rest } } : State F) ip1 out1
        refine ⟨1 + n, ?_⟩
        rw [hn, hpop s1 h1, popN_popN]
      simp only []
      repeat' split
      all_goals first
        | exact ⟨0, rfl⟩
        | exact ⟨0, by rw [ackFin_aq]; rfl⟩
        | exact hstep _ _ _ rfl
        | exact hstep _ _ _ (ackFin_aq _ _ _ _ _)

theorem emitAckFrames_aq (s : State F) : ∃ n, (emitAckFrames s).1.aq = popN n s.aq := by
  rw [Credit.emitAckFrames_eq]
  split
  · exact ⟨0, rfl⟩
  · exact ackLoop_aq _ _ _ _ _ _

/-! ### `flush` -/

/-- `HalfConnection::flush`, projected on the receiver, the ack queue and the packet sender. -/
theorem flush_proj (s s' : State F) (out : List (List Nat)) (hf : flush s = .ok (s', out)) :
    s'.pr = s.pr ∧ (∃ n, s'.aq = AckQB.run s.aq (List.replicate n .pop)) ∧
      s'.flushId = s.flushId ∧ ∃ l, Emits s.flushId s.ps s'.ps l := by
  unfold flush at hf
  obtain ⟨k1, k2, k3⟩ := HcSys.emitAckFrames_keep s
  obtain ⟨n, hn⟩ := emitAckFrames_aq s
  rw [← run_pops] at hn
  generalize emitAckFrames s = r at hf k1 k2 k3 hn
  obtain ⟨s1, out1, st1⟩ := r
  simp only [] at hf k1 k2 k3 hn
  by_cases hst : st1 = .stop
  · rw [if_pos hst] at hf
    simp only [Except.ok.injEq, Prod.mk.injEq] at hf
    obtain ⟨rfl, _⟩ := hf
    exact ⟨k2, ⟨n, hn⟩, k3, [], by rw [k1]; exact .nil _⟩
  · rw [if_neg hst] at hf
    cases hd : emitDataFrames s1 with
    | error t => rw [hd] at hf; cases hf
    | ok v =>
      obtain ⟨s2, out2, st2⟩ := v
      rw [hd] at hf
      simp only [] at hf
      obtain ⟨l, hem, kd⟩ := emitDataFrames_fk s1 s2 out2 st2 hd
      rw [k1, k3] at hem
      by_cases hst2 : st2 = .stop
      · rw [if_pos hst2] at hf
        simp only [Except.ok.injEq, Prod.mk.injEq] at hf
        obtain ⟨rfl, _⟩ := hf
        exact ⟨kd.pr.trans k2, ⟨n, kd.aq.trans hn⟩, kd.fid.trans k3, l, hem⟩
      · rw [if_neg hst2] at hf
        cases hsy : emitSyncFrame s2 with
        | error t => rw [hsy] at hf; cases hf
        | ok w =>
          obtain ⟨s3, out3, st3⟩ := w
          rw [hsy] at hf
          simp only [Except.ok.injEq, Prod.mk.injEq] at hf
          obtain ⟨rfl, _⟩ := hf
          obtain ⟨ks, ps3⟩ := emitSyncFrame_fk s2 s3 out3 st3 hsy
          exact ⟨ks.pr.trans (kd.pr.trans k2), ⟨n, ks.aq.trans (kd.aq.trans hn)⟩,
            ks.fid.trans (kd.fid.trans k3), l, by rw [ps3]; exact hem⟩

end Uflow.HcMem
