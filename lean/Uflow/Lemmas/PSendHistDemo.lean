import Uflow.Lemmas.PSendHistOrder

/-!
A concrete sender history used by the non-vacuity checks of C05 / C02 (sender side): the four send
modes on two channels, a stale TimeSensitive packet dropped, a base id three below `2^20` (the ids
wrap), an `acknowledge` that makes the Reliable parent leave the window.
-/

namespace Uflow.PSend

open Uflow
open Uflow.Props.C20 (Op)

def histBase : Nat := 2^20 - 3

def histOps : List Op :=
  [ .enq [1] 0 .timeSensitive 0,      -- A: TimeSensitive for flush 0, stale at flush 1: dropped
    .enq [2, 2] 0 .reliable 0,        -- B
    .enq [3] 1 .unreliable 0,         -- C
    .enq [4] 1 .persistent 0,         -- D
    .enq [5] 1 .timeSensitive 1,      -- E: TimeSensitive for flush 1: emitted at flush 1
    .enq [6] 0 .unreliable 0,         -- F
    .enq [7] 1 .reliable 1,           -- G
    .enq [8] 0 .unreliable 1,         -- H
    .emit 1, .emit 1, .emit 1, .emit 1, .emit 1,   -- B C D E F
    .ackFrag 0 0,
    .ack (2^20 - 2),                  -- B leaves the window: both parent pointers are cleared
    .emit 1, .emit 1,                 -- G H
    .enq [9] 0 .timeSensitive 1,      -- I: stale at flush 2: dropped
    .enq [10] 1 .unreliable 2,        -- J
    .emit 2, .emit 2 ]

/-- `(uid, sequenceId, channelId, mode, data, windowParentLead, channelParentLead)`. -/
def Emitted.view (e : Emitted) : Nat × Nat × Nat × SendMode × List Nat × Nat × Nat :=
  (e.uid, e.sequenceId, e.channelId, e.mode, e.data, e.windowParentLead, e.channelParentLead)

/-- The run succeeds and emits B C D E F G H J with ids `2^20-3, 2^20-2, 2^20-1, 0, 1, 2, 3, 4`;
F (channel 0) has both leads 4 (parent B); after B is acknowledged G has leads 0 and H (channel 0)
has channel lead 0, window lead 1 (parent G). -/
theorem histOps_run :
    (match runH (init 8 histBase 100000) {} histOps with
     | .ok (s, h) =>
       (h.emitted.map Emitted.view ==
         [ (0, 1048573, 0, .reliable, [2, 2], 0, 0),
           (1, 1048574, 1, .unreliable, [3], 1, 0),
           (2, 1048575, 1, .persistent, [4], 2, 0),
           (3, 0, 1, .timeSensitive, [5], 3, 0),
           (4, 1, 0, .unreliable, [6], 4, 4),
           (5, 2, 1, .reliable, [7], 0, 0),
           (6, 3, 0, .unreliable, [8], 1, 0),
           (7, 4, 1, .unreliable, [10], 2, 2) ] &&
         h.enqueued.length == 10 && s.queue.isEmpty && s.baseId == 1048574 && s.nextId == 5 &&
         s.win.length == 7 && s.windowParentId == some 2)
     | .error _ => false) = true := by decide +kernel

theorem histOps_ok : ∃ s' h', runH (init 8 histBase 100000) {} histOps = .ok (s', h') := by
  have h := histOps_run
  cases hr : runH (init 8 histBase 100000) {} histOps with
  | error t => rw [hr] at h; cases h
  | ok r => exact ⟨r.1, r.2, rfl⟩

end Uflow.PSend
