import Uflow.Lemmas.CreditLive

/-!
C11 (credit liveness), part 2: the lower-bound recurrence over a run, and the recovery of the
credit after `T` nanoseconds with `MINIMUM_RATE · T ≥ (1472 + 1)·10⁹ + nSteps·eps`.
-/

namespace Uflow.CreditLive

open Uflow Uflow.Gen Uflow.Codec Uflow.HalfConn Uflow.HcFrame Uflow.Credit Uflow.CreditBound
open Uflow.Rate (FloatOps)
open Uflow.HcInv (lastNow evTime)

variable {F : Type}

/-- Some `flush` of the run was called with non-negative credit (so it was allowed to start a
frame: `C13_frame_needs_credit` is the converse — with negative credit nothing is sent). -/
def someFlushOk (ops : FloatOps F) : State F → List Ev → Bool
  | _, [] => false
  | s, ev :: rest =>
    (decide (ev = .flush) && decide (0 ≤ s.flushAlloc)) ||
    match exec ops s ev with
    | .ok (s1, _) => someFlushOk ops s1 rest
    | .error _ => false

/-- No `flush` at all: no `flush` with non-negative credit. -/
theorem someFlushOk_noFlush (ops : FloatOps F) (evs : List Ev) (s : State F)
    (hnf : ∀ ev ∈ evs, ev ≠ .flush) : someFlushOk ops s evs = false := by
  induction evs generalizing s with
  | nil => rfl
  | cons ev rest ih =>
    have h1 : decide (ev = .flush) = false := decide_eq_false (hnf ev (by simp))
    simp only [someFlushOk, h1, Bool.false_and, Bool.false_or]
    split
    · exact ih _ (fun e he => hnf e (by simp [he]))
    · rfl

/-- **The lower-bound recurrence.** Over a run from a state satisfying `LInv`, with `step` times
non-decreasing and at most `maxDt` apart:
* the credit plus the bytes sent never drops below `min (initial credit) 0`;
* either the credit plus the bytes sent is non-negative at the end (the cap `min (…) allocMax` or
  the saturation bit at some `step`: the credit was set to a non-negative value there), or, in
  nano-bytes, the final credit plus the bytes sent plus `eps` per `step` is at least the initial
  credit plus `MINIMUM_RATE × (time of the last step − time of the last step before the run)`;
* if no `flush` started with non-negative credit, nothing was sent. -/
theorem run_lo (ops : FloatOps F) {eps : Nat} (L : FillLo ops eps) (m : Nat)
    (hmin : MINIMUM_RATE ≤ m) (hR : m ≤ L.maxRate) (hinit : ∀ rtt, MINIMUM_RATE ≤ ops.initRate rtt)
    (evs : List Ev) (s s' : State F) (b : Nat) (c : Int) (hi : LInv L m s)
    (ht : stepsOk L.maxDt (lastNow s) evs = true) (h : run ops s evs = .ok (s', b, c)) :
    LInv L m s' ∧ lastNow s' = endTime (lastNow s) evs ∧ lastNow s ≤ lastNow s' ∧
    min s.flushAlloc 0 ≤ s'.flushAlloc + (b : Int) ∧
    (0 ≤ s'.flushAlloc + (b : Int) ∨
      phi L s + ((MINIMUM_RATE * (lastNow s' - lastNow s) : Nat) : Int) ≤
        phi L s' + (b : Int) * (G : Int) + ((nSteps evs * eps : Nat) : Int)) ∧
    (someFlushOk ops s evs = false → b = 0) := by
  induction evs generalizing s b c with
  | nil =>
    simp only [run, Except.ok.injEq, Prod.mk.injEq] at h
    obtain ⟨rfl, rfl, rfl⟩ := h
    refine ⟨hi, rfl, Nat.le_refl _, by omega, .inr ?_, fun _ => rfl⟩
    simp only [nSteps, Nat.sub_self, Nat.mul_zero, Nat.zero_mul, G]
    omega
  | cons ev rest ih =>
    simp only [run] at h
    generalize hex : exec ops s ev = r1 at h
    cases r1 with
    | error t => cases h
    | ok v1 =>
      obtain ⟨s1, out⟩ := v1
      simp only at h
      generalize hrun : run ops s1 rest = r2 at h
      cases r2 with
      | error t => cases h
      | ok v2 =>
        obtain ⟨s2, b2, c2⟩ := v2
        simp only [Except.ok.injEq, Prod.mk.injEq] at h
        obtain ⟨rfl, rfl, rfl⟩ := h
        obtain ⟨ht1, ht2⟩ := stepsOk_cons _ _ ev rest ht
        obtain ⟨hi1, hl1, hle1, hneg, hnfl, hb1⟩ :=
          exec_lo ops L m hmin hR hinit s s1 ev out hi ht1 hex
        obtain ⟨hi2, hl2, hle2, hm2, hb2, hz2⟩ := ih s1 b2 c2 hi1 (by rw [hl1]; exact ht2) hrun
        refine ⟨hi2, by rw [hl2, hl1]; rfl, Nat.le_trans hle1 hle2, ?_, ?_, ?_⟩
        · rcases hb1 with ⟨h0, rfl⟩ | ⟨h0, _⟩
          · simp only [bytes_nil]; omega
          · omega
        · rcases hb2 with hb2 | hb2
          · exact .inl (by omega)
          · rcases hb1 with ⟨h0, rfl⟩ | ⟨_, hb1⟩
            · exact .inl (by simp only [bytes_nil]; omega)
            · refine .inr ?_
              have hmul := mul_sub_add MINIMUM_RATE _ _ _ hle1 hle2
              have hfl : MINIMUM_RATE * (lastNow s1 - lastNow s) ≤
                  s.rate.sendRate * (lastNow s1 - lastNow s) := Nat.mul_le_mul_right _ hi.floor
              have hk : nSteps (ev :: rest) = nSteps [ev] + nSteps rest := by
                cases ev <;> simp only [nSteps] <;> omega
              rw [hk, Nat.add_mul]
              generalize MINIMUM_RATE * (lastNow s1 - lastNow s) = X1 at hmul hfl
              generalize MINIMUM_RATE * (lastNow s2 - lastNow s1) = X2 at hmul hb2
              generalize MINIMUM_RATE * (lastNow s2 - lastNow s) = X at hmul ⊢
              generalize s.rate.sendRate * (lastNow s1 - lastNow s) = Y1 at hfl hb1
              generalize nSteps [ev] * eps = E1 at hb1 ⊢
              generalize nSteps rest * eps = E2 at hb2 ⊢
              generalize phi L s = p0 at hb1 ⊢
              generalize phi L s1 = p1 at hb1 hb2
              generalize phi L s2 = p2 at hb2 ⊢
              simp only [G] at hb1 hb2 ⊢
              omega
        · intro hsf
          simp only [someFlushOk, hex, Bool.or_eq_false_iff, Bool.and_eq_false_iff,
            decide_eq_false_iff_not] at hsf
          have hb0 := hz2 hsf.2
          have ho : out = [] := by
            by_cases hf : ev = .flush
            · rcases hsf.1 with h1 | h1
              · exact absurd hf h1
              · exact hneg (by omega)
            · exact hnfl hf
          subst ho
          simp only [bytes_nil]
          omega

/-- **Recovery.** If the run lasts `T = endTime − lastNow s` with
`MINIMUM_RATE · T ≥ (MAX_FRAME_SIZE + 1)·10⁹ + nSteps·eps`, starts with a credit
`≥ −MAX_FRAME_SIZE` (C13: always true) and no `flush` in it started with non-negative credit, then
the final credit is non-negative. -/
theorem run_recovers (ops : FloatOps F) {eps : Nat} (L : FillLo ops eps) (m : Nat)
    (hmin : MINIMUM_RATE ≤ m) (hR : m ≤ L.maxRate) (hinit : ∀ rtt, MINIMUM_RATE ≤ ops.initRate rtt)
    (evs : List Ev) (s s' : State F) (b : Nat) (c : Int) (hi : LInv L m s)
    (hA : -(MAX_FRAME_SIZE : Int) ≤ s.flushAlloc)
    (ht : stepsOk L.maxDt (lastNow s) evs = true)
    (hT : (MAX_FRAME_SIZE + 1) * G + nSteps evs * eps ≤
      MINIMUM_RATE * (endTime (lastNow s) evs - lastNow s))
    (h : run ops s evs = .ok (s', b, c)) (hsf : someFlushOk ops s evs = false) :
    0 ≤ s'.flushAlloc := by
  obtain ⟨hi2, hl2, _, _, hb, hz⟩ := run_lo ops L m hmin hR hinit evs s s' b c hi ht h
  have hb0 := hz hsf
  subst hb0
  rcases hb with hb | hb
  · omega
  · rw [hl2] at hb
    have hv := L.v_lt _ hi2.good
    simp only [phi] at hb
    generalize MINIMUM_RATE * (endTime (lastNow s) evs - lastNow s) = X at hT hb
    generalize nSteps evs * eps = E at hT hb
    generalize L.v s'.flushFrac = v2 at hv hb
    generalize L.v s.flushFrac = v0 at hb
    simp only [G, MAX_FRAME_SIZE] at hT hb hv hA
    omega

end Uflow.CreditLive
