import Uflow.Lemmas.AckQBound

/-! The invariant of the (ghost-tagged) acknowledgement queue and its preservation. -/

namespace Uflow.AckQB

open Uflow Uflow.Codec Uflow.FrameQ

/-! ### case analysis of `mark_seen` (on the fully parametrised copy) -/

theorem tG4_neg (tc : TQ → Nat → Bool) (td) (ta : TQ → Nat → TQ) (d : Nat → Nat → Nat) (t : TQ) (id : Nat)
    (nonce : Bool) (h : ¬ tc t id = true) : tG4 tc td ta d t id nonce = t := by
  unfold tG4; rw [if_neg h]

theorem tG4_cases (tc : TQ → Nat → Bool) (td) (ta : TQ → Nat → TQ) (d : Nat → Nat → Nat) (t : TQ) (id : Nat)
    (nonce : Bool) (h : tc t id = true) (t1 : TQ) (ht1 : ta t (wadd32 id 1) = t1)
    (es : List (AckGroup × Nat)) (hes : td t1.size id t1.entries = es) :
    ∃ es', tG4 tc td ta d t id nonce =
        { entries := es', baseId := t1.baseId, size := t1.size, trueBase := t1.trueBase } ∧
      (((∀ last, es.getLast? = some last → ¬ d id last.1.baseId < 32) ∧
          es' = es ++ [({ baseId := id, bitfield := 1, nonce := nonce }, t.trueBase + d id t.baseId)]) ∨
       (∃ last, es.getLast? = some last ∧ d id last.1.baseId < 32 ∧
          (es' = es ∨ ∃ g' : AckGroup, g'.baseId = last.1.baseId ∧ es' = es.dropLast ++ [(g', last.2)]))) := by
  unfold tG4
  rw [if_pos h, ht1]
  simp only [hes]
  cases hl : es.getLast? with
  | none => exact ⟨_, rfl, .inl ⟨by simp, rfl⟩⟩
  | some last =>
    simp only
    split
    · rename_i hb
      split
      · exact ⟨_, rfl, .inr ⟨last, rfl, hb, .inr ⟨{ baseId := last.1.baseId, bitfield := last.1.bitfield + 2 ^ d id last.1.baseId, nonce := last.1.nonce != nonce }, rfl, rfl⟩⟩⟩
      · refine ⟨es, ?_, .inr ⟨last, rfl, hb, .inl rfl⟩⟩
        rfl
    · rename_i hb
      refine ⟨_, rfl, .inl ⟨?_, rfl⟩⟩
      intro l hl'; cases hl'; exact hb

/-- `mark_seen` of a frame outside the window does nothing. -/
theorem markSeen_neg (t : TQ) (id : Nat) (nonce : Bool) (h : ¬ t.contains id = true) :
    t.markSeen id nonce = t := by
  rw [tmarkSeen_eq_G]; exact tG4_neg _ _ _ _ t id nonce h

/-- The possible results of `mark_seen` of a frame inside the window. -/
theorem markSeen_cases (t : TQ) (id : Nat) (nonce : Bool) (h : t.contains id = true)
    (t1 : TQ) (ht1 : t.advance (wadd32 id 1) = t1)
    (es : List (AckGroup × Nat)) (hes : dropOldT t1.size id t1.entries = es) :
    ∃ es', t.markSeen id nonce =
        { entries := es', baseId := t1.baseId, size := t1.size, trueBase := t1.trueBase } ∧
      (((∀ last, es.getLast? = some last → ¬ wsub32 id last.1.baseId < 32) ∧
          es' = es ++ [({ baseId := id, bitfield := 1, nonce := nonce }, t.trueBase + wsub32 id t.baseId)]) ∨
       (∃ last, es.getLast? = some last ∧ wsub32 id last.1.baseId < 32 ∧
          (es' = es ∨ ∃ g' : AckGroup, g'.baseId = last.1.baseId ∧ es' = es.dropLast ++ [(g', last.2)]))) := by
  rw [tmarkSeen_eq_G]; exact tG4_cases _ _ _ _ t id nonce h t1 ht1 es hes

theorem eq_dropLast_append {α : Type} (l : List α) (x : α) (h : l.getLast? = some x) :
    l = l.dropLast ++ [x] := by
  have hne : l ≠ [] := by rintro rfl; simp at h
  have h1 := List.dropLast_concat_getLast hne
  rw [List.getLast?_eq_some_getLast hne] at h; cases h; exact h1.symm

/-! ### `dropOldT` -/

theorem dropOldT_suffix (S id : Nat) (es : List (AckGroup × Nat)) : dropOldT S id es <:+ es := by
  induction es with
  | nil => exact List.suffix_refl _
  | cons g rest ih =>
    rw [dropOldT]
    split
    · exact List.IsSuffix.trans ih (List.suffix_cons _ _)
    · exact List.suffix_refl _

theorem dropOldT_head (S id : Nat) (es : List (AckGroup × Nat)) (g : AckGroup × Nat) (rest : List (AckGroup × Nat))
    (h : dropOldT S id es = g :: rest) : wsub32 id g.1.baseId < S := by
  induction es with
  | nil => rw [dropOldT] at h; cases h
  | cons g0 rest0 ih =>
    rw [dropOldT] at h
    split at h
    · exact ih h
    · cases h; omega

/-! ### lists of tagged groups -/

/-- What the invariant says about the pending groups: the wire id of a group is its true id mod 2^32; true ids
are below the true window base `B`, at least 32 apart (increasing), and span less than the window size `S`. -/
structure Good (S B : Nat) (es : List (AckGroup × Nat)) : Prop where
  ids : ∀ e ∈ es, e.1.baseId % 2^32 = e.2 % 2^32
  lt : ∀ e ∈ es, e.2 < B
  sorted : (es.map (·.2)).Pairwise (fun a b => a + 32 ≤ b)
  span : ∀ a ∈ es, ∀ b ∈ es, b.2 < a.2 + S

theorem Good.nil (S B : Nat) : Good S B [] :=
  ⟨by simp, by simp, by simp, by simp⟩

theorem Good.sublist {S B : Nat} {es es' : List (AckGroup × Nat)} (h : Good S B es) (hs : es'.Sublist es) :
    Good S B es' :=
  ⟨fun e he => h.ids e (hs.subset he), fun e he => h.lt e (hs.subset he),
   h.sorted.sublist (hs.map _), fun a ha b hb => h.span a (hs.subset ha) b (hs.subset hb)⟩

theorem Good.mono {S B B' : Nat} {es : List (AckGroup × Nat)} (h : Good S B es) (hB : B ≤ B') : Good S B' es :=
  ⟨h.ids, fun e he => Nat.lt_of_lt_of_le (h.lt e he) hB, h.sorted, h.span⟩

theorem Good.sim {S B : Nat} {es es' : List (AckGroup × Nat)} (h : Good S B es)
    (hm : es'.map (·.2) = es.map (·.2))
    (hs : ∀ e ∈ es', ∃ e0 ∈ es, e0.2 = e.2 ∧ e0.1.baseId = e.1.baseId) : Good S B es' := by
  refine ⟨?_, ?_, hm ▸ h.sorted, ?_⟩
  · intro e he
    obtain ⟨e0, h0, h2, h1⟩ := hs e he
    rw [← h2, ← h1]; exact h.ids e0 h0
  · intro e he
    obtain ⟨e0, h0, h2, -⟩ := hs e he
    rw [← h2]; exact h.lt e0 h0
  · intro a ha b hb
    obtain ⟨a0, ha0, ha2, -⟩ := hs a ha
    obtain ⟨b0, hb0, hb2, -⟩ := hs b hb
    rw [← ha2, ← hb2]; exact h.span a0 ha0 b0 hb0

theorem Good.append {S B T : Nat} {es : List (AckGroup × Nat)} (g : AckGroup) (h : Good S B es)
    (hS : 0 < S) (hBT : B ≤ T) (hg : g.baseId % 2^32 = T % 2^32)
    (hnear : ∀ e ∈ es, T < e.2 + S) (hfar : ∀ e ∈ es, e.2 + 32 ≤ T) : Good S (T + 1) (es ++ [(g, T)]) := by
  refine ⟨?_, ?_, ?_, ?_⟩
  · intro e he
    rcases List.mem_append.1 he with he | he
    · exact h.ids e he
    · rw [List.mem_singleton] at he; subst he; exact hg
  · intro e he
    rcases List.mem_append.1 he with he | he
    · have := h.lt e he; omega
    · rw [List.mem_singleton] at he; subst he; exact Nat.lt_succ_self _
  · rw [List.map_append, List.pairwise_append]
    refine ⟨h.sorted, by simp, ?_⟩
    intro a ha b hb
    rw [List.map_cons, List.map_nil, List.mem_singleton] at hb
    subst hb
    obtain ⟨e, he, rfl⟩ := List.mem_map.1 ha
    exact hfar e he
  · intro a ha b hb
    rcases List.mem_append.1 ha with ha | ha <;> rcases List.mem_append.1 hb with hb | hb
    · exact h.span a ha b hb
    · rw [List.mem_singleton] at hb; subst hb; exact hnear a ha
    · rw [List.mem_singleton] at ha; subst ha
      have := h.lt b hb
      show b.2 < T + S
      omega
    · rw [List.mem_singleton] at ha hb; subst ha; subst hb
      show T < T + S
      omega

/-- In a sorted list every element is at most the last one. -/
theorem Good.le_last {S B : Nat} {es : List (AckGroup × Nat)} (h : Good S B es) (last : AckGroup × Nat)
    (hl : es.getLast? = some last) : ∀ e ∈ es, e.2 ≤ last.2 := by
  have hes : es = es.dropLast ++ [last] := eq_dropLast_append es last hl
  intro e he
  rw [hes] at he
  rcases List.mem_append.1 he with he | he
  · have hs := h.sorted
    rw [hes, List.map_append, List.pairwise_append] at hs
    have := hs.2.2 e.2 (List.mem_map.2 ⟨e, he, rfl⟩) last.2 (by simp)
    omega
  · rw [List.mem_singleton] at he; subst he; exact Nat.le_refl _

/-- In a sorted list every element is at least the first one. -/
theorem Good.ge_head {S B : Nat} {g : AckGroup × Nat} {rest : List (AckGroup × Nat)} (h : Good S B (g :: rest)) :
    ∀ e ∈ g :: rest, g.2 ≤ e.2 := by
  intro e he
  rcases List.mem_cons.1 he with he | he
  · subst he; exact Nat.le_refl _
  · have hs := h.sorted
    rw [List.map_cons, List.pairwise_cons] at hs
    have := hs.1 e.2 (List.mem_map.2 ⟨e, he, rfl⟩)
    omega

/-- The counting argument: increasing by at least 32 inside an interval. -/
theorem pairwise_length (l : List Nat) (lo hi : Nat) (hp : l.Pairwise (fun a b => a + 32 ≤ b))
    (hb : ∀ t ∈ l, lo ≤ t ∧ t < hi) : 32 * l.length ≤ hi - lo + 31 := by
  induction l generalizing lo with
  | nil => simp
  | cons a rest ih =>
    rw [List.pairwise_cons] at hp
    have ha := hb a (by simp)
    cases rest with
    | nil => simp; omega
    | cons b rest' =>
      have h1 := ih (a + 32) hp.2 (fun t ht => ⟨hp.1 t ht, (hb t (List.mem_cons_of_mem _ ht)).2⟩)
      have hb' := hp.1 b (by simp)
      have hbh := (hb b (by simp)).2
      simp only [List.length_cons] at h1 ⊢
      omega

theorem Good.length_le {S B : Nat} {es : List (AckGroup × Nat)} (h : Good S B es) (hS : 0 < S) :
    es.length ≤ (S - 1) / 32 + 1 := by
  cases es with
  | nil => simp
  | cons g rest =>
    have hl := pairwise_length ((g :: rest).map (·.2)) g.2 (g.2 + S) h.sorted (by
      intro t ht
      obtain ⟨e, he, rfl⟩ := List.mem_map.1 ht
      exact ⟨h.ge_head e he, h.span g (by simp) e he⟩)
    rw [List.length_map] at hl
    omega

/-! ### the invariant -/

structure Inv (S : Nat) (t : TQ) : Prop where
  size : t.size = S
  base : t.baseId % 2^32 = t.trueBase % 2^32
  good : Good S t.trueBase t.entries

theorem Inv.init (S b : Nat) : Inv S (TQ.init S b) := ⟨rfl, rfl, Good.nil _ _⟩

theorem Inv.advance {S : Nat} {t : TQ} (h : Inv S t) (nb : Nat) : Inv S (t.advance nb) := by
  by_cases hc : wsub32 nb t.baseId > 0 ∧ wsub32 nb t.baseId ≤ t.size
  · rw [advance_pos t nb hc]
    exact ⟨h.size, true_id nb t.baseId t.trueBase h.base, h.good.mono (Nat.le_add_right _ _)⟩
  · rw [advance_neg t nb hc]; exact h

theorem Inv.pop {S : Nat} {t : TQ} (h : Inv S t) : Inv S { t with entries := t.entries.tail } :=
  ⟨h.size, h.base, h.good.sublist (List.tail_sublist _)⟩

theorem advance_markSeen {S : Nat} {t : TQ} (h : Inv S t) (hS : S ≤ 2^31) (id : Nat)
    (hw : wsub32 id t.baseId < S) :
    t.advance (wadd32 id 1) =
      { t with baseId := wadd32 id 1, trueBase := t.trueBase + wsub32 id t.baseId + 1 } := by
  have h1 := wsub32_succ id t.baseId S hw hS
  have hsz := h.size
  rw [advance_pos t _ ⟨by omega, by omega⟩, h1, ← Nat.add_assoc]

theorem Inv.markSeen' {S : Nat} {t : TQ} (h : Inv S t) (hS0 : 0 < S) (hS : S ≤ 2^31) (id : Nat) (nonce : Bool)
    (hok : OpOk t (.markSeen id nonce)) :
    Inv S (t.markSeen id nonce) ∧
    (t.contains id = true → ∀ e ∈ (t.markSeen id nonce).entries, (t.markSeen id nonce).trueBase ≤ e.2 + S) := by
  by_cases hc : t.contains id = true
  case neg => rw [markSeen_neg t id nonce hc]; exact ⟨h, fun h' => absurd h' hc⟩
  have hw : wsub32 id t.baseId < S := by
    have : wsub32 id t.baseId < t.size := by simpa [TQ.contains] using hc
    rw [h.size] at this; exact this
  have hadv := advance_markSeen h hS id hw
  obtain ⟨es', heq, hcases⟩ := markSeen_cases t id nonce hc _ hadv (dropOldT t.size id t.entries) rfl
  rw [heq]
  generalize hT : t.trueBase + wsub32 id t.baseId = T at hcases ⊢
  have hBT : t.trueBase ≤ T := by omega
  have hidT : id % 2^32 = T % 2^32 := by rw [← hT]; exact true_id id t.baseId t.trueBase h.base
  have hbase' : (wadd32 id 1) % 2^32 = (T + 1) % 2^32 := by unfold wadd32; omega
  have hsuf := dropOldT_suffix t.size id t.entries
  generalize hes : dropOldT t.size id t.entries = es at hcases hsuf
  have good_es : Good S t.trueBase es := h.good.sublist hsuf.sublist
  have hmem : ∀ e ∈ es, e ∈ t.entries := fun e he => hsuf.subset he
  have hnear : ∀ e ∈ es, T < e.2 + S := by
    cases es with
    | nil => simp
    | cons g rest =>
      have hg := dropOldT_head _ _ _ g rest hes
      rw [h.size] at hg
      have gmem : g ∈ t.entries := hmem g (by simp)
      have h1 := hok hc g gmem
      rw [hT] at h1
      have hglt := h.good.lt g gmem
      have h2 := wsub32_true id g.1.baseId T g.2 hidT (h.good.ids g gmem) (by omega) h1
      intro e he
      have := good_es.ge_head e he
      omega
  rcases hcases with ⟨hlast, rfl⟩ | ⟨last, hl, hb, hes'⟩
  · refine ⟨⟨h.size, hbase', ?_⟩, ?_⟩
    case refine_2 =>
      intro _ e he
      rcases List.mem_append.1 he with he | he
      · have := hnear e he
        show T + 1 ≤ e.2 + S
        omega
      · rw [List.mem_singleton] at he; subst he
        show T + 1 ≤ T + S
        omega
    refine Good.append _ good_es hS0 hBT hidT hnear ?_
    cases hl : es.getLast? with
    | none =>
      have : es = [] := List.getLast?_eq_none_iff.1 hl
      subst this; simp
    | some last =>
      have hlm : last ∈ es := List.mem_of_getLast? hl
      have hlt := good_es.lt last hlm
      have h3 := wsub32_ge32 id last.1.baseId T last.2 hidT (good_es.ids last hlm) (by omega) (hlast last hl)
      intro e he
      have := good_es.le_last last hl e he
      omega
  · have good1 : Good S (T + 1) es := good_es.mono (by omega)
    rcases hes' with rfl | ⟨g', hg', rfl⟩
    · refine ⟨⟨h.size, hbase', good1⟩, ?_⟩
      intro _ e he
      have := hnear e he
      show T + 1 ≤ e.2 + S
      omega
    · have hlm : last ∈ es := List.mem_of_getLast? hl
      have hdl := eq_dropLast_append es last hl
      have hsim : ∀ e ∈ es.dropLast ++ [(g', last.2)], ∃ e0 ∈ es, e0.2 = e.2 ∧ e0.1.baseId = e.1.baseId := by
        intro e he
        rcases List.mem_append.1 he with he | he
        · exact ⟨e, (List.dropLast_sublist es).subset he, rfl, rfl⟩
        · rw [List.mem_singleton] at he; subst he
          exact ⟨last, hlm, rfl, hg'.symm⟩
      have hmap : (es.dropLast ++ [(g', last.2)]).map (·.2) = es.map (·.2) := by
        have : es.map (·.2) = (es.dropLast ++ [last]).map (·.2) := congrArg _ hdl
        rw [this, List.map_append, List.map_append]; rfl
      refine ⟨⟨h.size, hbase', good1.sim hmap hsim⟩, ?_⟩
      intro _ e he
      obtain ⟨e0, he0, h2, -⟩ := hsim e he
      have := hnear e0 he0
      show T + 1 ≤ e.2 + S
      omega

theorem Inv.markSeen {S : Nat} {t : TQ} (h : Inv S t) (hS0 : 0 < S) (hS : S ≤ 2^31) (id : Nat) (nonce : Bool)
    (hok : OpOk t (.markSeen id nonce)) : Inv S (t.markSeen id nonce) :=
  (h.markSeen' hS0 hS id nonce hok).1

theorem Inv.step {S : Nat} {t : TQ} (h : Inv S t) (hS0 : 0 < S) (hS : S ≤ 2^31) (op : Op) (hok : OpOk t op) :
    Inv S (t.step op) := by
  cases op with
  | markSeen id nonce => exact h.markSeen hS0 hS id nonce hok
  | pop => exact h.pop
  | resync id => exact h.advance id

theorem Inv.run {S : Nat} {t : TQ} (h : Inv S t) (hS0 : 0 < S) (hS : S ≤ 2^31) (ops : List Op)
    (hok : NoWrap t ops) : Inv S (t.run ops) := by
  induction ops generalizing t with
  | nil => exact h
  | cons op ops ih =>
    exact ih (h.step hS0 hS op hok.1) hok.2

theorem Inv.length_le {S : Nat} {t : TQ} (h : Inv S t) (hS0 : 0 < S) : t.entries.length ≤ (S - 1) / 32 + 1 :=
  h.good.length_le hS0

/-! ### a ghost-free sufficient condition: a budget of sync frames -/

/-- Every pending group is at most `S + k` behind the true window base. -/
def Near (S k : Nat) (t : TQ) : Prop := ∀ e ∈ t.entries, t.trueBase ≤ e.2 + S + k

def isResync : Op → Bool
  | .resync _ => true
  | _ => false

theorem near_ok {S k : Nat} {t : TQ} (h : Inv S t) (hn : Near S k t) (hk : k + 2 * S ≤ 2^32) (op : Op) :
    OpOk t op := by
  cases op with
  | markSeen id nonce =>
    intro hc e he
    have hw : wsub32 id t.baseId < t.size := by simpa [TQ.contains] using hc
    have := hn e he
    have := h.size
    omega
  | pop => trivial
  | resync _ => trivial

theorem near_step {S k : Nat} {t : TQ} (h : Inv S t) (hS0 : 0 < S) (hS : S ≤ 2^31) (hn : Near S k t) (op : Op)
    (hok : OpOk t op) : Near S (k + if isResync op then S else 0) (t.step op) := by
  cases op with
  | markSeen id nonce =>
    show Near S (k + 0) (t.markSeen id nonce)
    by_cases hc : t.contains id = true
    · intro e he
      have := (h.markSeen' hS0 hS id nonce hok).2 hc e he
      omega
    · rw [markSeen_neg t id nonce hc]; exact hn
  | pop =>
    intro e he
    exact hn e (List.mem_of_mem_tail he)
  | resync id =>
    show Near S (k + S) (t.advance id)
    by_cases hc : wsub32 id t.baseId > 0 ∧ wsub32 id t.baseId ≤ t.size
    · rw [advance_pos t id hc]
      intro e he
      have := hn e he
      have := h.size
      show t.trueBase + wsub32 id t.baseId ≤ e.2 + S + (k + S)
      omega
    · rw [advance_neg t id hc]
      intro e he
      have := hn e he
      omega

theorem noWrap_of_budget {S : Nat} {t : TQ} (h : Inv S t) (hS0 : 0 < S) (hS : S ≤ 2^31) (ops : List Op) (k : Nat)
    (hn : Near S k t) (hb : k + ops.countP isResync * S + 2 * S ≤ 2^32) : NoWrap t ops := by
  induction ops generalizing t k with
  | nil => trivial
  | cons op ops ih =>
    have hok : OpOk t op := near_ok h hn (by omega) op
    refine ⟨hok, ih (h.step hS0 hS op hok) _ (near_step h hS0 hS hn op hok) ?_⟩
    rw [List.countP_cons] at hb
    cases hr : isResync op
    · rw [hr] at hb; simp only [Bool.false_eq_true, if_false, Nat.add_zero] at hb ⊢; omega
    · rw [hr] at hb; simp only [if_true] at hb ⊢
      rw [Nat.succ_mul] at hb; omega

theorem near_init (S b k : Nat) : Near S k (TQ.init S b) := by
  intro e he; cases he

theorem erase_init (S b : Nat) : (TQ.init S b).erase = AckQ.init S b := rfl

theorem erase_length (t : TQ) : t.erase.entries.length = t.entries.length := by
  simp [TQ.erase]

end Uflow.AckQB
