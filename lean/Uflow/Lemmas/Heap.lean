import Uflow.Model.HalfConn

/-!
The binary heap of `resend_queue::Entry` (`HalfConn.siftUp`, `siftDownToBottom`, `heapPush`,
`heapPop`) only permutes its elements: `heapPush` adds exactly the pushed entry, `heapPop` removes
exactly the entry at index 0.
-/

namespace Uflow.Heap

open Uflow.HalfConn

/-- Moving the hole: writing `c = h[child]` at the hole `pos` and then the element at `child` gives a
permutation of writing the element at `pos`. -/
theorem hole_move (h : Array REntry) (pos child : Nat) (c elt : REntry) (hpos : pos < h.size)
    (hc : h[child]? = some c) :
    ((h.setIfInBounds pos c).setIfInBounds child elt).Perm (h.setIfInBounds pos elt) := by
  have hchild : child < h.size := by
    rcases Nat.lt_or_ge child h.size with hlt | hge
    · exact hlt
    · rw [Array.getElem?_eq_none hge] at hc; cases hc
  by_cases heq : child = pos
  · subst heq
    rw [Array.setIfInBounds_setIfInBounds]
  · have hp' : pos < (h.setIfInBounds pos elt).size := by rw [Array.size_setIfInBounds]; exact hpos
    have hc' : child < (h.setIfInBounds pos elt).size := by rw [Array.size_setIfInBounds]; exact hchild
    have : (h.setIfInBounds pos c).setIfInBounds child elt =
        (h.setIfInBounds pos elt).swap pos child hp' hc' := by
      apply Array.ext_getElem?
      intro i
      rw [Array.getElem?_swap]
      simp only [Array.getElem?_setIfInBounds, Array.size_setIfInBounds, Array.getElem_setIfInBounds,
        hpos, hchild, if_true]
      by_cases h1 : child = i
      · subst h1
        simp
      · by_cases h2 : pos = i
        · subst h2
          have : (h[child]'hchild) = c := by
            rw [Array.getElem?_eq_getElem hchild] at hc
            exact Option.some.inj hc
          simp [h1, Ne.symm heq, this]
        · simp [h1, h2]
    rw [this]
    exact Array.swap_perm hp' hc'

theorem siftUp_go_perm (start : Nat) (elt : REntry) (fuel : Nat) (h : Array REntry) (pos : Nat)
    (hpos : pos < h.size) (r : Array REntry × Nat) (hr : siftUp.go start elt fuel h pos = r) :
    r.2 < r.1.size ∧ r.1.size = h.size ∧
    (r.1.setIfInBounds r.2 elt).Perm (h.setIfInBounds pos elt) := by
  induction fuel generalizing h pos with
  | zero =>
    simp only [siftUp.go] at hr
    subst hr
    exact ⟨hpos, rfl, Array.Perm.refl _⟩
  | succ n ih =>
    simp only [siftUp.go] at hr
    split at hr
    · rename_i hgt
      have hpar : (pos - 1) / 2 < h.size := by omega
      split at hr
      · rename_i hnone
        rw [Array.getElem?_eq_getElem hpar] at hnone
        cases hnone
      · rename_i p hp
        split at hr
        · subst hr; exact ⟨hpos, rfl, Array.Perm.refl _⟩
        · have hpar' : (pos - 1) / 2 < (h.setIfInBounds pos p).size := by
            rw [Array.size_setIfInBounds]; exact hpar
          obtain ⟨i1, i2, i3⟩ := ih (h.setIfInBounds pos p) ((pos - 1) / 2) hpar' hr
          refine ⟨i1, by rw [i2, Array.size_setIfInBounds], i3.trans ?_⟩
          exact hole_move h pos ((pos - 1) / 2) p elt hpos hp
    · subst hr; exact ⟨hpos, rfl, Array.Perm.refl _⟩

theorem setIfInBounds_self (h : Array REntry) (pos : Nat) (elt : REntry) (he : h[pos]? = some elt) :
    h.setIfInBounds pos elt = h := by
  apply Array.ext_getElem?
  intro i
  rw [Array.getElem?_setIfInBounds]
  by_cases hi : pos = i
  · subst hi
    rw [if_pos rfl]
    split
    · exact he.symm
    · rename_i hn
      rw [Array.getElem?_eq_none (by omega)]
  · rw [if_neg hi]

theorem siftUp_perm (h : Array REntry) (start pos : Nat) : (siftUp h start pos).Perm h := by
  unfold siftUp
  split
  · exact Array.Perm.refl _
  · rename_i elt he
    have hpos : pos < h.size := by
      rcases Nat.lt_or_ge pos h.size with hlt | hge
      · exact hlt
      · rw [Array.getElem?_eq_none hge] at he; cases he
    obtain ⟨_, _, i3⟩ := siftUp_go_perm start elt (h.size + 1) h pos hpos _ rfl
    rw [setIfInBounds_self h pos elt he] at i3
    exact i3

theorem siftDown_go_perm (endI : Nat) (elt : REntry) (fuel : Nat) (h : Array REntry) (pos child : Nat)
    (hpos : pos < h.size) (r : Array REntry × Nat)
    (hr : siftDownToBottom.go endI fuel h pos child = r) :
    r.2 < r.1.size ∧ r.1.size = h.size ∧
    (r.1.setIfInBounds r.2 elt).Perm (h.setIfInBounds pos elt) := by
  induction fuel generalizing h pos child with
  | zero =>
    simp only [siftDownToBottom.go] at hr
    subst hr
    exact ⟨hpos, rfl, Array.Perm.refl _⟩
  | succ n ih =>
    simp only [siftDownToBottom.go] at hr
    split at hr
    · split at hr
      · rename_i a b ha hb
        split at hr
        · rename_i c hc
          have hlt : (if a.le b = true then child + 1 else child) < h.size := by
            rcases Nat.lt_or_ge (if a.le b = true then child + 1 else child) h.size with hlt | hge
            · exact hlt
            · rw [Array.getElem?_eq_none hge] at hc; cases hc
          have hlt' : (if a.le b = true then child + 1 else child) < (h.setIfInBounds pos c).size := by
            rw [Array.size_setIfInBounds]; exact hlt
          obtain ⟨i1, i2, i3⟩ := ih (h.setIfInBounds pos c) _ _ hlt' hr
          refine ⟨i1, by rw [i2, Array.size_setIfInBounds], i3.trans ?_⟩
          exact hole_move h pos _ c elt hpos hc
        · subst hr; exact ⟨hpos, rfl, Array.Perm.refl _⟩
      · subst hr; exact ⟨hpos, rfl, Array.Perm.refl _⟩
    · split at hr
      · split at hr
        · rename_i c hc
          have hlt : child < h.size := by
            rcases Nat.lt_or_ge child h.size with hlt | hge
            · exact hlt
            · rw [Array.getElem?_eq_none hge] at hc; cases hc
          subst hr
          refine ⟨by rw [Array.size_setIfInBounds]; exact hlt, Array.size_setIfInBounds, ?_⟩
          exact hole_move h pos child c elt hpos hc
        · subst hr; exact ⟨hpos, rfl, Array.Perm.refl _⟩
      · subst hr; exact ⟨hpos, rfl, Array.Perm.refl _⟩

theorem siftDownToBottom_perm (h : Array REntry) : (siftDownToBottom h).Perm h := by
  unfold siftDownToBottom
  simp only
  split
  · exact Array.Perm.refl _
  · rename_i elt he
    have hpos : 0 < h.size := by
      rcases Nat.lt_or_ge 0 h.size with hlt | hge
      · exact hlt
      · rw [Array.getElem?_eq_none hge] at he; cases he
    obtain ⟨_, _, i3⟩ := siftDown_go_perm h.size elt (h.size + 1) h 0 1 hpos _ rfl
    rw [setIfInBounds_self h 0 elt he] at i3
    exact (siftUp_perm _ 0 _).trans i3

/-- `heapPush` adds exactly the pushed entry. -/
theorem heapPush_perm (h : Array REntry) (e : REntry) :
    (heapPush h e).toList.Perm (e :: h.toList) := by
  unfold heapPush
  have := Array.perm_iff_toList_perm.mp (siftUp_perm (h.push e) 0 ((h.push e).size - 1))
  refine this.trans ?_
  rw [Array.toList_push]
  exact List.perm_append_comm

/-- `heapPop` removes exactly the entry at index 0. -/
theorem heapPop_perm (h h' : Array REntry) (top : REntry) (hp : heapPop h = some (top, h')) :
    h[0]? = some top ∧ h.toList.Perm (top :: h'.toList) := by
  unfold heapPop at hp
  split at hp
  · cases hp
  · rename_i last hlast
    have hsz : 0 < h.size := by
      rcases Nat.lt_or_ge 0 h.size with hlt | hge
      · exact hlt
      · have : h = #[] := Array.eq_empty_of_size_eq_zero (by omega)
        subst this
        simp at hlast
    have hl : h.toList = h.pop.toList ++ [last] := by
      have h1 : h = h.pop.push last := by
        rw [Array.back?_eq_getElem?] at hlast
        apply Array.ext_getElem?
        intro i
        rw [Array.getElem?_push, Array.getElem?_pop, Array.size_pop]
        by_cases hi : i = h.size - 1
        · subst hi; simp [hlast]
        · rw [if_neg hi]
          split
          · rfl
          · rw [Array.getElem?_eq_none (by omega)]
      calc h.toList = (h.pop.push last).toList := by rw [← h1]
        _ = h.pop.toList ++ [last] := Array.toList_push
    simp only at hp
    split at hp
    · rename_i hnone
      simp only [Option.some.injEq, Prod.mk.injEq] at hp
      obtain ⟨rfl, rfl⟩ := hp
      have hsz1 : h.size = 1 := by
        rcases Nat.lt_or_ge 0 h.pop.size with hlt | hge
        · rw [Array.getElem?_eq_getElem hlt] at hnone; cases hnone
        · rw [Array.size_pop] at hge; omega
      refine ⟨?_, ?_⟩
      · rw [Array.back?_eq_getElem?, hsz1] at hlast
        exact hlast
      · rw [hl]
        exact List.perm_append_comm
    · rename_i top' htop
      simp only [Option.some.injEq, Prod.mk.injEq] at hp
      obtain ⟨rfl, rfl⟩ := hp
      have hpsz : 0 < h.pop.size := by
        rcases Nat.lt_or_ge 0 h.pop.size with hlt | hge
        · exact hlt
        · rw [Array.getElem?_eq_none hge] at htop; cases htop
      refine ⟨?_, ?_⟩
      · rw [Array.getElem?_pop] at htop
        rw [Array.size_pop] at hpsz
        rw [if_pos (by omega)] at htop
        exact htop
      · have h2 := Array.perm_iff_toList_perm.mp (siftDownToBottom_perm (h.pop.setIfInBounds 0 last))
        -- `h.pop` with index 0 replaced by `last`, plus `top`, is `h.pop` plus `last`
        have h3 : (top' :: (h.pop.setIfInBounds 0 last).toList).Perm (last :: h.pop.toList) := by
          have hne : h.pop.toList ≠ [] := by
            intro hnil
            have : h.pop.size = 0 := by rw [← Array.length_toList, hnil]; rfl
            omega
          obtain ⟨x, xs, hx⟩ := List.exists_cons_of_ne_nil hne
          have hx0 : x = top' := by
            have : h.pop.toList[0]? = some top' := by rw [Array.getElem?_toList]; exact htop
            rw [hx] at this
            simpa using this
          subst hx0
          rw [Array.toList_setIfInBounds, hx]
          simp only [List.set_cons_zero]
          exact List.Perm.swap _ _ _
        rw [hl]
        refine (List.perm_append_comm.trans ?_)
        simp only [List.singleton_append]
        exact h3.symm.trans (List.Perm.cons _ h2.symm)

theorem mem_heapPush (h : Array REntry) (e x : REntry) :
    x ∈ (heapPush h e).toList ↔ x = e ∨ x ∈ h.toList := by
  rw [(heapPush_perm h e).mem_iff, List.mem_cons]

theorem mem_heapPop (h h' : Array REntry) (top x : REntry) (hp : heapPop h = some (top, h')) :
    x ∈ h.toList ↔ x = top ∨ x ∈ h'.toList := by
  rw [(heapPop_perm h h' top hp).2.mem_iff, List.mem_cons]

/-- `heapPop` succeeds exactly on a non-empty heap. -/
theorem heapPop_isSome (h : Array REntry) (x : REntry) (hx : h[0]? = some x) :
    ∃ h', heapPop h = some (x, h') := by
  have hsz : 0 < h.size := by
    rcases Nat.lt_or_ge 0 h.size with hlt | hge
    · exact hlt
    · rw [Array.getElem?_eq_none hge] at hx; cases hx
  cases hp : heapPop h with
  | none =>
    unfold heapPop at hp
    split at hp
    · rename_i hb
      rw [Array.back?_eq_getElem?, Array.getElem?_eq_getElem (by omega)] at hb
      cases hb
    · simp only at hp
      split at hp <;> cases hp
  | some r =>
    obtain ⟨top, h'⟩ := r
    have := (heapPop_perm h h' top hp).1
    rw [hx] at this
    cases this
    exact ⟨h', rfl⟩

end Uflow.Heap
