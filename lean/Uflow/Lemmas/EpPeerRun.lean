import Uflow.Lemmas.EpPeerTrace

/-!
C09, the peer endpoint's part (client model): the ghost trace of half-connection calls along the arrivals
loop, a whole `step`, one API call and whole runs.
-/

namespace Uflow.Endpoint

open Uflow.Gen Uflow.Codec Uflow.HalfConn

variable {H : Type}

/-- The traffic frames handed to the client by the `step`s of a run, in order. -/
def trafficOfOps : List COp → List Frame
  | [] => []
  | .step _ a :: ops => trafficOf a ++ trafficOfOps ops
  | _ :: ops => trafficOfOps ops

theorem Client.frames_CPTr (hc : HC H) (c c' : Client H) (nowMs nowNs : Nat)
    (arrivals sent : List (List Nat)) (hnp : c.state.isPending = false)
    (h : c.arrivalsPhase hc nowMs nowNs arrivals = .ok (c', sent)) :
    ∃ cs, CPTr hc c c' cs (trafficOf arrivals) := by
  refine Client.arrivalsPhase_induct' hc nowMs nowNs
    (fun pre x _ => ∃ cs, CPTr hc c x cs (trafficOf pre)) ?_ ?_ arrivals c c' sent ⟨[], CPTr.refl hc c hnp⟩ h
  · intro pre b x s hp hd
    rw [trafficOf_append, trafficOf_single_none b hd, List.append_nil]
    exact hp
  · intro pre b x s f x' out ⟨cs, hp⟩ hd hf
    obtain ⟨cs2, h2⟩ := Client.handleFrame_CPTr hc x x' f nowMs nowNs out hp.np hf
    rw [trafficOf_append, trafficOf_single_some b f hd]
    exact ⟨cs ++ cs2, hp.trans h2⟩

/-- One `step`: the buffer before the final hand-over is the old one plus the events of the step. -/
theorem Client.step_CPTr (hc : HC H) (c c' : Client H) (nowNs : Nat) (arrivals sent : List (List Nat))
    (evs : List CEvent) (hnp : c.state.isPending = false) (he : c.eventsOut = [])
    (h : c.step hc nowNs arrivals = .ok (c', sent, evs)) :
    c'.eventsOut = [] ∧ ∃ cs, PTr hc c.state c'.state evs cs (trafficOf arrivals) := by
  obtain ⟨c1, s1, c2, s2, c4, s4, h1, h2, h4, rfl, -, rfl⟩ := Client.step_phases hc c c' nowNs arrivals sent evs h
  obtain ⟨cs1, t1⟩ := Client.flush_CPTr hc c c1 s1 hnp h1
  obtain ⟨cs2, t2⟩ := Client.frames_CPTr hc c1 c2 _ nowNs arrivals s2 t1.np h2
  have t3 := Client.handleEvents_CPTr hc c2 (c.nowMs nowNs) t2.np
  obtain ⟨cs4, t4⟩ := Client.stepPhase_CPTr hc _ c4 _ nowNs s4 t3.np h4
  obtain ⟨new, e, t⟩ := (t1.trans t2).trans (t3.trans t4)
  rw [he, List.nil_append] at e
  rw [e]
  exact ⟨rfl, cs1 ++ cs2 ++ ([] ++ cs4), by simpa using t⟩

/-- One API call. -/
theorem Client.apply_CPTr (hc : HC H) (c c' : Client H) (op : COp) (sent : List (List Nat)) (evs : List CEvent)
    (hnp : c.state.isPending = false) (he : c.eventsOut = []) (h : c.apply hc op = .ok (c', sent, evs)) :
    c'.eventsOut = [] ∧ ∃ cs, PTr hc c.state c'.state evs cs (trafficOfOps [op]) := by
  cases op with
  | step n a =>
    simp only [trafficOfOps, List.append_nil]
    exact Client.step_CPTr hc c c' n a sent evs hnp he h
  | send d ch m =>
    cases h
    obtain ⟨cs, new, e, t⟩ := Client.send_CPTr hc c d ch m hnp
    rw [he] at e
    have e' : (c.send hc d ch m).eventsOut = [] := by
      unfold Client.send; split <;> exact he
    rw [e'] at e
    have : new = [] := by simpa using e.symm
    subst this
    exact ⟨e', cs, t⟩
  | disconnect m =>
    cases h
    obtain ⟨new, e, t⟩ := Client.disconnect_CPTr hc c m hnp
    have e' : (c.disconnect m).eventsOut = [] := by
      unfold Client.disconnect; split <;> exact he
    rw [e', he] at e
    have : new = [] := by simpa using e.symm
    subst this
    exact ⟨e', [], t⟩
  | flush =>
    simp only [Client.apply] at h
    split at h
    · cases h
    · next c1 s1 hfl =>
      cases h
      obtain ⟨cs, new, e, t⟩ := Client.flush_CPTr hc c c' sent hnp hfl
      have e' : c'.eventsOut = [] := by rw [← he]; exact (Client.flush_events hc c c' sent hfl).1
      rw [e', he] at e
      have : new = [] := by simpa using e.symm
      subst this
      exact ⟨e', cs, t⟩

/-- Whole runs. -/
theorem Client.run_CPTr (hc : HC H) (ops : List COp) (c c' : Client H) (sent : List (List Nat)) (evs : List CEvent)
    (hnp : c.state.isPending = false) (he : c.eventsOut = []) (h : Client.run hc c ops = .ok (c', sent, evs)) :
    c'.eventsOut = [] ∧ ∃ cs, PTr hc c.state c'.state evs cs (trafficOfOps ops) := by
  induction ops generalizing c sent evs with
  | nil => cases h; exact ⟨he, [], PTr.refl hc hnp⟩
  | cons op ops ih =>
    simp only [Client.run] at h
    split at h
    · cases h
    · next c1 s1 e1 h1 =>
      split at h
      · cases h
      · next c2 s2 e2 h2 =>
        cases h
        obtain ⟨he1, cs1, t1⟩ := Client.apply_CPTr hc c c1 op s1 e1 hnp he h1
        obtain ⟨he2, cs2, t2⟩ := ih c1 s2 e2 t1.np he1 h2
        refine ⟨he2, cs1 ++ cs2, ?_⟩
        have : trafficOfOps (op :: ops) = trafficOfOps [op] ++ trafficOfOps ops := by
          cases op <;> simp [trafficOfOps]
        rw [this]
        exact t1.trans t2

end Uflow.Endpoint
