import Uflow.Lemmas.EndpointServerRun

/-! Helper lemmas for C17: how the two connection counts move. -/

namespace Uflow.Endpoint

open Uflow.Gen Uflow.Codec Uflow.HalfConn

variable {H : Type}

theorem Server.accept_counts (s : Server H) (addr n r a nowMs : Nat) :
    (s.accept addr n r a nowMs).clients.length = s.clients.length + 1 ∧
    (s.accept addr n r a nowMs).activeCount = s.activeCount + 1 ∧
    (s.accept addr n r a nowMs).cfg = s.cfg := by
  refine ⟨by simp [Server.accept], ?_, rfl⟩
  rw [Server.activeCount_eq, Server.activeCount_eq]
  simp [Server.accept, Server.newEntry, List.filter_append, RState.counts]

theorem Server.activate_cfg (hc : HC H) (s : Server H) (c : RClient H) (ln rn rate alloc nowMs nowNs : Nat) :
    (s.activate hc c ln rn rate alloc nowMs nowNs).cfg = s.cfg := by
  unfold Server.activate
  exact Server.put_cfg ..

/-- A matching handshake ACK turns the pending entry into an active one: neither count changes. -/
theorem Server.activate_counts (hc : HC H) {s : Server H} (h : s.WF) {c : RClient H} (hcm : c ∈ s.clients)
    {ln rn rate alloc : Nat} {reply : List Nat} (hst : c.state = .pending ln rn rate alloc reply) (nowMs nowNs : Nat) :
    (s.activate hc c ln rn rate alloc nowMs nowNs).clients.length = s.clients.length ∧
    (s.activate hc c ln rn rate alloc nowMs nowNs).activeCount = s.activeCount := by
  obtain ⟨l1, l2, e1, e2⟩ := h.put_shape (c' := RClient.mk c.cid c.address
      (RState.active (hc.new (hcConfig s.cfg.ep ln rn rate alloc) nowNs) (nowMs + s.cfg.ep.activeTimeoutMs) none)) hcm rfl
  rw [Server.activeCount_eq, Server.activeCount_eq]
  unfold Server.activate
  simp only [e2, e1]
  simp [List.filter_append, hst, RState.counts]

/-- Activation leaves all other entries alone: pending entries afterwards were pending entries before. -/
theorem Server.activate_pendSub (hc : HC H) {s : Server H} (h : s.WF) {c : RClient H} (hcm : c ∈ s.clients)
    (ln rn rate alloc nowMs nowNs : Nat) :
    ∀ x ∈ (s.activate hc c ln rn rate alloc nowMs nowNs).clients, x.state.isPending = true → x ∈ s.clients := by
  obtain ⟨l1, l2, e1, e2⟩ := h.put_shape (c' := RClient.mk c.cid c.address
      (RState.active (hc.new (hcConfig s.cfg.ep ln rn rate alloc) nowNs) (nowMs + s.cfg.ep.activeTimeoutMs) none)) hcm rfl
  unfold Server.activate
  simp only [e2, e1]
  intro x hx hp
  rcases List.mem_append.1 hx with hx | hx
  · exact List.mem_append_left _ hx
  · rcases List.mem_cons.1 hx with hx | hx
    · subst hx; cases hp
    · exact List.mem_append_right _ (List.mem_cons_of_mem _ hx)

theorem Server.handleHsAck_counts (hc : HC H) {s : Server H} (h : s.WF) (addr na nowMs nowNs : Nat) :
    (s.handleHsAck hc addr na nowMs nowNs).clients.length = s.clients.length ∧
    (s.handleHsAck hc addr na nowMs nowNs).activeCount = s.activeCount := by
  rcases Server.handleHsAck_cases hc s addr na nowMs nowNs with ⟨he, _⟩ | ⟨c, rn, rate, alloc, reply, hf, hst, he⟩
  · rw [he]; exact ⟨rfl, rfl⟩
  · rw [he]; exact Server.activate_counts hc h (Server.find_some hf).1 hst nowMs nowNs

end Uflow.Endpoint
