import Uflow.Lemmas.HcAgeEmit
import Uflow.Lemmas.HcSysSync

/-!
C01Age, part 2: the age-instrumented run of the pair, the network hypothesis `AgeOk`, and the ghost
invariant `AgeInv` that links every frame on the two wires to its emission stamp.

* `Aged`: a pair state together with `tBA`, one stamp per frame of `wireBA`: the unwrapped value `advB`
  of `B`'s packet receive window base when the `flush` of `B` that emitted the frame ran. (`wireAB`
  already has the stamps `wireT`: the number of packets `A` had emitted when the `flush` that emitted the
  frame returned.) `stepG` / `runG` replay `stepP` / `runP` and extend `tBA`; `runG_erase`.
* `AgeOk D`: a frame of `wireAB` is handed to `B` only while `A` has emitted at most `D` packets since
  the frame was emitted; a frame of `wireBA` is handed to `A` only while `B`'s receive window base has
  moved at most `D` ids since the frame was emitted.
* `AgeInv w`: every datagram of a data frame with stamp `T` is a fragment of the packet at an emission
  position `i ≥ T - w` (it was in `A`'s send window); a sync frame with stamp `T` carrying the packet id
  `id` is recorded as `(T, id)` in `syncs`; an ack frame with stamp `a` carries a packet window base `pb`
  with `(a, pb)` recorded in `bases`.
-/

namespace Uflow.HcAge

open Uflow Uflow.Gen Uflow.Codec Uflow.HalfConn Uflow.PSend Uflow.HcSys Uflow.HcFrm Uflow.HcCov Uflow.Sys
open Uflow.PRecv (bindR bindR_ok)
open Uflow.Rate (FloatOps)

variable {F : Type}

/-! ### the instrumented run -/

structure Aged (F : Type) where
  h : HcPair F
  /-- ghost: for every frame of `wireBA`, the value of `advB` when `B.flush` emitted it -/
  tBA : List Nat

def stepG (ops : FloatOps F) (x : Aged F) (op : POp) : R (Aged F) :=
  bindR (stepP ops x.h op) fun h' =>
    .ok ⟨h', x.tBA ++ List.replicate (h'.wireBA.length - x.h.wireBA.length) x.h.advB⟩

def runG (ops : FloatOps F) (x : Aged F) : List POp → R (Aged F)
  | [] => .ok x
  | op :: rest => bindR (stepG ops x op) fun x' => runG ops x' rest

/-- The instrumented initial state: no frame on `wireBA` yet. -/
def aged0 (h : HcPair F) : Aged F := ⟨h, []⟩

theorem stepG_of_stepP (ops : FloatOps F) (x : Aged F) (op : POp) (h' : HcPair F)
    (hs : stepP ops x.h op = .ok h') :
    stepG ops x op = .ok ⟨h', x.tBA ++ List.replicate (h'.wireBA.length - x.h.wireBA.length) x.h.advB⟩ := by
  simp only [stepG, hs, bindR_ok]

theorem stepG_ok (ops : FloatOps F) {x x' : Aged F} {op : POp} (hs : stepG ops x op = .ok x') :
    stepP ops x.h op = .ok x'.h ∧
    x'.tBA = x.tBA ++ List.replicate (x'.h.wireBA.length - x.h.wireBA.length) x.h.advB := by
  unfold stepG at hs
  cases hp : stepP ops x.h op with
  | error t => rw [hp] at hs; cases hs
  | ok h' => rw [hp, bindR_ok] at hs; cases hs; exact ⟨rfl, rfl⟩

/-- Erasure: the pair component of the instrumented run is the run. -/
theorem runG_erase (ops : FloatOps F) (sched : List POp) (x : Aged F) :
    (runG ops x sched).map Aged.h = runP ops x.h sched := by
  induction sched generalizing x with
  | nil => rfl
  | cons op rest ih =>
    rw [runG, runP]
    cases hp : stepP ops x.h op with
    | error t => simp only [stepG, hp]; rfl
    | ok h' =>
      rw [stepG_of_stepP ops x op h' hp, bindR_ok, bindR_ok]
      exact ih _

/-! ### the network hypothesis -/

/-- The side condition of one step: a delivered frame is not too old. -/
def AgeOp (D : Nat) (x : Aged F) : POp → Prop
  | .deliverAB k =>
    match x.h.wireT[k]? with
    | some T => x.h.pend.length ≤ T + D
    | none => True
  | .deliverBA k =>
    match x.tBA[k]? with
    | some a => x.h.advB ≤ a + D
    | none => True
  | _ => True

instance (D : Nat) (x : Aged F) (op : POp) : Decidable (AgeOp D x op) := by
  cases op <;> simp only [AgeOp] <;> first | infer_instance | (split <;> infer_instance)

/-- Every step of the schedule, run from `x`, satisfies its age condition. -/
def AgeOk (ops : FloatOps F) (D : Nat) : Aged F → List POp → Prop
  | _, [] => True
  | x, op :: rest => AgeOp D x op ∧ ∀ x', stepG ops x op = .ok x' → AgeOk ops D x' rest

/-- Executable test for `AgeOk`. -/
def ageOkB (ops : FloatOps F) (D : Nat) : Aged F → List POp → Bool
  | _, [] => true
  | x, op :: rest =>
    decide (AgeOp D x op) &&
    match stepG ops x op with
    | .ok x' => ageOkB ops D x' rest
    | .error _ => true

theorem ageOkB_sound (ops : FloatOps F) (D : Nat) (sched : List POp) (x : Aged F)
    (h : ageOkB ops D x sched = true) : AgeOk ops D x sched := by
  induction sched generalizing x with
  | nil => trivial
  | cons op rest ih =>
    simp only [ageOkB, Bool.and_eq_true, decide_eq_true_eq] at h
    refine ⟨h.1, fun x' hs => ?_⟩
    have h2 := h.2
    rw [hs] at h2
    exact ih x' h2

/-! ### the invariant -/

structure AgeInv (w : Nat) (x : Aged F) : Prop where
  dg : ∀ (j : Nat) (bytes : List Nat) (T : Nat), x.h.wireAB[j]? = some bytes → x.h.wireT[j]? = some T →
    WireOk (fun d => ∃ i, IsFrag x.h.pend i d ∧ T ≤ i + w) (fun _ => True) bytes
  sy : ∀ (j : Nat) (bytes : List Nat) (T : Nat), x.h.wireAB[j]? = some bytes → x.h.wireT[j]? = some T →
    ∀ nf id, decode bytes = some (.sync nf (some id)) → (T, id) ∈ x.h.syncs
  bl : x.tBA.length = x.h.wireBA.length
  ba : ∀ (j : Nat) (bytes : List Nat) (a : Nat), x.h.wireBA[j]? = some bytes → x.tBA[j]? = some a →
    WireOk (fun _ => True) (fun pb => (a, pb) ∈ x.h.bases) bytes

theorem ageInv_init (ops : FloatOps F) (w : Nat) (cA cB : Config) (nowA nowB : Nat) (rngA rngB : Rng) :
    AgeInv w (aged0 (initP ops cA cB nowA nowB rngA rngB)) where
  dg := by intro j bytes T h; simp [aged0, initP] at h
  sy := by intro j bytes T h; simp [aged0, initP] at h
  bl := rfl
  ba := by intro j bytes a h; simp [aged0, initP] at h

/-- Two parallel lists extended in parallel. -/
theorem par_append {α β : Type} (l1 l2 : List α) (t1 t2 : List β) (hl : t1.length = l1.length) (j : Nat)
    (x : α) (y : β) (h1 : (l1 ++ l2)[j]? = some x) (h2 : (t1 ++ t2)[j]? = some y) :
    (l1[j]? = some x ∧ t1[j]? = some y) ∨ (x ∈ l2 ∧ y ∈ t2) := by
  by_cases hj : j < l1.length
  · rw [List.getElem?_append_left hj] at h1
    rw [List.getElem?_append_left (by omega)] at h2
    exact Or.inl ⟨h1, h2⟩
  · rw [List.getElem?_append_right (by omega)] at h1
    rw [List.getElem?_append_right (by omega)] at h2
    exact Or.inr ⟨List.mem_of_getElem? h1, List.mem_of_getElem? h2⟩

/-- A step that leaves both wires, the stamps, the emission history and `syncs` alone. -/
theorem ageInv_of_same {w : Nat} {x : Aged F} (hA : AgeInv w x) (h' : HcPair F)
    (e1 : h'.wireAB = x.h.wireAB) (e2 : h'.wireT = x.h.wireT) (e3 : h'.pend = x.h.pend)
    (e4 : h'.syncs = x.h.syncs) (e5 : h'.wireBA = x.h.wireBA) (e6 : ∃ b2, h'.bases = x.h.bases ++ b2) :
    AgeInv w ⟨h', x.tBA ++ List.replicate (h'.wireBA.length - x.h.wireBA.length) x.h.advB⟩ := by
  obtain ⟨b2, e6⟩ := e6
  have ht : x.tBA ++ List.replicate (h'.wireBA.length - x.h.wireBA.length) x.h.advB = x.tBA := by
    rw [e5, Nat.sub_self]; simp
  rw [ht]
  refine ⟨?_, ?_, ?_, ?_⟩
  · intro j bytes T h1 h2
    simp only [e1, e2] at h1 h2
    simp only [e3]
    exact hA.dg j bytes T h1 h2
  · intro j bytes T h1 h2
    simp only [e1, e2] at h1 h2
    simp only [e4]
    exact hA.sy j bytes T h1 h2
  · simp only [e5]; exact hA.bl
  · intro j bytes a h1 h2
    simp only [e5] at h1
    simp only [e6]
    exact (hA.ba j bytes a h1 h2).mono (fun _ hx => hx) (fun _ hx => List.mem_append_left _ hx)

/-- **`AgeInv` is kept by every step**, given `Full` (hence `PairInv`, `WinUids`, `FrmInv` and a related
reachable `Sys` state) before and after the step. -/
theorem ageInv_step {w k b a m : Nat} (ops : FloatOps F) (H : SHyp w k b) {x x' : Aged F} {s s' : Sys}
    (hF : Full w k b a m x.h s) (hF' : Full w k b a m x'.h s') (hA : AgeInv w x) (op : POp)
    (hs : stepG ops x op = .ok x') : AgeInv w x' := by
  obtain ⟨hp, ht⟩ := stepG_ok ops hs
  have hx' : x' = ⟨x'.h, x.tBA ++ List.replicate (x'.h.wireBA.length - x.h.wireBA.length) x.h.advB⟩ := by
    cases x'; simp only at ht; rw [ht]
  rw [hx']
  have hi := hF.pi
  cases op with
  | sendA d c mm =>
    simp only [stepP] at hp
    split at hp
    · rw [← Except.ok.inj hp]; exact ageInv_of_same hA _ rfl rfl rfl rfl rfl ⟨[], (List.append_nil _).symm⟩
    · rw [← Except.ok.inj hp]; exact ageInv_of_same hA _ rfl rfl rfl rfl rfl ⟨[], (List.append_nil _).symm⟩
  | stepA now =>
    simp only [stepP] at hp
    cases hf : step ops x.h.A now with
    | error t => rw [hf] at hp; cases hp
    | ok r =>
      rw [hf, bindR_ok] at hp
      rw [← Except.ok.inj hp]; exact ageInv_of_same hA _ rfl rfl rfl rfl rfl ⟨[], (List.append_nil _).symm⟩
  | stepB now =>
    simp only [stepP] at hp
    cases hf : step ops x.h.B now with
    | error t => rw [hf] at hp; cases hp
    | ok r =>
      rw [hf, bindR_ok] at hp
      rw [← Except.ok.inj hp]; exact ageInv_of_same hA _ rfl rfl rfl rfl rfl ⟨[], (List.append_nil _).symm⟩
  | recvB =>
    simp only [stepP] at hp
    cases hf : receive x.h.B with
    | error t => rw [hf] at hp; cases hp
    | ok r =>
      rw [hf, bindR_ok] at hp
      rw [← Except.ok.inj hp]; exact ageInv_of_same hA _ rfl rfl rfl rfl rfl ⟨_, rfl⟩
  | deliverAB kk =>
    simp only [stepP] at hp
    cases hk : x.h.wireAB[kk]? with
    | none =>
      rw [hk] at hp
      rw [← Except.ok.inj hp]; exact ageInv_of_same hA _ rfl rfl rfl rfl rfl ⟨[], (List.append_nil _).symm⟩
    | some bytes =>
      rw [hk] at hp
      simp only [] at hp
      cases hf : dispatch x.h.B (bytes.take MAX_FRAME_SIZE) with
      | error t => rw [hf] at hp; cases hp
      | ok r =>
        rw [hf, bindR_ok] at hp
        rw [← Except.ok.inj hp]; exact ageInv_of_same hA _ rfl rfl rfl rfl rfl ⟨_, rfl⟩
  | deliverBA kk =>
    simp only [stepP] at hp
    cases hk : x.h.wireBA[kk]? with
    | none =>
      rw [hk] at hp
      rw [← Except.ok.inj hp]; exact ageInv_of_same hA _ rfl rfl rfl rfl rfl ⟨[], (List.append_nil _).symm⟩
    | some bytes =>
      rw [hk] at hp
      simp only [] at hp
      cases hf : dispatch x.h.A (bytes.take MAX_FRAME_SIZE) with
      | error t => rw [hf] at hp; cases hp
      | ok r =>
        rw [hf, bindR_ok] at hp
        rw [← Except.ok.inj hp]; exact ageInv_of_same hA _ rfl rfl rfl rfl rfl ⟨[], (List.append_nil _).symm⟩
  | flushB =>
    simp only [stepP] at hp
    cases hf : flush x.h.B with
    | error t => rw [hf] at hp; cases hp
    | ok r =>
      obtain ⟨b', out⟩ := r
      rw [hf, bindR_ok] at hp
      rw [← Except.ok.inj hp]
      obtain ⟨pendB, hpb⟩ := hi.b
      obtain ⟨l, _, _, _, hout⟩ := flush_spec x.h.B b' out hpb hf
      refine ⟨hA.dg, hA.sy, ?_, ?_⟩
      · simp only [List.length_append, List.length_replicate]
        have := hA.bl
        omega
      · intro j bytes a' h1 h2
        simp only [] at h1 h2
        rcases par_append _ _ _ _ hA.bl j bytes a' h1 h2 with ⟨o1, o2⟩ | ⟨n1, n2⟩
        · exact hA.ba j bytes a' o1 o2
        · have ha' : a' = x.h.advB := List.eq_of_mem_replicate n2
          rw [ha']
          exact (hout bytes n1).mono (fun _ _ => trivial) (fun pb hpe => by rw [hpe]; exact hi.cur)
  | flushA =>
    have hwl' : x'.h.A.ps.win.length ≤ w := by
      obtain ⟨hinv', _, _⟩ := reach_invs H hF'.reach
      have h1 := (hinv_win hinv'.snd.hinv (by have := H.hw; omega)).2.1
      have h2 : s'.snd.win.length = x'.h.A.ps.win.length := by rw [hF'.rel.snd]; simp [erase]
      omega
    simp only [stepP] at hp
    cases hf : flush x.h.A with
    | error t => rw [hf] at hp; cases hp
    | ok r =>
      obtain ⟨a', out⟩ := r
      rw [hf, bindR_ok] at hp
      have hp' := Except.ok.inj hp
      rw [← hp'] at hwl' hF'
      rw [← hp']
      have hwl'' : a'.ps.win.length ≤ w := hwl'
      have hL : AInvL (x.h.A.ps.nextUid - x.h.A.ps.win.length) x.h.pend x.h.A.ps := ⟨hi.a, hF.wu, Nat.le_refl _⟩
      obtain ⟨l, hem, haL, _, hout⟩ := flush_specL x.h.A a' out hL hf
      have hnp : newPackets x.h.A.ps a'.ps = l := (hem.newPackets hi.a).2
      obtain ⟨_, hlo⟩ := emits_lo hem hF.wu.1
      have hnu : a'.ps.nextUid = (x.h.pend ++ l).length := haL.a.nuid
      have hsok : ∀ b ∈ out, ∀ nf id, decode b = some (.sync nf (some id)) →
          (((x.h.pend ++ newPackets x.h.A.ps a'.ps).length, id) : Nat × Nat) ∈
            (x'.h.syncs) := by
        intro bb hbb nf id hdec
        obtain ⟨_, e2, e3⟩ := flush_sync_spec x.h.A a' out hi.a hf bb hbb nf id hdec
        rw [← hp']
        have hF'' := hF'
        have hsok := full_syncOk H hF''.pi hF''.cv hF''.wu hF''.rel hF''.reach hF''.gotA e2 e3
        refine List.mem_append_right _ ?_
        split
        · simp only [syncIds, List.mem_filterMap]
          exact ⟨bb, hbb, by rw [hdec]⟩
        · rename_i hneg
          exact absurd hsok hneg
      rw [← hp'] at hsok
      have htwl := hF.fi.twl
      refine ⟨?_, ?_, ?_, ?_⟩
      · intro j bytes T h1 h2
        simp only [] at h1 h2 ⊢
        rcases par_append _ _ _ _ htwl j bytes T h1 h2 with ⟨o1, o2⟩ | ⟨n1, n2⟩
        · exact (hA.dg j bytes T o1 o2).mono
            (fun d ⟨i, hfr, hle⟩ => ⟨i, hfr.mono _, hle⟩) (fun _ hx => hx)
        · have hT : T = (x.h.pend ++ newPackets x.h.A.ps a'.ps).length := List.eq_of_mem_replicate n2
          refine (hout bytes n1).mono ?_ (fun _ _ => trivial)
          rintro d ⟨i, hlo', hfr⟩
          refine ⟨i, by rw [hnp]; exact hfr, ?_⟩
          rw [hT, hnp, ← hnu]
          omega
      · intro j bytes T h1 h2 nf id hdec
        simp only [] at h1 h2 ⊢
        rcases par_append _ _ _ _ htwl j bytes T h1 h2 with ⟨o1, o2⟩ | ⟨n1, n2⟩
        · exact List.mem_append_left _ (hA.sy j bytes T o1 o2 nf id hdec)
        · have hT : T = (x.h.pend ++ newPackets x.h.A.ps a'.ps).length := List.eq_of_mem_replicate n2
          rw [hT]
          exact hsok bytes n1 nf id hdec
      · simp only [Nat.sub_self, List.replicate_zero, List.append_nil]; exact hA.bl
      · intro j bytes a'' h1 h2
        simp only [Nat.sub_self, List.replicate_zero, List.append_nil] at h2
        exact hA.ba j bytes a'' h1 h2

end Uflow.HcAge
