import Uflow.Lemmas.PRecvInv

/-!
Helper lemmas for C06 / C03 (receiver), part 3: `tryAdd`, `clearAsm`, `handleDatagram`,
`setChannelBase`, `tryUnsetChannelBase` preserve the invariant and do not trap.
-/

namespace Uflow.PRecv

open Uflow Uflow.Gen Uflow.Codec

/-- Replacing the assembly entry of an unflagged slot, with the matching change of `alloc`. -/
theorem Inv.setAsm {W M : Nat} {s : State} (h : Inv W M s) (i : Nat) (hi : i < W) (A : Asm)
    (hA : AsmOk A) (hf : (lget s.slots i).dataFlag = false) (alloc' : Nat)
    (ha : alloc' + aAlloc (lget s.slots i).asm = s.alloc + aAlloc A) (hle : alloc' ≤ M)
    (s' : State) (hs' : s' = { setSlot s i { getSlot s i with asm := A } with alloc := alloc' }) :
    Inv W M s' := by
  subst hs'
  have hs := h.sok i
  have hx : SlotOk { getSlot s i with asm := A } :=
    ⟨hs.nodata, fun hc => (by rw [show (getSlot s i).dataFlag = false from hf] at hc; cases hc),
      hs.marker, hA⟩
  exact h.update i hi _ hx _ rfl h.wsz h.mal ha hle h.clen h.rlen
    (fun _ ch' hc => ⟨ch', hc, rfl⟩) h.blt h.elt

/-- A slot whose assembly entry is not `closed` is not flagged. -/
theorem Inv.unflagged {W M : Nat} {s : State} (h : Inv W M s) (i : Nat)
    (hn : ∀ a, (lget s.slots i).asm ≠ .closed a) : (lget s.slots i).dataFlag = false := by
  cases hf : (lget s.slots i).dataFlag with
  | false => rfl
  | true =>
    obtain ⟨_, a, ha, _⟩ := (h.sok i).flagged hf
    exact absurd ha (hn a)

theorem tryAdd_inv {W M : Nat} {s : State} (h : Inv W M s) (i : Nat) (hi : i < W) (d : Datagram)
    (hv : datagramIsValid d = true) :
    ∃ s' o, tryAdd s i d = .ok (s', o) ∧ Inv W M s' ∧
      ∀ p, o = some p → p.channelId = d.channelId ∧ (lget s'.slots i).dataFlag = false ∧
        ∃ a, (lget s'.slots i).asm = .closed a ∧ ∀ dd, p.data = some dd → dd.length ≤ a := by
  obtain ⟨hchan, hfrag, hlen⟩ := valid_facts d hv
  have hok := (h.sok i).asm
  unfold tryAdd
  simp only
  cases hasm : (getSlot s i).asm with
  | opened =>
    have hasm' : (lget s.slots i).asm = .opened := hasm
    have hf : (lget s.slots i).dataFlag = false := h.unflagged i (by rw [hasm']; intro a hc; cases hc)
    simp only
    split
    · -- over the limit: closed with no allocation, no data
      refine ⟨_, _, rfl, ?_, ?_⟩
      · exact h.setAsm i hi (.closed 0) trivial hf s.alloc (by rw [hasm']; rfl) h.ale _ rfl
      · intro p hp
        cases hp
        refine ⟨rfl, ?_, 0, ?_, ?_⟩
        · rw [setSlot_slots, lget_lset_same]; exact hf
        · rw [setSlot_slots, lget_lset_same]
        · intro dd hdd; cases hdd
    · rename_i hle
      have hle' : s.alloc + packetAllocSize d ≤ M := by have := h.mal; omega
      split
      · -- single fragment
        rename_i hlast
        have hpa : packetAllocSize d = d.data.length := by simp [packetAllocSize, hlast]
        refine ⟨_, _, rfl, ?_, ?_⟩
        · exact h.setAsm i hi (.closed (packetAllocSize d)) trivial hf _ (by rw [hasm']; rfl) hle' _ rfl
        · intro p hp
          cases hp
          refine ⟨rfl, ?_, packetAllocSize d, ?_, ?_⟩
          · show (lget (lset s.slots i _) i).dataFlag = false
            rw [lget_lset_same]; exact hf
          · show (lget (lset s.slots i _) i).asm = _
            rw [lget_lset_same]
          · intro dd hdd; cases hdd; omega
      · -- first fragment of several
        rename_i hlast
        have hpa : packetAllocSize d = (d.fragmentIdLast + 1) * MAX_FRAGMENT_SIZE := by
          simp only [packetAllocSize]; rw [if_pos (by omega)]
        obtain ⟨b', hw, hn', ht', hr'⟩ := write_ok (FragBuf.new (d.fragmentIdLast + 1)) d.fragmentIdLast
          d.fragmentId d.data rfl hfrag hlen (Nat.succ_pos _) (by simp [FragBuf.new])
        rw [hw]
        simp only
        refine ⟨_, _, rfl, ?_, ?_⟩
        · refine h.setAsm i hi _ ?_ hf _ (by rw [hasm']; rfl) hle' _ rfl
          refine ⟨hpa, hn', ?_, ht'⟩
          rcases hr' with hr' | hr'
          · rw [hr']; exact Nat.succ_pos _
          · have : (FragBuf.new (d.fragmentIdLast + 1)).remaining = d.fragmentIdLast + 1 := rfl
            omega
        · intro p hp; cases hp
  | closed a =>
    simp only
    exact ⟨s, none, rfl, h, fun p hp => by cases hp⟩
  | active a chan wpl cpl last buf =>
    have hasm' : (lget s.slots i).asm = .active a chan wpl cpl last buf := hasm
    have hf : (lget s.slots i).dataFlag = false := h.unflagged i (by rw [hasm']; intro a hc; cases hc)
    rw [hasm'] at hok
    obtain ⟨ha, hn, hr, ht⟩ := hok
    simp only
    split
    · exact ⟨s, none, rfl, h, fun p hp => by cases hp⟩
    · rename_i hm
      have hl : d.fragmentIdLast = last := by
        apply Classical.byContradiction; intro hc; exact hm (Or.inr (Or.inr (Or.inr hc)))
      obtain ⟨b', hw, hn', ht', hr'⟩ := write_ok buf last d.fragmentId d.data hn (by omega) hlen hr ht
      rw [hw]
      simp only
      split
      · rename_i hz
        refine ⟨_, _, rfl, ?_, ?_⟩
        · exact h.setAsm i hi (.closed a) trivial hf s.alloc (by rw [hasm']; rfl) h.ale _ rfl
        · intro p hp
          cases hp
          refine ⟨rfl, ?_, a, ?_, ?_⟩
          · rw [setSlot_slots, lget_lset_same]; exact hf
          · rw [setSlot_slots, lget_lset_same]
          · intro dd hdd
            cases hdd
            have := finalize_length_le b'
            omega
      · rename_i hz
        refine ⟨_, _, rfl, ?_, fun p hp => by cases hp⟩
        refine h.setAsm i hi _ ?_ hf s.alloc (by rw [hasm']; rfl) h.ale _ rfl
        exact ⟨ha, hn', by omega, ht'⟩

theorem clearAsm_inv {W M : Nat} {s : State} (h : Inv W M s) (i : Nat) (hi : i < W)
    (hf : (lget s.slots i).dataFlag = false) :
    ∃ s', clearAsm s i = .ok s' ∧ Inv W M s' ∧
      ∀ j, (lget s'.slots j).dataFlag = (lget s.slots j).dataFlag := by
  have hge := lsum_ge fAlloc fAlloc_default s.slots i h.nodup
  rw [← h.aeq] at hge
  have hflag : ∀ (A : Asm) (a' : Nat) (j : Nat),
      (lget ({ setSlot s i { getSlot s i with asm := A } with alloc := a' } : State).slots j).dataFlag
        = (lget s.slots j).dataFlag := by
    intro A a' j
    show (lget (lset s.slots i _) j).dataFlag = _
    rw [lget_lset]
    split
    · rename_i hj; subst hj; rfl
    · rfl
  unfold clearAsm
  simp only
  cases hasm : (getSlot s i).asm with
  | opened => exact ⟨s, rfl, h, fun _ => rfl⟩
  | closed a =>
    have hasm' : (lget s.slots i).asm = .closed a := hasm
    have : a ≤ s.alloc := by simpa [fAlloc, hasm', aAlloc] using hge
    simp only
    rw [if_neg (by omega)]
    refine ⟨_, rfl, ?_, hflag _ _⟩
    exact h.setAsm i hi .opened trivial hf (s.alloc - a) (by rw [hasm']; simp only [aAlloc]; omega)
      (by have := h.ale; omega) _ rfl
  | active a chan wpl cpl last buf =>
    have hasm' : (lget s.slots i).asm = .active a chan wpl cpl last buf := hasm
    have : a ≤ s.alloc := by simpa [fAlloc, hasm', aAlloc] using hge
    simp only
    rw [if_neg (by omega)]
    refine ⟨_, rfl, ?_, hflag _ _⟩
    exact h.setAsm i hi .opened trivial hf (s.alloc - a) (by rw [hasm']; simp only [aAlloc]; omega)
      (by have := h.ale; omega) _ rfl

theorem chanBase_ok {W M : Nat} {s : State} (h : Inv W M s) (c : Nat) (hc : c < CHANNEL_COUNT)
    (base : Nat) : ∃ cb, chanBase s c base = .ok cb := by
  obtain ⟨ch, hch⟩ := h.chan_get c hc
  exact ⟨ch.base.getD base, by simp only [chanBase, hch]⟩

theorem pidAdd_lt (a b : Nat) : pidAdd a b < 2^20 := by
  simp only [pidAdd, PACKET_ID_SPAN]; omega

/-! ### channel base markers -/

def scbStep1 (s : State) (ch : Chan) : State :=
  match ch.base with
  | some b => setSlot s (widx s b) { getSlot s (widx s b) with marker := none }
  | none => s

def scbStep2 (s : State) (c newId : Nat) : State :=
  setSlot s (widx s newId) { getSlot s (widx s newId) with marker := some c }

theorem setChannelBase_eq (s : State) (c newId : Nat) : setChannelBase s c newId =
    match s.chans[c]? with
    | none => .error .index
    | some ch => .ok { scbStep2 (scbStep1 s ch) c newId with
        chans := (scbStep2 (scbStep1 s ch) c newId).chans.set c { ch with base := some newId } } := rfl

theorem scbStep1_inv {W M : Nat} {s : State} (h : Inv W M s) (ch : Chan) :
    Inv W M (scbStep1 s ch) ∧ (scbStep1 s ch).chans = s.chans := by
  unfold scbStep1
  cases ch.base with
  | none => exact ⟨h, rfl⟩
  | some b =>
    refine ⟨?_, rfl⟩
    have hi : widx s b < W := by rw [widx_eq h]; exact wi_lt h.wpos _
    exact h.setMarker _ hi none (fun _ hc => by cases hc)

theorem setChannelBase_inv {W M : Nat} {s : State} (h : Inv W M s) (c : Nat) (hc : c < CHANNEL_COUNT)
    (newId : Nat) : ∃ s', setChannelBase s c newId = .ok s' ∧ Inv W M s' := by
  rw [setChannelBase_eq]
  obtain ⟨ch, hch⟩ := h.chan_get c hc
  rw [hch]
  refine ⟨_, rfl, ?_⟩
  obtain ⟨h1, hc1⟩ := scbStep1_inv h ch
  have hi : widx (scbStep1 s ch) newId < W := by rw [widx_eq h1]; exact wi_lt h.wpos _
  have h2 : Inv W M (scbStep2 (scbStep1 s ch) c newId) :=
    h1.setMarker _ hi (some c) (fun c' hc' => by cases hc'; exact hc)
  exact h2.setChanBase c ch (by show (scbStep1 s ch).chans[c]? = some ch; rw [hc1]; exact hch) _

theorem tryUnsetChannelBase_inv {W M : Nat} {s : State} (h : Inv W M s) (seq : Nat) :
    ∃ s', tryUnsetChannelBase s seq = .ok s' ∧ Inv W M s' ∧
      ∀ j, (lget s'.slots j).dataFlag = (lget s.slots j).dataFlag := by
  have hi : widx s seq < W := by rw [widx_eq h]; exact wi_lt h.wpos _
  unfold tryUnsetChannelBase
  simp only
  cases hm : (getSlot s (widx s seq)).marker with
  | none => exact ⟨s, rfl, h, fun _ => rfl⟩
  | some c =>
    simp only
    have hc : c < CHANNEL_COUNT := (h.sok (widx s seq)).marker c hm
    have h1 : Inv W M (setSlot s (widx s seq) { getSlot s (widx s seq) with marker := none }) :=
      h.setMarker _ hi none (fun _ hc => by cases hc)
    obtain ⟨ch, hch⟩ := h1.chan_get c hc
    rw [hch]
    refine ⟨_, rfl, h1.setChanBase c ch hch none, ?_⟩
    intro j
    show (lget (lset s.slots _ _) j).dataFlag = _
    rw [lget_lset]
    split
    · rename_i hj; subst hj; rfl
    · rfl

/-! ### `handleDatagram` -/

def stepEnd (d : Datagram) (s : State) : State :=
  if pidSub d.sequenceId s.endId < s.windowSize then { s with endId := pidAdd d.sequenceId 1 } else s
def stepCnt (d : Datagram) (s : State) : State :=
  { s with chans := s.chans.modify d.channelId fun ch => { ch with count := ch.count + 1 } }
def stepRdy (d : Datagram) (p : Packet) (cb : Nat) (s : State) : State :=
  if p.channelParentLead = 0 ∨ p.channelParentLead > pidSub d.sequenceId cb
  then { s with readyFlags := s.readyFlags.set d.channelId true } else s
def stepWr (d : Datagram) (p : Packet) (base : Nat) (s : State) : State :=
  if p.windowParentLead = 0 ∨ p.windowParentLead > pidSub d.sequenceId base
  then { s with windowReady := true } else s

/-- The state `handle_datagram` builds once `try_add` has handed over packet `p`. -/
def hdPost (s1 : State) (i : Nat) (d : Datagram) (p : Packet) (cb base : Nat) : State :=
  stepWr d p base (stepRdy d p cb (stepCnt d (stepEnd d
    (setSlot s1 i { getSlot s1 i with
        chan := p.channelId, cpl := p.channelParentLead, wpl := p.windowParentLead, data := p.data,
        entryFlag := true, dataFlag := true }))))

theorem handleDatagram_eq (s : State) (d : Datagram) : handleDatagram s d =
    if ¬ datagramIsValid d then .ok s else
    match chanBase s d.channelId s.baseId with
    | .error t => .error t
    | .ok cb =>
      if pidSub d.sequenceId s.baseId ≥ s.windowSize then .ok s else
      if pidSub d.sequenceId s.baseId < pidSub cb s.baseId then .ok s else
      match tryAdd s (widx s d.sequenceId) d with
      | .error t => .error t
      | .ok (s1, none) => .ok s1
      | .ok (s1, some p) => .ok (hdPost s1 (widx s d.sequenceId) d p cb s.baseId) := rfl

theorem stepWr_inv {W M : Nat} {s : State} (h : Inv W M s) (d : Datagram) (p : Packet) (base : Nat) :
    Inv W M (stepWr d p base s) := by
  unfold stepWr; split
  · exact h.setWindowReady true
  · exact h

theorem stepRdy_inv {W M : Nat} {s : State} (h : Inv W M s) (d : Datagram) (p : Packet) (cb : Nat) :
    Inv W M (stepRdy d p cb s) := by
  unfold stepRdy; split
  · exact h.setReady _ (by simp [h.rlen])
  · exact h

theorem handleDatagram_inv {W M : Nat} {s : State} (h : Inv W M s) (d : Datagram) :
    ∃ s', handleDatagram s d = .ok s' ∧ Inv W M s' := by
  rw [handleDatagram_eq]
  by_cases hv : datagramIsValid d = true
  case neg => rw [if_pos (by simpa using hv)]; exact ⟨s, rfl, h⟩
  rw [if_neg (by simp [hv])]
  obtain ⟨hchan, -, -⟩ := valid_facts d hv
  obtain ⟨cb, hcb⟩ := chanBase_ok h d.channelId hchan s.baseId
  rw [hcb]
  simp only
  split
  · exact ⟨s, rfl, h⟩
  split
  · exact ⟨s, rfl, h⟩
  have hi : widx s d.sequenceId < W := by rw [widx_eq h]; exact wi_lt h.wpos _
  obtain ⟨s1, o, ht, h1, ho⟩ := tryAdd_inv h (widx s d.sequenceId) hi d hv
  rw [ht]
  cases o with
  | none => exact ⟨s1, rfl, h1⟩
  | some p =>
    obtain ⟨hpc, hf, a, hasm, hdata⟩ := ho p rfl
    refine ⟨_, rfl, ?_⟩
    unfold hdPost
    apply stepWr_inv
    apply stepRdy_inv
    generalize hi' : widx s d.sequenceId = i at *
    have hs1 := h1.sok i
    have hx : SlotOk { getSlot s1 i with
        chan := p.channelId, cpl := p.channelParentLead, wpl := p.windowParentLead, data := p.data,
        entryFlag := true, dataFlag := true } :=
      ⟨fun hc => (by cases hc), fun _ => ⟨(by rw [hpc]; exact hchan), a, hasm, hdata⟩, hs1.marker, hs1.asm⟩
    have hcnt : ∀ (c : Nat) (ch' : Chan),
        (s1.chans.modify d.channelId fun ch => { ch with count := ch.count + 1 })[c]? = some ch' →
        ∃ ch : Chan, s1.chans[c]? = some ch ∧ ch'.count + fCnt c (lget s1.slots i) = ch.count +
          fCnt c { getSlot s1 i with
            chan := p.channelId, cpl := p.channelParentLead, wpl := p.windowParentLead, data := p.data,
            entryFlag := true, dataFlag := true } := by
      intro c ch' hc'
      rw [List.getElem?_modify] at hc'
      cases hg : s1.chans[c]? with
      | none => rw [hg] at hc'; cases hc'
      | some ch =>
        rw [hg] at hc'
        refine ⟨ch, rfl, ?_⟩
        have h0 : fCnt c (lget s1.slots i) = 0 := by simp [fCnt, hf]
        rw [h0]
        simp only [Option.map_eq_map, Option.map_some, Option.some.injEq] at hc'
        subst hc'
        by_cases hcc : d.channelId = c
        · simp [fCnt, hcc, hpc]
        · simp [fCnt, hcc, hpc]
    unfold stepEnd
    split
    · exact h1.update i hi _ hx _ rfl h1.wsz h1.mal rfl h1.ale (by show (List.modify _ _ _).length = _; rw [List.length_modify]; exact h1.clen) h1.rlen
        hcnt h1.blt (pidAdd_lt _ _)
    · exact h1.update i hi _ hx _ rfl h1.wsz h1.mal rfl h1.ale (by show (List.modify _ _ _).length = _; rw [List.length_modify]; exact h1.clen) h1.rlen
        hcnt h1.blt h1.elt

end Uflow.PRecv
