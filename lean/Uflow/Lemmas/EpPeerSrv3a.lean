import Uflow.Lemmas.EpPeerSrv2c
import Uflow.Lemmas.EpPeerConn2c

/-!
C09, the peer endpoint's part (server model), per-address call trace: the relation `OT` on the half connection
of the entry of one address (if it is `active`), and `AT`, its server-level form.
-/

namespace Uflow.Endpoint

open Uflow.Gen Uflow.Codec Uflow.HalfConn

variable {H : Type}

/-- The half connection of the entry of `a`, if that entry is `active`. -/
def Server.hcAt (s : Server H) (a : Nat) : Option H :=
  match s.find a with
  | some c => (match c.state with
    | .active h _ _ => some h
    | _ => none)
  | none => none

theorem Server.hcAt_of_find {s s' : Server H} {a : Nat} (h : s'.find a = s.find a) : s'.hcAt a = s.hcAt a := by
  unfold Server.hcAt; rw [h]

theorem Server.hcAt_active {s : Server H} {a : Nat} {c : RClient H} {hh : H} {t : Nat} {sig : Option DisconnectMode}
    (hf : s.find a = some c) (hst : c.state = .active hh t sig) : s.hcAt a = some hh := by
  unfold Server.hcAt; rw [hf]; simp only [hst]

theorem Server.hcAt_some {s : Server H} {a : Nat} {hh : H} (h : s.hcAt a = some hh) :
    ∃ c t sig, s.find a = some c ∧ c.state = .active hh t sig := by
  unfold Server.hcAt at h
  split at h
  · next c hf =>
    split at h
    · next h0 t sig hst => cases h; exact ⟨c, t, sig, hf, hst⟩
    · cases h
  · cases h

theorem Server.hcAt_none_of_DSub {s s' : Server H} {a : Nat} (d : DSub s s') (h : s.hcAt a = none) : s'.hcAt a = none := by
  cases h' : s'.hcAt a with
  | none => rfl
  | some hh =>
    obtain ⟨c', t, sig, hf, hst⟩ := Server.hcAt_some h'
    obtain ⟨c, h0, sig0, hf0, hst0⟩ := d.2 a c' hh t sig hf hst
    rw [Server.hcAt_active hf0 hst0] at h; cases h

/-- The payloads of the `receive a` events, in order. -/
def recvAt (a : Nat) (evs : List SEvent) : List (List Nat) :=
  (evsOf a evs).filterMap fun | .receive _ d => some d | _ => none

theorem recvAt_append (a : Nat) (x y : List SEvent) : recvAt a (x ++ y) = recvAt a x ++ recvAt a y := by
  unfold recvAt; rw [evsOf_append, List.filterMap_append]

theorem recvAt_of_quiet {a : Nat} {evs : List SEvent} (h : evsOf a evs = []) : recvAt a evs = [] := by
  unfold recvAt; rw [h]; rfl

theorem recvAt_map (a : Nat) (pkts : List (List Nat)) : recvAt a (pkts.map (SEvent.receive a)) = pkts := by
  unfold recvAt
  rw [evsOf_all (by intro e he; simp only [List.mem_map] at he; obtain ⟨_, _, rfl⟩ := he; rfl)]
  induction pkts with
  | nil => rfl
  | cons x xs ih => simp only [List.map_cons, List.filterMap_cons]; rw [ih]

theorem recvAt_all_other {a b : Nat} {evs : List SEvent} (hall : ∀ e ∈ evs, e.addr = b) (hab : a ≠ b) : recvAt a evs = [] :=
  recvAt_of_quiet (evsOf_none hall hab)

theorem recvAt_single_nonrecv (a : Nat) (e : SEvent) (h : ∀ b d, e ≠ .receive b d) : recvAt a [e] = [] := by
  unfold recvAt evsOf
  cases e with
  | receive b d => exact absurd rfl (h b d)
  | connect b => by_cases hb : b = a <;> simp [SEvent.addr, hb]
  | disconnect b => by_cases hb : b = a <;> simp [SEvent.addr, hb]
  | error b x => by_cases hb : b = a <;> simp [SEvent.addr, hb]

/-- Trace relation on the (optional) half connection of one entry: packets `pk` reported, calls `cs`, traffic
frames offered `fr`, sends offered `sd`. -/
structure OT (hc : HC H) (o o' : Option H) (pk : List (List Nat)) (cs : List HCall) (fr : List Frame)
    (sd : List SendRec) : Prop where
  act : ∀ h, o = some h → ∃ hf, replay hc h cs = .ok (hf, pk) ∧ dispatched cs <+: fr ∧ sendsOf cs <+: sd ∧
    ∀ h', o' = some h' → h' = hf ∧ dispatched cs = fr ∧ sendsOf cs = sd
  off : o = none → cs = [] ∧ pk = [] ∧ o' = none

theorem OT.refl (hc : HC H) (o : Option H) : OT hc o o [] [] [] [] :=
  ⟨fun h _ => ⟨h, rfl, List.prefix_refl _, List.prefix_refl _, fun h' e' => by
      rename_i e; rw [e] at e'; cases e'; exact ⟨rfl, rfl, rfl⟩⟩,
   fun e => ⟨rfl, rfl, e⟩⟩

theorem OT.trans {hc : HC H} {o o1 o2 : Option H} {p1 p2 : List (List Nat)} {cs1 cs2 : List HCall}
    {fr1 fr2 : List Frame} {sd1 sd2 : List SendRec}
    (a : OT hc o o1 p1 cs1 fr1 sd1) (b : OT hc o1 o2 p2 cs2 fr2 sd2) :
    OT hc o o2 (p1 ++ p2) (cs1 ++ cs2) (fr1 ++ fr2) (sd1 ++ sd2) := by
  refine ⟨fun h hh => ?_, fun hn => ?_⟩
  · obtain ⟨hf, r1, d1, s1, e1⟩ := a.act h hh
    cases hm : o1 with
    | some hm1 =>
      obtain ⟨rfl, dd1, ss1⟩ := e1 hm1 hm
      obtain ⟨hf2, r2, d2, s2, e2⟩ := b.act hm1 hm
      refine ⟨hf2, replay_append hc cs1 cs2 h hm1 hf2 _ _ r1 r2, ?_, ?_, fun h' hh' => ?_⟩
      · rw [dispatched_append, dd1]; exact (List.prefix_append_right_inj fr1).mpr d2
      · rw [sendsOf_append, ss1]; exact (List.prefix_append_right_inj sd1).mpr s2
      · obtain ⟨x1, x2, x3⟩ := e2 h' hh'
        exact ⟨x1, by rw [dispatched_append, dd1, x2], by rw [sendsOf_append, ss1, x3]⟩
    | none =>
      obtain ⟨rfl, rfl, q3⟩ := b.off hm
      refine ⟨hf, by simpa using r1, ?_, ?_, fun h' hh' => ?_⟩
      · rw [List.append_nil]; exact d1.trans (List.prefix_append fr1 fr2)
      · rw [List.append_nil]; exact s1.trans (List.prefix_append sd1 sd2)
      · rw [q3] at hh'; cases hh'
  · obtain ⟨rfl, rfl, q3⟩ := a.off hn
    obtain ⟨rfl, rfl, q3'⟩ := b.off q3
    exact ⟨rfl, rfl, q3'⟩

/-- From "no half connection" to "no half connection", nothing reported. -/
theorem OT.idle (hc : HC H) {o' : Option H} (fr : List Frame) (sd : List SendRec) (h : o' = none) : OT hc none o' [] [] fr sd :=
  ⟨fun _ e => (by cases e), fun _ => ⟨rfl, rfl, h⟩⟩

/-- From an existing half connection, given explicitly. -/
theorem OT.ofSome (hc : HC H) {h : H} {o' : Option H} {pk : List (List Nat)} {cs : List HCall} (hf : H)
    (hr : replay hc h cs = .ok (hf, pk)) (he : o' = none ∨ o' = some hf) :
    OT hc (some h) o' pk cs (dispatched cs) (sendsOf cs) :=
  ⟨fun h0 e => by
      cases e
      refine ⟨hf, hr, List.prefix_refl _, List.prefix_refl _, fun h' e' => ?_⟩
      rcases he with he | he <;> rw [he] at e' <;> cases e'
      exact ⟨rfl, rfl, rfl⟩,
   fun e => by cases e⟩

/-- Server-level form, for address `a`: `s'` is well-formed, the buffer grew by `evs`, and either a new
`connect a` was emitted or the trace relation holds for the entry of `a`. -/
def AT (hc : HC H) (a : Nat) (s s' : Server H) (cs : List HCall) (fr : List Frame) (sd : List SendRec) : Prop :=
  s'.WF ∧ ∃ evs, s'.eventsOut = s.eventsOut ++ evs ∧
    (SEvent.connect a ∈ evs ∨ OT hc (s.hcAt a) (s'.hcAt a) (recvAt a evs) cs fr sd)

theorem AT.refl (hc : HC H) (a : Nat) {s : Server H} (hw : s.WF) : AT hc a s s [] [] [] :=
  ⟨hw, [], by simp, Or.inr (OT.refl hc _)⟩

theorem AT.trans {hc : HC H} {a : Nat} {s s1 s2 : Server H} {cs1 cs2 : List HCall} {fr1 fr2 : List Frame}
    {sd1 sd2 : List SendRec} (x : AT hc a s s1 cs1 fr1 sd1) (y : AT hc a s1 s2 cs2 fr2 sd2) :
    AT hc a s s2 (cs1 ++ cs2) (fr1 ++ fr2) (sd1 ++ sd2) := by
  obtain ⟨-, e1, h1, c1⟩ := x
  obtain ⟨w2, e2, h2, c2⟩ := y
  refine ⟨w2, e1 ++ e2, by rw [h2, h1, List.append_assoc], ?_⟩
  rcases c1 with c1 | c1
  · exact Or.inl (List.mem_append_left _ c1)
  · rcases c2 with c2 | c2
    · exact Or.inl (List.mem_append_right _ c2)
    · exact Or.inr (by rw [recvAt_append]; exact c1.trans c2)

/-- Nothing about `a`, entry of `a` untouched. -/
theorem AT.same (hc : HC H) {a : Nat} {s s' : Server H} (hw : s'.WF) (q : QuietAt a s s') (hf : s'.find a = s.find a) :
    AT hc a s s' [] [] [] := by
  obtain ⟨evs, e, qe⟩ := q
  refine ⟨hw, evs, e, Or.inr ?_⟩
  rw [recvAt_of_quiet qe, Server.hcAt_of_find hf]; exact OT.refl hc _

/-- The entry of `a` has no half connection before or after, no `receive a` reported. -/
theorem AT.noHc (hc : HC H) {a : Nat} {s s' : Server H} (fr : List Frame) (sd : List SendRec) (hw : s'.WF)
    (evs : List SEvent) (e : s'.eventsOut = s.eventsOut ++ evs) (hr : recvAt a evs = [])
    (h0 : s.hcAt a = none) (h1 : s'.hcAt a = none) : AT hc a s s' [] fr sd := by
  refine ⟨hw, evs, e, Or.inr ?_⟩
  rw [hr, h0]; exact OT.idle hc fr sd h1

/-- Widening the offered frames / sends when no half connection exists. -/
theorem AT.widen {hc : HC H} {a : Nat} {s s' : Server H} (fr : List Frame) (sd : List SendRec)
    (x : AT hc a s s' [] [] []) (h0 : s.hcAt a = none) : AT hc a s s' [] fr sd := by
  obtain ⟨w, evs, e, c⟩ := x
  refine ⟨w, evs, e, c.imp id fun t => ?_⟩
  obtain ⟨-, q2, q3⟩ := t.off h0
  rw [q2, h0]; exact OT.idle hc fr sd q3

end Uflow.Endpoint
