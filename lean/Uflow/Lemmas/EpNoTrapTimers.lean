import Uflow.Lemmas.EpNoTrapHeap
import Uflow.Lemmas.EpNoTrapSrv

/-!
C03 (server): the fuel `timers.size * 12 + 16` of `Server.runTimers` is never the reason the loop
stops: the loop of `handle_events` pops every due timer, and every timer it pushes is due strictly
later than `nowMs`.
-/

namespace Uflow.EpNoTrap

open Uflow Uflow.Gen Uflow.Codec Uflow.HalfConn Uflow.Endpoint

variable {H : Type}

/-- The heap order is a `HeapPred`. -/
theorem heapPred_THeap : HeapPred THeap := ⟨tHeap_empty, tHeap_push, tHeap_pop⟩

/-- Number of timers due at `nowMs`. -/
def due (nowMs : Nat) (h : Array Timer) : Nat := (h.toList.filter fun t => decide (t.time ≤ nowMs)).length

theorem due_le_size (nowMs : Nat) (h : Array Timer) : due nowMs h ≤ h.size := by
  unfold due
  have := List.length_filter_le (fun t : Timer => decide (t.time ≤ nowMs)) h.toList
  simpa using this

theorem due_zero {nowMs : Nat} {h : Array Timer} (hd : due nowMs h = 0) : ∀ t ∈ h.toList, nowMs < t.time := by
  intro t ht
  unfold due at hd
  have h0 := List.eq_nil_of_length_eq_zero hd
  have : t ∉ h.toList.filter fun t => decide (t.time ≤ nowMs) := by rw [h0]; exact List.not_mem_nil
  rw [List.mem_filter] at this
  simp only [decide_eq_true_eq, not_and, Nat.not_le] at this
  exact this ht

theorem due_pop {nowMs : Nat} {h h' : Array Timer} {t : Timer} (hp : tPop h = some (t, h'))
    (ht : t.time ≤ nowMs) : due nowMs h = due nowMs h' + 1 := by
  unfold due
  have := ((tPop_perm h h' t hp).filter fun t => decide (t.time ≤ nowMs)).length_eq
  rw [this, List.filter_cons_of_pos (by simpa using ht)]
  rfl

theorem due_push {nowMs : Nat} (h : Array Timer) {e : Timer} (he : nowMs < e.time) :
    due nowMs (tPush h e) = due nowMs h := by
  unfold due
  have := ((tPush_perm h e).filter fun t => decide (t.time ≤ nowMs)).length_eq
  rw [this, List.filter_cons_of_neg (by simpa using he)]

/-- `handle_event` leaves the heap alone or pushes one timer due strictly after `nowMs`. -/
theorem handleTimer_timers (s : Server H) (t : Timer) (nowMs : Nat) :
    (s.handleTimer t nowMs).1.timers = s.timers ∨
    ∃ e, nowMs < e.time ∧ (s.handleTimer t nowMs).1.timers = tPush s.timers e := by
  unfold Server.handleTimer
  split
  · exact Or.inl rfl
  · rename_i c hb
    split
    · split
      · split
        · exact Or.inr ⟨_, Nat.lt_add_of_pos_right (by decide), rfl⟩
        · exact Or.inl (finish_timers _ _)
      · exact Or.inl rfl
    · split
      · split
        · exact Or.inr ⟨_, Nat.lt_add_of_pos_right (by decide), rfl⟩
        · exact Or.inl (finish_timers _ _)
      · exact Or.inl rfl
    · split
      · exact Or.inl (finish_timers _ _)
      · exact Or.inl rfl
    · exact Or.inl rfl

theorem getElem?_zero_mem {h : Array Timer} {top : Timer} (h0 : h[0]? = some top) : top ∈ h.toList := by
  have := Array.mem_of_getElem? h0
  exact Array.mem_def.1 this

/-- With enough fuel the loop stops only when no due timer is left, and keeps the heap order. -/
theorem runTimers_complete (nowMs : Nat) (fuel : Nat) : ∀ (s : Server H) (sent : List (Nat × List Nat)),
    THeap s.timers → due nowMs s.timers ≤ fuel →
    THeap (Server.runTimers fuel s nowMs sent).1.timers ∧
    ∀ t ∈ (Server.runTimers fuel s nowMs sent).1.timers.toList, nowMs < t.time := by
  induction fuel with
  | zero =>
    intro s sent hh hd
    exact ⟨hh, due_zero (Nat.le_zero.1 hd)⟩
  | succ fuel ih =>
    intro s sent hh hd
    rw [Server.runTimers]
    split
    · rename_i h0
      refine ⟨hh, ?_⟩
      intro t ht
      have hs : s.timers.size = 0 := by
        rcases Nat.eq_zero_or_pos s.timers.size with h | h
        · exact h
        · rw [Array.getElem?_eq_getElem h] at h0; cases h0
      have : s.timers.toList = [] := List.eq_nil_of_length_eq_zero (by simpa using hs)
      rw [this] at ht; cases ht
    · rename_i top h0
      split
      · rename_i hgt
        refine ⟨hh, ?_⟩
        intro t ht
        exact Nat.lt_of_lt_of_le hgt (tHeap_root_le _ top hh h0 t ht)
      · rename_i hle
        split
        · rename_i hp
          have := tPop_none _ hp
          refine ⟨hh, ?_⟩
          intro t ht
          rw [this] at ht; cases ht
        · rename_i t h hp
          have htop : t = top := by
            have := tPop_root _ _ _ hp
            rw [h0] at this; cases this; rfl
          have htle : t.time ≤ nowMs := by rw [htop]; exact Nat.le_of_not_gt hle
          have hd1 := due_pop hp htle
          have hh1 : THeap h := tHeap_pop _ _ _ hh hp
          have hx := handleTimer_timers ({ s with timers := h } : Server H) t nowMs
          generalize ({ s with timers := h } : Server H).handleTimer t nowMs = r at hx ⊢
          obtain ⟨s', out⟩ := r
          simp only at hx ⊢
          rcases hx with he | ⟨e, het, he⟩
          · refine ih s' _ (by rw [he]; exact hh1) ?_
            rw [he]; omega
          · refine ih s' _ (by rw [he]; exact tHeap_push _ _ hh1) ?_
            rw [he, due_push _ het]; omega

/-- The result does not depend on the fuel, once it covers the timers due: the bounded loop of the
model is the unbounded `while` loop of `handle_events`. (No heap order needed.) -/
theorem runTimers_fuel_irrelevant (nowMs : Nat) (fuel : Nat) : ∀ (fuel' : Nat) (s : Server H)
    (sent : List (Nat × List Nat)), due nowMs s.timers ≤ fuel → due nowMs s.timers ≤ fuel' →
    Server.runTimers fuel s nowMs sent = Server.runTimers fuel' s nowMs sent := by
  have hzero : ∀ (f : Nat) (s : Server H) (sent : List (Nat × List Nat)), due nowMs s.timers = 0 →
      Server.runTimers f s nowMs sent = (s, sent) := by
    intro f s sent hd
    cases f with
    | zero => rfl
    | succ f =>
      rw [Server.runTimers]
      split
      · rfl
      · rename_i top h0
        rw [if_pos (due_zero hd top (getElem?_zero_mem h0))]
  induction fuel with
  | zero =>
    intro fuel' s sent hd _
    rw [hzero fuel' s sent (Nat.le_zero.1 hd)]
    rfl
  | succ fuel ih =>
    intro fuel' s sent hd hd'
    cases fuel' with
    | zero =>
      rw [hzero (fuel + 1) s sent (Nat.le_zero.1 hd')]
      rfl
    | succ fuel' =>
      rw [Server.runTimers, Server.runTimers]
      split
      · rfl
      · rename_i top h0
        split
        · rfl
        · rename_i hle
          split
          · rfl
          · rename_i t h hp
            have htop : t = top := by
              have := tPop_root _ _ _ hp
              rw [h0] at this; cases this; rfl
            have htle : t.time ≤ nowMs := by rw [htop]; exact Nat.le_of_not_gt hle
            have hd1 := due_pop hp htle
            have hx := handleTimer_timers ({ s with timers := h } : Server H) t nowMs
            generalize ({ s with timers := h } : Server H).handleTimer t nowMs = r at hx ⊢
            obtain ⟨s', out⟩ := r
            simp only at hx ⊢
            rcases hx with he | ⟨e, het, he⟩
            · refine ih fuel' s' _ ?_ ?_ <;> (rw [he]; omega)
            · refine ih fuel' s' _ ?_ ?_ <;> (rw [he, due_push _ het]; omega)

/-- The fuel used by `Server.step` covers the timers due. -/
theorem due_le_stepFuel (nowMs : Nat) (h : Array Timer) : due nowMs h ≤ h.size * 12 + 16 := by
  have := due_le_size nowMs h
  omega

/-! ### after a whole `step` no timer is due -/

/-- Every timer is due strictly after `nowMs`. -/
def Later (nowMs : Nat) (h : Array Timer) : Prop := ∀ t ∈ h.toList, nowMs < t.time

theorem Later.push {nowMs : Nat} {h : Array Timer} (hl : Later nowMs h) {e : Timer} (he : nowMs < e.time) :
    Later nowMs (tPush h e) := by
  intro t ht
  rcases (mem_tPush h e t).1 ht with rfl | ht
  · exact he
  · exact hl t ht

theorem activeTimeouts_timers (hc : HC H) (s s' : Server H) (nowMs : Nat)
    (hr : s.activeTimeouts hc nowMs = .ok s') : s'.timers = s.timers := by
  unfold Server.activeTimeouts at hr
  refine foldlM_ok_inv (fun x : Server H => x.timers = s.timers) _ ?_ s.active s s' rfl hr
  intro b cid b' hb hf
  simp only at hf
  split at hf
  · cases hf; exact hb
  · split at hf
    · split at hf
      · split at hf
        · cases hf
        · cases hf
          rw [finish_timers]; exact hb
      · cases hf; exact hb
    · cases hf; exact hb

theorem stepActive_later (hc : HC H) (s s' : Server H) (nowMs nowNs : Nat) (sent : List (Nat × List Nat))
    (hr : s.stepActive hc nowMs nowNs = .ok (s', sent)) (hl : Later nowMs s.timers) : Later nowMs s'.timers := by
  unfold Server.stepActive at hr
  refine foldlM_ok_inv (fun x : Server H × List (Nat × List Nat) => Later nowMs x.1.timers) _ ?_ s.active
    (s, []) (s', sent) hl hr
  intro b cid b' hb hf
  simp only at hf
  split at hf
  · cases hf; exact hb
  · split at hf
    · have h1 : ∀ (x : Server H) (c : RClient H), Later nowMs x.timers → Later nowMs (x.put c).timers := by
        intro x c h; rw [Server.put_timers]; exact h
      split at hf <;> split at hf
      all_goals first
        | (rename_i hne; exact absurd rfl hne)
        | (rename_i hne; exact Bool.noConfusion hne)
        | (split at hf
           · cases hf
           · first
             | (cases hf; show Later nowMs (tPush (Server.put _ _).timers _); exact Later.push (h1 _ _ (by exact hb)) (Nat.lt_add_of_pos_right (by decide)))
             | (split at hf
                · cases hf
                · cases hf; show Later nowMs (Server.put _ _).timers; exact h1 _ _ hb))
    · cases hf; exact hb

/-- `Server::step` (any arrivals, clock not running backwards) returns, keeps the invariant, and
leaves no timer due at its `now_ms` in the heap: the `while` loop of `handle_events` ran to its end. -/
theorem step_ok_later {Inv : H → Prop} {last : H → Nat} {T : Nat} {hc : HC H} (hok : HCOk hc Inv last)
    {s : Server H} (hi : SInv Inv last THeap T s) (nowNs : Nat) (hle : T ≤ nowNs)
    (arrivals : List (Nat × List Nat)) :
    ∃ s' sent evs, s.step hc nowNs arrivals = .ok (s', sent, evs) ∧ SInv Inv last THeap nowNs s' ∧
      Later ((nowNs - s.timeBase) / 1000000) s'.timers := by
  obtain ⟨s', sent, evs, hr, hi'⟩ := step_ok hok heapPred_THeap hi nowNs hle arrivals
  refine ⟨s', sent, evs, hr, hi', ?_⟩
  obtain ⟨ph⟩ := Server.step_phases hc hr
  obtain ⟨r1, e1, i1⟩ := flushActive_ok hok (hi.mono hle)
  rw [ph.hflush] at e1; cases e1
  obtain ⟨r2, e2, i2⟩ := handleFrames_ok hok heapPred_THeap i1 arrivals ((nowNs - s.timeBase) / 1000000)
  rw [ph.hframes] at e2; cases e2
  have h3 := (runTimers_complete ((nowNs - s.timeBase) / 1000000) (ph.s2.timers.size * 12 + 16) ph.s2 []
    i2.heap (due_le_stepFuel _ _)).2
  have h4 := activeTimeouts_timers hc _ _ _ ph.htimeouts
  have h5 : Later ((nowNs - s.timeBase) / 1000000) ph.s4.retain.timers := by
    show Later _ ph.s4.timers
    rw [h4]; exact h3
  have h6 := stepActive_later hc _ _ _ _ _ ph.hstep h5
  rw [ph.hs']
  exact h6

end Uflow.EpNoTrap
