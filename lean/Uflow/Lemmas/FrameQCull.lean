import Uflow.Lemmas.FrameQCullAdv

/-! `cull` (`cull_log_entries`): no trap and preservation of `AckInv` when the new base lies inside the log. -/

namespace Uflow.FrameQ

open Uflow Uflow.Codec

/-- Positions relative to a new log base `nb` that lies `k` entries into the log. -/
theorem pos_shift (lb nb x : Nat) (hx : x < 2^32) (hnb : nb < 2^32) (h : wsub32 nb lb ≤ wsub32 x lb) :
    wsub32 x nb = wsub32 x lb - wsub32 nb lb := by
  rw [wsub32_via lb x nb hx hnb]
  have := wsub32_lt x lb
  omega

theorem RInv.shift {lb len : Nat} {r : Reorder} (h : RInv lb len r) (nb : Nat) (hnb : nb < 2^32)
    (hk : wsub32 nb lb ≤ wsub32 r.baseId lb) : RInv nb (len - wsub32 nb lb) r := by
  have hb := pos_shift lb nb r.baseId h.base_lt hnb hk
  have hbp := h.base_pos
  have hsp := h.span
  refine ⟨by omega, h.base_lt, by omega, h.cnt, h.f0_lt, ?_, ?_, h.f1_lt, ?_, ?_⟩
  · intro c
    have := h.f0_lo c
    rw [hb, pos_shift lb nb r.f0 (h.f0_lt c) hnb (by omega)]; omega
  · intro c
    have := h.f0_lo c; have := h.f0_hi c
    rw [pos_shift lb nb r.f0 (h.f0_lt c) hnb (by omega)]; omega
  · intro c
    have c1 : 1 ≤ r.count := by omega
    have := h.f0_lo c1; have := h.f1_lo c
    rw [pos_shift lb nb r.f0 (h.f0_lt c1) hnb (by omega), pos_shift lb nb r.f1 (h.f1_lt c) hnb (by omega)]; omega
  · intro c
    have c1 : 1 ≤ r.count := by omega
    have := h.f0_lo c1; have := h.f1_lo c; have := h.f1_hi c
    rw [pos_shift lb nb r.f1 (h.f1_lt c) hnb (by omega)]; omega

abstract_const Uflow.wsub32 in Uflow.FrameQ.cull as cullG1
abstract_const Uflow.FrameQ.Reorder.canAdvance in Uflow.FrameQ.cullG1 as cullG2
abstract_const Uflow.FrameQ.Reorder.advance in Uflow.FrameQ.cullG2 as cullG3
abstract_const Uflow.FrameQ.applyCb in Uflow.FrameQ.cullG3 as cullG

theorem cull_eq_G : @cull = cullG applyCb Reorder.advance Reorder.canAdvance wsub32 := by
  delta cull cullG cullG3 cullG2 cullG1; rfl

theorem cullG_adv (ac : State → Option Nat → Cb → List Interval → R (List Interval))
    (adv : Reorder → Nat → R (Reorder × Cb)) (can : Reorder → Nat → Bool) (d : Nat → Nat → Nat)
    (s : State) (nb : Nat) (rtt : Option Nat) (r' : Reorder) (cb : Cb) (l : List Interval)
    (hcan : can s.reorder nb = true) (hadv : adv s.reorder nb = .ok (r', cb))
    (hl : ac s rtt cb s.intervals = .ok l) (hk : ¬ d nb s.logBase > s.frames.length) :
    cullG ac adv can d s nb rtt = .ok { s with reorder := r', intervals := l, frames := s.frames.drop (d nb s.logBase), logBase := nb } := by
  unfold cullG
  rw [if_pos hcan, hadv]
  simp only []
  rw [hl]
  simp only []
  rw [if_neg hk]

theorem cullG_noadv (ac : State → Option Nat → Cb → List Interval → R (List Interval))
    (adv : Reorder → Nat → R (Reorder × Cb)) (can : Reorder → Nat → Bool) (d : Nat → Nat → Nat)
    (s : State) (nb : Nat) (rtt : Option Nat)
    (hcan : ¬ can s.reorder nb = true) (hk : ¬ d nb s.logBase > s.frames.length) :
    cullG ac adv can d s nb rtt = .ok { s with frames := s.frames.drop (d nb s.logBase), logBase := nb } := by
  unfold cullG
  rw [if_neg hcan]
  simp only []
  rw [if_neg hk]

theorem cull_adv (s : State) (nb : Nat) (rtt : Option Nat) (r' : Reorder) (cb : Cb) (l : List Interval)
    (hcan : s.reorder.canAdvance nb = true) (hadv : s.reorder.advance nb = .ok (r', cb))
    (hl : applyCb s rtt cb s.intervals = .ok l) (hk : ¬ wsub32 nb s.logBase > s.frames.length) :
    cull s nb rtt = .ok { s with reorder := r', intervals := l, frames := s.frames.drop (wsub32 nb s.logBase), logBase := nb } := by
  rw [cull_eq_G]; exact cullG_adv _ _ _ _ s nb rtt r' cb l hcan hadv hl hk

theorem cull_noadv (s : State) (nb : Nat) (rtt : Option Nat)
    (hcan : ¬ s.reorder.canAdvance nb = true) (hk : ¬ wsub32 nb s.logBase > s.frames.length) :
    cull s nb rtt = .ok { s with frames := s.frames.drop (wsub32 nb s.logBase), logBase := nb } := by
  rw [cull_eq_G]; exact cullG_noadv _ _ _ _ s nb rtt hcan hk

/-- The state after draining `k = pos nb` entries, with a reorder buffer `r'` whose base is not before `nb`. -/
theorem AckInv_drain (s : State) (nb : Nat) (r' : Reorder) (l : List Interval) (hack : AckInv s)
    (hnb : nb < 2^32) (hr' : RInv s.logBase s.frames.length r')
    (hk : wsub32 nb s.logBase ≤ wsub32 r'.baseId s.logBase)
    (hbuf : ∀ x, Buffered r' x → Buffered s.reorder x) :
    AckInv { s with reorder := r', intervals := l, frames := s.frames.drop (wsub32 nb s.logBase), logBase := nb } := by
  refine ⟨?_, ?_⟩
  · show RInv nb (s.frames.drop (wsub32 nb s.logBase)).length r'
    rw [List.length_drop]
    exact hr'.shift nb hnb hk
  · intro x hx
    obtain ⟨e, he, ha⟩ := hack.bufAcked x (hbuf x hx)
    refine ⟨e, ?_, ha⟩
    have hx' : Buffered r' x := hx
    have hxl : x < 2^32 ∧ wsub32 r'.baseId s.logBase < wsub32 x s.logBase := by
      rcases hx' with ⟨c, rfl⟩ | ⟨c, rfl⟩
      · exact ⟨hr'.f0_lt c, hr'.f0_lo c⟩
      · have c1 : 1 ≤ r'.count := by omega
        have := hr'.f0_lo c1; have := hr'.f1_lo c
        exact ⟨hr'.f1_lt c, by omega⟩
    unfold getFrame at he ⊢
    show (s.frames.drop (wsub32 nb s.logBase))[wsub32 x nb]? = some e
    rw [List.getElem?_drop, pos_shift s.logBase nb x hxl.1 hnb (by omega)]
    rw [show wsub32 nb s.logBase + (wsub32 x s.logBase - wsub32 nb s.logBase) = wsub32 x s.logBase by omega]
    exact he

/-- `cull_log_entries` to a base inside the log: no trap, `AckInv` kept, `k` entries drained. -/
theorem cull_inv (s : State) (nb : Nat) (rtt : Option Nat) (hack : AckInv s) (hnb : nb < 2^32)
    (hk : wsub32 nb s.logBase ≤ s.frames.length) (hlen : s.frames.length ≤ s.reorder.maxSpan)
    (hsmall : s.reorder.maxSpan < 2^31) :
    ∃ s', cull s nb rtt = .ok s' ∧ AckInv s' ∧ s'.logBase = nb ∧
      s'.frames.length = s.frames.length - wsub32 nb s.logBase ∧ s'.logNext = s.logNext ∧
      s'.winBase = s.winBase ∧ s'.winSize = s.winSize ∧ s'.tailSize = s.tailSize ∧
      s'.reorder.maxSpan = s.reorder.maxSpan ∧ s'.ackData = s.ackData ∧ s'.lastFeedback = s.lastFeedback := by
  have hr := hack.rinv
  have hbl := wsub32_lt s.reorder.baseId s.logBase
  have hnl := wsub32_lt nb s.logBase
  have hbp := hr.base_pos
  have hvia := wsub32_via s.logBase nb s.reorder.baseId hnb hr.base_lt
  by_cases hcan : s.reorder.canAdvance nb = true
  · have hcan' : wsub32 nb s.reorder.baseId ≥ 1 ∧ wsub32 nb s.reorder.baseId ≤ s.reorder.maxSpan := by
      unfold Reorder.canAdvance at hcan; exact of_decide_eq_true hcan
    have hbn : wsub32 s.reorder.baseId s.logBase ≤ wsub32 nb s.logBase := by omega
    obtain ⟨r', cb, hadv, hr', hb', hm', hcb, hbuf⟩ := advance_spec s.logBase s.frames.length nb s.reorder hr
      (by omega) hnb hk hbn (by omega)
    obtain ⟨l, hl⟩ := applyCb_ok s rtt cb s.intervals hcb
    rw [cull_adv s nb rtt r' cb l hcan hadv hl (by omega)]
    exact ⟨_, rfl, AckInv_drain s nb r' l hack hnb hr' hb' hbuf, rfl, List.length_drop, rfl, rfl, rfl, rfl, hm',
      rfl, rfl⟩
  · have hcan' : ¬ (wsub32 nb s.reorder.baseId ≥ 1 ∧ wsub32 nb s.reorder.baseId ≤ s.reorder.maxSpan) := by
      intro h; apply hcan; unfold Reorder.canAdvance; exact decide_eq_true h
    have hkb : wsub32 nb s.logBase ≤ wsub32 s.reorder.baseId s.logBase := by omega
    rw [cull_noadv s nb rtt hcan (by omega)]
    have := AckInv_drain s nb s.reorder s.intervals hack hnb hr hkb (fun _ h => h)
    exact ⟨_, rfl, this, rfl, List.length_drop, rfl, rfl, rfl, rfl, rfl, rfl, rfl⟩

end Uflow.FrameQ
