import Uflow.Lemmas.EpRefuseFrame
import Uflow.Lemmas.EndpointServerExample

/-!
C07 (refusals): one concrete run evaluated by the kernel, with `enable_handshake_errors = false`:
an incompatible SYN from address 7 (refused, no event), a stray handshake ACK carrying the nonce the
server would draw, then a compatible SYN and the matching ACK (Connect). Each 1472-byte SYN costs the
kernel one CRC-32 over the whole datagram, hence only two of them.
-/

namespace Uflow.EpRefuse.Ex

open Uflow Uflow.Endpoint Uflow.Codec Uflow.Gen Uflow.EpNoTrap Uflow.Endpoint.Ex

/-- the default: `enable_handshake_errors = false` -/
def cfgD : SrvConfig := { maxTotalConnections := 4, maxActiveConnections := 2, enableHandshakeErrors := false, ep := ep0 }

def sD : Server Unit := Server.init cfgD 0 ⟨[77], 1⟩

/-- a SYN whose `max_packet_size = 200000` exceeds the server's `max_receive_alloc = 100000` -/
def synBad : List Nat := encode (.syn PROTOCOL_VERSION 5 1000000 200000 100000)

def opsBad : List SOp := [.step 1000000 [(7, synBad)], .step 2000000 [(7, ackBytes), (7, encode (.hsAck 5))]]
def opsRest : List SOp := [.step 3000000 [(7, synBytes)], .step 4000000 [(7, ackBytes)]]

def chk : Bool :=
  match runS hc0 sD opsBad with
  | .ok (s, sent, evs) =>
    evs == [] && s.clients.length == 0 && sent == [(7, errFrame 5 .config)] &&
      (match runS hc0 s opsRest with
       | .ok (_, _, evs2) => evs2 == [SEvent.connect 7]
       | .error _ => false)
  | .error _ => false

set_option maxRecDepth 100000 in
theorem chk_true : chk = true := by decide +kernel

end Uflow.EpRefuse.Ex
