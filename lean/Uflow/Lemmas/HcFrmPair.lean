import Uflow.Lemmas.HcFrmOps2
import Uflow.Lemmas.HcSysInv

/-!
C01Hc (frame-level acknowledgements), part 7: the frame-level invariant `FrmInv` of the pair
`HcPair` and its preservation by every step, for EVERY schedule, as long as frame ids are not reused
on the `A → B` wire (`IdsNodup`; true while `A` has sent fewer than `2^32` data frames).

`FrmInv h`: `A`'s frame log is consistent with `wireAB` (`FqW`), a fragment is marked acknowledged in
`A`'s send window only if its datagram was handed to `B`'s packet receiver (`AckedOk`), and every bit set
in a pending ack group of `B` or in an ack frame on `wireBA` names a data frame of `wireAB` all of whose
datagrams were handed to `B`'s packet receiver (`Acc`).
-/

namespace Uflow.HcFrm

open Uflow Uflow.Gen Uflow.Codec Uflow.HalfConn Uflow.PSend Uflow.FrameQ Uflow.HcSys
open Uflow.PRecv (bindR bindR_ok)
open Uflow.Rate (FloatOps)

variable {F : Type}

/-- `X` is the id of a data frame of the wire that `B` accepted (`accIds`), all of whose datagrams were
handed to `B`'s packet receiver. -/
def AccI (wire : List (List Nat)) (fed : List Datagram) (acc : List Nat) (X : Nat) : Prop :=
  Acc wire fed X ∧ X ∈ acc

/-- A group all of whose set bits name accepted frames. -/
abbrev GroupAcc (h : HcPair F) (g : AckGroup) : Prop := GroupP (AccI h.wireAB h.fed h.accIds) g

structure FrmInv (h : HcPair F) : Prop where
  snd : SndF h.wireAB h.wireT h.pend h.fed h.A.fq h.A.ps
  aqB : BitsP (AccI h.wireAB h.fed h.accIds) h.B.aq
  wba : ∀ b ∈ h.wireBA, ∀ fb pb gs, decode b = some (.ack fb pb gs) → ∀ g ∈ gs, GroupAcc h g
  /-- one emission stamp per frame of the `A → B` wire -/
  twl : h.wireT.length = h.wireAB.length
  /-- a stamp is a number of packets emitted so far -/
  tle : ∀ T ∈ h.wireT, T ≤ h.pend.length
  /-- an accepted frame id is the id of a data frame of the wire -/
  accw : ∀ X ∈ h.accIds, ∃ (j : Nat) (bytes : List Nat), h.wireAB[j]? = some bytes ∧ dataId bytes = some X
  /-- the data frames of the wire carry consecutive frame ids ending before `A`'s `next_id()` -/
  ids : IdSeq h.wireAB h.A.fq.logNext

/-- Side conditions on `A`'s frame window configuration (as in `HcInv.CfgOk`). -/
structure FrmCfg (c : Config) : Prop where
  base : c.txFrameBaseId < 2^32
  win : c.txFrameWindowSize + c.txFrameWindowSize < 2^31

theorem Acc.mono {wire w2 : List (List Nat)} {fed f2 : List Datagram} {X : Nat} (h : Acc wire fed X) :
    Acc (wire ++ w2) (fed ++ f2) X := by
  obtain ⟨b, hb, n, dgs, hd, hall⟩ := h
  exact ⟨b, List.mem_append_left _ hb, n, dgs, hd, fun d hd' => List.mem_append_left _ (hall d hd')⟩

theorem AccI.mono {wire w2 : List (List Nat)} {fed f2 : List Datagram} {acc a2 : List Nat} {X : Nat}
    (h : AccI wire fed acc X) : AccI (wire ++ w2) (fed ++ f2) (acc ++ a2) X :=
  ⟨h.1.mono, List.mem_append_left _ h.2⟩

theorem frmInv_init (ops : FloatOps F) (cA cB : Config) (nowA nowB : Nat) (rngA rngB : Rng)
    (hc : FrmCfg cA) (hbA : cA.txPacketBaseId < 2^20) :
    FrmInv (initP ops cA cB nowA nowB rngA rngB) where
  snd := ⟨FrameQ.WInv_init _ _ _ hc.base hc.win, fqW_init _ _ _ _ _ _, ainv_init _ _ _ hbA,
    fun w hw => by simp [initP, HalfConn.init, PSend.init] at hw⟩
  aqB := bitsP_init _ _ _
  wba := by intro b hb; cases hb
  twl := rfl
  tle := by intro T hT; cases hT
  accw := by intro X hX; cases hX
  ids := idSeq_nil _

/-- Growing the `A → B` wire and the fed datagrams keeps the receiving-side parts. -/
theorem frm_recv_mono {h : HcPair F} (hf : FrmInv h) (w2 : List (List Nat)) (f2 : List Datagram)
    (a2 : List Nat) :
    BitsP (AccI (h.wireAB ++ w2) (h.fed ++ f2) (h.accIds ++ a2)) h.B.aq ∧
    ∀ b ∈ h.wireBA, ∀ fb pb gs, decode b = some (.ack fb pb gs) →
      ∀ g ∈ gs, GroupP (AccI (h.wireAB ++ w2) (h.fed ++ f2) (h.accIds ++ a2)) g :=
  ⟨hf.aqB.mono (fun _ hx => hx.mono), fun b hb fb pb gs hd g hg => (hf.wba b hb fb pb gs hd g hg).mono (fun _ hx => hx.mono)⟩

theorem step_aq (ops : FloatOps F) (s s' : State F) (now : Nat) (h : step ops s now = .ok s') : s'.aq = s.aq := by
  rw [HcFrame.step_eq] at h
  exact (stepP_fqJ (fun _ => True) ops s s' now _ _ _ _ _ _ (fun _ _ _ _ _ _ => trivial)
    (fun _ _ _ _ _ _ => trivial) (fun _ _ _ _ _ => trivial) trivial h).2

theorem handleAckFrame_aq (s s' : State F) (fb pb : Nat) (acks : List AckGroup)
    (h : handleAckFrame s fb pb acks = .ok s') : s'.aq = s.aq := by
  rw [HcFrame.handleAckFrame_eq] at h
  exact (ackP_inv (fun _ _ => True) (fun _ => True) s s' fb pb acks _ _ _ (fun _ _ _ _ _ _ _ _ _ => trivial)
    (fun _ _ _ _ _ _ _ => trivial) (fun _ _ _ _ _ _ => trivial) (fun _ _ => trivial) trivial h).2

/-- The id of a data frame of the `A → B` wire, as parsed, is a `u32`. -/
theorem wire_data_id {h : HcPair F} (hi : PairInv h) (bytes : List Nat) (hb : bytes ∈ h.wireAB) (id : Nat)
    (nonce : Bool) (dgs : List Datagram) (hd : decode bytes = some (.data id nonce dgs)) : id < 2^32 := by
  cases hi.wab bytes hb with
  | ack fb pb gs h1 _ =>
    rw [h1] at hd
    obtain ⟨_, _, hg⟩ := decode_encode_ack fb pb gs _ hd
    cases hg
  | data id' n' dgs' h1 h2 h3 =>
    rw [h1, decode_encode_data id' n' dgs' h2 (fun d hd => genuine_ok hi.a d (h3 d hd))] at hd
    simp only [Option.some.injEq, Frame.data.injEq] at hd
    rw [← hd.1]; exact Nat.mod_lt _ (by decide)
  | sync nf np h1 =>
    rw [h1] at hd
    obtain ⟨_, _, hg⟩ := decode_encode_sync nf np _ hd
    cases hg

/-- **`FrmInv` is kept by every step** (frame ids not reused on the `A → B` wire before the step). -/
theorem frmInv_step (ops : FloatOps F) {h h' : HcPair F} (hi : PairInv h) (hf : FrmInv h) (op : POp)
    (hs : stepP ops h op = .ok h') (hn : IdsNodup h.wireAB) : FrmInv h' := by
  have hi' : PairInv h' := pairInv_step ops hi op hs
  cases op with
  | sendA d c m =>
    simp only [stepP] at hs
    split at hs
    · cases hs
      exact ⟨⟨hf.snd.w, hf.snd.fq, hi'.a, hf.snd.acked⟩, hf.aqB, hf.wba, hf.twl, hf.tle, hf.accw, hf.ids⟩
    · cases hs; exact hf
  | flushA =>
    simp only [stepP] at hs
    cases hfl : flush h.A with
    | error t => rw [hfl] at hs; cases hs
    | ok r =>
      obtain ⟨a', out⟩ := r
      rw [hfl, bindR_ok] at hs
      cases hs
      obtain ⟨l, hem, hw', hfq', hids'⟩ := flush_frm h.A a' out hf.twl hf.snd.a hf.snd.w hf.snd.fq hf.ids hfl
      have hnp : newPackets h.A.ps a'.ps = l := (hem.newPackets hi.a).2
      obtain ⟨m1, m2⟩ := frm_recv_mono hf out [] []
      rw [List.append_nil, List.append_nil] at m1 m2
      have hnu : a'.ps.nextUid = (h.pend ++ newPackets h.A.ps a'.ps).length := hi'.a.nuid
      refine ⟨⟨hw', ?_, hi'.a, ?_⟩, m1, m2, ?_, ?_, ?_, hids'⟩
      · show FqW (h.wireAB ++ out) (h.wireT ++ List.replicate out.length (h.pend ++ newPackets h.A.ps a'.ps).length)
          (h.pend ++ newPackets h.A.ps a'.ps) a'.fq
        rw [← hnu, hnp]; exact hfq'
      · exact hf.snd.acked.of_sub (Emits.win_new hem)
      · show (h.wireT ++ List.replicate out.length _).length = (h.wireAB ++ out).length
        simp [hf.twl]
      · intro T hT
        have hT' : T ∈ h.wireT ++ List.replicate out.length (h.pend ++ newPackets h.A.ps a'.ps).length := hT
        show T ≤ (h.pend ++ newPackets h.A.ps a'.ps).length
        rcases List.mem_append.mp hT' with hT' | hT'
        · have := hf.tle T hT'
          rw [List.length_append]; omega
        · rw [(List.mem_replicate.mp hT').2]; exact Nat.le_refl _
      · intro X hX
        obtain ⟨j, bytes, hj, hid⟩ := hf.accw X hX
        refine ⟨j, bytes, ?_, hid⟩
        show (h.wireAB ++ out)[j]? = some bytes
        rw [List.getElem?_append_left (List.getElem?_eq_some_iff.mp hj).1]; exact hj
  | stepA now =>
    simp only [stepP] at hs
    cases hst : step ops h.A now with
    | error t => rw [hst] at hs; cases hs
    | ok a' =>
      rw [hst, bindR_ok] at hs
      cases hs
      obtain ⟨w1, w2, _, w4⟩ := step_frm ops h.A a' now hf.snd.w hf.snd.fq hst
      obtain ⟨hps, _⟩ := step_spec ops h.A a' now hst
      refine ⟨⟨w1, w2, hi'.a, ?_⟩, hf.aqB, hf.wba, hf.twl, hf.tle, hf.accw, hf.ids.congr w4⟩
      show AckedOk h.fed a'.ps
      rw [hps]; exact hf.snd.acked
  | stepB now =>
    simp only [stepP] at hs
    cases hst : step ops h.B now with
    | error t => rw [hst] at hs; cases hs
    | ok b' =>
      rw [hst, bindR_ok] at hs
      cases hs
      refine ⟨hf.snd, ?_, hf.wba, hf.twl, hf.tle, hf.accw, hf.ids⟩
      show BitsP _ b'.aq
      rw [step_aq ops h.B b' now hst]; exact hf.aqB
  | recvB =>
    simp only [stepP] at hs
    cases hr : receive h.B with
    | error t => rw [hr] at hs; cases hs
    | ok r =>
      obtain ⟨b', out⟩ := r
      rw [hr, bindR_ok] at hs
      cases hs
      refine ⟨hf.snd, ?_, hf.wba, hf.twl, hf.tle, hf.accw, hf.ids⟩
      show BitsP _ b'.aq
      rw [(receive_frm h.B b' out hr).2.1]; exact hf.aqB
  | flushB =>
    simp only [stepP] at hs
    cases hfl : flush h.B with
    | error t => rw [hfl] at hs; cases hs
    | ok r =>
      obtain ⟨b', out⟩ := r
      rw [hfl, bindR_ok] at hs
      cases hs
      obtain ⟨q1, q2⟩ := flush_aq (fun g => AckGroupOk g ∧ GroupAcc h g) h.B b' out
        (fun g hg => ⟨⟨(hf.aqB g hg).1, (hf.aqB g hg).2.1⟩, hf.aqB g hg⟩) hfl
      refine ⟨hf.snd, fun g hg => (q1 g hg).2, ?_, hf.twl, hf.tle, hf.accw, hf.ids⟩
      intro b hb fb pb gs hd
      have hb' : b ∈ h.wireBA ++ out := hb
      rcases List.mem_append.mp hb' with hb' | hb'
      · exact hf.wba b hb' fb pb gs hd
      · exact decode_ackW (GroupAcc h) _ _ b (q2 b hb' fb pb gs hd) fb pb gs hd
  | deliverAB k =>
    simp only [stepP] at hs
    cases hk : h.wireAB[k]? with
    | none => rw [hk] at hs; cases hs; exact hf
    | some bytes =>
      rw [hk] at hs
      simp only [] at hs
      have hmem : bytes ∈ h.wireAB := List.mem_of_getElem? hk
      rw [List.take_of_length_le (hi.lab bytes hmem)] at hs
      cases hd : dispatch h.B bytes with
      | error t => rw [hd] at hs; cases hs
      | ok b' =>
        rw [hd, bindR_ok] at hs
        cases hs
        obtain ⟨m1, m2⟩ := frm_recv_mono hf [] (fedBy h.B bytes) (accBy h.B bytes)
        rw [List.append_nil] at m1 m2
        have hsnd : SndF h.wireAB h.wireT h.pend (h.fed ++ fedBy h.B bytes) h.A.fq h.A.ps :=
          ⟨hf.snd.w, hf.snd.fq, hf.snd.a, hf.snd.acked.mono (fun d hd => List.mem_append_left _ hd)⟩
        refine ⟨hsnd, ?_, m2, hf.twl, hf.tle, ?_, hf.ids⟩
        rotate_left
        · intro X hX
          have hX' : X ∈ h.accIds ++ accBy h.B bytes := hX
          rcases List.mem_append.mp hX' with hX' | hX'
          · exact hf.accw X hX'
          · refine ⟨k, bytes, hk, ?_⟩
            unfold accBy at hX'
            unfold dataId
            split at hX'
            · rename_i id n dgs hdec
              rw [hdec]
              split at hX'
              · rw [List.mem_singleton.mp hX']
              · cases hX'
            · cases hX'
        show BitsP (AccI h.wireAB (h.fed ++ fedBy h.B bytes) (h.accIds ++ accBy h.B bytes)) b'.aq
        unfold dispatch at hd
        cases hdec : decode bytes with
        | none => rw [hdec] at hd; cases hd; exact m1
        | some fr =>
          rw [hdec] at hd
          cases fr with
          | data id nonce dgs =>
            simp only at hd
            obtain ⟨_, haq⟩ := handleDataFrame_frm h.B b' id nonce dgs hd
            rw [haq]
            have hfed : fedBy h.B bytes = (if h.B.aq.contains id then dgs else []) := by simp [fedBy, hdec]
            cases hc : h.B.aq.contains id with
            | false => simp only [Bool.false_eq_true, if_false]; exact m1
            | true =>
              simp only [if_true]
              refine bitsP_markSeen m1 id nonce (wire_data_id hi bytes hmem id nonce dgs hdec) ⟨?_, ?_⟩
              · refine ⟨bytes, hmem, nonce, dgs, hdec, ?_⟩
                intro d hdm
                rw [hfed, hc]
                exact List.mem_append_right _ hdm
              · apply List.mem_append_right
                simp [accBy, hdec, hc]
          | sync nf np =>
            simp only at hd
            obtain ⟨_, haq1, haq2⟩ := handleSyncFrame_frm h.B b' nf np hd
            cases nf with
            | none => rw [haq2 rfl]; exact m1
            | some id => rw [haq1 id rfl]; exact bitsP_resynchronize m1 id
          | ack fb pb acks =>
            simp only at hd
            rw [handleAckFrame_aq h.B b' fb pb acks hd]; exact m1
          | syn v n r p a => simp only [Except.ok.injEq] at hd; rw [← hd]; exact m1
          | synAck na n r p a => simp only [Except.ok.injEq] at hd; rw [← hd]; exact m1
          | hsAck na => simp only [Except.ok.injEq] at hd; rw [← hd]; exact m1
          | hsError na e => simp only [Except.ok.injEq] at hd; rw [← hd]; exact m1
          | disconnect => simp only [Except.ok.injEq] at hd; rw [← hd]; exact m1
          | disconnectAck => simp only [Except.ok.injEq] at hd; rw [← hd]; exact m1
  | deliverBA k =>
    simp only [stepP] at hs
    cases hk : h.wireBA[k]? with
    | none => rw [hk] at hs; cases hs; exact hf
    | some bytes =>
      rw [hk] at hs
      simp only [] at hs
      have hmem : bytes ∈ h.wireBA := List.mem_of_getElem? hk
      rw [List.take_of_length_le (hi.lba bytes hmem)] at hs
      cases hd : dispatch h.A bytes with
      | error t => rw [hd] at hs; cases hs
      | ok a' =>
        rw [hd, bindR_ok] at hs
        cases hs
        refine ⟨?_, hf.aqB, hf.wba, hf.twl, hf.tle, hf.accw, ?ids⟩
        case ids =>
          show IdSeq h.wireAB a'.fq.logNext
          refine hf.ids.congr ?_
          unfold dispatch at hd
          cases hdec : decode bytes with
          | none => rw [hdec] at hd; cases hd; rfl
          | some fr =>
            rw [hdec] at hd
            cases fr with
            | data id nonce dgs =>
              simp only at hd
              rw [(handleDataFrame_frm h.A a' id nonce dgs hd).1]
            | sync nf np =>
              simp only at hd
              rw [(handleSyncFrame_frm h.A a' nf np hd).1]
            | ack fb pb acks =>
              simp only at hd
              exact handleAckFrame_logNext h.A a' fb pb acks hd
            | syn v n r p a => simp only [Except.ok.injEq] at hd; rw [← hd]
            | synAck na n r p a => simp only [Except.ok.injEq] at hd; rw [← hd]
            | hsAck na => simp only [Except.ok.injEq] at hd; rw [← hd]
            | hsError na e => simp only [Except.ok.injEq] at hd; rw [← hd]
            | disconnect => simp only [Except.ok.injEq] at hd; rw [← hd]
            | disconnectAck => simp only [Except.ok.injEq] at hd; rw [← hd]
        show SndF h.wireAB h.wireT h.pend h.fed a'.fq a'.ps
        have hsame : a'.fq = h.A.fq → a'.ps = h.A.ps → SndF h.wireAB h.wireT h.pend h.fed a'.fq a'.ps := by
          intro e1 e2; rw [e1, e2]; exact hf.snd
        unfold dispatch at hd
        cases hdec : decode bytes with
        | none => rw [hdec] at hd; cases hd; exact hf.snd
        | some fr =>
          rw [hdec] at hd
          cases fr with
          | data id nonce dgs =>
            simp only at hd
            exact hsame (handleDataFrame_frm h.A a' id nonce dgs hd).1
              (HcFrame.handleDataFrame_frame h.A a' id nonce dgs hd).2
          | sync nf np =>
            simp only at hd
            exact hsame (handleSyncFrame_frm h.A a' nf np hd).1
              (HcFrame.handleSyncFrame_frame h.A a' nf np hd).2
          | ack fb pb acks =>
            simp only at hd
            exact (handleAckFrame_frm h.A a' fb pb acks hn
              (fun g hg => (hf.wba bytes hmem fb pb acks hdec g hg).mono (fun _ hx => hx.1)) hf.snd hd).1
          | syn v n r p a => simp only [Except.ok.injEq] at hd; rw [← hd]; exact hf.snd
          | synAck na n r p a => simp only [Except.ok.injEq] at hd; rw [← hd]; exact hf.snd
          | hsAck na => simp only [Except.ok.injEq] at hd; rw [← hd]; exact hf.snd
          | hsError na e => simp only [Except.ok.injEq] at hd; rw [← hd]; exact hf.snd
          | disconnect => simp only [Except.ok.injEq] at hd; rw [← hd]; exact hf.snd
          | disconnectAck => simp only [Except.ok.injEq] at hd; rw [← hd]; exact hf.snd

/-- A step only appends to the `A → B` wire. -/
theorem stepP_wire_prefix (ops : FloatOps F) (h h' : HcPair F) (op : POp) (hs : stepP ops h op = .ok h') :
    ∃ w2, h'.wireAB = h.wireAB ++ w2 := by
  cases op with
  | sendA d c m =>
    simp only [stepP] at hs
    split at hs <;> (cases hs; exact ⟨[], (List.append_nil _).symm⟩)
  | flushA =>
    simp only [stepP] at hs
    cases hf : flush h.A with
    | error t => rw [hf] at hs; cases hs
    | ok r => rw [hf, bindR_ok] at hs; cases hs; exact ⟨r.2, rfl⟩
  | stepA now =>
    simp only [stepP] at hs
    cases hf : step ops h.A now with
    | error t => rw [hf] at hs; cases hs
    | ok r => rw [hf, bindR_ok] at hs; cases hs; exact ⟨[], (List.append_nil _).symm⟩
  | stepB now =>
    simp only [stepP] at hs
    cases hf : step ops h.B now with
    | error t => rw [hf] at hs; cases hs
    | ok r => rw [hf, bindR_ok] at hs; cases hs; exact ⟨[], (List.append_nil _).symm⟩
  | flushB =>
    simp only [stepP] at hs
    cases hf : flush h.B with
    | error t => rw [hf] at hs; cases hs
    | ok r => rw [hf, bindR_ok] at hs; cases hs; exact ⟨[], (List.append_nil _).symm⟩
  | recvB =>
    simp only [stepP] at hs
    cases hf : receive h.B with
    | error t => rw [hf] at hs; cases hs
    | ok r => rw [hf, bindR_ok] at hs; cases hs; exact ⟨[], (List.append_nil _).symm⟩
  | deliverAB k =>
    simp only [stepP] at hs
    cases hk : h.wireAB[k]? with
    | none => rw [hk] at hs; cases hs; exact ⟨[], (List.append_nil _).symm⟩
    | some bytes =>
      rw [hk] at hs
      simp only [] at hs
      cases hf : dispatch h.B (bytes.take MAX_FRAME_SIZE) with
      | error t => rw [hf] at hs; cases hs
      | ok r => rw [hf, bindR_ok] at hs; cases hs; exact ⟨[], (List.append_nil _).symm⟩
  | deliverBA k =>
    simp only [stepP] at hs
    cases hk : h.wireBA[k]? with
    | none => rw [hk] at hs; cases hs; exact ⟨[], (List.append_nil _).symm⟩
    | some bytes =>
      rw [hk] at hs
      simp only [] at hs
      cases hf : dispatch h.A (bytes.take MAX_FRAME_SIZE) with
      | error t => rw [hf] at hs; cases hs
      | ok r => rw [hf, bindR_ok] at hs; cases hs; exact ⟨[], (List.append_nil _).symm⟩

theorem runP_wire_prefix (ops : FloatOps F) (sched : List POp) (h h' : HcPair F)
    (hr : runP ops h sched = .ok h') : ∃ w2, h'.wireAB = h.wireAB ++ w2 := by
  induction sched generalizing h with
  | nil => cases hr; exact ⟨[], (List.append_nil _).symm⟩
  | cons op rest ih =>
    rw [runP] at hr
    cases hs : stepP ops h op with
    | error t => rw [hs] at hr; cases hr
    | ok h1 =>
      rw [hs, bindR_ok] at hr
      obtain ⟨w1, e1⟩ := stepP_wire_prefix ops h h1 op hs
      obtain ⟨w2, e2⟩ := ih h1 hr
      exact ⟨w1 ++ w2, by rw [e2, e1, List.append_assoc]⟩

theorem IdsNodup.of_prefix {w w2 : List (List Nat)} (h : IdsNodup (w ++ w2)) : IdsNodup w := by
  unfold IdsNodup at *
  rw [List.filterMap_append] at h
  exact (List.nodup_append.mp h).1

/-- **`FrmInv` holds along every run** at the end of which no frame id has been reused on the
`A → B` wire. -/
theorem frmInv_run (ops : FloatOps F) (sched : List POp) {h h' : HcPair F} (hi : PairInv h) (hf : FrmInv h)
    (hr : runP ops h sched = .ok h') (hn : IdsNodup h'.wireAB) : FrmInv h' := by
  induction sched generalizing h with
  | nil => cases hr; exact hf
  | cons op rest ih =>
    rw [runP] at hr
    cases hs : stepP ops h op with
    | error t => rw [hs] at hr; cases hr
    | ok h1 =>
      rw [hs, bindR_ok] at hr
      obtain ⟨w2, e2⟩ := runP_wire_prefix ops (op :: rest) h h' (by rw [runP, hs, bindR_ok]; exact hr)
      have hn1 : IdsNodup h.wireAB := by rw [e2] at hn; exact hn.of_prefix
      exact ih (pairInv_step ops hi op hs) (frmInv_step ops hi hf op hs hn1) hr

/-- **While at most `2^32` data frames are on the `A → B` wire no frame id has been reused.** -/
theorem FrmInv.nodup {h : HcPair F} (hf : FrmInv h) (hlen : (h.wireAB.filterMap dataId).length ≤ 2^32) :
    IdsNodup h.wireAB := hf.ids.nodup hlen

/-- **`FrmInv` holds along every run** at the end of which at most `2^32` data frames are on the
`A → B` wire. -/
theorem frmInv_run_few (ops : FloatOps F) (sched : List POp) {h h' : HcPair F} (hi : PairInv h) (hf : FrmInv h)
    (hr : runP ops h sched = .ok h') (hlen : (h'.wireAB.filterMap dataId).length ≤ 2^32) : FrmInv h' := by
  induction sched generalizing h with
  | nil => cases hr; exact hf
  | cons op rest ih =>
    rw [runP] at hr
    cases hs : stepP ops h op with
    | error t => rw [hs] at hr; cases hr
    | ok h1 =>
      rw [hs, bindR_ok] at hr
      obtain ⟨w2, e2⟩ := runP_wire_prefix ops (op :: rest) h h' (by rw [runP, hs, bindR_ok]; exact hr)
      have hl : (h.wireAB.filterMap dataId).length ≤ 2^32 := by
        rw [e2, List.filterMap_append, List.length_append] at hlen; omega
      exact ih (pairInv_step ops hi op hs) (frmInv_step ops hi hf op hs (hf.nodup hl)) hr

end Uflow.HcFrm
