import Uflow.Model.HalfConn

/-!
Frame lemmas for the operations of `HalfConn` other than `flush`: which parts of the sender-side
state (`ps`, `pending`, `resend`, `flushAlloc`, `flushId`, clocks) they leave unchanged.
Used by C13 (credit recurrence) and C12 (transmission modes).
-/

namespace Uflow.HcFrame

open Uflow Uflow.Gen Uflow.Codec Uflow.HalfConn
open Uflow.Rate (FloatOps)

variable {F : Type}

/-- The transmit-side queues, credit, flush id and clocks are the same in `s` and `s'`. -/
def QSame (s s' : State F) : Prop :=
  s'.pending = s.pending ∧ s'.resend = s.resend ∧ s'.flushAlloc = s.flushAlloc ∧
  s'.flushId = s.flushId ∧ s'.nowMs = s.nowMs ∧ s'.rttMs = s.rttMs

theorem QSame.refl (s : State F) : QSame s s := ⟨rfl, rfl, rfl, rfl, rfl, rfl⟩

theorem QSame.trans {s s1 s2 : State F} (h1 : QSame s s1) (h2 : QSame s1 s2) : QSame s s2 :=
  ⟨h2.1.trans h1.1, h2.2.1.trans h1.2.1, h2.2.2.1.trans h1.2.2.1, h2.2.2.2.1.trans h1.2.2.2.1,
   h2.2.2.2.2.1.trans h1.2.2.2.2.1, h2.2.2.2.2.2.trans h1.2.2.2.2.2⟩

/-- `foldlM` in `Except` preserves any reflexive, transitive relation that every step establishes. -/
theorem foldlM_rel {σ α : Type} (f : σ → α → R σ) (Rel : σ → σ → Prop)
    (hrefl : ∀ s, Rel s s) (htrans : ∀ a b c, Rel a b → Rel b c → Rel a c)
    (hstep : ∀ s a s', f s a = .ok s' → Rel s s') (l : List α) (s s' : σ)
    (h : l.foldlM f s = .ok s') : Rel s s' := by
  induction l generalizing s with
  | nil =>
    simp only [List.foldlM_nil, pure, Except.pure, Except.ok.injEq] at h
    subst h; exact hrefl _
  | cons a l ih =>
    simp only [List.foldlM_cons, bind, Except.bind] at h
    split at h
    · cases h
    · rename_i s1 h1
      exact htrans _ _ _ (hstep _ _ _ h1) (ih _ h)

theorem send_frame (s : State F) (d : List Nat) (c : Nat) (m : SendMode) :
    QSame s (send s d c m) ∧ (send s d c m).ps = PSend.enqueue s.ps d c m s.flushId :=
  ⟨⟨rfl, rfl, rfl, rfl, rfl, rfl⟩, rfl⟩

theorem receive_frame (s s' : State F) (out : List (List Nat)) (h : receive s = .ok (s', out)) :
    QSame s s' ∧ s'.ps = s.ps := by
  simp only [receive] at h
  generalize PRecv.receive s.pr = r at h
  cases r with
  | error t => cases h
  | ok v =>
    obtain ⟨pr, o⟩ := v
    simp only [Except.ok.injEq, Prod.mk.injEq] at h
    obtain ⟨rfl, _⟩ := h
    exact ⟨⟨rfl, rfl, rfl, rfl, rfl, rfl⟩, rfl⟩

theorem foldDatagrams_frame (dgs : List Datagram) (s s' : State F)
    (h : dgs.foldlM (fun (s : State F) d =>
      (PRecv.handleDatagram s.pr d).map fun pr => { s with pr := pr }) s = .ok s') :
    QSame s s' ∧ s'.ps = s.ps := by
  induction dgs generalizing s with
  | nil =>
    simp only [List.foldlM_nil, pure, Except.pure, Except.ok.injEq] at h
    subst h; exact ⟨QSame.refl _, rfl⟩
  | cons d dgs ih =>
    rw [List.foldlM_cons] at h
    generalize PRecv.handleDatagram s.pr d = r at h
    cases r with
    | error t => simp only [Except.map, bind, Except.bind] at h; cases h
    | ok pr =>
      simp only [Except.map, bind, Except.bind] at h
      obtain ⟨h1, h2⟩ := ih _ h
      have h0 : QSame s { s with pr := pr } := ⟨rfl, rfl, rfl, rfl, rfl, rfl⟩
      exact ⟨QSame.trans h0 h1, h2⟩

/-- `handleDataFrame` with the two `AckQ` computations (32-bit wrapping arithmetic) as parameters. -/
def dataFrameCore (s : State F) (b : Bool) (aq' : FrameQ.AckQ) (dgs : List Datagram) : R (State F) :=
  if b then
    let s := { s with aq := aq' }
    dgs.foldlM (fun (s : State F) d => (PRecv.handleDatagram s.pr d).map fun pr => { s with pr := pr }) s
  else .ok s

theorem handleDataFrame_eq (s : State F) (id : Nat) (nonce : Bool) (dgs : List Datagram) :
    handleDataFrame s id nonce dgs =
      dataFrameCore s (s.aq.contains id) (s.aq.markSeen id nonce) dgs := rfl

theorem dataFrameCore_frame (s s' : State F) (b : Bool) (aq' : FrameQ.AckQ) (dgs : List Datagram)
    (h : dataFrameCore s b aq' dgs = .ok s') : QSame s s' ∧ s'.ps = s.ps := by
  unfold dataFrameCore at h
  cases b with
  | false =>
    simp only [Bool.false_eq_true, if_false, Except.ok.injEq] at h
    subst h
    exact ⟨QSame.refl _, rfl⟩
  | true =>
    simp only [if_true] at h
    obtain ⟨h1, h2⟩ := foldDatagrams_frame dgs _ s' h
    have h0 : QSame s { s with aq := aq' } := ⟨rfl, rfl, rfl, rfl, rfl, rfl⟩
    exact ⟨QSame.trans h0 h1, h2⟩

theorem handleDataFrame_frame (s s' : State F) (id : Nat) (nonce : Bool) (dgs : List Datagram)
    (h : handleDataFrame s id nonce dgs = .ok s') : QSame s s' ∧ s'.ps = s.ps := by
  rw [handleDataFrame_eq] at h
  exact dataFrameCore_frame s s' _ _ dgs h

/-- `handleSyncFrame` with the `AckQ` computation as a parameter. -/
def syncFrameCore (s : State F) (g : Nat → FrameQ.AckQ) (nf np : Option Nat) : R (State F) :=
  let s := match nf with
    | some id => { s with aq := g id }
    | none => s
  let r : R (State F) := match np with
    | some id => (PRecv.resynchronize s.pr id).map fun pr => { s with pr := pr }
    | none => .ok s
  r.map fun s => { s with syncReply := true }

theorem handleSyncFrame_eq (s : State F) (nf np : Option Nat) :
    handleSyncFrame s nf np = syncFrameCore s (fun id => s.aq.resynchronize id) nf np := rfl

theorem syncFrameCore_frame (s s' : State F) (g : Nat → FrameQ.AckQ) (nf np : Option Nat)
    (h : syncFrameCore s g nf np = .ok s') : QSame s s' ∧ s'.ps = s.ps := by
  simp only [syncFrameCore] at h
  cases nf with
  | none =>
    cases np with
    | none =>
      simp only [Except.map, Except.ok.injEq] at h
      subst h
      exact ⟨⟨rfl, rfl, rfl, rfl, rfl, rfl⟩, rfl⟩
    | some pid =>
      simp only [Except.map] at h
      generalize PRecv.resynchronize s.pr pid = r at h
      cases r with
      | error t => cases h
      | ok pr =>
        simp only [Except.ok.injEq] at h
        subst h
        exact ⟨⟨rfl, rfl, rfl, rfl, rfl, rfl⟩, rfl⟩
  | some fid =>
    simp only at h
    generalize g fid = aq' at h
    cases np with
    | none =>
      simp only [Except.map, Except.ok.injEq] at h
      subst h
      exact ⟨⟨rfl, rfl, rfl, rfl, rfl, rfl⟩, rfl⟩
    | some pid =>
      simp only [Except.map] at h
      generalize PRecv.resynchronize s.pr pid = r at h
      cases r with
      | error t => cases h
      | ok pr =>
        simp only [Except.ok.injEq] at h
        subst h
        exact ⟨⟨rfl, rfl, rfl, rfl, rfl, rfl⟩, rfl⟩

theorem handleSyncFrame_frame (s s' : State F) (nf np : Option Nat)
    (h : handleSyncFrame s nf np = .ok s') : QSame s s' ∧ s'.ps = s.ps := by
  rw [handleSyncFrame_eq] at h
  exact syncFrameCore_frame s s' _ nf np h

end Uflow.HcFrame
