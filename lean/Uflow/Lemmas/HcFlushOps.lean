import Uflow.Lemmas.HcSysInv
import Uflow.Lemmas.CreditRun
import Uflow.Lemmas.HcInvRun
import Uflow.Lemmas.PSendHistRun
import Uflow.Lemmas.PSendHistOrder

/-!
C09Hc / C20Hc, part 1: every public operation of a half connection acts on its packet sender `ps`
only through the four packet sender operations `enqueue`, `emit`, `acknowledge`, `ackFragment`
(`Uflow.Props.C20.Op`), so that the theorems about arbitrary `PSend` operation sequences (C20, C05,
C02 sender side) apply to the packet sender of a half connection after any run.

`PsOps ps ps' newq`: `ps'` is reached from `ps` by some operation sequence which, run with any ghost
history (`PSend.runH`), appends exactly `newq` to the list of submitted packets.
-/

namespace Uflow.HcFlush

open Uflow Uflow.Gen Uflow.Codec Uflow.HalfConn Uflow.PSend Uflow.HcSys Uflow.Credit
open Uflow.Props.C20 (Op)
open Uflow.Rate (FloatOps)
open Uflow.PRecv (bindR bindR_ok)

variable {F : Type}

theorem runH_append (s : PSend.State) (h : Hist) (a b : List Op) :
    runH s h (a ++ b) = (match runH s h a with
      | .error t => .error t
      | .ok (s1, h1) => runH s1 h1 b) := by
  induction a generalizing s h with
  | nil => rfl
  | cons op rest ih =>
    simp only [List.cons_append, runH]
    cases stepH s h op with
    | error t => rfl
    | ok r => obtain ⟨s1, h1⟩ := r; exact ih s1 h1

/-- `ps'` is reached from `ps` by a sequence of packet sender operations that submits exactly the
queue entries `newq` (in order). -/
def PsOps (ps ps' : PSend.State) (newq : List QEntry) : Prop :=
  ∃ ops : List Op, ∀ h : Hist, ∃ h', runH ps h ops = .ok (ps', h') ∧ h'.enqueued = h.enqueued ++ newq

theorem PsOps.refl (ps : PSend.State) : PsOps ps ps [] :=
  ⟨[], fun h => ⟨h, rfl, by simp⟩⟩

theorem PsOps.of_eq {ps ps' : PSend.State} (h : ps' = ps) : PsOps ps ps' [] := by
  subst h; exact PsOps.refl _

theorem PsOps.trans {a b c : PSend.State} {q1 q2 : List QEntry} (h1 : PsOps a b q1) (h2 : PsOps b c q2) :
    PsOps a c (q1 ++ q2) := by
  obtain ⟨o1, r1⟩ := h1
  obtain ⟨o2, r2⟩ := h2
  refine ⟨o1 ++ o2, fun h => ?_⟩
  obtain ⟨h1', e1, q1'⟩ := r1 h
  obtain ⟨h2', e2, q2'⟩ := r2 h1'
  refine ⟨h2', ?_, by rw [q2', q1', List.append_assoc]⟩
  rw [runH_append, e1]
  exact e2

theorem PsOps.enqueue (ps : PSend.State) (d : List Nat) (c : Nat) (m : SendMode) (f : Nat) :
    PsOps ps (enqueue ps d c m f) [{ data := d, channelId := c, mode := m, flushId := f }] :=
  ⟨[.enq d c m f], fun _ => ⟨_, rfl, rfl⟩⟩

theorem PsOps.emit {ps ps1 : PSend.State} {f : Nat} {r : Option (Pending × Bool)}
    (he : PSend.emit ps f = .ok (ps1, r)) : PsOps ps ps1 [] := by
  refine ⟨[.emit f], fun h => ?_⟩
  cases r with
  | none => exact ⟨h, by simp only [runH, stepH, he], by simp⟩
  | some v =>
    obtain ⟨p, b⟩ := v
    exact ⟨{ h with emitted := h.emitted ++ [mkEmitted ps f p] }, by simp only [runH, stepH, he], by simp⟩

theorem PsOps.ack {ps ps1 : PSend.State} {rb : Nat} (he : PSend.acknowledge ps rb = .ok ps1) :
    PsOps ps ps1 [] :=
  ⟨[.ack rb], fun h => ⟨h, by simp only [runH, stepH, he], by simp⟩⟩

theorem PsOps.ackFragment (ps : PSend.State) (u fid : Nat) : PsOps ps (ackFragment ps u fid) [] :=
  ⟨[.ackFrag u fid], fun h => ⟨h, rfl, by simp⟩⟩

theorem PsOps.of_emits {f : Nat} {ps ps' : PSend.State} {l : List Pending} (h : Emits f ps ps' l) :
    PsOps ps ps' [] := by
  induction h with
  | nil ps => exact PsOps.refl ps
  | cons he _ ih => simpa using (PsOps.emit he).trans ih

theorem PsOps.of_fragSteps {ps ps' : PSend.State} (h : FragSteps ps ps') : PsOps ps ps' [] := by
  induction h with
  | refl => exact PsOps.refl _
  | frag uid fid _ ih => simpa using ih.trans (PsOps.ackFragment _ uid fid)

/-- `is_send_pending()` spelled out: the send queue of the packet sender, the pending queue and the
resend queue are all empty. The send window is NOT consulted. -/
theorem not_pending_iff (s : State F) :
    isSendPending s = false ↔ s.ps.queue = [] ∧ s.pending = [] ∧ s.resend = #[] := by
  unfold isSendPending PSend.State.pendingCount
  rw [decide_eq_false_iff_not]
  constructor
  · intro h
    have h3 : s.ps.queue.length = 0 ∧ s.pending.length = 0 ∧ s.resend.size = 0 := by omega
    exact ⟨List.eq_nil_of_length_eq_zero h3.1, List.eq_nil_of_length_eq_zero h3.2.1,
      Array.eq_empty_of_size_eq_zero h3.2.2⟩
  · rintro ⟨h1, h2, h3⟩
    rw [h1, h2, h3]
    simp

/-! ### one event of a half connection -/

/-- The queue entry an event submits to the packet sender: `send` stamps the current flush id. -/
def sendOf (s : State F) : Ev → List QEntry
  | .send d c m => [{ data := d, channelId := c, mode := m, flushId := s.flushId }]
  | _ => []

theorem flush_psOps {pend : List Pending} (s s' : State F) (out : List (List Nat))
    (hA : AInv pend s.ps) (hf : flush s = .ok (s', out)) :
    (∃ pend', AInv pend' s'.ps) ∧ PsOps s.ps s'.ps [] := by
  obtain ⟨l, hem, ha, _, _⟩ := flush_spec s s' out hA hf
  exact ⟨⟨_, ha⟩, PsOps.of_emits hem⟩

theorem ackFrame_psOps {pend : List Pending} (s s' : State F) (fb pb : Nat) (acks : List AckGroup)
    (hA : AInv pend s.ps) (hf : handleAckFrame s fb pb acks = .ok s') :
    AInv pend s'.ps ∧ PsOps s.ps s'.ps [] := by
  obtain ⟨_, ps1, h1, h2⟩ := handleAckFrame_spec s s' fb pb acks hf
  exact ⟨ainv_acknowledge (h1.ainv hA) pb h2, by simpa using (PsOps.of_fragSteps h1).trans (PsOps.ack h2)⟩

/-- **Every event acts on the packet sender through packet sender operations.** -/
theorem exec_psOps (ops : FloatOps F) {pend : List Pending} (s s1 : State F) (ev : Ev)
    (out : List (List Nat)) (hA : AInv pend s.ps) (hok : ev.Ok) (he : exec ops s ev = .ok (s1, out)) :
    (∃ pend', AInv pend' s1.ps) ∧ PsOps s.ps s1.ps (sendOf s ev) := by
  cases ev with
  | step now =>
    simp only [exec] at he
    generalize hs : HalfConn.step ops s now = r at he
    cases r with
    | error t => cases he
    | ok s2 =>
      simp only [Except.map, Except.ok.injEq, Prod.mk.injEq] at he
      obtain ⟨rfl, _⟩ := he
      obtain ⟨hp, _⟩ := step_spec ops s s2 now hs
      exact ⟨⟨pend, by rw [hp]; exact hA⟩, PsOps.of_eq hp⟩
  | flush =>
    simp only [exec] at he
    exact flush_psOps s s1 out hA he
  | send d c m =>
    simp only [exec, Except.ok.injEq, Prod.mk.injEq] at he
    obtain ⟨rfl, _⟩ := he
    exact ⟨⟨pend, ainv_enqueue hA d c m _ hok⟩, PsOps.enqueue _ d c m _⟩
  | receive =>
    simp only [exec] at he
    generalize hs : HalfConn.receive s = r at he
    cases r with
    | error t => cases he
    | ok v =>
      simp only [Except.map, Except.ok.injEq, Prod.mk.injEq] at he
      obtain ⟨rfl, _⟩ := he
      obtain ⟨hp, _⟩ := receive_spec s v.1 v.2 hs
      exact ⟨⟨pend, by rw [hp]; exact hA⟩, PsOps.of_eq hp⟩
  | dataFrame id nonce dgs =>
    simp only [exec] at he
    generalize hs : handleDataFrame s id nonce dgs = r at he
    cases r with
    | error t => cases he
    | ok s2 =>
      simp only [Except.map, Except.ok.injEq, Prod.mk.injEq] at he
      obtain ⟨rfl, _⟩ := he
      obtain ⟨hp, _⟩ := handleDataFrame_spec s s2 id nonce dgs hs
      exact ⟨⟨pend, by rw [hp]; exact hA⟩, PsOps.of_eq hp⟩
  | syncFrame nf np =>
    simp only [exec] at he
    generalize hs : handleSyncFrame s nf np = r at he
    cases r with
    | error t => cases he
    | ok s2 =>
      simp only [Except.map, Except.ok.injEq, Prod.mk.injEq] at he
      obtain ⟨rfl, _⟩ := he
      obtain ⟨hp, _⟩ := handleSyncFrame_spec s s2 nf np hs
      exact ⟨⟨pend, by rw [hp]; exact hA⟩, PsOps.of_eq hp⟩
  | ackFrame fb pb acks =>
    simp only [exec] at he
    generalize hs : handleAckFrame s fb pb acks = r at he
    cases r with
    | error t => cases he
    | ok s2 =>
      simp only [Except.map, Except.ok.injEq, Prod.mk.injEq] at he
      obtain ⟨rfl, _⟩ := he
      obtain ⟨ha, hp⟩ := ackFrame_psOps s s2 fb pb acks hA hs
      exact ⟨⟨pend, ha⟩, hp⟩

/-! ### runs of one half connection -/

/-- The queue entries submitted by the `send` events of a run (with the flush id current at each
call); empty from the first trapping event on. -/
def sendsOf (ops : FloatOps F) : State F → List Ev → List QEntry
  | _, [] => []
  | s, ev :: rest =>
    match exec ops s ev with
    | .error _ => []
    | .ok (s1, _) => sendOf s ev ++ sendsOf ops s1 rest

theorem runEvs_psOps (ops : FloatOps F) (evs : List Ev) {pend : List Pending} (s s' : State F)
    (out : List (List Nat)) (hA : AInv pend s.ps) (hok : ∀ ev ∈ evs, ev.Ok)
    (hr : HcInv.runEvs ops s evs = .ok (s', out)) :
    (∃ pend', AInv pend' s'.ps) ∧ PsOps s.ps s'.ps (sendsOf ops s evs) := by
  induction evs generalizing s pend out with
  | nil =>
    simp only [HcInv.runEvs, Except.ok.injEq, Prod.mk.injEq] at hr
    obtain ⟨rfl, _⟩ := hr
    exact ⟨⟨pend, hA⟩, PsOps.refl _⟩
  | cons ev rest ih =>
    simp only [HcInv.runEvs] at hr
    cases he : exec ops s ev with
    | error t => rw [he] at hr; cases hr
    | ok v =>
      obtain ⟨s1, o1⟩ := v
      rw [he] at hr
      simp only [] at hr
      cases hr2 : HcInv.runEvs ops s1 rest with
      | error t => rw [hr2] at hr; cases hr
      | ok v2 =>
        obtain ⟨s2, o2⟩ := v2
        rw [hr2] at hr
        simp only [Except.ok.injEq, Prod.mk.injEq] at hr
        obtain ⟨rfl, _⟩ := hr
        obtain ⟨⟨pend1, hA1⟩, hp1⟩ := exec_psOps ops s s1 ev o1 hA (hok ev (by simp)) he
        obtain ⟨hA2, hp2⟩ := ih s1 o2 hA1 (fun e hm => hok e (by simp [hm])) hr2
        refine ⟨hA2, ?_⟩
        simp only [sendsOf, he]
        exact hp1.trans hp2

/-! ### runs of the pair: the sending half connection `A` -/

theorem stepP_psOps (ops : FloatOps F) {h h' : HcPair F} (hi : PairInv h) (op : POp)
    (hs : stepP ops h op = .ok h') :
    ∃ newq, h'.sent = h.sent ++ newq ∧ PsOps h.A.ps h'.A.ps newq := by
  cases op with
  | sendA d c m =>
    simp only [stepP] at hs
    split at hs
    · cases hs
      exact ⟨_, rfl, PsOps.enqueue _ d c m _⟩
    · cases hs; exact ⟨[], by simp, PsOps.refl _⟩
  | flushA =>
    simp only [stepP] at hs
    cases hf : flush h.A with
    | error t => rw [hf] at hs; cases hs
    | ok r =>
      obtain ⟨a', out⟩ := r
      rw [hf, bindR_ok] at hs
      cases hs
      exact ⟨[], by simp, (flush_psOps h.A a' out hi.a hf).2⟩
  | stepA now =>
    simp only [stepP] at hs
    cases hf : step ops h.A now with
    | error t => rw [hf] at hs; cases hs
    | ok a' =>
      rw [hf, bindR_ok] at hs
      cases hs
      exact ⟨[], by simp, PsOps.of_eq (step_spec ops h.A a' now hf).1⟩
  | deliverAB k =>
    simp only [stepP] at hs
    cases hk : h.wireAB[k]? with
    | none => rw [hk] at hs; cases hs; exact ⟨[], by simp, PsOps.refl _⟩
    | some bytes =>
      rw [hk] at hs
      simp only [] at hs
      cases hf : dispatch h.B (bytes.take MAX_FRAME_SIZE) with
      | error t => rw [hf] at hs; cases hs
      | ok b' => rw [hf, bindR_ok] at hs; cases hs; exact ⟨[], by simp, PsOps.refl _⟩
  | recvB =>
    simp only [stepP] at hs
    cases hf : receive h.B with
    | error t => rw [hf] at hs; cases hs
    | ok r => rw [hf, bindR_ok] at hs; cases hs; exact ⟨[], by simp, PsOps.refl _⟩
  | flushB =>
    simp only [stepP] at hs
    cases hf : flush h.B with
    | error t => rw [hf] at hs; cases hs
    | ok r => rw [hf, bindR_ok] at hs; cases hs; exact ⟨[], by simp, PsOps.refl _⟩
  | stepB now =>
    simp only [stepP] at hs
    cases hf : step ops h.B now with
    | error t => rw [hf] at hs; cases hs
    | ok b' => rw [hf, bindR_ok] at hs; cases hs; exact ⟨[], by simp, PsOps.refl _⟩
  | deliverBA k =>
    simp only [stepP] at hs
    cases hk : h.wireBA[k]? with
    | none => rw [hk] at hs; cases hs; exact ⟨[], by simp, PsOps.refl _⟩
    | some bytes =>
      rw [hk] at hs
      simp only [] at hs
      cases hf : dispatch h.A (bytes.take MAX_FRAME_SIZE) with
      | error t => rw [hf] at hs; cases hs
      | ok a' =>
        rw [hf, bindR_ok] at hs
        cases hs
        refine ⟨[], by simp, ?_⟩
        have hv := dispatch_view h.A a' _ hf
        cases hv with
        | skip h1 _ _ _ _ _ => exact PsOps.of_eq (by rw [h1])
        | data id nonce dgs _ h2 _ _ _ => exact PsOps.of_eq h2
        | sync nf np _ h2 _ _ _ => exact PsOps.of_eq h2
        | ack fb pb acks ps1 _ _ _ _ h5 h6 =>
          simpa using (PsOps.of_fragSteps h5).trans (PsOps.ack h6)

theorem runP_psOps (ops : FloatOps F) (sched : List POp) {h h' : HcPair F} (hi : PairInv h)
    (hr : runP ops h sched = .ok h') :
    ∃ newq, h'.sent = h.sent ++ newq ∧ PsOps h.A.ps h'.A.ps newq := by
  induction sched generalizing h with
  | nil => cases hr; exact ⟨[], by simp, PsOps.refl _⟩
  | cons op rest ih =>
    rw [runP] at hr
    cases hs : stepP ops h op with
    | error t => rw [hs] at hr; cases hr
    | ok h1 =>
      rw [hs, bindR_ok] at hr
      obtain ⟨q1, e1, p1⟩ := stepP_psOps ops hi op hs
      obtain ⟨q2, e2, p2⟩ := ih (pairInv_step ops hi op hs) hr
      exact ⟨q1 ++ q2, by rw [e2, e1, List.append_assoc], p1.trans p2⟩

end Uflow.HcFlush
